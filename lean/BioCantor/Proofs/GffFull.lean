/-
  C11 / T5 (complete) — `gffDecode` of the parsed export equals `expected c`.
  Part 1: bookkeeping lemmas (spans, decimal strings, row types, transfer of the decoder's filters from parsed rows
  to model rows).
-/
import BioCantor.Proofs.GffPRow
import BioCantor.Proofs.GffDecode
import BioCantor.Proofs.GffSort
namespace BioCantor.Proofs.GffFull
open BioCantor BioCantor.Model.Gff BioCantor.Proofs.GffRows BioCantor.Proofs.GffIds BioCantor.Proofs.GffDecode
open BioCantor.Proofs.GffPRow BioCantor.Proofs.GffSort BioCantor.Proofs.GffAttrEq BioCantor.Proofs.GffQuals
open BioCantor.Proofs.GffLine (phaseNat)
open BioCantor.Spec.Gff (Str Quals SCds STx SGene SFeat SFc SChild SColl PRow Info uuidShaped allGuids reservedReadsAs
  expectAttrs)

/-! ### spans -/

theorem minStart_good : ∀ {bs : List Blk}, goodBlocks bs = true → bs ≠ [] → Spec.Gff.minStart bs = some (firstStart bs)
  | [], _, h => absurd rfl h
  | [a], _, _ => rfl
  | a :: b :: rest, hg, _ => by
    have ih := minStart_good (goodBlocks_tail hg) (by simp)
    have hb := goodBlocks_bounds hg b (by simp)
    simp only [firstStart] at ih hb ⊢
    rw [Spec.Gff.minStart, ih]
    simp only [Option.some.injEq]
    exact Nat.min_eq_left (by omega)

theorem maxEnd_good : ∀ {bs : List Blk}, goodBlocks bs = true → bs ≠ [] → Spec.Gff.maxEnd bs = some (lastEnd bs)
  | [], _, h => absurd rfl h
  | [a], _, _ => rfl
  | a :: b :: rest, hg, _ => by
    have ih := maxEnd_good (goodBlocks_tail hg) (by simp : b :: rest ≠ [])
    have ha := goodBlocks_bounds hg a (by simp)
    rw [Spec.Gff.maxEnd, ih]
    simp only [Option.some.injEq, lastEnd] at ha ⊢
    exact Nat.max_eq_right (by omega)

theorem spanOf_good {bs : List Blk} (hg : goodBlocks bs = true) (hne : bs ≠ []) :
    Spec.Gff.spanOf bs = (firstStart bs, lastEnd bs) := by
  unfold Spec.Gff.spanOf
  rw [minStart_good hg hne, maxEnd_good hg hne]

theorem minStart_map : ∀ (l : List Blk), l ≠ [] → Spec.Gff.minStart l = some (minNat (l.map (·.1)))
  | [], h => absurd rfl h
  | [a], _ => rfl
  | a :: b :: rest, _ => by
    rw [Spec.Gff.minStart, minStart_map (b :: rest) (by simp)]
    rfl

theorem maxEnd_map : ∀ (l : List Blk), l ≠ [] → Spec.Gff.maxEnd l = some (maxNat (l.map (·.2)))
  | [], h => absurd rfl h
  | [a], _ => rfl
  | a :: b :: rest, _ => by
    rw [Spec.Gff.maxEnd, maxEnd_map (b :: rest) (by simp)]
    rfl

theorem spanOf_spans (l : List Blk) (h : l ≠ []) :
    Spec.Gff.spanOf l = (minNat (l.map (·.1)), maxNat (l.map (·.2))) := by
  unfold Spec.Gff.spanOf
  rw [minStart_map l h, maxEnd_map l h]

/-! ### decimal strings: the model's and the Spec's renderings agree -/

theorem digits_agree : ∀ (fuel n : Nat), (digitsRev fuel n).reverse = Spec.Gff.decDigits fuel n
  | 0, _ => rfl
  | f + 1, n => by
    simp only [digitsRev, Spec.Gff.decDigits, List.reverse_cons]
    by_cases h : n < 10
    · have h0 : n / 10 = 0 := by omega
      have hm : n % 10 = n := by omega
      simp [h, h0, hm]
    · have h0 : ¬ n / 10 = 0 := by omega
      simp only [h, h0, if_false, digits_agree f (n / 10)]

theorem natStr_agree (n : Nat) : Model.Gff.natStr n = Spec.Gff.natStr n := digits_agree (n + 1) n

/-! ### row types -/

theorem typeValue_inj (a b : RowType) : a.value = b.value ↔ a = b := by
  cases a <;> cases b <;> simp [RowType.value]

theorem tGene_eq : Spec.Gff.tGene = RowType.gene.value := rfl
theorem tTranscript_eq : Spec.Gff.tTranscript = RowType.transcript.value := rfl
theorem tExon_eq : Spec.Gff.tExon = RowType.exon.value := rfl
theorem tCDS_eq : Spec.Gff.tCDS = RowType.cds.value := rfl
theorem tFc_eq : Spec.Gff.tFc = RowType.featureCollection.value := rfl
theorem tFeat_eq : Spec.Gff.tFeat = RowType.featureInterval.value := rfl
theorem tSub_eq : Spec.Gff.tSub = RowType.subregion.value := rfl

/-! ### IDs and Parents of emitted rows are non-empty strings -/

theorem uuid_ne_nil {g : Str} (h : uuidShaped g = true) : g ≠ [] := by
  intro e
  have := uuid_length h
  rw [e] at this; cases this

theorem idOf_ne_nil {f : IdForm} {g : Str} {i : Nat} (hg : g ≠ []) : idOf f g i ≠ [] := by
  cases f <;> simp [idOf, exonPrefix, featurePrefix, hg]

theorem rr_of_ne {v : Str} (h : v ≠ []) : reservedReadsAs v = v := by simp [reservedReadsAs, h]

structure Hyp (cx : Ctx) (c : SColl) : Prop where
  wf : collWF cx.off c = true
  nd : (allGuids c).Nodup
  uu : ∀ g ∈ allGuids c, uuidShaped g = true

theorem row_id_ne {cx : Ctx} {c : SColl} (H : Hyp cx c) {r : Row} (hr : r ∈ sortedRows cx c) : r.attrs.id ≠ [] := by
  rw [mem_sortedRows] at hr
  unfold unsortedRows at hr
  obtain ⟨x, hx, hrx⟩ := List.mem_flatMap.mp hr
  obtain ⟨g, hg, f, i, hid⟩ := childRows_tagged hrx
  rw [hid]
  apply idOf_ne_nil
  apply uuid_ne_nil
  apply H.uu
  rw [allGuids_eq]
  exact List.mem_flatMap.mpr ⟨x, mem_sortedChildren.mp hx, hg⟩

theorem row_parent_ne {cx : Ctx} {c : SColl} (H : Hyp cx c) {r : Row} (hr : r ∈ sortedRows cx c) {p : Str}
    (hp : r.attrs.parent = some p) : p ≠ [] := by
  obtain ⟨q, hq, hid⟩ := sortedRows_parent H.wf r hr p hp
  have hqm : q ∈ sortedRows cx c := hq.subset (by simp)
  rw [← hid]
  exact row_id_ne H hqm

theorem toPRow_id' {cx : Ctx} {c : SColl} (H : Hyp cx c) {r : Row} (hr : r ∈ sortedRows cx c) :
    (toPRow r).id = some r.attrs.id := by
  rw [toPRow_id, rr_of_ne (row_id_ne H hr)]

theorem toPRow_parent' {cx : Ctx} {c : SColl} (H : Hyp cx c) {r : Row} (hr : r ∈ sortedRows cx c) :
    (toPRow r).parent = r.attrs.parent := by
  rw [toPRow_parent]
  cases hp : r.attrs.parent with
  | none => rfl
  | some p => simp [rr_of_ne (row_parent_ne H hr hp)]

/-! ### the decoder's filters, transferred to model rows -/

def isTop (ty : RowType) (r : Row) : Bool := decide (r.type = ty ∧ r.attrs.parent = none)

theorem filter_top {cx : Ctx} {c : SColl} (H : Hyp cx c) (ty : RowType) :
    ((sortedRows cx c).map toPRow).filter (fun r => decide (r.type = ty.value ∧ r.parent = none)) =
      ((sortedRows cx c).filter (isTop ty)).map toPRow := by
  rw [List.filter_map]
  congr 1
  apply List.filter_congr
  intro r hr
  simp only [Function.comp, isTop, toPRow_parent' H hr]
  have : (toPRow r).type = r.type.value := rfl
  simp only [this, typeValue_inj]

theorem filter_children {cx : Ctx} {c : SColl} (H : Hyp cx c) (ty : RowType) (g : Str) :
    Spec.Gff.childrenOf ((sortedRows cx c).map toPRow) ty.value (some g) =
      ((sortedRows cx c).filter (isChildOf ty g)).map toPRow := by
  unfold Spec.Gff.childrenOf
  simp only
  rw [List.filter_map]
  congr 1
  apply List.filter_congr
  intro r hr
  simp only [Function.comp, isChildOf, toPRow_parent' H hr]
  have : (toPRow r).type = r.type.value := rfl
  simp only [this, typeValue_inj]

/-! ## Part 2 — one transcript -/

def txHead (cx : Ctx) (g : SGene) (t : STx) : Row :=
  { seqid := cx.seqid, type := .transcript, start := firstStart t.exons - cx.off + 1,
    stop := lastEnd t.exons - cx.off, strand := t.strand, phase := .NONE,
    attrs := ⟨t.guid, some g.guid, t.sym, txExportQuals t (geneExportQuals g), cx.raise⟩ }

def geneHead (cx : Ctx) (g : SGene) : Row :=
  { seqid := cx.seqid, type := .gene, start := minNat (g.txs.map fun t => firstStart t.exons) - cx.off + 1,
    stop := maxNat (g.txs.map fun t => lastEnd t.exons) - cx.off, strand := .plus, phase := .NONE,
    attrs := ⟨g.guid, none, g.sym, geneExportQuals g, cx.raise⟩ }

abbrev tqOf (g : SGene) (t : STx) : Quals := txExportQuals t (geneExportQuals g)

theorem txRows_eq (cx : Ctx) (g : SGene) (t : STx) :
    txRows cx t g.guid (geneExportQuals g) = txHead cx g t :: exonRowsOf cx t (tqOf g t) ++ cdsRowsOf cx t (tqOf g t) := rfl

theorem geneRows_eq (cx : Ctx) (g : SGene) :
    geneRows cx g = geneHead cx g :: g.txs.flatMap fun t => txRows cx t g.guid (geneExportQuals g) := rfl

/-- every row of the export rendered -/
def Rendered (cx : Ctx) (c : SColl) : Prop := ∀ r ∈ sortedRows cx c, ∃ line, rowStr r = .ok line

/-- the frames the export pairs with the CDS blocks are the stored ones (always so in chromosome mode; in
    chunk-relative mode: no programmed frameshift) -/
def FramesKept (cx : Ctx) (c : SColl) : Prop :=
  ∀ g t k, SChild.gene g ∈ c.children → t ∈ g.txs → t.cds = some k → exportFrames cx t k = k.frames

theorem framesKept_chrom (cx : Ctx) (c : SColl) (h : cx.chunkRel = false) : FramesKept cx c := by
  intro g t k _ _ _
  simp [exportFrames, h]

theorem txRows_mem_sorted {cx : Ctx} {c : SColl} {g : SGene} {t : STx} (hg : SChild.gene g ∈ c.children)
    (ht : t ∈ g.txs) {r : Row} (hr : r ∈ txRows cx t g.guid (geneExportQuals g)) : r ∈ sortedRows cx c := by
  rw [mem_sortedRows]
  exact (txRows_sublist_sorted_source (cx := cx) hg ht).subset hr

theorem goodBlocks_strict {bs : List Blk} (h : goodBlocks bs = true) : bs.Pairwise (fun a b => a.1 < b.1) := by
  induction bs with
  | nil => simp
  | cons a rest ih =>
    rw [List.pairwise_cons]
    refine ⟨?_, ih (goodBlocks_tail h)⟩
    intro b hb
    cases rest with
    | nil => simp at hb
    | cons c r =>
      have h1 := goodBlocks_head h
      have hac : a.2 ≤ c.1 := by
        simp only [goodBlocks, Bool.and_eq_true, decide_eq_true_eq] at h; exact h.1.2
      have h2 := goodBlocks_bounds (goodBlocks_tail h) b hb
      simp only [firstStart] at h2
      omega

theorem blkLe2_of_lt {a b : Blk} (h : a.1 < b.1) : Spec.Gff.blkLe2 a b = true := by
  simp [Spec.Gff.blkLe2, h]

theorem filterMap_all_some {α β : Type} (f : α → Option β) (g : α → β) : ∀ (l : List α), (∀ x ∈ l, f x = some (g x)) →
    l.filterMap f = l.map g
  | [], _ => rfl
  | a :: l, h => by
    rw [List.filterMap_cons, h a List.mem_cons_self, List.map_cons,
      filterMap_all_some f g l (fun x hx => h x (List.mem_cons_of_mem _ hx))]

theorem frame_roundtrip (f : CDSFrame) (h : f ≠ .NONE) :
    (match phaseNat (toPhase f) with
     | some p => (Spec.Gff.frameOfPhase p)
     | none => none) = some f := by
  cases f <;> first | exact absurd rfl h | rfl

theorem toPRow_blk (off : Nat) (r : Row) : (toPRow r).blk off = rowBlk off r := rfl

/-- the transcript read back from the parsed, sorted export is the Spec's expected transcript -/
theorem decodeTx_eq {cx : Ctx} {c : SColl} (H : Hyp cx c) (hR : Rendered cx c) (hF : FramesKept cx c)
    {g : SGene} {t : STx} (hg : SChild.gene g ∈ c.children) (ht : t ∈ g.txs) :
    Spec.Gff.decodeTx cx.off ((sortedRows cx c).map toPRow) (toPRow (txHead cx g t)) = Spec.Gff.expectTx g t := by
  have htw := geneWF_tx (collWF_gene H.wf hg) ht
  obtain ⟨hne, hgood, hoff, hcds⟩ := txWF_parts htw
  have hch := tx_children_in_sorted H.wf H.nd H.uu hg ht
  have hhd : txHead cx g t ∈ sortedRows cx c := txRows_mem_sorted hg ht (by rw [txRows_eq]; exact List.mem_cons_self)
  have hexm : ∀ r ∈ exonRowsOf cx t (tqOf g t), r ∈ sortedRows cx c := fun r hr =>
    txRows_mem_sorted hg ht (by rw [txRows_eq]; exact List.mem_cons_of_mem _ (List.mem_append_left _ hr))
  have hcdm : ∀ r ∈ cdsRowsOf cx t (tqOf g t), r ∈ sortedRows cx c := fun r hr =>
    txRows_mem_sorted hg ht (by rw [txRows_eq]; exact List.mem_cons_of_mem _ (List.mem_append_right _ hr))
  have hattr_tx : ∀ r ∈ sortedRows cx c, r.attrs.quals = tqOf g t → (toPRow r).info.attrs = expectAttrs (Spec.Gff.txQuals g t) := by
    intro r hr hq
    obtain ⟨line, hl⟩ := hR r hr
    rw [toPRow_info_attrs r line hl, hq]
    exact expectAttrs_congr (tx_quals_rel g t)
  have hguid : t.guid ≠ [] := uuid_ne_nil (H.uu _ (by
    rw [allGuids_eq]; exact List.mem_flatMap.mpr ⟨_, hg, txGuid_mem_child ht⟩))
  unfold Spec.Gff.decodeTx Spec.Gff.expectTx
  rw [toPRow_id' H hhd]
  have hid : (txHead cx g t).attrs.id = t.guid := rfl
  rw [hid, tExon_eq, tCDS_eq, filter_children H, filter_children H, hch.1, hch.2]
  -- the exon / CDS rows are already in coordinate order
  have hsE : Spec.Gff.sortBy (fun a b : PRow => Spec.Gff.blkLe2 (a.blk cx.off) (b.blk cx.off))
      ((exonRowsOf cx t (tqOf g t)).map toPRow) = (exonRowsOf cx t (tqOf g t)).map toPRow := by
    apply sortBy_of_sorted
    rw [List.pairwise_map]
    have hb := exonRowsOf_blocks (cx := cx) (tqOf g t) htw
    have hp : ((exonRowsOf cx t (tqOf g t)).map (rowBlk cx.off)).Pairwise (fun a b => a.1 < b.1) := by
      rw [hb]; exact goodBlocks_strict hgood
    exact (List.pairwise_map.mp hp).imp (fun h => blkLe2_of_lt h)
  have hsC : Spec.Gff.sortBy (fun a b : PRow => Spec.Gff.blkLe2 (a.blk cx.off) (b.blk cx.off))
      ((cdsRowsOf cx t (tqOf g t)).map toPRow) = (cdsRowsOf cx t (tqOf g t)).map toPRow := by
    apply sortBy_of_sorted
    rw [List.pairwise_map]
    cases hk : t.cds with
    | none => simp [cdsRowsOf, hk]
    | some k =>
      have hkw := hcds k hk
      unfold cdsWF at hkw
      simp only [Bool.and_eq_true] at hkw
      have hb := cdsRowsOf_blocks (cx := cx) (tqOf g t) hk htw
      have hp : ((cdsRowsOf cx t (tqOf g t)).map (fun r => (rowBlk cx.off r, r.phase))).Pairwise
          (fun a b => a.1.1 < b.1.1) := by
        rw [hb, List.pairwise_map]
        exact (pairwise_zip_fst _ (goodBlocks_strict hkw.1.1.1)).imp (fun h => h)
      exact (List.pairwise_map.mp hp).imp (fun h => blkLe2_of_lt h)
  rw [hsE, hsC]
  -- field by field
  have hinfo : (toPRow (txHead cx g t)).info =
      ⟨some t.guid, Spec.Gff.optName t.sym, expectAttrs (Spec.Gff.txQuals g t)⟩ := by
    unfold PRow.info
    rw [toPRow_id' H hhd, toPRow_name]
    have := hattr_tx _ hhd rfl
    unfold PRow.info at this
    simp only at this
    rw [this]
    rfl
  have hspan : (toPRow (txHead cx g t)).blk cx.off = Spec.Gff.spanOf t.exons := by
    rw [spanOf_good hgood hne, toPRow_blk]
    have := goodBlocks_span hgood hne
    simp only [rowBlk, txHead, Prod.mk.injEq]
    omega
  have hex : ((exonRowsOf cx t (tqOf g t)).map toPRow).map (fun r => (r.blk cx.off, r.strand, r.info)) =
      (Spec.Gff.zipIdx t.exons).map fun p =>
        (p.2, t.strand, (⟨some (['e', 'x', 'o', 'n', '-'] ++ t.guid ++ ['-'] ++ Spec.Gff.natStr p.1),
          Spec.Gff.optName t.sym, expectAttrs (Spec.Gff.txQuals g t)⟩ : Info)) := by
    unfold exonRowsOf
    rw [List.map_map, List.map_map]
    show (enumFrom1 t.exons).map _ = (enumFrom1 t.exons).map _
    apply List.map_congr_left
    intro p hp
    have hb := goodBlocks_bounds hgood p.2 (mem_enumFrom1 hp).1
    have hrm : _ ∈ sortedRows cx c := hexm _ (List.mem_map.mpr ⟨p, hp, rfl⟩)
    simp only [Function.comp]
    refine Prod.ext ?_ (Prod.ext rfl ?_)
    · simp only [toPRow_blk, rowBlk]
      ext <;> simp <;> omega
    · simp only
      unfold PRow.info
      rw [toPRow_id' H hrm, toPRow_name]
      have := hattr_tx _ hrm rfl
      unfold PRow.info at this
      simp only at this
      rw [this]
      simp only [Info.mk.injEq, Option.some.injEq, true_and, and_true, natStr_agree, Spec.Gff.optName]
      simp
  dsimp only
  rw [hinfo, hspan, hex]
  congr 1
  -- CDS blocks with frames
  cases hk : t.cds with
  | none => simp [cdsRowsOf, hk]
  | some k =>
    have hkw := hcds k hk
    unfold cdsWF at hkw
    simp only [Bool.and_eq_true, List.all_eq_true, decide_eq_true_eq] at hkw
    obtain ⟨⟨⟨hkg, hkin⟩, _⟩, hfr⟩ := hkw
    have hkguid : k.guid ≠ [] := uuid_ne_nil (H.uu _ (by
      rw [allGuids_eq]
      refine List.mem_flatMap.mpr ⟨_, hg, ?_⟩
      unfold childGuids
      refine List.mem_cons_of_mem _ (List.mem_flatMap.mpr ⟨t, ht, ?_⟩)
      unfold txGuids; rw [hk]; simp))
    have hattr_cds : ∀ r ∈ sortedRows cx c, r.attrs.quals = cdsExportQuals t (tqOf g t) →
        (toPRow r).info.attrs = expectAttrs (Spec.Gff.cdsQuals g t) := by
      intro r hr hq
      obtain ⟨line, hl⟩ := hR r hr
      rw [toPRow_info_attrs r line hl, hq]
      exact expectAttrs_congr (cds_quals_rel g t)
    simp only
    have hcr : cdsRowsOf cx t (tqOf g t) = cdsRows cx t k t.guid (tqOf g t) := by unfold cdsRowsOf; rw [hk]
    have hcdm' : ∀ r ∈ cdsRows cx t k t.guid (tqOf g t), r ∈ sortedRows cx c := by rw [← hcr]; exact hcdm
    rw [hcr]
    unfold cdsRows
    rw [hF g t k hg ht hk] at *
    rw [List.map_map, List.filterMap_map]
    show List.filterMap _ (enumFrom1 (k.blocks.zip k.frames)) = List.map _ (enumFrom1 (k.blocks.zip k.frames))
    apply filterMap_all_some
    intro p hp
    have hm := List.of_mem_zip (mem_enumFrom1 hp).1
    have hb := goodBlocks_bounds hkg p.2.1 hm.1
    have hin := hkin p.2.1 hm.1
    have hfn : p.2.2 ≠ .NONE := by simpa using hfr p.2.2 hm.2
    have hrm : _ ∈ sortedRows cx c := hcdm' _ (by
      unfold cdsRows
      rw [hF g t k hg ht hk]
      exact List.mem_map.mpr ⟨p, hp, rfl⟩)
    simp only [Function.comp]
    have hph : (toPRow ({ seqid := cx.seqid, type := .cds, start := p.2.1.1 - cx.off + 1, stop := p.2.1.2 - cx.off,
        strand := t.strand, phase := toPhase p.2.2,
        attrs := ⟨k.guid ++ '-' :: Model.Gff.natStr p.1, some t.guid, t.pid, cdsExportQuals t (tqOf g t), cx.raise⟩ } : Row)).phase
        = phaseNat (toPhase p.2.2) := rfl
    rw [hph]
    have hfr2 := frame_roundtrip p.2.2 hfn
    cases hq : phaseNat (toPhase p.2.2) with
    | none => rw [hq] at hfr2; cases hfr2
    | some ph =>
      rw [hq] at hfr2
      simp only at hfr2 ⊢
      rw [hfr2]
      simp only [Option.map_some, Option.some.injEq]
      refine Prod.ext ?_ (Prod.ext rfl (Prod.ext rfl ?_))
      · simp only [toPRow_blk, rowBlk]
        ext <;> simp <;> omega
      · simp only
        unfold PRow.info
        rw [toPRow_id' H hrm, toPRow_name]
        have := hattr_cds _ hrm rfl
        unfold PRow.info at this
        simp only at this
        rw [this]
        simp only [Info.mk.injEq, Option.some.injEq, true_and, and_true, natStr_agree, Spec.Gff.optName]
        simp

end BioCantor.Proofs.GffFull
