/-
  C11 / T5 (complete) — `gffDecode` of the parsed export equals `expected c`.
  Part 1: bookkeeping lemmas (spans, decimal strings, row types, transfer of the decoder's filters from parsed rows
  to model rows).
-/
import BioCantor.Proofs.GffPRow
import BioCantor.Proofs.GffDecode
import BioCantor.Proofs.GffSort
namespace BioCantor.Proofs.GffFull
open BioCantor BioCantor.Model.Gff BioCantor.Proofs.GffRows BioCantor.Proofs.GffIds BioCantor.Proofs.GffDecode
open BioCantor.Proofs.GffPRow BioCantor.Proofs.GffSort BioCantor.Proofs.GffAttrEq BioCantor.Proofs.GffQuals
open BioCantor.Proofs.GffLine (phaseNat)
open BioCantor.Spec.Gff (Str Quals SCds STx SGene SFeat SFc SChild SColl PRow Info uuidShaped allGuids reservedReadsAs
  expectAttrs)

/-! ### spans -/

theorem minStart_good : ∀ {bs : List Blk}, goodBlocks bs = true → bs ≠ [] → Spec.Gff.minStart bs = some (firstStart bs)
  | [], _, h => absurd rfl h
  | [a], _, _ => rfl
  | a :: b :: rest, hg, _ => by
    have ih := minStart_good (goodBlocks_tail hg) (by simp)
    have hb := goodBlocks_bounds hg b (by simp)
    simp only [firstStart] at ih hb ⊢
    rw [Spec.Gff.minStart, ih]
    simp only [Option.some.injEq]
    exact Nat.min_eq_left (by omega)

theorem maxEnd_good : ∀ {bs : List Blk}, goodBlocks bs = true → bs ≠ [] → Spec.Gff.maxEnd bs = some (lastEnd bs)
  | [], _, h => absurd rfl h
  | [a], _, _ => rfl
  | a :: b :: rest, hg, _ => by
    have ih := maxEnd_good (goodBlocks_tail hg) (by simp : b :: rest ≠ [])
    have ha := goodBlocks_bounds hg a (by simp)
    rw [Spec.Gff.maxEnd, ih]
    simp only [Option.some.injEq, lastEnd] at ha ⊢
    exact Nat.max_eq_right (by omega)

theorem spanOf_good {bs : List Blk} (hg : goodBlocks bs = true) (hne : bs ≠ []) :
    Spec.Gff.spanOf bs = (firstStart bs, lastEnd bs) := by
  unfold Spec.Gff.spanOf
  rw [minStart_good hg hne, maxEnd_good hg hne]

theorem minStart_map : ∀ (l : List Blk), l ≠ [] → Spec.Gff.minStart l = some (minNat (l.map (·.1)))
  | [], h => absurd rfl h
  | [a], _ => rfl
  | a :: b :: rest, _ => by
    rw [Spec.Gff.minStart, minStart_map (b :: rest) (by simp)]
    rfl

theorem maxEnd_map : ∀ (l : List Blk), l ≠ [] → Spec.Gff.maxEnd l = some (maxNat (l.map (·.2)))
  | [], h => absurd rfl h
  | [a], _ => rfl
  | a :: b :: rest, _ => by
    rw [Spec.Gff.maxEnd, maxEnd_map (b :: rest) (by simp)]
    rfl

theorem spanOf_spans (l : List Blk) (h : l ≠ []) :
    Spec.Gff.spanOf l = (minNat (l.map (·.1)), maxNat (l.map (·.2))) := by
  unfold Spec.Gff.spanOf
  rw [minStart_map l h, maxEnd_map l h]

/-! ### decimal strings: the model's and the Spec's renderings agree -/

theorem digits_agree : ∀ (fuel n : Nat), (digitsRev fuel n).reverse = Spec.Gff.decDigits fuel n
  | 0, _ => rfl
  | f + 1, n => by
    simp only [digitsRev, Spec.Gff.decDigits, List.reverse_cons]
    by_cases h : n < 10
    · have h0 : n / 10 = 0 := by omega
      have hm : n % 10 = n := by omega
      simp [h, h0, hm]
    · have h0 : ¬ n / 10 = 0 := by omega
      simp only [h, h0, if_false, digits_agree f (n / 10)]

theorem natStr_agree (n : Nat) : Model.Gff.natStr n = Spec.Gff.natStr n := digits_agree (n + 1) n

/-! ### row types -/

theorem typeValue_inj (a b : RowType) : a.value = b.value ↔ a = b := by
  cases a <;> cases b <;> simp [RowType.value]

theorem tGene_eq : Spec.Gff.tGene = RowType.gene.value := rfl
theorem tTranscript_eq : Spec.Gff.tTranscript = RowType.transcript.value := rfl
theorem tExon_eq : Spec.Gff.tExon = RowType.exon.value := rfl
theorem tCDS_eq : Spec.Gff.tCDS = RowType.cds.value := rfl
theorem tFc_eq : Spec.Gff.tFc = RowType.featureCollection.value := rfl
theorem tFeat_eq : Spec.Gff.tFeat = RowType.featureInterval.value := rfl
theorem tSub_eq : Spec.Gff.tSub = RowType.subregion.value := rfl

/-! ### IDs and Parents of emitted rows are non-empty strings -/

theorem uuid_ne_nil {g : Str} (h : uuidShaped g = true) : g ≠ [] := by
  intro e
  have := uuid_length h
  rw [e] at this; cases this

theorem idOf_ne_nil {f : IdForm} {g : Str} {i : Nat} (hg : g ≠ []) : idOf f g i ≠ [] := by
  cases f <;> simp [idOf, exonPrefix, featurePrefix, hg]

theorem rr_of_ne {v : Str} (h : v ≠ []) : reservedReadsAs v = v := by simp [reservedReadsAs, h]

structure Hyp (cx : Ctx) (c : SColl) : Prop where
  wf : collWF cx.off c = true
  nd : (allGuids c).Nodup
  uu : ∀ g ∈ allGuids c, uuidShaped g = true

theorem row_id_ne {cx : Ctx} {c : SColl} (H : Hyp cx c) {r : Row} (hr : r ∈ sortedRows cx c) : r.attrs.id ≠ [] := by
  rw [mem_sortedRows] at hr
  unfold unsortedRows at hr
  obtain ⟨x, hx, hrx⟩ := List.mem_flatMap.mp hr
  obtain ⟨g, hg, f, i, hid⟩ := childRows_tagged hrx
  rw [hid]
  apply idOf_ne_nil
  apply uuid_ne_nil
  apply H.uu
  rw [allGuids_eq]
  exact List.mem_flatMap.mpr ⟨x, mem_sortedChildren.mp hx, hg⟩

theorem row_parent_ne {cx : Ctx} {c : SColl} (H : Hyp cx c) {r : Row} (hr : r ∈ sortedRows cx c) {p : Str}
    (hp : r.attrs.parent = some p) : p ≠ [] := by
  obtain ⟨q, hq, hid⟩ := sortedRows_parent H.wf r hr p hp
  have hqm : q ∈ sortedRows cx c := hq.subset (by simp)
  rw [← hid]
  exact row_id_ne H hqm

theorem toPRow_id' {cx : Ctx} {c : SColl} (H : Hyp cx c) {r : Row} (hr : r ∈ sortedRows cx c) :
    (toPRow r).id = some r.attrs.id := by
  rw [toPRow_id, rr_of_ne (row_id_ne H hr)]

theorem toPRow_parent' {cx : Ctx} {c : SColl} (H : Hyp cx c) {r : Row} (hr : r ∈ sortedRows cx c) :
    (toPRow r).parent = r.attrs.parent := by
  rw [toPRow_parent]
  cases hp : r.attrs.parent with
  | none => rfl
  | some p => simp [rr_of_ne (row_parent_ne H hr hp)]

/-! ### the decoder's filters, transferred to model rows -/

def isTop (ty : RowType) (r : Row) : Bool := decide (r.type = ty ∧ r.attrs.parent = none)

theorem filter_top {cx : Ctx} {c : SColl} (H : Hyp cx c) (ty : RowType) :
    ((sortedRows cx c).map toPRow).filter (fun r => decide (r.type = ty.value ∧ r.parent = none)) =
      ((sortedRows cx c).filter (isTop ty)).map toPRow := by
  rw [List.filter_map]
  congr 1
  apply List.filter_congr
  intro r hr
  simp only [Function.comp, isTop, toPRow_parent' H hr]
  have : (toPRow r).type = r.type.value := rfl
  simp only [this, typeValue_inj]

theorem filter_children {cx : Ctx} {c : SColl} (H : Hyp cx c) (ty : RowType) (g : Str) :
    Spec.Gff.childrenOf ((sortedRows cx c).map toPRow) ty.value (some g) =
      ((sortedRows cx c).filter (isChildOf ty g)).map toPRow := by
  unfold Spec.Gff.childrenOf
  simp only
  rw [List.filter_map]
  congr 1
  apply List.filter_congr
  intro r hr
  simp only [Function.comp, isChildOf, toPRow_parent' H hr]
  have : (toPRow r).type = r.type.value := rfl
  simp only [this, typeValue_inj]

/-! ## Part 2 — one transcript -/

def txHead (cx : Ctx) (g : SGene) (t : STx) : Row :=
  { seqid := cx.seqid, type := .transcript, start := firstStart t.exons - cx.off + 1,
    stop := lastEnd t.exons - cx.off, strand := t.strand, phase := .NONE,
    attrs := ⟨t.guid, some g.guid, t.sym, txExportQuals t (geneExportQuals g), cx.raise⟩ }

def geneHead (cx : Ctx) (g : SGene) : Row :=
  { seqid := cx.seqid, type := .gene, start := minNat (g.txs.map fun t => firstStart t.exons) - cx.off + 1,
    stop := maxNat (g.txs.map fun t => lastEnd t.exons) - cx.off, strand := .plus, phase := .NONE,
    attrs := ⟨g.guid, none, g.sym, geneExportQuals g, cx.raise⟩ }

abbrev tqOf (g : SGene) (t : STx) : Quals := txExportQuals t (geneExportQuals g)

theorem txRows_eq (cx : Ctx) (g : SGene) (t : STx) :
    txRows cx t g.guid (geneExportQuals g) = txHead cx g t :: exonRowsOf cx t (tqOf g t) ++ cdsRowsOf cx t (tqOf g t) := rfl

theorem geneRows_eq (cx : Ctx) (g : SGene) :
    geneRows cx g = geneHead cx g :: g.txs.flatMap fun t => txRows cx t g.guid (geneExportQuals g) := rfl

/-- every row of the export rendered -/
def Rendered (cx : Ctx) (c : SColl) : Prop := ∀ r ∈ sortedRows cx c, ∃ line, rowStr r = .ok line

/-- the frames the export pairs with the CDS blocks are the stored ones (always so in chromosome mode; in
    chunk-relative mode: no programmed frameshift) -/
def FramesKept (cx : Ctx) (c : SColl) : Prop :=
  ∀ g t k, SChild.gene g ∈ c.children → t ∈ g.txs → t.cds = some k → exportFrames cx t k = k.frames

theorem framesKept_chrom (cx : Ctx) (c : SColl) (h : cx.chunkRel = false) : FramesKept cx c := by
  intro g t k _ _ _
  simp [exportFrames, h]

theorem txRows_mem_sorted {cx : Ctx} {c : SColl} {g : SGene} {t : STx} (hg : SChild.gene g ∈ c.children)
    (ht : t ∈ g.txs) {r : Row} (hr : r ∈ txRows cx t g.guid (geneExportQuals g)) : r ∈ sortedRows cx c := by
  rw [mem_sortedRows]
  exact (txRows_sublist_sorted_source (cx := cx) hg ht).subset hr

theorem goodBlocks_strict {bs : List Blk} (h : goodBlocks bs = true) : bs.Pairwise (fun a b => a.1 < b.1) := by
  induction bs with
  | nil => simp
  | cons a rest ih =>
    rw [List.pairwise_cons]
    refine ⟨?_, ih (goodBlocks_tail h)⟩
    intro b hb
    cases rest with
    | nil => simp at hb
    | cons c r =>
      have h1 := goodBlocks_head h
      have hac : a.2 ≤ c.1 := by
        simp only [goodBlocks, Bool.and_eq_true, decide_eq_true_eq] at h; exact h.1.2
      have h2 := goodBlocks_bounds (goodBlocks_tail h) b hb
      simp only [firstStart] at h2
      omega

theorem blkLe2_of_lt {a b : Blk} (h : a.1 < b.1) : Spec.Gff.blkLe2 a b = true := by
  simp [Spec.Gff.blkLe2, h]

theorem filterMap_all_some {α β : Type} (f : α → Option β) (g : α → β) : ∀ (l : List α), (∀ x ∈ l, f x = some (g x)) →
    l.filterMap f = l.map g
  | [], _ => rfl
  | a :: l, h => by
    rw [List.filterMap_cons, h a List.mem_cons_self, List.map_cons,
      filterMap_all_some f g l (fun x hx => h x (List.mem_cons_of_mem _ hx))]

theorem frame_roundtrip (f : CDSFrame) (h : f ≠ .NONE) :
    (match phaseNat (toPhase f) with
     | some p => (Spec.Gff.frameOfPhase p)
     | none => none) = some f := by
  cases f <;> first | exact absurd rfl h | rfl

theorem toPRow_blk (off : Nat) (r : Row) : (toPRow r).blk off = rowBlk off r := rfl

/-- the transcript read back from the parsed, sorted export is the Spec's expected transcript -/
theorem decodeTx_eq {cx : Ctx} {c : SColl} (H : Hyp cx c) (hR : Rendered cx c) (hF : FramesKept cx c)
    {g : SGene} {t : STx} (hg : SChild.gene g ∈ c.children) (ht : t ∈ g.txs) :
    Spec.Gff.decodeTx cx.off ((sortedRows cx c).map toPRow) (toPRow (txHead cx g t)) = Spec.Gff.expectTx g t := by
  have htw := geneWF_tx (collWF_gene H.wf hg) ht
  obtain ⟨hne, hgood, hoff, hcds⟩ := txWF_parts htw
  have hch := tx_children_in_sorted H.wf H.nd H.uu hg ht
  have hhd : txHead cx g t ∈ sortedRows cx c := txRows_mem_sorted hg ht (by rw [txRows_eq]; exact List.mem_cons_self)
  have hexm : ∀ r ∈ exonRowsOf cx t (tqOf g t), r ∈ sortedRows cx c := fun r hr =>
    txRows_mem_sorted hg ht (by rw [txRows_eq]; exact List.mem_cons_of_mem _ (List.mem_append_left _ hr))
  have hcdm : ∀ r ∈ cdsRowsOf cx t (tqOf g t), r ∈ sortedRows cx c := fun r hr =>
    txRows_mem_sorted hg ht (by rw [txRows_eq]; exact List.mem_cons_of_mem _ (List.mem_append_right _ hr))
  have hattr_tx : ∀ r ∈ sortedRows cx c, r.attrs.quals = tqOf g t → (toPRow r).info.attrs = expectAttrs (Spec.Gff.txQuals g t) := by
    intro r hr hq
    obtain ⟨line, hl⟩ := hR r hr
    rw [toPRow_info_attrs r line hl, hq]
    exact expectAttrs_congr (tx_quals_rel g t)
  have hguid : t.guid ≠ [] := uuid_ne_nil (H.uu _ (by
    rw [allGuids_eq]; exact List.mem_flatMap.mpr ⟨_, hg, txGuid_mem_child ht⟩))
  unfold Spec.Gff.decodeTx Spec.Gff.expectTx
  rw [toPRow_id' H hhd]
  have hid : (txHead cx g t).attrs.id = t.guid := rfl
  rw [hid, tExon_eq, tCDS_eq, filter_children H, filter_children H, hch.1, hch.2]
  -- the exon / CDS rows are already in coordinate order
  have hsE : Spec.Gff.sortBy (fun a b : PRow => Spec.Gff.blkLe2 (a.blk cx.off) (b.blk cx.off))
      ((exonRowsOf cx t (tqOf g t)).map toPRow) = (exonRowsOf cx t (tqOf g t)).map toPRow := by
    apply sortBy_of_sorted
    rw [List.pairwise_map]
    have hb := exonRowsOf_blocks (cx := cx) (tqOf g t) htw
    have hp : ((exonRowsOf cx t (tqOf g t)).map (rowBlk cx.off)).Pairwise (fun a b => a.1 < b.1) := by
      rw [hb]; exact goodBlocks_strict hgood
    exact (List.pairwise_map.mp hp).imp (fun h => blkLe2_of_lt h)
  have hsC : Spec.Gff.sortBy (fun a b : PRow => Spec.Gff.blkLe2 (a.blk cx.off) (b.blk cx.off))
      ((cdsRowsOf cx t (tqOf g t)).map toPRow) = (cdsRowsOf cx t (tqOf g t)).map toPRow := by
    apply sortBy_of_sorted
    rw [List.pairwise_map]
    cases hk : t.cds with
    | none => simp [cdsRowsOf, hk]
    | some k =>
      have hkw := hcds k hk
      unfold cdsWF at hkw
      simp only [Bool.and_eq_true] at hkw
      have hb := cdsRowsOf_blocks (cx := cx) (tqOf g t) hk htw
      have hp : ((cdsRowsOf cx t (tqOf g t)).map (fun r => (rowBlk cx.off r, r.phase))).Pairwise
          (fun a b => a.1.1 < b.1.1) := by
        rw [hb, List.pairwise_map]
        exact (pairwise_zip_fst _ (goodBlocks_strict hkw.1.1.1)).imp (fun h => h)
      exact (List.pairwise_map.mp hp).imp (fun h => blkLe2_of_lt h)
  rw [hsE, hsC]
  -- field by field
  have hinfo : (toPRow (txHead cx g t)).info =
      ⟨some t.guid, Spec.Gff.optName t.sym, expectAttrs (Spec.Gff.txQuals g t)⟩ := by
    unfold PRow.info
    rw [toPRow_id' H hhd, toPRow_name]
    have := hattr_tx _ hhd rfl
    unfold PRow.info at this
    simp only at this
    rw [this]
    rfl
  have hspan : (toPRow (txHead cx g t)).blk cx.off = Spec.Gff.spanOf t.exons := by
    rw [spanOf_good hgood hne, toPRow_blk]
    have := goodBlocks_span hgood hne
    simp only [rowBlk, txHead, Prod.mk.injEq]
    omega
  have hex : ((exonRowsOf cx t (tqOf g t)).map toPRow).map (fun r => (r.blk cx.off, r.strand, r.info)) =
      (Spec.Gff.zipIdx t.exons).map fun p =>
        (p.2, t.strand, (⟨some (['e', 'x', 'o', 'n', '-'] ++ t.guid ++ ['-'] ++ Spec.Gff.natStr p.1),
          Spec.Gff.optName t.sym, expectAttrs (Spec.Gff.txQuals g t)⟩ : Info)) := by
    unfold exonRowsOf
    rw [List.map_map, List.map_map]
    show (enumFrom1 t.exons).map _ = (enumFrom1 t.exons).map _
    apply List.map_congr_left
    intro p hp
    have hb := goodBlocks_bounds hgood p.2 (mem_enumFrom1 hp).1
    have hrm : _ ∈ sortedRows cx c := hexm _ (List.mem_map.mpr ⟨p, hp, rfl⟩)
    simp only [Function.comp]
    refine Prod.ext ?_ (Prod.ext rfl ?_)
    · simp only [toPRow_blk, rowBlk]
      ext <;> simp <;> omega
    · simp only
      unfold PRow.info
      rw [toPRow_id' H hrm, toPRow_name]
      have := hattr_tx _ hrm rfl
      unfold PRow.info at this
      simp only at this
      rw [this]
      simp only [Info.mk.injEq, Option.some.injEq, true_and, and_true, natStr_agree, Spec.Gff.optName]
      simp
  dsimp only
  rw [hinfo, hspan, hex]
  congr 1
  -- CDS blocks with frames
  cases hk : t.cds with
  | none => simp [cdsRowsOf, hk]
  | some k =>
    have hkw := hcds k hk
    unfold cdsWF at hkw
    simp only [Bool.and_eq_true, List.all_eq_true, decide_eq_true_eq] at hkw
    obtain ⟨⟨⟨hkg, hkin⟩, _⟩, hfr⟩ := hkw
    have hkguid : k.guid ≠ [] := uuid_ne_nil (H.uu _ (by
      rw [allGuids_eq]
      refine List.mem_flatMap.mpr ⟨_, hg, ?_⟩
      unfold childGuids
      refine List.mem_cons_of_mem _ (List.mem_flatMap.mpr ⟨t, ht, ?_⟩)
      unfold txGuids; rw [hk]; simp))
    have hattr_cds : ∀ r ∈ sortedRows cx c, r.attrs.quals = cdsExportQuals t (tqOf g t) →
        (toPRow r).info.attrs = expectAttrs (Spec.Gff.cdsQuals g t) := by
      intro r hr hq
      obtain ⟨line, hl⟩ := hR r hr
      rw [toPRow_info_attrs r line hl, hq]
      exact expectAttrs_congr (cds_quals_rel g t)
    simp only
    have hcr : cdsRowsOf cx t (tqOf g t) = cdsRows cx t k t.guid (tqOf g t) := by unfold cdsRowsOf; rw [hk]
    have hcdm' : ∀ r ∈ cdsRows cx t k t.guid (tqOf g t), r ∈ sortedRows cx c := by rw [← hcr]; exact hcdm
    rw [hcr]
    unfold cdsRows
    rw [hF g t k hg ht hk] at *
    rw [List.map_map, List.filterMap_map]
    show List.filterMap _ (enumFrom1 (k.blocks.zip k.frames)) = List.map _ (enumFrom1 (k.blocks.zip k.frames))
    apply filterMap_all_some
    intro p hp
    have hm := List.of_mem_zip (mem_enumFrom1 hp).1
    have hb := goodBlocks_bounds hkg p.2.1 hm.1
    have hin := hkin p.2.1 hm.1
    have hfn : p.2.2 ≠ .NONE := by simpa using hfr p.2.2 hm.2
    have hrm : _ ∈ sortedRows cx c := hcdm' _ (by
      unfold cdsRows
      rw [hF g t k hg ht hk]
      exact List.mem_map.mpr ⟨p, hp, rfl⟩)
    obtain ⟨i, b, f⟩ := p
    simp only [Function.comp] at hrm hb hin hfn ⊢
    have hgoal : ∀ (R : Row), R.phase = toPhase f →
        (match (toPRow R).phase with
          | some ph => Option.map (fun f' => (PRow.blk cx.off (toPRow R), (toPRow R).strand, f', (toPRow R).info))
              (Spec.Gff.frameOfPhase ph)
          | none => none) = some (PRow.blk cx.off (toPRow R), (toPRow R).strand, f, (toPRow R).info) := by
      intro R hR
      have : (toPRow R).phase = phaseNat (toPhase f) := by unfold toPRow; rw [hR]
      rw [this]
      cases f <;> first | exact absurd rfl hfn | rfl
    refine (hgoal _ rfl).trans ?_
    simp only [Option.some.injEq]
    · skip
      refine Prod.ext ?_ (Prod.ext rfl (Prod.ext rfl ?_))
      · simp only [toPRow_blk, rowBlk]
        ext <;> simp <;> omega
      · simp only
        unfold PRow.info
        rw [toPRow_id' H hrm, toPRow_name]
        have := hattr_cds _ hrm rfl
        unfold PRow.info at this
        simp only at this
        rw [this]
        simp only [Info.mk.injEq, Option.some.injEq, true_and, and_true, natStr_agree, Spec.Gff.optName]
        simp

/-! ## Part 3 — one gene: its transcripts in file order -/

theorem gene_unique {c : SColl} (hnd : (allGuids c).Nodup) {g g' : SGene}
    (hg : SChild.gene g ∈ c.children) (hg' : SChild.gene g' ∈ c.children) (e : g'.guid = g.guid) : g' = g := by
  rw [allGuids_eq] at hnd
  have hpw := List.pairwise_flatMap.mp (List.nodup_iff_pairwise_ne.mp hnd)
  have m1 : g.guid ∈ childGuids (.gene g) := List.mem_cons_self
  have m2 : g'.guid ∈ childGuids (.gene g') := List.mem_cons_self
  rcases pairwise_mem hpw.2 hg' hg with h | h | h
  · exact SChild.gene.inj h
  · exact absurd e (h _ m2 _ m1)
  · exact absurd e.symm (h _ m1 _ m2)

theorem map_head_sublist_flatMap {α β : Type} (f : α → List β) (hd : α → β) (tl : α → List β)
    (h : ∀ x, f x = hd x :: tl x) : ∀ l : List α, (l.map hd).Sublist (l.flatMap f)
  | [] => by simp
  | a :: l => by
    rw [List.map_cons, List.flatMap_cons, h a]
    exact List.Sublist.cons_cons _ ((map_head_sublist_flatMap f hd tl h l).trans (List.sublist_append_right _ _))

def isTxOf (g : SGene) : Row → Bool := isChildOf .transcript g.guid

theorem unsorted_nodup {cx : Ctx} {c : SColl} (H : Hyp cx c) : (unsortedRows cx c).Nodup := by
  have := sortedRows_nodup cx c H.nd H.uu
  unfold sortedRows at this
  exact (List.mergeSort_perm _ _).nodup_iff.mp this

theorem geneRows_sub_unsorted {cx : Ctx} {c : SColl} {g : SGene} (hg : SChild.gene g ∈ c.children) :
    (geneRows cx g).Sublist (unsortedRows cx c) :=
  sublist_flatMap_of_mem (f := childRows cx) (mem_sortedChildren.mpr hg)

/-- in the UNSORTED stream the transcript rows naming gene `g` are the heads of `g.txs`, in that order -/
theorem tx_heads_unsorted {cx : Ctx} {c : SColl} (H : Hyp cx c) {g : SGene} (hg : SChild.gene g ∈ c.children) :
    (unsortedRows cx c).filter (isTxOf g) = g.txs.map (txHead cx g) := by
  refine filter_eq_of_sublist ?_ ?_ ?_ (unsorted_nodup H)
  · have h1 : (g.txs.map (txHead cx g)).Sublist (g.txs.flatMap fun t => txRows cx t g.guid (geneExportQuals g)) :=
      map_head_sublist_flatMap _ (txHead cx g) (fun t => exonRowsOf cx t (tqOf g t) ++ cdsRowsOf cx t (tqOf g t))
        (fun t => txRows_eq cx g t) g.txs
    have h2 : (g.txs.flatMap fun t => txRows cx t g.guid (geneExportQuals g)).Sublist (geneRows cx g) := by
      rw [geneRows_eq]; exact List.sublist_cons_self _ _
    exact (h1.trans h2).trans (geneRows_sub_unsorted hg)
  · intro r hr
    obtain ⟨t, _, rfl⟩ := List.mem_map.mp hr
    simp [isTxOf, isChildOf, txHead]
  · intro r hr hp
    simp only [isTxOf, isChildOf, decide_eq_true_eq] at hp
    unfold unsortedRows at hr
    obtain ⟨x, hx, hrx⟩ := List.mem_flatMap.mp hr
    have hxc : x ∈ c.children := mem_sortedChildren.mp hx
    cases x with
    | fc f =>
      exfalso
      rcases fcRows_origin hrx with h | ⟨f', _, h | h⟩ <;> rw [h.1] at hp <;> exact absurd hp.1 (by decide)
    | gene g' =>
      have hrx' : r ∈ geneRows cx g' := hrx
      rw [geneRows_eq] at hrx'
      rcases List.mem_cons.mp hrx' with rfl | hrest
      · exact absurd hp.1 (by simp [geneHead])
      · obtain ⟨t', ht', hrt⟩ := List.mem_flatMap.mp hrest
        rw [txRows_eq] at hrt
        rcases List.mem_cons.mp hrt with rfl | hin
        · have e : g'.guid = g.guid := by
            have := hp.2; simp only [txHead, Option.some.injEq] at this; exact this
          have := gene_unique H.nd hg hxc e
          subst this
          exact List.mem_map.mpr ⟨t', ht', rfl⟩
        · exfalso
          rcases List.mem_append.mp hin with he | hc
          · rw [(exonRowsOf_facts he).1] at hp; exact absurd hp.1 (by decide)
          · rw [(cdsRowsOf_facts hc).1] at hp; exact absurd hp.1 (by decide)

def txLe (a b : STx) : Bool := decide (firstStart a.exons ≤ firstStart b.exons)

/-- in the SORTED output the transcript rows naming gene `g` are the heads of `g.txs` stably sorted by start -/
theorem tx_heads_sorted {cx : Ctx} {c : SColl} (H : Hyp cx c) {g : SGene} (hg : SChild.gene g ∈ c.children) :
    (sortedRows cx c).filter (isTxOf g) = (Spec.Gff.sortBy txLe g.txs).map (txHead cx g) := by
  unfold sortedRows
  rw [mergeSort_filter rowLe rowLe_trans rowLe_total, tx_heads_unsorted H hg,
    ← sortBy_eq_mergeSort rowLe rowLe_trans rowLe_total]
  apply sortBy_map
  intro a ha b hb
  have wa := (txWF_parts (geneWF_tx (collWF_gene H.wf hg) ha)).2.2.1
  have wb := (txWF_parts (geneWF_tx (collWF_gene H.wf hg) hb)).2.2.1
  simp only [rowLe, txLe, txHead]
  apply decide_eq_decide.mpr
  constructor <;> intro h <;> omega

theorem txLe_spec {cx : Ctx} {c : SColl} (H : Hyp cx c) {g : SGene} (hg : SChild.gene g ∈ c.children) :
    Spec.Gff.sortBy (fun a b : STx => decide ((Spec.Gff.spanOf a.exons).1 ≤ (Spec.Gff.spanOf b.exons).1)) g.txs =
      Spec.Gff.sortBy txLe g.txs := by
  apply sortBy_congr
  intro a ha b hb
  obtain ⟨na, ga, _, _⟩ := txWF_parts (geneWF_tx (collWF_gene H.wf hg) ha)
  obtain ⟨nb, gb, _, _⟩ := txWF_parts (geneWF_tx (collWF_gene H.wf hg) hb)
  rw [spanOf_good ga na, spanOf_good gb nb]
  rfl

/-- the gene read back from the parsed, sorted export is the Spec's expected gene -/
theorem decodeGene_eq {cx : Ctx} {c : SColl} (H : Hyp cx c) (hR : Rendered cx c) (hF : FramesKept cx c)
    {g : SGene} (hg : SChild.gene g ∈ c.children) :
    ({ info := (toPRow (geneHead cx g)).info, strand := (toPRow (geneHead cx g)).strand,
       span := (toPRow (geneHead cx g)).blk cx.off,
       txs := (Spec.Gff.childrenOf ((sortedRows cx c).map toPRow) Spec.Gff.tTranscript (toPRow (geneHead cx g)).id).map
                (Spec.Gff.decodeTx cx.off ((sortedRows cx c).map toPRow)) } : Spec.Gff.DGene) = Spec.Gff.expectGene g := by
  have hgw := collWF_gene H.wf hg
  have hgw' := hgw
  unfold geneWF at hgw'
  simp only [Bool.and_eq_true, Bool.not_eq_true', List.all_eq_true] at hgw'
  have hne : g.txs ≠ [] := by intro e; rw [e] at hgw'; simp at hgw'
  have hhd : geneHead cx g ∈ sortedRows cx c := by
    rw [mem_sortedRows]
    exact (geneRows_sub_unsorted hg).subset (by rw [geneRows_eq]; exact List.mem_cons_self)
  unfold Spec.Gff.expectGene
  rw [toPRow_id' H hhd]
  have hid : (geneHead cx g).attrs.id = g.guid := rfl
  rw [hid, tTranscript_eq, filter_children H]
  have hfl : (sortedRows cx c).filter (isChildOf .transcript g.guid) = (Spec.Gff.sortBy txLe g.txs).map (txHead cx g) :=
    tx_heads_sorted H hg
  rw [hfl, txLe_spec H hg, List.map_map, List.map_map]
  have htx : (Spec.Gff.sortBy txLe g.txs).map
      ((Spec.Gff.decodeTx cx.off ((sortedRows cx c).map toPRow) ∘ toPRow) ∘ txHead cx g) =
      (Spec.Gff.sortBy txLe g.txs).map (Spec.Gff.expectTx g) := by
    apply List.map_congr_left
    intro t ht
    exact decodeTx_eq H hR hF hg ((mem_sortBy txLe t g.txs).mp ht)
  rw [htx]
  have hinfo : (toPRow (geneHead cx g)).info =
      ⟨some g.guid, Spec.Gff.optName g.sym, expectAttrs (Spec.Gff.geneQuals g)⟩ := by
    unfold PRow.info
    rw [toPRow_id' H hhd, toPRow_name]
    obtain ⟨line, hl⟩ := hR _ hhd
    have := toPRow_info_attrs _ line hl
    unfold PRow.info at this
    simp only at this
    rw [this]
    have : (geneHead cx g).attrs.quals = geneExportQuals g := rfl
    rw [this, expectAttrs_congr (gene_quals_rel g)]
    rfl
  have hspan : (toPRow (geneHead cx g)).blk cx.off = Spec.Gff.spanOf (g.txs.map fun t => Spec.Gff.spanOf t.exons) := by
    rw [spanOf_spans _ (by simpa using hne), List.map_map, List.map_map]
    have e1 : g.txs.map ((fun b : Blk => b.1) ∘ fun t => Spec.Gff.spanOf t.exons) = g.txs.map fun t => firstStart t.exons := by
      apply List.map_congr_left
      intro t ht
      obtain ⟨nt, gt, _, _⟩ := txWF_parts (hgw'.2 t ht)
      simp only [Function.comp, spanOf_good gt nt]
    have e2 : g.txs.map ((fun b : Blk => b.2) ∘ fun t => Spec.Gff.spanOf t.exons) = g.txs.map fun t => lastEnd t.exons := by
      apply List.map_congr_left
      intro t ht
      obtain ⟨nt, gt, _, _⟩ := txWF_parts (hgw'.2 t ht)
      simp only [Function.comp, spanOf_good gt nt]
    rw [e1, e2, toPRow_blk]
    have hf := gene_row_facts hgw (geneRows_origin (by rw [geneRows_eq]; exact List.mem_cons_self : geneHead cx g ∈ geneRows cx g))
    have hne' : (g.txs.map fun t => firstStart t.exons) ≠ [] := by simpa using hne
    obtain ⟨t0, ht0, hmin⟩ := List.mem_map.mp (minNat_mem hne')
    have hoff0 := (txWF_parts (hgw'.2 t0 ht0)).2.2.1
    simp only [rowBlk, geneHead, Prod.mk.injEq] at hf ⊢
    omega
  rw [hinfo, hspan]
  rfl

/-! ## Part 4 — the genes of the collection in file order -/

def geneOf? : SChild → Option SGene
  | .gene g => some g
  | .fc _ => none

def genesIn (l : List SChild) : List SGene := l.filterMap geneOf?

theorem mem_genesIn {l : List SChild} {g : SGene} : g ∈ genesIn l ↔ SChild.gene g ∈ l := by
  unfold genesIn
  rw [List.mem_filterMap]
  constructor
  · rintro ⟨x, hx, hg⟩
    cases x with
    | gene g' => simp only [geneOf?, Option.some.injEq] at hg; subst hg; exact hx
    | fc f => simp [geneOf?] at hg
  · intro h; exact ⟨_, h, rfl⟩

theorem gene_heads_sublist (cx : Ctx) : ∀ l : List SChild,
    ((genesIn l).map (geneHead cx)).Sublist (l.flatMap (childRows cx))
  | [] => by simp [genesIn]
  | x :: l => by
    have ih := gene_heads_sublist cx l
    cases x with
    | gene g =>
      simp only [genesIn, List.filterMap_cons, geneOf?, List.map_cons, List.flatMap_cons, childRows]
      rw [geneRows_eq, List.cons_append]
      exact List.Sublist.cons_cons _ (ih.trans (List.sublist_append_right _ _))
    | fc f =>
      simp only [genesIn, List.filterMap_cons, geneOf?, List.flatMap_cons]
      exact ih.trans (List.sublist_append_right _ _)

theorem childLe_trans : ∀ a b c : SChild, decide (Model.Gff.childStart a ≤ Model.Gff.childStart b) = true →
    decide (Model.Gff.childStart b ≤ Model.Gff.childStart c) = true →
    decide (Model.Gff.childStart a ≤ Model.Gff.childStart c) = true := by
  intro a b c h1 h2; simp only [decide_eq_true_eq] at *; omega

theorem childLe_total : ∀ a b : SChild, (decide (Model.Gff.childStart a ≤ Model.Gff.childStart b) ||
    decide (Model.Gff.childStart b ≤ Model.Gff.childStart a)) = true := by
  intro a b; simp only [Bool.or_eq_true, decide_eq_true_eq]; omega

theorem gene_heads_sorted {cx : Ctx} {c : SColl} (H : Hyp cx c) :
    (sortedRows cx c).filter (isTop .gene) = (genesIn (sortedChildren c)).map (geneHead cx) := by
  refine filter_eq_of_sublist ?_ ?_ ?_ (sortedRows_nodup cx c H.nd H.uu)
  · unfold sortedRows
    apply List.sublist_mergeSort rowLe_trans rowLe_total
    · rw [List.pairwise_map]
      unfold genesIn
      rw [List.pairwise_filterMap]
      have hs : (sortedChildren c).Pairwise (fun a b => decide (Model.Gff.childStart a ≤ Model.Gff.childStart b) = true) :=
        List.pairwise_mergeSort childLe_trans childLe_total c.children
      refine hs.imp ?_
      intro a b hab ga hga gb hgb
      cases a with
      | fc f => simp [geneOf?] at hga
      | gene g1 =>
        cases b with
        | fc f => simp [geneOf?] at hgb
        | gene g2 =>
          simp only [geneOf?, Option.mem_def, Option.some.injEq] at hga hgb
          subst hga; subst hgb
          simp only [decide_eq_true_eq, Model.Gff.childStart] at hab
          simp only [rowLe, geneHead]
          have hab' := of_decide_eq_true hab
          apply decide_eq_true
          omega
    · exact gene_heads_sublist cx (sortedChildren c)
  · intro r hr
    obtain ⟨g, _, rfl⟩ := List.mem_map.mp hr
    simp [isTop, geneHead]
  · intro r hr hp
    simp only [isTop, decide_eq_true_eq] at hp
    rw [mem_sortedRows] at hr
    unfold unsortedRows at hr
    obtain ⟨x, hx, hrx⟩ := List.mem_flatMap.mp hr
    cases x with
    | fc f =>
      exfalso
      rcases fcRows_origin hrx with h | ⟨f', _, h | h⟩ <;> rw [h.1] at hp <;> exact absurd hp.1 (by decide)
    | gene g' =>
      have hrx' : r ∈ geneRows cx g' := hrx
      rw [geneRows_eq] at hrx'
      rcases List.mem_cons.mp hrx' with rfl | hrest
      · exact List.mem_map.mpr ⟨g', mem_genesIn.mpr hx, rfl⟩
      · exfalso
        obtain ⟨t', _, hrt⟩ := List.mem_flatMap.mp hrest
        rw [txRows_eq] at hrt
        rcases List.mem_cons.mp hrt with rfl | hin
        · exact absurd hp.1 (by simp [txHead])
        · rcases List.mem_append.mp hin with he | hc
          · rw [(exonRowsOf_facts he).1] at hp; exact absurd hp.1 (by decide)
          · rw [(cdsRowsOf_facts hc).1] at hp; exact absurd hp.1 (by decide)

/-- the genes read back from the parsed, sorted export -/
theorem decoded_genes {cx : Ctx} {c : SColl} (H : Hyp cx c) (hR : Rendered cx c) (hF : FramesKept cx c) :
    (Spec.Gff.gffDecode cx.off ((sortedRows cx c).map toPRow)).genes =
      (genesIn (sortedChildren c)).map Spec.Gff.expectGene := by
  unfold Spec.Gff.gffDecode
  simp only
  rw [tGene_eq, filter_top H, gene_heads_sorted H, List.map_map, List.map_map]
  apply List.map_congr_left
  intro g hg
  have hgc : SChild.gene g ∈ c.children := mem_sortedChildren.mp (mem_genesIn.mp hg)
  exact decodeGene_eq H hR hF hgc

/-! ## Part 5 — the Spec's `expected`, genes component; the complete equation for gene collections -/

theorem childStart_agree {off : Nat} {x : SChild} (h : childWF off x = true) :
    Spec.Gff.childStart x = Model.Gff.childStart x := by
  cases x with
  | gene g =>
    unfold childWF geneWF at h
    simp only [Bool.and_eq_true, Bool.not_eq_true', List.all_eq_true] at h
    have hne : g.txs ≠ [] := by intro e; rw [e] at h; simp at h
    simp only [Spec.Gff.childStart, Model.Gff.childStart]
    rw [spanOf_spans _ (by simpa using hne), List.map_map]
    simp only
    congr 1
    apply List.map_congr_left
    intro t ht
    obtain ⟨nt, gt, _, _⟩ := txWF_parts (h.2 t ht)
    simp only [Function.comp, spanOf_good gt nt]
  | fc f =>
    unfold childWF fcWF at h
    simp only [Bool.and_eq_true, Bool.not_eq_true', List.all_eq_true] at h
    have hne : f.feats ≠ [] := by intro e; rw [e] at h; simp at h
    simp only [Spec.Gff.childStart, Model.Gff.childStart]
    rw [spanOf_spans _ (by simpa using hne), List.map_map]
    simp only
    congr 1
    apply List.map_congr_left
    intro t ht
    have hw := h.2 t ht
    unfold featWF at hw
    simp only [Bool.and_eq_true, Bool.not_eq_true', decide_eq_true_eq] at hw
    have nt : t.blocks ≠ [] := by intro e; rw [e] at hw; simp at hw
    simp only [Function.comp, spanOf_good hw.1.2 nt]

theorem expected_children {cx : Ctx} {c : SColl} (H : Hyp cx c) :
    Spec.Gff.sortBy (fun a b => decide (Spec.Gff.childStart a ≤ Spec.Gff.childStart b)) c.children = sortedChildren c := by
  have hall := List.all_eq_true.mp (by have := H.wf; unfold collWF at this; exact this)
  rw [sortBy_congr _ (fun a b => decide (Model.Gff.childStart a ≤ Model.Gff.childStart b)) c.children
    (fun a ha b hb => by rw [childStart_agree (hall a ha), childStart_agree (hall b hb)])]
  unfold sortedChildren
  exact sortBy_eq_mergeSort _ childLe_trans childLe_total c.children

theorem expected_genes {cx : Ctx} {c : SColl} (H : Hyp cx c) :
    (Spec.Gff.expected c).genes = (genesIn (sortedChildren c)).map Spec.Gff.expectGene := by
  unfold Spec.Gff.expected
  simp only
  rw [expected_children H]
  unfold genesIn
  rw [List.map_filterMap]
  congr 1
  funext x
  cases x <;> rfl

/-- T5 (genes): the genes decoded from the parsed export are the Spec's expected genes — for every well-formed
    collection (feature collections may be present) -/
theorem decode_genes_eq {cx : Ctx} {c : SColl} (H : Hyp cx c) (hR : Rendered cx c) (hF : FramesKept cx c) :
    (Spec.Gff.gffDecode cx.off ((sortedRows cx c).map toPRow)).genes = (Spec.Gff.expected c).genes := by
  rw [decoded_genes H hR hF, expected_genes H]

/-- a collection of genes only -/
def genesOnly (c : SColl) : Bool := c.children.all fun x => match x with | .gene _ => true | .fc _ => false

theorem no_fc_rows {cx : Ctx} {c : SColl} (hgo : genesOnly c = true) {r : Row} (hr : r ∈ sortedRows cx c) :
    r.type ≠ .featureCollection := by
  rw [mem_sortedRows] at hr
  unfold unsortedRows at hr
  obtain ⟨x, hx, hrx⟩ := List.mem_flatMap.mp hr
  have hxc := mem_sortedChildren.mp hx
  cases x with
  | fc f =>
    have := List.all_eq_true.mp hgo _ hxc
    simp at this
  | gene g =>
    rcases geneRows_origin hrx with h | ⟨t, _, h | h | h⟩ <;> rw [h.1] <;> decide

/-- T5 (complete, gene collections): decoding the parsed export gives exactly `expected c` -/
theorem decode_eq {cx : Ctx} {c : SColl} (H : Hyp cx c) (hR : Rendered cx c) (hF : FramesKept cx c)
    (hgo : genesOnly c = true) :
    Spec.Gff.gffDecode cx.off ((sortedRows cx c).map toPRow) = Spec.Gff.expected c := by
  have hg := decode_genes_eq H hR hF
  have hf1 : (Spec.Gff.gffDecode cx.off ((sortedRows cx c).map toPRow)).fcs = [] := by
    unfold Spec.Gff.gffDecode
    simp only
    rw [tFc_eq, filter_top H]
    have : (sortedRows cx c).filter (isTop .featureCollection) = [] := by
      rw [List.filter_eq_nil_iff]
      intro r hr
      simp only [isTop, decide_eq_true_eq, not_and]
      intro h; exact absurd h (no_fc_rows hgo hr)
    rw [this]; rfl
  have hf2 : (Spec.Gff.expected c).fcs = [] := by
    unfold Spec.Gff.expected
    simp only
    rw [List.filterMap_eq_nil_iff]
    intro x hx
    have hxc : x ∈ c.children := (mem_sortBy _ x c.children).mp hx
    have := List.all_eq_true.mp hgo _ hxc
    cases x with
    | gene g => rfl
    | fc f => simp at this
  cases hd : Spec.Gff.gffDecode cx.off ((sortedRows cx c).map toPRow) with
  | mk g1 f1 =>
    cases he : Spec.Gff.expected c with
    | mk g2 f2 =>
      rw [hd] at hg hf1
      rw [he] at hg hf2
      simp only at hg hf1 hf2
      rw [hg, hf1, hf2]

/-! ## Part 6 — from `toGffLines` to the decoded structure -/

/-- the qualifier keys of the source are non-empty strings -/
def SrcKeysOk (c : SColl) : Prop :=
  ∀ x ∈ c.children, match x with
    | .gene g => KeysOk g.quals ∧ ∀ t ∈ g.txs, KeysOk t.quals
    | .fc f => KeysOk f.quals ∧ ∀ t ∈ f.feats, KeysOk t.quals

theorem row_seqid_keys {cx : Ctx} {c : SColl} (hk : SrcKeysOk c) {r : Row} (hr : r ∈ sortedRows cx c) :
    r.seqid = cx.seqid ∧ KeysOk r.attrs.quals := by
  rw [mem_sortedRows] at hr
  unfold unsortedRows at hr
  obtain ⟨x, hx, hrx⟩ := List.mem_flatMap.mp hr
  have hxk := hk x (mem_sortedChildren.mp hx)
  cases x with
  | gene g =>
    simp only at hxk
    have hgq := keysOk_gene hxk.1
    have hrx' : r ∈ geneRows cx g := hrx
    rw [geneRows_eq] at hrx'
    rcases List.mem_cons.mp hrx' with rfl | hrest
    · exact ⟨rfl, hgq⟩
    · obtain ⟨t, ht, hrt⟩ := List.mem_flatMap.mp hrest
      have htq := keysOk_tx (hxk.2 t ht) hgq
      rw [txRows_eq] at hrt
      rcases List.mem_cons.mp hrt with rfl | hin
      · exact ⟨rfl, htq⟩
      · rcases List.mem_append.mp hin with he | hc
        · obtain ⟨p, _, rfl⟩ := List.mem_map.mp he
          exact ⟨rfl, htq⟩
        · unfold cdsRowsOf at hc
          split at hc
          · simp only [cdsRows, List.mem_map] at hc
            obtain ⟨p, _, rfl⟩ := hc
            exact ⟨rfl, keysOk_cds htq⟩
          · simp at hc
  | fc f =>
    simp only at hxk
    have hfq := keysOk_fc hxk.1
    have hrx' : r ∈ fcRows cx f := hrx
    unfold fcRows at hrx'
    simp only at hrx'
    rcases List.mem_cons.mp hrx' with rfl | hrest
    · exact ⟨rfl, hfq⟩
    · obtain ⟨t, ht, hrt⟩ := List.mem_flatMap.mp hrest
      have htq := keysOk_feat (hxk.2 t ht) hfq
      unfold featRows at hrt
      simp only at hrt
      rcases List.mem_cons.mp hrt with rfl | hin
      · exact ⟨rfl, htq⟩
      · obtain ⟨p, _, rfl⟩ := List.mem_map.mp hin
        exact ⟨rfl, htq⟩

theorem mapM_ok_mem {α β : Type} (f : α → Except Err β) : ∀ (l : List α) (out : List β), l.mapM f = .ok out →
    ∀ x ∈ l, ∃ y, f x = .ok y
  | [], _, _ => by intro x hx; simp at hx
  | a :: rest, out, h => by
    rw [List.mapM_cons] at h
    cases ha : f a with
    | error e => rw [ha] at h; cases h
    | ok b =>
      rw [ha] at h
      cases hr : rest.mapM f with
      | error e => rw [hr] at h; cases h
      | ok bs =>
        intro x hx
        rcases List.mem_cons.mp hx with rfl | hx'
        · exact ⟨b, ha⟩
        · exact mapM_ok_mem f rest bs hr x hx'

/-- what the successful export gives: context, rendered rows, parsed rows -/
theorem export_parses (c : SColl) (chromRel raise : Bool) (lines : List Str)
    (h : toGffLines c chromRel raise = .ok lines) (hne : c.children ≠ []) :
    ∃ cx, mkCtx c chromRel raise = .ok cx ∧ (sortedRows cx c).mapM rowStr = .ok lines := by
  unfold toGffLines at h
  have : c.children.isEmpty = false := by cases hc : c.children <;> simp_all
  simp only [this, Bool.false_eq_true, if_false] at h
  cases hcx : mkCtx c chromRel raise with
  | error e => rw [hcx] at h; cases h
  | ok cx =>
    rw [hcx] at h
    exact ⟨cx, rfl, h⟩

theorem mkCtx_seqid {c : SColl} {chromRel raise : Bool} {cx : Ctx} (h : mkCtx c chromRel raise = .ok cx) :
    c.seqName = some cx.seqid ∧ cx.seqid ≠ [] := by
  unfold mkCtx at h
  cases hs : c.seqName with
  | none => rw [hs] at h; cases h
  | some s =>
    rw [hs] at h
    simp only at h
    split at h
    · cases h
    · rename_i hemp
      have hne : s ≠ [] := by intro e; rw [e] at hemp; simp at hemp
      split at h
      · cases h; exact ⟨rfl, hne⟩
      · split at h
        · cases h; exact ⟨rfl, hne⟩
        · cases h

/-- T5 (lines): every exported line parses, by the Spec's reader, to the image of its row -/
theorem export_lines_parse {cx : Ctx} {c : SColl} {lines : List Str} (H : Hyp cx c)
    (hrows : (sortedRows cx c).mapM rowStr = .ok lines) (hseq : noSep cx.seqid) (hsne : cx.seqid ≠ [])
    (hk : SrcKeysOk c) : lines.mapM Spec.Gff.parseLine = some ((sortedRows cx c).map toPRow) := by
  apply lines_parse _ _ hrows
  intro r hr
  have h1 := row_seqid_keys hk hr
  have h2 := sortedRows_facts H.wf hr
  exact ⟨by rw [h1.1]; exact hseq, by rw [h1.1]; exact hsne, h2.1, h2.2.1, h1.2⟩

/-! ## Part 7 — the statement from `toGffLines`, and totality without `raise_on_reserved_attributes` -/

theorem export_decodes {c : SColl} {chromRel raise : Bool} {lines : List Str} {cx : Ctx}
    (h : toGffLines c chromRel raise = .ok lines) (hne : c.children ≠ []) (hcx : mkCtx c chromRel raise = .ok cx)
    (H : Hyp cx c) (hF : FramesKept cx c) (hk : SrcKeysOk c) (hseq : noSep cx.seqid) :
    ∃ prows, lines.mapM Spec.Gff.parseLine = some prows ∧
      (Spec.Gff.gffDecode cx.off prows).genes = (Spec.Gff.expected c).genes ∧
      (genesOnly c = true → Spec.Gff.gffDecode cx.off prows = Spec.Gff.expected c) := by
  obtain ⟨cx', hcx', hrows⟩ := export_parses c chromRel raise lines h hne
  rw [hcx] at hcx'
  cases hcx'
  have hR : Rendered cx c := mapM_ok_mem rowStr _ _ hrows
  refine ⟨_, export_lines_parse H hrows hseq (mkCtx_seqid hcx).2 hk, decode_genes_eq H hR hF, ?_⟩
  intro hgo
  exact decode_eq H hR hF hgo

theorem mapM_all_ok {α β : Type} (f : α → Except Err β) : ∀ (l : List α), (∀ x ∈ l, ∃ y, f x = .ok y) →
    ∃ out, l.mapM f = .ok out
  | [], _ => ⟨[], rfl⟩
  | a :: rest, h => by
    obtain ⟨b, hb⟩ := h a List.mem_cons_self
    obtain ⟨bs, hbs⟩ := mapM_all_ok f rest (fun x hx => h x (List.mem_cons_of_mem _ hx))
    exact ⟨b :: bs, by rw [List.mapM_cons, hb, hbs]; rfl⟩

theorem row_raise {cx : Ctx} {c : SColl} {r : Row} (hr : r ∈ sortedRows cx c) : r.attrs.raiseOnReserved = cx.raise := by
  rw [mem_sortedRows] at hr
  unfold unsortedRows at hr
  obtain ⟨x, hx, hrx⟩ := List.mem_flatMap.mp hr
  cases x with
  | gene g =>
    have hrx' : r ∈ geneRows cx g := hrx
    rw [geneRows_eq] at hrx'
    rcases List.mem_cons.mp hrx' with rfl | hrest
    · rfl
    · obtain ⟨t, ht, hrt⟩ := List.mem_flatMap.mp hrest
      rw [txRows_eq] at hrt
      rcases List.mem_cons.mp hrt with rfl | hin
      · rfl
      · rcases List.mem_append.mp hin with he | hc
        · obtain ⟨p, _, rfl⟩ := List.mem_map.mp he; rfl
        · unfold cdsRowsOf at hc
          split at hc
          · simp only [cdsRows, List.mem_map] at hc
            obtain ⟨p, _, rfl⟩ := hc; rfl
          · simp at hc
  | fc f =>
    have hrx' : r ∈ fcRows cx f := hrx
    unfold fcRows at hrx'
    simp only at hrx'
    rcases List.mem_cons.mp hrx' with rfl | hrest
    · rfl
    · obtain ⟨t, ht, hrt⟩ := List.mem_flatMap.mp hrest
      unfold featRows at hrt
      simp only at hrt
      rcases List.mem_cons.mp hrt with rfl | hin
      · rfl
      · obtain ⟨p, _, rfl⟩ := List.mem_map.mp hin; rfl

/-- without `raise_on_reserved_attributes` the export of a collection with a context never refuses -/
theorem toGffLines_noraise (c : SColl) (chromRel : Bool) (cx : Ctx) (hcx : mkCtx c chromRel false = .ok cx) :
    ∃ lines, toGffLines c chromRel false = .ok lines := by
  unfold toGffLines
  split
  · exact ⟨[], rfl⟩
  · rw [hcx]
    have hraise : cx.raise = false := by
      unfold mkCtx at hcx
      split at hcx
      · cases hcx
      · split at hcx
        · cases hcx
        · split at hcx
          · cases hcx; rfl
          · split at hcx
            · cases hcx; rfl
            · cases hcx
    obtain ⟨out, hout⟩ := mapM_all_ok rowStr (sortedRows cx c) (fun r hr =>
      GffAttrs.rowStr_noraise r (by rw [row_raise hr, hraise]))
    exact ⟨out, by simpa [bind, Except.bind] using hout⟩

end BioCantor.Proofs.GffFull
