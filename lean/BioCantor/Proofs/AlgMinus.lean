/-
  C02-T4: `minus` covers exactly the positions of the receiver that are not positions of the (not self-overlapping)
  subtrahend.
-/
import BioCantor.Proofs.AlgOverlap
import BioCantor.Proofs.AlgOptimize
namespace BioCantor.Proofs.Minus
open BioCantor BioCantor.Spec BioCantor.Model BioCantor.Proofs

/-! ### the moving-window loop -/

theorem containsBlk_iff (x y : Blk) : containsBlk x y = true ↔ (y.1 < y.2 ∧ x.1 ≤ y.1 ∧ y.2 ≤ x.2) := by
  unfold containsBlk
  rw [Bool.and_eq_true, overlapKernel_iff, beq_iff_eq]
  simp only [isectBlk]
  omega

/-- `return EmptyLocation()` happens only for a block that contains the receiver -/
theorem walk_none (self : Blk) (bs : List Blk) (cs ce : Nat) (acc : List Blk)
    (h : minusWalk self bs cs ce acc = none) : ∃ blk ∈ bs, containsBlk blk self = true := by
  induction bs generalizing cs acc with
  | nil => simp [minusWalk] at h
  | cons blk rest ih =>
    unfold minusWalk at h
    split at h
    · rename_i hc; exact ⟨blk, by simp, hc⟩
    · split at h
      · obtain ⟨x, hx, hxc⟩ := ih _ _ h; exact ⟨x, List.mem_cons_of_mem _ hx, hxc⟩
      · split at h
        · cases h
        · split at h
          · obtain ⟨x, hx, hxc⟩ := ih _ _ h; exact ⟨x, List.mem_cons_of_mem _ hx, hxc⟩
          · split at h
            · obtain ⟨x, hx, hxc⟩ := ih _ _ h; exact ⟨x, List.mem_cons_of_mem _ hx, hxc⟩
            · cases h

/-- every produced block ends at or before the window's end (no assumption on the blocks) -/
theorem walk_ends (self : Blk) (bs : List Blk) (cs ce : Nat) (acc out : List Blk)
    (h : minusWalk self bs cs ce acc = some out) : ∀ t ∈ out, t ∈ acc ∨ t.2 ≤ ce := by
  induction bs generalizing cs acc with
  | nil =>
    simp only [minusWalk, Option.some.injEq] at h
    subst h
    intro t ht
    simp only [List.mem_append, List.mem_reverse, List.mem_singleton] at ht
    rcases ht with ht | ht
    · exact Or.inl ht
    · subst ht; exact Or.inr (Nat.le_refl _)
  | cons blk rest ih =>
    unfold minusWalk at h
    split at h
    · cases h
    · split at h
      · exact ih _ _ h
      · split at h
        · simp only [Option.some.injEq] at h
          subst h
          intro t ht
          simp only [List.mem_append, List.mem_reverse, List.mem_singleton] at ht
          rcases ht with ht | ht
          · exact Or.inl ht
          · subst ht; exact Or.inr (Nat.le_refl _)
        · rename_i hge
          split at h
          · intro t ht
            rcases ih _ _ h t ht with h1 | h1
            · rcases List.mem_cons.mp h1 with h2 | h2
              · subst h2; right; simp only; omega
              · exact Or.inl h2
            · exact Or.inr h1
          · split at h
            · exact ih _ _ h
            · simp only [Option.some.injEq] at h
              subst h
              intro t ht
              simp only [List.mem_append, List.mem_reverse, List.mem_singleton] at ht
              rcases ht with ht | ht
              · exact Or.inl ht
              · subst ht; right; simp only; omega

/-- the loop on an ascending list of pairwise disjoint blocks -/
theorem walk_some (self : Blk) (bs : List Blk) (cs ce : Nat) (acc out : List Blk)
    (hv : ∀ b ∈ bs, b.1 ≤ b.2) (hp : bs.Pairwise (fun a b => a.2 ≤ b.1)) (hcs : cs ≤ ce)
    (hinv : ∀ blk ∈ bs, blk.1 < cs → ce < blk.2 → containsBlk blk self = true)
    (h : minusWalk self bs cs ce acc = some out) :
    ∃ tail, out = acc.reverse ++ tail ∧ tail ≠ [] ∧ (∀ t ∈ tail, t.1 ≤ t.2) ∧
      ∀ p, coversBlocks tail p = (decide (cs ≤ p) && decide (p < ce) && !coversBlocks bs p) := by
  induction bs generalizing cs acc with
  | nil =>
    simp only [minusWalk, Option.some.injEq] at h
    subst h
    refine ⟨[(cs, ce)], rfl, by simp, ?_, ?_⟩
    · intro t ht; simp only [List.mem_singleton] at ht; subst ht; exact hcs
    · intro p; simp [coversBlocks]
  | cons blk rest ih =>
    have hvb : blk.1 ≤ blk.2 := hv blk (by simp)
    have hvr : ∀ b ∈ rest, b.1 ≤ b.2 := fun b hb => hv b (List.mem_cons_of_mem _ hb)
    have hpr := (List.pairwise_cons.mp hp).2
    have hrest : ∀ p, coversBlocks rest p = true → blk.2 ≤ p := by
      intro p hc
      rw [coversBlocks_iff] at hc
      obtain ⟨r, hr, h1, _⟩ := hc
      have := (List.pairwise_cons.mp hp).1 r hr
      omega
    have hinvr : ∀ c, c = cs → ∀ x ∈ rest, x.1 < c → ce < x.2 → containsBlk x self = true := by
      intro c hc x hx; subst hc; exact hinv x (List.mem_cons_of_mem _ hx)
    have hinvr2 : ∀ x ∈ rest, x.1 < blk.2 → ce < x.2 → containsBlk x self = true := by
      intro x hx h1
      have := (List.pairwise_cons.mp hp).1 x hx
      omega
    unfold minusWalk at h
    split at h
    · cases h
    · rename_i hnc
      split at h
      · rename_i h1
        obtain ⟨tail, e1, e2, e3, e4⟩ := ih cs acc hvr hpr hcs (hinvr cs rfl) h
        refine ⟨tail, e1, e2, e3, ?_⟩
        intro p
        rw [e4 p, coversBlocks_cons]
        cases hc : coversBlocks rest p
        · rw [Bool.eq_iff_iff]; simp; omega
        · simp
      · rename_i h1
        split at h
        · rename_i h2
          simp only [Option.some.injEq] at h
          subst h
          refine ⟨[(cs, ce)], rfl, by simp, ?_, ?_⟩
          · intro t ht; simp only [List.mem_singleton] at ht; subst ht; exact hcs
          · intro p
            rw [coversBlocks_cons blk rest]
            cases hc : coversBlocks rest p
            · rw [Bool.eq_iff_iff]; simp [coversBlocks]; omega
            · have := hrest p hc
              rw [Bool.eq_iff_iff]; simp [coversBlocks]; omega
        · rename_i h2
          split at h
          · rename_i h3
            obtain ⟨tail, e1, e2, e3, e4⟩ := ih blk.2 ((cs, blk.1) :: acc) hvr hpr h3.2 hinvr2 h
            refine ⟨(cs, blk.1) :: tail, by simp [e1], by simp, ?_, ?_⟩
            · intro t ht
              rcases List.mem_cons.mp ht with ht | ht
              · subst ht; exact h3.1
              · exact e3 t ht
            · intro p
              rw [coversBlocks_cons, e4 p, coversBlocks_cons]
              cases hc : coversBlocks rest p
              · rw [Bool.eq_iff_iff]; simp; omega
              · have := hrest p hc
                rw [Bool.eq_iff_iff]; simp; omega
          · rename_i h3
            split at h
            · rename_i h4
              obtain ⟨tail, e1, e2, e3, e4⟩ := ih blk.2 acc hvr hpr h4.2 hinvr2 h
              refine ⟨tail, e1, e2, e3, ?_⟩
              intro p
              rw [e4 p, coversBlocks_cons]
              cases hc : coversBlocks rest p
              · rw [Bool.eq_iff_iff]; simp; omega
              · simp
            · rename_i h4
              simp only [Option.some.injEq] at h
              subst h
              have hcb : cs ≤ blk.1 := by
                rcases Nat.lt_or_ge blk.1 cs with hlt | hge
                · have := hinv blk (by simp) hlt (by omega)
                  exact absurd this hnc
                · exact hge
              refine ⟨[(cs, blk.1)], rfl, by simp, ?_, ?_⟩
              · intro t ht; simp only [List.mem_singleton] at ht; subst ht; exact hcb
              · intro p
                rw [coversBlocks_cons blk rest]
                cases hc : coversBlocks rest p
                · rw [Bool.eq_iff_iff]; simp [coversBlocks]; omega
                · have := hrest p hc
                  rw [Bool.eq_iff_iff]; simp [coversBlocks]; omega

/-! ### small facts -/

theorem mkCompoundLoc_inv (bs : List Blk) (st : Strand) (c : Loc) (h : mkCompoundLoc bs st = .ok c) :
    c = ⟨sortBlocks st bs, st⟩ ∧ Loc.Canon ⟨sortBlocks st bs, st⟩ := by
  unfold mkCompoundLoc at h
  split at h
  · cases h
  · rename_i hne
    simp only at h
    split at h
    · rename_i hval
      simp only [pure, Except.pure, Except.ok.injEq] at h
      refine ⟨h.symm, sortBlocks_ne_nil st (by simpa using hne), hval,
        sortedBy_of_pairwise _ _ (sortBlocks_pairwise st bs)⟩
    · cases h

theorem cov_single (x : Blk) (s : Strand) (p : Nat) : locationCovers (.single x s) p = coversBlocks [x] p := rfl

theorem cov_empty (p : Nat) : locationCovers .empty p = false := rfl

theorem wf_valid (l : Location) (h : WF l) : ∀ t ∈ locationBlocks l, t.1 ≤ t.2 := by
  cases l with
  | single b s => intro t ht; simp only [locationBlocks, List.mem_singleton] at ht; subst ht; exact h
  | compound l => exact (blocksValid_iff _).mp h.2.1
  | empty => intro t ht; cases ht

theorem wfLocation_valid (l : Location) (h : wfLocation l = true) : ∀ t ∈ locationBlocks l, t.1 ≤ t.2 := by
  cases l with
  | single b s =>
    intro t ht; simp only [locationBlocks, List.mem_singleton] at ht; subst ht
    simpa [wfLocation] using h
  | compound l =>
    have : l.Canon := by simpa [wfLocation] using h
    exact (blocksValid_iff _).mp this.2.1
  | empty => intro t ht; cases ht

/-- the optimiser applied to a constructor-made compound: what is needed of the result -/
theorem opt_after_mk (bs : List Blk) (st : Strand) (hc : Loc.Canon ⟨sortBlocks st bs, st⟩) :
    ∃ r, optimizeLoc true ⟨sortBlocks st bs, st⟩ = .ok r ∧ wfLocation r = true ∧ strandIs r (some st) = true ∧
      (∀ p, locationCovers r p = coversBlocks bs p) ∧ ∀ t ∈ locationBlocks r, t.2 ≤ maxEndOf bs := by
  obtain ⟨r, hr, hs⟩ := optimizeLoc_spec true (sortBlocks st bs) st hc
  refine ⟨r, hr, hs.wf, hs.strandIs, ?_, ?_⟩
  · intro p; rw [hs.locationCovers, coversBlocks_sort]
  · intro t ht
    have := hs.ends_le t ht
    rwa [maxEndOf_perm (sortBlocks_perm st bs)] at this

/-! ### `SingleInterval.minus` -/

/-- whatever `SingleInterval.minus` returns is well formed and ends inside the receiver -/
theorem singleMinus_any (x : Blk) (sa : Strand) (b : Location) (ms : Bool) (hx : x.1 ≤ x.2) (r : Location)
    (h : singleMinus x sa b ms = .ok r) :
    wfLocation r = true ∧ ∀ t ∈ locationBlocks r, t.2 ≤ x.2 := by
  unfold singleMinus at h
  cases ho : hasOverlapN (.single x sa) b ms false with
  | error e => rw [ho] at h; cases h
  | ok v =>
    rw [ho, ok_bind] at h
    cases v with
    | false =>
      simp only [Bool.not_false, if_true, pure, Except.pure, Except.ok.injEq] at h
      subst h
      refine ⟨by simpa [wfLocation] using hx, ?_⟩
      intro t ht; simp only [locationBlocks, List.mem_singleton] at ht; subst ht; exact Nat.le_refl _
    | true =>
      simp only [Bool.not_true, Bool.false_eq_true, if_false] at h
      cases hw : minusWalk x (locBlocks b) x.1 x.2 [] with
      | none =>
        rw [hw] at h
        simp only [pure, Except.pure, Except.ok.injEq] at h
        subst h
        exact ⟨rfl, by intro t ht; cases ht⟩
      | some out =>
        rw [hw] at h
        simp only at h
        cases hm : mkCompoundLoc out sa with
        | error e => rw [hm] at h; cases h
        | ok c =>
          rw [hm, ok_bind] at h
          obtain ⟨hc1, hc2⟩ := mkCompoundLoc_inv out sa c hm
          subst hc1
          obtain ⟨r', hr', hwf, _, _, hends⟩ := opt_after_mk out sa hc2
          rw [hr'] at h
          cases h
          refine ⟨hwf, ?_⟩
          intro t ht
          have h1 := hends t ht
          have h2 : maxEndOf out ≤ x.2 := by
            rw [maxEndOf_le_iff]
            intro u hu
            rcases walk_ends x _ _ _ _ _ hw u hu with h3 | h3
            · cases h3
            · exact h3
          omega

/-- `SingleInterval.minus` for a subtrahend that is not self-overlapping -/
theorem singleMinus_spec (x : Blk) (sa : Strand) (b : Location) (ms : Bool) (hx : x.1 ≤ x.2) (hb : WF b)
    (hno : nonOverlapLoc b = true) :
    ∃ r, singleMinus x sa b ms = .ok r ∧ strandIs r (some sa) = true ∧
      ∀ p, locationCovers r p =
        (coversBlocks [x] p && !(strandGate (.single x sa) b ms && locationCovers b p)) := by
  have hov := hasOverlapN_spec (.single x sa) b hx hb ms false
  unfold singleMinus
  rw [hov, ok_bind]
  have hcommon : ∀ p, coversBlocks [x] p = true → locationCovers b p = true →
      anyUpTo (hiOf [Location.single x sa, b]) (fun p => covX false (.single x sa) p && covX false b p) = true := by
    intro p h1 h2
    rw [anyUpTo_cov]
    exact ⟨p, by simpa [covX, locationCovers] using h1, by simpa [covX] using h2⟩
  cases hg : strandGate (.single x sa) b ms with
  | false =>
    refine ⟨.single x sa, by simp; rfl, by simp [strandIs, locationStrand?], ?_⟩
    intro p; simp [cov_single]
  | true =>
    cases hany : anyUpTo (hiOf [Location.single x sa, b]) (fun p => covX false (.single x sa) p && covX false b p) with
    | false =>
      refine ⟨.single x sa, by simp; rfl, by simp [strandIs, locationStrand?], ?_⟩
      intro p
      simp only [cov_single, Bool.true_and]
      cases h1 : coversBlocks [x] p
      · rfl
      · cases h2 : locationCovers b p
        · rfl
        · have := hcommon p h1 h2
          rw [hany] at this; cases this
    | true =>
      simp only [Bool.and_self, Bool.not_true, Bool.false_eq_true, if_false]
      obtain ⟨q, hq1, hq2⟩ := (anyUpTo_cov false _ _).mp hany
      have hxpos : x.1 < x.2 := by
        simp [covX, locationCovers, coversBlocks] at hq1; omega
      have hvb := wf_valid b hb
      have hpw := nonOverlap_pairwise (locationBlocks b) hvb hno
      rw [locBlocks_eq]
      cases hw : minusWalk x (locationBlocks b) x.1 x.2 [] with
      | none =>
        refine ⟨.empty, rfl, by simp [strandIs], ?_⟩
        intro p
        obtain ⟨blk, hblk, hcon⟩ := walk_none _ _ _ _ _ hw
        rw [containsBlk_iff] at hcon
        simp only [cov_empty, Bool.true_and]
        cases h1 : coversBlocks [x] p
        · rfl
        · have : locationCovers b p = true := by
            rw [locationCovers_eq, coversBlocks_iff]
            simp [coversBlocks] at h1
            exact ⟨blk, hblk, by omega, by omega⟩
          simp [this]
      | some out =>
        obtain ⟨tail, e1, e2, e3, e4⟩ := walk_some x (locationBlocks b) x.1 x.2 [] out hvb hpw hx
          (by intro blk _ h1 h2; rw [containsBlk_iff]; omega) hw
        simp only [List.reverse_nil, List.nil_append] at e1
        subst e1
        simp only
        rw [mkCompoundLoc_ok sa e2 e3, ok_bind]
        obtain ⟨r, hr, _, hst, hcov, _⟩ := opt_after_mk out sa (canon_sortBlocks sa e2 e3)
        refine ⟨r, hr, hst, ?_⟩
        intro p
        rw [hcov p, e4 p, locationCovers_eq]
        simp [coversBlocks]

/-! ### `CompoundInterval.minus` -/

/-- element-wise relation between two lists -/
inductive Zip {α β} (P : α → β → Prop) : List α → List β → Prop
  | nil : Zip P [] []
  | cons {x r xs rs} : P x r → Zip P xs rs → Zip P (x :: xs) (r :: rs)

theorem mapM_forall₂ {α β} (f : α → R β) : ∀ (L : List α) (rs : List β), L.mapM f = .ok rs →
    Zip (fun x r => f x = .ok r) L rs
  | [], rs, h => by
    simp only [List.mapM_nil, pure, Except.pure, Except.ok.injEq] at h
    subst h; exact .nil
  | x :: L, rs, h => by
    rw [List.mapM_cons] at h
    cases hx : f x with
    | error e => rw [hx] at h; cases h
    | ok v =>
      rw [hx, ok_bind] at h
      cases hL : L.mapM f with
      | error e => rw [hL] at h; cases h
      | ok vs =>
        rw [hL, ok_bind] at h
        simp only [pure, Except.pure, Except.ok.injEq] at h
        subst h
        exact .cons hx (mapM_forall₂ f L vs hL)

theorem mapM_ok_of {α β} (f : α → R β) : ∀ (L : List α), (∀ x ∈ L, ∃ r, f x = .ok r) → ∃ rs, L.mapM f = .ok rs
  | [], _ => ⟨[], by simp [pure, Except.pure]⟩
  | x :: L, h => by
    obtain ⟨v, hv⟩ := h x (by simp)
    obtain ⟨vs, hvs⟩ := mapM_ok_of f L (fun y hy => h y (List.mem_cons_of_mem _ hy))
    exact ⟨v :: vs, by rw [List.mapM_cons, hv, ok_bind, hvs, ok_bind]; rfl⟩

theorem parts_any (st : Strand) (b : Location) (ms : Bool) (A : List Blk) (parts : List Location)
    (h : Zip (fun x r => singleMinus x st b ms = .ok r) A parts) (hv : ∀ x ∈ A, x.1 ≤ x.2) :
    ∀ t ∈ parts.flatMap locBlocks, t.1 ≤ t.2 ∧ t.2 ≤ maxEndOf A := by
  induction h with
  | nil => intro t ht; cases ht
  | @cons x r A' parts' hx _ ih =>
    intro t ht
    simp only [List.flatMap_cons, List.mem_append] at ht
    obtain ⟨hwf, hends⟩ := singleMinus_any x st b ms (hv x (by simp)) r hx
    simp only [maxEndOf]
    rcases ht with ht | ht
    · rw [locBlocks_eq] at ht
      have := wfLocation_valid r hwf t ht
      have := hends t ht
      omega
    · have := ih (fun y hy => hv y (List.mem_cons_of_mem _ hy)) t ht
      omega

theorem parts_cov (st : Strand) (b : Location) (ms : Bool) (hb : WF b) (hno : nonOverlapLoc b = true)
    (G : Bool) (hG : ∀ x, strandGate (.single x st) b ms = G)
    (A : List Blk) (parts : List Location)
    (h : Zip (fun x r => singleMinus x st b ms = .ok r) A parts) (hv : ∀ x ∈ A, x.1 ≤ x.2) :
    ∀ p, coversBlocks (parts.flatMap locBlocks) p = (coversBlocks A p && !(G && locationCovers b p)) := by
  induction h with
  | nil => intro p; rfl
  | @cons x r A' parts' hx _ ih =>
    intro p
    obtain ⟨r', hr', _, hcov⟩ := singleMinus_spec x st b ms (hv x (by simp)) hb hno
    rw [hx] at hr'
    cases hr'
    rw [List.flatMap_cons, coversBlocks_append, locBlocks_eq, ← locationCovers_eq, hcov p, hG,
      ih (fun y hy => hv y (List.mem_cons_of_mem _ hy)) p, coversBlocks_cons x A']
    simp only [coversBlocks, List.any_cons, List.any_nil, Bool.or_false]
    cases (decide (x.1 ≤ p) && decide (p < x.2)) <;> simp

/-- whatever `CompoundInterval.minus` returns is well formed and ends inside the receiver -/
theorem compoundMinus_any (la : Loc) (b : Location) (ms : Bool) (hla : la.Canon) (r : Location)
    (h : compoundMinus la b ms = .ok r) :
    wfLocation r = true ∧ ∀ t ∈ locationBlocks r, t.2 ≤ maxEndOf la.blocks := by
  obtain ⟨A, st⟩ := la
  unfold compoundMinus at h
  cases ho : hasOverlapN (.compound ⟨A, st⟩) b ms false with
  | error e => rw [ho] at h; cases h
  | ok v =>
    rw [ho, ok_bind] at h
    cases v with
    | false =>
      simp only [Bool.not_false, if_true] at h
      obtain ⟨r', hr', hs⟩ := optimizeLoc_spec true A st hla
      rw [hr'] at h; cases h
      exact ⟨hs.wf, hs.ends_le⟩
    | true =>
      simp only [Bool.not_true, Bool.false_eq_true, if_false] at h
      cases hm : A.mapM (fun x => singleMinus x st b ms) with
      | error e => rw [hm] at h; cases h
      | ok parts =>
        rw [hm, ok_bind] at h
        have hval := parts_any st b ms A parts (mapM_forall₂ _ _ _ hm) ((blocksValid_iff _).mp hla.2.1)
        generalize List.flatMap locBlocks parts = rbs at h hval
        match rbs, h, hval with
        | [], h, _ =>
          simp only [pure, Except.pure, Except.ok.injEq] at h
          subst h; exact ⟨rfl, by intro t ht; cases ht⟩
        | [x], h, hval =>
          simp only [pure, Except.pure, Except.ok.injEq] at h
          subst h
          have := hval x (by simp)
          refine ⟨by simpa [wfLocation] using this.1, ?_⟩
          intro t ht; simp only [locationBlocks, List.mem_singleton] at ht; subst ht; exact this.2
        | y :: z :: w, h, hval =>
          simp only at h
          rw [mkCompoundLoc_ok st (by simp) (fun t ht => (hval t ht).1), ok_bind] at h
          obtain ⟨r', hr', hwf, _, _, hends⟩ := opt_after_mk (y :: z :: w) st
            (canon_sortBlocks st (by simp) (fun t ht => (hval t ht).1))
          rw [hr'] at h; cases h
          refine ⟨hwf, ?_⟩
          intro t ht
          have h1 := hends t ht
          have h2 : maxEndOf (y :: z :: w) ≤ maxEndOf A := by
            rw [maxEndOf_le_iff]; exact fun u hu => (hval u hu).2
          show t.2 ≤ maxEndOf A; omega

/-- `CompoundInterval.minus` for a subtrahend that is not self-overlapping -/
theorem compoundMinus_spec (la : Loc) (b : Location) (ms : Bool) (hla : la.Canon) (hb : WF b)
    (hno : nonOverlapLoc b = true) :
    ∃ r, compoundMinus la b ms = .ok r ∧ strandIs r (some la.strand) = true ∧
      ∀ p, locationCovers r p =
        (coversBlocks la.blocks p && !(strandGate (.compound la) b ms && locationCovers b p)) := by
  obtain ⟨A, st⟩ := la
  have hov := hasOverlapN_spec (.compound ⟨A, st⟩) b hla hb ms false
  unfold compoundMinus
  rw [hov, ok_bind]
  have hcommon : ∀ p, coversBlocks A p = true → locationCovers b p = true →
      anyUpTo (hiOf [Location.compound ⟨A, st⟩, b])
        (fun p => covX false (.compound ⟨A, st⟩) p && covX false b p) = true := by
    intro p h1 h2
    rw [anyUpTo_cov]
    exact ⟨p, by simpa [covX, locationCovers, covers] using h1, by simpa [covX] using h2⟩
  obtain ⟨ro, hro, hso⟩ := optimizeLoc_spec true A st hla
  cases hg : strandGate (.compound ⟨A, st⟩) b ms with
  | false =>
    refine ⟨ro, by simpa using hro, hso.strandIs, ?_⟩
    intro p; rw [hso.locationCovers]; simp
  | true =>
    cases hany : anyUpTo (hiOf [Location.compound ⟨A, st⟩, b])
        (fun p => covX false (.compound ⟨A, st⟩) p && covX false b p) with
    | false =>
      refine ⟨ro, by simpa using hro, hso.strandIs, ?_⟩
      intro p
      rw [hso.locationCovers]
      simp only [Bool.true_and]
      cases h1 : coversBlocks A p
      · rfl
      · cases h2 : locationCovers b p
        · rfl
        · have := hcommon p h1 h2
          rw [hany] at this; cases this
    | true =>
      simp only [Bool.and_self, Bool.not_true, Bool.false_eq_true, if_false]
      have hvA := (blocksValid_iff _).mp hla.2.1
      obtain ⟨parts, hparts⟩ := mapM_ok_of (fun x => singleMinus x st b ms) A (by
        intro x hx
        obtain ⟨r, hr, _⟩ := singleMinus_spec x st b ms (hvA x hx) hb hno
        exact ⟨r, hr⟩)
      rw [hparts, ok_bind]
      have hF := mapM_forall₂ _ _ _ hparts
      have hval := parts_any st b ms A parts hF hvA
      have hcov := parts_cov st b ms hb hno true (fun x => by rw [← hg]; rfl) A parts hF hvA
      simp only [Bool.true_and]
      simp only [Bool.true_and] at hcov
      generalize List.flatMap locBlocks parts = rbs at hcov hval
      match rbs, hcov, hval with
      | [], hcov, _ =>
        refine ⟨.empty, rfl, by simp [strandIs], ?_⟩
        intro p; rw [← hcov p]; rfl
      | [x], hcov, _ =>
        refine ⟨.single x st, rfl, by simp [strandIs, locationStrand?], ?_⟩
        intro p; rw [← hcov p]; rfl
      | y :: z :: w, hcov, hval =>
        simp only
        rw [mkCompoundLoc_ok st (by simp) (fun t ht => (hval t ht).1), ok_bind]
        obtain ⟨r', hr', _, hst, hc, _⟩ := opt_after_mk (y :: z :: w) st
          (canon_sortBlocks st (by simp) (fun t ht => (hval t ht).1))
        refine ⟨r', hr', hst, ?_⟩
        intro p; rw [hc p, hcov p]

/-! ### with parents -/

theorem minusP_strict_ok (a b : PLoc) (ms : Bool) (hsp : sameParent a.2 b.2 = true) :
    minusP a b ms true = minusP a b ms false := by
  simp [minusP, requireParentsEq_eq, hsp]
  rfl

theorem minusP_strict_err (a b : PLoc) (ms : Bool) (hsp : sameParent a.2 b.2 = false) :
    minusP a b ms true = .error .MismatchedParent := by
  simp [minusP, requireParentsEq_eq, hsp]
  rfl

theorem bounds_of_le (a : PLoc) (ha : WFP a) (r : Location)
    (hends : ∀ t ∈ locationBlocks r, t.2 ≤ maxEndOf (locationBlocks a.1)) :
    ∀ n, parentSeqLen a.2 = some n → ∀ t ∈ locationBlocks r, t.2 ≤ n := by
  intro n hn t ht
  have h1 := hends t ht
  have h2 : maxEndOf (locationBlocks a.1) ≤ n := (maxEndOf_le_iff _ _).mpr (ha.2.2 n hn)
  omega

/-- whatever `minus` returns is a well-formed location inside the receiver's parent -/
theorem minusP_resultOk (a b : PLoc) (ha : WFP a) (ms : Bool) (r : PLoc)
    (h : minusP a b ms false = .ok r) : resultOk r a.2 = true := by
  obtain ⟨al, ap⟩ := a
  unfold minusP at h
  simp only [Bool.false_eq_true, if_false] at h
  cases al with
  | empty =>
    cases h
    simp [resultOk, wfLocation, parLen]
  | single x sa =>
    have hx : x.1 ≤ x.2 := ha.1
    by_cases hg : parentGate ap b.2 = true
    · simp only [hg, Bool.not_true, Bool.false_eq_true, if_false] at h
      cases hs : singleMinus x sa b.1 ms with
      | error e => simp only [hs] at h; cases h
      | ok r' =>
        simp only [hs] at h
        cases h
        obtain ⟨hwf, hends⟩ := singleMinus_any x sa b.1 ms hx r' hs
        refine resultOk_withPar r' ap ap hwf ?_ (sameParent_refl ap)
        exact bounds_of_le (.single x sa, ap) ha r' (by
          intro t ht; have := hends t ht; simp only [locationBlocks, maxEndOf]; omega)
    · simp only [hg, Bool.not_false, if_true] at h
      cases h
      exact resultOk_withPar (.single x sa) ap ap (by simpa [wfLocation] using hx) ha.2.2 (sameParent_refl ap)
  | compound la =>
    have hla : la.Canon := ha.1
    by_cases hg : parentGate ap b.2 = true
    · simp only [hg, Bool.not_true, Bool.false_eq_true, if_false] at h
      cases hs : compoundMinus la b.1 ms with
      | error e => simp only [hs] at h; cases h
      | ok r' =>
        simp only [hs] at h
        cases h
        obtain ⟨hwf, hends⟩ := compoundMinus_any la b.1 ms hla r' hs
        exact resultOk_withPar r' ap ap hwf (bounds_of_le (.compound la, ap) ha r' hends) (sameParent_refl ap)
    · simp only [hg, Bool.not_false, if_true] at h
      obtain ⟨A, st⟩ := la
      obtain ⟨ro, hro, hso⟩ := optimizeLoc_spec true A st hla
      simp only [hro] at h
      cases h
      exact resultOk_withPar ro ap ap hso.wf (bounds_of_le (.compound ⟨A, st⟩, ap) ha ro hso.ends_le)
        (sameParent_refl ap)

/-- the claim of `okMinus` from the facts about the parent-less result -/
theorem okMinus_assemble (a b : PLoc) (ms : Bool) (r : Location) (hno : nonOverlapLoc b.1 = true)
    (hres : resultOk (withPar r a.2) a.2 = true)
    (hends : ∀ t ∈ locationBlocks r, t.2 ≤ maxEndOf (locationBlocks a.1))
    (hcov : ∀ p, locationCovers r p = (locationCovers a.1 p && !(active a b ms && locationCovers b.1 p)))
    (hst : strandIs r (locationStrand? a.1) = true) :
    okMinus a b ms false (some (withPar r a.2)) = true := by
  unfold okMinus
  simp only [Bool.false_and, Bool.false_eq_true, if_false, hno, Bool.not_true, withPar_fst, hres, hst,
    Bool.true_and, Bool.and_true, Bool.and_eq_true]
  refine ⟨?_, ?_⟩
  · simp only [endsWithin, List.all_eq_true, decide_eq_true_eq]
    intro t ht
    have := hends t ht
    rw [hiOf_pair]; omega
  · rw [allUpTo_iff]
    intro p _
    rw [hcov p]; simp

theorem minusP_dom (a b : PLoc) (ha : WFP a) (hb : WFP b) (ms : Bool)
    (hno : nonOverlapLoc b.1 = true) :
    okMinus a b ms false (ans (minusP a b ms false)) = true := by
  obtain ⟨al, ap⟩ := a
  cases al with
  | empty =>
    have : minusP (.empty, ap) b ms false = .ok (withPar .empty ap) := rfl
    rw [this, ans_ok]
    exact okMinus_assemble (.empty, ap) b ms .empty hno (by simp [resultOk, wfLocation, parLen, withPar])
      (by intro t ht; cases ht) (by intro p; rfl) (by simp [strandIs])
  | single x sa =>
    have hx : x.1 ≤ x.2 := ha.1
    cases hsp : sameParent ap b.2 with
    | false =>
      have : minusP (.single x sa, ap) b ms false = .ok (withPar (.single x sa) ap) := by
        simp [minusP, parentGate_eq, hsp]; rfl
      rw [this, ans_ok]
      refine okMinus_assemble (.single x sa, ap) b ms (.single x sa) hno ?_ ?_ ?_ ?_
      · exact resultOk_withPar (.single x sa) ap ap (by simpa [wfLocation] using hx) ha.2.2 (sameParent_refl ap)
      · intro t ht; exact le_maxEndOf_of_mem _ t ht
      · intro p; simp [active, hsp]
      · simp [strandIs]
    | true =>
      obtain ⟨r, hr, hst, hcov⟩ := singleMinus_spec x sa b.1 ms hx hb.1 hno
      have : minusP (.single x sa, ap) b ms false = .ok (withPar r ap) := by
        simp [minusP, parentGate_eq, hsp, hr]; rfl
      have hres := minusP_resultOk (.single x sa, ap) b ha ms _ this
      rw [this, ans_ok]
      refine okMinus_assemble (.single x sa, ap) b ms r hno hres ?_ ?_ hst
      · intro t ht
        have := (singleMinus_any x sa b.1 ms hx r hr).2 t ht
        simp only [locationBlocks, maxEndOf]; omega
      · intro p; rw [hcov p, active_eq]; simp only [hsp, Bool.true_and]; rfl
  | compound la =>
    have hla : la.Canon := ha.1
    cases hsp : sameParent ap b.2 with
    | false =>
      obtain ⟨ro, hro, hso⟩ := optimizeLoc_spec true la.blocks la.strand hla
      have : minusP (.compound la, ap) b ms false = .ok (withPar ro ap) := by
        simp [minusP, parentGate_eq, hsp, hro]; rfl
      have hres := minusP_resultOk (.compound la, ap) b ha ms _ this
      rw [this, ans_ok]
      refine okMinus_assemble (.compound la, ap) b ms ro hno hres hso.ends_le ?_ hso.strandIs
      intro p; rw [hso.locationCovers]; simp [active, hsp, locationCovers, covers]
    | true =>
      obtain ⟨r, hr, hst, hcov⟩ := compoundMinus_spec la b.1 ms hla hb.1 hno
      have : minusP (.compound la, ap) b ms false = .ok (withPar r ap) := by
        simp [minusP, parentGate_eq, hsp, hr]; rfl
      have hres := minusP_resultOk (.compound la, ap) b ha ms _ this
      rw [this, ans_ok]
      refine okMinus_assemble (.compound la, ap) b ms r hno hres ?_ ?_ hst
      · exact (compoundMinus_any la b.1 ms hla r hr).2
      · intro p; rw [hcov p, active_eq]; simp only [hsp, Bool.true_and]; rfl

end BioCantor.Proofs.Minus

namespace BioCantor.Proofs
open BioCantor BioCantor.Spec BioCantor.Model

/-- C02-T4: for a subtrahend that is not self-overlapping, `a.minus(b)` covers exactly the positions of `a` that are not
    positions of `b` (all of `a` when the parents are incompatible or, under match_strand, the strands differ), on the
    strand of `a`, well formed, inside the parent; for a self-overlapping subtrahend the call may refuse, and whatever it
    returns is well formed -/
theorem minusP_ok (a b : PLoc) (ha : WFP a) (hb : WFP b) (ms strict : Bool) :
    okMinus a b ms strict (ans (minusP a b ms strict)) = true := by
  have hfalse : okMinus a b ms false (ans (minusP a b ms false)) = true := by
    by_cases hno : nonOverlapLoc b.1 = true
    · exact Minus.minusP_dom a b ha hb ms hno
    · cases hm : minusP a b ms false with
      | error e => simp [okMinus, hno]
      | ok r =>
        have := Minus.minusP_resultOk a b ha ms r hm
        simp [okMinus, hno, this]
  cases strict with
  | false => exact hfalse
  | true =>
    cases hsp : sameParent a.2 b.2 with
    | false =>
      rw [Minus.minusP_strict_err a b ms hsp]
      simp [okMinus, hsp]
    | true =>
      rw [Minus.minusP_strict_ok a b ms hsp]
      have : okMinus a b ms true = okMinus a b ms false := by
        funext x; simp [okMinus, hsp]
      rw [this]; exact hfalse

example : WFP ((.compound ⟨[(0, 2), (2, 2), (3, 9)], .minus⟩), [(some "chrA", none, some ['A','C','G','T','A','C','G','T','A'])]) ∧
    WFP ((.compound ⟨[(1, 4), (4, 5), (8, 9)], .plus⟩), [(some "chrA", none, some ['A','C','G','T','A','C','G','T','A'])]) := by
  decide

end BioCantor.Proofs
