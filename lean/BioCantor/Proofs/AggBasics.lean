/-
  C20 helper lemmas, part 1: min / max folds, the head of a stable sort is the FIRST minimal element,
  a stable sort keeps the relative order of equal keys.
-/
import BioCantor.Spec.Aggregates
import BioCantor.Model.Aggregates
namespace BioCantor.Proofs.Agg
open BioCantor BioCantor.Spec.Agg BioCantor.Model.Agg

/-- observable answer: `none` = raised -/
def ansA {α} : RA α → Option α
  | .ok a => some a
  | .error _ => none

@[simp] theorem ansA_ok {α} (a : α) : ansA (Except.ok a : RA α) = some a := rfl

/-! ### `min(...)` / `max(...)` -/

theorem minFrom_le (xs : List Nat) : ∀ (x : Nat), minFrom x xs ≤ x ∧ (∀ y ∈ xs, minFrom x xs ≤ y) ∧
    (minFrom x xs = x ∨ minFrom x xs ∈ xs) := by
  induction xs with
  | nil => intro x; simp [minFrom]
  | cons a as ih =>
    intro x
    have h := ih (min x a)
    simp only [minFrom, List.foldl_cons] at h ⊢
    obtain ⟨h1, h2, h3⟩ := h
    refine ⟨by omega, fun y hy => ?_, ?_⟩
    · rcases List.mem_cons.mp hy with rfl | hy
      · omega
      · exact h2 y hy
    · rcases h3 with h3 | h3
      · by_cases hxa : x ≤ a
        · left; rw [h3]; omega
        · right; rw [h3]; simp; left; omega
      · right; exact List.mem_cons_of_mem _ h3

theorem maxFrom_ge (xs : List Nat) : ∀ (x : Nat), x ≤ maxFrom x xs ∧ (∀ y ∈ xs, y ≤ maxFrom x xs) ∧
    (maxFrom x xs = x ∨ maxFrom x xs ∈ xs) := by
  induction xs with
  | nil => intro x; simp [maxFrom]
  | cons a as ih =>
    intro x
    have h := ih (max x a)
    simp only [maxFrom, List.foldl_cons] at h ⊢
    obtain ⟨h1, h2, h3⟩ := h
    refine ⟨by omega, fun y hy => ?_, ?_⟩
    · rcases List.mem_cons.mp hy with rfl | hy
      · omega
      · exact h2 y hy
    · rcases h3 with h3 | h3
      · by_cases hxa : a ≤ x
        · left; rw [h3]; omega
        · right; rw [h3]; simp; left; omega
      · right; exact List.mem_cons_of_mem _ h3

theorem isMin_minFrom (x : Nat) (xs : List Nat) : isMin (minFrom x xs) (x :: xs) = true := by
  obtain ⟨h1, h2, h3⟩ := minFrom_le xs x
  simp only [isMin, Bool.and_eq_true, List.contains_iff_mem, List.all_eq_true, decide_eq_true_eq, List.mem_cons]
  refine ⟨?_, fun y hy => ?_⟩
  · rcases h3 with h3 | h3
    · exact Or.inl h3
    · exact Or.inr h3
  · rcases hy with rfl | hy
    · exact h1
    · exact h2 y hy

theorem isMax_maxFrom (x : Nat) (xs : List Nat) : isMax (maxFrom x xs) (x :: xs) = true := by
  obtain ⟨h1, h2, h3⟩ := maxFrom_ge xs x
  simp only [isMax, Bool.and_eq_true, List.contains_iff_mem, List.all_eq_true, decide_eq_true_eq, List.mem_cons]
  refine ⟨?_, fun y hy => ?_⟩
  · rcases h3 with h3 | h3
    · exact Or.inl h3
    · exact Or.inr h3
  · rcases hy with rfl | hy
    · exact h1
    · exact h2 y hy

/-! ### the head of a stable sort -/

/-- the first element that is `le` every element -/
def firstMin {α} (le : α → α → Bool) : List α → Option α
  | [] => none
  | a :: l =>
    match firstMin le l with
    | none => some a
    | some m => if le a m then some a else some m

theorem head_mergeSort {α} {le : α → α → Bool}
    (trans : ∀ (a b c : α), le a b → le b c → le a c) (total : ∀ (a b : α), le a b || le b a) :
    ∀ (l : List α), (l.mergeSort le).head? = firstMin le l
  | [] => by simp [firstMin]
  | a :: l => by
    obtain ⟨l₁, l₂, h₁, h₂, h₃⟩ := List.mergeSort_cons trans total a l
    have ih := head_mergeSort trans total l
    have hs := List.pairwise_mergeSort trans total (a :: l)
    rw [h₁] at hs ⊢
    unfold firstMin
    rw [← ih, h₂]
    cases l₁ with
    | nil =>
      simp only [List.nil_append, List.head?_cons]
      cases l₂ with
      | nil => rfl
      | cons m l₂' =>
        simp only [List.head?_cons]
        have : le a m = true := by
          simp only [List.nil_append, List.pairwise_cons] at hs
          exact hs.1 m List.mem_cons_self
        rw [this]; rfl
    | cons b l₁' =>
      simp only [List.cons_append, List.head?_cons]
      have : le a b = false := by
        have := h₃ b List.mem_cons_self
        simpa using this
      rw [this]; rfl

/-- `firstMin` splits the list: nothing before it is `le` it, and it is `le` everything -/
theorem firstMin_split {α} {le : α → α → Bool}
    (trans : ∀ (a b c : α), le a b → le b c → le a c) (total : ∀ (a b : α), le a b || le b a) :
    ∀ (l : List α) (x : α), firstMin le l = some x →
      ∃ pre post, l = pre ++ x :: post ∧ (∀ y ∈ pre, le y x = false) ∧ (∀ y ∈ l, le x y = true)
  | [], x, h => by simp [firstMin] at h
  | a :: l, x, h => by
    unfold firstMin at h
    have refl : ∀ z : α, le z z = true := fun z => by have := total z z; simpa using this
    cases hm : firstMin le l with
    | none =>
      rw [hm] at h
      simp only [Option.some.injEq] at h
      subst h
      have hl : l = [] := by
        cases l with
        | nil => rfl
        | cons b bs =>
          unfold firstMin at hm
          cases h' : firstMin le bs <;> rw [h'] at hm <;> simp at hm
          split at hm <;> cases hm
      subst hl
      exact ⟨[], [], rfl, fun _ h => (nomatch h), fun y hy => by
        rw [List.mem_singleton.mp hy]; exact refl _⟩
    | some m =>
      rw [hm] at h
      obtain ⟨pre, post, hl, hpre, hall⟩ := firstMin_split trans total l m hm
      by_cases ham : le a m = true
      · simp only [ham, if_true, Option.some.injEq] at h
        subst h
        refine ⟨[], l, rfl, fun _ h => (nomatch h), fun y hy => ?_⟩
        rcases List.mem_cons.mp hy with rfl | hy
        · exact refl _
        · exact trans _ _ _ ham (hall y hy)
      · simp only [ham, Bool.false_eq_true, if_false, Option.some.injEq] at h
        subst h
        refine ⟨a :: pre, post, by rw [hl]; rfl, fun y hy => ?_, fun y hy => ?_⟩
        · rcases List.mem_cons.mp hy with rfl | hy
          · simpa using ham
          · exact hpre y hy
        · rcases List.mem_cons.mp hy with rfl | hy
          · have := total y m
            simp only [Bool.or_eq_true] at this
            rcases this with h' | h'
            · exact absurd h' ham
            · exact h'
          · exact hall y hy

/-! ### a stable sort by a natural-number key -/

section stable
variable {α : Type} (key : α → Nat)

def keyLe (a b : α) : Bool := decide (key a ≤ key b)

theorem keyLe_trans (a b c : α) : keyLe key a b = true → keyLe key b c = true → keyLe key a c = true := by
  simp only [keyLe, decide_eq_true_eq]; omega

theorem keyLe_total (a b : α) : (keyLe key a b || keyLe key b a) = true := by
  simp only [keyLe, Bool.or_eq_true, decide_eq_true_eq]; omega

/-- elements of equal key keep their relative order -/
theorem mergeSort_filter_key (l : List α) (k : Nat) :
    (l.mergeSort (keyLe key)).filter (fun x => key x == k) = l.filter (fun x => key x == k) := by
  have hsub : List.Sublist (l.filter (fun x => key x == k)) l := List.filter_sublist
  have hpw : (l.filter (fun x => key x == k)).Pairwise (fun a b => keyLe key a b = true) := by
    rw [List.pairwise_iff_forall_sublist]
    intro a b hab
    have ha : a ∈ l.filter (fun x => key x == k) := hab.subset (by simp)
    have hb : b ∈ l.filter (fun x => key x == k) := hab.subset (by simp)
    simp only [List.mem_filter, beq_iff_eq] at ha hb
    simp [keyLe, ha.2, hb.2]
  have h1 := List.sublist_mergeSort (le := keyLe key) (keyLe_trans key) (keyLe_total key) hpw hsub
  have h2 := h1.filter (fun x => key x == k)
  rw [List.filter_filter] at h2
  simp only [Bool.and_self] at h2
  have hlen : (l.filter (fun x => key x == k)).length = ((l.mergeSort (keyLe key)).filter (fun x => key x == k)).length :=
    ((List.mergeSort_perm l (keyLe key)).filter _).length_eq.symm
  exact (h2.eq_of_length hlen).symm

end stable

end BioCantor.Proofs.Agg
