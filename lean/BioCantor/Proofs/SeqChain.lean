/-
  C03-T4 for CHAINS: any program of unit-step slices (arbitrary bounds) and reverse complements applied to a
  consistent located sequence object keeps text and recorded location consistent at every step.
  Also: the model's slice indices are Python's (`Spec.pyIndices`) for every bound and step, and the closed form
  of a unit-step slice.
-/
import BioCantor.Proofs.SeqAppend
set_option linter.unusedSimpArgs false
namespace BioCantor.Proofs.Sq
open BioCantor BioCantor.Spec BioCantor.Model BioCantor.Spec.Sq BioCantor.Model.Sq BioCantor.Proofs

/-! ### Python slicing: model = reference -/

/-- the model's index computation (CPython's `PySlice_AdjustIndices`) and the reference `pyIndices` agree for
    EVERY bound and EVERY step (0 included: both refuse) -/
theorem sliceIndices_eq_spec (n : Nat) (a b c : Option Int) : ans (sliceIndices n a b c) = pyIndices n a b c := by
  unfold sliceIndices pyIndices startOf stopOf adjust
  cases c with
  | none => cases a <;> cases b <;> simp [pure, Except.pure]
  | some st =>
    by_cases h0 : st = 0
    · simp [h0, throw, throwThe, MonadExceptOf.throw]
    · by_cases hp : st > 0
      · cases a <;> cases b <;> simp [h0, hp, pure, Except.pure]
      · cases a <;> cases b <;> simp [h0, hp, pure, Except.pure]

theorem pySlice_unit (d : List Char) (a b c : Option Int) (hc : c = none ∨ c = some 1) :
    pySlice d a b c = some ((d.drop (normStart d.length a)).take (normEnd d.length a b - normStart d.length a)) := by
  unfold pySlice
  rw [← sliceIndices_eq_spec, sliceIndices_unit d.length a b c hc]
  simp only [ans_ok]
  have hb := norm_bounds d.length a b
  exact charsAt_range' d _ _ (by omega)

theorem pick_nil (idx : List Nat) : pick [] idx = [] := by
  induction idx with
  | nil => rfl
  | cons i is ih => simp [pick, ih]

/-! ### the invariant of a chain -/

/-- a sequence object a chain of slices / reverse complements can start from and always stays in:
    * `located`: text = sequence of its recorded location, which is directional, inside the parent, not
      self-overlapping, reads only letters that are complemented involutively, and is either free of empty blocks
      or a single interval;
    * `bare`: no text and no recorded location (what an empty slice becomes once it is reverse-complemented) -/
inductive Good (P alph : List Char) : SeqObj → Prop
  | located (x : SeqObj) (l : Location) (loc : Loc) (hc : Consistent P alph x l loc)
      (hz : (∀ b ∈ loc.blocks, b.1 < b.2) ∨ ∃ b s, l = .single b s)
      (hinv : involutiveLetters P alph loc = true) : Good P alph x
  | bare (x : SeqObj) (hd : x.data = []) (hp : ∀ p, x.par = some p → p.loc = none) : Good P alph x

theorem involutive_sub (P alph : List Char) (B : List Nat) (s n : Nat) (cs : List Char)
    (hcs : charsAt P B = some cs) (h : (noU cs && (compAll alph cs).isSome) = true) :
    ∃ cs', charsAt P ((B.drop s).take n) = some cs' ∧ (noU cs' && (compAll alph cs').isSome) = true := by
  refine ⟨(cs.drop s).take n, ?_, ?_⟩
  · unfold charsAt at hcs ⊢; exact mapOpt_take _ _ _ (mapOpt_drop _ _ _ hcs s) n
  · simp only [Bool.and_eq_true] at h ⊢
    constructor
    · unfold noU at h ⊢
      rw [List.all_eq_true] at h ⊢
      intro c hc
      exact h.1 c (List.mem_of_mem_drop (List.mem_of_mem_take hc))
    · cases hq : compAll alph cs with
      | none => simp [hq] at h
      | some q =>
        rw [compAll_eq] at hq ⊢
        rw [mapOpt_take _ _ _ (mapOpt_drop _ _ _ hq s) n]; rfl

theorem toLoc_of_strand (m : Location) (st : Strand) (hs : locationStrand? m = some st) :
    toLoc m = some ⟨locationBlocks m, st⟩ := by
  cases m with
  | single b s => simp only [locationStrand?, Option.some.injEq] at hs; subst hs; rfl
  | compound c => simp only [locationStrand?, Option.some.injEq] at hs; subst hs; rfl
  | empty => simp [locationStrand?] at hs

theorem blocksLen_pos_of (bs : List Blk) (hne : bs ≠ []) (hp : ∀ b ∈ bs, b.1 < b.2) : 0 < blocksLen bs := by
  cases bs with
  | nil => exact absurd rfl hne
  | cons b t => have := hp b (by simp); simp [blocksLen, Blk.len]; omega

theorem loc_blocks_ne (l : Location) (loc : Loc) (h : WF l) (hl : toLoc l = some loc) : loc.blocks ≠ [] := by
  cases l with
  | single b s => simp only [toLoc, Option.some.injEq] at hl; subst hl; simp
  | compound c => simp only [toLoc, Option.some.injEq] at hl; subst hl; exact h.1
  | empty => simp [toLoc] at hl

theorem childPar_zero_single (par : Model.Sq.Par) (b : Blk) (s : Strand) (hb : b.1 = b.2) (hs : s = .plus ∨ s = .minus) :
    childPar par (.single b s) 0 (max 0 0) = .ok ⟨none, some (.single (b.1, b.1) s)⟩ := by
  have hm : max (0 : Int) 0 = 0 := by omega
  rw [hm]
  rcases hs with rfl | rfl
  · simp [childPar, relInterval, singleRelInterval, Blk.len, hb, strandRelativeTo, mkSingle, resetLocation, locLen,
      bind, Except.bind, pure, Except.pure]
  · simp [childPar, relInterval, singleRelInterval, Blk.len, hb, strandRelativeTo, mkSingle, resetLocation, locLen,
      bind, Except.bind, pure, Except.pure]

/-- slicing a zero-length single interval -/
theorem slice_zero_single (x : SeqObj) (pst : Option Strand) (b : Blk) (s : Strand) (hb : b.1 = b.2)
    (hs : s = .plus ∨ s = .minus) (hp : x.par = some ⟨pst, some (.single b s)⟩) (hd : x.data = [])
    (a c' d : Option Int) (hc : d = none ∨ d = some 1) :
    getSlice x a c' d = .ok ⟨[], some ⟨none, some (.single (b.1, b.1) s)⟩⟩ := by
  have hsi := sliceIndices_unit x.data.length a c' d hc
  have hn : x.data.length = 0 := by rw [hd]; rfl
  have h1 := startOf_bounds x.data.length a
  have h2 := stopOf_bounds x.data.length c'
  rw [hn] at h1 h2 hsi
  have e1 : startOf 0 a = 0 := by omega
  have e2 : stopOf 0 c' = 0 := by omega
  have hcp := childPar_zero_single ⟨pst, some (.single b s)⟩ b s hb hs
  rcases hc with rfl | rfl <;>
  · unfold getSlice
    simp only [hn, hsi, hp, e1, e2, hcp, hd, List.length_nil, pick_nil, ne_eq, not_true_eq_false, if_false, bind,
      Except.bind, pure, Except.pure]

theorem expect_single_zero (P alph : List Char) (b : Blk) (s : Strand) (hs : s = .plus ∨ s = .minus) (hb : b.1 = b.2) :
    expectExtract P alph (.single b s) = some [] := by
  have h0 : b.2 - b.1 = 0 := by omega
  have hA : blkAsc b = [] := by unfold blkAsc; rw [h0]; rfl
  rcases hs with rfl | rfl
  · simp [expectExtract, expectExtractLoc, readAt, bases, basesPlus, hA, charsAt, mapOpt]
  · simp [expectExtract, expectExtractLoc, readAt, bases, basesMinus, blkDesc, hA, charsAt, mapOpt, compAll]
    cases compTable alph <;> rfl

theorem good_single_zero (P alph : List Char) (x : SeqObj) (pst : Option Strand) (b : Blk) (s : Strand)
    (hs : s = .plus ∨ s = .minus) (hb : b.1 = b.2) (hp : x.par = some ⟨pst, some (.single b s)⟩) (hd : x.data = []) :
    Good P alph x := by
  have hdir : s.isDirectional = true := by rcases hs with rfl | rfl <;> rfl
  have h0 : b.2 - b.1 = 0 := by omega
  have hA : blkAsc b = [] := by unfold blkAsc; rw [h0]; rfl
  refine Good.located x (.single b s) ⟨[b], s⟩ ⟨⟨pst, hp⟩, by simp [WF]; omega, rfl, Or.inl (by omega), hdir, rfl, ?_⟩
    (Or.inr ⟨b, s, rfl⟩) ?_
  · rw [hd]; exact expect_single_zero P alph b s hs hb
  · unfold involutiveLetters
    rcases hs with rfl | rfl
    · simp [bases, basesPlus, hA, charsAt, mapOpt, noU, compAll]; cases compTable alph <;> rfl
    · simp [bases, basesMinus, blkDesc, hA, charsAt, mapOpt, noU, compAll]; cases compTable alph <;> rfl

/-- **one slice step keeps the invariant** -/
theorem slice_good (P alph : List Char) (hnt : isNt alph = true) (x : SeqObj) (hg : Good P alph x)
    (a b c : Option Int) (hc : c = none ∨ c = some 1) :
    ∃ y, getSlice x a b c = .ok y ∧
      y.data = (x.data.drop (normStart x.data.length a)).take
        (normEnd x.data.length a b - normStart x.data.length a) ∧ Good P alph y := by
  cases hg with
  | bare hd hp =>
    have hsi := sliceIndices_unit x.data.length a b c hc
    have hdat : ((x.data.drop (normStart x.data.length a)).take
        (normEnd x.data.length a b - normStart x.data.length a)) = [] := by rw [hd]; simp
    rw [hdat]
    rw [hd] at hsi
    cases hpar : x.par with
    | none =>
      refine ⟨⟨[], none⟩, ?_, rfl, Good.bare _ rfl (by intro p h; cases h)⟩
      unfold getSlice
      simp only [hsi, hpar, hd, pick_nil, bind, Except.bind, pure, Except.pure]
    | some p =>
      have hl := hp p hpar
      refine ⟨⟨[], some p⟩, ?_, rfl, Good.bare _ rfl (by intro q h; cases h; exact hl)⟩
      unfold getSlice
      simp only [hsi, hpar, hl, hd, pick_nil, bind, Except.bind, pure, Except.pure]
  | located l loc hcons hz hinv =>
    have hdl := expect_length P alph l loc hcons.toLoc hcons.dir x.data hcons.data
    by_cases hlen : 0 < loc.len
    · obtain ⟨y, m, pst, hget, hdata, hpar, hwf, hW, hs, hex, hno, hshape, hbm⟩ :=
        slice_consistent P alph hnt x l loc hcons hlen a b c hc
      refine ⟨y, hget, hdata, ?_⟩
      have hdne : loc.strand ≠ .unstranded := by
        intro hu; have := hcons.dir; rw [hu] at this; simp [Strand.isDirectional] at this
      have htl := toLoc_of_strand m loc.strand hs
      have hread : expectExtract P alph m = some y.data := by
        rw [← hex]; exact (extract_eq P alph hnt m hwf hW).symm
      refine Good.located y m ⟨locationBlocks m, loc.strand⟩ ⟨⟨pst, hpar⟩, hwf, htl, hW, hcons.dir, hno, hread⟩ ?_ ?_
      · rcases hshape with h | ⟨bb, t, h⟩
        · exact Or.inl h
        · exact Or.inr ⟨bb, t, h⟩
      · -- letters of the sub-location are letters of the location
        have hi := hinv
        unfold involutiveLetters at hi ⊢
        cases hcs : charsAt P (bases loc) with
        | none => simp [hcs] at hi
        | some cs =>
          simp only [hcs] at hi
          have hbm' : bases ⟨locationBlocks m, loc.strand⟩ = ((bases loc).drop (normStart x.data.length a)).take
              (normEnd x.data.length a b - normStart x.data.length a) := by
            rw [← locationBases_eq m loc.strand hs]; exact hbm
          obtain ⟨cs', h1, h2⟩ := involutive_sub P alph (bases loc) (normStart x.data.length a)
            (normEnd x.data.length a b - normStart x.data.length a) cs hcs hi
          rw [hbm', h1]; exact h2
    · -- zero-length location: it is a single interval
      have hl0 : loc.len = 0 := by omega
      rcases hz with hpos | ⟨bb, s, hls⟩
      · exfalso
        have := blocksLen_pos_of loc.blocks (loc_blocks_ne l loc hcons.wf hcons.toLoc) hpos
        unfold Loc.len at hl0; omega
      · subst hls
        have htl := hcons.toLoc
        simp only [toLoc, Option.some.injEq] at htl
        subst htl
        obtain ⟨pst, hp⟩ := hcons.par
        have hbb : bb.1 = bb.2 := by
          have := hcons.wf; simp only [WF] at this
          simp only [Loc.len, blocksLen, Blk.len] at hl0; omega
        have hs : s = .plus ∨ s = .minus := by
          have := hcons.dir; cases s <;> simp_all [Strand.isDirectional]
        have hd : x.data = [] := by
          apply List.eq_nil_of_length_eq_zero; rw [hdl]; exact hl0
        refine ⟨_, slice_zero_single x pst bb s hbb hs hp hd a b c hc, ?_, ?_⟩
        · rw [hd]; simp
        · exact good_single_zero P alph _ none (bb.1, bb.1) s hs rfl rfl rfl

theorem compAll_nil (alph : List Char) : compAll alph [] = some [] := by
  unfold compAll; cases compTable alph <;> rfl

theorem starts_lt_of_pos (bs : List Blk) (hv : ∀ b ∈ bs, b.1 ≤ b.2) (hno : nonOverlap bs = true)
    (hpos : ∀ b ∈ bs, b.1 < b.2) : bs.Pairwise (fun a b => a.1 < b.1) :=
  fst_lt_of_asc bs (nonOverlap_pairwise bs hv hno) hpos

theorem involutive_reverse (P alph : List Char) (B B' : List Nat) (hB : B' = B.reverse)
    (h : (match charsAt P B with | some cs => noU cs && (compAll alph cs).isSome | none => false) = true) :
    (match charsAt P B' with | some cs => noU cs && (compAll alph cs).isSome | none => false) = true := by
  subst hB
  cases hcs : charsAt P B with
  | none => simp [hcs] at h
  | some cs =>
    have hr : charsAt P B.reverse = some cs.reverse := by
      unfold charsAt at hcs ⊢; rw [mapOpt_reverse, hcs]; rfl
    simp only [hcs, Bool.and_eq_true] at h
    simp only [hr, Bool.and_eq_true]
    constructor
    · have := h.1; unfold noU at this ⊢; simpa using this
    · cases hq : compAll alph cs with
      | none => simp [hq] at h
      | some q => rw [compAll_eq] at hq ⊢; rw [mapOpt_reverse, hq]; rfl

/-- **one reverse-complement step keeps the invariant** -/
theorem rc_good (P alph : List Char) (hnt : isNt alph = true) (x : SeqObj) (hg : Good P alph x) :
    ∃ y, reverseComplement alph x = .ok y ∧ revcomp alph x.data = some y.data ∧ Good P alph y := by
  obtain ⟨m, hm, _⟩ := rcMap_ok alph hnt
  cases hg with
  | bare hd hp =>
    have hrv : revcomp alph x.data = some [] := by rw [hd]; unfold revcomp; exact compAll_nil alph
    cases hpar : x.par with
    | none =>
      refine ⟨⟨[], none⟩, ?_, hrv, Good.bare _ rfl (by intro p h; cases h)⟩
      unfold reverseComplement
      simp [hm, hpar, hd, truthy, compData, bind, Except.bind, pure, Except.pure]
    | some p =>
      have hl := hp p hpar
      cases hps : p.strand with
      | none =>
        refine ⟨⟨[], none⟩, ?_, hrv, Good.bare _ rfl (by intro q h; cases h)⟩
        unfold reverseComplement
        simp [hm, hpar, hl, hd, truthy, compData, parStrand, hps, bind, Except.bind, pure, Except.pure]
      | some st =>
        refine ⟨⟨[], some ⟨some (Model.strandReverse st), none⟩⟩, ?_, hrv,
          Good.bare _ rfl (by intro q h; cases h; rfl)⟩
        unfold reverseComplement
        simp [hm, hpar, hl, hd, truthy, compData, parStrand, hps, bind, Except.bind, pure, Except.pure]
  | located l loc hcons hz hinv =>
    have hdl := expect_length P alph l loc hcons.toLoc hcons.dir x.data hcons.data
    by_cases hlen : 0 < loc.len
    · obtain ⟨d, hrc, hrv, hex⟩ := rc_consistent P alph hnt x l loc hcons hlen hinv
      refine ⟨_, hrc, hrv, ?_⟩
      have hdne : loc.strand ≠ .unstranded := by
        intro hu; have := hcons.dir; rw [hu] at this; simp [Strand.isDirectional] at this
      have hWF' := WF_reverseLoc l hcons.wf
      have hW' := Within_reverseLoc P l hcons.within
      have hread : expectExtract P alph (reverseLoc l) = some d := by
        rw [← hex]; exact (extract_eq P alph hnt _ hWF' hW').symm
      have hdir' : (Spec.Tab.strandReverse loc.strand).isDirectional = true := by
        have := hcons.dir; cases hst : loc.strand <;> simp_all [Strand.isDirectional, Spec.Tab.strandReverse]
      have hi := hinv
      unfold involutiveLetters at hi
      cases l with
      | empty => have := hcons.toLoc; simp [toLoc] at this
      | single bb s =>
        have htl := hcons.toLoc
        simp only [toLoc, Option.some.injEq] at htl; subst htl
        refine Good.located _ (reverseLoc (.single bb s)) ⟨[bb], Spec.Tab.strandReverse s⟩
          ⟨⟨_, rfl⟩, hWF', rfl, hW', hdir', rfl, hread⟩ (Or.inr ⟨bb, _, rfl⟩) ?_
        unfold involutiveLetters
        exact involutive_reverse P alph _ _ (bases_single_reverse bb s hdne) hi
      | compound c =>
        have htl := hcons.toLoc
        simp only [toLoc, Option.some.injEq] at htl; subst htl
        obtain ⟨bs, st⟩ := c
        have hv : ∀ b ∈ bs, b.1 ≤ b.2 := (blocksValid_iff bs).1 hcons.wf.2.1
        have hpos : ∀ b ∈ bs, b.1 < b.2 := by
          rcases hz with h | ⟨b', s', h⟩
          · exact h
          · cases h
        have hsort : sortBlocks (Spec.Tab.strandReverse st) bs = bs :=
          sortBlocks_of_fst_lt _ (starts_lt_of_pos bs hv hcons.nonOverlap hpos)
        have hrl : reverseLoc (.compound ⟨bs, st⟩) = .compound ⟨bs, Spec.Tab.strandReverse st⟩ := by
          simp only [reverseLoc, hsort]
        rw [hrl] at hWF' hW' hread ⊢
        refine Good.located _ (.compound ⟨bs, Spec.Tab.strandReverse st⟩) ⟨bs, Spec.Tab.strandReverse st⟩
          ⟨⟨_, rfl⟩, hWF', rfl, hW', hdir', hcons.nonOverlap, hread⟩ (Or.inl hpos) ?_
        unfold involutiveLetters
        have hb := bases_reverse bs st hdne hv hcons.nonOverlap
        rw [hsort] at hb
        exact involutive_reverse P alph _ _ hb hi
    · have hl0 : loc.len = 0 := by omega
      have hd : x.data = [] := by
        apply List.eq_nil_of_length_eq_zero; rw [hdl]; exact hl0
      have hrv : revcomp alph x.data = some [] := by rw [hd]; unfold revcomp; exact compAll_nil alph
      obtain ⟨pst, hp⟩ := hcons.par
      have hll : locLen l = 0 := by rw [toLoc_len l loc hcons.toLoc]; exact hl0
      cases pst with
      | none =>
        refine ⟨⟨[], none⟩, ?_, hrv, Good.bare _ rfl (by intro q h; cases h)⟩
        unfold reverseComplement
        simp [hm, hp, hd, truthy, hll, compData, parStrand, bind, Except.bind, pure, Except.pure]
      | some st =>
        refine ⟨⟨[], some ⟨some (Model.strandReverse st), none⟩⟩, ?_, hrv,
          Good.bare _ rfl (by intro q h; cases h; rfl)⟩
        unfold reverseComplement
        simp [hm, hp, hd, truthy, hll, compData, parStrand, bind, Except.bind, pure, Except.pure]

/-! ### chains -/

/-- the steps of a chain: unit-step slices with arbitrary bounds, and reverse complements -/
def UnitStep : Model.Sq.Step → Prop
  | .sl _ _ c => c = none ∨ c = some 1
  | .rc => True
  | .ix _ => False

instance (s : Model.Sq.Step) : Decidable (UnitStep s) := by
  cases s <;> unfold UnitStep <;> infer_instance

/-- **C03-T4 for chains**: every program of unit-step slices and reverse complements runs to the end, the
    invariant holds for the result, and the text is what pure string semantics (Python slicing, reference reverse
    complement) gives, with no step allowed to refuse -/
theorem chain_good (P alph : List Char) (hnt : isNt alph = true) (prog : List Model.Sq.Step)
    (hprog : ∀ s ∈ prog, UnitStep s) (x : SeqObj) (hg : Good P alph x) :
    ∃ y, runProg alph x prog = .ok y ∧ Good P alph y ∧
      runSteps alph x.data (prog.map toSpecStep) = some (y.data, true) := by
  induction prog generalizing x with
  | nil => exact ⟨x, rfl, hg, rfl⟩
  | cons st rest ih =>
    have hst := hprog st (by simp)
    have hrest : ∀ s ∈ rest, UnitStep s := fun s hs => hprog s (List.mem_cons_of_mem _ hs)
    cases st with
    | ix i => exact absurd hst (by simp [UnitStep])
    | rc =>
      obtain ⟨y, hy, hdata, hgy⟩ := rc_good P alph hnt x hg
      obtain ⟨z, hz, hgz, hrun⟩ := ih hrest y hgy
      refine ⟨z, ?_, hgz, ?_⟩
      · simp only [runProg, runStep, hy, bind, Except.bind]; exact hz
      · simp only [List.map_cons, toSpecStep, runSteps, stepData, hdata, hrun, plainStep, Bool.and_self]
    | sl a b c =>
      obtain ⟨y, hy, hdata, hgy⟩ := slice_good P alph hnt x hg a b c hst
      obtain ⟨z, hz, hgz, hrun⟩ := ih hrest y hgy
      refine ⟨z, ?_, hgz, ?_⟩
      · simp only [runProg, runStep, hy, bind, Except.bind]; exact hz
      · have hpl : plainStep x.data.length (.sl a b c) = true := by
          rcases hst with rfl | rfl <;> rfl
        simp only [List.map_cons, toSpecStep, runSteps, stepData, pySlice_unit x.data a b c hst, ← hdata, hrun, hpl,
          Bool.and_self]

/-! ### the chain theorem in the vocabulary of the specification -/

theorem wfLocation_of_WF (m : Location) (h : WF m) : wfLocation m = true := by
  cases m with
  | single b s => simpa [wfLocation, WF] using h
  | compound c => simpa [wfLocation, WF] using h
  | empty => rfl

/-- what the harness observes of an object satisfying the invariant passes the reference's consistency test -/
theorem observe_consistent (P alph : List Char) (y : SeqObj) (hg : Good P alph y) :
    ∃ o, observe y = .ok o ∧ o.data = y.data ∧ consistent P alph true (!y.data.isEmpty) o = true := by
  cases hg with
  | bare hd hp =>
    cases hpar : y.par with
    | none =>
      refine ⟨⟨y.data, none⟩, by simp [observe, hpar, pure, Except.pure], rfl, ?_⟩
      simp [consistent, hd]
    | some p =>
      have hl := hp p hpar
      refine ⟨⟨y.data, some (p.strand, none)⟩, ?_, rfl, ?_⟩
      · simp [observe, hpar, parStrand, hl, bind, Except.bind, pure, Except.pure]
      · simp [consistent, hd]
  | located l loc hc hz hinv =>
    obtain ⟨pst, hp⟩ := hc.par
    have hw : within P loc = true := (within_of_Within P l loc hc.toLoc).2 hc.within
    by_cases hlen : 0 < loc.len
    · refine ⟨⟨y.data, some (some loc.strand, some l)⟩, ?_, rfl, ?_⟩
      · simp [observe, hp, parStrand, locLen_pos l loc hc.toLoc hlen, locStrand_ok l loc hc.toLoc, bind, Except.bind,
          pure, Except.pure]
      · have hl0 : ¬ loc.len = 0 := by omega
        simp [consistent, wfLocation_of_WF l hc.wf, hc.toLoc, hw, hc.data, hl0]
    · have hl0 : loc.len = 0 := by omega
      have hll : ¬ 0 < locLen l := by rw [toLoc_len l loc hc.toLoc]; omega
      refine ⟨⟨y.data, some (pst, some l)⟩, ?_, rfl, ?_⟩
      · simp [observe, hp, parStrand, hll, bind, Except.bind, pure, Except.pure]
      · simp [consistent, wfLocation_of_WF l hc.wf, hc.toLoc, hw, hc.data, hl0]

/-- the object the harness starts from satisfies the invariant -/
theorem seqOf_good (P alph : List Char) (hnt : isNt alph = true) (l : Location) (loc : Loc) (h : WF l)
    (hl : toLoc l = some loc) (hW : Within P l) (hd : loc.strand.isDirectional = true)
    (hno : nonOverlap loc.blocks = true) (hz : (∀ b ∈ loc.blocks, b.1 < b.2) ∨ ∃ b s, l = .single b s)
    (hinv : involutiveLetters P alph loc = true) :
    ∃ x0, seqOf P alph l = .ok x0 ∧ expectExtract P alph l = some x0.data ∧ Good P alph x0 := by
  have hread := expectExtract_readAt P alph l loc hl hd
  have hsome : ∃ e0, expectExtract P alph l = some e0 := by
    rw [hread]
    have hi := hinv
    unfold involutiveLetters at hi
    unfold readAt
    cases hcs : charsAt P (bases loc) with
    | none => simp [hcs] at hi
    | some cs =>
      simp only [hcs, Bool.and_eq_true] at hi
      cases hq : compAll alph cs with
      | none => simp [hq] at hi
      | some q =>
        simp only
        by_cases hm : loc.strand = .minus
        · simp only [hm, if_true]; exact ⟨q, hq⟩
        · simp only [hm, if_false]; exact ⟨cs, rfl⟩
  obtain ⟨e0, he0⟩ := hsome
  have hex := extract_eq P alph hnt l h hW
  rw [he0] at hex
  have hok : extract P alph l = .ok e0 := (ans_eq_some _ _).1 hex
  refine ⟨⟨e0, some ⟨none, some l⟩⟩, by simp [seqOf, hok, bind, Except.bind, pure, Except.pure], he0, ?_⟩
  exact Good.located _ l loc ⟨⟨none, rfl⟩, h, hl, hW, hd, hno, he0⟩ hz hinv

/-- **C03-T4 for chains, specification form**: for every location that is directional, inside the parent, not
    self-overlapping, without empty blocks (or a single interval) and reads involutively complemented letters, and
    every program of unit-step slices and reverse complements, the observed result of the program passes
    `okProgram` -/
theorem program_ok (P alph : List Char) (hnt : isNt alph = true) (l : Location) (loc : Loc) (h : WF l)
    (hl : toLoc l = some loc) (hW : Within P l) (hd : loc.strand.isDirectional = true)
    (hno : nonOverlap loc.blocks = true) (hz : (∀ b ∈ loc.blocks, b.1 < b.2) ∨ ∃ b s, l = .single b s)
    (hinv : involutiveLetters P alph loc = true) (prog : List Model.Sq.Step) (hprog : ∀ s ∈ prog, UnitStep s) :
    okProgram P alph l (prog.map toSpecStep) (progAns P alph l prog) = true := by
  obtain ⟨x0, hx0, he0, hg0⟩ := seqOf_good P alph hnt l loc h hl hW hd hno hz hinv
  obtain ⟨y, hy, hgy, hrun⟩ := chain_good P alph hnt prog hprog x0 hg0
  obtain ⟨o, ho, hod, hcons⟩ := observe_consistent P alph y hgy
  have hw : within P loc = true := (within_of_Within P l loc hl).2 hW
  have hans : progAns P alph l prog = some o := by
    unfold progAns
    simp only [hx0, hy, ho, bind, Except.bind, ans_ok]
  unfold okProgram
  simp only [hnt, hl, hw, hd, he0, hrun, hans, hno, hod, Bool.not_true, Bool.false_eq_true, if_false, Bool.and_self,
    Bool.not_true, if_true, beq_self_eq_true, Bool.true_and]
  exact hcons

end BioCantor.Proofs.Sq
