/-
  C06, interval conversions: the four interval methods are the C01 interval maps on `E` / `D`.
-/
import BioCantor.Proofs.TxBasics
set_option linter.unusedSimpArgs false
namespace BioCantor.Proofs
open BioCantor BioCantor.Spec BioCantor.Model BioCantor.Model.Transcript

theorem ti2c_ok (t : Transcript) (h : WFT t) (rs re : Int) (rst : Strand) :
    okTI2C (specOf t) rs re rst (ans (t.transcriptIntervalToSequence rs re rst)) = true :=
  relInterval_ok (.compound t.exons) h.exons rs re rst

theorem di2c_ok (t : Transcript) (h : WFT t) (rs re : Int) (rst : Strand) :
    okDI2C (specOf t) rs re rst (ans (t.cdsIntervalToSequence rs re rst)) = true := by
  unfold okDI2C cdsIntervalToSequence requireCoding specOf
  cases hc : t.cds with
  | none => rfl
  | some d => exact relInterval_ok (.compound d) (h.cds d hc).1 rs re rst

/-- `SingleInterval(chr_start, chr_end, strand, parent)` exists exactly for valid chromosome intervals -/
theorem mkSingleOn_spec (T : TxSpec) (s e : Int) (st : Strand) :
    (chromIntervalValid T s e = true → mkSingleOn T.plen s e st = .ok (.single (s.toNat, e.toNat) st)) ∧
    (chromIntervalValid T s e = false → ans (mkSingleOn T.plen s e st) = none) := by
  unfold chromIntervalValid mkSingleOn mkSingle
  constructor
  · intro hv
    simp only [Bool.and_eq_true, decide_eq_true_eq] at hv
    obtain ⟨⟨h0, h1⟩, h2⟩ := hv
    have c : 0 ≤ s ∧ s ≤ e := ⟨h0, h1⟩
    cases hp : T.plen with
    | none => simp [c, bind, Except.bind, pure, Except.pure]
    | some n =>
      simp only [hp, decide_eq_true_eq] at h2
      have : ¬ e > (n : Int) := by omega
      simp [c, this, bind, Except.bind, pure, Except.pure]
  · intro hv
    by_cases c : 0 ≤ s ∧ s ≤ e
    · cases hp : T.plen with
      | none => simp [c.1, c.2, hp] at hv
      | some n =>
        simp only [c.1, c.2, hp, decide_true, Bool.true_and, decide_eq_false_iff_not] at hv
        have : e > (n : Int) := by omega
        simp [c, this, bind, Except.bind, pure, Except.pure, throw, throwThe, MonadExceptOf.throw]
    · simp [c, bind, Except.bind, throw, throwThe, MonadExceptOf.throw]

theorem ci2t_ok (t : Transcript) (h : WFT t) (s e : Int) (st : Strand) :
    okCI2T (specOf t) s e st (ans (t.sequenceIntervalToTranscript s e st)) = true := by
  unfold okCI2T sequenceIntervalToTranscript sequenceIntervalToFeature
  obtain ⟨h1, h2⟩ := mkSingleOn_spec (specOf t) s e st
  cases hv : chromIntervalValid (specOf t) s e with
  | false =>
    have := h2 hv
    have e0 : (specOf t).plen = t.plen := rfl
    rw [e0] at this
    simp only [Bool.false_eq_true, not_false_eq_true, if_true]
    rw [ans_bind, this]; rfl
  | true =>
    have := h1 hv
    have e0 : (specOf t).plen = t.plen := rfl
    rw [e0] at this
    simp only [not_true_eq_false, if_false]
    rw [this]
    have hwf : WF (.single (s.toNat, e.toNat) st) := by
      unfold chromIntervalValid at hv
      simp only [Bool.and_eq_true, decide_eq_true_eq] at hv
      show s.toNat ≤ e.toNat
      omega
    exact locationRelativeTo_ok _ (.compound t.exons) hwf h.exons true

theorem ci2d_ok (t : Transcript) (h : WFT t) (s e : Int) (st : Strand) :
    okCI2D (specOf t) s e st (ans (t.sequenceIntervalToCds s e st)) = true := by
  unfold okCI2D sequenceIntervalToCds requireCoding
  cases hc : t.cds with
  | none => simp [specOf, hc, bind, Except.bind, throw, throwThe, MonadExceptOf.throw]
  | some d =>
    have hD : (specOf t).D = some d := by simp [specOf, hc]
    simp only [hD]
    obtain ⟨h1, h2⟩ := mkSingleOn_spec (specOf t) s e st
    have e0 : (specOf t).plen = t.plen := rfl
    cases hv : chromIntervalValid (specOf t) s e with
    | false =>
      have := h2 hv
      rw [e0] at this
      simp only [Bool.false_eq_true, not_false_eq_true, if_true]
      show (ans (mkSingleOn t.plen s e st >>= fun i => locationRelativeTo i (.compound d) true)).isNone = true
      rw [ans_bind, this]; rfl
    | true =>
      have := h1 hv
      rw [e0] at this
      simp only [not_true_eq_false, if_false]
      show okLocRel _ _ true (ans (mkSingleOn t.plen s e st >>= fun i => locationRelativeTo i (.compound d) true)) = true
      rw [this]
      have hwf : WF (.single (s.toNat, e.toNat) st) := by
        unfold chromIntervalValid at hv
        simp only [Bool.and_eq_true, decide_eq_true_eq] at hv
        show s.toNat ≤ e.toNat
        omega
      exact locationRelativeTo_ok _ (.compound d) hwf (h.cds d hc).1 true

end BioCantor.Proofs
