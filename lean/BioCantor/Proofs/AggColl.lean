/-
  C20 helper lemmas, part 4: AnnotationCollection — stable sort by start, length / emptiness, bounds.
-/
import BioCantor.Proofs.AggGene
namespace BioCantor.Proofs.Agg
open BioCantor BioCantor.Spec.Agg BioCantor.Model.Agg

theorem sortMembers_eq (ms : List Member) : sortMembers ms = ms.mergeSort (keyLe Member.start) := rfl

theorem sortMembers_perm (ms : List Member) : (sortMembers ms).Perm ms := List.mergeSort_perm _ _

theorem sortedByStart_of_pairwise : ∀ {l : List Member}, l.Pairwise (fun a b => keyLe Member.start a b = true) →
    sortedByStart l = true
  | [], _ => rfl
  | [_], _ => rfl
  | a :: b :: rest, h => by
    rw [List.pairwise_cons] at h
    simp only [sortedByStart, Bool.and_eq_true, decide_eq_true_eq]
    refine ⟨?_, sortedByStart_of_pairwise h.2⟩
    have := h.1 b List.mem_cons_self
    simpa [keyLe] using this

/-- iteration order = the chain sorted by start, ties in chain order -/
theorem stable_sortMembers (ms : List Member) : isStableSortByStart ms (sortMembers ms) = true := by
  simp only [isStableSortByStart, Bool.and_eq_true, List.all_eq_true, beq_iff_eq]
  refine ⟨⟨?_, List.isPerm_iff.mpr (sortMembers_perm ms)⟩, fun m _ => ?_⟩
  · rw [sortMembers_eq]
    exact sortedByStart_of_pairwise (List.pairwise_mergeSort (keyLe_trans _) (keyLe_total _) ms)
  · rw [sortMembers_eq]
    exact mergeSort_filter_key Member.start ms m.start

/-- members are identified by (isGene, idx) -/
def KeysDistinct (chain : List Member) : Prop :=
  chain.Pairwise fun a b => ¬ (a.isGene = b.isGene ∧ a.idx = b.idx)

theorem find_member : ∀ {chain : List Member}, KeysDistinct chain → ∀ m ∈ chain,
    chain.find? (fun x => x.isGene == m.isGene && x.idx == m.idx) = some m
  | [], _, m, hm => nomatch hm
  | x :: xs, hd, m, hm => by
    unfold KeysDistinct at hd
    rw [List.pairwise_cons] at hd
    rw [List.find?_cons]
    rcases List.mem_cons.mp hm with rfl | hm'
    · simp
    · have hne : (x.isGene == m.isGene && x.idx == m.idx) = false := by
        cases h : (x.isGene == m.isGene && x.idx == m.idx)
        · rfl
        · simp only [Bool.and_eq_true, beq_iff_eq] at h
          exact absurd h (hd.1 m hm')
      rw [hne]
      exact find_member hd.2 m hm'

theorem recover_of_subset {chain : List Member} (hd : KeysDistinct chain) : ∀ (l : List Member), (∀ m ∈ l, m ∈ chain) →
    recoverOrder chain (l.map fun m => (m.isGene, m.idx)) = some l
  | [], _ => rfl
  | m :: rest, h => by
    unfold recoverOrder
    rw [List.map_cons, List.mapM_cons]
    have h1 := find_member hd m (h m List.mem_cons_self)
    simp only at h1 ⊢
    rw [h1]
    have ih := recover_of_subset hd rest (fun x hx => h x (List.mem_cons_of_mem _ hx))
    unfold recoverOrder at ih
    rw [ih]
    rfl

theorem okCommon_model (genes fcs : List Member) (hd : KeysDistinct (genes ++ fcs)) (b : Option (Nat × Nat)) :
    okCommon (genes ++ fcs)
      { len := fcs.length + genes.length, empty := (fcs.length + genes.length == 0), bounds := b,
        order := (sortMembers (genes ++ fcs)).map fun m => (m.isGene, m.idx) } = true := by
  unfold okCommon
  simp only
  rw [recover_of_subset hd _ (fun m hm => (sortMembers_perm _).mem_iff.mp hm)]
  simp only [stable_sortMembers, Bool.and_true, Bool.and_eq_true, beq_iff_eq, List.length_append]
  refine ⟨Nat.add_comm _ _, ?_⟩
  cases genes <;> cases fcs <;> simp

theorem isMin_perm {s : Nat} {xs ys : List Nat} (hp : xs.Perm ys) (h : isMin s xs = true) : isMin s ys = true := by
  simp only [isMin, Bool.and_eq_true, List.contains_iff_mem, List.all_eq_true, decide_eq_true_eq] at h ⊢
  exact ⟨hp.mem_iff.mp h.1, fun y hy => h.2 y (hp.mem_iff.mpr hy)⟩

theorem isMax_perm {s : Nat} {xs ys : List Nat} (hp : xs.Perm ys) (h : isMax s xs = true) : isMax s ys = true := by
  simp only [isMax, Bool.and_eq_true, List.contains_iff_mem, List.all_eq_true, decide_eq_true_eq] at h ⊢
  exact ⟨hp.mem_iff.mp h.1, fun y hy => h.2 y (hp.mem_iff.mpr hy)⟩

/-- MAIN LEMMA: AnnotationCollection (with or without a chromosome parent location `pb`) -/
theorem acollP_ok (pb : Option (Nat × Nat)) (genes fcs : List Member) (bnd : Option Nat × Option Nat)
    (hd : KeysDistinct (genes ++ fcs)) :
    okAcollP pb genes fcs bnd (ansA (mkAcollP pb genes fcs bnd)) = true := by
  obtain ⟨bs, be⟩ := bnd
  cases bs with
  | none =>
    cases be with
    | some e => rfl
    | none =>
      simp only [okAcollP, mkAcollP, pure, Except.pure, ansA_ok, Bool.and_eq_true]
      refine ⟨okCommon_model genes fcs hd _, ?_⟩
      cases pb with
      | some b => simp
      | none =>
        simp only
        unfold okBoundsInferred
        cases hs : sortMembers (genes ++ fcs) with
        | nil =>
          have : genes ++ fcs = [] := by
            have := (sortMembers_perm (genes ++ fcs)).length_eq
            rw [hs] at this
            exact List.length_eq_zero_iff.mp this.symm
          rw [this]; rfl
        | cons m rest =>
          have hp := sortMembers_perm (genes ++ fcs)
          rw [hs] at hp
          have hne : (genes ++ fcs).isEmpty = false := by
            cases h : genes ++ fcs with
            | nil => rw [h] at hp; exact absurd hp.length_eq (by simp)
            | cons _ _ => rfl
          simp only [hne, Bool.false_eq_true, if_false, Bool.and_eq_true]
          constructor
          · apply isMin_perm ((hp.map (·.start)))
            simpa using isMin_minFrom m.start (rest.map (·.start))
          · apply isMax_perm ((hp.map (·.stop)))
            simpa using isMax_maxFrom m.stop (rest.map (·.stop))
  | some s =>
    cases be with
    | none => rfl
    | some e =>
      simp only [okAcollP, mkAcollP]
      by_cases hse : s ≤ e
      · have : ¬ e < s := by omega
        simp only [hse, if_true, this, if_false, pure, Except.pure, ansA_ok, Bool.and_eq_true, beq_self_eq_true, and_true]
        exact okCommon_model genes fcs hd _
      · have : e < s := by omega
        simp only [hse, if_false, this, if_true]
        rfl

theorem acoll_ok (genes fcs : List Member) (bnd : Option Nat × Option Nat) (hd : KeysDistinct (genes ++ fcs)) :
    okAcoll genes fcs bnd (ansA (mkAcoll genes fcs bnd)) = true :=
  acollP_ok none genes fcs bnd hd

end BioCantor.Proofs.Agg
