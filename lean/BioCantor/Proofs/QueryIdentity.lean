/-
  C09 helper lemmas, part 11: member identity — whatever a query returns, every returned member IS a member of the
  source: same GUID, kind, identifiers, chromosome span, and the same grandchildren (GUID, chromosome block, strand).
-/
import BioCantor.Proofs.QueryIntervals2
set_option linter.unusedSimpArgs false
namespace BioCantor.Proofs.Query
open BioCantor BioCantor.Spec BioCantor.Spec.Query BioCantor.Model.Query

/-- what identifies a grandchild: GUID, chromosome block, strand -/
def gcore (g : GChild) : Nat × Int × Int × Strand := (g.guid, g.start, g.stop, g.strand)
def rgcore (g : RGChild) : Nat × Int × Int × Strand := (g.guid, g.start, g.stop, g.strand)

/-- the result member `rc` is the source member `c`, unchanged -/
def SameMember (rc : RChild) (c : Child) : Prop :=
  rc.guid = c.guid ∧ rc.kind = c.kind ∧ rc.start = c.start ∧ rc.stop = c.stop ∧ rc.idents = c.idents ∧
    rc.gcs.map rgcore = c.gcs.map gcore ∧ ∀ g ∈ rc.gcs, g.same = true

theorem bind_ok {α β} {x : QR α} {f : α → QR β} {r : β} (h : (x >>= f) = .ok r) :
    ∃ a, x = .ok a ∧ f a = .ok r := by
  cases x with
  | error e => cases h
  | ok a => exact ⟨a, rfl, h⟩

theorem liftChildP_same (rp : RPar) (c : Child) : SameMember (liftChildP rp c) c := by
  refine ⟨rfl, rfl, rfl, rfl, rfl, ?_, ?_⟩
  · simp only [liftChildP, List.map_map]
    apply List.map_congr_left
    intro g _; rfl
  · intro g hg
    simp only [liftChildP, List.mem_map] at hg
    obtain ⟨x, _, rfl⟩ := hg
    rfl

/-- `_build_new_collection_from_query`: the new collection holds exactly the kept members, rebuilt unchanged -/
theorem buildNew_children (src : Source) (kept : List Child) (start stop : Int) (r : Result)
    (hk : ∀ c ∈ kept, ChildHull c) (h : buildNew src kept start stop = .ok r) :
    r.start = start ∧ r.stop = stop ∧
      ∃ rp, r.children = ((partKinds kept).mergeSort byStart).map (liftChildP rp) := by
  unfold buildNew at h
  obtain ⟨rp, hrp, h⟩ := bind_ok h
  simp only [] at h
  rw [mapQ_eq (liftChild rp) (liftChildP rp) _
    (fun c hc => liftChild_eq rp c (hk c ((sortedKids_perm kept).mem_iff.mp hc)))] at h
  simp only [bind, Except.bind] at h
  split at h
  · cases h
  · simp only [pure, Except.pure, Except.ok.injEq] at h
    subst h
    exact ⟨rfl, rfl, rp, rfl⟩

theorem buildNew_same (src : Source) (kept : List Child) (start stop : Int) (r : Result)
    (hk : ∀ c ∈ kept, ChildHull c) (h : buildNew src kept start stop = .ok r) :
    ∀ rc ∈ r.children, ∃ c ∈ kept, SameMember rc c := by
  obtain ⟨_, _, rp, hch⟩ := buildNew_children src kept start stop r hk h
  intro rc hrc
  rw [hch, List.mem_map] at hrc
  obtain ⟨c, hc, rfl⟩ := hrc
  exact ⟨c, (sortedKids_perm kept).mem_iff.mp hc, liftChildP_same rp c⟩

theorem filterQ_sub (f : Child → QR Bool) (l r : List Child) (h : filterQ f l = .ok r) : ∀ c ∈ r, c ∈ l := by
  induction l generalizing r with
  | nil => unfold filterQ at h; cases h; intro c hc; cases hc
  | cons a as ih =>
    unfold filterQ at h
    obtain ⟨k, _, h⟩ := bind_ok h
    obtain ⟨rest, hrest, h⟩ := bind_ok h
    simp only [pure, Except.pure, Except.ok.injEq] at h
    subst h
    intro c hc
    split at hc
    · rcases List.mem_cons.mp hc with rfl | hc'
      · exact List.mem_cons_self
      · exact List.mem_cons_of_mem _ (ih rest hrest c hc')
    · exact List.mem_cons_of_mem _ (ih rest hrest c hc)

theorem queryKept_sub (src : Source) (s e : Int) (cw co : Bool) (kept : List Child)
    (h : queryKept src s e cw co = .ok kept) : ∀ c ∈ kept, c ∈ src.children := by
  unfold queryKept at h
  simp only [] at h
  intro c hc
  split at h
  · obtain ⟨mb, _, h⟩ := bind_ok h
    exact mem_iterChildren.mp (filterQ_sub _ _ _ h c hc)
  · obtain ⟨mb, _, h⟩ := bind_ok h
    exact mem_iterChildren.mp (filterQ_sub _ _ _ h c hc)

/-- T2 (identity, position queries): whatever `query_by_position` returns — strict or relaxed, expanded or not,
    on any parent —, every member of the result is a member of the source with the same GUID, kind, identifiers,
    chromosome span and grandchildren (GUID, chromosome block, strand), `to_dict()`-equal. -/
theorem queryByPosition_identity (src : Source) (q : PosQ) (hh : ∀ c ∈ src.children, ChildHull c) (r : Result)
    (h : queryByPosition src q = .ok r) : ∀ rc ∈ r.children, ∃ c ∈ src.children, SameMember rc c := by
  unfold queryByPosition at h
  obtain ⟨_, _, h⟩ := bind_ok h
  obtain ⟨se, _, h⟩ := bind_ok h
  obtain ⟨s, e⟩ := se
  simp only [] at h
  obtain ⟨kept, hkept, h⟩ := bind_ok h
  have hsub := queryKept_sub src s e q.cw q.codingOnly kept hkept
  obtain ⟨sr, _, h⟩ := bind_ok h
  have key : ∀ a b, buildNew src kept a b = .ok r → ∀ rc ∈ r.children, ∃ c ∈ src.children, SameMember rc c := by
    intro a b hb rc hrc
    obtain ⟨c, hc, hs⟩ := buildNew_same src kept a b r (fun c hc => hh c (hsub c hc)) hb rc hrc
    exact ⟨c, hsub c hc, hs⟩
  repeat' (split at h)
  all_goals first | cases h | exact key _ _ h

theorem returnForIdQueries_same (src : Source) (kept : List Child) (hk : ∀ c ∈ kept, ChildHull c) (r : Result)
    (h : returnForIdQueries src kept = .ok r) : ∀ rc ∈ r.children, ∃ c ∈ kept, SameMember rc c := by
  unfold returnForIdQueries at h
  obtain ⟨_, _, h⟩ := bind_ok h
  obtain ⟨bb, _, h⟩ := bind_ok h
  obtain ⟨bs, be⟩ := bb
  simp only [] at h
  exact buildNew_same src kept _ _ r hk h

/-- T3 (identity, GUID queries) -/
theorem queryByGuids_identity (src : Source) (ids : List Nat) (hh : ∀ c ∈ src.children, ChildHull c) (r : Result)
    (h : queryByGuids src ids = .ok r) : ∀ rc ∈ r.children, ∃ c ∈ src.children, SameMember rc c := by
  unfold queryByGuids at h
  have hsub : ∀ c ∈ ids.filterMap (dictGet Child.guid (iterChildren src)), c ∈ src.children := by
    intro c hc
    obtain ⟨k, _, hd⟩ := List.mem_filterMap.mp hc
    exact mem_iterChildren.mp (dictGet_some _ _ _ _ hd).1
  intro rc hrc
  obtain ⟨c, hc, hs⟩ := returnForIdQueries_same src _ (fun c hc => hh c (hsub c hc)) r h rc hrc
  exact ⟨c, hsub c hc, hs⟩

/-- T3 (identity, identifier queries) -/
theorem queryByIdentifiers_identity (src : Source) (ids : List (List Char)) (hh : ∀ c ∈ src.children, ChildHull c)
    (r : Result) (h : queryByIdentifiers src ids = .ok r) :
    ∀ rc ∈ r.children, ∃ c ∈ src.children, SameMember rc c := by
  unfold queryByIdentifiers at h
  have hsub : ∀ c ∈ (iterChildren src).filter (fun c => c.idents.any (fun i => ids.contains i)),
      c ∈ src.children := fun c hc => mem_iterChildren.mp (List.mem_filter.mp hc).1
  intro rc hrc
  obtain ⟨c, hc, hs⟩ := returnForIdQueries_same src _ (fun c hc => hh c (hsub c hc)) r h rc hrc
  exact ⟨c, hsub c hc, hs⟩

/-! ### interval-GUID queries: a kept member is a source member reduced to requested grandchildren -/

/-- `rc` is the source member `c` holding only grandchildren of `c` that were requested -/
def ReducedMember (ids : List Nat) (rc : RChild) (c : Child) : Prop :=
  rc.guid = c.guid ∧ rc.kind = c.kind ∧ rc.idents = c.idents ∧
    (∀ g ∈ rc.gcs, g.same = true ∧ g.guid ∈ ids ∧ ∃ x ∈ c.gcs, rgcore g = gcore x)

theorem mapQ_ok {α β} (f : α → QR β) (l : List α) (r : List β) (h : mapQ f l = .ok r) :
    ∀ y ∈ r, ∃ x ∈ l, f x = .ok y := by
  induction l generalizing r with
  | nil => unfold mapQ at h; cases h; intro y hy; cases hy
  | cons a as ih =>
    unfold mapQ at h
    obtain ⟨y0, hy0, h⟩ := bind_ok h
    obtain ⟨ys, hys, h⟩ := bind_ok h
    simp only [pure, Except.pure, Except.ok.injEq] at h
    subst h
    intro y hy
    rcases List.mem_cons.mp hy with rfl | hy'
    · exact ⟨a, List.mem_cons_self, hy0⟩
    · obtain ⟨x, hx, hfx⟩ := ih ys hys y hy'
      exact ⟨x, List.mem_cons_of_mem _ hx, hfx⟩

theorem pick_requested (ids : List Nat) (c : Child) (x : GChild) (hx : x ∈ pickGcs ids c) : x.guid ∈ ids := by
  unfold pickGcs at hx
  rw [List.mem_filterMap] at hx
  obtain ⟨k, hk, hd⟩ := hx
  rw [(dictGet_some _ _ _ _ hd).2]; exact hk

/-- `child.query_by_guids` never invents anything: the new child is the old one (GUID, kind, identifiers) holding
    some of its grandchildren, all of them requested; its span is their hull -/
theorem childQueryByGuids_sub (par : Par) (c c' : Child) (ids : List Nat)
    (h : childQueryByGuids par c ids = .ok (some c')) :
    c'.guid = c.guid ∧ c'.kind = c.kind ∧ c'.idents = c.idents ∧
      hullOf (c'.gcs.map fun g => (g.start, g.stop)) = some (c'.start, c'.stop) ∧
      ∀ x ∈ c'.gcs, x ∈ c.gcs ∧ x.guid ∈ ids := by
  unfold childQueryByGuids at h
  simp only [] at h
  split at h
  · cases h
  · rename_i a b hh
    have hmem : ∀ x ∈ ids.filterMap (dictGet GChild.guid c.gcs), x ∈ c.gcs ∧ x.guid ∈ ids :=
      fun x hx => ⟨pick_sub ids c x hx, pick_requested ids c x hx⟩
    split at h
    · -- variants: re-sorted
      split at h
      · cases h
      · split at h
        · cases h
        · simp only [pure, Except.pure, Except.ok.injEq, Option.some.injEq] at h
          subst h
          refine ⟨rfl, rfl, rfl, ?_, ?_⟩
          · simp only []
            rw [hullOf_perm ((List.mergeSort_perm _ _).map fun g : GChild => (g.start, g.stop))]
            exact hh
          · intro x hx
            exact hmem x ((List.mergeSort_perm _ _).mem_iff.mp hx)
    · split at h
      · cases h
      · simp only [pure, Except.pure, Except.ok.injEq, Option.some.injEq] at h
        subst h
        exact ⟨rfl, rfl, rfl, hh, hmem⟩

/-- T3 (identity, interval-GUID queries): every member of the result is a member of the source (same GUID, kind,
    identifiers) holding ONLY grandchildren of that member that were requested, each unchanged (GUID, chromosome
    block, strand) — for genes, feature collections and variant collections, with no well-formedness assumption
    beyond valid grandchild intervals. -/
theorem queryByIntervalGuids_identity (src : Source) (kinds : List Kind) (ids : List Nat)
    (hv : ∀ c ∈ src.children, ∀ g ∈ c.gcs, g.start ≤ g.stop) (r : Result)
    (h : queryByIntervalGuids src kinds ids = .ok r) :
    ∀ rc ∈ r.children, ∃ c ∈ src.children, ReducedMember ids rc c := by
  unfold queryByIntervalGuids at h
  obtain ⟨_, _, h⟩ := bind_ok h
  obtain ⟨kept, hkept, h⟩ := bind_ok h
  have hk : ∀ c' ∈ kept, ∃ c ∈ src.children, c'.guid = c.guid ∧ c'.kind = c.kind ∧ c'.idents = c.idents ∧
      ChildHull c' ∧ ∀ x ∈ c'.gcs, x ∈ c.gcs ∧ x.guid ∈ ids := by
    intro c' hc'
    obtain ⟨g, _, hstep⟩ := mapQ_ok _ _ _ hkept c' hc'
    unfold ownerStep at hstep
    split at hstep
    · rename_i c hd
      obtain ⟨o, ho, hstep⟩ := bind_ok hstep
      have hc := mem_iterChildren.mp (dictGet_some _ _ _ _ hd).1
      split at hstep
      · simp only [pure, Except.pure, Except.ok.injEq] at hstep
        subst hstep
        obtain ⟨h1, h2, h3, h4, h5⟩ := childQueryByGuids_sub src.par c _ ids ho
        exact ⟨c, hc, h1, h2, h3, ⟨h4, fun x hx => hv c hc x (h5 x hx).1⟩, h5⟩
      · cases hstep
    · cases hstep
  intro rc hrc
  obtain ⟨c', hc', hs⟩ := returnForIdQueries_same src kept (fun c' hc' => by
    obtain ⟨_, _, _, _, _, hch, _⟩ := hk c' hc'; exact hch) r h rc hrc
  obtain ⟨c, hc, h1, h2, h3, _, h5⟩ := hk c' hc'
  obtain ⟨s1, s2, _, _, s5, s6, s7⟩ := hs
  refine ⟨c, hc, by rw [s1, h1], by rw [s2, h2], by rw [s5, h3], ?_⟩
  intro g hg
  have hgm : rgcore g ∈ rc.gcs.map rgcore := List.mem_map_of_mem hg
  rw [s6] at hgm
  obtain ⟨x, hx, hxe⟩ := List.mem_map.mp hgm
  have hx5 := h5 x hx
  refine ⟨s7 g hg, ?_, x, hx5.1, hxe.symm⟩
  have : g.guid = x.guid := by
    have := congrArg Prod.fst hxe
    simp only [gcore, rgcore] at this
    exact this.symm
  rw [this]; exact hx5.2

end BioCantor.Proofs.Query
