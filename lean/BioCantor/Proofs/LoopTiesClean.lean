/-
  Tie between the GENERATED frame-cleaning loop of `CDSInterval._prepare_multi_exon_window_for_scan_codon_locations`
  (`Gen.CDSInterval_clean_frames` + `_loop1`, `Gen.CDSInterval_exon_iter`, `Gen.CDSInterval_frame_iter` in
  `Gen/Kernels.lean`, re-translated from /repo's gene/cds.py on every run) and the hand-written
  `Model.cleanExons` / `Model.cleanStep` / `Model.exonRel` (Model/CDS.lean) that the C05 theorems are about.

  Generated state `(next_frame, cleaned_rel_ends, cleaned_rel_starts)` ↔ model state `CleanSt`:
  `next_frame = st.nextFrame`, `cleaned_rel_starts = S st.cleanedRev`, `cleaned_rel_ends = E st.cleanedRev`
  (the model keeps the zipped list most-recent-first).
-/
import BioCantor.Proofs.LoopTiesCDS
set_option autoImplicit false
namespace BioCantor.Proofs.LoopTiesClean
open BioCantor BioCantor.GenP BioCantor.Proofs.Ties BioCantor.Proofs.LoopTies BioCantor.Proofs.LoopTiesCDS

open Lean in
/-- `chars! "abc"` is the list literal `['a', 'b', 'c']`, expanded at elaboration time (the kernel is slow on
    `"…".toList` for the long pinned texts of Props/C05Ties3) -/
macro "chars!" s:str : term => do
  let elems : Array (TSyntax `term) :=
    (s.getString.toList.map fun c => (⟨(Syntax.mkCharLit c).raw⟩ : TSyntax `term)).toArray
  `([$elems,*])

example : chars! "a\nb" = "a\nb".toList := by decide

-- (for the `by decide` sanity facts about model states)
deriving instance DecidableEq for Model.CleanSt

/-- `cleaned_rel_starts` of a model state (oldest entry first, as the Python list) -/
def S (rev : List (Int × Int)) : List Int := rev.reverse.map Prod.fst
/-- `cleaned_rel_ends` of a model state -/
def E (rev : List (Int × Int)) : List Int := rev.reverse.map Prod.snd

/-- what the generated kernel returns at the cut, read off a model state -/
def stLists (st : Model.CleanSt) : List Int × List Int := (S st.cleanedRev, E st.cleanedRev)

/-- the parent-less chromosome-level CDS view handed to the generated kernels -/
def toCDSV (c : Model.CDS) : CDSV := ⟨toCI c.loc, c.frames⟩

theorem S_cons (p : Int × Int) (rev : List (Int × Int)) : S (p :: rev) = S rev ++ [p.1] := by simp [S]
theorem E_cons (p : Int × Int) (rev : List (Int × Int)) : E (p :: rev) = E rev ++ [p.2] := by simp [E]

theorem pySum_append (xs : List Int) (x : Int) : pySum (xs ++ [x]) = pySum xs + x := by
  induction xs with
  | nil => simp [pySum]
  | cons y ys ih => simp only [List.cons_append, pySum, ih]; omega

theorem zip_SE (rev : List (Int × Int)) : List.zip (S rev) (E rev) = rev.reverse := by
  unfold S E
  rw [zip_map_map]
  simp

/-- `sum((coords[1] - coords[0] for coords in zip(cleaned_rel_starts, cleaned_rel_ends)))` is the model's `cleanedSum` -/
theorem sum_eq (rev : List (Int × Int)) :
    pySum (List.map (fun c : Int × Int => c.2 - c.1) (List.zip (S rev) (E rev))) = Model.cleanedSum rev := by
  rw [zip_SE]
  induction rev with
  | nil => rfl
  | cons p rest ih =>
    simp only [List.reverse_cons, List.map_append, List.map_cons, List.map_nil, pySum_append, ih, Model.cleanedSum]
    omega

theorem setLast_snoc {α : Type} (pre : List α) (x v : α) : listSetLast (pre ++ [x]) v = .ok (pre ++ [v]) := by
  cases pre with
  | nil => rfl
  | cons a as =>
    show Except.ok (((a :: as) ++ [x]).dropLast ++ [v]) = _
    rw [List.dropLast_concat]

/-- `cleaned_rel_ends[-1] = cleaned_rel_ends[-1] - shift` on a non-empty list is the model's `trimLastEnd`; the
    IndexError is unreachable -/
theorem trim_last (rev : List (Int × Int)) (shift : Int) (hne : rev ≠ []) :
    ∃ last, listGetLast (E rev) = .ok last
      ∧ listSetLast (E rev) (last - shift) = .ok (E (Model.trimLastEnd shift rev))
      ∧ S (Model.trimLastEnd shift rev) = S rev := by
  cases rev with
  | nil => exact absurd rfl hne
  | cons p rest =>
    refine ⟨p.2, ?_, ?_, ?_⟩
    · rw [E_cons, getLast_snoc]
    · rw [E_cons, setLast_snoc]
      simp only [Model.trimLastEnd, E_cons]
    · simp only [Model.trimLastEnd, S_cons]

theorem sum_pos_ne (rev : List (Int × Int)) (h : Model.cleanedSum rev % 3 > 0) : rev ≠ [] := by
  intro hn
  subst hn
  simp [Model.cleanedSum] at h

/-- `parent_to_relative_pos` of the CDS location: generated and model answer together -/
theorem p2r_cases (l : Loc) (hv : blocksValid l.blocks = true) (p : Int) :
    (∃ v, Gen.CompoundInterval_parent_to_relative_pos (toCI l) p = .ok v ∧ Model.compoundP2R l p = .ok v)
    ∨ (∃ e e', Gen.CompoundInterval_parent_to_relative_pos (toCI l) p = .error e ∧ mapExc e = some e'
          ∧ Model.compoundP2R l p = .error e') := by
  have h := p2r_tie l hv p
  unfold Agree view at h
  cases hg : Gen.CompoundInterval_parent_to_relative_pos (toCI l) p with
  | ok v =>
    rw [hg] at h
    simp only [id, Option.some.injEq] at h
    exact Or.inl ⟨v, rfl, h.symm⟩
  | error e =>
    rw [hg] at h
    cases he : mapExc e with
    | none => simp [he] at h
    | some e' =>
      simp only [he, Option.map_some, Option.some.injEq] at h
      exact Or.inr ⟨e, e', rfl, he, h.symm⟩

/-- the model's `frameShift` is the generated `CDSFrame.shift`, which never raises -/
theorem frameShift_ok (f : CDSFrame) (n : Int) :
    ∃ g, Gen.CDSFrame_shift f n = .ok g ∧ Model.frameShift f n = .ok g := by
  obtain ⟨g, hg⟩ := shift_total f n
  exact ⟨g, hg, by simp [Model.frameShift, hg, Model.liftPy]⟩

/-- the model's per-exon step: `exonRel`, then `cleanStep` -/
def stepM (l : Loc) (st : Model.CleanSt) (b : Blk) (f : CDSFrame) : Model.R Model.CleanSt :=
  match Model.exonRel l b with
  | .error e => .error e
  | .ok rel => Model.cleanStep st rel f

/-- ONE ITERATION of the generated loop on an (exon, frame) pair is the model's step: either both raise
    corresponding classes, or the generated loop continues on the rest with the image of the model's new state -/
theorem loop_cons (l : Loc) (hv : blocksValid l.blocks = true) (b : Blk) (f : CDSFrame)
    (rest : List (Option SI × Option CDSFrame)) (st : Model.CleanSt) :
    (∃ e e', Gen.CDSInterval_clean_frames_loop1 (toCI l) ((some (si b l.strand), some f) :: rest)
                st.nextFrame (E st.cleanedRev) (S st.cleanedRev) = .error e
              ∧ mapExc e = some e' ∧ stepM l st b f = .error e')
    ∨ (∃ st', stepM l st b f = .ok st'
          ∧ Gen.CDSInterval_clean_frames_loop1 (toCI l) ((some (si b l.strand), some f) :: rest)
                st.nextFrame (E st.cleanedRev) (S st.cleanedRev)
              = Gen.CDSInterval_clean_frames_loop1 (toCI l) rest st'.nextFrame (E st'.cleanedRev) (S st'.cleanedRev)) := by
  obtain ⟨nf, rev⟩ := st
  simp only [Gen.CDSInterval_clean_frames_loop1]
  have hs : (si b l.strand).start = (b.1 : Int) := rfl
  have he : (si b l.strand).«end» = (b.2 : Int) := rfl
  rw [hs, he]
  unfold stepM Model.exonRel
  rcases p2r_cases l hv (b.1 : Int) with ⟨v1, hg1, hm1⟩ | ⟨e, e', hg1, hme, hm1⟩
  rotate_left
  · left
    refine ⟨e, e', ?_, hme, ?_⟩
    · rw [hg1]
    · simp only [hm1, bind, Except.bind]
  rcases p2r_cases l hv ((b.2 : Int) - 1) with ⟨v2, hg2, hm2⟩ | ⟨e, e', hg2, hme, hm2⟩
  rotate_left
  · left
    refine ⟨e, e', ?_, hme, ?_⟩
    · rw [hg1, hg2]
    · simp only [hm1, hm2, bind, Except.bind]
  right
  simp only [hg1, hg2, hm1, hm2, bind, Except.bind, pure, Except.pure, sum_eq]
  unfold Model.cleanStep
  simp only
  by_cases hr : nf = f
  · -- in sync
    have hr' : ¬ (nf ≠ f) := by simp [hr]
    simp only [hr', if_false, false_and]
    by_cases hge : min v1 v2 ≥ max v1 v2 + 1
    · simp only [hge, if_true]
      exact ⟨_, rfl, rfl⟩
    · simp only [hge, if_false]
      obtain ⟨g, hg, hmg⟩ := frameShift_ok nf (max v1 v2 + 1 - min v1 v2)
      simp only [hg, hmg, bind, Except.bind, pure, Except.pure]
      exact ⟨_, rfl, by simp only [S_cons, E_cons]⟩
  · -- frameshift: resynchronise
    have hr' : nf ≠ f := hr
    simp only [hr', if_true, true_and, ne_eq, not_false_eq_true]
    by_cases hsh : Model.cleanedSum rev % 3 > 0
    · simp only [hsh, if_true]
      obtain ⟨last, hgl, hsl, hS⟩ := trim_last rev (Model.cleanedSum rev % 3) (sum_pos_ne rev hsh)
      simp only [hgl, hsl]
      by_cases hge : min v1 v2 + f.value ≥ max v1 v2 + 1
      · simp only [hge, if_true]
        exact ⟨_, rfl, by simp only [hS]⟩
      · simp only [hge, if_false]
        obtain ⟨g, hg, hmg⟩ := frameShift_ok .ZERO (max v1 v2 + 1 - (min v1 v2 + f.value))
        simp only [hg, hmg, bind, Except.bind, pure, Except.pure]
        exact ⟨_, rfl, by simp only [S_cons, E_cons, hS]⟩
    · simp only [hsh, if_false]
      by_cases hge : min v1 v2 + f.value ≥ max v1 v2 + 1
      · simp only [hge, if_true]
        exact ⟨_, rfl, rfl⟩
      · simp only [hge, if_false]
        obtain ⟨g, hg, hmg⟩ := frameShift_ok .ZERO (max v1 v2 + 1 - (min v1 v2 + f.value))
        simp only [hg, hmg, bind, Except.bind, pure, Except.pure]
        exact ⟨_, rfl, by simp only [S_cons, E_cons]⟩

/-! ### The whole loop -/

/-- how `CDSInterval_clean_frames` reads the loop's outcome: there is no `return` in the body; at exhaustion the cut
    returns `(cleaned_rel_starts, cleaned_rel_ends)` -/
def afterClean : PyR (LoopOut (List Int × List Int) (CDSFrame × List Int × List Int))
    → Option (Except Err (List Int × List Int))
  | .ok (.ret r) => some (.ok r)
  | .ok (.done (_, ends, starts)) => some (.ok (starts, ends))
  | .error e => (mapExc e).map .error

/-- what the source does with `zip_longest`: the model loop over the COMMON PREFIX of exons and frames first, then
    MismatchedFrameException when one iterator is longer (its partner is padded with None) -/
def finishM (es : List Blk) (fs : List CDSFrame) : Model.R Model.CleanSt → Model.R (List Int × List Int)
  | .error e => .error e
  | .ok st => if es.length ≠ fs.length then .error .MismatchedFrame else .ok (stLists st)

theorem cleanExons_cons (l : Loc) (st : Model.CleanSt) (b : Blk) (f : CDSFrame) (r : List (Blk × CDSFrame)) :
    Model.cleanExons l st ((b, f) :: r)
      = match stepM l st b f with
        | .error e => .error e
        | .ok st' => Model.cleanExons l st' r := by
  unfold stepM
  simp only [Model.cleanExons, bind, Except.bind]
  cases Model.exonRel l b with
  | error e => rfl
  | ok rel =>
    simp only
    cases Model.cleanStep st rel f <;> rfl

theorem clean_loop (l : Loc) (hv : blocksValid l.blocks = true) :
    ∀ (es : List Blk) (fs : List CDSFrame) (st : Model.CleanSt),
      afterClean (Gen.CDSInterval_clean_frames_loop1 (toCI l) (zipLongest (es.map (fun b => si b l.strand)) fs)
          st.nextFrame (E st.cleanedRev) (S st.cleanedRev))
        = some (finishM es fs (Model.cleanExons l st (es.zip fs))) := by
  intro es
  induction es with
  | nil =>
    intro fs st
    cases fs with
    | nil => rfl
    | cons f fs => rfl
  | cons b es ih =>
    intro fs st
    cases fs with
    | nil => rfl
    | cons f fs =>
      simp only [List.map_cons, zipLongest, List.zip_cons_cons, cleanExons_cons]
      rcases loop_cons l hv b f (zipLongest (es.map (fun b => si b l.strand)) fs) st with
        ⟨e, e', hg, hme, hm⟩ | ⟨st', hm, hg⟩
      · rw [hg, hm]
        simp only [afterClean, hme, Option.map_some, finishM]
      · rw [hg, hm]
        simp only [ih fs st', finishM, List.length_cons]
        cases Model.cleanExons l st' (es.zip fs) with
        | error e => rfl
        | ok st2 =>
          simp only [ne_eq, Nat.add_right_cancel_iff]

theorem exon_iter_eq (c : Model.CDS) :
    Gen.CDSInterval_exon_iter (toCDSV c) = .ok (c.exonIter.map (fun b => si b c.loc.strand)) := by
  unfold Gen.CDSInterval_exon_iter toCDSV toCI Model.CDS.exonIter
  simp only [List.nil_append]
  split <;> simp

theorem frame_iter_eq (c : Model.CDS) : Gen.CDSInterval_frame_iter (toCDSV c) = .ok c.frameIter := by
  unfold Gen.CDSInterval_frame_iter toCDSV toCI Model.CDS.frameIter Model.CDS.strand
  simp only [List.nil_append]
  split <;> rfl

/-- the generated kernel (iterators, `zip_longest`, loop, cut) = the model loop followed by the length test -/
theorem clean_frames_tie (c : Model.CDS) (hv : blocksValid c.loc.blocks = true) :
    Agree id (Gen.CDSInterval_clean_frames (toCDSV c))
      (finishM c.exonIter c.frameIter (Model.cleanExons c.loc Model.CleanSt.init (c.exonIter.zip c.frameIter))) := by
  unfold Agree Gen.CDSInterval_clean_frames
  simp only [exon_iter_eq, frame_iter_eq]
  have h := clean_loop c.loc hv c.exonIter c.frameIter Model.CleanSt.init
  rw [← h]
  show view id (match Gen.CDSInterval_clean_frames_loop1 (toCI c.loc)
      (zipLongest (c.exonIter.map (fun b => si b c.loc.strand)) c.frameIter) CDSFrame.ZERO [] [] with
    | .error e => .error e
    | .ok (.ret r_) => .ok r_
    | .ok (.done (next_frame, cleaned_rel_ends, cleaned_rel_starts)) => .ok (cleaned_rel_starts, cleaned_rel_ends)) = _
  show _ = afterClean (Gen.CDSInterval_clean_frames_loop1 (toCI c.loc)
      (zipLongest (c.exonIter.map (fun b => si b c.loc.strand)) c.frameIter) CDSFrame.ZERO [] [])
  cases Gen.CDSInterval_clean_frames_loop1 (toCI c.loc)
      (zipLongest (c.exonIter.map (fun b => si b c.loc.strand)) c.frameIter) CDSFrame.ZERO [] [] with
  | error e => rfl
  | ok o =>
    cases o with
    | ret r => rfl
    | done s => rfl

theorem exonIter_length (c : Model.CDS) : c.exonIter.length = c.loc.blocks.length := by
  unfold Model.CDS.exonIter
  split <;> simp

theorem frameIter_length (c : Model.CDS) : c.frameIter.length = c.frames.length := by
  unfold Model.CDS.frameIter
  split <;> simp

/-- the do-block in which Props/C05Ties3 states the model side -/
theorem finishM_eq_do (es : List Blk) (fs : List CDSFrame) (r : Model.R Model.CleanSt) :
    finishM es fs r
      = (do let st ← r
            if es.length ≠ fs.length then throw Err.MismatchedFrame
            pure (S st.cleanedRev, E st.cleanedRev)) := by
  cases r with
  | error e => rfl
  | ok st =>
    by_cases h : es.length = fs.length
    · simp [finishM, h, stLists, bind, Except.bind, pure, Except.pure]
    · simp [finishM, h, bind, Except.bind, throw, throwThe, MonadExceptOf.throw]

/-- the head of `Model.prepareMulti`: the length test FIRST, then the loop -/
def prepareMultiHead (c : Model.CDS) : Model.R Model.CleanSt :=
  if c.exonIter.length ≠ c.frameIter.length then throw Err.MismatchedFrame
  else Model.cleanExons c.loc Model.CleanSt.init (c.exonIter.zip c.frameIter)

/-- `Model.prepareMulti` is `prepareMultiHead` followed by the model of the statements after the cut -/
theorem prepareMulti_head (c : Model.CDS) (win : Option Blk) :
    Model.prepareMulti c win
      = (do let st ← prepareMultiHead c
            let cleaned ← Model.cleanedLocation c.loc st
            let relativeCleaned ← match Model.windowTruthy win with
              | some w => Model.intersectWindow cleaned w
              | none => pure (Location.compound cleaned)
            let offset ← Model.calculateFrameOffset c (.compound cleaned) relativeCleaned
            pure (relativeCleaned, offset)) := by
  unfold Model.prepareMulti prepareMultiHead
  by_cases h : c.exonIter.length = c.frameIter.length
  · simp only [h, ne_eq, not_true_eq_false, if_false]
    rfl
  · simp only [h, ne_eq, not_false_eq_true, if_true]
    rfl

/-- on the domain where the order of the two tests cannot be observed, the generated kernel IS `prepareMultiHead` -/
theorem clean_frames_head (c : Model.CDS) (hv : blocksValid c.loc.blocks = true)
    (hdom : c.frames.length = c.loc.blocks.length
      ∨ ∃ st, Model.cleanExons c.loc Model.CleanSt.init (c.exonIter.zip c.frameIter) = .ok st) :
    Agree id (Gen.CDSInterval_clean_frames (toCDSV c)) (Except.map stLists (prepareMultiHead c)) := by
  have h := clean_frames_tie c hv
  have heq : finishM c.exonIter c.frameIter (Model.cleanExons c.loc Model.CleanSt.init (c.exonIter.zip c.frameIter))
      = Except.map stLists (prepareMultiHead c) := by
    unfold prepareMultiHead
    by_cases hl : c.exonIter.length = c.frameIter.length
    · simp only [hl, ne_eq, not_true_eq_false, if_false]
      cases Model.cleanExons c.loc Model.CleanSt.init (c.exonIter.zip c.frameIter) with
      | error e => rfl
      | ok st => simp [finishM, hl, Except.map]
    · rcases hdom with hd | ⟨st, hst⟩
      · exact absurd (by rw [exonIter_length, frameIter_length, hd]) hl
      · simp [hst, finishM, hl, Except.map, throw, throwThe, MonadExceptOf.throw]
  rw [← heq]
  exact h

/-! ### `_calculate_frame_offset` -/

/-- the model of the statements of `_calculate_frame_offset` after the cut, from the generated kernel's `fivep_loc`
    (the state of the generated `relative_interval_to_parent_location` at ITS cut): its own tail `finishRel`, then
    `len(fivep_loc) % 3`, `CDSPhase(…)`, `.to_frame().value` -/
def finishOffset (st : Strand) (out : RelOut) : Model.R Int := do
  let fivep ← Model.LoopGlue.finishRel st out
  let phase ← Model.phaseOfInt ((Model.locLen fivep : Int) % 3)
  let frame ← Model.phaseToFrame phase
  pure frame.value

theorem frame_offset_tie (c : Model.CDS) (cl : Loc) (hv : blocksValid cl.blocks = true) (loc : Location)
    (s e : Nat) (st : Strand) (hs : Model.locStart loc = .ok s) (he : Model.locEnd loc = .ok e) :
    AgreeK (finishOffset cl.strand)
      (Gen.CDSInterval_calculate_frame_offset (toCDSV c) (toCI cl) ⟨s, e, st⟩)
      (Model.calculateFrameOffset c (.compound cl) loc) := by
  unfold Gen.CDSInterval_calculate_frame_offset Model.calculateFrameOffset
  have hstr : (toCDSV c).chromosome_location.strand = c.strand := rfl
  rw [hstr]
  -- both branches: anchor position, point map, relative interval
  have key : ∀ (a : Int),
      AgreeK (finishOffset cl.strand)
        (match Gen.CompoundInterval_parent_to_relative_pos (toCI cl) a with
         | .error e => .error e
         | .ok t =>
           match Gen.CompoundInterval_relative_interval_to_parent_location (toCI cl) 0 t Strand.plus with
           | .error e => .error e
           | .ok t' => .ok t')
        (do let rel ← Model.p2r (.compound cl) a
            let fivep ← Model.relInterval (.compound cl) 0 rel .plus
            let phase ← Model.phaseOfInt ((Model.locLen fivep : Int) % 3)
            let frame ← Model.phaseToFrame phase
            pure frame.value) := by
    intro a
    simp only [Model.p2r, Model.relInterval]
    rcases p2r_cases cl hv a with ⟨v, hg, hm⟩ | ⟨x, x', hg, hme, hm⟩
    · rw [hg, hm]
      simp only [bind, Except.bind]
      have hr := rel_tie cl hv 0 v .plus
      unfold AgreeK at hr ⊢
      cases hg2 : Gen.CompoundInterval_relative_interval_to_parent_location (toCI cl) 0 v Strand.plus with
      | error x =>
        rw [hg2] at hr
        obtain ⟨c', hc1, hc2⟩ := hr
        simp only [hc2]
        exact ⟨c', hc1, rfl⟩
      | ok out =>
        rw [hg2] at hr
        simp only at hr ⊢
        rw [← hr]
        rfl
    · rw [hg, hm]
      exact ⟨x', hme, rfl⟩
  by_cases hp : c.strand = .plus
  · simp only [hp, if_true, hs, bind, Except.bind, pure, Except.pure]
    exact key (s : Int)
  · simp only [hp, if_false, he, bind, Except.bind, pure, Except.pure]
    exact key ((e : Int) - 1)

end BioCantor.Proofs.LoopTiesClean
