/- C19 proofs, part 5: TranscriptInterval.__init__. -/
import BioCantor.Proofs.ValCDS
set_option linter.unusedSimpArgs false
namespace BioCantor.Proofs.Val
open BioCantor BioCantor.Model BioCantor.Model.Validate
open BioCantor.Spec.Validate (Out)

def specF (cdsF : Option (List CDSFrame)) : Option (List Int) := cdsF.map (·.map CDSFrame.value)

def projTx (o : TxOut) : Int × Int × Bool × Int × Int :=
  (o.start, o.endp, o.cds.isSome,
   (match o.cds with | some c => c.start | none => 0), (match o.cds with | some c => c.endp | none => 0))

/-- the CDS conjunct of `Spec.validTx` -/
def cdsPart (exons : List IBlk) (cs ce : Option (List Int)) (cf : Option (List Int)) : Bool :=
  match cs, ce, cf with
  | none, none, _ => true
  | some s, some e, some f => Spec.Validate.validCDS s e (f.map fun v => (true, v)) && Spec.Validate.cdsInsideExons exons (s.zip e)
  | _, _, _ => false

theorem validTx_eq (exS exE : List Int) (cs ce : Option (List Int)) (cf : Option (List Int)) :
    Spec.Validate.validTx exS exE cs ce cf = (Spec.Validate.validBlocks exS exE && cdsPart (exS.zip exE) cs ce cf) := by
  unfold Spec.Validate.validTx cdsPart
  rcases cs with _ | s <;> rcases ce with _ | e <;> rcases cf with _ | f <;> rfl

theorem frames_map (fr : List CDSFrame) :
    (fr.map FP.frame).map fpv = (fr.map CDSFrame.value).map (fun v => (true, v)) := by
  simp only [List.map_map]; apply List.map_congr_left; intro f _; rfl

/-- what the partial theorem assumes about the CDS arguments -/
structure CdsHyp (exS exE : List Int) (cdsS cdsE : Option (List Int)) : Prop where
  /-- F-C19i -/
  asc : ∀ cs ce, cdsS = some cs → cdsE = some ce → Spec.Validate.ascending (cs.zip ce) = true
  /-- F-C19h: a CDS whose outer bounds lie within the exon span lies inside the exons -/
  inside : ∀ cs ce c0 cN x0 xN, cdsS = some cs → cdsE = some ce → cs.head? = some c0 → ce.getLast? = some cN →
    exS.head? = some x0 → exE.getLast? = some xN → x0 ≤ c0 → cN ≤ xN →
    Spec.Validate.cdsInsideExons (exS.zip exE) (cs.zip ce) = true

theorem txCds_spec (exS exE : List Int) (st : Strand) (cdsS cdsE : Option (List Int)) (cdsF : Option (List CDSFrame))
    (x0 xN : Int) (hx0 : exS.head? = some x0) (hxN : exE.getLast? = some xN)
    (hmin : Spec.Validate.minStartI (exS.zip exE) = x0) (hmax : Spec.Validate.maxEndI (exS.zip exE) = xN)
    (_hexv : ∀ b ∈ exS.zip exE, b.1 ≤ b.2)
    (H : CdsHyp exS exE cdsS cdsE) :
    match txCds x0 xN st cdsS cdsE cdsF with
    | .ok none => cdsS = none ∧ cdsE = none
    | .ok (some c) => cdsPart (exS.zip exE) cdsS cdsE (specF cdsF) = true ∧
        ∃ cs ce, cdsS = some cs ∧ cdsE = some ce ∧
          c.start = Spec.Validate.minStartI (cs.zip ce) ∧ c.endp = Spec.Validate.maxEndI (cs.zip ce)
    | .error (.doc _) => cdsPart (exS.zip exE) cdsS cdsE (specF cdsF) = false
    | .error (.internal _) => False := by
  rcases cdsS with _ | cs <;> rcases cdsE with _ | ce
  · simp [txCds, pure, Except.pure]
  · simp [txCds, raise, cdsPart]
  · simp [txCds, raise, cdsPart]
  · have hasc := H.asc cs ce rfl rfl
    by_cases hlen : cs.length = ce.length
    · by_cases hz : cs.length = 0
      · -- empty lists: refused (cb56bb9); an empty CDS is not valid
        have hvf : ∀ f, Spec.Validate.validCDS cs ce f = false := by
          intro f
          rw [Bool.eq_false_iff]
          intro h
          simp only [Spec.Validate.validCDS, Spec.Validate.validBlocks, Bool.and_eq_true, decide_eq_true_eq] at h
          have := h.1.1.1.1.2
          omega
        have hunf : txCds x0 xN st (some cs) (some ce) cdsF = raise .InvalidCDSInterval := by
          simp only [txCds]
          rw [if_neg (not_not_intro hlen), if_pos hz]
        rw [hunf]
        show cdsPart _ _ _ _ = false
        rcases cdsF with _ | fr
        · simp [cdsPart, specF]
        · simp only [cdsPart, specF, Option.map_some, hvf, Bool.false_and]
      have hpos : 0 < cs.length := by omega
      obtain ⟨c0, hc0⟩ := head?_some_of_pos cs hpos
      obtain ⟨cN, hcN⟩ := getLast?_some_of_pos ce (by omega)
      obtain ⟨cN', hcN'⟩ := getLast?_some_of_pos cs hpos
      obtain ⟨e0, he0⟩ := head?_some_of_pos ce (by omega)
      have hzh := zip_head? cs ce hlen
      have hzl := zip_getLast? cs ce hlen
      rw [hc0, he0] at hzh
      rw [hcN', hcN] at hzl
      have hfirst : (c0, e0) ∈ cs.zip ce := List.mem_of_head? hzh
      have hlast : (cN', cN) ∈ cs.zip ce := List.mem_of_getLast? hzl
      -- a valid CDS inside the exons has its outer bounds inside the exon span
      have houter : ∀ f, Spec.Validate.validCDS cs ce f = true →
          Spec.Validate.cdsInsideExons (exS.zip exE) (cs.zip ce) = true → x0 ≤ c0 ∧ cN ≤ xN := by
        intro f hv hin
        have hvb : ∀ b ∈ cs.zip ce, b.1 ≤ b.2 := by
          simp only [Spec.Validate.validCDS, Spec.Validate.validBlocks, Bool.and_eq_true, List.all_eq_true,
            Spec.Validate.blockOk, decide_eq_true_eq] at hv
          exact fun b hb => (hv.1.1.1.2 b hb).2
        simp only [Spec.Validate.cdsInsideExons, List.all_eq_true] at hin
        obtain ⟨⟨x, hx, hx1⟩, _⟩ := blockInside_bounds _ (c0, e0) (hvb _ hfirst) (hin _ hfirst)
        obtain ⟨_, ⟨y, hy, hy2⟩⟩ := blockInside_bounds _ (cN', cN) (hvb _ hlast) (hin _ hlast)
        have h1 := minStartI_le _ x hx
        have h2 := le_maxEndI _ y hy
        rw [hmin] at h1; rw [hmax] at h2
        exact ⟨by simpa using Int.le_trans h1 hx1, by simpa using Int.le_trans hy2 h2⟩
      have hunf : txCds x0 xN st (some cs) (some ce) cdsF =
          if c0 < x0 then raise .InvalidCDSInterval
          else if cN > xN then raise .InvalidCDSInterval
          else match cdsF with
            | none => raise .InvalidCDSInterval
            | some fr =>
                if fr.length ≠ cs.length then raise .InvalidCDSInterval
                else (mkCDS cs ce st (fr.map FP.frame)).bind (fun c => pure (some c)) := by
        simp only [txCds, hc0, hcN]
        rw [if_neg (not_not_intro hlen), if_neg (by omega)]
        rfl
      rw [hunf]
      by_cases hlo : c0 < x0
      · rw [if_pos hlo]
        show cdsPart _ _ _ _ = false
        rcases cdsF with _ | fr
        · simp [cdsPart, specF]
        · simp only [cdsPart, specF, Option.map_some, Bool.and_eq_false_iff]
          by_cases hv : Spec.Validate.validCDS cs ce ((fr.map CDSFrame.value).map fun v => (true, v)) = true
          · right
            rw [Bool.eq_false_iff]
            intro hin
            have := (houter _ hv hin).1
            omega
          · left; simpa using hv
      · rw [if_neg hlo]
        by_cases hhi : cN > xN
        · rw [if_pos hhi]
          show cdsPart _ _ _ _ = false
          rcases cdsF with _ | fr
          · simp [cdsPart, specF]
          · simp only [cdsPart, specF, Option.map_some, Bool.and_eq_false_iff]
            by_cases hv : Spec.Validate.validCDS cs ce ((fr.map CDSFrame.value).map fun v => (true, v)) = true
            · right
              rw [Bool.eq_false_iff]
              intro hin
              have := (houter _ hv hin).2
              omega
            · left; simpa using hv
        · rw [if_neg hhi]
          rcases cdsF with _ | fr
          · show cdsPart _ _ _ _ = false
            simp [cdsPart, specF]
          · simp only []
            by_cases hfl : fr.length = cs.length
            · rw [if_neg (not_not_intro hfl)]
              obtain ⟨h1, h2⟩ := mkCDS_cases cs ce st (fr.map FP.frame)
              have hvi := validCDS_iff cs ce (fr.map FP.frame)
              rw [frames_map] at hvi
              by_cases ha : acceptedCDS cs ce (fr.map FP.frame)
              · obtain ⟨s0, eN, hs, he, hb⟩ := h1 ha
                obtain ⟨hmn, hmx⟩ := bounds_ascending cs ce s0 eN hlen hs he (fun b hb => (ha.1.2 b hb).2) hasc
                rw [hb]
                have hin := H.inside cs ce c0 cN x0 xN rfl rfl hc0 hcN hx0 hxN (by omega) (by omega)
                show cdsPart _ _ _ _ = true ∧ _
                refine ⟨?_, cs, ce, rfl, rfl, hmn.symm, hmx.symm⟩
                simp only [cdsPart, specF, Option.map_some, hvi.mpr ha, hin, Bool.and_self]
              · obtain ⟨k, hk⟩ := h2 ha
                rw [hk]
                have hvf : Spec.Validate.validCDS cs ce ((fr.map CDSFrame.value).map fun v => (true, v)) = false := by
                  rw [Bool.eq_false_iff]; exact fun h => ha (hvi.mp h)
                show cdsPart _ _ _ _ = false
                simp only [cdsPart, specF, Option.map_some, hvf, Bool.false_and]
            · have hvf : Spec.Validate.validCDS cs ce ((fr.map CDSFrame.value).map fun v => (true, v)) = false := by
                rw [Bool.eq_false_iff]
                intro h
                simp only [Spec.Validate.validCDS, Bool.and_eq_true, beq_iff_eq, List.length_map] at h
                exact hfl h.1.1.2
              rw [if_pos hfl]
              show cdsPart _ _ _ _ = false
              simp only [cdsPart, specF, Option.map_some, hvf, Bool.false_and]
    · have hvf : ∀ f, Spec.Validate.validCDS cs ce f = false := by
        intro f
        rw [Bool.eq_false_iff]
        intro h
        simp only [Spec.Validate.validCDS, Spec.Validate.validBlocks, Bool.and_eq_true, beq_iff_eq] at h
        exact hlen h.1.1.1.1.1
      rcases cdsF with _ | fr <;> simp [txCds, hlen, raise, cdsPart, specF, hvf]

/-- full statement (fails: F-C19h, F-C19i): for ALL arguments.
    Proved for exon lists in ascending order and CDS arguments satisfying `CdsHyp` (negative starts and empty CDS
    lists are refused since 0fcdb58 / cb56bb9). -/
theorem mkTx_spec_partial (exS exE : List Int) (st : Strand) (cdsS cdsE : Option (List Int))
    (cdsF : Option (List CDSFrame))
    (hasc : Spec.Validate.ascending (exS.zip exE) = true)
    (H : CdsHyp exS exE cdsS cdsE) :
    Spec.Validate.okMkTx exS exE cdsS cdsE (specF cdsF) (outOf projTx (mkTx exS exE st cdsS cdsE cdsF)) = true := by
  obtain ⟨h1, h2⟩ := initLoc_cases exS exE st
  have hvb := validBlocks_iff exS exE
  rw [show Spec.Validate.okMkTx exS exE cdsS cdsE (specF cdsF) = fun o => Spec.Validate.okMkTx exS exE cdsS cdsE (specF cdsF) o from rfl]
  by_cases ha : acceptedInit exS exE
  · obtain ⟨bs, hb⟩ := h1 ha
    obtain ⟨x0, hx0⟩ := head?_some_of_pos exS ha.1.2
    obtain ⟨xN, hxN⟩ := getLast?_some_of_pos exE (by have := ha.1.1; have := ha.1.2; omega)
    have hexv : ∀ b ∈ exS.zip exE, b.1 ≤ b.2 := fun b hb => (ha.2 b hb).2
    obtain ⟨hmin, hmax⟩ := bounds_ascending exS exE x0 xN ha.1.1 hx0 hxN hexv hasc
    have hc := txCds_spec exS exE st cdsS cdsE cdsF x0 xN hx0 hxN hmin hmax hexv H
    have hmk : mkTx exS exE st cdsS cdsE cdsF =
        (txCds x0 xN st cdsS cdsE cdsF).bind (fun cds => pure ⟨x0, xN, exS.zip exE, cds⟩) := by
      simp only [mkTx, hb, hx0, hxN, bind, Except.bind]
    rw [hmk]
    have hvt : Spec.Validate.validBlocks exS exE = true := hvb.mpr ha
    cases hr : txCds x0 xN st cdsS cdsE cdsF with
    | error e =>
        rw [hr] at hc
        cases e with
        | doc k =>
            simp only [] at hc
            simp [Except.bind, outOf, Spec.Validate.okMkTx, validTx_eq, hc]
        | internal c => exact absurd hc (by simp)
    | ok r =>
        rw [hr] at hc
        cases r with
        | none =>
            obtain ⟨hs, he⟩ := hc
            subst hs; subst he
            simp [Except.bind, pure, Except.pure, outOf, projTx, Spec.Validate.okMkTx, validTx_eq, hvt, cdsPart, hmin, hmax]
        | some c =>
            obtain ⟨hp, cs, ce, hs, he, hcs, hce⟩ := hc
            subst hs; subst he
            simp [Except.bind, pure, Except.pure, outOf, projTx, Spec.Validate.okMkTx, validTx_eq, hvt, hp, hmin, hmax,
              hcs, hce]
  · obtain ⟨k, hk⟩ := h2 ha
    have hvf : Spec.Validate.validBlocks exS exE = false := by
      rw [Bool.eq_false_iff]; exact fun h => ha (hvb.mp h)
    simp [mkTx, hk, bind, Except.bind, outOf, Spec.Validate.okMkTx, validTx_eq, hvf]

theorem txCds_noInternal (x0 xN : Int) (st : Strand) (cdsS cdsE : Option (List Int)) (cdsF : Option (List CDSFrame)) :
    NoInternal (txCds x0 xN st cdsS cdsE cdsF) := by
  intro c hc
  rcases cdsS with _ | cs <;> rcases cdsE with _ | ce
  · simp [txCds, pure, Except.pure] at hc
  · simp [txCds, raise] at hc
  · simp [txCds, raise] at hc
  · simp only [txCds] at hc
    by_cases hlen : cs.length ≠ ce.length
    · rw [if_pos hlen] at hc; cases hc
    · rw [if_neg hlen] at hc
      by_cases hz : cs.length = 0
      · rw [if_pos hz] at hc; cases hc
      · rw [if_neg hz] at hc
        cases h1 : cs.head? with
        | none => simp only [h1] at hc; cases hc
        | some c0 =>
            cases h2 : ce.getLast? with
            | none => simp only [h1, h2] at hc; cases hc
            | some cN =>
                simp only [h1, h2] at hc
                by_cases hlo : c0 < x0
                · rw [if_pos hlo] at hc; cases hc
                · rw [if_neg hlo] at hc
                  by_cases hhi : cN > xN
                  · rw [if_pos hhi] at hc; cases hc
                  · rw [if_neg hhi] at hc
                    rcases cdsF with _ | fr
                    · cases hc
                    · simp only [] at hc
                      by_cases hfl : fr.length ≠ cs.length
                      · rw [if_pos hfl] at hc; cases hc
                      · rw [if_neg hfl] at hc
                        cases hm : mkCDS cs ce st (List.map FP.frame fr) with
                        | ok v => rw [hm] at hc; cases hc
                        | error e =>
                            rw [hm] at hc
                            cases e with
                            | doc k => cases hc
                            | internal c' => exact mkCDS_noInternal cs ce st _ c' hm

/-- for ALL arguments the constructor ends in an object or a documented class (before cb56bb9 it ended in IndexError
    exactly when the exon lists were accepted and both CDS lists were empty: F-C19m) -/
theorem mkTx_noInternal (exS exE : List Int) (st : Strand) (cdsS cdsE : Option (List Int))
    (cdsF : Option (List CDSFrame)) : NoInternal (mkTx exS exE st cdsS cdsE cdsF) := by
  intro c hc
  unfold mkTx at hc
  cases hi : initLoc exS exE st with
  | error e =>
      rw [hi] at hc
      cases e with
      | doc k => cases hc
      | internal c' => exact initLoc_noInternal exS exE st c' hi
  | ok bs =>
      rw [hi] at hc
      simp only [bind, Except.bind] at hc
      split at hc
      · cases ht : txCds _ _ st cdsS cdsE cdsF with
        | ok v => rw [ht] at hc; cases hc
        | error e =>
            rw [ht] at hc
            cases e with
            | doc k => cases hc
            | internal c' => exact txCds_noInternal _ _ st cdsS cdsE cdsF c' ht
      · cases hc

/-- regression fact (F-C19m, repaired by cb56bb9): empty CDS lists are refused with InvalidCDSIntervalError -/
theorem mkTx_empty_cds_refused :
    mkTx [1] [5] .plus (some []) (some []) (some []) = .error (.doc .InvalidCDSInterval) := by
  simp [mkTx, initLoc, mkSingle, txCds, liftR, bind, Except.bind, pure, Except.pure, raise]

/-- F-C19h: a CDS lying partly in an intron (exons [5,10) [15,20), CDS [7,13)) IS accepted. -/
theorem mkTx_cds_in_intron_witness :
    (mkTx [5, 15] [10, 20] .plus (some [7]) (some [13]) (some [.ZERO])).toOption.map projTx
      = some (5, 20, true, 7, 13) ∧
    Spec.Validate.validTx [5, 15] [10, 20] (some [7]) (some [13]) (some [0]) = false := by
  constructor
  · have h1 : initLoc [5, 15] [10, 20] .plus = .ok [(5, 10), (15, 20)] := by
      have h := (mkCompoundRaw_eq [5, 15] [10, 20] .plus none).1 ⟨⟨rfl, by decide⟩, by decide, trivial⟩
      have hs : sortBlocksI .plus ([5, 15].zip [10, 20]) = [(5, 10), (15, 20)] :=
        List.mergeSort_of_pairwise (by decide)
      simp only [initLoc, List.length_cons, List.length_nil, ne_eq, not_true_eq_false, ite_false, h, hs]
    have h2 : initLoc [7] [13] .plus = .ok [(7, 13)] := by
      simp [initLoc, mkSingle, liftR, bind, Except.bind, pure, Except.pure]
    simp [mkTx, txCds, mkCDS, h1, h2, bind, Except.bind, pure, Except.pure, sumLens, projTx, Except.toOption, FP.isFrame,
      FP.toFrame]
  · decide

/-- F-C19i: exon lists given in descending order are accepted and give start = 15 > end = 10. -/
theorem mkTx_unsorted_witness :
    (mkTx [15, 5] [20, 10] .plus none none none).toOption.map projTx = some (15, 10, false, 0, 0) := by
  have h1 : ∃ bs, initLoc [15, 5] [20, 10] .plus = .ok bs :=
    (initLoc_cases [15, 5] [20, 10] .plus).1 ⟨⟨rfl, by decide⟩, by decide⟩
  obtain ⟨bs, hb⟩ := h1
  simp [mkTx, txCds, hb, bind, Except.bind, pure, Except.pure, projTx, Except.toOption]

end BioCantor.Proofs.Val
