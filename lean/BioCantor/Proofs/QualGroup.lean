/-
  C18 helper lemmas, part 7: locus-tag grouping.  The stable sort by tag followed by `itertools.groupby`
  yields one run per distinct tag, in increasing tag order, holding exactly the features of that tag in their
  ORIGINAL relative order; the inner loop splits a run by kind and refuses a second gene feature.
-/
import BioCantor.Proofs.QualMerge
namespace BioCantor.Proofs.Qual
open BioCantor BioCantor.Spec.Qual BioCantor.Model.Qual

def tagLe (a b : Feat) : Bool := strLe a.tag b.tag

theorem tagLe_trans (a b c : Feat) : tagLe a b = true → tagLe b c = true → tagLe a c = true :=
  strLe_trans _ _ _
theorem tagLe_total (a b : Feat) : (tagLe a b || tagLe b a) = true := strLe_total _ _

theorem sortByTag_eq (fs : List Feat) : sortByTag fs = fs.mergeSort tagLe := rfl

/-- stability of the sort, in the form needed: the features of one tag keep their relative order -/
theorem sortByTag_filter (fs : List Feat) (t : Str) :
    (sortByTag fs).filter (fun f => f.tag == t) = fs.filter (fun f => f.tag == t) := by
  rw [sortByTag_eq]
  have hsub : List.Sublist (fs.filter (fun f => f.tag == t)) fs := List.filter_sublist
  have hpw : (fs.filter (fun f => f.tag == t)).Pairwise (fun a b => tagLe a b = true) := by
    rw [List.pairwise_iff_forall_sublist]
    intro a b hab
    have ha : a ∈ fs.filter (fun f => f.tag == t) := hab.subset (by simp)
    have hb : b ∈ fs.filter (fun f => f.tag == t) := hab.subset (by simp)
    simp only [List.mem_filter, beq_iff_eq] at ha hb
    simp [tagLe, strLe, ha.2, hb.2]
  have h1 := List.sublist_mergeSort (le := tagLe) tagLe_trans tagLe_total hpw hsub
  have h2 := h1.filter (fun f => f.tag == t)
  rw [List.filter_filter] at h2
  simp only [Bool.and_self] at h2
  have hlen : (fs.filter (fun f => f.tag == t)).length = ((fs.mergeSort tagLe).filter (fun f => f.tag == t)).length :=
    ((List.mergeSort_perm fs tagLe).filter _).length_eq.symm
  exact (h2.eq_of_length hlen).symm

theorem sortByTag_sorted (fs : List Feat) : (sortByTag fs).Pairwise (fun a b => tagLe a b = true) :=
  List.pairwise_mergeSort tagLe_trans tagLe_total fs

theorem sortByTag_perm (fs : List Feat) : (sortByTag fs).Perm fs := List.mergeSort_perm fs _

/-! ### `itertools.groupby` -/

theorem groupRuns_head (f : Feat) (fs : List Feat) : ∃ g rest, groupRuns (f :: fs) = (f.tag, g) :: rest := by
  unfold groupRuns
  cases h : groupRuns fs with
  | nil => exact ⟨[f], [], rfl⟩
  | cons r rest =>
    obtain ⟨t, g⟩ := r
    by_cases ht : t = f.tag
    · simp only [ht, if_true]; exact ⟨f :: g, rest, rfl⟩
    · simp only [ht, if_false]; exact ⟨[f], (t, g) :: rest, rfl⟩

theorem groupRuns_nil {fs : List Feat} (h : groupRuns fs = []) : fs = [] := by
  cases fs with
  | nil => rfl
  | cons f fs => obtain ⟨g, rest, h'⟩ := groupRuns_head f fs; rw [h'] at h; cases h

/-- concatenating the runs gives the list back -/
theorem groupRuns_concat : ∀ (fs : List Feat), (groupRuns fs).flatMap (·.2) = fs
  | [] => rfl
  | f :: fs => by
    have ih := groupRuns_concat fs
    unfold groupRuns
    cases h : groupRuns fs with
    | nil => rw [groupRuns_nil h]; rfl
    | cons r rest =>
      obtain ⟨t, g⟩ := r
      rw [h] at ih
      by_cases ht : t = f.tag
      · simp only [ht, if_true, List.flatMap_cons, List.cons_append] at ih ⊢
        rw [ih]
      · simp only [ht, if_false, List.flatMap_cons, List.cons_append, List.nil_append] at ih ⊢
        rw [ih]

/-- every run is non-empty and homogeneous -/
theorem groupRuns_homog : ∀ (fs : List Feat), ∀ r ∈ groupRuns fs, r.2 ≠ [] ∧ ∀ f ∈ r.2, f.tag = r.1
  | [], r, h => by simp [groupRuns] at h
  | f :: fs, r, h => by
    have ih := groupRuns_homog fs
    unfold groupRuns at h
    cases hg : groupRuns fs with
    | nil =>
      rw [hg] at h
      simp only [List.mem_singleton] at h
      subst h
      exact ⟨by simp, fun x hx => by simp only [List.mem_singleton] at hx; rw [hx]⟩
    | cons r0 rest =>
      obtain ⟨t, g⟩ := r0
      rw [hg] at h ih
      by_cases ht : t = f.tag
      · simp only [ht, if_true, List.mem_cons] at h
        rcases h with h | h
        · subst h
          refine ⟨by simp, fun x hx => ?_⟩
          rcases List.mem_cons.mp hx with hx | hx
          · rw [hx]
          · have := (ih (t, g) List.mem_cons_self).2 x hx
            simpa [ht] using this
        · exact ih r (List.mem_cons_of_mem _ h)
      · simp only [ht, if_false, List.mem_cons] at h
        rcases h with h | h | h
        · subst h
          exact ⟨by simp, fun x hx => by simp only [List.mem_singleton] at hx; rw [hx]⟩
        · subst h; exact ih (t, g) List.mem_cons_self
        · exact ih r (List.mem_cons_of_mem _ h)

/-- on a tag-sorted list the run tags are strictly increasing -/
theorem groupRuns_tags_sorted : ∀ (fs : List Feat), fs.Pairwise (fun a b => tagLe a b = true) →
    ((groupRuns fs).map (·.1)).Pairwise (fun a b => strLt a b = true)
  | [], _ => by simp [groupRuns]
  | f :: fs, hs => by
    rw [List.pairwise_cons] at hs
    have ih := groupRuns_tags_sorted fs hs.2
    unfold groupRuns
    cases hg : groupRuns fs with
    | nil => simp
    | cons r0 rest =>
      obtain ⟨t, g⟩ := r0
      rw [hg] at ih
      by_cases ht : t = f.tag
      · simp only [ht, if_true]
        simpa [ht] using ih
      · simp only [ht, if_false, List.map_cons]
        simp only [List.map_cons] at ih
        have hfs : fs ≠ [] := fun h0 => by rw [h0] at hg; simp [groupRuns] at hg
        obtain ⟨f', fs', hfs'⟩ := List.exists_cons_of_ne_nil hfs
        obtain ⟨g', rest', hh⟩ := groupRuns_head f' fs'
        rw [hfs', hh] at hg
        simp only [List.cons.injEq, Prod.mk.injEq] at hg
        have htag : t = f'.tag := hg.1.1.symm
        have hle : strLe f.tag t = true := by
          rw [htag]; exact hs.1 f' (by rw [hfs']; exact List.mem_cons_self)
        have hlt : strLt f.tag t = true := by
          rcases strLe_iff.mp hle with h | h
          · exact absurd h.symm ht
          · exact h
        rw [List.pairwise_cons] at ih ⊢
        refine ⟨fun x hx => ?_, List.pairwise_cons.mpr ih⟩
        rcases List.mem_cons.mp hx with hx | hx
        · rw [hx]; exact hlt
        · exact strLt_trans hlt (ih.1 x hx)

/-- runs with pairwise distinct tags: filtering the concatenation by a run's tag gives the run -/
theorem filter_runs : ∀ (runs : List (Str × List Feat)),
    (runs.map (·.1)).Pairwise (fun a b => a ≠ b) → (∀ r ∈ runs, ∀ f ∈ r.2, f.tag = r.1) →
    ∀ r ∈ runs, (runs.flatMap (·.2)).filter (fun f => f.tag == r.1) = r.2
  | [], _, _, r, h => nomatch h
  | r0 :: rest, hd, hh, r, hr => by
    simp only [List.map_cons, List.pairwise_cons] at hd
    have ih := filter_runs rest hd.2 (fun r hr => hh r (List.mem_cons_of_mem _ hr))
    simp only [List.flatMap_cons, List.filter_append]
    rcases List.mem_cons.mp hr with rfl | hr'
    · have h1 : r.2.filter (fun f => f.tag == r.1) = r.2 := by
        rw [List.filter_eq_self]
        intro f hf; simp [hh r List.mem_cons_self f hf]
      have h2 : (rest.flatMap (·.2)).filter (fun f => f.tag == r.1) = [] := by
        rw [List.filter_eq_nil_iff]
        intro f hf
        simp only [List.mem_flatMap] at hf
        obtain ⟨r', hr', hf'⟩ := hf
        have := hh r' (List.mem_cons_of_mem _ hr') f hf'
        simp only [beq_iff_eq, this]
        exact fun e => hd.1 r'.1 (List.mem_map_of_mem hr') e.symm
      rw [h1, h2, List.append_nil]
    · have h1 : r0.2.filter (fun f => f.tag == r.1) = [] := by
        rw [List.filter_eq_nil_iff]
        intro f hf
        simp only [beq_iff_eq, hh r0 List.mem_cons_self f hf]
        exact hd.1 r.1 (List.mem_map_of_mem hr')
      rw [h1, List.nil_append]
      exact ih r hr'

/-- the runs of the tag-sorted record, in the vocabulary of the original record -/
theorem runs_of_sorted (fs : List Feat) :
    ((groupRuns (sortByTag fs)).map (·.1)).Pairwise (fun a b => strLt a b = true) ∧
    (∀ r ∈ groupRuns (sortByTag fs), r.2 = fs.filter (fun f => f.tag == r.1) ∧ r.2 ≠ []) ∧
    (∀ f ∈ fs, f.tag ∈ (groupRuns (sortByTag fs)).map (·.1)) := by
  have hs := groupRuns_tags_sorted _ (sortByTag_sorted fs)
  have hh := groupRuns_homog (sortByTag fs)
  have hc := groupRuns_concat (sortByTag fs)
  have hd : ((groupRuns (sortByTag fs)).map (·.1)).Pairwise (fun a b => a ≠ b) :=
    hs.imp (fun h e => by rw [e, strLt_irrefl] at h; cases h)
  refine ⟨hs, fun r hr => ⟨?_, (hh r hr).1⟩, fun f hf => ?_⟩
  · have := filter_runs _ hd (fun r hr => (hh r hr).2) r hr
    rw [hc, sortByTag_filter] at this
    exact this.symm
  · have hf' : f ∈ sortByTag fs := (sortByTag_perm fs).mem_iff.mpr hf
    rw [← hc] at hf'
    simp only [List.mem_flatMap] at hf'
    obtain ⟨r, hr, hfr⟩ := hf'
    rw [(hh r hr).2 f hfr]
    exact List.mem_map_of_mem hr

/-! ### the inner loop -/

def kindUids (k : Kind) (l : List Feat) : List Nat := (l.filter fun f => f.kind == k).map (·.uid)

theorem kindUids_cons (k : Kind) (f : Feat) (l : List Feat) :
    kindUids k (f :: l) = if f.kind = k then f.uid :: kindUids k l else kindUids k l := by
  unfold kindUids
  by_cases h : f.kind = k
  · simp [h]
  · simp [h]

/-- what `scanRun` returns, by the number of gene features in the run -/
def scanResult (g : Option Nat) (ts cs : List Nat) (l : List Feat) : R (Option Nat × List Nat × List Nat) :=
  match g, kindUids .gene l with
  | none, [] => .ok (none, ts ++ kindUids .transcript l, cs ++ kindUids .cds l)
  | none, [u] => .ok (some u, ts ++ kindUids .transcript l, cs ++ kindUids .cds l)
  | some u, [] => .ok (some u, ts ++ kindUids .transcript l, cs ++ kindUids .cds l)
  | _, _ => .error .locusTag

theorem scanRun_eq : ∀ (l : List Feat) (g : Option Nat) (ts cs : List Nat),
    scanRun g ts cs l = scanResult g ts cs l
  | [], g, ts, cs => by
    cases g <;> simp [scanRun, scanResult, kindUids, pure, Except.pure]
  | f :: fs, g, ts, cs => by
    unfold scanRun
    cases hk : f.kind with
    | gene =>
      simp only
      cases g with
      | some u =>
        simp only [Option.isSome_some, if_true, scanResult, kindUids_cons, hk]
        rfl
      | none =>
        simp only [Option.isSome_none, Bool.false_eq_true, if_false]
        rw [scanRun_eq fs]
        simp only [scanResult, kindUids_cons, hk, if_true]
        have h1 : (Kind.gene = Kind.transcript) = False := by simp
        have h2 : (Kind.gene = Kind.cds) = False := by simp
        simp only [h1, h2, if_false]
        cases hgs : kindUids .gene fs with
        | nil => rfl
        | cons a as => rfl
    | transcript =>
      simp only
      rw [scanRun_eq fs]
      simp only [scanResult, kindUids_cons, hk]
      have h1 : (Kind.transcript = Kind.gene) = False := by simp
      have h2 : (Kind.transcript = Kind.cds) = False := by simp
      simp only [h1, h2, if_false, if_true, List.append_assoc, List.singleton_append]
    | cds =>
      simp only
      rw [scanRun_eq fs]
      simp only [scanResult, kindUids_cons, hk]
      have h1 : (Kind.cds = Kind.gene) = False := by simp
      have h2 : (Kind.cds = Kind.transcript) = False := by simp
      simp only [h1, h2, if_false, if_true, List.append_assoc, List.singleton_append]
    | other =>
      simp only
      rw [scanRun_eq fs]
      simp only [scanResult, kindUids_cons, hk]
      have h1 : (Kind.other = Kind.gene) = False := by simp
      have h2 : (Kind.other = Kind.transcript) = False := by simp
      have h3 : (Kind.other = Kind.cds) = False := by simp
      simp only [h1, h2, h3, if_false]

theorem uidsOf_eq (fs : List Feat) (t : Str) (k : Kind) :
    uidsOf fs t k = kindUids k (fs.filter fun f => f.tag == t) := by
  unfold uidsOf kindUids
  rw [List.filter_filter]
  congr 1
  apply List.filter_congr
  intro f _
  rw [Bool.and_comm]

/-- the group a run yields when it holds at most one gene feature -/
def groupOf (fs : List Feat) (t : Str) : Group :=
  let ts := uidsOf fs t .transcript
  let cs := uidsOf fs t .cds
  ⟨t, (uidsOf fs t .gene).head?, if ts.length > 1 && cs.length > 1 then ts.take 1 else ts, cs⟩

theorem processRun_eq (fs : List Feat) (t : Str) :
    processRun (t, fs.filter fun f => f.tag == t) =
      if (uidsOf fs t .gene).length ≤ 1 then .ok (groupOf fs t) else .error .locusTag := by
  unfold processRun
  simp only [scanRun_eq, scanResult, ← uidsOf_eq, List.nil_append]
  cases hg : uidsOf fs t .gene with
  | nil => simp [groupOf, hg, bind, Except.bind, pure, Except.pure]
  | cons u us =>
    cases us with
    | nil => simp [groupOf, hg, bind, Except.bind, pure, Except.pure]
    | cons u' us' => simp [bind, Except.bind]

theorem processRuns_ok (fs : List Feat) : ∀ (runs : List (Str × List Feat)),
    (∀ r ∈ runs, r.2 = fs.filter (fun f => f.tag == r.1)) →
    (∀ r ∈ runs, (uidsOf fs r.1 .gene).length ≤ 1) →
    processRuns runs = .ok ((runs.map fun r => groupOf fs r.1).filter fun g => !emptyGroup g)
  | [], _, _ => rfl
  | r :: rs, h1, h2 => by
    obtain ⟨t, g⟩ := r
    have hg : g = fs.filter (fun f => f.tag == t) := h1 (t, g) List.mem_cons_self
    subst hg
    unfold processRuns
    rw [processRun_eq, if_pos (h2 _ List.mem_cons_self),
      processRuns_ok fs rs (fun r hr => h1 r (List.mem_cons_of_mem _ hr)) (fun r hr => h2 r (List.mem_cons_of_mem _ hr))]
    simp only [bind, Except.bind, pure, Except.pure, List.map_cons, List.filter_cons]
    cases emptyGroup (groupOf fs t) <;> rfl

theorem processRuns_err (fs : List Feat) : ∀ (runs : List (Str × List Feat)),
    (∀ r ∈ runs, r.2 = fs.filter (fun f => f.tag == r.1)) →
    (∃ r ∈ runs, ¬ (uidsOf fs r.1 .gene).length ≤ 1) →
    ansQ (processRuns runs) = none
  | [], _, ⟨_, h, _⟩ => nomatch h
  | r :: rs, h1, ⟨r', hr', hbad⟩ => by
    obtain ⟨t, g⟩ := r
    have hg : g = fs.filter (fun f => f.tag == t) := h1 (t, g) List.mem_cons_self
    subst hg
    unfold processRuns
    rw [processRun_eq]
    by_cases hok : (uidsOf fs t .gene).length ≤ 1
    · rw [if_pos hok]
      have hr'' : r' ∈ rs := by
        rcases List.mem_cons.mp hr' with h | h
        · subst h; exact absurd hok hbad
        · exact h
      have ih := processRuns_err fs rs (fun r hr => h1 r (List.mem_cons_of_mem _ hr)) ⟨r', hr'', hbad⟩
      simp only [bind, Except.bind]
      cases hp : processRuns rs with
      | error e => rfl
      | ok gs => rw [hp] at ih; cases ih
    · rw [if_neg hok]; rfl

/-- the run tags of the sorted record: the distinct locus tags in increasing order -/
def tagsOf (fs : List Feat) : List Str := (groupRuns (sortByTag fs)).map (·.1)

theorem tagsOf_sorted (fs : List Feat) : (tagsOf fs).Pairwise (fun a b => strLt a b = true) :=
  (runs_of_sorted fs).1

theorem tagsOf_mem (fs : List Feat) (t : Str) : t ∈ tagsOf fs ↔ ∃ f ∈ fs, f.tag = t := by
  obtain ⟨_, hr, hall⟩ := runs_of_sorted fs
  constructor
  · intro ht
    simp only [tagsOf, List.mem_map] at ht
    obtain ⟨r, hr', rfl⟩ := ht
    obtain ⟨h1, h2⟩ := hr r hr'
    obtain ⟨f, fs', hf⟩ := List.exists_cons_of_ne_nil h2
    have : f ∈ fs.filter (fun f => f.tag == r.1) := by rw [← h1, hf]; exact List.mem_cons_self
    simp only [List.mem_filter, beq_iff_eq] at this
    exact ⟨f, this.1, this.2⟩
  · rintro ⟨f, hf, rfl⟩
    exact hall f hf

theorem dupGene_iff (fs : List Feat) : dupGene fs = true ↔ ∃ t ∈ tagsOf fs, ¬ (uidsOf fs t .gene).length ≤ 1 := by
  simp only [dupGene, List.any_eq_true, Bool.and_eq_true, beq_iff_eq, decide_eq_true_eq]
  constructor
  · rintro ⟨f, hf, _, hlen⟩
    exact ⟨f.tag, (tagsOf_mem fs _).mpr ⟨f, hf, rfl⟩, by omega⟩
  · rintro ⟨t, _, hlen⟩
    have hne : uidsOf fs t .gene ≠ [] := fun h => by rw [h] at hlen; simp at hlen
    obtain ⟨u, us, hu⟩ := List.exists_cons_of_ne_nil hne
    have hmem : u ∈ uidsOf fs t .gene := by rw [hu]; exact List.mem_cons_self
    simp only [uidsOf, List.mem_map, List.mem_filter, Bool.and_eq_true, beq_iff_eq] at hmem
    obtain ⟨f, ⟨hf, htag, hkind⟩, _⟩ := hmem
    refine ⟨f, hf, hkind, ?_⟩
    rw [htag]; omega

/-- the grouping in closed form -/
theorem group_explicit (fs : List Feat) :
    (dupGene fs = true ∧ ansQ (groupByLocusTag fs) = none) ∨
    (dupGene fs = false ∧
      groupByLocusTag fs = .ok (((tagsOf fs).map (groupOf fs)).filter fun g => !emptyGroup g)) := by
  obtain ⟨_, hr, _⟩ := runs_of_sorted fs
  unfold groupByLocusTag groupSorted
  by_cases hd : dupGene fs = true
  · left
    refine ⟨hd, ?_⟩
    obtain ⟨t, ht, hbad⟩ := (dupGene_iff fs).mp hd
    simp only [tagsOf, List.mem_map] at ht
    obtain ⟨r, hr', rfl⟩ := ht
    exact processRuns_err fs _ (fun r h => (hr r h).1) ⟨r, hr', hbad⟩
  · right
    have hd' : dupGene fs = false := by simpa using hd
    refine ⟨hd', ?_⟩
    rw [processRuns_ok fs _ (fun r h => (hr r h).1)]
    · simp only [tagsOf, List.map_map]; rfl
    · intro r hr'
      apply Classical.byContradiction
      intro hbad
      exact hd ((dupGene_iff fs).mpr ⟨r.1, List.mem_map_of_mem hr', hbad⟩)

theorem uidsOf_nil_iff (fs : List Feat) (t : Str) (k : Kind) :
    uidsOf fs t k = [] ↔ ∀ f ∈ fs, f.tag = t → f.kind ≠ k := by
  simp only [uidsOf, List.map_eq_nil_iff, List.filter_eq_nil_iff, Bool.and_eq_true, beq_iff_eq, not_and]

theorem take1_nil_iff (c : Prop) [Decidable c] (ts : List Nat) : (if c then ts.take 1 else ts) = [] ↔ ts = [] := by
  cases ts with
  | nil => simp
  | cons a as => by_cases h : c <;> simp [h]

/-- a tag yields no group exactly when only features of unknown type carry it -/
theorem emptyGroup_groupOf (fs : List Feat) (t : Str) :
    emptyGroup (groupOf fs t) = true ↔ ∀ f ∈ fs, f.tag = t → f.kind = .other := by
  unfold emptyGroup groupOf
  simp only [Bool.and_eq_true, Option.isNone_iff_eq_none, List.head?_eq_none_iff, List.isEmpty_iff, take1_nil_iff,
    uidsOf_nil_iff]
  constructor
  · rintro ⟨⟨h1, h2⟩, h3⟩ f hf ht
    have a := h1 f hf ht; have b := h2 f hf ht; have c := h3 f hf ht
    cases hk : f.kind <;> simp_all
  · intro h
    refine ⟨⟨?_, ?_⟩, ?_⟩ <;> intro f hf ht <;> rw [h f hf ht] <;> simp

/-- MAIN LEMMA for the grouping -/
theorem group_ok (fs : List Feat) : okGroup fs (ansQ (groupByLocusTag fs)) = true := by
  rcases group_explicit fs with ⟨hd, h⟩ | ⟨hd, h⟩
  · rw [h]; exact hd
  · rw [h]
    simp only [ansQ_ok, okGroup, hd, Bool.not_false, Bool.true_and, Bool.and_eq_true, List.all_eq_true]
    have hmap : (((tagsOf fs).map (groupOf fs)).filter fun g => !emptyGroup g).map (·.tag) =
        (tagsOf fs).filter fun t => !emptyGroup (groupOf fs t) := by
      rw [List.filter_map, List.map_map]
      conv => rhs; rw [← List.map_id ((tagsOf fs).filter fun t => !emptyGroup (groupOf fs t))]
      apply List.map_congr_left
      intro t _; rfl
    refine ⟨⟨?_, ?_⟩, ?_⟩
    · rw [hmap]; exact sortedStrict_of_pairwise ((tagsOf_sorted fs).filter _)
    · rw [hmap, sameSet_iff]
      intro t
      simp only [List.mem_filter, tagsOf_mem, Bool.not_eq_true', List.mem_map, knownFeats, bne_iff_ne, ne_eq]
      constructor
      · rintro ⟨_, hne⟩
        have : ¬ (∀ f ∈ fs, f.tag = t → f.kind = .other) := by
          rw [← emptyGroup_groupOf, hne]; simp
        apply Classical.byContradiction
        intro hno
        apply this
        intro f hf ht
        apply Classical.byContradiction
        intro hk
        exact hno ⟨f, ⟨hf, hk⟩, ht⟩
      · rintro ⟨f, ⟨hf, hk⟩, ht⟩
        refine ⟨⟨f, hf, ht⟩, ?_⟩
        cases he : emptyGroup (groupOf fs t) with
        | false => rfl
        | true => exact absurd ((emptyGroup_groupOf fs t).mp he f hf ht) hk
    · intro g hg
      simp only [List.mem_filter, List.mem_map] at hg
      obtain ⟨⟨t, _, rfl⟩, _⟩ := hg
      unfold singleChain groupOf
      simp only
      cases hc : (decide ((uidsOf fs t .transcript).length > 1) && decide ((uidsOf fs t .cds).length > 1)) with
      | true =>
        simp only [if_true, Bool.not_true, Bool.false_eq_true, if_false, beq_self_eq_true]
        refine ⟨⟨trivial, List.isPerm_iff.mpr (List.Perm.refl _)⟩, ?_⟩
        simp only [Bool.and_eq_true, decide_eq_true_eq] at hc
        cases hts : uidsOf fs t .transcript with
        | nil => rw [hts] at hc; simp at hc
        | cons a as => simp
      | false =>
        simp only [Bool.false_eq_true, if_false, Bool.not_false, if_true, beq_self_eq_true]
        exact ⟨⟨trivial, List.isPerm_iff.mpr (List.Perm.refl _)⟩, List.isPerm_iff.mpr (List.Perm.refl _)⟩

/-! ### order independence -/

/-- same tag, same gene feature, same transcript and CDS features up to their order -/
def groupEquiv (g g' : Group) : Prop :=
  g.tag = g'.tag ∧ g.gene = g'.gene ∧ g.transcripts.Perm g'.transcripts ∧ g.cdss.Perm g'.cdss

theorem uidsOf_perm {fs fs' : List Feat} (hp : fs.Perm fs') (t : Str) (k : Kind) :
    (uidsOf fs t k).Perm (uidsOf fs' t k) := (hp.filter _).map _

theorem tagsOf_perm {fs fs' : List Feat} (hp : fs.Perm fs') : tagsOf fs = tagsOf fs' := by
  apply strict_ext (tagsOf_sorted fs) (tagsOf_sorted fs')
  intro t
  rw [tagsOf_mem, tagsOf_mem]
  exact ⟨fun ⟨f, hf, h⟩ => ⟨f, hp.mem_iff.mp hf, h⟩, fun ⟨f, hf, h⟩ => ⟨f, hp.mem_iff.mpr hf, h⟩⟩

theorem dupGene_perm {fs fs' : List Feat} (hp : fs.Perm fs') : dupGene fs = dupGene fs' := by
  rw [Bool.eq_iff_iff, dupGene_iff, dupGene_iff, tagsOf_perm hp]
  constructor
  · rintro ⟨t, ht, h⟩; exact ⟨t, ht, by rw [← (uidsOf_perm hp t .gene).length_eq]; exact h⟩
  · rintro ⟨t, ht, h⟩; exact ⟨t, ht, by rw [(uidsOf_perm hp t .gene).length_eq]; exact h⟩

theorem head_perm_of_short {l l' : List Nat} (hp : l.Perm l') (h : l.length ≤ 1) : l.head? = l'.head? := by
  match l, l', hp, h with
  | [], l', hp, _ => rw [hp.nil_eq]
  | [a], l', hp, _ => rw [List.singleton_perm.mp hp]
  | _ :: _ :: _, _, _, h => simp at h

theorem groupOf_equiv {fs fs' : List Feat} (hp : fs.Perm fs') (t : Str)
    (hg : (uidsOf fs t .gene).length ≤ 1) (hc : singleChain fs t = true) :
    groupEquiv (groupOf fs t) (groupOf fs' t) := by
  have hT := uidsOf_perm hp t .transcript
  have hC := uidsOf_perm hp t .cds
  have hcond : (decide ((uidsOf fs t .transcript).length > 1) && decide ((uidsOf fs t .cds).length > 1)) = false := by
    cases h : (decide ((uidsOf fs t .transcript).length > 1) && decide ((uidsOf fs t .cds).length > 1)) with
    | false => rfl
    | true => rw [singleChain, h] at hc; cases hc
  have hcond' : (decide ((uidsOf fs' t .transcript).length > 1) && decide ((uidsOf fs' t .cds).length > 1)) = false := by
    rw [← hT.length_eq, ← hC.length_eq]; exact hcond
  refine ⟨rfl, head_perm_of_short (uidsOf_perm hp t .gene) hg, ?_, hC⟩
  simp only [groupOf, hcond, hcond', Bool.false_eq_true, if_false]
  exact hT

/-- element-wise `groupEquiv` -/
inductive GroupsEquiv : List Group → List Group → Prop
  | nil : GroupsEquiv [] []
  | cons {g g' : Group} {gs gs' : List Group} : groupEquiv g g' → GroupsEquiv gs gs' → GroupsEquiv (g :: gs) (g' :: gs')

theorem groupsEquiv_map {f g : Str → Group} : ∀ (l : List Str), (∀ x ∈ l, groupEquiv (f x) (g x)) →
    GroupsEquiv (l.map f) (l.map g)
  | [], _ => GroupsEquiv.nil
  | x :: xs, h => GroupsEquiv.cons (h x List.mem_cons_self) (groupsEquiv_map xs fun y hy => h y (List.mem_cons_of_mem _ hy))

theorem perm_isEmpty {l l' : List Nat} (h : l.Perm l') : l.isEmpty = l'.isEmpty := by
  cases l with
  | nil => rw [h.nil_eq]
  | cons a as =>
    cases l' with
    | nil => exact absurd h.length_eq (by simp)
    | cons _ _ => rfl

theorem emptyGroup_equiv {g g' : Group} (h : groupEquiv g g') : emptyGroup g = emptyGroup g' := by
  obtain ⟨_, h2, h3, h4⟩ := h
  unfold emptyGroup
  rw [h2, perm_isEmpty h3, perm_isEmpty h4]

theorem groupsEquiv_filter_map {f g : Str → Group} : ∀ (l : List Str), (∀ x ∈ l, groupEquiv (f x) (g x)) →
    GroupsEquiv ((l.map f).filter fun x => !emptyGroup x) ((l.map g).filter fun x => !emptyGroup x)
  | [], _ => GroupsEquiv.nil
  | x :: xs, h => by
    have ih := groupsEquiv_filter_map xs fun y hy => h y (List.mem_cons_of_mem _ hy)
    have hx := h x List.mem_cons_self
    simp only [List.map_cons, List.filter_cons, ← emptyGroup_equiv hx]
    cases emptyGroup (f x)
    · exact GroupsEquiv.cons hx ih
    · exact ih

/-- ORDER INDEPENDENCE of the grouping: a permuted record raises iff the original does, and otherwise yields the
    same groups up to the order of the transcript / CDS children (every tag a single chain). -/
theorem group_perm {fs fs' : List Feat} (hp : fs.Perm fs') (hc : ∀ f ∈ fs, singleChain fs f.tag = true) :
    (ansQ (groupByLocusTag fs) = none ∧ ansQ (groupByLocusTag fs') = none) ∨
    (∃ gs gs', groupByLocusTag fs = .ok gs ∧ groupByLocusTag fs' = .ok gs' ∧ GroupsEquiv gs gs') := by
  rcases group_explicit fs with ⟨hd, h⟩ | ⟨hd, h⟩
  · rcases group_explicit fs' with ⟨_, h'⟩ | ⟨hd', _⟩
    · exact Or.inl ⟨h, h'⟩
    · rw [dupGene_perm hp, hd'] at hd; cases hd
  · rcases group_explicit fs' with ⟨hd', _⟩ | ⟨_, h'⟩
    · rw [dupGene_perm hp, hd'] at hd; cases hd
    · refine Or.inr ⟨_, _, h, h', ?_⟩
      rw [← tagsOf_perm hp]
      apply groupsEquiv_filter_map
      intro t ht
      obtain ⟨f, hf, rfl⟩ := (tagsOf_mem fs t).mp ht
      refine groupOf_equiv hp f.tag ?_ (hc f hf)
      apply Classical.byContradiction
      intro hbad
      have := (dupGene_iff fs).mpr ⟨f.tag, ht, hbad⟩
      rw [hd] at this; cases this

end BioCantor.Proofs.Qual
