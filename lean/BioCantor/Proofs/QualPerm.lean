/-
  C18 helper lemmas, part 4:
    * the code as it is (truthiness test `not feature_key`, fullmatch) = the fully repaired rule when no rank-0
      key is present;
    * the reference predicate determines the answer when ranks are pairwise distinct, and does not depend on
      the order of the dictionary: order independence of the extraction.
-/
import BioCantor.Proofs.QualSpec
namespace BioCantor.Proofs.Qual
open BioCantor BioCantor.Spec.Qual BioCantor.Model.Qual

/-! ### the truthiness test (`not feature_key`, F-C18a) = the `is None` test away from rank-0 keys

  for every rule with `fullMatch = true` (the code since 5ed9681) -/

def Clean (st : St) : Prop := st.key ≠ some 0 ∧ st.idKey ≠ some 0

def NoZero (e : Str × List Str) : Prop := nameCls e.1 ≠ some 0 ∧ idCls e.1 ≠ some 0

theorem better_clean (r : Rule) {cur : Option Int} {this : Int} (h : cur ≠ some 0) :
    better r cur this = better Rule.repaired cur this := by
  cases cur with
  | none => rfl
  | some v =>
    have hv : v ≠ 0 := fun h0 => h (by rw [h0])
    simp [better, unset, Rule.repaired, hv]

theorem stepCls_clean (r : Rule) {st : St} {e : Str × List Str} (hc : Clean st) (hz : NoZero e) :
    stepCls r st e = stepCls Rule.repaired st e ∧
    ∀ st', stepCls Rule.repaired st e = .ok st' → Clean st' := by
  obtain ⟨k, vals⟩ := e
  obtain ⟨hz1, hz2⟩ := hz
  unfold stepCls
  cases hn : nameCls k with
  | some this =>
    have hthis : this ≠ 0 := fun h0 => hz1 (by rw [hn, h0])
    simp only [better_clean r (this := this) hc.1]
    refine ⟨trivial, fun st' h => ?_⟩
    by_cases hb : better Rule.repaired st.key this = true
    · rw [if_pos hb] at h
      cases vals with
      | nil => cases h
      | cons v vs =>
        simp only [pure, Except.pure, Except.ok.injEq] at h
        subst h
        exact ⟨fun h0 => hthis (by simpa using h0), hc.2⟩
    · rw [if_neg hb] at h
      simp only [pure, Except.pure, Except.ok.injEq] at h
      subst h; exact hc
  | none =>
    simp only
    cases hi : idCls k with
    | some this =>
      have hthis : this ≠ 0 := fun h0 => hz2 (by rw [hi, h0])
      simp only [better_clean r (this := this) hc.2]
      refine ⟨trivial, fun st' h => ?_⟩
      by_cases hb : better Rule.repaired st.idKey this = true
      · rw [if_pos hb] at h
        cases vals with
        | nil => cases h
        | cons v vs =>
          simp only [pure, Except.pure, Except.ok.injEq] at h
          subst h
          exact ⟨hc.1, fun h0 => hthis (by simpa using h0)⟩
      · rw [if_neg hb] at h
        simp only [pure, Except.pure, Except.ok.injEq] at h
        subst h; exact hc
    | none =>
      refine ⟨rfl, fun st' h => ?_⟩
      simp only [pure, Except.pure, Except.ok.injEq] at h
      subst h; exact hc

theorem loop_clean (r : Rule) (hr : r.fullMatch = true) : ∀ (qs : QDict) (st : St), Clean st → (∀ e ∈ qs, NoZero e) →
    loop r st qs = loop Rule.repaired st qs
  | [], _, _, _ => rfl
  | e :: es, st, hc, hz => by
    obtain ⟨h1, h2⟩ := stepCls_clean r hc (hz e List.mem_cons_self)
    simp only [loop, step_eq_stepCls r hr, step_eq_stepCls Rule.repaired rfl, h1]
    cases hs : stepCls Rule.repaired st e with
    | error err => rfl
    | ok st' =>
      simp only [bind, Except.bind]
      exact loop_clean r hr es st' (h2 st' hs) (fun e' he' => hz e' (List.mem_cons_of_mem _ he'))

/-- a rule with `fullmatch` agrees with the fully repaired rule on dictionaries without a rank-0 key -/
theorem extract_rule_eq (r : Rule) (hr : r.fullMatch = true) (qs : QDict) (hz : ∀ e ∈ qs, NoZero e) :
    extractWith r qs = extractWith Rule.repaired qs := by
  unfold extractWith
  rw [loop_clean r hr qs St.init ⟨by decide, by decide⟩ hz]

/-- "no rank-0 key" in the vocabulary of the spec implies the model-side condition -/
theorem noZero_of_rank {e : Str × List Str}
    (h1 : rank nameOrder e.1 ≠ some 0) (h2 : rank idOrder e.1 ≠ some 0) : NoZero e := by
  refine ⟨fun h => h1 ?_, fun h => h2 ?_⟩
  · have hs : (rank nameOrder e.1).isSome = true := by
      rw [← cls_isSome nameFamOK]
      have h' : cls nameRegexKeys Gen.featureNameQualifiers e.1 = some 0 := h
      rw [h']; rfl
    cases hr : rank nameOrder e.1 with
    | none => rw [hr] at hs; cases hs
    | some r => rw [((cls_mono nameFamOK h h hr hr).2).mp rfl]
  · have hs : (rank idOrder e.1).isSome = true := by
      rw [← cls_isSome idFamOK]
      have h' : cls idRegexKeys Gen.featureIdQualifiers e.1 = some 0 := h
      rw [h']; rfl
    cases hr : rank idOrder e.1 with
    | none => rw [hr] at hs; cases hs
    | some r => rw [((cls_mono idFamOK h h hr hr).2).mp rfl]

/-! ### the reference predicate as propositions -/

theorem okPick_none_iff (order : List Str) (qs : QDict) :
    okPick order qs none = true ↔ ∀ e ∈ qs, rank order e.1 = none := by
  simp only [okPick, List.all_eq_true, Option.isNone_iff_eq_none]

theorem okPick_some_iff (order : List Str) (qs : QDict) (v : Str) :
    okPick order qs (some v) = true ↔
      ∃ e ∈ qs, ∃ r, rank order e.1 = some r ∧ e.2.head? = some v ∧
        ∀ e' ∈ qs, ∀ r', rank order e'.1 = some r' → r ≤ r' := by
  simp only [okPick, List.any_eq_true]
  constructor
  · rintro ⟨e, he, h⟩
    cases hr : rank order e.1 with
    | none => rw [hr] at h; cases h
    | some r =>
      rw [hr] at h
      simp only [Bool.and_eq_true, beq_iff_eq, List.all_eq_true] at h
      refine ⟨e, he, r, hr, h.1, fun e' he' r' hr' => ?_⟩
      have := h.2 e' he'
      rw [hr'] at this
      simpa using this
  · rintro ⟨e, he, r, hr, hh, hall⟩
    refine ⟨e, he, ?_⟩
    rw [hr]
    simp only [Bool.and_eq_true, beq_iff_eq, List.all_eq_true]
    refine ⟨hh, fun e' he' => ?_⟩
    cases hr' : rank order e'.1 with
    | none => rfl
    | some r' => simpa using hall e' he' r' hr'

theorem okPick_perm {order : List Str} {qs qs' : QDict} (hp : qs.Perm qs') (a : Option Str) :
    okPick order qs a = okPick order qs' a := by
  rw [Bool.eq_iff_iff]
  cases a with
  | none =>
    rw [okPick_none_iff, okPick_none_iff]
    exact ⟨fun h e he => h e (hp.mem_iff.mpr he), fun h e he => h e (hp.mem_iff.mp he)⟩
  | some v =>
    rw [okPick_some_iff, okPick_some_iff]
    constructor
    · rintro ⟨e, he, r, h1, h2, h3⟩
      exact ⟨e, hp.mem_iff.mp he, r, h1, h2, fun e' he' => h3 e' (hp.mem_iff.mpr he')⟩
    · rintro ⟨e, he, r, h1, h2, h3⟩
      exact ⟨e, hp.mem_iff.mpr he, r, h1, h2, fun e' he' => h3 e' (hp.mem_iff.mp he')⟩

theorem ranksDistinct_spec {order : List Str} : ∀ {qs : QDict}, ranksDistinct order qs = true →
    ∀ e ∈ qs, ∀ e' ∈ qs, ∀ r, rank order e.1 = some r → rank order e'.1 = some r → e = e'
  | [], _, _, he, _, _, _, _, _ => nomatch he
  | x :: xs, h, e, he, e', he', r, hr, hr' => by
    simp only [ranksDistinct, Bool.and_eq_true] at h
    obtain ⟨hx, hrest⟩ := h
    have ih := ranksDistinct_spec hrest
    have hhead : ∀ y ∈ xs, ∀ r, rank order x.1 = some r → rank order y.1 = some r → False := by
      intro y hy r h1 h2
      rw [h1] at hx
      simp only [Bool.not_eq_true', List.any_eq_false, beq_iff_eq] at hx
      exact hx y hy h2
    rcases List.mem_cons.mp he with rfl | he1 <;> rcases List.mem_cons.mp he' with rfl | he2
    · rfl
    · exact (hhead e' he2 r hr hr').elim
    · exact (hhead e he1 r hr' hr).elim
    · exact ih e he1 e' he2 r hr hr'

/-- with pairwise distinct ranks the reference predicate accepts exactly one answer -/
theorem okPick_unique {order : List Str} {qs : QDict} (hd : ranksDistinct order qs = true) {a b : Option Str}
    (ha : okPick order qs a = true) (hb : okPick order qs b = true) : a = b := by
  cases a with
  | none =>
    cases b with
    | none => rfl
    | some w =>
      rw [okPick_none_iff] at ha
      obtain ⟨e, he, r, h1, _, _⟩ := (okPick_some_iff _ _ _).mp hb
      rw [ha e he] at h1; cases h1
  | some v =>
    cases b with
    | none =>
      rw [okPick_none_iff] at hb
      obtain ⟨e, he, r, h1, _, _⟩ := (okPick_some_iff _ _ _).mp ha
      rw [hb e he] at h1; cases h1
    | some w =>
      obtain ⟨e, he, r, h1, h2, h3⟩ := (okPick_some_iff _ _ _).mp ha
      obtain ⟨e', he', r', h1', h2', h3'⟩ := (okPick_some_iff _ _ _).mp hb
      have hle := h3 e' he' r' h1'
      have hle' := h3' e he r h1
      have hrr : r = r' := Nat.le_antisymm hle hle'
      subst hrr
      have := ranksDistinct_spec hd e he e' he' r h1 h1'
      subst this
      rw [h2] at h2'
      exact h2'

/-! ### order independence of the other ingredients -/

theorem keysDistinct_iff : ∀ (qs : QDict), keysDistinct qs = true ↔ qs.Pairwise (fun a b => a.1 ≠ b.1)
  | [] => by simp [keysDistinct]
  | e :: es => by
    simp only [keysDistinct, Bool.and_eq_true, Bool.not_eq_true', List.any_eq_false, beq_iff_eq,
      List.pairwise_cons, keysDistinct_iff es]
    constructor
    · rintro ⟨h1, h2⟩
      exact ⟨fun a ha h => h1 a ha h.symm, h2⟩
    · rintro ⟨h1, h2⟩
      exact ⟨fun a ha h => h1 a ha h.symm, h2⟩

theorem keysDistinct_perm {qs qs' : QDict} (hp : qs.Perm qs') (h : keysDistinct qs = true) :
    keysDistinct qs' = true := by
  rw [keysDistinct_iff] at h ⊢
  exact (hp.pairwise_iff (fun h => fun h' => h h'.symm)).mp h

theorem lookupExact_mem {k : Str} : ∀ {qs : QDict}, keysDistinct qs = true →
    ∀ vs, lookupExact k qs = some vs ↔ (k, vs) ∈ qs
  | [], _, vs => by simp [lookupExact]
  | e :: es, h, vs => by
    simp only [keysDistinct, Bool.and_eq_true, Bool.not_eq_true', List.any_eq_false, beq_iff_eq] at h
    unfold lookupExact
    by_cases hk : e.1 = k
    · simp only [hk, if_true, Option.some.injEq, List.mem_cons]
      constructor
      · intro h'; left; rw [← h', ← hk]
      · rintro (h' | h')
        · rw [← h']
        · exact absurd (show (k, vs).1 = e.1 from hk.symm) (h.1 (k, vs) h')
    · simp only [hk, if_false, List.mem_cons]
      rw [lookupExact_mem h.2 vs]
      constructor
      · intro h'; exact Or.inr h'
      · rintro (h' | h')
        · exact absurd (by rw [← h']) hk
        · exact h'

theorem lookupExact_perm {k : Str} {qs qs' : QDict} (hp : qs.Perm qs') (h : keysDistinct qs = true) :
    lookupExact k qs = lookupExact k qs' := by
  have h' := keysDistinct_perm hp h
  cases h1 : lookupExact k qs with
  | some vs =>
    have := (lookupExact_mem h vs).mp h1
    exact ((lookupExact_mem h' vs).mpr (hp.mem_iff.mp this)).symm
  | none =>
    cases h2 : lookupExact k qs' with
    | none => rfl
    | some vs =>
      have := (lookupExact_mem h' vs).mp h2
      rw [(lookupExact_mem h vs).mpr (hp.mem_iff.mpr this)] at h1
      cases h1

theorem any_perm {α} {p : α → Bool} {l l' : List α} (hp : l.Perm l') : l.any p = l'.any p := by
  rw [Bool.eq_iff_iff, List.any_eq_true, List.any_eq_true]
  exact ⟨fun ⟨x, hx, h⟩ => ⟨x, hp.mem_iff.mp hx, h⟩, fun ⟨x, hx, h⟩ => ⟨x, hp.mem_iff.mpr hx, h⟩⟩

theorem all_perm {α} {p : α → Bool} {l l' : List α} (hp : l.Perm l') : l.all p = l'.all p := by
  rw [Bool.eq_iff_iff, List.all_eq_true, List.all_eq_true]
  exact ⟨fun h x hx => h x (hp.mem_iff.mpr hx), fun h x hx => h x (hp.mem_iff.mp hx)⟩

theorem extractDomain_perm {qs qs' : QDict} (hp : qs.Perm qs') (h : extractDomain qs = true) :
    extractDomain qs' = true := by
  simp only [extractDomain, Bool.and_eq_true] at h ⊢
  exact ⟨keysDistinct_perm hp h.1, by rw [← all_perm hp]; exact h.2⟩

/-- the reference predicate does not look at the order of the dictionary -/
theorem okExtract_perm {qs qs' : QDict} (hp : qs.Perm qs') (hk : keysDistinct qs = true)
    (a : Option (Option Str × Option Str)) : okExtract qs a = okExtract qs' a := by
  cases a with
  | none => rfl
  | some ni =>
    obtain ⟨n, i⟩ := ni
    simp only [okExtract]
    rw [any_perm (p := fun e => recognised e.1) hp, okPick_perm hp, okPick_perm hp]
    unfold noteToken
    rw [lookupExact_perm hp hk]

/-- … and determines the answer when no two present keys share a rank -/
theorem okExtract_unique {qs : QDict} (h1 : ranksDistinct nameOrder qs = true) (h2 : ranksDistinct idOrder qs = true)
    {a b : Option (Option Str × Option Str)} (ha : okExtract qs a = true) (hb : okExtract qs b = true) : a = b := by
  cases a with
  | none => cases ha
  | some x =>
    cases b with
    | none => cases hb
    | some y =>
      obtain ⟨n, i⟩ := x
      obtain ⟨n', i'⟩ := y
      simp only [okExtract] at ha hb
      by_cases hr : qs.any (fun e => recognised e.1) = true
      · simp only [hr, if_true, Bool.and_eq_true] at ha hb
        rw [okPick_unique h1 ha.1 hb.1, okPick_unique h2 ha.2 hb.2]
      · simp only [hr, Bool.false_eq_true, if_false] at ha hb
        cases hn : noteToken qs with
        | none =>
          rw [hn] at ha hb
          simp only [Bool.and_eq_true, Option.isNone_iff_eq_none] at ha hb
          rw [ha.1, ha.2, hb.1, hb.2]
        | some t =>
          rw [hn] at ha hb
          simp only [Bool.and_eq_true, beq_iff_eq] at ha hb
          rw [ha.1, ha.2, hb.1, hb.2]

theorem ansQ_inj {α} {x y : R α} (hx : (ansQ x).isSome = true) (h : ansQ x = ansQ y) : x = y := by
  cases x with
  | error e => cases hx
  | ok a =>
    cases y with
    | error e => cases h
    | ok b => simp only [ansQ_ok, Option.some.injEq] at h; rw [h]

end BioCantor.Proofs.Qual
