/-
  C12 — exact look-ups (`dict.get` of the parser model) in the dictionaries the writer model builds, for keys the
  source's own qualifiers do not use.
-/
import BioCantor.Proofs.GbRoundTrip
namespace BioCantor.Proofs.Gb
open BioCantor BioCantor.Spec.Qual BioCantor.Spec.Gb BioCantor.Model.Gb

theorem qGet_dictDel_same (d : QDict) (k : Str) : qGet k (dictDel d k) = none := by
  induction d with
  | nil => rfl
  | cons e es ih =>
    have ih' : qGet k (List.filter (fun e => decide (e.1 ≠ k)) es) = none := ih
    show qGet k (List.filter (fun e => decide (e.1 ≠ k)) (e :: es)) = none
    rw [List.filter_cons]
    by_cases he : e.1 = k
    · have hd : decide (e.1 ≠ k) = false := by simp [he]
      rw [hd]; exact ih'
    · have hd : decide (e.1 ≠ k) = true := by simp [he]
      rw [hd]
      simp only [if_true, qGet, he, if_false]
      exact ih'

theorem qGet_dictAdd_same_new (d : QDict) (k v : Str) (h : qGet k d = none) : qGet k (dictAdd d k v) = some [v] := by
  induction d with
  | nil => simp [dictAdd, qGet]
  | cons e es ih =>
    by_cases he : e.1 = k
    · simp [qGet, he] at h
    · simp only [qGet, he, if_false] at h
      simp only [dictAdd, he, if_false, qGet]
      exact ih h

theorem qGet_dictAdd_other (d : QDict) (k k' v : Str) (h : k' ≠ k) : qGet k' (dictAdd d k v) = qGet k' d := by
  induction d with
  | nil => simp [dictAdd, qGet, Ne.symm h]
  | cons e es ih =>
    simp only [dictAdd]
    split
    · next he => simp [qGet, he, Ne.symm h]
    · next he =>
      by_cases hk : e.1 = k'
      · simp [qGet, hk]
      · simp [qGet, hk, ih]

theorem qGet_importQuals (q : QDict) (k : Str) (h : qGet k q = none) : qGet k (importQuals q) = none := by
  induction q with
  | nil => rfl
  | cons e es ih =>
    by_cases he : e.1 = k
    · simp [qGet, he] at h
    · simp only [qGet, he, if_false] at h
      simp only [importQuals, List.map_cons, qGet, he, if_false]
      exact ih h

/-- `addIds` does not touch keys it does not list -/
theorem qGet_addIds_other (ids : List (Str × Option Str)) (k : Str) (hk : ∀ kv ∈ ids, kv.1 ≠ k) :
    ∀ (d : QDict), qGet k (addIds d ids) = qGet k d := by
  unfold addIds
  induction ids with
  | nil => intro d; rfl
  | cons kv rest ih =>
    intro d
    simp only [List.foldl_cons]
    rw [ih (fun x hx => hk x (List.mem_cons_of_mem _ hx))]
    cases truthy kv.2 with
    | none => rfl
    | some v => exact qGet_dictAdd_other _ _ _ _ (Ne.symm (hk kv List.mem_cons_self))

/-- a key listed once: its value, when set, is the only value -/
theorem qGet_addIds_here (pre post : List (Str × Option Str)) (k : Str) (val : Option Str)
    (hpre : ∀ kv ∈ pre, kv.1 ≠ k) (hpost : ∀ kv ∈ post, kv.1 ≠ k) (d : QDict) (hd : qGet k d = none) :
    qGet k (addIds d (pre ++ (k, val) :: post)) = (truthy val).map fun v => [v] := by
  have hsplit : addIds d (pre ++ (k, val) :: post) = addIds (addIds (addIds d pre) [(k, val)]) post := by
    unfold addIds
    rw [List.foldl_append, List.foldl_cons, List.foldl_cons, List.foldl_nil]
  rw [hsplit, qGet_addIds_other post k hpost]
  have h1 : qGet k (addIds d pre) = none := by rw [qGet_addIds_other pre k hpre]; exact hd
  have hs : addIds (addIds d pre) [(k, val)] =
      match truthy val with | some v => dictAdd (addIds d pre) k v | none => addIds d pre := rfl
  rw [hs]
  cases truthy val with
  | none => simpa using h1
  | some v => simpa using qGet_dictAdd_same_new _ k v h1

/-! ### the source does not use the keys the format reserves -/

def reservedKeys : List Str :=
  ["gene_id".toList, "gene".toList, "locus_tag".toList, "transcript_id".toList, "protein_id".toList,
   "product".toList, "pseudo".toList, "codon_start".toList, "transcript_name".toList]

def NoReserved (q : QDict) : Prop := ∀ k ∈ reservedKeys, qGet k q = none

end BioCantor.Proofs.Gb

namespace BioCantor.Proofs.Gb
open BioCantor BioCantor.Spec.Qual BioCantor.Spec.Gb BioCantor.Model.Gb

theorem qGet_txBase_other' (q0 : QDict) (sym tag : Option Str) (k : Str) (h1 : k ≠ "gene".toList)
    (h2 : k ≠ "locus_tag".toList) : qGet k (txBaseQuals q0 sym tag) = qGet k q0 := by
  unfold txBaseQuals
  cases sym <;> cases tag <;> simp only [] <;>
    first
    | rfl
    | (rw [qGet_dictSet_other _ _ _ _ h2, qGet_dictSet_other _ _ _ _ h1])
    | (rw [qGet_dictSet_other _ _ _ _ h2])
    | (rw [qGet_dictSet_other _ _ _ _ h1])

theorem qGet_txBase_gene' (q0 : QDict) (sym tag : Option Str) :
    qGet "gene".toList (txBaseQuals q0 sym tag) = match sym with | some s => some [s] | none => qGet "gene".toList q0 := by
  unfold txBaseQuals
  cases sym <;> cases tag <;> simp only []
  · rw [qGet_dictSet_other _ _ _ _ (by decide)]
  · exact qGet_dictSet_same _ _ _
  · rw [qGet_dictSet_other _ _ _ _ (by decide)]; exact qGet_dictSet_same _ _ _

/-- `quals.get(k, [None])[0]` when the key holds at most the one value the writer put there -/
theorem firstOf_of_map (k : Str) (q : QDict) (o : Option Str) (h : qGet k q = o.map fun v => [v]) :
    firstOf k q = .ok o := by
  unfold firstOf
  rw [h]
  cases o <;> rfl

/-! ### the gene record -/

theorem geneExportQuals_eq (g : Gene) (q0 : QDict) (h : geneExportQuals g = .ok q0) :
    ∃ ty, q0 = addIds (importQuals g.quals)
      [("gene_id".toList, g.geneId), ("gene_name".toList, g.geneSymbol), ("gene_biotype".toList, some ty),
       ("locus_tag".toList, g.locusTag)] := by
  unfold geneExportQuals at h
  cases hb : biotypeQual g.geneType with
  | error e => simp [hb, bind, Except.bind] at h
  | ok ty =>
    simp only [hb, bind, Except.bind, pure, Except.pure, Except.ok.injEq] at h
    exact ⟨ty, h.symm⟩

theorem geneRecord_lookups (strand : Strand) (bounds : Blk) (q0 : QDict) (g : Gene) (h : geneExportQuals g = .ok q0)
    (hnr : NoReserved g.quals) (tag : Str) (htag : geneTagOf g = some tag) :
    firstOf "gene_id".toList (geneRecord strand bounds q0 g).quals = .ok (truthy g.geneId) ∧
    firstOf "gene".toList (geneRecord strand bounds q0 g).quals = .ok (geneSymbolOf g) ∧
    firstOf "locus_tag".toList (geneRecord strand bounds q0 g).quals = .ok (some tag) := by
  obtain ⟨ty, hq0⟩ := geneExportQuals_eq g q0 h
  have hq : (geneRecord strand bounds q0 g).quals = txBaseQuals q0 (geneSymbolOf g) (geneTagOf g) := rfl
  rw [hq]
  subst hq0
  refine ⟨?_, ?_, ?_⟩
  · apply firstOf_of_map
    rw [qGet_txBase_other' _ _ _ _ (by decide) (by decide)]
    exact qGet_addIds_here [] _ _ _ (by simp) (by
      intro kv hkv
      simp only [List.mem_cons, List.not_mem_nil, or_false] at hkv
      rcases hkv with h | h | h <;> (rw [h]; dsimp only; decide)) _
      (qGet_importQuals _ _ (hnr _ (by decide)))
  · apply firstOf_of_map
    rw [qGet_txBase_gene']
    cases geneSymbolOf g with
    | some s => rfl
    | none =>
      simp only [Option.map_none]
      rw [qGet_addIds_other _ _ (by
        intro kv hkv
        simp only [List.mem_cons, List.not_mem_nil, or_false] at hkv
        rcases hkv with h | h | h | h <;> (rw [h]; dsimp only; decide))]
      exact qGet_importQuals _ _ (hnr _ (by decide))
  · apply firstOf_of_map
    rw [htag]
    exact qGet_txBase_tag _ _ _

/-! ### the records of a transcript -/

theorem txExportQuals_eq (t : Tx) (q0 : QDict) (h : txExportQuals t = .ok q0) :
    ∃ ty, q0 = addIds (importQuals t.quals)
      [("transcript_id".toList, t.txId), ("transcript_name".toList, t.txSymbol),
       ("transcript_biotype".toList, some ty), ("protein_id".toList, t.proteinId)] := by
  unfold txExportQuals at h
  cases hb : biotypeQual t.txType with
  | error e => simp [hb, bind, Except.bind] at h
  | ok ty =>
    simp only [hb, bind, Except.bind, pure, Except.pure, Except.ok.injEq] at h
    exact ⟨ty, h.symm⟩

/-- look-ups in the dictionary every record of a transcript starts from -/
theorem txBase_lookups (t : Tx) (q0 : QDict) (h : txExportQuals t = .ok q0) (hnr : NoReserved t.quals)
    (sym tag : Option Str) :
    qGet "transcript_id".toList (txBaseQuals q0 sym tag) = (truthy t.txId).map (fun v => [v]) ∧
    qGet "protein_id".toList (txBaseQuals q0 sym tag) = (truthy t.proteinId).map (fun v => [v]) ∧
    qGet "product".toList (txBaseQuals q0 sym tag) = none ∧
    qGet "pseudo".toList (txBaseQuals q0 sym tag) = none ∧
    qGet "gene".toList (txBaseQuals q0 sym tag) = sym.map (fun v => [v]) ∧
    (∀ s, truthy t.txSymbol = some s → qGet "transcript_name".toList (txBaseQuals q0 sym tag) = some [s]) := by
  obtain ⟨ty, rfl⟩ := txExportQuals_eq t q0 h
  have himp : ∀ k ∈ reservedKeys, qGet k (importQuals t.quals) = none := fun k hk => qGet_importQuals _ _ (hnr k hk)
  refine ⟨?_, ?_, ?_, ?_, ?_, ?_⟩
  · rw [qGet_txBase_other' _ _ _ _ (by decide) (by decide)]
    exact qGet_addIds_here [] _ _ _ (by simp) (by
      intro kv hkv
      simp only [List.mem_cons, List.not_mem_nil, or_false] at hkv
      rcases hkv with h | h | h <;> (rw [h]; dsimp only; decide)) _ (himp _ (by decide))
  · rw [qGet_txBase_other' _ _ _ _ (by decide) (by decide)]
    exact qGet_addIds_here [("transcript_id".toList, t.txId), ("transcript_name".toList, t.txSymbol),
        ("transcript_biotype".toList, some ty)] [] _ _ (by
      intro kv hkv
      simp only [List.mem_cons, List.not_mem_nil, or_false] at hkv
      rcases hkv with h | h | h <;> (rw [h]; dsimp only; decide)) (by simp) _ (himp _ (by decide))
  · rw [qGet_txBase_other' _ _ _ _ (by decide) (by decide), qGet_addIds_other _ _ (by
      intro kv hkv
      simp only [List.mem_cons, List.not_mem_nil, or_false] at hkv
      rcases hkv with h | h | h | h <;> (rw [h]; dsimp only; decide))]
    exact himp _ (by decide)
  · rw [qGet_txBase_other' _ _ _ _ (by decide) (by decide), qGet_addIds_other _ _ (by
      intro kv hkv
      simp only [List.mem_cons, List.not_mem_nil, or_false] at hkv
      rcases hkv with h | h | h | h <;> (rw [h]; dsimp only; decide))]
    exact himp _ (by decide)
  · rw [qGet_txBase_gene']
    cases sym with
    | some s => rfl
    | none =>
      simp only [Option.map_none]
      rw [qGet_addIds_other _ _ (by
        intro kv hkv
        simp only [List.mem_cons, List.not_mem_nil, or_false] at hkv
        rcases hkv with h | h | h | h <;> (rw [h]; dsimp only; decide))]
      exact himp _ (by decide)
  · intro s hs
    rw [qGet_txBase_other' _ _ _ _ (by decide) (by decide)]
    have := qGet_addIds_here [("transcript_id".toList, t.txId)]
      [("transcript_biotype".toList, some ty), ("protein_id".toList, t.proteinId)] "transcript_name".toList t.txSymbol (by
        intro kv hkv
        simp only [List.mem_cons, List.not_mem_nil, or_false] at hkv
        rw [hkv]; dsimp only; decide) (by
        intro kv hkv
        simp only [List.mem_cons, List.not_mem_nil, or_false] at hkv
        rcases hkv with h | h <;> (rw [h]; dsimp only; decide)) _ (himp _ (by decide))
    rw [hs] at this
    exact this

end BioCantor.Proofs.Gb
