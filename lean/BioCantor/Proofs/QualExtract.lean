/-
  C18 helper lemmas, part 2: the loop of `extract_feature_name_id` (repaired comparison rule) keeps, for the
  name and the ID side separately, "the first value of a seen key of least enum value".
-/
import BioCantor.Proofs.QualBasics
namespace BioCantor.Proofs.Qual
open BioCantor BioCantor.Spec.Qual BioCantor.Model.Qual

/-- observable answer: `none` = raised -/
def ansQ {α} : R α → Option α
  | .ok a => some a
  | .error _ => none

@[simp] theorem ansQ_ok {α} (a : α) : ansQ (Except.ok a : R α) = some a := rfl

abbrev nameCls : Str → Option Int := cls nameRegexKeys Gen.featureNameQualifiers
abbrev idCls : Str → Option Int := cls idRegexKeys Gen.featureIdQualifiers

theorem reMatch_isSome {order keys : List Str} {table : List (Str × Int)} (hf : famOK order keys table = true)
    (q : Str) : reMatchKeys true keys q = (cls keys table q).isSome := by
  rw [cls_isSome hf, reMatch_full, fam_keys_iff hf]
  unfold rank
  by_cases hk : Spec.Qual.lowerStr q ∈ order
  · rw [List.contains_iff_mem.mpr hk]
    cases hi : indexIn (Spec.Qual.lowerStr q) order with
    | none => exact absurd hk (indexIn_none.mp hi)
    | some i => rfl
  · rw [indexIn_none.mpr hk]
    cases h : order.contains (Spec.Qual.lowerStr q)
    · rfl
    · exact absurd (List.contains_iff_mem.mp h) hk

/-- a key of the name family is not a key of the ID family -/
theorem name_not_id {q : Str} {p : Int} (h : nameCls q = some p) : idCls q = none := by
  rw [cls_none_iff idFamOK]
  have h' : cls nameRegexKeys Gen.featureNameQualifiers q = some p := h
  have h1 : (rank nameOrder q).isSome = true := by rw [← cls_isSome nameFamOK, h']; rfl
  unfold rank at h1 ⊢
  cases hi : indexIn (Spec.Qual.lowerStr q) nameOrder with
  | none => rw [hi] at h1; cases h1
  | some i =>
    have hk := indexIn_some_mem hi
    have hd := fams_disjoint
    simp only [List.all_eq_true] at hd
    have := hd _ hk
    rw [indexIn_none]
    intro hc
    rw [List.contains_iff_mem.mpr hc] at this
    cases this

/-- what one side (name or ID) of the loop state means after the entries `S` have been processed -/
def InvSide (c : Str → Option Int) (S : QDict) (val : Option Str) (key : Option Int) : Prop :=
  match key with
  | none => val = none ∧ ∀ e ∈ S, c e.1 = none
  | some p => ∃ e ∈ S, c e.1 = some p ∧ e.2.head? = val ∧ val.isSome = true ∧
                ∀ e' ∈ S, ∀ p', c e'.1 = some p' → p ≤ p'

theorem side_skip {c : Str → Option Int} {S : QDict} {val : Option Str} {key : Option Int} {e : Str × List Str}
    (h : InvSide c S val key) (he : c e.1 = none) : InvSide c (S ++ [e]) val key := by
  unfold InvSide at h ⊢
  cases key with
  | none =>
    refine ⟨h.1, fun e' he' => ?_⟩
    rcases List.mem_append.mp he' with h' | h'
    · exact h.2 e' h'
    · rw [List.mem_singleton.mp h']; exact he
  | some p =>
    obtain ⟨w, hw, h1, h2, h3, h4⟩ := h
    refine ⟨w, List.mem_append_left _ hw, h1, h2, h3, fun e' he' p' hp' => ?_⟩
    rcases List.mem_append.mp he' with h' | h'
    · exact h4 e' h' p' hp'
    · rw [List.mem_singleton.mp h', he] at hp'; cases hp'

theorem side_update {c : Str → Option Int} {S : QDict} {val : Option Str} {key : Option Int}
    {k : Str} {v : Str} {vs : List Str} {p : Int}
    (h : InvSide c S val key) (he : c k = some p) :
    InvSide c (S ++ [(k, v :: vs)])
      (if better Rule.repaired key p then some v else val)
      (if better Rule.repaired key p then some p else key) := by
  unfold InvSide at h
  cases key with
  | none =>
    have hb : better Rule.repaired none p = true := rfl
    rw [hb]
    simp only [if_true]
    unfold InvSide
    refine ⟨(k, v :: vs), List.mem_append_right _ (List.mem_singleton.mpr rfl), he, rfl, rfl, fun e' he' p' hp' => ?_⟩
    rcases List.mem_append.mp he' with h' | h'
    · rw [h.2 e' h'] at hp'; cases hp'
    · rw [List.mem_singleton.mp h'] at hp'
      rw [he] at hp'; cases hp'; exact Int.le_refl _
  | some q =>
    obtain ⟨w, hw, h1, h2, h3, h4⟩ := h
    have hb : better Rule.repaired (some q) p = decide (p < q) := by
      simp [better, unset, Rule.repaired]
    rw [hb]
    by_cases hlt : p < q
    · simp only [hlt, decide_true, if_true]
      unfold InvSide
      refine ⟨(k, v :: vs), List.mem_append_right _ (List.mem_singleton.mpr rfl), he, rfl, rfl, fun e' he' p' hp' => ?_⟩
      rcases List.mem_append.mp he' with h' | h'
      · have := h4 e' h' p' hp'; omega
      · rw [List.mem_singleton.mp h'] at hp'
        rw [he] at hp'; cases hp'; exact Int.le_refl _
    · simp only [hlt, decide_false, Bool.false_eq_true, if_false]
      unfold InvSide
      refine ⟨w, List.mem_append_left _ hw, h1, h2, h3, fun e' he' p' hp' => ?_⟩
      rcases List.mem_append.mp he' with h' | h'
      · exact h4 e' h' p' hp'
      · rw [List.mem_singleton.mp h'] at hp'
        rw [he] at hp'; cases hp'; omega

structure Inv (S : QDict) (st : St) : Prop where
  name : InvSide nameCls S st.name st.key
  id : InvSide idCls S st.id st.idKey

/-- recognised keys carry at least one value (what `vals[0]` needs) -/
def HasVals (qs : QDict) : Prop := ∀ e ∈ qs, (nameCls e.1).isSome = true ∨ (idCls e.1).isSome = true → e.2 ≠ []

/-- with `fullmatch` + the membership guard a branch is taken exactly when the key is classified, never raising -/
theorem branchHit_full (r : Rule) (hr : r.fullMatch = true) (keys : List Str) (table : List (Str × Int)) (q : Str) :
    branchHit r keys table q = .ok (cls keys table q) := by
  unfold branchHit cls
  rw [hr]
  by_cases h : reMatchKeys true keys q = true
  · simp only [h, if_true]
    cases List.lookup (upperStr q) table <;> rfl
  · simp only [h, Bool.false_eq_true, if_false]; rfl

/-- one loop iteration in terms of the classification -/
def stepCls (r : Rule) (st : St) (e : Str × List Str) : R St :=
  match nameCls e.1 with
  | some this =>
    if better r st.key this then
      match e.2 with
      | [] => throw .indexError
      | v :: _ => pure { st with name := some v, key := some this }
    else pure st
  | none =>
    match idCls e.1 with
    | some this =>
      if better r st.idKey this then
        match e.2 with
        | [] => throw .indexError
        | v :: _ => pure { st with id := some v, idKey := some this }
      else pure st
    | none => pure st

theorem step_eq_stepCls (r : Rule) (hr : r.fullMatch = true) (st : St) (e : Str × List Str) :
    step r st e = stepCls r st e := by
  unfold step stepCls
  rw [branchHit_full r hr, branchHit_full r hr]
  simp only [bind, Except.bind]
  rfl

theorem step_inv {S : QDict} {st : St} {e : Str × List Str} (h : Inv S st)
    (hv : (nameCls e.1).isSome = true ∨ (idCls e.1).isSome = true → e.2 ≠ []) :
    ∃ st', step Rule.repaired st e = .ok st' ∧ Inv (S ++ [e]) st' := by
  rw [step_eq_stepCls Rule.repaired rfl]
  obtain ⟨k, vals⟩ := e
  unfold stepCls
  cases hn : nameCls k with
  | some p =>
    simp only
    cases vals with
    | nil => exact absurd rfl (hv (Or.inl (by rw [hn]; rfl)))
    | cons v vs =>
      have hu := side_update (c := nameCls) (S := S) (k := k) (v := v) (vs := vs) h.name hn
      have hs := side_skip (e := (k, v :: vs)) h.id (name_not_id hn)
      by_cases hb : better Rule.repaired st.key p = true
      · rw [if_pos hb]
        refine ⟨_, rfl, ⟨?_, hs⟩⟩
        simpa [hb] using hu
      · rw [if_neg hb]
        refine ⟨_, rfl, ⟨?_, hs⟩⟩
        simpa [hb] using hu
  | none =>
    simp only
    cases hi : idCls k with
    | some p =>
      simp only
      cases vals with
      | nil => exact absurd rfl (hv (Or.inr (by rw [hi]; rfl)))
      | cons v vs =>
        have hu := side_update (c := idCls) (S := S) (k := k) (v := v) (vs := vs) h.id hi
        have hs := side_skip (e := (k, v :: vs)) h.name hn
        by_cases hb : better Rule.repaired st.idKey p = true
        · rw [if_pos hb]
          refine ⟨_, rfl, ⟨hs, ?_⟩⟩
          simpa [hb] using hu
        · rw [if_neg hb]
          refine ⟨_, rfl, ⟨hs, ?_⟩⟩
          simpa [hb] using hu
    | none =>
      exact ⟨st, rfl, ⟨side_skip h.name hn, side_skip h.id hi⟩⟩

theorem loop_inv : ∀ (qs S : QDict) (st : St), Inv S st → HasVals qs →
    ∃ st', loop Rule.repaired st qs = .ok st' ∧ Inv (S ++ qs) st'
  | [], S, st, h, _ => ⟨st, rfl, by simpa using h⟩
  | e :: es, S, st, h, hv => by
    obtain ⟨st1, h1, h2⟩ := step_inv h (hv e (List.mem_cons_self))
    obtain ⟨st2, h3, h4⟩ := loop_inv es (S ++ [e]) st1 h2 (fun e' he' => hv e' (List.mem_cons_of_mem _ he'))
    refine ⟨st2, ?_, by simpa using h4⟩
    simp only [loop, h1]
    exact h3

theorem inv_init : Inv [] St.init :=
  ⟨⟨rfl, fun _ h => nomatch h⟩, ⟨rfl, fun _ h => nomatch h⟩⟩

end BioCantor.Proofs.Qual
