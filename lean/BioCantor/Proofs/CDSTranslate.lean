/-
  C05-T3: the translation loop of `CDSInterval.translate` (tables regenerated from constants.py / codon.py)
  is the standard-code translation of the codon list, with the start-codon rule of the translation table,
  the `strict` refusal and the truncation at the first in-frame stop.
-/
import BioCantor.Model.CDS
import BioCantor.Spec.ReadingFrame
import BioCantor.Proofs.Common
namespace BioCantor.Proofs
open BioCantor BioCantor.Model BioCantor.Spec

def fourBases : List Char := ['T', 'C', 'A', 'G']
def allCodons : List (List Char) :=
  fourBases.flatMap (fun a => fourBases.flatMap (fun b => fourBases.map (fun c => [a, b, c])))

/-! ### finite checks over the generated tables -/

set_option maxRecDepth 100000 in
theorem gencode_on_all : allCodons.all (fun v => Gen.gencode.lookup v == standardCode v) = true := by
  decide +kernel

set_option maxRecDepth 100000 in
theorem gencode_keys : Gen.gencode.all (fun e => allCodons.contains e.1) = true := by decide +kernel

set_option maxRecDepth 100000 in
theorem stop_on_all : allCodons.all (fun v => isStopCodon v == isStop v) = true := by decide +kernel

set_option maxRecDepth 100000 in
theorem stop_keys : (match Gen.aacodons.lookup '*' with
    | some l => l.all (fun v => allCodons.contains v)
    | none => true) = true := by decide +kernel

set_option maxRecDepth 100000 in
theorem extended_sound : Gen.extendedGencode.all (fun e => soundAA e.1 e.2) = true := by decide +kernel

set_option maxRecDepth 100000 in
theorem start_tables :
    [(0 : Nat), 1, 11].all (fun t =>
      match Gen.startCodons.lookup (t : Int), startCodonsOf t with
      | some g, some s => g.all (fun v => s.contains v) && s.all (fun v => g.contains v)
      | _, _ => false) = true := by decide +kernel

theorem atg_translates : codonTranslate "ATG".toList true = 'M' := by decide +kernel

set_option maxRecDepth 100000 in
theorem alphabet_upper : Gen.codonAlphabet.all (fun ch => ch.toUpper == ch) = true := by decide +kernel

/-! ### from the finite checks to statements about every codon -/

theorem lookup_mem {α β} [BEq α] [LawfulBEq α] (k : α) (v : β) : ∀ (t : List (α × β)), t.lookup k = some v → (k, v) ∈ t
  | [], h => by simp [List.lookup] at h
  | (k', v') :: rest, h => by
    simp only [List.lookup] at h
    split at h
    · rename_i heq
      have := eq_of_beq heq
      simp only [Option.some.injEq] at h
      subst this h
      simp
    · exact List.mem_cons_of_mem _ (lookup_mem k v rest h)

theorem baseIdx_mem (ch : Char) (i : Nat) (h : baseIdx ch = some i) : ch ∈ fourBases := by
  unfold baseIdx at h
  split at h <;> simp [fourBases] at * 

theorem standardCode_mem (v : List Char) (a : Char) (h : standardCode v = some a) : v ∈ allCodons := by
  match v, h with
  | [x, y, z], h =>
    simp only [standardCode, bind, Option.bind] at h
    cases hx : baseIdx x with
    | none => simp [hx] at h
    | some i =>
      cases hy : baseIdx y with
      | none => simp [hx, hy] at h
      | some j =>
        cases hz : baseIdx z with
        | none => simp [hx, hy, hz] at h
        | some k =>
          have mx := baseIdx_mem x i hx
          have my := baseIdx_mem y j hy
          have mz := baseIdx_mem z k hz
          simp only [allCodons, List.mem_flatMap, List.mem_map]
          exact ⟨x, mx, y, my, z, mz, rfl⟩

/-- the generated `gencode` dict IS the NCBI standard table, on every string -/
theorem gencode_eq_standard (v : List Char) : Gen.gencode.lookup v = standardCode v := by
  by_cases hv : v ∈ allCodons
  · have := List.all_eq_true.mp gencode_on_all v hv
    exact eq_of_beq this
  · have h1 : standardCode v = none := by
      cases h : standardCode v with
      | none => rfl
      | some a => exact absurd (standardCode_mem v a h) hv
    have h2 : Gen.gencode.lookup v = none := by
      cases h : Gen.gencode.lookup v with
      | none => rfl
      | some a =>
        have hm := lookup_mem v a _ h
        have := List.all_eq_true.mp gencode_keys (v, a) hm
        simp only [List.contains_iff_mem] at this
        exact absurd this hv
    rw [h1, h2]

theorem isStopCodon_eq (v : List Char) : isStopCodon v = isStop v := by
  by_cases hv : v ∈ allCodons
  · have := List.all_eq_true.mp stop_on_all v hv
    exact eq_of_beq this
  · have h1 : isStop v = false := by
      unfold isStop
      cases h : standardCode v with
      | none => rfl
      | some a => exact absurd (standardCode_mem v a h) hv
    have h2 : isStopCodon v = false := by
      unfold isStopCodon
      have hk := stop_keys
      cases hl : Gen.aacodons.lookup '*' with
      | none => rfl
      | some l =>
        rw [hl] at hk
        simp only at hk
        cases hc : l.contains v with
        | false => show l.contains v = false; exact hc
        | true =>
          have hm : v ∈ l := by simpa using hc
          have := List.all_eq_true.mp hk v hm
          simp only [List.contains_iff_mem] at this
          exact absurd this hv
    rw [h1, h2]

theorem isStrictCodon_eq (v : List Char) : isStrictCodon v = (standardCode v).isSome := by
  unfold isStrictCodon; rw [gencode_eq_standard]

theorem isStartCodonIn_eq (v : List Char) (t : Nat) (starts : List (List Char)) (ht : startCodonsOf t = some starts) :
    isStartCodonIn v (t : Int) = .ok (decide (v ∈ starts)) := by
  have htab : t = 0 ∨ t = 1 ∨ t = 11 := by
    unfold startCodonsOf at ht
    split at ht <;> simp_all
  have hall := List.all_eq_true.mp start_tables t (by rcases htab with h | h | h <;> simp [h])
  unfold isStartCodonIn
  cases hg : Gen.startCodons.lookup (t : Int) with
  | none => rw [hg, ht] at hall; simp at hall
  | some g =>
    rw [hg, ht] at hall
    simp only [Bool.and_eq_true, List.all_eq_true, List.contains_iff_mem] at hall
    simp only [pure, Except.pure, Except.ok.injEq]
    by_cases hm : v ∈ starts
    · simp only [hm, decide_true]
      have := hall.2 v hm
      simpa using this
    · simp only [hm, decide_false]
      cases hc : g.contains v with
      | false => rfl
      | true =>
        have : v ∈ g := by simpa using hc
        exact absurd (hall.1 v this) hm

/-- a chunk of the upper-cased coding sequence that `Codon(...)` accepts -/
def CodonOK (cod : List Char) : Prop := cod.length = 3 ∧ ∀ ch ∈ cod, ch ∈ Gen.codonAlphabet

theorem mkCodon_ok (cod : List Char) (h : CodonOK cod) : mkCodon cod = .ok cod := by
  obtain ⟨hl, hc⟩ := h
  have hup : upperStr cod = cod := by
    unfold upperStr
    conv => rhs; rw [← List.map_id cod]
    apply List.map_congr_left
    intro ch hch
    have := List.all_eq_true.mp alphabet_upper ch (hc ch hch)
    simpa using this
  unfold mkCodon
  simp only [hup, hl, ne_eq, not_true_eq_false, if_false]
  have : (cod.any fun ch => !Gen.codonAlphabet.contains ch) = false := by
    rw [List.any_eq_false]
    intro ch hch
    have := hc ch hch
    simp [this]
  rw [this]
  simp [pure, Except.pure]

/-- the amino-acid letter the loop appends for one codon is acceptable to the spec -/
theorem codonTranslate_ok (starts : List (List Char)) (i : Nat) (cod : List Char) (strict : Bool)
    (hns : ¬ (i = 0 ∧ cod ∈ starts)) (hs : strict = true → (standardCode cod).isSome = true) :
    okAA starts i cod (codonTranslate cod strict) = true := by
  unfold okAA codonTranslate
  simp only [hns, if_false]
  rw [gencode_eq_standard]
  cases hsc : standardCode cod with
  | some a => simp
  | none =>
    simp only
    cases strict with
    | true => rw [hsc] at hs; simp at hs
    | false =>
      simp only [Bool.not_false, if_true]
      cases he : Gen.extendedGencode.lookup cod with
      | none => simp
      | some a =>
        have hm := lookup_mem cod a _ he
        have := List.all_eq_true.mp extended_sound (cod, a) hm
        simp [this]

/-- the codons the translation looks at -/
def usedOf (trunc : Bool) (cods : List (List Char)) : List (List Char) :=
  if trunc then uptoFirstStop cods else cods

theorem usedOf_cons (trunc : Bool) (c : List Char) (cs : List (List Char)) :
    usedOf trunc (c :: cs) = if trunc = true ∧ isStop c = true then [c] else c :: usedOf trunc cs := by
  cases trunc
  · simp [usedOf]
  · simp only [usedOf, if_true, uptoFirstStop, true_and]

/-- **C05-T3** on codon lists -/
theorem translateLoop_spec (trunc strict : Bool) (t : Nat) (starts : List (List Char))
    (ht : startCodonsOf t = some starts) :
    ∀ (cods : List (List Char)) (i : Nat), (∀ c ∈ cods, CodonOK c) →
      (strict = true ∧ strictRefuses starts i (usedOf trunc cods) = true →
          ans (translateLoop trunc (t : Int) strict i cods) = none) ∧
      (¬ (strict = true ∧ strictRefuses starts i (usedOf trunc cods) = true) →
          ∃ prot, translateLoop trunc (t : Int) strict i cods = .ok prot ∧
            okProteinFrom starts i (usedOf trunc cods) prot = true)
  | [], i, _ => by
    constructor
    · intro h; simp [usedOf, uptoFirstStop, strictRefuses] at h
    · intro _; exact ⟨[], rfl, by simp [usedOf, uptoFirstStop, okProteinFrom]⟩
  | ch :: rest, i, hok => by
    have hch := hok ch (by simp)
    have hrest : ∀ c ∈ rest, CodonOK c := fun c hc => hok c (by simp [hc])
    have ih := translateLoop_spec trunc strict t starts ht rest (i + 1) hrest
    have hmk := mkCodon_ok ch hch
    -- is this the start codon?
    have hstart : (if i = 0 then isStartCodonIn ch (t : Int) else (pure false : R Bool)) =
        .ok (decide (i = 0 ∧ ch ∈ starts)) := by
      by_cases hi : i = 0
      · simp [hi, isStartCodonIn_eq ch t starts ht]
      · simp [hi, pure, Except.pure]
    rw [usedOf_cons]
    unfold translateLoop
    simp only [hmk, hstart, bind, Except.bind]
    rw [isStopCodon_eq ch]
    by_cases hS : i = 0 ∧ ch ∈ starts
    · -- start codon in first place: 'M'
      obtain ⟨hi, hmem⟩ := hS
      subst hi
      simp only [hmem, and_self, decide_true, if_true, atg_translates, pure, Except.pure]
      have hhead : okAA starts 0 ch 'M' = true := by unfold okAA; simp [hmem]
      have hsr : ∀ tl, strictRefuses starts 0 (ch :: tl) = strictRefuses starts (0 + 1) tl := by
        intro tl; simp [strictRefuses, hmem]
      by_cases hT : trunc = true ∧ isStop ch = true
      · simp only [hT, and_self, if_true]
        by_cases hre : rest.isEmpty = true
        · have : rest = [] := by simpa using hre
          subst this
          simp only [List.isEmpty_nil, not_true_eq_false, and_false, if_false, translateLoop, pure, Except.pure]
          constructor
          · intro h; simp [strictRefuses, hmem] at h
          · intro _; exact ⟨['M'], rfl, by simp [okProteinFrom, hhead]⟩
        · simp only [hre, not_false_eq_true, and_self, if_true]
          constructor
          · intro h; simp [strictRefuses, hmem] at h
          · intro _; exact ⟨['M'], rfl, by simp [okProteinFrom, hhead]⟩
      · have hcond : ¬ (trunc = true ∧ isStop ch = true ∧ ¬ rest.isEmpty = true) := by
          intro h; exact hT ⟨h.1, h.2.1⟩
        simp only [hT, if_false, hcond]
        constructor
        · intro h
          have h2 : strictRefuses starts (0 + 1) (usedOf trunc rest) = true := by
            have := h.2; rw [hsr] at this; exact this
          have := ih.1 ⟨h.1, h2⟩
          cases hr : translateLoop trunc (t : Int) strict (0 + 1) rest with
          | error e => simp
          | ok v => rw [hr] at this; simp at this
        · intro h
          have h2 : ¬ (strict = true ∧ strictRefuses starts (0 + 1) (usedOf trunc rest) = true) := by
            intro hh; apply h; refine ⟨hh.1, ?_⟩
            rw [hsr]; exact hh.2
          obtain ⟨prot, hp, hq⟩ := ih.2 h2
          exact ⟨'M' :: prot, by simp [hp], by simp [okProteinFrom, hhead, hq]⟩
    · -- ordinary codon
      simp only [hS, decide_false, Bool.false_eq_true, if_false]
      by_cases hbad : strict = true ∧ ¬ isStrictCodon ch = true
      · -- strict refusal
        simp only [hbad, not_false_eq_true, and_self, if_true, throw, throwThe, MonadExceptOf.throw]
        have hnone : (standardCode ch).isNone = true := by
          have := hbad.2; rw [isStrictCodon_eq] at this
          cases h : standardCode ch <;> simp_all
        have href : ∀ tl, strictRefuses starts i (ch :: tl) = true := by
          intro tl; simp [strictRefuses, hS, hnone]
        constructor
        · intro _; rfl
        · intro h; exfalso; apply h
          constructor
          · first | exact hbad.1 | trivial
          · split <;> exact href _
      · simp only [hbad, if_false, pure, Except.pure]
        have hsome : strict = true → (standardCode ch).isSome = true := by
          intro hs
          have : isStrictCodon ch = true := by
            by_cases h : isStrictCodon ch = true
            · exact h
            · exact absurd ⟨hs, h⟩ hbad
          rw [isStrictCodon_eq] at this; exact this
        have hhead := codonTranslate_ok starts i ch strict hS hsome
        have hnr : (!(decide (i = 0 ∧ ch ∈ starts)) && (standardCode ch).isNone) = false ∨ strict = false := by
          cases hst : strict with
          | false => exact Or.inr rfl
          | true =>
            left
            have := hsome hst
            cases h : standardCode ch <;> simp_all
        by_cases hT : trunc = true ∧ isStop ch = true
        · simp only [hT, and_self, if_true]
          have hfin : (strict = true ∧ strictRefuses starts i [ch] = true → False) := by
            intro h
            rcases hnr with h1 | h1
            · have := h.2; simp only [strictRefuses, h1, Bool.false_or] at this; simp at this
            · rw [h1] at h; simp at h
          by_cases hre : rest.isEmpty = true
          · have : rest = [] := by simpa using hre
            subst this
            simp only [List.isEmpty_nil, not_true_eq_false, and_false, if_false, translateLoop, pure, Except.pure]
            constructor
            · intro h; exact absurd h (fun hh => hfin hh)
            · intro _; exact ⟨[codonTranslate ch strict], rfl, by simp [okProteinFrom, hhead]⟩
          · simp only [hre, not_false_eq_true, and_self, if_true]
            constructor
            · intro h; exact absurd h (fun hh => hfin hh)
            · intro _; exact ⟨[codonTranslate ch strict], rfl, by simp [okProteinFrom, hhead]⟩
        · have hcond : ¬ (trunc = true ∧ isStop ch = true ∧ ¬ rest.isEmpty = true) := by
            intro h; exact hT ⟨h.1, h.2.1⟩
          simp only [hT, if_false, hcond]
          constructor
          · intro h
            have h2 : strictRefuses starts (i + 1) (usedOf trunc rest) = true := by
              rcases hnr with h1 | h1
              · have := h.2; simp only [strictRefuses, h1, Bool.false_or] at this; exact this
              · rw [h1] at h; simp at h
            have := ih.1 ⟨h.1, h2⟩
            cases hr : translateLoop trunc (t : Int) strict (i + 1) rest with
            | error e => simp
            | ok v => rw [hr] at this; simp at this
          · intro h
            have h2 : ¬ (strict = true ∧ strictRefuses starts (i + 1) (usedOf trunc rest) = true) := by
              intro hh; apply h; refine ⟨hh.1, ?_⟩
              simp only [strictRefuses, hh.2, Bool.or_true]
            obtain ⟨prot, hp, hq⟩ := ih.2 h2
            exact ⟨codonTranslate ch strict :: prot, by simp [hp], by simp [okProteinFrom, hhead, hq]⟩

/-- the clause of the spec, as the spec driver evaluates it -/
theorem translateLoop_okTranslateCodons (trunc strict : Bool) (t : Nat) (ht : t = 0 ∨ t = 1 ∨ t = 11)
    (cods : List (List Char)) (hok : ∀ c ∈ cods, CodonOK c) :
    okTranslateCodons cods trunc t strict (ans (translateLoop trunc (t : Int) strict 0 cods)) = true := by
  unfold okTranslateCodons
  cases hs : startCodonsOf t with
  | none => rcases ht with h | h | h <;> simp [h, startCodonsOf] at hs
  | some starts =>
    have := translateLoop_spec trunc strict t starts hs cods 0 hok
    simp only
    by_cases hr : strict = true ∧ strictRefuses starts 0 (usedOf trunc cods) = true
    · have h1 := this.1 hr
      have hr' : strict = true ∧ strictRefuses starts 0 (if trunc = true then uptoFirstStop cods else cods) = true := hr
      rw [if_pos hr', h1]; rfl
    · obtain ⟨prot, hp, hq⟩ := this.2 hr
      have hr' : ¬ (strict = true ∧ strictRefuses starts 0 (if trunc = true then uptoFirstStop cods else cods) = true) := hr
      simp only [hr', if_false, hp, ans_ok]
      exact hq

end BioCantor.Proofs
