/-
  Towards C05-T2: what `relative_interval_to_parent_location` returns for a cleaned relative block (a stretch
  inside one exon), and the order / within-exon invariants of the frame-cleaning loop.
-/
import BioCantor.Proofs.CDSKept
namespace BioCantor.Proofs
open BioCantor BioCantor.Model BioCantor.Spec

theorem relWalk_skip_prefix (st : Strand) : ∀ (A rest : List Blk) (s n : Nat), blocksLen A ≤ s →
    relWalk st (A ++ rest) s n = relWalk st rest (s - blocksLen A) n
  | [], rest, s, n, _ => by simp [blocksLen]
  | a :: A, rest, s, n, h => by
    simp only [blocksLen] at h
    rw [List.cons_append, relWalk_skip st a (A ++ rest) s n (by omega),
      relWalk_skip_prefix st A rest (s - a.len) n (by omega)]
    simp only [blocksLen]
    congr 1; omega

theorem optimizeLoc_single (x : Blk) (st : Strand) (hx : x.1 < x.2) :
    optimizeLoc true ⟨[x], st⟩ = .ok (.single x st) := by
  have hne : x.2 - x.1 ≠ 0 := by omega
  simp [optimizeLoc, combineLoop, hne, toSingleIfOne, pure, Except.pure]

theorem strandRelativeTo_plus (st : Strand) (hst : st = .plus ∨ st = .minus) : strandRelativeTo .plus st = st := by
  rcases hst with h | h <;> subst h <;> simp [strandRelativeTo]

/-- a stretch `[s, t)` of CDS-relative coordinates inside the exon `e` maps to ONE block: the sub-block of `e` -/
theorem compoundRel_within (bs : List Blk) (st : Strand) (hst : st = .plus ∨ st = .minus)
    (A : List Blk) (e : Blk) (B : List Blk) (hsplit : scanOrder st bs = A ++ e :: B) (s t : Nat)
    (h1 : blocksLen A ≤ s) (h2 : s < t) (h3 : t ≤ blocksLen A + e.len) :
    compoundRelInterval ⟨bs, st⟩ (s : Int) (t : Int) .plus =
      .ok (.single (subBlk st e (s - blocksLen A) (t - blocksLen A)) st) := by
  have hlen : blocksLen bs = blocksLen A + (e.len + blocksLen B) := by
    rw [← blocksLen_scanOrder st bs, hsplit, blocksLen_append]; simp [blocksLen]
  have hsb : scanBlocks ⟨bs, st⟩ = .ok (A ++ e :: B) := by
    rw [← hsplit]
    unfold scanBlocks assertDirectional scanOrder
    rcases hst with h | h <;> simp [h, bind, Except.bind, pure, Except.pure]
  unfold compoundRelInterval
  have c1 : ¬ ((s : Int) > (t : Int)) := by omega
  have c2 : ¬ ((s : Int) < 0) := by omega
  have c3 : ¬ ((t : Int) > ((Loc.len ⟨bs, st⟩ : Nat) : Int)) := by simp only [Loc.len]; omega
  have c4 : ¬ ((s : Int) = (t : Int)) := by omega
  have t1 : ((s : Int)).toNat = s := by simp
  have t2 : ((t : Int) - (s : Int)).toNat = t - s := by omega
  rw [if_neg c1, if_neg c2, if_neg c3, if_neg c4, hsb]
  simp only [bind, Except.bind, t1, t2]
  rw [relWalk_skip_prefix st A (e :: B) s (t - s) h1,
    relWalk_last st e B (s - blocksLen A) (t - s) (by omega) (by omega)]
  have hsub : s - blocksLen A + (t - s) = t - blocksLen A := by omega
  rw [hsub]
  generalize hx : subBlk st e (s - blocksLen A) (t - blocksLen A) = x
  have hxpos : x.1 < x.2 := by
    rw [← hx]
    exact (subBlk_inside st e (s - blocksLen A) (t - blocksLen A) (by omega) (by omega)).2.1
  have hmk : mkCompoundLoc [x] st = .ok ⟨[x], st⟩ := by
    rw [mkCompoundLoc_ok st (by simp) (by intro b hb; simp at hb; subst hb; omega)]
    simp [sortBlocks]
  rw [hmk]
  simp only [optimizeLoc_single x st hxpos, strandRelativeTo_plus st hst, ne_eq, not_true_eq_false, if_false]
  rfl

/-! ### order and within-exon invariants of the cleaning loop -/

/-- entries (most recent first) are ordered: each ends at or before the next one (or `hi`) starts -/
def Chain : Int → List (Int × Int) → Prop
  | _, [] => True
  | hi, p :: rest => p.2 ≤ hi ∧ Chain p.1 rest

theorem Chain.mono : ∀ {cl : List (Int × Int)} {hi hi' : Int}, hi ≤ hi' → Chain hi cl → Chain hi' cl
  | [], _, _, _, _ => trivial
  | _ :: _, _, _, h, hc => ⟨Int.le_trans hc.1 h, hc.2⟩

/-- every entry lies inside one of the relative exon ranges `rs` -/
def AllWithin (rs cl : List (Int × Int)) : Prop := ∀ p ∈ cl, ∃ r ∈ rs, r.1 ≤ p.1 ∧ p.2 ≤ r.2

theorem AllWithin.mono {rs rs' cl : List (Int × Int)} (h : ∀ r ∈ rs, r ∈ rs') (hw : AllWithin rs cl) :
    AllWithin rs' cl := by
  intro p hp
  obtain ⟨r, hr, h1⟩ := hw p hp
  exact ⟨r, h r hr, h1⟩

theorem trim_inv (hi shift : Int) (hs : 0 ≤ shift) (rs cl : List (Int × Int))
    (hc : Chain hi cl) (hw : AllWithin rs cl) :
    Chain hi (trimLastEnd shift cl) ∧ AllWithin rs (trimLastEnd shift cl) := by
  cases cl with
  | nil => exact ⟨trivial, hw⟩
  | cons p rest =>
    refine ⟨⟨by have := hc.1; simp only; omega, hc.2⟩, ?_⟩
    intro q hq
    simp only [trimLastEnd, List.mem_cons] at hq
    rcases hq with rfl | hq
    · obtain ⟨r, hr, h1, h2⟩ := hw p (by simp)
      exact ⟨r, hr, h1, by simp only; omega⟩
    · exact hw q (by simp [hq])

theorem cleanStep_inv (st st' : CleanSt) (off n : Nat) (fr : CDSFrame) (hfr : 0 ≤ fr.value)
    (rs : List (Int × Int))
    (h : cleanStep st ((off : Int), ((off + n : Nat) : Int)) fr = .ok st')
    (hc : Chain off st.cleanedRev) (hw : AllWithin rs st.cleanedRev) :
    Chain ((off + n : Nat) : Int) st'.cleanedRev ∧
      AllWithin (((off : Int), ((off + n : Nat) : Int)) :: rs) st'.cleanedRev := by
  unfold cleanStep at h
  simp only at h
  generalize hcl : (if st.nextFrame ≠ fr ∧ cleanedSum st.cleanedRev % 3 > 0 then
      trimLastEnd (cleanedSum st.cleanedRev % 3) st.cleanedRev else st.cleanedRev) = cl at h
  have hinv : Chain off cl ∧ AllWithin rs cl := by
    rw [← hcl]
    split
    · rename_i hh
      exact trim_inv _ _ (by omega) rs _ hc hw
    · exact ⟨hc, hw⟩
  generalize hrs : (if st.nextFrame ≠ fr then (off : Int) + fr.value else (off : Int)) = relStart at h
  have hrs1 : (off : Int) ≤ relStart := by rw [← hrs]; split <;> omega
  have hmono : ∀ r ∈ rs, r ∈ ((off : Int), ((off + n : Nat) : Int)) :: rs := fun r hr => by simp [hr]
  split at h
  · simp only [pure, Except.pure, Except.ok.injEq] at h
    subst h
    exact ⟨Chain.mono (by omega) hinv.1, hinv.2.mono hmono⟩
  · rename_i hlt
    cases hsf : frameShift (if st.nextFrame ≠ fr then CDSFrame.ZERO else st.nextFrame)
        (((off + n : Nat) : Int) - relStart) with
    | error e => rw [hsf] at h; simp [bind, Except.bind] at h
    | ok g =>
      rw [hsf] at h
      simp only [bind, Except.bind, pure, Except.pure, Except.ok.injEq] at h
      subst h
      refine ⟨⟨by simp, Chain.mono hrs1 hinv.1⟩, ?_⟩
      intro q hq
      simp only [List.mem_cons] at hq
      rcases hq with rfl | hq
      · exact ⟨((off : Int), ((off + n : Nat) : Int)), by simp, hrs1, Int.le_refl _⟩
      · obtain ⟨r, hr, h1⟩ := hinv.2 q hq
        exact ⟨r, hmono r hr, h1⟩

theorem relInput_sum : ∀ (ex : List (Nat × CDSFrame)) (off : Nat) (st st' : CleanSt) (rs : List (Int × Int)),
    (∀ e ∈ ex, 0 ≤ e.2.value) → cleanLoop st (relInput off ex) = .ok st' →
    Chain off st.cleanedRev → AllWithin rs st.cleanedRev →
    Chain ((off + (ex.map (·.1)).sum : Nat) : Int) st'.cleanedRev ∧
      AllWithin ((relInput off ex).map (·.1) ++ rs) st'.cleanedRev
  | [], off, st, st', rs, _, h, hc, hw => by
    simp only [relInput, cleanLoop, pure, Except.pure, Except.ok.injEq] at h
    subst h
    simpa using ⟨hc, hw⟩
  | (n, fr) :: rest, off, st, st', rs, hfr, h, hc, hw => by
    simp only [relInput, cleanLoop, bind, Except.bind] at h
    cases hs : cleanStep st ((off : Int), ((off + n : Nat) : Int)) fr with
    | error e => rw [hs] at h; simp at h
    | ok st1 =>
      rw [hs] at h
      simp only at h
      obtain ⟨hc1, hw1⟩ := cleanStep_inv st st1 off n fr (hfr (n, fr) (by simp)) rs hs hc hw
      obtain ⟨hc2, hw2⟩ := relInput_sum rest (off + n) st1 st' _ (fun e he => hfr e (by simp [he])) h hc1 hw1
      refine ⟨?_, ?_⟩
      · simp only [List.map_cons, List.sum_cons]
        have : off + (n + (rest.map (·.1)).sum) = off + n + (rest.map (·.1)).sum := by omega
        rw [this]; exact hc2
      · apply hw2.mono
        intro r hr
        simp only [relInput, List.map_cons, List.mem_append, List.mem_cons] at hr ⊢
        rcases hr with hr | hr | hr
        · exact Or.inl (Or.inr hr)
        · exact Or.inl (Or.inl hr)
        · exact Or.inr hr

theorem chain_bound : ∀ (cl : List (Int × Int)) (hi : Int), Chain hi cl → (∀ p ∈ cl, p.1 ≤ p.2) →
    ∀ q ∈ cl, q.2 ≤ hi
  | [], _, _, _, q, hq => by simp at hq
  | p :: rest, hi, hc, hv, q, hq => by
    rcases List.mem_cons.mp hq with rfl | hq
    · exact hc.1
    · have := chain_bound rest p.1 hc.2 (fun x hx => hv x (by simp [hx])) q hq
      have h1 := hv p (by simp)
      have h2 := hc.1
      omega

/-- read forwards (oldest first) the valid entries are pairwise ordered -/
theorem chain_pairwise : ∀ (cl : List (Int × Int)) (hi : Int), Chain hi cl → (∀ p ∈ cl, p.1 ≤ p.2) →
    cl.reverse.Pairwise (fun a b => a.2 ≤ b.1)
  | [], _, _, _ => by simp
  | p :: rest, hi, hc, hv => by
    rw [List.reverse_cons, List.pairwise_append]
    refine ⟨chain_pairwise rest p.1 hc.2 (fun x hx => hv x (by simp [hx])), by simp, ?_⟩
    intro a ha b hb
    simp only [List.mem_singleton] at hb
    subst hb
    exact chain_bound rest b.1 hc.2 (fun x hx => hv x (by simp [hx])) a (List.mem_reverse.mp ha)

end BioCantor.Proofs
