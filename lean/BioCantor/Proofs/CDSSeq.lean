/-
  C05-T2/T3 at the level of the CDS: the letters of the prepared location are the letters at its positions
  (complemented on the minus strand), hence `extract_sequence` is the concatenation of the codon sequences,
  `scan_codons` lists the codons and `translate` is their standard-code translation.
-/
import BioCantor.Proofs.CDSCodons
import BioCantor.Proofs.CDSFastPath
import BioCantor.Proofs.CDSTranslate
namespace BioCantor.Proofs
open BioCantor BioCantor.Model BioCantor.Spec

/-! ### the generated complement map is the IUPAC complement of the spec -/

set_option maxRecDepth 100000 in
theorem complement_tables_agree :
    (complementMap.map (·.1) ++ complementTable.map (·.1)).all
      (fun ch => complementMap.lookup ch == complementTable.lookup ch) = true := by decide +kernel

theorem lookup_none_of_not_key {β} (k : Char) : ∀ (t : List (Char × β)), k ∉ t.map (·.1) → t.lookup k = none
  | [], _ => rfl
  | (k', v) :: rest, h => by
    simp only [List.map_cons, List.mem_cons, not_or] at h
    have hne : (k == k') = false := by simpa using h.1
    simp only [List.lookup, hne]
    exact lookup_none_of_not_key k rest h.2

theorem complementMap_eq (ch : Char) : complementMap.lookup ch = complement ch := by
  unfold complement
  by_cases hk : ch ∈ complementMap.map (·.1) ++ complementTable.map (·.1)
  · have := List.all_eq_true.mp complement_tables_agree ch hk
    exact eq_of_beq this
  · simp only [List.mem_append, not_or] at hk
    rw [lookup_none_of_not_key ch _ hk.1, lookup_none_of_not_key ch _ hk.2]

/-! ### letters of a block / of a location -/

theorem lettersAt_append (chrom : List Char) (st : Strand) : ∀ (xs ys : List Nat),
    lettersAt chrom st (xs ++ ys) =
      (do let a ← lettersAt chrom st xs; let b ← lettersAt chrom st ys; pure (a ++ b))
  | [], ys => by
    simp only [List.nil_append, lettersAt, bind, Option.bind, pure]
    cases lettersAt chrom st ys <;> rfl
  | x :: xs, ys => by
    simp only [List.cons_append, lettersAt, lettersAt_append chrom st xs ys, bind, Option.bind, pure]
    cases chrom[x]? with
    | none => rfl
    | some c =>
      simp only
      cases (if st = .minus then complement c else some c) with
      | none => rfl
      | some c' =>
        simp only
        cases lettersAt chrom st xs with
        | none => rfl
        | some a =>
          simp only
          cases lettersAt chrom st ys <;> rfl

/-- plus strand: the letters at an ascending run are the slice of the chromosome -/
theorem lettersAt_plus_range (chrom : List Char) : ∀ (n s : Nat), s + n ≤ chrom.length →
    lettersAt chrom .plus (List.range' s n) = some ((chrom.drop s).take n)
  | 0, s, _ => by simp [lettersAt]
  | n + 1, s, h => by
    have hs : s < chrom.length := by omega
    rw [List.range'_succ]
    simp only [lettersAt, List.getElem?_eq_getElem hs, bind, Option.bind,
      show (Strand.plus = Strand.minus) = False by simp, if_false,
      lettersAt_plus_range chrom n (s + 1) (by omega), pure]
    congr 1
    rw [List.drop_eq_getElem_cons hs, List.take_succ_cons]

theorem reverseComplement_snoc (xs : List Char) (c : Char) :
    reverseComplement (xs ++ [c]) =
      (do let x ← (match complementMap.lookup c with
                    | some x => (pure x : R Char)
                    | none => throw Err.Alphabet)
          let rest ← reverseComplement xs
          pure (x :: rest)) := by
  unfold reverseComplement
  simp only [List.reverse_append, List.reverse_cons, List.reverse_nil, List.nil_append, List.singleton_append,
    List.mapM_cons]
  rfl

/-- minus strand: reverse complement of the chromosome slice = letters at the descending run -/
theorem reverseComplement_range (chrom : List Char) : ∀ (n s : Nat), s + n ≤ chrom.length →
    ans (reverseComplement ((chrom.drop s).take n)) = lettersAt chrom .minus (List.range' s n).reverse
  | 0, s, _ => by simp [reverseComplement, lettersAt, pure, Except.pure]
  | n + 1, s, h => by
    have hs : s + n < chrom.length := by omega
    have ih := reverseComplement_range chrom n s (by omega)
    have htake : (chrom.drop s).take (n + 1) = (chrom.drop s).take n ++ [chrom[s + n]] := by
      rw [List.take_add_one, List.getElem?_drop, List.getElem?_eq_getElem hs]; rfl
    have hget : chrom[s + n]? = some chrom[s + n] := List.getElem?_eq_getElem hs
    rw [htake, reverseComplement_snoc, List.range'_concat, List.reverse_append]
    simp only [Nat.one_mul, List.reverse_cons, List.reverse_nil, List.nil_append, List.singleton_append, lettersAt,
      if_true, bind, Option.bind, complementMap_eq, hget]
    cases hc : complement chrom[s + n] with
    | none => simp [throw, throwThe, MonadExceptOf.throw, Except.bind]
    | some x =>
      simp only [pure, Except.pure, Except.bind]
      rw [← ih]
      cases reverseComplement ((chrom.drop s).take n) with
      | error e => simp
      | ok r => simp

/-- `SingleInterval.extract_sequence` = the letters at the block's positions, 5'→3'
    (an empty block reads nothing, wherever it sits) -/
theorem blockSeq_letters (chrom : List Char) (b : Blk) (st : Strand) (hst : st = .plus ∨ st = .minus)
    (hb : b.1 ≤ b.2) (hlen : b.1 < b.2 → b.2 ≤ chrom.length) :
    ans (blockSeq (some chrom) b st) = lettersAt chrom st (rd st b) := by
  by_cases hpos : b.1 < b.2
  · have hl := hlen hpos
    unfold blockSeq rd blkDesc blkAsc
    rcases hst with h | h
    · subst h
      simp only [if_true, pure, Except.pure, ans_ok]
      rw [lettersAt_plus_range chrom (b.2 - b.1) b.1 (by omega)]
    · subst h
      simp only [show (Strand.minus = Strand.plus) = False by simp, if_false, if_true]
      exact reverseComplement_range chrom (b.2 - b.1) b.1 (by omega)
  · have hbe : b.2 - b.1 = 0 := by omega
    unfold blockSeq rd blkDesc blkAsc
    rcases hst with h | h <;> subst h <;>
      simp [hbe, lettersAt, reverseComplement, pure, Except.pure]

/-- `Location.extract_sequence` of blocks in 5'→3' order -/
theorem blocksSeq_letters (chrom : List Char) (st : Strand) (hst : st = .plus ∨ st = .minus) :
    ∀ (es : List Blk), (∀ b ∈ es, b.1 ≤ b.2 ∧ (b.1 < b.2 → b.2 ≤ chrom.length)) →
      ans (do let parts ← es.mapM (fun b => blockSeq (some chrom) b st); pure parts.flatten : R (List Char)) =
        lettersAt chrom st (readScan st es)
  | [], _ => by simp [lettersAt, pure, Except.pure, bind, Except.bind]
  | e :: es, h => by
    have he := h e (by simp)
    have h1 := blockSeq_letters chrom e st hst he.1 he.2
    have ih := blocksSeq_letters chrom st hst es (fun b hb => h b (by simp [hb]))
    rw [readScan_cons, lettersAt_append, ← h1, ← ih]
    simp only [List.mapM_cons, bind, Except.bind, pure, Except.pure]
    cases blockSeq (some chrom) e st with
    | error err => simp [Option.bind]
    | ok a =>
      cases List.mapM (fun b => blockSeq (some chrom) b st) es with
      | error err => simp [Option.bind]
      | ok r => simp [Option.bind]

theorem locationSeq_letters (chrom : List Char) (L : List Blk) (st : Strand) (hst : st = .plus ∨ st = .minus)
    (h : ∀ b ∈ L, b.1 ≤ b.2 ∧ (b.1 < b.2 → b.2 ≤ chrom.length)) :
    ans (locationSeq (some chrom) (.compound ⟨L, st⟩)) = lettersAt chrom st (bases ⟨L, st⟩) := by
  have hdir : assertDirectional st = .ok () := by
    unfold assertDirectional; rcases hst with h | h <;> simp [h, pure, Except.pure]
  unfold locationSeq
  simp only [hdir, bind, Except.bind]
  rw [bases_scanOrder L st hst]
  have := blocksSeq_letters chrom st hst (scanOrder st L) (by
    intro b hb; unfold scanOrder at hb; split at hb
    · exact h b hb
    · exact h b (List.mem_reverse.mp hb))
  unfold scanOrder at this ⊢
  simpa [bind, Except.bind] using this

/-! ### letters: totality, drop, triples -/

theorem lettersAt_isSome (chrom : List Char) (st : Strand) (hc : ∀ ch ∈ chrom, (complement ch).isSome = true) :
    ∀ (ps : List Nat), (∀ p ∈ ps, p < chrom.length) → ∃ ls, lettersAt chrom st ps = some ls ∧ ls.length = ps.length
  | [], _ => ⟨[], rfl, rfl⟩
  | p :: ps, h => by
    have hp := h p (by simp)
    obtain ⟨ls, h1, h2⟩ := lettersAt_isSome chrom st hc ps (fun q hq => h q (by simp [hq]))
    have hget : chrom[p]? = some chrom[p] := List.getElem?_eq_getElem hp
    have hcm := hc chrom[p] (List.getElem_mem hp)
    obtain ⟨x, hx⟩ := Option.isSome_iff_exists.mp hcm
    by_cases hm : st = .minus
    · subst hm
      exact ⟨x :: ls, by simp [lettersAt, hget, hx, h1, bind, Option.bind], by simp [h2]⟩
    · exact ⟨chrom[p] :: ls, by simp [lettersAt, hget, hm, h1, bind, Option.bind], by simp [h2]⟩

theorem lettersAt_drop (chrom : List Char) (st : Strand) : ∀ (ps : List Nat) (ls : List Char) (k : Nat),
    lettersAt chrom st ps = some ls → lettersAt chrom st (ps.drop k) = some (ls.drop k)
  | ps, ls, 0, h => by simpa using h
  | [], ls, k + 1, h => by
    simp only [lettersAt, Option.some.injEq] at h; subst h; simp [lettersAt]
  | p :: ps, ls, k + 1, h => by
    simp only [lettersAt, bind, Option.bind] at h
    cases h1 : chrom[p]? with
    | none => simp [h1] at h
    | some c =>
      simp only [h1] at h
      cases h2 : (if st = .minus then complement c else some c) with
      | none => simp [h2] at h
      | some c' =>
        simp only [h2] at h
        cases h3 : lettersAt chrom st ps with
        | none => simp [h3] at h
        | some r =>
          simp only [h3, pure, Option.some.injEq] at h
          subst h
          simp only [List.drop_succ_cons]
          exact lettersAt_drop chrom st ps r k h3

theorem lettersAt_cons_some (chrom : List Char) (st : Strand) (p : Nat) (ps : List Nat) (ls : List Char)
    (h : lettersAt chrom st (p :: ps) = some ls) :
    ∃ x r, ls = x :: r ∧ lettersAt chrom st [p] = some [x] ∧ lettersAt chrom st ps = some r := by
  simp only [lettersAt, bind, Option.bind] at h ⊢
  cases h1 : chrom[p]? with
  | none => simp [h1] at h
  | some c =>
    simp only [h1] at h ⊢
    cases h2 : (if st = .minus then complement c else some c) with
    | none => simp [h2] at h
    | some c' =>
      simp only [h2] at h ⊢
      cases h3 : lettersAt chrom st ps with
      | none => simp [h3] at h
      | some r =>
        simp only [h3, pure, Option.some.injEq] at h
        exact ⟨c', r, h.symm, rfl, rfl⟩

/-- the letters of the codons are the consecutive triples of the letters -/
theorem lettersAt_triples (chrom : List Char) (st : Strand) : ∀ (ps : List Nat) (ls : List Char),
    lettersAt chrom st ps = some ls → (triples ps).mapM (lettersAt chrom st) = some (triples ls)
  | [], ls, h => by simp only [lettersAt, Option.some.injEq] at h; subst h; simp [triples]
  | [a], ls, h => by
    obtain ⟨x, r, rfl, _, h3⟩ := lettersAt_cons_some chrom st a [] ls h
    simp only [lettersAt, Option.some.injEq] at h3; subst h3; simp [triples]
  | [a, b], ls, h => by
    obtain ⟨x, r, rfl, _, h3⟩ := lettersAt_cons_some chrom st a [b] ls h
    obtain ⟨y, r', rfl, _, h5⟩ := lettersAt_cons_some chrom st b [] r h3
    simp only [lettersAt, Option.some.injEq] at h5; subst h5; simp [triples]
  | a :: b :: c :: ps, ls, h => by
    obtain ⟨x, r1, rfl, hx, h1⟩ := lettersAt_cons_some chrom st a _ ls h
    obtain ⟨y, r2, rfl, hy, h2⟩ := lettersAt_cons_some chrom st b _ r1 h1
    obtain ⟨z, r3, rfl, hz, h3⟩ := lettersAt_cons_some chrom st c _ r2 h2
    have ih := lettersAt_triples chrom st ps r3 h3
    have habc : lettersAt chrom st [a, b, c] = some [x, y, z] := by
      have e1 : [a, b, c] = [a] ++ ([b] ++ [c]) := rfl
      rw [e1, lettersAt_append, lettersAt_append, hx, hy, hz]; rfl
    rw [triples_cons3, triples_cons3]
    simp only [List.mapM_cons, habc, ih, bind, Option.bind, pure]

/-! ### the prepared location of a whole CDS, both paths -/

theorem mem_readScan (st : Strand) (es : List Blk) (x : Nat) :
    x ∈ readScan st es ↔ ∃ b ∈ es, b.1 ≤ x ∧ x < b.2 := by
  simp only [readScan, List.mem_flatMap, mem_rd]

theorem mem_bases (L : List Blk) (st : Strand) (hst : st = .plus ∨ st = .minus) (x : Nat) :
    x ∈ bases ⟨L, st⟩ ↔ ∃ b ∈ L, b.1 ≤ x ∧ x < b.2 := by
  rw [bases_scanOrder L st hst, mem_readScan]
  unfold scanOrder
  split
  · rfl
  · simp only [List.mem_reverse]

theorem cdsKept_subset (bs : List Blk) (st : Strand) (hst : st = .plus ∨ st = .minus) (fr : List Nat) (x : Nat)
    (hx : x ∈ cdsKept ⟨bs, st⟩ fr) : ∃ b ∈ bs, b.1 ≤ x ∧ x < b.2 := by
  unfold cdsKept refKept at hx
  rcases refKeptAux_mem _ _ x hx with h | ⟨e, he, hxe⟩
  · simp at h
  · unfold exonWalk at he
    rcases hst with h | h
    · subst h
      simp only [List.mem_map] at he
      obtain ⟨bf, hbf, rfl⟩ := he
      have hb : bf.1 ∈ bs := (List.of_mem_zip hbf).1
      have := (mem_rd .plus bf.1 x).1 (by simpa [rd] using hxe)
      exact ⟨bf.1, hb, this⟩
    · subst h
      simp only [List.mem_map, List.mem_reverse] at he
      obtain ⟨bf, hbf, rfl⟩ := he
      have hb : bf.1 ∈ bs := (List.of_mem_zip hbf).1
      have := (mem_rd .minus bf.1 x).1 (by simpa [rd] using hxe)
      exact ⟨bf.1, hb, this⟩

/-- what `_prepare_*_window_for_scan_codon_locations(None)` yields for a whole CDS -/
theorem prepared_cases (c : CDS) (h : WFCDS c)
    (hshallow : shallowTrim (exonWalk c.loc (specFrames c)) = true)
    (hkept : c.loc.blocks.length = 1 ∨ cdsKept c.loc (specFrames c) ≠ []) :
    ∃ (L : List Blk) (off : Nat), prepare c none = .ok (.compound ⟨L, c.loc.strand⟩, (off : Int)) ∧
      (∀ b ∈ L, b.1 < b.2) ∧
      (∀ x ∈ bases ⟨L, c.loc.strand⟩, ∃ e ∈ c.loc.blocks, e.1 ≤ x ∧ x < e.2) ∧
      (bases ⟨L, c.loc.strand⟩).drop off = cdsKept c.loc (specFrames c) := by
  unfold prepare CDS.numBlocks
  by_cases hmulti : c.loc.blocks.length > 1
  · have hk : cdsKept c.loc (specFrames c) ≠ [] := by
      rcases hkept with h1 | h1
      · omega
      · exact h1
    obtain ⟨L, hp, hL3, _, hL5⟩ := prepareMulti_ok c h hshallow hk
    refine ⟨L, 0, by rw [if_pos hmulti, hp]; rfl, hL3, ?_, by rw [hL5]; rfl⟩
    intro x hx
    rw [hL5] at hx
    rcases hc : c.loc with ⟨bs, st⟩
    rw [hc] at hx
    exact cdsKept_subset bs st (by have := h.dir; rw [hc] at this; exact this) _ x hx
  · have hone : ∃ e, c.loc.blocks = [e] := by
      have hne : c.loc.blocks ≠ [] := by
        intro h0
        cases hkept with
        | inl h1 => rw [h0] at h1; simp at h1
        | inr h1 =>
          apply h1
          unfold cdsKept exonWalk
          rw [h0]; rcases h.dir with hd | hd <;> simp [hd, refKept, refKeptAux]
      match hb : c.loc.blocks, hne with
      | [e], _ => exact ⟨e, rfl⟩
      | _ :: _ :: _, _ => rw [hb] at hmulti; simp at hmulti
    obtain ⟨e, he⟩ := hone
    obtain ⟨f, _, hfn, hp, hk⟩ := prepareSingle_ok c h e he
    have hfv := frame_value_range f hfn
    refine ⟨c.loc.blocks, f.value.toNat, ?_, h.positive, ?_, hk⟩
    · rw [if_neg hmulti, hp]
      have : ((f.value.toNat : Nat) : Int) = f.value := by omega
      rw [this]
    · intro x hx
      exact (mem_bases c.loc.blocks c.loc.strand h.dir x).1 hx

/-- side conditions on the chromosome letters -/
structure SeqOK (c : CDS) (chrom : List Char) : Prop where
  seq : c.seq = some chrom
  cover : ∀ b ∈ c.loc.blocks, b.2 ≤ chrom.length
  compl : ∀ ch ∈ chrom, (complement ch).isSome = true

/-- **C05-T2 (sequence)**: the fast path returns the concatenated letter triples of the kept positions -/
theorem extractSequence_kept (c : CDS) (h : WFCDS c)
    (hshallow : shallowTrim (exonWalk c.loc (specFrames c)) = true)
    (hkept : c.loc.blocks.length = 1 ∨ cdsKept c.loc (specFrames c) ≠ [])
    (chrom : List Char) (hs : SeqOK c chrom) :
    ∃ lk, lettersAt chrom c.loc.strand (cdsKept c.loc (specFrames c)) = some lk ∧
      extractSequence c = .ok (triples lk).flatten := by
  obtain ⟨L, off, hp, hpos, hin, hk⟩ := prepared_cases c h hshallow hkept
  have hxs : ∀ x ∈ bases ⟨L, c.loc.strand⟩, x < chrom.length := by
    intro x hx
    obtain ⟨e, he, _, h2⟩ := hin x hx
    have := hs.cover e he
    omega
  have hcover : ∀ b ∈ L, b.1 ≤ b.2 ∧ (b.1 < b.2 → b.2 ≤ chrom.length) := by
    intro b hb
    have hbp := hpos b hb
    have := hxs (b.2 - 1) ((mem_bases L c.loc.strand h.dir _).2 ⟨b, hb, by omega, by omega⟩)
    omega
  obtain ⟨lb, hlb, hlblen⟩ := lettersAt_isSome chrom c.loc.strand hs.compl (bases ⟨L, c.loc.strand⟩) hxs
  have hseq := locationSeq_letters chrom L c.loc.strand h.dir hcover
  rw [hlb] at hseq
  have hseq' : locationSeq c.seq (.compound ⟨L, c.loc.strand⟩) = .ok lb := by
    rw [hs.seq]; exact (ans_eq_some _ _).1 hseq
  have hfast := extractSequence_fast c (.compound ⟨L, c.loc.strand⟩) (off : Int) lb (by omega) hp hseq'
    (by rw [hlblen, bases_length]; rfl)
  refine ⟨lb.drop off, ?_, by simpa using hfast⟩
  rw [← hk]
  exact lettersAt_drop chrom c.loc.strand _ lb off hlb

theorem cdsSeq_ok (c : CDS) (h : WFCDS c)
    (hshallow : shallowTrim (exonWalk c.loc (specFrames c)) = true)
    (hkept : c.loc.blocks.length = 1 ∨ cdsKept c.loc (specFrames c) ≠ [])
    (chrom : List Char) (hs : SeqOK c chrom) :
    okCdsSeq (specOf c) (ans (extractSequence c)) = true := by
  obtain ⟨lk, h1, h2⟩ := extractSequence_kept c h hshallow hkept chrom hs
  have h3 := lettersAt_triples chrom c.loc.strand _ lk h1
  unfold okCdsSeq specOf CDSIn.codons cdsCodons
  simp only [hs.seq, h2, ans_ok, h3, Option.map_some, beq_self_eq_true, Option.isSome_some, Bool.and_self]

/-! ### translation of the CDS -/

theorem triples_map {α β} (f : α → β) : ∀ (xs : List α), triples (xs.map f) = (triples xs).map (List.map f)
  | [] => by simp [triples]
  | [_] => by simp [triples]
  | [_, _] => by simp [triples]
  | a :: b :: c :: r => by
    simp only [List.map_cons, triples_cons3, triples_map f r, List.map_nil]

theorem triples_len3 {α} : ∀ (xs : List α), ∀ t ∈ triples xs, t.length = 3
  | [], t, h => by simp [triples] at h
  | [_], t, h => by simp [triples] at h
  | [_, _], t, h => by simp [triples] at h
  | a :: b :: c :: r, t, h => by
    rw [triples_cons3] at h
    rcases List.mem_cons.mp h with rfl | h
    · rfl
    · exact triples_len3 r t h

theorem triples_mem {α} : ∀ (xs : List α), ∀ t ∈ triples xs, ∀ x ∈ t, x ∈ xs
  | [], t, h, _, _ => by simp [triples] at h
  | [_], t, h, _, _ => by simp [triples] at h
  | [_, _], t, h, _, _ => by simp [triples] at h
  | a :: b :: c :: r, t, h, x, hx => by
    rw [triples_cons3] at h
    rcases List.mem_cons.mp h with rfl | h
    · simp only [List.mem_cons, List.not_mem_nil, or_false] at hx ⊢
      rcases hx with rfl | rfl | rfl <;> simp
    · have := triples_mem r t h x hx
      simp [this]

theorem lettersAt_mem (chrom : List Char) (st : Strand) : ∀ (ps : List Nat) (ls : List Char),
    lettersAt chrom st ps = some ls → ∀ x ∈ ls, ∃ ch ∈ chrom, x = ch ∨ complement ch = some x
  | [], ls, h, x, hx => by simp only [lettersAt, Option.some.injEq] at h; subst h; simp at hx
  | p :: ps, ls, h, x, hx => by
    simp only [lettersAt, bind, Option.bind] at h
    cases h1 : chrom[p]? with
    | none => simp [h1] at h
    | some c =>
      simp only [h1] at h
      have hcm : c ∈ chrom := List.mem_of_getElem? h1
      cases h2 : (if st = .minus then complement c else some c) with
      | none => simp [h2] at h
      | some c' =>
        simp only [h2] at h
        cases h3 : lettersAt chrom st ps with
        | none => simp [h3] at h
        | some r =>
          simp only [h3, pure, Option.some.injEq] at h
          subst h
          rcases List.mem_cons.mp hx with rfl | hx
          · refine ⟨c, hcm, ?_⟩
            split at h2
            · exact Or.inr h2
            · simp only [Option.some.injEq] at h2; exact Or.inl h2.symm
          · exact lettersAt_mem chrom st ps r h3 x hx

set_option maxRecDepth 100000 in
theorem complement_keeps_alphabet :
    complementTable.all (fun kv => !(Gen.codonAlphabet.contains kv.1.toUpper) || Gen.codonAlphabet.contains kv.2.toUpper)
      = true := by decide +kernel

theorem complement_alphabet (ch x : Char) (h : complement ch = some x) (ha : ch.toUpper ∈ Gen.codonAlphabet) :
    x.toUpper ∈ Gen.codonAlphabet := by
  have hm := lookup_mem ch x complementTable h
  have := List.all_eq_true.mp complement_keeps_alphabet (ch, x) hm
  simp only [Bool.or_eq_true, Bool.not_eq_true', List.contains_iff_mem] at this
  rcases this with h1 | h1
  · have : Gen.codonAlphabet.contains ch.toUpper = true := by simpa using ha
    rw [this] at h1; simp at h1
  · simpa using h1

/-- the spec's upper-case codons of the CDS -/
theorem codonLetters_eq (c : CDS) (chrom : List Char) (hseq : c.seq = some chrom) (lk : List Char)
    (h1 : lettersAt chrom c.loc.strand (cdsKept c.loc (specFrames c)) = some lk) :
    (specOf c).codonLetters = some (triples (upperStr lk)) := by
  have h3 := lettersAt_triples chrom c.loc.strand _ lk h1
  unfold CDSIn.codonLetters specOf CDSIn.codons cdsCodons
  simp only [hseq, h3, Option.map_some, Option.some.injEq]
  unfold upperStr
  rw [triples_map]
  rfl

/-- **C05-T3** at the level of the CDS -/
theorem translate_ok (c : CDS) (h : WFCDS c)
    (hshallow : shallowTrim (exonWalk c.loc (specFrames c)) = true)
    (hkept : c.loc.blocks.length = 1 ∨ cdsKept c.loc (specFrames c) ≠ [])
    (chrom : List Char) (hs : SeqOK c chrom) (halpha : ∀ ch ∈ chrom, ch.toUpper ∈ Gen.codonAlphabet)
    (trunc strict : Bool) (t : Nat) (ht : t = 0 ∨ t = 1 ∨ t = 11) :
    okTranslate (specOf c) trunc t strict (ans (translate c trunc (t : Int) strict)) = true := by
  obtain ⟨lk, h1, h2⟩ := extractSequence_kept c h hshallow hkept chrom hs
  have hcl := codonLetters_eq c chrom hs.seq lk h1
  -- the chunks the loop sees are the upper-case codons
  have hchunks : chunks3 (upperStr (triples lk).flatten) = triples (upperStr lk) := by
    have : upperStr (triples lk).flatten = (triples (upperStr lk)).flatten := by
      unfold upperStr; rw [triples_map, List.map_flatten]
    rw [this, chunks3_flatten_triples]
  have hok : ∀ cod ∈ triples (upperStr lk), CodonOK cod := by
    intro cod hcod
    refine ⟨triples_len3 _ cod hcod, ?_⟩
    intro ch hch
    have hmem := triples_mem _ cod hcod ch hch
    unfold upperStr at hmem
    obtain ⟨y, hy, rfl⟩ := List.mem_map.mp hmem
    obtain ⟨z, hz, hyz⟩ := lettersAt_mem chrom c.loc.strand _ lk h1 y hy
    rcases hyz with rfl | hyz
    · exact halpha _ hz
    · exact complement_alphabet z y hyz (halpha z hz)
  unfold okTranslate translate
  simp only [hcl, h2, bind, Except.bind, hchunks]
  exact translateLoop_okTranslateCodons trunc strict t ht _ hok

end BioCantor.Proofs
