/-
  C04, chunk part: `chunkDown` (location_relative_to a single-block window) returns exactly the clips.
-/
import BioCantor.Proofs.LiftDefs
import BioCantor.Proofs.RelInterval
namespace BioCantor.Proofs.Lift
open BioCantor BioCantor.Spec BioCantor.Model

theorem overlapKernel_iff (a b : Blk) :
    overlapKernel a b = true ↔ (a.1 < a.2 ∧ b.1 < b.2 ∧ max a.1 b.1 < min a.2 b.2) := by
  unfold overlapKernel Blk.len
  repeat' split
  all_goals simp
  all_goals omega

theorem overlapKernel_comm (a b : Blk) : overlapKernel a b = overlapKernel b a := by
  rw [Bool.eq_iff_iff, overlapKernel_iff, overlapKernel_iff]; omega

/-- the chunk-relative image of the clip of `b` -/
def relBlk (w : Blk) (wst : Strand) (b : Blk) : Blk :=
  if wst = .plus then (max w.1 b.1 - w.1, min w.2 b.2 - w.1) else (w.2 - min w.2 b.2, w.2 - max w.1 b.1)

theorem singleRelativeToSingle_ok (b : Blk) (st : Strand) (w : Blk) (wst : Strand)
    (hw : wst = .plus ∨ wst = .minus) (h : max w.1 b.1 < min w.2 b.2) :
    singleRelativeToSingle b st w wst = .ok (.single (relBlk w wst b) (strandRelativeTo st wst)) := by
  unfold singleRelativeToSingle singleP2R relBlk mkSingle
  rcases hw with rfl | rfl
  · simp only [bind, Except.bind, pure, Except.pure]
    rw [if_neg (by omega), if_pos trivial]
    simp only []
    rw [if_neg (by omega), if_pos trivial]
    simp only []
    rw [if_pos (by omega)]
    simp only [if_true]
    congr 3 <;> omega
  · simp only [bind, Except.bind, pure, Except.pure]
    rw [if_neg (by omega), if_neg (by simp), if_pos trivial]
    simp only []
    rw [if_neg (by omega), if_neg (by simp), if_pos trivial]
    simp only []
    rw [if_pos (by omega)]
    simp only [reduceCtorEq, if_false]
    congr 3 <;> omega

theorem relGo_ok (w : Blk) (wst : Strand) (l : Loc) (hw : wst = .plus ∨ wst = .minus) (hits : List Blk)
    (h : ∀ b ∈ hits, max w.1 b.1 < min w.2 b.2) :
    relativeToSingle.go w wst l hits = .ok (hits.map (relBlk w wst)) := by
  induction hits with
  | nil => rfl
  | cons b bs ih =>
    simp only [relativeToSingle.go, bind, Except.bind]
    rw [singleRelativeToSingle_ok b l.strand w wst hw (h b (by simp))]
    simp only []
    rw [ih (fun x hx => h x (by simp [hx]))]
    rfl

theorem unchunk_relBlk (w : Blk) (wst : Strand) (hw : wst = .plus ∨ wst = .minus) (b : Blk)
    (h : max w.1 b.1 < min w.2 b.2) :
    unchunkBlk w wst (relBlk w wst b) = (max w.1 b.1, min w.2 b.2) := by
  unfold unchunkBlk relBlk
  rcases hw with rfl | rfl <;> simp <;> omega

theorem relBlk_props (w : Blk) (wst : Strand) (b : Blk) (h : max w.1 b.1 < min w.2 b.2) :
    (relBlk w wst b).1 ≤ (relBlk w wst b).2 ∧ (relBlk w wst b).2 ≤ w.2 - w.1 := by
  unfold relBlk; split <;> simp <;> omega

theorem clip_eq (w b : Blk) : clip w b = if max w.1 b.1 < min w.2 b.2 then some (max w.1 b.1, min w.2 b.2) else none := rfl

theorem clips_eq (w : Blk) (hwl : w.1 < w.2) (L : List Blk) (hv : ∀ b ∈ L, b.1 ≤ b.2) :
    L.filterMap (clip w) = (L.filter (fun b => overlapKernel w b)).map (fun b => (max w.1 b.1, min w.2 b.2)) := by
  induction L with
  | nil => rfl
  | cons b bs ih =>
    have hb := hv b (by simp)
    have ih' := ih (fun x hx => hv x (by simp [hx]))
    by_cases h : max w.1 b.1 < min w.2 b.2
    · have ho : overlapKernel w b = true := (overlapKernel_iff w b).mpr ⟨hwl, by omega, h⟩
      simp [clip_eq, h, ho, ih']
    · have ho : overlapKernel w b = false := by
        rw [Bool.eq_false_iff]; intro hc; exact h ((overlapKernel_iff w b).mp hc).2.2
      simp [clip_eq, h, ho, ih']

theorem chunkDown_spec (l : Location) (hl : WF l) (w : Blk) (wst : Strand) :
    okChunkDown l w wst (ans (chunkDown l w wst)) = true := by
  unfold okChunkDown
  by_cases hcond : wst = .unstranded ∨ w.2 ≤ w.1
  · simp [hcond]
  rw [if_neg hcond]
  have hw : wst = .plus ∨ wst = .minus := by cases wst <;> simp at hcond ⊢
  have hwl : w.1 < w.2 := by omega
  have hlen : ¬ (w.len = 0) := by unfold Blk.len; omega
  unfold chunkDown
  rw [if_neg hlen]
  cases l with
  | empty => simp [relativeToSingle, pure, Except.pure]
  | single b st =>
    have hb : b.1 ≤ b.2 := hl
    simp only [relativeToSingle, locationBlocks]
    by_cases h : max w.1 b.1 < min w.2 b.2
    · have ho : overlapKernel b w = true := (overlapKernel_iff b w).mpr ⟨by omega, hwl, by omega⟩
      rw [ho, if_pos rfl, singleRelativeToSingle_ok b st w wst hw h]
      have hp := relBlk_props w wst b h
      simp only [ans_ok, List.filterMap_cons, clip_eq, if_pos h, List.filterMap_nil, List.isEmpty_cons,
        Bool.false_eq_true, if_false, List.map_cons, List.map_nil,
        unchunk_relBlk w wst hw b h, wfLocation, locationStrand?, strandOf, Option.getD_some,
        strandRelativeTo_eq_compose', List.length_cons, List.length_nil, List.all_cons, List.all_nil]
      simp [hp.1, hp.2]
    · have ho : overlapKernel b w = false := by
        rw [Bool.eq_false_iff]; intro hc
        have := ((overlapKernel_iff b w).mp hc).2.2; omega
      rw [ho]
      simp [throw, throwThe, MonadExceptOf.throw, pure, Except.pure, clip_eq, h]
  | compound l =>
    have hv : ∀ b ∈ l.blocks, b.1 ≤ b.2 := (blocksValid_iff _).mp hl.2.1
    have hcl : (locationBlocks (.compound l)).filterMap (clip w) = _ := clips_eq w hwl l.blocks hv
    simp only [relativeToSingle, hcl]
    generalize hhits : l.blocks.filter (fun b => overlapKernel w b) = hits
    have hhv : ∀ b ∈ hits, max w.1 b.1 < min w.2 b.2 := by
      intro b hb
      rw [← hhits, List.mem_filter] at hb
      exact ((overlapKernel_iff w b).mp hb.2).2.2
    have hany : (l.blocks.any fun b => overlapKernel b w) = !hits.isEmpty := by
      rw [← hhits]
      simp only [overlapKernel_comm _ w]
      rw [Bool.eq_iff_iff]
      simp [List.filter_eq_nil_iff]
    rw [hany]
    cases hits with
    | nil => simp [throw, throwThe, MonadExceptOf.throw, pure, Except.pure]
    | cons h0 hs =>
      generalize hH : h0 :: hs = H at *
      have hHne : H ≠ [] := by rw [← hH]; simp
      have hrel_ne : H.map (relBlk w wst) ≠ [] := by simpa using hHne
      have hrel_v : ∀ r ∈ H.map (relBlk w wst), r.1 ≤ r.2 := by
        intro r hr
        obtain ⟨b, hb, rfl⟩ := List.mem_map.mp hr
        exact (relBlk_props w wst b (hhv b hb)).1
      have he : H.isEmpty = false := by simpa using hHne
      simp only [he, Bool.not_false, not_true, if_false, Bool.not_true, bind, Except.bind,
        relGo_ok w wst l hw H hhv, mkCompoundLoc_ok (strandRelativeTo l.strand wst) hrel_ne hrel_v,
        Bool.false_eq_true, pure, Except.pure, ans_ok, List.isEmpty_map]
      have hperm := sortBlocks_perm (strandRelativeTo l.strand wst) (H.map (relBlk w wst))
      have hcan := canon_sortBlocks (strandRelativeTo l.strand wst) hrel_ne hrel_v
      have hmapeq : (H.map (relBlk w wst)).map (unchunkBlk w wst) =
          H.map (fun b => (max w.1 b.1, min w.2 b.2)) := by
        rw [List.map_map]
        apply List.map_congr_left
        intro b hb
        exact unchunk_relBlk w wst hw b (hhv b hb)
      have hsort : sortNat (((sortBlocks (strandRelativeTo l.strand wst) (H.map (relBlk w wst))).map
            (unchunkBlk w wst)).flatMap blkAsc) =
          sortNat ((H.map (fun b => (max w.1 b.1, min w.2 b.2))).flatMap blkAsc) := by
        rw [← hmapeq]
        exact sortNat_perm ((hperm.map _).flatMap_right _)
      have hlen2 : (sortBlocks (strandRelativeTo l.strand wst) (H.map (relBlk w wst))).length = H.length := by
        rw [hperm.length_eq]; simp
      have hall : ∀ r ∈ sortBlocks (strandRelativeTo l.strand wst) (H.map (relBlk w wst)), r.2 ≤ w.2 - w.1 := by
        intro r hr
        obtain ⟨b, hb, rfl⟩ := List.mem_map.mp (hperm.mem_iff.mp hr)
        exact (relBlk_props w wst b (hhv b hb)).2
      simp only [strandRelativeTo_eq_compose'] at hcan hsort hlen2 hall ⊢
      simp only [locationBlocks, wfLocation, locationStrand?, strandOf, Option.getD_some, List.length_map]
      simp only [hsort, hlen2, decide_eq_true hcan]
      simp
      intro a b hab
      exact hall (a, b) hab

end BioCantor.Proofs.Lift
