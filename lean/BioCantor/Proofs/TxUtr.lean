/-
  C06, UTRs: `get_5p_interval` / `get_3p_interval` return the stretch of the transcript before / after
  the CDS; with the CDS they tile the transcript.
-/
import BioCantor.Proofs.TxPoint
set_option linter.unusedSimpArgs false
namespace BioCantor.Proofs
open BioCantor BioCantor.Spec BioCantor.Model BioCantor.Model.Transcript

/-! ### `isSub` unpacked -/

theorem isSub_unpack (d E : Loc) (h : isSub d E = true) :
    ∃ k q, (bases d).head? = some q ∧ idxOf? q (bases E) = some k ∧ cdsOffset d E = some k ∧
      ((bases E).drop k).take (bases d).length = bases d := by
  unfold isSub at h
  cases hk : cdsOffset d E with
  | none => simp [hk] at h
  | some k =>
    simp only [hk, beq_iff_eq] at h
    unfold cdsOffset at hk
    cases hq : (bases d).head? with
    | none => simp [hq] at hk
    | some q =>
      simp only [hq, Option.bind] at hk
      exact ⟨k, q, rfl, hk, by simp [cdsOffset, hq, hk], h⟩

theorem isSub_sublist (d E : Loc) (h : isSub d E = true) : (bases d).Sublist (bases E) := by
  obtain ⟨k, _, _, _, _, he⟩ := isSub_unpack d E h
  rw [← he]
  exact (List.take_sublist _ _).trans (List.drop_sublist _ _)

theorem isSub_len (d E : Loc) (k : Nat) (he : ((bases E).drop k).take (bases d).length = bases d) :
    k + (bases d).length ≤ (bases E).length ∨ (bases d).length = 0 := by
  have := congrArg List.length he
  simp only [List.length_take, List.length_drop] at this
  omega

/-! ### reading the C01 interval predicate for a PLUS request on a non-overlapping layout -/

theorem compose_plus (s : Strand) : compose s .plus = s := by cases s <;> rfl

theorem okRelint_plus_extract (l : Location) (loc : Loc) (hl : toLoc l = some loc)
    (hd : loc.strand ≠ .unstranded) (hno : nonOverlap loc.blocks = true)
    (rs re : Nat) (h1 : rs ≤ re) (h2 : re ≤ loc.len) (hpos : 0 < loc.len)
    (a : Option Location) (h : okRelint l (rs : Int) (re : Int) .plus a = true) :
    ∃ m, a = some m ∧ wfLocation m = true ∧ locationStrand? m = some loc.strand ∧
      locationBases m = ((bases loc).drop rs).take (re - rs) := by
  have hdom : relintDomain l (rs : Int) (re : Int) = true := by
    unfold relintDomain
    simp only [hl]
    have : loc.strand.isDirectional = true := by
      cases hs : loc.strand <;> simp_all [Strand.isDirectional]
    simp [this]; omega
  unfold okRelint at h
  simp only [hl, hdom, not_true_eq_false, if_false] at h
  have hlen : ¬ (loc.len = 0 ∧ a.isNone = true) := by omega
  simp only [hlen, if_false] at h
  cases a with
  | none => simp at h
  | some m =>
    refine ⟨m, rfl, ?_⟩
    simp only [compose_plus, hno, if_true, Bool.and_eq_true, beq_iff_eq] at h
    obtain ⟨⟨⟨hs, hwf⟩, hb⟩, _⟩ := h
    refine ⟨hwf, hs, ?_⟩
    have e1 : ((rs : Int)).toNat = rs := by simp
    have e2 : ((re : Int) - (rs : Int)).toNat = re - rs := by omega
    rw [e1, e2] at hb
    exact hb

theorem toLoc_chunk (l : Loc) : toLoc (chunkLocation l) = some l := by
  obtain ⟨bs, st⟩ := l
  unfold chunkLocation toSingleIfOne
  split
  · rename_i b hb; simp only at hb; subst hb; rfl
  · rfl

theorem wf_chunk (l : Loc) (h : l.Canon) : WF (chunkLocation l) := by
  obtain ⟨bs, st⟩ := l
  unfold chunkLocation toSingleIfOne
  split
  · rename_i b hb; simp only at hb; subst hb
    have := h.2.1
    simp [blocksValid] at this
    exact this
  · exact h

theorem chunk_inj (a b : Loc) (h : chunkLocation a = chunkLocation b) : a = b := by
  have ha := toLoc_chunk a
  have hb := toLoc_chunk b
  rw [h, hb] at ha
  exact (Option.some.inj ha).symm

/-! ### the CDS ends on the transcript -/

theorem idxOf?_head (q : Nat) (xs : List Nat) (h : xs.head? = some q) : idxOf? q xs = some 0 := by
  cases xs with
  | nil => simp at h
  | cons x xs => simp at h; simp [idxOf?, h]

/-- transcript index of the first CDS base, as the model computes it -/
theorem d2t_first (T : TxSpec) (d : Loc) (hD : T.D = some d) (hdir : Directional T)
    (k q : Nat) (hq : (bases d).head? = some q) (hk : idxOf? q (bases T.E) = some k) :
    expD2T T 0 = some (k : Int) := by
  unfold expD2T
  simp only [hD, Option.bind]
  have hg : (bases d)[0]? = some q := by rw [← List.head?_eq_getElem?]; exact hq
  have h1 := posAt_of d (hdir.2 d hD) 0 q hg
  have h1' : posAt d 0 = some (q : Int) := h1
  rw [h1']
  exact posIdx_of T.E hdir.1 q k hk

/-- transcript index of the last CDS base -/
theorem d2t_last (T : TxSpec) (d : Loc) (hD : T.D = some d) (hdir : Directional T) (hn : (bases T.E).Nodup)
    (k : Nat) (he : ((bases T.E).drop k).take (bases d).length = bases d) (hpos : 0 < (bases d).length) :
    expD2T T (((bases d).length : Int) - 1) = some (((k + (bases d).length : Nat) : Int) - 1) := by
  unfold expD2T
  simp only [hD, Option.bind]
  have hlt : (bases d).length - 1 < (bases d).length := by omega
  let q := (bases d)[(bases d).length - 1]
  have hg : (bases d)[(bases d).length - 1]? = some q := List.getElem?_eq_getElem hlt
  have hgE : (bases T.E)[k + ((bases d).length - 1)]? = some q := by
    have := hg
    rw [← he] at this
    rw [List.getElem?_take, List.getElem?_drop] at this
    have hc : (List.take (bases d).length (List.drop k (bases T.E))).length - 1 < (bases d).length := by
      rw [he]; exact hlt
    rw [he] at this
    simp only [hlt, if_true] at this
    exact this
  have e1 : (((bases d).length : Int) - 1) = (((bases d).length - 1 : Nat) : Int) := by omega
  rw [e1, posAt_of d (hdir.2 d hD) _ q hg]
  have := posIdx_of T.E hdir.1 q _ (idxOf?_nodup q _ hn _ hgE)
  show posIdx T.E (q : Int) = _
  rw [this]
  congr 1; omega

/-! ### the two UTR methods -/

/-- without a chunk, the in-chunk part of the transcript starts at transcript position 0 -/
theorem crts_zero (t : Transcript) (h : WFT t) (hd : t.exons.strand ≠ .unstranded)
    (hpos : 0 < (bases t.exons).length) : t.chunkRelativeTranscriptStart = .ok 0 := by
  unfold chunkRelativeTranscriptStart
  have h1 := r2p_ok (chunkLocation t.exons) (wf_chunk _ h.exons) 0
  unfold okR2P expectR2P at h1
  simp only [toLoc_chunk, hd, if_false, show ¬ ((0 : Int) < 0) by omega, Int.toNat_zero, beq_iff_eq] at h1
  have hg : (bases t.exons)[0]? = some (bases t.exons)[0] := List.getElem?_eq_getElem hpos
  rw [hg] at h1
  simp only [Option.map_some] at h1
  rw [ans_eq_some] at h1
  rw [h1]
  simp only [bind, Except.bind]
  rw [← ans_eq_some, ans_c2t t h]
  unfold expC2T
  have hh : (bases t.exons).head? = some (bases t.exons)[0] := by rw [List.head?_eq_getElem?]; exact hg
  have := posIdx_of t.exons hd _ 0 (idxOf?_head _ _ hh)
  simpa [specOf] using this

theorem txScope_unpack (T : TxSpec) (d : Loc) (hD : T.D = some d) (h : txScope T = true) :
    Directional T ∧ nonOverlap T.E.blocks = true ∧ d.strand = T.E.strand := by
  unfold txScope at h
  simp only [hD, Bool.and_eq_true, beq_iff_eq] at h
  obtain ⟨⟨h1, h2⟩, h3⟩ := h
  have hd : T.E.strand ≠ .unstranded := by
    intro e; rw [e] at h1; simp [Strand.isDirectional] at h1
  refine ⟨⟨hd, ?_⟩, h2, h3⟩
  intro d' hd'
  rw [hD] at hd'; cases hd'
  rw [h3]; exact hd

theorem utr5_ok (t : Transcript) (h : WFT t) : okUtr5 (specOf t) (ans t.get5pInterval) = true := by
  unfold okUtr5
  cases hc : t.cds with
  | none =>
    simp [specOf, hc, get5pInterval, requireCoding, bind, Except.bind, throw, throwThe, MonadExceptOf.throw]
  | some d =>
    have hD : (specOf t).D = some d := by simp [specOf, hc]
    simp only [hD]
    by_cases hsc : (txScope (specOf t) && isSub d (specOf t).E) = true
    · simp only [hsc, not_true_eq_false, if_false]
      rw [Bool.and_eq_true] at hsc
      obtain ⟨hscope, hsub⟩ := hsc
      obtain ⟨hdir, hno, _⟩ := txScope_unpack _ d hD hscope
      obtain ⟨k, q, hq, hk, hoff, he⟩ := isSub_unpack d _ hsub
      rw [hoff]
      have hE : (specOf t).E = t.exons := rfl
      rw [hE] at hk hno he ⊢
      have hklt := idxOf?_lt _ _ _ hk
      rw [bases_length] at hklt
      unfold get5pInterval
      simp only [requireCoding, hc, bind, Except.bind, pure, Except.pure]
      by_cases heq : chunkLocation d = chunkLocation t.exons
      · have hde := chunk_inj _ _ heq
        subst hde
        have := idxOf?_head q _ hq
        rw [this] at hk
        cases hk
        simp [heq, utrShapeOk, wfLocation, locationBases]
      · simp only [heq, if_false]
        have h1 : ans (t.cdsPosToTranscript 0) = some (k : Int) := by
          rw [ans_d2t t h 0]; exact d2t_first _ d hD hdir k q hq hk
        rw [ans_eq_some] at h1
        rw [h1]
        simp only []
        rw [crts_zero t h hdir.1 (by rw [bases_length]; omega)]
        simp only []
        have hclamp : min (max ((k : Int) - 0) 0) (t.exons.len : Int) = (k : Int) := by omega
        rw [hclamp]
        have hok := relInterval_ok (chunkLocation t.exons) (wf_chunk _ h.exons) 0 (k : Int) .plus
        have := okRelint_plus_extract (chunkLocation t.exons) t.exons (toLoc_chunk _) hdir.1 hno 0 k
          (Nat.zero_le _) (by omega) (by omega) _ hok
        obtain ⟨m, hm, hwf, hs, hb⟩ := this
        have hm' : ans (relInterval (chunkLocation t.exons) 0 (k : Int) .plus) = some m := hm
        rw [hm']
        simp only [List.drop_zero, Nat.sub_zero] at hb
        simp [utrShapeOk, hwf, hs, hb]
    · simp [hsc]

theorem utr3_ok (t : Transcript) (h : WFT t) : okUtr3 (specOf t) (ans t.get3pInterval) = true := by
  unfold okUtr3
  cases hc : t.cds with
  | none =>
    simp [specOf, hc, get3pInterval, requireCoding, bind, Except.bind, throw, throwThe, MonadExceptOf.throw]
  | some d =>
    have hD : (specOf t).D = some d := by simp [specOf, hc]
    simp only [hD]
    by_cases hsc : (txScope (specOf t) && isSub d (specOf t).E) = true
    · simp only [hsc, not_true_eq_false, if_false]
      rw [Bool.and_eq_true] at hsc
      obtain ⟨hscope, hsub⟩ := hsc
      obtain ⟨hdir, hno, _⟩ := txScope_unpack _ d hD hscope
      obtain ⟨k, q, hq, hk, hoff, he⟩ := isSub_unpack d _ hsub
      rw [hoff]
      have hE : (specOf t).E = t.exons := rfl
      rw [hE] at hk hno he ⊢
      have hn : (bases t.exons).Nodup := nodup_bases _ h.exons.2.1 hno
      have hpos : 0 < (bases d).length := by
        cases hb : bases d with
        | nil => simp [hb] at hq
        | cons x xs => simp
      have hfit : k + (bases d).length ≤ (bases t.exons).length := by
        rcases isSub_len d t.exons k he with h' | h'
        · exact h'
        · omega
      unfold get3pInterval
      simp only [requireCoding, hc, bind, Except.bind, pure, Except.pure]
      by_cases heq : chunkLocation d = chunkLocation t.exons
      · have hde := chunk_inj _ _ heq
        subst hde
        have := idxOf?_head q _ hq
        rw [this] at hk
        cases hk
        simp [heq, utrShapeOk, wfLocation, locationBases]
      · simp only [heq, if_false]
        have h1 : ans (t.cdsPosToTranscript ((d.len : Int) - 1))
            = some (((k + (bases d).length : Nat) : Int) - 1) := by
          rw [ans_d2t t h, ← bases_length d]
          exact d2t_last _ d hD hdir hn k he hpos
        rw [ans_eq_some] at h1
        rw [h1]
        simp only []
        have hlen := bases_length t.exons
        rw [crts_zero t h hdir.1 (by omega)]
        simp only []
        have e : min (max ((((k + (bases d).length : Nat) : Int) - 1 + 1) - 0) 0) (t.exons.len : Int)
            = ((k + (bases d).length : Nat) : Int) := by omega
        rw [e]
        have hok := relInterval_ok (chunkLocation t.exons) (wf_chunk _ h.exons)
          ((k + (bases d).length : Nat) : Int) (t.exons.len : Int) .plus
        have := okRelint_plus_extract (chunkLocation t.exons) t.exons (toLoc_chunk _) hdir.1 hno
          (k + (bases d).length) t.exons.len (by omega) (Nat.le_refl _) (by omega) _ hok
        obtain ⟨m, hm, hwf, hs, hb⟩ := this
        rw [hm]
        have : List.take (t.exons.len - (k + (bases d).length)) (List.drop (k + (bases d).length) (bases t.exons))
            = List.drop (k + (bases d).length) (bases t.exons) := by
          apply List.take_of_length_le
          simp only [List.length_drop]; omega
        rw [this] at hb
        simp [utrShapeOk, hwf, hs, hb]
    · simp [hsc]

/-- the spec's three stretches tile the transcript: a pure list fact -/
theorem tile (B D : List Nat) (k : Nat) (he : (B.drop k).take D.length = D) :
    B.take k ++ D ++ B.drop (k + D.length) = B := by
  have h1 : B.drop (k + D.length) = (B.drop k).drop D.length := by rw [List.drop_drop]
  have h2 : D ++ (B.drop k).drop D.length = B.drop k := by
    conv => lhs; arg 1; rw [← he]
    exact List.take_append_drop _ _
  rw [h1, List.append_assoc, h2, List.take_append_drop]

/-- **UTR / CDS / UTR decomposition** for any pair of answers accepted by the two predicates -/
theorem utrs_tile (T : TxSpec) (d : Loc) (hD : T.D = some d) (hscope : txScope T = true)
    (hsub : isSub d T.E = true) (u5 u3 : Location)
    (h5 : okUtr5 T (some u5) = true) (h3 : okUtr3 T (some u3) = true) :
    locationBases u5 ++ bases d ++ locationBases u3 = bases T.E := by
  obtain ⟨k, q, hq, hk, hoff, he⟩ := isSub_unpack d _ hsub
  unfold okUtr5 at h5; unfold okUtr3 at h3
  simp only [hD, hscope, hsub, Bool.and_self, not_true_eq_false, if_false, hoff, Bool.and_eq_true,
    beq_iff_eq] at h5 h3
  rw [h5.2, h3.2]
  exact tile _ _ k he

end BioCantor.Proofs
