/-
  C03 helper lemmas, part 1: `mapOpt`, reading parent characters block by block, the complement tie
  between the generated maps (model) and the IUPAC reference (spec).
-/
import BioCantor.Spec.Sequence
import BioCantor.Model.Sequence
import BioCantor.Proofs.PointMaps
import BioCantor.Proofs.RelBasics
import BioCantor.Proofs.TabAlgebra
set_option linter.unusedSimpArgs false
namespace BioCantor.Proofs.Sq
open BioCantor BioCantor.Spec BioCantor.Model BioCantor.Spec.Sq BioCantor.Model.Sq BioCantor.Proofs

/-! ### mapOpt -/

/-- concatenation of two optional lists -/
def oapp {α} : Option (List α) → Option (List α) → Option (List α)
  | some a, some b => some (a ++ b)
  | _, _ => none

theorem mapOpt_append {α β} (f : α → Option β) (xs ys : List α) :
    mapOpt f (xs ++ ys) = oapp (mapOpt f xs) (mapOpt f ys) := by
  induction xs with
  | nil => simp only [List.nil_append, mapOpt]; cases mapOpt f ys <;> rfl
  | cons x xs ih =>
    simp only [List.cons_append, mapOpt, ih]
    cases f x <;> cases mapOpt f xs <;> cases mapOpt f ys <;> rfl

theorem mapOpt_reverse {α β} (f : α → Option β) (xs : List α) :
    mapOpt f xs.reverse = (mapOpt f xs).map List.reverse := by
  induction xs with
  | nil => rfl
  | cons x xs ih =>
    rw [List.reverse_cons, mapOpt_append, ih]
    simp only [mapOpt]
    cases f x <;> cases mapOpt f xs <;> simp [oapp]

theorem mapOpt_some_length {α β} (f : α → Option β) (xs : List α) (ys : List β) (h : mapOpt f xs = some ys) :
    ys.length = xs.length := by
  induction xs generalizing ys with
  | nil => simp only [mapOpt, Option.some.injEq] at h; subst h; rfl
  | cons x xs ih =>
    simp only [mapOpt] at h
    cases hx : f x with
    | none => simp [hx] at h
    | some y =>
      cases hr : mapOpt f xs with
      | none => simp [hx, hr] at h
      | some r => simp [hx, hr] at h; subst h; simp [ih r hr]

theorem mapOpt_take {α β} (f : α → Option β) (xs : List α) (ys : List β) (h : mapOpt f xs = some ys) (n : Nat) :
    mapOpt f (xs.take n) = some (ys.take n) := by
  induction xs generalizing ys n with
  | nil => simp only [mapOpt, Option.some.injEq] at h; subst h; simp [mapOpt]
  | cons x xs ih =>
    simp only [mapOpt] at h
    cases hx : f x with
    | none => simp [hx] at h
    | some y =>
      cases hr : mapOpt f xs with
      | none => simp [hx, hr] at h
      | some r =>
        simp [hx, hr] at h; subst h
        cases n with
        | zero => simp [mapOpt]
        | succ n => simp [mapOpt, hx, ih r hr n]

theorem mapOpt_drop {α β} (f : α → Option β) (xs : List α) (ys : List β) (h : mapOpt f xs = some ys) (n : Nat) :
    mapOpt f (xs.drop n) = some (ys.drop n) := by
  induction xs generalizing ys n with
  | nil => simp only [mapOpt, Option.some.injEq] at h; subst h; simp [mapOpt]
  | cons x xs ih =>
    simp only [mapOpt] at h
    cases hx : f x with
    | none => simp [hx] at h
    | some y =>
      cases hr : mapOpt f xs with
      | none => simp [hx, hr] at h
      | some r =>
        simp [hx, hr] at h; subst h
        cases n with
        | zero => simp [mapOpt, hx, hr]
        | succ n => simp [ih r hr n]

theorem mapOpt_congr {α β} (f g : α → Option β) (xs : List α) (h : ∀ x ∈ xs, f x = g x) :
    mapOpt f xs = mapOpt g xs := by
  induction xs with
  | nil => rfl
  | cons x xs ih =>
    simp only [mapOpt, h x (by simp), ih (fun y hy => h y (List.mem_cons_of_mem _ hy))]

/-- `mapOpt` through a second partial map -/
theorem mapOpt_comp {α β γ} (f : α → Option β) (g : β → Option γ) (xs : List α) (ys : List β)
    (h : mapOpt f xs = some ys) : mapOpt g ys = mapOpt (fun x => Spec.Sq.optBind (f x) g) xs := by
  induction xs generalizing ys with
  | nil => simp only [mapOpt, Option.some.injEq] at h; subst h; rfl
  | cons x xs ih =>
    simp only [mapOpt] at h
    cases hx : f x with
    | none => simp [hx] at h
    | some y =>
      cases hr : mapOpt f xs with
      | none => simp [hx, hr] at h
      | some r =>
        simp [hx, hr] at h; subst h
        simp only [mapOpt, hx, Spec.Sq.optBind, ih r hr]

/-! ### characters of a block -/

theorem charsAt_range' (P : List Char) (s n : Nat) (h : s + n ≤ P.length) :
    charsAt P (List.range' s n) = some ((P.drop s).take n) := by
  unfold charsAt
  induction n generalizing s with
  | zero => simp [mapOpt]
  | succ n ih =>
    have hs : s < P.length := by omega
    simp only [List.range'_succ, mapOpt, ih (s + 1) (by omega)]
    rw [List.getElem?_eq_getElem hs]
    simp only [Option.some.injEq]
    rw [List.drop_eq_getElem_cons hs, List.take_succ_cons]

/-- a block all of whose positions exist on the parent (zero-length blocks may sit anywhere) -/
def blkWithin (P : List Char) (b : Blk) : Prop := b.2 ≤ b.1 ∨ b.2 ≤ P.length

theorem charsAt_blkAsc (P : List Char) (b : Blk) (hw : blkWithin P b) :
    charsAt P (blkAsc b) = some (sliceP P b) := by
  unfold blkAsc sliceP
  rcases hw with h | h
  · have : b.2 - b.1 = 0 := by omega
    simp [this, charsAt, mapOpt]
  · by_cases hb : b.1 ≤ b.2
    · exact charsAt_range' P b.1 (b.2 - b.1) (by omega)
    · have : b.2 - b.1 = 0 := by omega
      simp [this, charsAt, mapOpt]

theorem charsAt_blkDesc (P : List Char) (b : Blk) (hw : blkWithin P b) :
    charsAt P (blkDesc b) = some (sliceP P b).reverse := by
  unfold blkDesc charsAt
  rw [mapOpt_reverse]
  have := charsAt_blkAsc P b hw
  unfold charsAt at this
  rw [this]; rfl

theorem charsAt_append (P : List Char) (xs ys : List Nat) :
    charsAt P (xs ++ ys) = oapp (charsAt P xs) (charsAt P ys) := by
  unfold charsAt; exact mapOpt_append _ xs ys

/-! ### `within` in terms of blocks -/

theorem mem_blkAsc (b : Blk) (p : Nat) : p ∈ blkAsc b ↔ b.1 ≤ p ∧ p < b.2 := by
  unfold blkAsc
  rw [List.mem_range'_1]
  omega

theorem mem_bases (bs : List Blk) (st : Strand) (p : Nat) :
    p ∈ bases ⟨bs, st⟩ ↔ ∃ b ∈ bs, b.1 ≤ p ∧ p < b.2 := by
  rw [bases_mk]
  have : p ∈ basesPlus bs ↔ ∃ b ∈ bs, b.1 ≤ p ∧ p < b.2 := by
    rw [basesPlus_eq_flatMap, List.mem_flatMap]
    constructor
    · rintro ⟨b, hb, hp⟩; exact ⟨b, hb, (mem_blkAsc b p).1 hp⟩
    · rintro ⟨b, hb, hp⟩; exact ⟨b, hb, (mem_blkAsc b p).2 hp⟩
  split
  · rw [List.mem_reverse]; exact this
  · exact this

theorem within_iff (P : List Char) (bs : List Blk) (st : Strand) :
    within P ⟨bs, st⟩ = true ↔ ∀ b ∈ bs, blkWithin P b := by
  unfold within
  rw [List.all_eq_true]
  constructor
  · intro h b hb
    unfold blkWithin
    by_cases hlt : b.1 < b.2
    · right
      have := h (b.2 - 1) ((mem_bases bs st _).2 ⟨b, hb, by omega, by omega⟩)
      simp only [decide_eq_true_eq] at this
      omega
    · left; omega
  · intro h p hp
    obtain ⟨b, hb, h1, h2⟩ := (mem_bases bs st p).1 hp
    simp only [decide_eq_true_eq]
    rcases h b hb with hw | hw <;> omega

/-- `within` only depends on the set of blocks -/
theorem within_perm (P : List Char) {bs cs : List Blk} (st st' : Strand) (hp : bs.Perm cs) :
    within P ⟨bs, st⟩ = within P ⟨cs, st'⟩ := by
  have h1 := within_iff P bs st
  have h2 := within_iff P cs st'
  have h3 : (∀ b ∈ bs, blkWithin P b) ↔ (∀ b ∈ cs, blkWithin P b) := by
    constructor
    · intro h b hb; exact h b (hp.mem_iff.2 hb)
    · intro h b hb; exact h b (hp.mem_iff.1 hb)
  have h4 : within P ⟨bs, st⟩ = true ↔ within P ⟨cs, st'⟩ = true := h1.trans (h3.trans h2.symm)
  cases hw : within P ⟨bs, st⟩ <;> cases hw' : within P ⟨cs, st'⟩
  · rfl
  · rw [hw, hw'] at h4; exact absurd (h4.2 rfl) (by simp)
  · rw [hw, hw'] at h4; exact absurd (h4.1 rfl) (by simp)
  · rfl

/-! ### complement: generated map = IUPAC reference -/

/-- every nucleotide alphabet of the reference is flagged as such by the library and has a complement map -/
theorem chkNt_true :
    (Spec.Tab.ntAlphabets.all fun p =>
      Gen.nucleotideAlphabetFlags.lookup p.1 == some true && (Gen.complementMaps.lookup p.1).isSome) = true := by
  decide +kernel

theorem rcMap_ok (alph : List Char) (hnt : isNt alph = true) :
    ∃ m, rcMap alph = .ok m ∧ Gen.complementMaps.lookup alph = some m := by
  unfold isNt at hnt
  cases hl : Spec.Tab.ntAlphabets.lookup alph with
  | none => simp [hl] at hnt
  | some letters =>
    have := Tab.all_of_mem _ _ chkNt_true _ (Tab.lookup_mem _ _ _ hl)
    simp only [Bool.and_eq_true, beq_iff_eq] at this
    cases hm : Gen.complementMaps.lookup alph with
    | none => simp [hm] at this
    | some m =>
      refine ⟨m, ?_, rfl⟩
      unfold rcMap
      simp [this.1, hm]; rfl

/-- the generated complement map of an alphabet answers like the IUPAC reference on EVERY character -/
theorem map_lookup_eq (alph : List Char) (m : List (Char × Char)) (hm : Gen.complementMaps.lookup alph = some m)
    (c : Char) : m.lookup c = compOf alph c := by
  have := Tab.complement_spec alph c
  unfold Model.Tab.complementChar at this
  simp only [hm] at this
  exact this

theorem compAll_eq (alph : List Char) (s : List Char) : compAll alph s = mapOpt (compOf alph) s := by
  unfold compAll compTable compOf Spec.Tab.expectComplement
  cases Spec.Tab.ntAlphabets.lookup alph <;> rfl

theorem ans_compData (m : List (Char × Char)) (s : List Char) :
    ans (compData m s) = mapOpt (fun c => m.lookup c) s := by
  induction s with
  | nil => rfl
  | cons c cs ih =>
    simp only [compData, mapOpt]
    cases hc : m.lookup c with
    | none => rfl
    | some d =>
      simp only [bind, Except.bind]
      cases hr : compData m cs with
      | error e => rw [hr] at ih; simp only [ans_error] at ih; rw [← ih]; rfl
      | ok r => rw [hr] at ih; simp only [ans_ok] at ih; rw [← ih]; rfl

/-- the text of `reverse_complement()` is the reference reverse complement -/
theorem ans_rcData (alph : List Char) (hnt : isNt alph = true) (s : List Char) :
    ans (rcData alph s) = revcomp alph s := by
  obtain ⟨m, hm, hl⟩ := rcMap_ok alph hnt
  unfold rcData revcomp
  simp only [hm, bind, Except.bind]
  rw [ans_compData, compAll_eq]
  exact mapOpt_congr _ _ _ (fun c _ => map_lookup_eq alph m hl c)

end BioCantor.Proofs.Sq
