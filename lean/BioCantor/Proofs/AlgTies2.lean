/-
  Ties between the GENERATED parent-less set-algebra kernels (`Gen/Kernels.lean`, re-translated from /repo's
  location_impl.py / location.py on every run: `SingleInterval._union_single_interval`, `SingleInterval.intersection`,
  `Location.contains`, `SingleInterval.has_overlap` with a CompoundInterval argument, `SingleInterval.minus`,
  `CompoundInterval._union_single_interval`) and the hand-written C02 model (`Model/Algebra.lean`).

  The kernels return `LocOut`: object constructions (`CompoundInterval(...)`,
  `CompoundInterval._from_single_intervals_no_validation(...)`, `.optimize_blocks()`) stay symbolic; `finishLoc` is
  the model's reading of them (`mkCompoundLoc`, `optimizeLoc true`).
-/
import BioCantor.Proofs.AlgTies
import BioCantor.Proofs.LoopTies
set_option autoImplicit false
namespace BioCantor.Proofs.AlgTies2
open BioCantor BioCantor.GenP BioCantor.Proofs.Ties BioCantor.Proofs.LoopTies BioCantor.Proofs.AlgTies BioCantor.Model
open BioCantor.Model.LoopGlue (siBlk zipBlk)

/-- The model's reading of the object constructions a `LocOut` keeps symbolic:
    `CompoundInterval(starts, ends, strand, …)` is `mkCompoundLoc` (LocationException for lists of different length /
    no block, InvalidPosition for a negative start or start > end, sorting); `_from_single_intervals_no_validation`
    takes starts/ends/strand from the blocks (`intervals[0].strand`; on an empty list Python raises IndexError, which
    no kernel produces: they all append a block first); `.optimize_blocks()` is `optimizeLoc true`. -/
def finishLoc : LocOut → R Location
  | .single s => pure (siLoc s)
  | .empty => pure .empty
  | .compound starts ends st opt =>
    if starts.length ≠ ends.length then throw .Location
    else if starts.any (fun x => decide (x < 0)) then throw .InvalidPosition
    else do
      let c ← mkCompoundLoc (zipBlk starts ends) st
      if opt then optimizeLoc true c else pure (.compound c)
  | .fromBlocks [] _ => throw .Location
  | .fromBlocks (b :: bs) opt =>
    if (b :: bs).any (fun x => decide (x.start < 0)) then throw .InvalidPosition
    else do
      let c ← mkCompoundLoc ((b :: bs).map siBlk) b.strand
      if opt then optimizeLoc true c else pure (.compound c)

theorem mkSI_si (b : Blk) (hb : b.1 ≤ b.2) (st : Strand) : mkSI (b.1 : Int) (b.2 : Int) st = .ok (si b st) := by
  unfold mkSI si
  have : (0 : Int) ≤ (b.1 : Int) ∧ (b.1 : Int) ≤ (b.2 : Int) := by omega
  rw [if_pos this]

theorem mkSI_nat (s e : Nat) (h : s ≤ e) (st : Strand) : mkSI (s : Int) (e : Int) st = .ok (si (s, e) st) :=
  mkSI_si (s, e) h st

theorem len_zero_iff (b : Blk) (hb : b.1 ≤ b.2) : ((b.2 : Int) - (b.1 : Int) = 0) ↔ b.len = 0 := by
  unfold Blk.len; omega

/-! ### SingleInterval._union_single_interval -/

theorem union_ss (a b : Blk) (ha : a.1 ≤ a.2) (hb : b.1 ≤ b.2) (st : Strand) :
    AgreeK finishLoc (Gen.SingleInterval_union_single_interval (si a st) (si b st)) (unionSS a b st true) := by
  unfold Gen.SingleInterval_union_single_interval unionSS
  have e1 : (si a st).«end» - (si a st).start = (a.2 : Int) - (a.1 : Int) := rfl
  have e2 : (si b st).«end» - (si b st).start = (b.2 : Int) - (b.1 : Int) := rfl
  simp only [e1, e2, len_zero_iff a ha, len_zero_iff b hb]
  by_cases h1 : a.len = 0
  · simp only [h1, if_true]
    show AgreeK finishLoc (match mkSI (b.1 : Int) (b.2 : Int) st with
      | .error e => .error e | .ok t => .ok (LocOut.single t)) _
    rw [mkSI_si b hb]
    simp only [AgreeK, finishLoc, mkSingleN, hb, if_true, siLoc_si]
  · simp only [h1, if_false]
    by_cases h2 : b.len = 0
    · simp only [h2, if_true]
      show AgreeK finishLoc (match mkSI (a.1 : Int) (a.2 : Int) st with
        | .error e => .error e | .ok t => .ok (LocOut.single t)) _
      rw [mkSI_si a ha]
      simp only [AgreeK, finishLoc, mkSingleN, ha, if_true, siLoc_si]
    · simp only [h2, if_false, si_has_overlap a b ha hb st st false]
      simp only [Bool.false_eq_true, false_and, if_false, Bool.true_and]
      by_cases ho : overlapKernel a b = true
      · simp only [ho, if_true]
        have hmin : min ((si a st).start) ((si b st).start) = ((min a.1 b.1 : Nat) : Int) := by
          show min (a.1 : Int) (b.1 : Int) = _; omega
        have hmax : max ((si a st).«end») ((si b st).«end») = ((max a.2 b.2 : Nat) : Int) := by
          show max (a.2 : Int) (b.2 : Int) = _; omega
        have hle : min a.1 b.1 ≤ max a.2 b.2 := by omega
        rw [hmin, hmax]
        have hs : (si a st).strand = st := rfl
        rw [hs, mkSI_nat _ _ hle]
        simp only [AgreeK, finishLoc, mkSingleN, hle, if_true, siLoc_si]
      · simp only [ho, if_false, Bool.false_eq_true]
        have hs : (si a st).strand = st := rfl
        have hs' : (si b st).strand = st := rfl
        simp only [hs, hs', ne_eq, not_true_eq_false, if_false]
        simp only [AgreeK, finishLoc, si, zipBlk, mkCompound]
        simp [bind, Except.bind, pure, Except.pure]
        intro h
        rcases h with h | h <;> omega

/-! ### SingleInterval.intersection (SingleInterval argument) -/

/-- the generated method as a closed form: strand gate, overlap kernel, then `(max starts, min ends)` on self's strand;
    never raises on constructor-valid operands -/
theorem intersection_eq (a b : Blk) (ha : a.1 ≤ a.2) (hb : b.1 ≤ b.2) (sa sb : Strand) (ms : Bool) :
    Gen.SingleInterval_intersection (si a sa) (si b sb) ms
      = .ok (if (ms = true ∧ sa ≠ sb) ∨ overlapKernel a b = false then none else some (si (isectBlk a b) sa)) := by
  unfold Gen.SingleInterval_intersection
  rw [si_has_overlap a b ha hb sa sb ms]
  by_cases hg : ms = true ∧ sa ≠ sb
  · simp [hg]
  · simp only [hg, if_false, false_or]
    cases ho : overlapKernel a b with
    | false => simp
    | true =>
      have := (Ties.intersection_of_overlap a b sa sb ho).1
      simp only [isectBlk, this]
      simp

theorem intersection_ss (a b : Blk) (ha : a.1 ≤ a.2) (hb : b.1 ≤ b.2) (sa sb : Strand) (ms : Bool) :
    Agree optLoc (Gen.SingleInterval_intersection (si a sa) (si b sb) ms) (isectSS a sa b sb ms) := by
  unfold Agree
  rw [intersection_eq a b ha hb sa sb ms]
  unfold isectSS view
  by_cases hg : ms = true ∧ sa ≠ sb
  · simp [hg, optLoc]; rfl
  · simp only [hg, if_false, false_or]
    cases ho : overlapKernel a b with
    | false => simp [optLoc]; rfl
    | true =>
      have hlt := (Ties.intersection_of_overlap a b sa sb ho).2
      have hle : (isectBlk a b).1 ≤ (isectBlk a b).2 := by unfold isectBlk; simp only; omega
      simp [optLoc, mkSingleN, hle, siLoc_si]
      rfl

/-! ### Location.contains (two parent-less SingleIntervals) -/

theorem optSILen_si (b : Blk) (st : Strand) : optSILen (some (si b st)) = (b.2 : Int) - (b.1 : Int) := rfl

theorem reset_parent_si (b : Blk) (hb : b.1 ≤ b.2) (st : Strand) :
    Gen.SingleInterval_reset_parent (si b st) = .ok (si b st) := by
  unfold Gen.SingleInterval_reset_parent
  have : mkSI (si b st).start (si b st).«end» (si b st).strand = .ok (si b st) := mkSI_si b hb st
  rw [this]

/-- the generated `Location.contains` on two parent-less SingleIntervals: strand gate, then the model's `containsBlk`;
    never raises -/
theorem contains_eq (x y : Blk) (hx : x.1 ≤ x.2) (hy : y.1 ≤ y.2) (sx sy : Strand) (ms : Bool) :
    Gen.Location_contains_si (si x sx) (si y sy) ms
      = .ok (if ms = true ∧ sx ≠ sy then false else containsBlk x y) := by
  unfold Gen.Location_contains_si
  rw [si_has_overlap x y hx hy sx sy ms]
  by_cases hg : ms = true ∧ sx ≠ sy
  · simp [hg]
  · simp only [hg, if_false]
    cases ho : overlapKernel x y with
    | false => simp [containsBlk, ho]
    | true =>
      simp only [reset_parent_si y hy, reset_parent_si x hx, intersection_eq x y hx hy sx sy ms, hg, ho, false_or,
        not_true_eq_false, if_false, Bool.true_eq_false, optSILen_si]
      have hlt := (Ties.intersection_of_overlap x y sx sy ho).2
      have e2 : (si y sy).«end» - (si y sy).start = (y.2 : Int) - (y.1 : Int) := rfl
      simp only [e2, containsBlk, ho, Bool.true_and]
      unfold isectBlk at hlt ⊢
      simp only at hlt ⊢
      congr 1
      by_cases he : min x.2 y.2 - max x.1 y.1 = y.2 - y.1
      · have : ((min x.2 y.2 : Nat) : Int) - ((max x.1 y.1 : Nat) : Int) = (y.2 : Int) - (y.1 : Int) := by omega
        simp [he, this]
      · have : ¬ (((min x.2 y.2 : Nat) : Int) - ((max x.1 y.1 : Nat) : Int) = (y.2 : Int) - (y.1 : Int)) := by omega
        simp [he, this]

/-! ### SingleInterval.has_overlap with a CompoundInterval argument -/

theorem ci_has_overlap_eq (l : Loc) (hv : blocksValid l.blocks = true) (b : Blk) (hb : b.1 ≤ b.2) (sb : Strand)
    (ms : Bool) :
    Gen.CompoundInterval_has_overlap (toCI l) (si b sb) ms
      = .ok (if ms = true ∧ l.strand ≠ sb then false else l.blocks.any (fun x => overlapKernel x b)) := by
  have h := has_overlap_tie l hv b hb sb ms
  unfold Agree view at h
  cases hg : Gen.CompoundInterval_has_overlap (toCI l) (si b sb) ms with
  | error e =>
    rw [hg] at h
    cases he : mapExc e <;> simp [he, Model.hasOverlap] at h <;> split at h <;> simp [pure, Except.pure] at h
  | ok v =>
    rw [hg] at h
    simp only [id, Option.some.injEq, Model.hasOverlap, Bool.false_eq_true, if_false] at h
    by_cases hm : ms = true ∧ l.strand ≠ sb
    · rw [if_pos hm] at h ⊢
      simpa [pure, Except.pure] using h
    · rw [if_neg hm] at h ⊢
      simpa [pure, Except.pure] using h

theorem has_overlap_ci_eq (a : Blk) (ha : a.1 ≤ a.2) (sa : Strand) (l : Loc) (hv : blocksValid l.blocks = true)
    (ms : Bool) :
    Gen.SingleInterval_has_overlap_ci (si a sa) (toCI l) ms
      = .ok (if ms = true ∧ sa ≠ l.strand then false else l.blocks.any (fun x => overlapKernel x a)) := by
  unfold Gen.SingleInterval_has_overlap_ci
  have hs : (si a sa).strand = sa := rfl
  have hl : (toCI l).strand = l.strand := rfl
  rw [hs, hl, ci_has_overlap_eq l hv a ha sa ms]
  by_cases hm : ms = true ∧ sa ≠ l.strand
  · simp [hm]
  · have hm' : ¬ (ms = true ∧ l.strand ≠ sa) := by
      intro h; exact hm ⟨h.1, fun e => h.2 e.symm⟩
    simp [hm, hm']

theorem has_overlap_ci (a : Blk) (ha : a.1 ≤ a.2) (sa : Strand) (l : Loc) (hv : blocksValid l.blocks = true)
    (ms : Bool) :
    Agree id (Gen.SingleInterval_has_overlap_ci (si a sa) (toCI l) ms)
      (Model.hasOverlap (.single a sa) (.compound l) ms false) := by
  unfold Agree
  rw [has_overlap_ci_eq a ha sa l hv ms]
  unfold Model.hasOverlap view
  by_cases hm : ms = true ∧ sa ≠ l.strand
  · simp [hm]; rfl
  · simp [hm]; rfl

/-! ### SingleInterval.minus (CompoundInterval argument) -/

/-- `result_starts` / `result_ends` of the model's accumulator (kept reversed) -/
def accS (acc : List Blk) : List Int := acc.reverse.map (fun b => (b.1 : Int))
def accE (acc : List Blk) : List Int := acc.reverse.map (fun b => (b.2 : Int))

theorem accS_cons (b : Blk) (acc : List Blk) : accS (b :: acc) = accS acc ++ [(b.1 : Int)] := by simp [accS]
theorem accE_cons (b : Blk) (acc : List Blk) : accE (b :: acc) = accE acc ++ [(b.2 : Int)] := by simp [accE]

/-- what `SingleInterval.minus` does with the loop's outcome -/
def afterMinus (st : Strand) : PyR (LoopOut LocOut (List Int × List Int × Int × Int)) → PyR LocOut
  | .error e => .error e
  | .ok (.ret r) => .ok r
  | .ok (.done (rs, re, cs, ce)) => .ok (.compound (rs ++ [cs]) (re ++ [ce]) st true)

/-- the model's `minusWalk` result as the kernel's answer -/
def walkOut (st : Strand) : Option (List Blk) → LocOut
  | none => .empty
  | some bs => .compound (bs.map (fun b => (b.1 : Int))) (bs.map (fun b => (b.2 : Int))) st true

theorem walkOut_some (st : Strand) (acc : List Blk) (cs ce : Nat) :
    walkOut st (some (acc.reverse ++ [(cs, ce)]))
      = .compound (accS acc ++ [(cs : Int)]) (accE acc ++ [(ce : Int)]) st true := by
  simp [walkOut, accS, accE]

/-- loop invariant of the moving-window loop: generated loop function = `Model.minusWalk`.  `hgate`: the strand test
    inside `block.contains(self, match_strand)` was decided by the enclosing `has_overlap`. -/
theorem minus_loop (self : Blk) (hs : self.1 ≤ self.2) (sa st out : Strand) (ms : Bool)
    (hgate : ¬ (ms = true ∧ st ≠ sa)) :
    ∀ (bs : List Blk) (cs ce : Nat) (acc : List Blk), blocksValid bs = true →
      afterMinus out (Gen.SingleInterval_minus_loop1 (si self sa) ms (bs.map (fun b => si b st))
          (accS acc) (accE acc) (cs : Int) (ce : Int))
        = .ok (walkOut out (minusWalk self bs cs ce acc)) := by
  intro bs
  induction bs with
  | nil =>
    intro cs ce acc _
    simp only [List.map_nil, Gen.SingleInterval_minus_loop1, afterMinus, minusWalk, walkOut_some]
  | cons b bs ih =>
    intro cs ce acc hv
    obtain ⟨hb, hv'⟩ := (blocksValid_cons' b bs).1 hv
    simp only [List.map_cons, Gen.SingleInterval_minus_loop1, contains_eq b self hb hs st sa ms, hgate, if_false,
      minusWalk]
    have e1 : (si b st).start = (b.1 : Int) := rfl
    have e2 : (si b st).«end» = (b.2 : Int) := rfl
    rw [e1, e2]
    cases hc : containsBlk b self with
    | true => simp [afterMinus, walkOut]
    | false =>
      simp only [Bool.false_eq_true, if_false]
      by_cases c1 : b.2 ≤ cs
      · have c1' : (b.2 : Int) ≤ (cs : Int) := by omega
        simp only [c1, c1', if_true]
        exact ih cs ce acc hv'
      · have c1' : ¬ ((b.2 : Int) ≤ (cs : Int)) := by omega
        simp only [c1, c1', if_false]
        by_cases c2 : b.1 ≥ ce
        · have c2' : (b.1 : Int) ≥ (ce : Int) := by omega
          simp only [c2, c2', if_true, afterMinus, walkOut_some]
        · have c2' : ¬ ((b.1 : Int) ≥ (ce : Int)) := by omega
          simp only [c2, c2', if_false]
          by_cases c3 : b.1 ≥ cs ∧ b.2 ≤ ce
          · have c3' : (b.1 : Int) ≥ (cs : Int) ∧ (b.2 : Int) ≤ (ce : Int) := by omega
            simp only [c3, c3', if_true]
            have := ih b.2 ce ((cs, b.1) :: acc) hv'
            simp only [accS_cons, accE_cons] at this
            exact this
          · have c3' : ¬ ((b.1 : Int) ≥ (cs : Int) ∧ (b.2 : Int) ≤ (ce : Int)) := by omega
            simp only [c3, c3', if_false]
            by_cases c4 : b.1 < cs ∧ b.2 ≤ ce
            · have c4' : (b.1 : Int) < (cs : Int) ∧ (b.2 : Int) ≤ (ce : Int) := by omega
              simp only [c4, c4', if_true]
              exact ih b.2 ce acc hv'
            · have c4' : ¬ ((b.1 : Int) < (cs : Int) ∧ (b.2 : Int) ≤ (ce : Int)) := by omega
              simp only [c4, c4', if_false, afterMinus, walkOut_some]

theorem zipBlk_cast (bs : List Blk) :
    zipBlk (bs.map (fun b => (b.1 : Int))) (bs.map (fun b => (b.2 : Int))) = bs := by
  unfold zipBlk
  rw [zip_map_map]
  induction bs with
  | nil => rfl
  | cons b bs ih => simp only [List.map_cons, Int.toNat_natCast, ih]

theorem any_neg_cast (bs : List Blk) : (bs.map (fun b => (b.1 : Int))).any (fun x => decide (x < 0)) = false := by
  induction bs with
  | nil => rfl
  | cons b bs ih =>
    simp only [List.map_cons, List.any_cons, ih, Bool.or_false, decide_eq_false_iff_not]
    omega

theorem finishLoc_walkOut (st : Strand) (w : Option (List Blk)) :
    finishLoc (walkOut st w)
      = (match w with
         | none => .ok .empty
         | some bs =>
           match mkCompoundLoc bs st with
           | .error e => .error e
           | .ok c => optimizeLoc true c) := by
  cases w with
  | none => rfl
  | some bs =>
    simp only [walkOut, finishLoc, List.length_map, ne_eq, not_true_eq_false, if_false, any_neg_cast,
      Bool.false_eq_true, zipBlk_cast, if_true]
    cases mkCompoundLoc bs st <;> rfl

theorem minus_tie (a : Blk) (ha : a.1 ≤ a.2) (sa : Strand) (l : Loc) (hv : blocksValid l.blocks = true) (ms : Bool) :
    AgreeK finishLoc (Gen.SingleInterval_minus (si a sa) (toCI l) ms) (singleMinus a sa (.compound l) ms) := by
  unfold Gen.SingleInterval_minus singleMinus hasOverlapN
  rw [has_overlap_ci_eq a ha sa l hv ms]
  have hmodel : Model.hasOverlap (.single a sa) (.compound l) ms false
      = .ok (if ms = true ∧ sa ≠ l.strand then false else l.blocks.any (fun x => overlapKernel x a)) := by
    simp only [Model.hasOverlap, Bool.false_eq_true, if_false]
    by_cases hm : ms = true ∧ sa ≠ l.strand
    · rw [if_pos hm, if_pos hm]; rfl
    · rw [if_neg hm, if_neg hm]; rfl
  simp only [hmodel, bind, Except.bind, locBlocks]
  cases hov : (if ms = true ∧ sa ≠ l.strand then false else l.blocks.any (fun x => overlapKernel x a)) with
  | false =>
    simp [AgreeK, finishLoc, siLoc_si, pure, Except.pure]
  | true =>
    have hm : ¬ (ms = true ∧ sa ≠ l.strand) := by
      intro h; rw [if_pos h] at hov; exact absurd hov (by decide)
    simp only [Bool.not_true, Bool.false_eq_true, not_true_eq_false, if_false]
    have hgate : ¬ (ms = true ∧ l.strand ≠ sa) := fun h => hm ⟨h.1, fun e => h.2 e.symm⟩
    have hloop := minus_loop a ha sa l.strand sa ms hgate l.blocks a.1 a.2 [] hv
    have hb : (toCI l).blocks = l.blocks.map (fun b => si b l.strand) := rfl
    have hst : (si a sa).start = (a.1 : Int) := rfl
    have hen : (si a sa).«end» = (a.2 : Int) := rfl
    have hstr : (si a sa).strand = sa := rfl
    rw [hb, hst, hen, hstr]
    simp only [accS, accE, List.reverse_nil, List.map_nil] at hloop
    generalize Gen.SingleInterval_minus_loop1 (si a sa) ms (l.blocks.map (fun b => si b l.strand)) [] []
      (a.1 : Int) (a.2 : Int) = r at hloop ⊢
    cases r with
    | error e => simp [afterMinus] at hloop
    | ok o =>
      cases o with
      | ret r_ =>
        simp only [afterMinus, Except.ok.injEq] at hloop
        subst hloop
        simp only [AgreeK, finishLoc_walkOut]
        cases minusWalk a l.blocks a.1 a.2 [] with
        | none => rfl
        | some bs => simp only []; cases mkCompoundLoc bs sa <;> rfl
      | done s =>
        obtain ⟨rs, re, cs, ce⟩ := s
        simp only [afterMinus, Except.ok.injEq] at hloop
        simp only [hloop, AgreeK, finishLoc_walkOut]
        cases minusWalk a l.blocks a.1 a.2 [] with
        | none => rfl
        | some bs => simp only []; cases mkCompoundLoc bs sa <;> rfl

/-! ### CompoundInterval._union_single_interval -/

theorem union_loop (b : Blk) (hb : b.1 ≤ b.2) (st : Strand) :
    ∀ (bs ov non : List Blk), blocksValid bs = true →
      Gen.CompoundInterval_union_single_interval_loop1 (si b st) (bs.map (fun x => si x st))
          (ov.map (fun x => si x st)) (non.map (fun x => si x st))
        = .ok (.done ((ov ++ bs.filter (fun x => overlapKernel x b)).map (fun x => si x st),
                      (non ++ bs.filter (fun x => !(overlapKernel x b))).map (fun x => si x st))) := by
  intro bs
  induction bs with
  | nil => intro ov non _; simp [Gen.CompoundInterval_union_single_interval_loop1]
  | cons x xs ih =>
    intro ov non hv
    obtain ⟨hx, hv'⟩ := (blocksValid_cons' x xs).1 hv
    simp only [List.map_cons, Gen.CompoundInterval_union_single_interval_loop1, si_has_overlap x b hx hb st st false,
      Bool.false_eq_true, false_and, if_false]
    cases ho : overlapKernel x b with
    | true =>
      have := ih (ov ++ [x]) non hv'
      simp only [List.map_append, List.map_cons, List.map_nil] at this
      simp only [if_true, this, List.filter_cons, ho, Bool.not_true, Bool.false_eq_true, if_false, List.map_append,
        List.map_cons, List.append_assoc, List.singleton_append]
    | false =>
      have := ih ov (non ++ [x]) hv'
      simp only [List.map_append, List.map_cons, List.map_nil] at this
      simp only [Bool.false_eq_true, if_false, this, List.filter_cons, ho, Bool.not_false, if_true, List.map_append,
        List.map_cons, List.append_assoc, List.singleton_append]

theorem foldl_min_cast (xs : List Blk) : ∀ (m : Nat),
    List.foldl min (m : Int) (xs.map (fun x : Blk => (x.1 : Int))) = ((xs.foldl (fun m x => min m x.1) m : Nat) : Int) := by
  induction xs with
  | nil => intro m; rfl
  | cons x xs ih =>
    intro m
    have : min (m : Int) (x.1 : Int) = ((min m x.1 : Nat) : Int) := by omega
    simp only [List.map_cons, List.foldl_cons, this, ih]

theorem foldl_max_cast (xs : List Blk) : ∀ (m : Nat),
    List.foldl max (m : Int) (xs.map (fun x : Blk => (x.2 : Int))) = ((xs.foldl (fun m x => max m x.2) m : Nat) : Int) := by
  induction xs with
  | nil => intro m; rfl
  | cons x xs ih =>
    intro m
    have : max (m : Int) (x.2 : Int) = ((max m x.2 : Nat) : Int) := by omega
    simp only [List.map_cons, List.foldl_cons, this, ih]

theorem min_foldl (xs : List Int) : ∀ (c m : Int), min c (xs.foldl min m) = xs.foldl min (min c m) := by
  induction xs with
  | nil => intro c m; rfl
  | cons x xs ih =>
    intro c m
    have : min c (min m x) = min (min c m) x := by omega
    simp only [List.foldl_cons, ih, this]

theorem max_foldl (xs : List Int) : ∀ (c m : Int), max c (xs.foldl max m) = xs.foldl max (max c m) := by
  induction xs with
  | nil => intro c m; rfl
  | cons x xs ih =>
    intro c m
    have : max c (max m x) = max (max c m) x := by omega
    simp only [List.foldl_cons, ih, this]

/-- `min(other.start, min([block.start for block in overlapping_blocks]))` on a non-empty list is the model's fold -/
theorem min_all (b0 : Nat) (x : Blk) (xs : List Blk) (st : Strand) :
    pyMinList (List.map (fun block : SI => block.start) ((x :: xs).map (fun y => si y st)))
      = .ok (List.foldl min (x.1 : Int) (xs.map (fun y : Blk => (y.1 : Int))))
    ∧ min (b0 : Int) (List.foldl min (x.1 : Int) (xs.map (fun y : Blk => (y.1 : Int))))
      = (((x :: xs).foldl (fun m y => min m y.1) b0 : Nat) : Int) := by
  constructor
  · simp only [List.map_cons, List.map_map, pyMinList]
    rfl
  · have : min (b0 : Int) (x.1 : Int) = ((min b0 x.1 : Nat) : Int) := by omega
    rw [min_foldl, this, foldl_min_cast, List.foldl_cons]

theorem max_all (b0 : Nat) (x : Blk) (xs : List Blk) (st : Strand) :
    pyMaxList (List.map (fun block : SI => block.«end») ((x :: xs).map (fun y => si y st)))
      = .ok (List.foldl max (x.2 : Int) (xs.map (fun y : Blk => (y.2 : Int))))
    ∧ max (b0 : Int) (List.foldl max (x.2 : Int) (xs.map (fun y : Blk => (y.2 : Int))))
      = (((x :: xs).foldl (fun m y => max m y.2) b0 : Nat) : Int) := by
  constructor
  · simp only [List.map_cons, List.map_map, pyMaxList]
    rfl
  · have : max (b0 : Int) (x.2 : Int) = ((max b0 x.2 : Nat) : Int) := by omega
    rw [max_foldl, this, foldl_max_cast, List.foldl_cons]

theorem any_neg_si (xs : List Blk) (st : Strand) :
    (xs.map (fun x => si x st)).any (fun s => decide (s.start < 0)) = false := by
  induction xs with
  | nil => rfl
  | cons x xs ih =>
    simp only [List.map_cons, List.any_cons, ih, Bool.or_false, decide_eq_false_iff_not]
    show ¬ ((x.1 : Int) < 0)
    omega

/-- `_from_single_intervals_no_validation(blocks).optimize_blocks()` on a non-empty list of blocks of one strand -/
theorem finishLoc_fromBlocks (xs : List Blk) (hne : xs ≠ []) (st : Strand) :
    finishLoc (.fromBlocks (xs.map (fun x => si x st)) true)
      = (match mkCompoundLoc xs st with
         | .error e => .error e
         | .ok c => optimizeLoc true c) := by
  cases xs with
  | nil => exact absurd rfl hne
  | cons x xs =>
    have hany := any_neg_si (x :: xs) st
    simp only [List.map_cons] at hany
    simp only [List.map_cons, finishLoc, hany, Bool.false_eq_true, if_false, if_true]
    have hm : siBlk (si x st) :: List.map siBlk (List.map (fun x => si x st) xs) = x :: xs := by
      rw [siBlk_si, map_siBlk_si]
    have hs : (si x st).strand = st := rfl
    rw [hm, hs]
    cases mkCompoundLoc (x :: xs) st <;> rfl

theorem union_cs (l : Loc) (hv : blocksValid l.blocks = true) (b : Blk) (hb : b.1 ≤ b.2) :
    AgreeK finishLoc (Gen.CompoundInterval_union_single_interval (toCI l) (si b l.strand)) (unionCS l b true) := by
  unfold Gen.CompoundInterval_union_single_interval unionCS
  have hloop := union_loop b hb l.strand l.blocks [] [] hv
  simp only [List.map_nil, List.nil_append] at hloop
  have hb' : (toCI l).blocks = l.blocks.map (fun x => si x l.strand) := rfl
  have hstr : (toCI l).strand = l.strand := rfl
  simp only [hb', hloop, hstr, Bool.true_and]
  cases hov : l.blocks.filter (fun x => overlapKernel x b) with
  | nil =>
    simp only [List.map_nil, ne_eq, not_true_eq_false, if_false, List.isEmpty_nil, Bool.not_true, Bool.false_eq_true]
    have : List.map (fun x => si x l.strand) (l.blocks.filter (fun x => !overlapKernel x b)) ++ [si b l.strand]
        = (l.blocks.filter (fun x => !overlapKernel x b) ++ [b]).map (fun x => si x l.strand) := by simp
    rw [this]
    have hf := finishLoc_fromBlocks (l.blocks.filter (fun x => !overlapKernel x b) ++ [b]) (by simp) l.strand
    simp only [AgreeK, hf]
    cases mkCompoundLoc (l.blocks.filter (fun x => !overlapKernel x b) ++ [b]) l.strand <;> rfl
  | cons x xs =>
    obtain ⟨hmin1, hmin2⟩ := min_all b.1 x xs l.strand
    obtain ⟨hmax1, hmax2⟩ := max_all b.2 x xs l.strand
    have hne : (List.map (fun x => si x l.strand) (x :: xs) ≠ []) := by simp
    rw [if_pos hne]
    simp only [if_true, hmin1, hmax1, List.isEmpty_cons, Bool.not_false]
    have hs : (si b l.strand).start = (b.1 : Int) := rfl
    have he : (si b l.strand).«end» = (b.2 : Int) := rfl
    rw [hs, he, hmin2, hmax2]
    by_cases hle : (x :: xs).foldl (fun m y => min m y.1) b.1 ≤ (x :: xs).foldl (fun m y => max m y.2) b.2
    · rw [mkSI_nat _ _ hle]
      simp only [hle, if_true]
      have : List.map (fun x => si x l.strand) (l.blocks.filter (fun x => !overlapKernel x b))
            ++ [si ((x :: xs).foldl (fun m y => min m y.1) b.1, (x :: xs).foldl (fun m y => max m y.2) b.2) l.strand]
          = (l.blocks.filter (fun x => !overlapKernel x b)
              ++ [((x :: xs).foldl (fun m y => min m y.1) b.1, (x :: xs).foldl (fun m y => max m y.2) b.2)]).map
              (fun x => si x l.strand) := by simp
      rw [this]
      have hf := finishLoc_fromBlocks (l.blocks.filter (fun x => !overlapKernel x b)
          ++ [((x :: xs).foldl (fun m y => min m y.1) b.1, (x :: xs).foldl (fun m y => max m y.2) b.2)]) (by simp) l.strand
      simp only [AgreeK, hf]
      cases mkCompoundLoc (l.blocks.filter (fun x => !overlapKernel x b)
          ++ [((x :: xs).foldl (fun m y => min m y.1) b.1, (x :: xs).foldl (fun m y => max m y.2) b.2)]) l.strand <;> rfl
    · have hbad : ¬ ((0 : Int) ≤ (((x :: xs).foldl (fun m y => min m y.1) b.1 : Nat) : Int)
          ∧ (((x :: xs).foldl (fun m y => min m y.1) b.1 : Nat) : Int)
            ≤ (((x :: xs).foldl (fun m y => max m y.2) b.2 : Nat) : Int)) := by omega
      simp only [mkSI, hbad, if_false, hle]
      exact ⟨.InvalidPosition, rfl, rfl⟩

/-! ### CompoundInterval.shift_position -/

/-- a parent-less result of the model's located functions -/
def finishLocP (o : LocOut) : R PLoc :=
  match finishLoc o with
  | .error e => .error e
  | .ok r => .ok (r, [])

theorem any_shift_neg (bs : List Blk) (k : Int) (st : Strand) :
    (List.map (fun interval : SI => interval.start + k) (bs.map (fun b => si b st))).any (fun x => decide (x < 0))
      = bs.any (fun b => decide ((b.1 : Int) + k < 0)) := by
  induction bs with
  | nil => rfl
  | cons b bs ih =>
    simp only [List.map_cons, List.any_cons, ih]
    rfl

theorem zipBlk_shift (bs : List Blk) (k : Int) (st : Strand) :
    zipBlk (List.map (fun interval : SI => interval.start + k) (bs.map (fun b => si b st)))
        (List.map (fun interval : SI => interval.«end» + k) (bs.map (fun b => si b st)))
      = bs.map (fun b => (((b.1 : Int) + k).toNat, ((b.2 : Int) + k).toNat)) := by
  unfold zipBlk
  induction bs with
  | nil => rfl
  | cons b bs ih =>
    simp only [List.map_cons, List.zip_cons_cons, ih]
    rfl

theorem shift_cs (l : Loc) (k : Int) :
    AgreeK finishLocP (Gen.CompoundInterval_shift_position (toCI l) k) (shiftP (.compound l, []) k) := by
  unfold Gen.CompoundInterval_shift_position shiftP
  have hb : (toCI l).blocks = l.blocks.map (fun b => si b l.strand) := rfl
  have hs : (toCI l).strand = l.strand := rfl
  simp only [AgreeK, finishLocP, finishLoc, hb, hs, List.length_map, ne_eq, not_true_eq_false, if_false,
    any_shift_neg, zipBlk_shift, Bool.false_eq_true]
  cases hany : l.blocks.any (fun b => decide ((b.1 : Int) + k < 0)) with
  | true => rfl
  | false =>
    simp only [Bool.false_eq_true, if_false, mkCompoundP, bind, Except.bind, pure, Except.pure]
    cases mkCompoundLoc (l.blocks.map (fun b => (((b.1 : Int) + k).toNat, ((b.2 : Int) + k).toNat))) l.strand with
    | error e => rfl
    | ok c => rfl

end BioCantor.Proofs.AlgTies2
