/-
  C02-T9: `distance_to` is the documented function of the end points.
-/
import BioCantor.Proofs.AlgOverlap
import BioCantor.Proofs.AlgOptimize
namespace BioCantor.Proofs.Dist
open BioCantor BioCantor.Spec BioCantor.Model BioCantor.Proofs

/-! ### `minList` and the running minimum -/

theorem minList_iff (l : List Nat) (m : Nat) : minList l = some m ↔ m ∈ l ∧ ∀ x ∈ l, m ≤ x := by
  induction l generalizing m with
  | nil => simp [minList]
  | cons a t ih =>
    unfold minList
    cases h : minList t with
    | none =>
      have ht : t = [] := by
        cases t with
        | nil => rfl
        | cons b u =>
          unfold minList at h
          cases h2 : minList u <;> simp [h2] at h
      subst ht
      simp only [Option.some.injEq, List.mem_singleton]
      constructor
      · rintro rfl; exact ⟨rfl, fun x hx => by subst hx; exact Nat.le_refl _⟩
      · rintro ⟨rfl, _⟩; rfl
    | some k =>
      have hk := (ih k).mp h
      simp only [Option.some.injEq, List.mem_cons]
      constructor
      · rintro rfl
        refine ⟨?_, ?_⟩
        · by_cases hak : a ≤ k
          · left; omega
          · right; have : min a k = k := by omega
            rw [this]; exact hk.1
        · intro x hx
          rcases hx with rfl | hx
          · omega
          · have := hk.2 x hx; omega
      · rintro ⟨hm, hle⟩
        have h1 := hle a (Or.inl rfl)
        have h2 := hle k (Or.inr hk.1)
        rcases hm with rfl | hm
        · omega
        · have := hk.2 m hm; omega

theorem minList_isSome (l : List Nat) (h : l ≠ []) : ∃ m, minList l = some m := by
  cases l with
  | nil => exact absurd rfl h
  | cons a t =>
    unfold minList
    cases minList t with
    | none => exact ⟨a, rfl⟩
    | some k => exact ⟨min a k, rfl⟩

theorem minList_cons_min (x d : Nat) (l : List Nat) :
    minList ((if x < d then x else d) :: l) = minList (d :: x :: l) := by
  simp only [minList]
  cases minList l with
  | none => simp only [Option.some.injEq]; split <;> omega
  | some m => simp only [Option.some.injEq]; split <;> omega

theorem minOver_some (f : Blk → Nat) (bs : List Blk) (d : Nat) :
    minOver f bs (some d) = minList (d :: bs.map f) := by
  induction bs generalizing d with
  | nil => rfl
  | cons b bs ih =>
    simp only [minOver, List.map_cons]
    rw [ih, minList_cons_min]

theorem minOver_none (f : Blk → Nat) (bs : List Blk) : minOver f bs none = minList (bs.map f) := by
  cases bs with
  | nil => rfl
  | cons b bs => simp only [minOver, List.map_cons]; rw [minOver_some]

/-- the `foldl` of `CompoundInterval.distance_to` -/
def step (d : Option Nat) (v : Nat) : Option Nat :=
  match d with
  | none => some v
  | some d0 => some (if v < d0 then v else d0)

theorem foldl_some (ds : List Nat) (d : Nat) : ds.foldl step (some d) = minList (d :: ds) := by
  induction ds generalizing d with
  | nil => rfl
  | cons v vs ih =>
    simp only [List.foldl_cons, step]
    rw [ih, minList_cons_min]

theorem foldl_none (ds : List Nat) : ds.foldl step none = minList ds := by
  cases ds with
  | nil => rfl
  | cons v vs => simp only [List.foldl_cons, step]; rw [foldl_some]

/-! ### INNER -/

/-- least `innerSS x y` over the blocks `y` of the other location -/
def innerMin (x : Blk) (B : List Blk) : Nat := (minList (B.map (fun y => innerSS x y))).getD 0

theorem innerMin_spec (x : Blk) (B : List Blk) (h : B ≠ []) :
    minList (B.map (fun y => innerSS x y)) = some (innerMin x B) := by
  obtain ⟨m, hm⟩ := minList_isSome (B.map (fun y => innerSS x y)) (by simpa using h)
  simp [innerMin, hm]

theorem innerToLoc_ok (x : Blk) (l : Location) (hw : WF l) (hne : l ≠ .empty) :
    innerToLoc x l = .ok (innerMin x (locationBlocks l)) := by
  cases l with
  | empty => exact absurd rfl hne
  | single y s =>
    have := innerMin_spec x [y] (by simp)
    simp only [List.map_cons, List.map_nil, minList, Option.some.injEq] at this
    simp only [innerToLoc, locationBlocks, ← this]
    rfl
  | compound lb =>
    have hc : lb.Canon := hw
    simp only [innerToLoc, locationBlocks, minOver_none, innerMin_spec x lb.blocks hc.1]
    rfl

theorem mapM_ok {α β} (f : α → R β) (g : α → β) (l : List α) (h : ∀ x ∈ l, f x = .ok (g x)) :
    l.mapM f = .ok (l.map g) := by
  induction l with
  | nil => rfl
  | cons a t ih =>
    rw [List.mapM_cons, h a (by simp), ih (fun x hx => h x (List.mem_cons_of_mem _ hx))]
    rfl

/-- minimum over all block pairs -/
theorem minList_flatMap (g : Blk → Blk → Nat) (A B : List Blk) (hB : B ≠ []) :
    minList (A.map (fun x => (minList (B.map (g x))).getD 0)) = minList (A.flatMap (fun x => B.map (g x))) := by
  by_cases hA : A = []
  · subst hA; rfl
  · obtain ⟨d, hd⟩ := minList_isSome (A.map (fun x => (minList (B.map (g x))).getD 0)) (by simpa using hA)
    rw [hd]; symm
    rw [minList_iff] at hd ⊢
    obtain ⟨hmem, hle⟩ := hd
    have hx : ∀ x, ∃ m, minList (B.map (g x)) = some m := fun x => minList_isSome _ (by simpa using hB)
    constructor
    · obtain ⟨x0, hx0, rfl⟩ := List.mem_map.mp hmem
      obtain ⟨m, hm⟩ := hx x0
      rw [hm, Option.getD_some]
      have := ((minList_iff _ _).mp hm).1
      exact List.mem_flatMap.mpr ⟨x0, hx0, this⟩
    · intro v hv
      obtain ⟨x, hxA, hv⟩ := List.mem_flatMap.mp hv
      obtain ⟨m, hm⟩ := hx x
      have h1 := hle _ (List.mem_map.mpr ⟨x, hxA, rfl⟩)
      rw [hm, Option.getD_some] at h1
      have h2 := ((minList_iff _ _).mp hm).2 v hv
      omega

theorem flatMap_congr' {α β} (l : List α) (f g : α → List β) (h : ∀ x ∈ l, f x = g x) :
    l.flatMap f = l.flatMap g := by
  induction l with
  | nil => rfl
  | cons a t ih =>
    simp only [List.flatMap_cons]
    rw [h a (by simp), ih (fun x hx => h x (List.mem_cons_of_mem _ hx))]

theorem absDiff_eq (x y : Nat) : absDiff x y = absDist x y := rfl

/-- the minimum of `innerSS` over all pairs is the documented INNER distance -/
theorem inner_final (A B : List Blk) :
    minList (A.flatMap (fun x => B.map (fun y => innerSS x y))) =
      if A.any (fun x => B.any (fun y => overlapKernel y x)) then some 0
      else minList (A.flatMap (fun x => B.map (fun y => min (absDist x.1 y.2) (absDist x.2 y.1)))) := by
  by_cases h : A.any (fun x => B.any (fun y => overlapKernel y x)) = true
  · rw [if_pos h, minList_iff]
    refine ⟨?_, fun _ _ => Nat.zero_le _⟩
    simp only [List.any_eq_true] at h
    obtain ⟨x, hx, y, hy, hk⟩ := h
    rw [overlapKernel_comm] at hk
    exact List.mem_flatMap.mpr ⟨x, hx, List.mem_map.mpr ⟨y, hy, by simp [innerSS, hk]⟩⟩
  · rw [if_neg h]
    congr 1
    apply flatMap_congr'
    intro x hx
    apply List.map_congr_left
    intro y hy
    have hk : overlapKernel x y = false := by
      rw [Bool.eq_false_iff]; intro hk
      apply h
      rw [overlapKernel_comm] at hk
      simp only [List.any_eq_true]
      exact ⟨x, hx, y, hy, hk⟩
    simp [innerSS, hk, absDiff_eq]

/-- a shared position, in the spec's words -/
theorem shared_eq (la lb : Location) :
    anyUpTo (hiOf [la, lb]) (fun p => locationCovers la p && locationCovers lb p) =
      (locationBlocks la).any (fun x => (locationBlocks lb).any (fun y => overlapKernel y x)) := by
  apply bool_eq_of_iff
  have h := anyUpTo_cov false la lb
  simp only [covX, Bool.false_eq_true, if_false] at h
  rw [h, any_any_kernel_cov]
  simp only [locationCovers_eq]

/-! ### end points -/

theorem span_ends (l : Location) (hw : WF l) (hne : l ≠ .empty) :
    ∃ s, spanOf l = some s ∧ locStart l = .ok s.1 ∧ locEnd l = .ok s.2 := by
  cases l with
  | empty => exact absurd rfl hne
  | single b st => exact ⟨b, spanOf_single b st, rfl, rfl⟩
  | compound la =>
    obtain ⟨f, rest, hbl, hspan, _⟩ := spanOf_compound la hw
    refine ⟨_, hspan, ?_, ?_⟩
    · simp [locStart, hbl]; rfl
    · simp [locEnd, hbl]; rfl

/-- the body of `distance_to` after the parent check -/
def distBody (la lb : Location) (ty : DistType) : R Nat :=
  match ty with
  | .starts => do pure (absDiff (← locStart la) (← locStart lb))
  | .ends => do pure (absDiff (← locEnd la) (← locEnd lb))
  | .outer => do
    let sb ← locStart lb
    let eb ← locEnd lb
    let sa ← locStart la
    let ea ← locEnd la
    pure (max (absDiff sa eb) (absDiff ea sb))
  | .inner =>
    match la, lb with
    | _, .empty => throw .EmptyLocation
    | .single x _, other => innerToLoc x other
    | .compound la, other => do
      let ds ← la.blocks.mapM (fun x => innerToLoc x other)
      match ds.foldl (fun (d : Option Nat) v => match d with
                        | none => some v
                        | some d0 => some (if v < d0 then v else d0)) none with
      | some d => pure d
      | none => throw .Location
    | .empty, _ => throw .EmptyLocation

theorem distanceP_eq (a b : PLoc) (ty : DistType) (hne : a.1 ≠ .empty) :
    distanceP a b ty = (do requireParentsEq a.2 b.2; distBody a.1 b.1 ty) := by
  obtain ⟨la, pa⟩ := a
  cases la with
  | empty => exact absurd rfl hne
  | single x s => cases ty <;> rfl
  | compound l => cases ty <;> rfl

theorem inner_spec (A B : List Blk) (hB : B ≠ []) (la lb : Location) (hA' : locationBlocks la = A)
    (hB' : locationBlocks lb = B) (sa sb : Blk) (hsa : spanOf la = some sa) (hsb : spanOf lb = some sb) :
    minList (A.map (fun x => innerMin x B)) = expectDistance la lb 0 := by
  unfold innerMin
  rw [minList_flatMap (fun x y => innerSS x y) A B hB, inner_final]
  simp only [expectDistance, hsa, hsb, shared_eq, hA', hB']

theorem distBody_spec (la lb : Location) (hwa : WF la) (hwb : WF lb) (hna : la ≠ .empty) (ty : DistType) :
    ans (distBody la lb ty) = expectDistance la lb (distCode ty) := by
  obtain ⟨sa, hsa, hst, hen⟩ := span_ends la hwa hna
  by_cases hnb : lb = .empty
  · subst hnb
    have hsb : spanOf Location.empty = none := rfl
    cases ty
    · cases la <;> simp [distBody, distCode, expectDistance, hsa, hsb] <;> rfl
    all_goals
      have e1 : locStart Location.empty = .error .EmptyLocation := rfl
      have e2 : locEnd Location.empty = .error .EmptyLocation := rfl
      simp [distBody, expectDistance, hsa, hsb, hst, hen, e1, e2, bind, Except.bind]
  · obtain ⟨sb, hsb, hst', hen'⟩ := span_ends lb hwb hnb
    cases ty
    · have hBne : locationBlocks lb ≠ [] := by
        cases lb with
        | empty => exact absurd rfl hnb
        | single y t => simp [locationBlocks]
        | compound l => exact hwb.1
      show ans (distBody la lb .inner) = expectDistance la lb 0
      cases la with
      | empty => exact absurd rfl hna
      | single x s =>
        have hb : distBody (.single x s) lb .inner = innerToLoc x lb := by
          cases lb with
          | empty => exact absurd rfl hnb
          | single y t => rfl
          | compound l => rfl
        rw [hb, innerToLoc_ok x lb hwb hnb, ← inner_spec [x] _ hBne (.single x s) lb rfl rfl sa sb hsa hsb]
        rfl
      | compound l =>
        have hm : l.blocks.mapM (fun x => innerToLoc x lb) = .ok (l.blocks.map (fun x => innerMin x (locationBlocks lb))) :=
          mapM_ok _ _ _ (fun x _ => innerToLoc_ok x lb hwb hnb)
        have hb : distBody (.compound l) lb .inner =
            (match (l.blocks.map (fun x => innerMin x (locationBlocks lb))).foldl step none with
             | some d => pure d
             | none => throw .Location) := by
          cases lb with
          | empty => exact absurd rfl hnb
          | single y t => simp only [distBody, hm, ok_bind]; rfl
          | compound l' => simp only [distBody, hm, ok_bind]; rfl
        rw [hb, foldl_none, inner_spec l.blocks _ hBne (.compound l) lb rfl rfl sa sb hsa hsb]
        cases expectDistance (.compound l) lb 0 <;> rfl
    all_goals
      simp [distBody, distCode, expectDistance, hsa, hsb, hst, hen, hst', hen', bind, Except.bind, absDiff_eq,
        pure, Except.pure]

end BioCantor.Proofs.Dist

namespace BioCantor.Proofs
open BioCantor BioCantor.Spec BioCantor.Model BioCantor.Proofs.Dist

/-- C02-T9: distance is the documented function of the end points; refused for EmptyLocation operands and
    different parents -/
theorem distanceP_ok (a b : PLoc) (ha : WFP a) (hb : WFP b) (ty : DistType) :
    okDistance a b (distCode ty) (ans (distanceP a b ty)) = true := by
  by_cases hna : a.1 = .empty
  · have hd : distanceP a b ty = .error .EmptyLocation := by
      obtain ⟨la, pa⟩ := a
      simp only at hna
      subst hna
      rfl
    have he : expectDistance a.1 b.1 (distCode ty) = none := by
      simp [expectDistance, hna, spanOf, locationBlocks]
    rw [hd, okDistance, he]
    cases sameParent a.2 b.2 <;> rfl
  · rw [distanceP_eq a b ty hna, requireParentsEq_eq, okDistance]
    cases hsp : sameParent a.2 b.2 with
    | false => rfl
    | true =>
      simp only [if_true, ok_bind, Bool.not_true, Bool.false_eq_true, if_false]
      rw [distBody_spec a.1 b.1 ha.1 hb.1 hna ty]
      simp

example : WFP ((.compound ⟨[(0, 2), (2, 2), (3, 5)], .minus⟩), [(some "chrA", none, some ['A','C','G','T','A'])]) := by
  decide

example : WFP ((.single (7, 9) .plus), [(some "chrA", none, none)]) := by decide

end BioCantor.Proofs
