/- C13-T3 in full: `VariantInterval.lift_over_location` on locations with any number of blocks, on whole-chromosome
   and chunk parents, through `optimize_blocks` and the re-parenting onto the alternative sequence. -/
import BioCantor.Proofs.VarLift
import BioCantor.Proofs.VarOpt
namespace BioCantor.Proofs.Var
open BioCantor BioCantor.Spec.Variants BioCantor.GenP BioCantor.Model
open BioCantor.Model.Variants (Var altSeq1 kernel liftBlocks liftSingle liftCompound assemble lift1 reparent toChromosome
  Par slice Ver)

/-! ### the kernel in chromosome coordinates, for a parent whose sequence starts at `off` -/

/-- image of a chromosome block, again in chromosome coordinates -/
def imageChrom (off : Nat) (ref : Seq) (v : Var) (b : Blk) : Blk :=
  (newPos ref [toEdit off v] (b.1 - off) + off, newPos ref [toEdit off v] (b.2 - off) + off)

/-- variant and block lie in the window of the parent -/
structure InWin (off n : Nat) (v : Var) : Prop where
  lo : off ≤ v.s
  pos : v.s < v.e
  hi : v.e - off ≤ n

theorem kernel_clean_off (off : Nat) (ref : Seq) (v : Var) (b : Blk) (st : Strand) (hw : InWin off ref.length v)
    (hbo : off ≤ b.1) (hb : b.1 < b.2) (hbn : b.2 - off ≤ ref.length) (hc : Clean v b) :
    kernel v b st = .ok (nonEmpty (imageChrom off ref v b)) := by
  obtain ⟨hvo, hv, hvn⟩ := hw
  have hx : (toEdit off v).s < (toEdit off v).e := by simp only [toEdit]; omega
  have hvi : VarOk ⟨v.s, v.e, v.alt.length⟩ := ⟨by simp, by simp only; omega, by simp⟩
  have hbi : BlkOk ⟨b.1, b.2, st⟩ := ⟨by simp, by simp only; omega⟩
  unfold kernel imageChrom nonEmpty
  rcases hc with ⟨h1, h2⟩ | h | h
  · rw [newPos_before ref _ hx (b.1 - off) (by simp only [toEdit]; omega) (by omega),
        newPos_after ref _ hx (b.2 - off) (by simp only [toEdit]; omega) hbn]
    simp only [toEdit]
    by_cases hex : b.1 = v.s ∧ b.2 = v.e ∧ v.alt.length = 0
    · have := k_exact_deletion ⟨v.s, v.e, v.alt.length⟩ ⟨b.1, b.2, st⟩ hvi hbi (by simp only; omega)
        (by simp only; omega) (by simp only; omega)
      unfold liftK at this
      rw [this]
      have : ¬ (b.1 - off + off < v.s - off + v.alt.length + (b.2 - off - (v.e - off)) + off) := by omega
      simp only [this, if_false]; rfl
    · have := k_inside ⟨v.s, v.e, v.alt.length⟩ ⟨b.1, b.2, st⟩ hvi hbi (by simp only; omega)
        (by simp only; omega) (by simp only; omega)
      unfold liftK at this
      rw [this]
      have hlt : b.1 - off + off < v.s - off + v.alt.length + (b.2 - off - (v.e - off)) + off := by omega
      simp only [hlt, if_true, delta, pure, Except.pure]
      congr 2
      apply Prod.ext <;> simp only <;> omega
  · rw [newPos_after ref _ hx (b.1 - off) (by simp only [toEdit]; omega) (by omega),
        newPos_after ref _ hx (b.2 - off) (by simp only [toEdit]; omega) hbn]
    simp only [toEdit]
    have := k_left ⟨v.s, v.e, v.alt.length⟩ ⟨b.1, b.2, st⟩ hvi hbi (by simp only; omega)
    unfold liftK at this
    rw [this]
    have hlt : v.s - off + v.alt.length + (b.1 - off - (v.e - off)) + off
        < v.s - off + v.alt.length + (b.2 - off - (v.e - off)) + off := by omega
    simp only [hlt, if_true, delta, pure, Except.pure]
    congr 2
    apply Prod.ext <;> simp only <;> omega
  · rw [newPos_before ref _ hx (b.1 - off) (by simp only [toEdit]; omega) (by omega),
        newPos_before ref _ hx (b.2 - off) (by simp only [toEdit]; omega) hbn]
    have := k_right ⟨v.s, v.e, v.alt.length⟩ ⟨b.1, b.2, st⟩ hvi hbi (by simp only; omega)
    unfold liftK at this
    rw [this]
    have hlt : b.1 - off + off < b.2 - off + off := by omega
    simp only [hlt, if_true, pure, Except.pure]
    congr 2
    apply Prod.ext <;> simp only <;> omega

/-! ### the block loop on clean blocks, with offset -/

/-- every block lies in the parent's window, is non-empty and clean w.r.t. the variant -/
def BlocksOk (off n : Nat) (v : Var) (N : List Blk) : Prop :=
  ∀ b ∈ N, off ≤ b.1 ∧ b.1 < b.2 ∧ b.2 - off ≤ n ∧ Clean v b

theorem BlocksOk.tail {off n : Nat} {v : Var} {b : Blk} {N : List Blk} (h : BlocksOk off n v (b :: N)) :
    BlocksOk off n v N := fun x hx => h x (List.mem_cons_of_mem _ hx)

/-- the lifted block list -/
def lifted (off : Nat) (ref : Seq) (v : Var) (N : List Blk) : List Blk :=
  N.filterMap fun b => nonEmpty (imageChrom off ref v b)

theorem liftBlocks_off (off : Nat) (ref : Seq) (v : Var) (st : Strand) (N : List Blk) (hw : InWin off ref.length v)
    (hN : BlocksOk off ref.length v N) : liftBlocks v st N = .ok (lifted off ref v N) := by
  induction N with
  | nil => rfl
  | cons b r ih =>
    have hb := hN b (by simp)
    simp only [liftBlocks, kernel_clean_off off ref v b st hw hb.1 hb.2.1 hb.2.2.1 hb.2.2.2, ih hN.tail, bind,
      Except.bind, pure, Except.pure, lifted, List.filterMap_cons]
    cases nonEmpty (imageChrom off ref v b) <;> rfl

theorem newPos_mono (ref : Seq) (es : List Edit) (p q : Nat) (h : p ≤ q) : newPos ref es p ≤ newPos ref es q := by
  have := newPos_mono_split ref es p q h; omega

theorem nonEmpty_some {x y : Blk} (h : nonEmpty x = some y) : y = x ∧ x.1 < x.2 := by
  unfold nonEmpty at h
  split at h
  · rename_i hlt; exact ⟨(Option.some.inj h).symm, hlt⟩
  · exact absurd h (by simp)

theorem lifted_asc (off : Nat) (ref : Seq) (v : Var) (N : List Blk) (hasc : Asc N) : Asc (lifted off ref v N) := by
  refine ⟨?_, ?_⟩
  · unfold lifted
    apply List.Pairwise.filterMap _ _ hasc.1
    intro a a' haa' y hy y' hy'
    have h1 := nonEmpty_some (Option.mem_def.mp hy)
    have h2 := nonEmpty_some (Option.mem_def.mp hy')
    rw [h1.1, h2.1]
    simp only [imageChrom]
    have := newPos_mono ref [toEdit off v] (a.2 - off) (a'.1 - off) (by omega)
    omega
  · intro y hy
    simp only [lifted, List.mem_filterMap] at hy
    obtain ⟨b, _, hb⟩ := hy
    have := nonEmpty_some hb
    rw [this.1]; exact this.2

theorem lifted_bounds (off : Nat) (ref : Seq) (v : Var) (N : List Blk) (hN : BlocksOk off ref.length v N) :
    ∀ y ∈ lifted off ref v N, off ≤ y.1 ∧ y.2 - off ≤ (altOf ref [toEdit off v]).length := by
  intro y hy
  simp only [lifted, List.mem_filterMap] at hy
  obtain ⟨b, hb, hy⟩ := hy
  have h := (nonEmpty_some hy).1
  have hb' := hN b hb
  rw [h]
  simp only [imageChrom]
  have := newPos_le_altLen ref [toEdit off v] (b.2 - off) hb'.2.2.1
  omega

/-- the lifted blocks read, on the alternative sequence, the edited image of the original blocks -/
theorem lifted_reads (off : Nat) (ref : Seq) (v : Var) (N : List Blk) (hN : BlocksOk off ref.length v N) :
    (lifted off ref v N).flatMap (fun y => slice (altOf ref [toEdit off v]) (y.1 - off, y.2 - off))
      = N.flatMap (fun b => image ref [toEdit off v] (b.1 - off) (b.2 - off)) := by
  induction N with
  | nil => rfl
  | cons b r ih =>
    have hb := hN b (by simp)
    have ihr := ih hN.tail
    simp only [lifted, List.filterMap_cons, List.flatMap_cons] at ihr ⊢
    cases hne : nonEmpty (imageChrom off ref v b) with
    | none =>
      simp only
      rw [ihr]
      have : image ref [toEdit off v] (b.1 - off) (b.2 - off) = [] := by
        apply image_nil_of_not_lt ref _ (b.1 - off, b.2 - off) (by simp only; omega)
        unfold nonEmpty imageChrom at hne
        unfold nonEmpty imageBlock
        split at hne
        · exact absurd hne (by simp)
        · rename_i hlt
          have : ¬ (newPos ref [toEdit off v] (b.1 - off) < newPos ref [toEdit off v] (b.2 - off)) := by
            simp only at hlt; omega
          simp only [this, if_false]
      rw [this]; rfl
    | some y =>
      have hy := (nonEmpty_some hne).1
      simp only [List.flatMap_cons, ihr]
      congr 1
      rw [hy]
      simp only [imageChrom, Nat.add_sub_cancel]
      unfold slice
      exact slice_image ref _ (b.1 - off) (b.2 - off) (by omega) hb.2.2.1

/-! ### the pieces of `lift_over_location` -/

/-- the body of `lift_over_location` after the location has been brought to chromosome coordinates -/
def liftTail (ver : Ver) (par : Par) (altLen : Nat) (v : Var) (loc : Location) : R Location := do
  let e ← locEnd loc
  if v.e - v.s = v.alt.length ∨ e ≤ v.s then reparent par altLen loc
  else do
    let nl ← (match loc with
              | .single _ _ => liftSingle v loc
              | _ => liftCompound v loc)
    match ver.emptyReturn, nl with
    | true, .empty => pure .empty
    | _, _ => reparent par altLen nl

theorem lift1_unfold (ver : Ver) (par : Par) (ref : Seq) (v : Var) (loc : Location) (hne : loc ≠ .empty) :
    lift1 ver par ref v loc = (do
      let loc' ← toChromosome par loc
      liftTail ver par (altSeq1 par.off ref v).length v loc') := by
  cases loc with
  | empty => exact absurd rfl hne
  | single b st => rfl
  | compound l => rfl

theorem combStart_single (x : Blk) (hx : x.1 < x.2) : combStart [x] = [x] := by
  have : ¬ (x.2 - x.1 = 0) := by omega
  simp [combStart, comb, this]

/-- the single / compound lift of a location given by an ascending block list, in closed form -/
theorem liftLoc_closed (off : Nat) (ref : Seq) (v : Var) (st : Strand) (N : List Blk) (hw : InWin off ref.length v)
    (hasc : Asc N) (hN : BlocksOk off ref.length v N) (hne : N ≠ []) :
    (match toSingleIfOne ⟨N, st⟩ with
     | .single _ _ => liftSingle v (toSingleIfOne ⟨N, st⟩)
     | _ => liftCompound v (toSingleIfOne ⟨N, st⟩))
    = .ok (if lifted off ref v N = [] then .empty else toSingleIfOne ⟨combStart (lifted off ref v N), st⟩) := by
  have hLasc := lifted_asc off ref v N hasc
  cases N with
  | nil => exact absurd rfl hne
  | cons b r =>
    cases r with
    | nil =>
      have hb := hN b (by simp)
      have hk := kernel_clean_off off ref v b st hw hb.1 hb.2.1 hb.2.2.1 hb.2.2.2
      cases hne' : nonEmpty (imageChrom off ref v b) with
      | none =>
        rw [hne'] at hk
        have hL : lifted off ref v [b] = [] := by simp [lifted, hne']
        simp only [toSingleIfOne, liftSingle, hk, bind, Except.bind, pure, Except.pure, hL, if_true]
      | some y =>
        rw [hne'] at hk
        have hy := nonEmpty_some hne'
        have hL : lifted off ref v [b] = [y] := by simp [lifted, hne']
        rw [hL, combStart_single y (by rw [hy.1]; exact hy.2)]
        simp only [toSingleIfOne, liftSingle, hk, bind, Except.bind, pure, Except.pure, List.cons_ne_nil, if_false]
    | cons c r' =>
      simp only [toSingleIfOne, liftCompound, liftBlocks_off off ref v st (b :: c :: r') hw hN, bind, Except.bind]
      generalize hL : lifted off ref v (b :: c :: r') = L at hLasc
      cases L with
      | nil => simp [assemble, pure, Except.pure]
      | cons x L' =>
        cases L' with
        | nil =>
          simp only [assemble, pure, Except.pure, List.cons_ne_nil, if_false]
          rw [combStart_single x (hLasc.2 x (by simp))]
        | cons y L'' =>
          simp only [assemble, mkCompoundLoc_asc _ st hLasc (by simp), bind, Except.bind, List.cons_ne_nil, if_false]
          exact optimizeLoc_asc _ st hLasc (by simp)

theorem locEnd_toSingleIfOne (N : List Blk) (st : Strand) (hne : N ≠ []) :
    locEnd (toSingleIfOne ⟨N, st⟩) = .ok (maxEnd N) := by
  cases N with
  | nil => exact absurd rfl hne
  | cons b r =>
    cases r with
    | nil => simp [toSingleIfOne, locEnd, Model.maxEnd, pure, Except.pure]
    | cons c r' => simp [toSingleIfOne, locEnd, pure, Except.pure]

/-- re-parenting onto the alternative sequence: blocks inside the new window become coordinates of that sequence -/
theorem reparent_closed (par : Par) (altLen : Nat) (M : List Blk) (st : Strand) (hasc : Asc M) (hne : M ≠ [])
    (hb : ∀ y ∈ M, par.off ≤ y.1 ∧ y.2 - par.off ≤ altLen) :
    ∃ r, reparent par altLen (toSingleIfOne ⟨M, st⟩) = .ok r ∧ r ≠ .empty ∧ locStrand r = .ok st
      ∧ locBlocks r = M.map (fun y => (y.1 - par.off, y.2 - par.off)) := by
  cases M with
  | nil => exact absurd rfl hne
  | cons b r =>
    have hb0 := hb b (by simp)
    have hp0 := hasc.2 b (by simp)
    cases r with
    | nil =>
      cases par with
      | whole =>
        simp only [Par.off, Nat.sub_zero] at hb0
        have : ¬ (b.2 > altLen) := by omega
        exact ⟨.single b st, by simp [toSingleIfOne, reparent, this, pure, Except.pure], by simp, rfl,
          by simp [locBlocks, Par.off]⟩
      | chunk cs =>
        simp only [Par.off] at hb0
        have h0 : ¬ (altLen = 0) := by omega
        have hov : overlapKernel b (cs, cs + altLen) = true := by
          rw [overlapKernel_iff]; simp only; omega
        refine ⟨.single (b.1 - cs, b.2 - cs) st, ?_, by simp, rfl, by simp [locBlocks, Par.off]⟩
        simp only [toSingleIfOne, reparent, h0, if_false, hov, if_true, pure, Except.pure]
        congr 3 <;> omega
    | cons c r' =>
      cases par with
      | whole =>
        have hany : (b :: c :: r').any (fun y => decide (y.2 > altLen)) = false := by
          rw [List.any_eq_false]
          intro y hy
          have := hb y hy
          simp only [Par.off, Nat.sub_zero] at this
          simp only [decide_eq_true_eq]; omega
        refine ⟨.compound ⟨b :: c :: r', st⟩, ?_, by simp, rfl, ?_⟩
        · simp [toSingleIfOne, reparent, hany, pure, Except.pure]
        · simp [locBlocks, Par.off]
      | chunk cs =>
        simp only [Par.off] at hb hb0
        have h0 : ¬ (altLen = 0) := by omega
        have hall : ∀ y ∈ (b :: c :: r'), overlapKernel y (cs, cs + altLen) = true := by
          intro y hy
          have h1 := hb y hy
          have h2 := hasc.2 y hy
          rw [overlapKernel_iff]; simp only; omega
        have hfilter : (b :: c :: r').filter (fun y => overlapKernel y (cs, cs + altLen)) = b :: c :: r' :=
          List.filter_eq_self.mpr hall
        have hmap : (b :: c :: r').map (fun y => (max y.1 cs - cs, min y.2 (cs + altLen) - cs))
            = (b :: c :: r').map (fun y => (y.1 - cs, y.2 - cs)) := by
          apply List.map_congr_left
          intro y hy
          have h1 := hb y hy
          apply Prod.ext <;> simp only <;> omega
        have hasc' : Asc ((b :: c :: r').map (fun y => (y.1 - cs, y.2 - cs))) := by
          refine ⟨?_, ?_⟩
          · rw [List.pairwise_map]
            apply hasc.1.imp_of_mem
            intro x y hx hy hxy
            have := hb x hx; have := hb y hy
            simp only; omega
          · intro y hy
            obtain ⟨z, hz, rfl⟩ := List.mem_map.mp hy
            have := hb z hz; have := hasc.2 z hz
            simp only; omega
        refine ⟨.compound ⟨(b :: c :: r').map (fun y => (y.1 - cs, y.2 - cs)), st⟩, ?_, by simp, rfl, rfl⟩
        simp only [toSingleIfOne, reparent, hfilter, h0, if_false, hmap]
        simp only [List.isEmpty_cons, Bool.false_eq_true, if_false, mkCompoundLoc_asc _ st hasc' (by simp), bind,
          Except.bind, pure, Except.pure]

/-! ### the conclusion: what the lifted location reads -/

/-- the answer `r` is the EmptyLocation and there is nothing to read, or it is a location on strand `st` whose
    blocks are ascending, disjoint, non-empty, inside the sequence `alt`, and read `target` there -/
def Reads (alt : Seq) (st : Strand) (target : Seq) (r : Location) : Prop :=
  (r = .empty ∧ target = []) ∨
  (r ≠ .empty ∧ locStrand r = .ok st ∧ Asc (locBlocks r) ∧ locBlocks r ≠ [] ∧ (∀ y ∈ locBlocks r, y.2 ≤ alt.length)
    ∧ (locBlocks r).flatMap (slice alt) = target)

theorem slice_additive_off (s : Seq) (off : Nat) : Additive (fun y : Blk => slice s (y.1 - off, y.2 - off)) where
  empty := by intro b h; have : b.2 - off - (b.1 - off) = 0 := by omega
              simp [slice, this]
  merge := by
    intro a b h1 h2 h3
    unfold slice
    have e1 : max a.2 b.2 - off - (a.1 - off) = (a.2 - off - (a.1 - off)) + (b.2 - off - (b.1 - off)) := by omega
    simp only [e1, List.take_add, List.drop_drop]
    congr 3
    omega

theorem asc_shift (off : Nat) (M : List Blk) (hasc : Asc M) (hb : ∀ y ∈ M, off ≤ y.1) :
    Asc (M.map (fun y => (y.1 - off, y.2 - off))) := by
  refine ⟨?_, ?_⟩
  · rw [List.pairwise_map]
    apply hasc.1.imp_of_mem
    intro x y hx hy hxy
    have := hb x hx; have := hb y hy
    simp only; omega
  · intro y hy
    obtain ⟨z, hz, rfl⟩ := List.mem_map.mp hy
    have := hb z hz; have := hasc.2 z hz
    simp only; omega

/-- re-parenting an ascending block list that lies in the new window and reads `target` there -/
theorem reparent_reads (par : Par) (alt : Seq) (M : List Blk) (st : Strand) (target : Seq) (hasc : Asc M) (hne : M ≠ [])
    (hb : ∀ y ∈ M, par.off ≤ y.1 ∧ y.2 - par.off ≤ alt.length)
    (hr : M.flatMap (fun y => slice alt (y.1 - par.off, y.2 - par.off)) = target) :
    ∃ r, reparent par alt.length (toSingleIfOne ⟨M, st⟩) = .ok r ∧ Reads alt st target r := by
  obtain ⟨r, h1, h2, h3, h4⟩ := reparent_closed par alt.length M st hasc hne hb
  refine ⟨r, h1, Or.inr ⟨h2, h3, ?_, ?_, ?_, ?_⟩⟩
  · rw [h4]; exact asc_shift par.off M hasc (fun y hy => (hb y hy).1)
  · rw [h4]; simpa using hne
  · intro y hy
    rw [h4] at hy
    obtain ⟨z, hz, rfl⟩ := List.mem_map.mp hy
    exact (hb z hz).2
  · rw [h4, List.flatMap_map]; exact hr

theorem mem_le_maxEnd (N : List Blk) (b : Blk) (h : b ∈ N) : b.2 ≤ maxEnd N := by
  induction N with
  | nil => exact absurd h (by simp)
  | cons a r ih =>
    simp only [Model.maxEnd]
    rcases List.mem_cons.mp h with rfl | h'
    · omega
    · have := ih h'; omega

theorem imageChrom_id (off : Nat) (ref : Seq) (v : Var) (b : Blk) (hw : InWin off ref.length v)
    (hbo : off ≤ b.1) (hb : b.1 < b.2) (hbn : b.2 - off ≤ ref.length) (hc : Clean v b)
    (h : v.e - v.s = v.alt.length ∨ b.2 ≤ v.s) : imageChrom off ref v b = b := by
  obtain ⟨hvo, hv, hvn⟩ := hw
  have hx : (toEdit off v).s < (toEdit off v).e := by simp only [toEdit]; omega
  unfold imageChrom
  apply Prod.ext <;> simp only
  · rcases hc with ⟨h1, h2⟩ | h' | h'
    · rw [newPos_before ref _ hx (b.1 - off) (by simp only [toEdit]; omega) (by omega)]; omega
    · rw [newPos_after ref _ hx (b.1 - off) (by simp only [toEdit]; omega) (by omega)]
      simp only [toEdit]; omega
    · rw [newPos_before ref _ hx (b.1 - off) (by simp only [toEdit]; omega) (by omega)]; omega
  · rcases hc with ⟨h1, h2⟩ | h' | h'
    · rw [newPos_after ref _ hx (b.2 - off) (by simp only [toEdit]; omega) hbn]
      simp only [toEdit]; omega
    · rw [newPos_after ref _ hx (b.2 - off) (by simp only [toEdit]; omega) hbn]
      simp only [toEdit]; omega
    · rw [newPos_before ref _ hx (b.2 - off) (by simp only [toEdit]; omega) hbn]; omega

theorem lifted_id (off : Nat) (ref : Seq) (v : Var) (N : List Blk) (hw : InWin off ref.length v)
    (hN : BlocksOk off ref.length v N) (h : v.e - v.s = v.alt.length ∨ maxEnd N ≤ v.s) : lifted off ref v N = N := by
  induction N with
  | nil => rfl
  | cons b r ih =>
    have hb := hN b (by simp)
    have hcond : v.e - v.s = v.alt.length ∨ b.2 ≤ v.s := by
      rcases h with h | h
      · exact Or.inl h
      · right; have := mem_le_maxEnd (b :: r) b (by simp); omega
    have hr : v.e - v.s = v.alt.length ∨ maxEnd r ≤ v.s := by
      rcases h with h | h
      · exact Or.inl h
      · right; simp only [Model.maxEnd] at h; omega
    have ih' := ih hN.tail hr
    have hhead : nonEmpty (imageChrom off ref v b) = some b := by
      rw [imageChrom_id off ref v b hw hb.1 hb.2.1 hb.2.2.1 hb.2.2.2 hcond]
      simp only [nonEmpty, hb.2.1, if_true]
    unfold lifted at ih' ⊢
    simp only [List.filterMap_cons, hhead, ih']

/-! ### the generic conclusion: the answer's blocks are the lifted blocks up to merging of touching blocks -/

theorem additive_shift {α : Type} (g : Blk → List α) (hg : Additive g) (off : Nat) :
    Additive (fun y : Blk => g (y.1 - off, y.2 - off)) where
  empty := by intro b h; exact hg.empty (b.1 - off, b.2 - off) (by simp only; omega)
  merge := by
    intro a b h1 h2 h3
    have := hg.merge (a.1 - off, a.2 - off) (b.1 - off, b.2 - off) (by simp only; omega) (by simp only; omega)
      (by simp only; omega)
    simp only at this
    have e : max (a.2 - off) (b.2 - off) = max a.2 b.2 - off := by omega
    rw [e] at this
    exact this

/-- `r` is the EmptyLocation and nothing was lifted, or `r` is a location on strand `st` with ascending, disjoint,
    non-empty blocks inside `alt` which are the blocks `L` (chromosome coordinates, parent starting at `off`) up to
    merging of touching blocks: every additive reading of the blocks agrees -/
def ReadsG (alt : Seq) (st : Strand) (off : Nat) (L : List Blk) (r : Location) : Prop :=
  (r = .empty ∧ L = []) ∨
  (r ≠ .empty ∧ locStrand r = .ok st ∧ Asc (locBlocks r) ∧ locBlocks r ≠ [] ∧ (∀ y ∈ locBlocks r, y.2 ≤ alt.length)
    ∧ ∀ {α : Type} (g : Blk → List α), Additive g →
        (locBlocks r).flatMap g = L.flatMap (fun y => g (y.1 - off, y.2 - off)))

theorem reparent_readsG (par : Par) (alt : Seq) (M L : List Blk) (st : Strand) (hasc : Asc M) (hne : M ≠ [])
    (hb : ∀ y ∈ M, par.off ≤ y.1 ∧ y.2 - par.off ≤ alt.length)
    (hr : ∀ {α : Type} (g : Blk → List α), Additive g →
        M.flatMap (fun y => g (y.1 - par.off, y.2 - par.off)) = L.flatMap (fun y => g (y.1 - par.off, y.2 - par.off))) :
    ∃ r, reparent par alt.length (toSingleIfOne ⟨M, st⟩) = .ok r ∧ ReadsG alt st par.off L r := by
  obtain ⟨r, h1, h2, h3, h4⟩ := reparent_closed par alt.length M st hasc hne hb
  refine ⟨r, h1, Or.inr ⟨h2, h3, ?_, ?_, ?_, ?_⟩⟩
  · rw [h4]; exact asc_shift par.off M hasc (fun y hy => (hb y hy).1)
  · rw [h4]; simpa using hne
  · intro y hy
    rw [h4] at hy
    obtain ⟨z, hz, rfl⟩ := List.mem_map.mp hy
    exact (hb z hz).2
  · intro α g hg
    rw [h4, List.flatMap_map]; exact hr g hg

/-- the core: after the location has been brought to chromosome coordinates (ascending blocks `N`) -/
theorem liftTail_cleanG (par : Par) (ref : Seq) (v : Var) (st : Strand) (N : List Blk)
    (hw : InWin par.off ref.length v) (hasc : Asc N) (hN : BlocksOk par.off ref.length v N) (hne : N ≠ []) :
    ∃ r, liftTail .current par (altSeq1 par.off ref v).length v (toSingleIfOne ⟨N, st⟩) = .ok r
      ∧ ReadsG (altSeq1 par.off ref v) st par.off (lifted par.off ref v N) r := by
  have halt : altSeq1 par.off ref v = altOf ref [toEdit par.off v] :=
    altSeq1_altOf par.off ref v (by have := hw.lo; have := hw.pos; omega) hw.hi
  have hbounds := lifted_bounds par.off ref v N hN
  rw [← halt] at hbounds
  unfold liftTail
  simp only [locEnd_toSingleIfOne N st hne, bind, Except.bind]
  by_cases hcond : v.e - v.s = v.alt.length ∨ maxEnd N ≤ v.s
  · simp only [hcond, if_true]
    have hid := lifted_id par.off ref v N hw hN hcond
    rw [hid] at hbounds ⊢
    exact reparent_readsG par _ N N st hasc hne hbounds (fun g _ => rfl)
  · simp only [hcond, if_false]
    rw [liftLoc_closed par.off ref v st N hw hasc hN hne]
    simp only [Ver.emptyReturn]
    by_cases hL : lifted par.off ref v N = []
    · exact ⟨.empty, by simp [hL, pure, Except.pure], Or.inl ⟨rfl, hL⟩⟩
    · have hLasc := lifted_asc par.off ref v N hasc
      simp only [hL, if_false]
      obtain ⟨r, hr1, hr2⟩ := reparent_readsG par (altSeq1 par.off ref v) (combStart (lifted par.off ref v N))
        (lifted par.off ref v N) st (asc_combStart hLasc) (combStart_ne_nil hLasc hL)
        (by
          apply combStart_forall (fun y => par.off ≤ y.1 ∧ y.2 - par.off ≤ (altSeq1 par.off ref v).length)
          · intro a b ha hb _ _; simp only; omega
          · exact hbounds)
        (fun g hg => combStart_additive _ (additive_shift g hg par.off) _ hLasc.valid)
      refine ⟨r, ?_, hr2⟩
      have hnn := toSingleIfOne_ne_empty ⟨combStart (lifted par.off ref v N), st⟩
      generalize toSingleIfOne ⟨combStart (lifted par.off ref v N), st⟩ = nl at hr1 hnn ⊢
      cases nl with
      | empty => exact absurd rfl hnn
      | single b s => exact hr1
      | compound l => exact hr1

/-- the images of the blocks, in coordinates of the parent's sequence -/
def imgRel (off : Nat) (ref : Seq) (v : Var) (b : Blk) : Blk :=
  imageBlock ref [toEdit off v] (b.1 - off, b.2 - off)

/-- reading the lifted blocks = reading the images of the original blocks (empty images read nothing) -/
theorem lifted_gen {α : Type} (g : Blk → List α) (hg : Additive g) (off : Nat) (ref : Seq) (v : Var) (N : List Blk) :
    (lifted off ref v N).flatMap (fun y => g (y.1 - off, y.2 - off)) = N.flatMap (fun b => g (imgRel off ref v b)) := by
  induction N with
  | nil => rfl
  | cons b r ih =>
    simp only [lifted, List.filterMap_cons, List.flatMap_cons] at ih ⊢
    cases hne : nonEmpty (imageChrom off ref v b) with
    | none =>
      simp only
      rw [ih]
      have : g (imgRel off ref v b) = [] := by
        apply hg.empty
        unfold nonEmpty imageChrom at hne
        unfold imgRel imageBlock
        split at hne
        · exact absurd hne (by simp)
        · rename_i hlt; simp only at hlt ⊢; omega
      rw [this]; rfl
    | some y =>
      have hy := (nonEmpty_some hne).1
      simp only [List.flatMap_cons, ih]
      congr 1
      rw [hy]
      simp only [imageChrom, Nat.add_sub_cancel, imgRel, imageBlock]

/-- reading the image of a block is additive over touching blocks -/
theorem additive_image {α : Type} (g : Blk → List α) (hg : Additive g) (off : Nat) (ref : Seq) (v : Var) :
    Additive (fun b => g (imgRel off ref v b)) where
  empty := by
    intro b h
    apply hg.empty
    simp only [imgRel, imageBlock]
    have := newPos_mono ref [toEdit off v] (b.2 - off) (b.1 - off) (by omega)
    omega
  merge := by
    intro a b h1 h2 h3
    have hm : max a.2 b.2 = b.2 := by omega
    have m1 := newPos_mono ref [toEdit off v] (a.1 - off) (a.2 - off) (by omega)
    have m2 := newPos_mono ref [toEdit off v] (b.1 - off) (b.2 - off) (by omega)
    have := hg.merge (imgRel off ref v a) (imgRel off ref v b) (by simp only [imgRel, imageBlock]; exact m1)
      (by simp only [imgRel, imageBlock, h2]) (by simp only [imgRel, imageBlock]; exact m2)
    simp only [imgRel, imageBlock, hm] at this ⊢
    have e : max (newPos ref [toEdit off v] (a.2 - off)) (newPos ref [toEdit off v] (b.2 - off))
        = newPos ref [toEdit off v] (b.2 - off) := by
      have := newPos_mono ref [toEdit off v] (a.2 - off) (b.2 - off) (by omega); omega
    rw [e] at this
    exact this

/-- the old form: what the answer reads on the alternative sequence -/
theorem liftTail_clean (par : Par) (ref : Seq) (v : Var) (st : Strand) (N : List Blk)
    (hw : InWin par.off ref.length v) (hasc : Asc N) (hN : BlocksOk par.off ref.length v N) (hne : N ≠ []) :
    ∃ r, liftTail .current par (altSeq1 par.off ref v).length v (toSingleIfOne ⟨N, st⟩) = .ok r
      ∧ Reads (altSeq1 par.off ref v) st
          (N.flatMap fun b => image ref [toEdit par.off v] (b.1 - par.off) (b.2 - par.off)) r := by
  have halt : altSeq1 par.off ref v = altOf ref [toEdit par.off v] :=
    altSeq1_altOf par.off ref v (by have := hw.lo; have := hw.pos; omega) hw.hi
  have hreads := lifted_reads par.off ref v N hN
  rw [← halt] at hreads
  obtain ⟨r, h1, h2⟩ := liftTail_cleanG par ref v st N hw hasc hN hne
  refine ⟨r, h1, ?_⟩
  rcases h2 with ⟨he, hL⟩ | ⟨hne', hs, ha, hnn, hb, hg⟩
  · left; refine ⟨he, ?_⟩; rw [← hreads, hL]; rfl
  · right; refine ⟨hne', hs, ha, hnn, hb, ?_⟩
    rw [hg (slice (altSeq1 par.off ref v)) (slice_additive _)]; exact hreads

/-! ### `lift_over_location` of one variant, any number of blocks, chromosome and chunk parents -/

theorem clean_merge (v : Var) (hv : v.s < v.e) (a b : Blk) (ha : Clean v a) (hb : Clean v b) (h : a.2 = b.1)
    (ha' : a.1 ≤ a.2) (hb' : b.1 < b.2) : Clean v (a.1, max a.2 b.2) := by
  unfold Clean at *
  simp only
  omega

theorem toChromosome_closed (par : Par) (bs : List Blk) (st : Strand) (hasc : Asc bs) (hne : bs ≠ []) :
    toChromosome par (toSingleIfOne ⟨bs, st⟩)
      = .ok (toSingleIfOne ⟨(match par with | .whole => bs | .chunk _ => combStart bs), st⟩) := by
  cases bs with
  | nil => exact absurd rfl hne
  | cons b r =>
    cases r with
    | nil =>
      have := combStart_single b (hasc.2 b (by simp))
      cases par <;> simp [toSingleIfOne, toChromosome, this, pure, Except.pure]
    | cons c r' =>
      cases par with
      | whole => simp [toSingleIfOne, toChromosome, pure, Except.pure]
      | chunk cs =>
        simp only [toSingleIfOne, toChromosome]
        exact optimizeLoc_asc _ st hasc (by simp)

/-- T3, full: `VariantInterval.lift_over_location` (code as it is) on a location with ANY number of ascending,
    disjoint, non-empty blocks each of which contains the variant wholly or not at all, on a whole chromosome or a
    chunk: the answer reads, on the alternative sequence, exactly the edited image of the location's reference
    bases; it is the EmptyLocation exactly when that image has no bases. -/
theorem lift1_clean_full (par : Par) (ref : Seq) (v : Var) (st : Strand) (bs : List Blk)
    (hw : InWin par.off ref.length v) (hasc : Asc bs) (hbs : BlocksOk par.off ref.length v bs) (hne : bs ≠ []) :
    ∃ r, lift1 .current par ref v (toSingleIfOne ⟨bs, st⟩) = .ok r
      ∧ Reads (altSeq1 par.off ref v) st
          (bs.flatMap fun b => image ref [toEdit par.off v] (b.1 - par.off) (b.2 - par.off)) r := by
  rw [lift1_unfold .current par ref v _ (toSingleIfOne_ne_empty _), toChromosome_closed par bs st hasc hne]
  simp only [bind, Except.bind]
  cases par with
  | whole => exact liftTail_clean .whole ref v st bs hw hasc hbs hne
  | chunk cs =>
    have hN : BlocksOk cs ref.length v (combStart bs) := by
      apply combStart_forall (fun b => cs ≤ b.1 ∧ b.1 < b.2 ∧ b.2 - cs ≤ ref.length ∧ Clean v b)
      · intro a b ha hb h hlt
        refine ⟨ha.1, by simp only; omega, by simp only; omega, ?_⟩
        exact clean_merge v hw.pos a b ha.2.2.2 hb.2.2.2 h (Nat.le_of_lt ha.2.1) hlt
      · exact hbs
    have := liftTail_clean (.chunk cs) ref v st (combStart bs) hw (asc_combStart hasc) hN (combStart_ne_nil hasc hne)
    have hadd := combStart_additive _ (image_additive ref [toEdit cs v] cs) bs hasc.valid
    simp only [Par.off] at this ⊢
    rw [hadd] at this
    exact this

/-- T3, the blocks: every additive reading of the answer's blocks (positions, slices of any sequence, …) equals the
    same reading of the IMAGES of the original blocks — the lifted location covers exactly the images of its blocks,
    touching images merged and empty ones dropped. -/
theorem lift1_clean_blocks (par : Par) (ref : Seq) (v : Var) (st : Strand) (bs : List Blk)
    (hw : InWin par.off ref.length v) (hasc : Asc bs) (hbs : BlocksOk par.off ref.length v bs) (hne : bs ≠ []) :
    ∃ r, lift1 .current par ref v (toSingleIfOne ⟨bs, st⟩) = .ok r
      ∧ ∀ {α : Type} (g : Blk → List α), Additive g →
          (locBlocks r).flatMap g = bs.flatMap (fun b => g (imgRel par.off ref v b)) := by
  rw [lift1_unfold .current par ref v _ (toSingleIfOne_ne_empty _), toChromosome_closed par bs st hasc hne]
  simp only [bind, Except.bind]
  have conv : ∀ (N : List Blk) (r : Location),
      ReadsG (altSeq1 par.off ref v) st par.off (lifted par.off ref v N) r →
      ∀ {α : Type} (g : Blk → List α), Additive g →
        (locBlocks r).flatMap g = N.flatMap (fun b => g (imgRel par.off ref v b)) := by
    intro N r h α g hg
    rw [← lifted_gen g hg par.off ref v N]
    rcases h with ⟨he, hL⟩ | ⟨_, _, _, _, _, hgen⟩
    · rw [he, hL]; rfl
    · exact hgen g hg
  cases par with
  | whole =>
    obtain ⟨r, h1, h2⟩ := liftTail_cleanG .whole ref v st bs hw hasc hbs hne
    exact ⟨r, h1, fun g hg => conv bs r h2 g hg⟩
  | chunk cs =>
    have hN : BlocksOk cs ref.length v (combStart bs) := by
      apply combStart_forall (fun b => cs ≤ b.1 ∧ b.1 < b.2 ∧ b.2 - cs ≤ ref.length ∧ Clean v b)
      · intro a b ha hb h hlt
        refine ⟨ha.1, by simp only; omega, by simp only; omega, ?_⟩
        exact clean_merge v hw.pos a b ha.2.2.2 hb.2.2.2 h (Nat.le_of_lt ha.2.1) hlt
      · exact hbs
    obtain ⟨r, h1, h2⟩ := liftTail_cleanG (.chunk cs) ref v st (combStart bs) hw (asc_combStart hasc) hN
      (combStart_ne_nil hasc hne)
    refine ⟨r, h1, fun g hg => ?_⟩
    rw [conv (combStart bs) r h2 g hg]
    exact combStart_additive _ (additive_image g hg cs ref v) bs hasc.valid

theorem blkAsc_additive : Additive Spec.blkAsc where
  empty := by intro b h; simp [Spec.blkAsc, h]
  merge := by
    intro a b h1 h2 h3
    by_cases hb : b.1 < b.2
    · exact blkAsc_merge a b h1 hb h2
    · have e : b.2 = b.1 := by omega
      have hm : max a.2 b.2 = a.2 := by omega
      have : Spec.blkAsc b = [] := by simp [Spec.blkAsc, e]
      rw [this, hm]; simp

/-- T3, positions: the lifted location covers exactly the positions of the images of its blocks (ascending) -/
theorem lift1_clean_positions (par : Par) (ref : Seq) (v : Var) (st : Strand) (bs : List Blk)
    (hw : InWin par.off ref.length v) (hasc : Asc bs) (hbs : BlocksOk par.off ref.length v bs) (hne : bs ≠ []) :
    ∃ r, lift1 .current par ref v (toSingleIfOne ⟨bs, st⟩) = .ok r
      ∧ Spec.basesPlus (locBlocks r) = bs.flatMap (fun b => Spec.blkAsc (imgRel par.off ref v b)) := by
  obtain ⟨r, h1, h2⟩ := lift1_clean_blocks par ref v st bs hw hasc hbs hne
  exact ⟨r, h1, by rw [basesPlus_eq_flatMap]; exact h2 Spec.blkAsc blkAsc_additive⟩

theorem complement_eq : Model.Variants.complement = Spec.Variants.complement := by
  funext c; rfl

/-- T3 in the words of the property: `extract alt (lift l) = edit (extract ref l)` -/
theorem lift1_clean_extract (par : Par) (ref : Seq) (v : Var) (st : Strand) (bs : List Blk) (hst : st ≠ .unstranded)
    (hw : InWin par.off ref.length v) (hasc : Asc bs) (hbs : BlocksOk par.off ref.length v bs) (hne : bs ≠ []) :
    ∃ r, lift1 .current par ref v (toSingleIfOne ⟨bs, st⟩) = .ok r ∧
      ((r = .empty ∧ imageSeq ref [toEdit par.off v] (bs.map fun b => (b.1 - par.off, b.2 - par.off)) st = [])
       ∨ (r ≠ .empty ∧ locStrand r = .ok st ∧ Asc (locBlocks r) ∧ locBlocks r ≠ []
          ∧ (∀ y ∈ locBlocks r, y.2 ≤ (altSeq1 par.off ref v).length)
          ∧ Model.Variants.extract (altSeq1 par.off ref v) (locBlocks r) st
              = .ok (imageSeq ref [toEdit par.off v] (bs.map fun b => (b.1 - par.off, b.2 - par.off)) st))) := by
  obtain ⟨r, h1, h2⟩ := lift1_clean_full par ref v st bs hw hasc hbs hne
  refine ⟨r, h1, ?_⟩
  have himg : imageSeq ref [toEdit par.off v] (bs.map fun b => (b.1 - par.off, b.2 - par.off)) st
      = onStrand st (bs.flatMap fun b => image ref [toEdit par.off v] (b.1 - par.off) (b.2 - par.off)) := by
    unfold imageSeq; rw [List.flatMap_map]
  rcases h2 with ⟨he, ht⟩ | ⟨hne', hs, ha, hnn, hb, hr⟩
  · left; refine ⟨he, ?_⟩
    rw [himg, ht]; cases st <;> rfl
  · right; refine ⟨hne', hs, ha, hnn, hb, ?_⟩
    rw [himg, ← hr]
    cases st with
    | plus => rfl
    | minus => simp only [Model.Variants.extract, onStrand, complement_eq, pure, Except.pure]
    | unstranded => exact absurd rfl hst

end BioCantor.Proofs.Var
