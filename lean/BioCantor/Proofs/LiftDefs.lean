/- Vocabulary of the C04 theorems. -/
import BioCantor.Proofs.Common
import BioCantor.Spec.Lift
import BioCantor.Model.Lift
namespace BioCantor.Proofs
open BioCantor BioCantor.Spec BioCantor.Model

/-- the spec's view of a modelled ancestor level (same fields) -/
def toSLevel (l : Model.Level) : Spec.SLevel := ⟨l.id, l.type, l.seq, l.place⟩

/-- every placement in the chain is a well-formed location -/
def ChainWF (ch : Chain) : Prop := ∀ l ∈ ch, ∀ p, l.place = some p → WF p

/-- every level's sequence is exactly what its placement reads from the level above
    (what `seq_chunk_to_parent`-style construction guarantees; `Sequence.__init__` only checks lengths) -/
def Consistent : List SLevel → Prop
  | [] => True
  | [_] => True
  | a :: b :: rest =>
    (match a.seq, b.seq, b.place with
      | some sa, some sb, some p => readSeq sb (locationBases p) (strandOf p) = some sa
      | _, _, _ => True) ∧ Consistent (b :: rest)

end BioCantor.Proofs
