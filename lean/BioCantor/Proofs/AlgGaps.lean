/-
  C02-T6 / C02-T7: `optimize_blocks`, `optimize_and_combine_blocks`, `gap_list`, `gaps_location`
  against the position-set predicates of Spec/Algebra.lean.  Everything rests on the closed form of
  `Model.optimizeLoc` (`optimizeLoc_spec`, AlgOptimize.lean).
-/
import BioCantor.Proofs.AlgOverlap
import BioCantor.Proofs.AlgOptimize
namespace BioCantor.Proofs.Gaps
open BioCantor BioCantor.Spec BioCantor.Model BioCantor.Proofs

/-! ### `ascSeparated` -/

theorem asc_cons {a : Blk} {L : List Blk} (h : ascSeparated (a :: L) = true) :
    a.1 < a.2 ∧ ascSeparated L = true := by
  cases L with
  | nil => simpa [ascSeparated] using h
  | cons b r =>
    simp only [ascSeparated, Bool.and_eq_true, decide_eq_true_eq] at h
    exact ⟨h.1.1, h.2⟩

theorem asc_pos : ∀ (L : List Blk), ascSeparated L = true → ∀ b ∈ L, b.1 < b.2
  | [], _, b, hb => by cases hb
  | a :: L, h, b, hb => by
    obtain ⟨h1, h2⟩ := asc_cons h
    rcases List.mem_cons.mp hb with rfl | hb
    · exact h1
    · exact asc_pos L h2 b hb

theorem asc_pairwise : ∀ (L : List Blk), ascSeparated L = true → L.Pairwise (fun a b => a.2 < b.1)
  | [], _ => List.Pairwise.nil
  | [a], _ => by simp
  | a :: b :: r, h => by
    have h' := h
    simp only [ascSeparated, Bool.and_eq_true, decide_eq_true_eq] at h'
    have ih := asc_pairwise (b :: r) h'.2
    have hb := (asc_cons h'.2).1
    rw [List.pairwise_cons]
    refine ⟨?_, ih⟩
    intro c hc
    rcases List.mem_cons.mp hc with rfl | hc
    · exact h'.1.2
    · have := (List.pairwise_cons.mp ih).1 c hc
      omega

theorem asc_fst_lt (L : List Blk) (h : ascSeparated L = true) : L.Pairwise (fun a b => a.1 < b.1) :=
  (asc_pairwise L h).imp_of_mem (fun {a _} ha _ hab => Nat.lt_trans (asc_pos L h a ha) hab)

/-! ### `minStartOf` / `maxEndOf` -/

theorem minStartOf_cons2 (b c : Blk) (cs : List Blk) :
    minStartOf (b :: c :: cs) = min b.1 (minStartOf (c :: cs)) := rfl

theorem minStartOf_le_of_mem : ∀ (X : List Blk) (b : Blk), b ∈ X → minStartOf X ≤ b.1
  | [], _, h => by cases h
  | [a], b, h => by
    simp only [List.mem_singleton] at h
    subst h; exact Nat.le_refl _
  | a :: c :: cs, b, h => by
    rw [minStartOf_cons2]
    rcases List.mem_cons.mp h with rfl | h
    · omega
    · have := minStartOf_le_of_mem (c :: cs) b h; omega

theorem minStartOf_mem : ∀ (X : List Blk), X ≠ [] → ∃ b ∈ X, b.1 = minStartOf X
  | [], h => absurd rfl h
  | [a], _ => ⟨a, by simp, rfl⟩
  | a :: c :: cs, _ => by
    obtain ⟨b, hb, he⟩ := minStartOf_mem (c :: cs) (by simp)
    rw [minStartOf_cons2]
    by_cases h : a.1 ≤ minStartOf (c :: cs)
    · exact ⟨a, by simp, by omega⟩
    · exact ⟨b, List.mem_cons_of_mem _ hb, by omega⟩

theorem maxEndOf_mem : ∀ (X : List Blk), X ≠ [] → ∃ b ∈ X, b.2 = maxEndOf X
  | [], h => absurd rfl h
  | [a], _ => ⟨a, by simp, by simp [maxEndOf]⟩
  | a :: c :: cs, _ => by
    obtain ⟨b, hb, he⟩ := maxEndOf_mem (c :: cs) (by simp)
    show ∃ b ∈ a :: c :: cs, b.2 = max a.2 (maxEndOf (c :: cs))
    by_cases h : maxEndOf (c :: cs) ≤ a.2
    · exact ⟨a, by simp, by omega⟩
    · exact ⟨b, List.mem_cons_of_mem _ hb, by omega⟩

theorem minStartOf_le_of_cov (X : List Blk) (p : Nat) (h : coversBlocks X p = true) : minStartOf X ≤ p := by
  obtain ⟨b, hb, h1, _⟩ := (coversBlocks_iff X p).mp h
  have := minStartOf_le_of_mem X b hb
  omega

/-- lists of non-empty blocks: the ends are determined by the covered set -/
theorem ends_le_of_cov (X Y : List Blk) (hX : ∀ b ∈ X, b.1 < b.2) (hne : X ≠ [])
    (hcov : ∀ q, coversBlocks X q = true → coversBlocks Y q = true) :
    minStartOf Y ≤ minStartOf X ∧ maxEndOf X ≤ maxEndOf Y := by
  obtain ⟨b, hb, he⟩ := minStartOf_mem X hne
  obtain ⟨c, hc, hf⟩ := maxEndOf_mem X hne
  have h1 : coversBlocks X (minStartOf X) = true := by
    rw [coversBlocks_iff]; exact ⟨b, hb, by omega, by have := hX b hb; omega⟩
  have h2 : coversBlocks X (maxEndOf X - 1) = true := by
    rw [coversBlocks_iff]; exact ⟨c, hc, by have := hX c hc; omega, by have := hX c hc; omega⟩
  have h3 := minStartOf_le_of_cov Y _ (hcov _ h1)
  have h4 := coversBlocks_lt_maxEndOf Y _ (hcov _ h2)
  have := hX c hc
  exact ⟨h3, by omega⟩

theorem ne_nil_of_cov (X Y : List Blk) (hX : ∀ b ∈ X, b.1 < b.2) (hne : X ≠ [])
    (hcov : ∀ q, coversBlocks X q = true → coversBlocks Y q = true) : Y ≠ [] := by
  obtain ⟨b, hb, _⟩ := minStartOf_mem X hne
  have h1 : coversBlocks X b.1 = true := by
    rw [coversBlocks_iff]; exact ⟨b, hb, Nat.le_refl _, hX b hb⟩
  intro hY
  have := hcov _ h1
  rw [hY] at this
  simp [coversBlocks] at this

theorem same_cov_ends (X Y : List Blk) (hX : ∀ b ∈ X, b.1 < b.2) (hY : ∀ b ∈ Y, b.1 < b.2)
    (hcov : ∀ q, coversBlocks X q = coversBlocks Y q) :
    (X = [] ↔ Y = []) ∧ minStartOf X = minStartOf Y ∧ maxEndOf X = maxEndOf Y := by
  have hxy : ∀ q, coversBlocks X q = true → coversBlocks Y q = true := fun q h => by rw [← hcov]; exact h
  have hyx : ∀ q, coversBlocks Y q = true → coversBlocks X q = true := fun q h => by rw [hcov]; exact h
  by_cases hx : X = []
  · have hy : Y = [] := by
      apply Classical.byContradiction
      intro hy
      exact ne_nil_of_cov Y X hY hy hyx hx
    subst hx; subst hy
    exact ⟨Iff.rfl, rfl, rfl⟩
  · have hy : Y ≠ [] := ne_nil_of_cov X Y hX hx hxy
    have h1 := ends_le_of_cov X Y hX hx hxy
    have h2 := ends_le_of_cov Y X hY hy hyx
    exact ⟨⟨fun h => absurd h hx, fun h => absurd h hy⟩, by omega, by omega⟩

/-- dropping zero-length blocks keeps the covered set -/
theorem cov_filter_pos (S : List Blk) (q : Nat) :
    coversBlocks (S.filter (fun b => decide (b.1 < b.2))) q = coversBlocks S q := by
  rw [Bool.eq_iff_iff, coversBlocks_iff, coversBlocks_iff]
  constructor
  · rintro ⟨b, hb, h⟩
    exact ⟨b, (List.mem_filter.mp hb).1, h⟩
  · rintro ⟨b, hb, h⟩
    exact ⟨b, List.mem_filter.mpr ⟨hb, by simp; omega⟩, h⟩

/-! ### `gapPairs` on ascending separated blocks -/

theorem asc_minStart : ∀ (b : Blk) (rest : List Blk), ascSeparated (b :: rest) = true →
    minStartOf (b :: rest) = b.1
  | b, [], _ => rfl
  | b, c :: cs, h => by
    simp only [ascSeparated, Bool.and_eq_true, decide_eq_true_eq] at h
    rw [minStartOf_cons2, asc_minStart c cs h.2]
    have := (asc_cons h.2).1
    omega

theorem gapPairs_cov : ∀ (L : List Blk), ascSeparated L = true → ∀ p,
    coversBlocks (gapPairs L) p =
      (decide (minStartOf L ≤ p) && decide (p < maxEndOf L) && !coversBlocks L p)
  | [], _, p => by simp [gapPairs, coversBlocks, maxEndOf]
  | [a], _, p => by
    simp only [gapPairs, minStartOf, maxEndOf, coversBlocks, List.any_nil, List.any_cons, Bool.or_false,
      Nat.max_zero]
    simp
    intro h1 h2
    exact ⟨of_decide_eq_true h1, h2⟩
  | a :: b :: rest, h, p => by
    have h' := h
    simp only [ascSeparated, Bool.and_eq_true, decide_eq_true_eq] at h'
    have hb := (asc_cons h'.2).1
    have ih := gapPairs_cov (b :: rest) h'.2 p
    have hmin := asc_minStart b rest h'.2
    have hM : b.2 ≤ maxEndOf (b :: rest) := by simp only [maxEndOf]; omega
    rw [show gapPairs (a :: b :: rest) = (min a.2 b.2, max a.1 b.1) :: gapPairs (b :: rest) from rfl,
      coversBlocks_cons, ih, coversBlocks_cons a, minStartOf_cons2, hmin]
    rw [show maxEndOf (a :: b :: rest) = max a.2 (maxEndOf (b :: rest)) from rfl]
    cases hc : coversBlocks (b :: rest) p with
    | false =>
      rw [Bool.eq_iff_iff]
      simp only [Bool.or_eq_true, Bool.and_eq_true, decide_eq_true_eq, Bool.not_eq_true', Bool.or_false,
        Bool.not_false, Bool.and_true, Bool.and_eq_false_imp, decide_eq_false_iff_not]
      omega
    | true =>
      have h1 : b.1 ≤ p := by
        have := minStartOf_le_of_cov _ _ hc; omega
      rw [Bool.eq_iff_iff]
      simp only [Bool.or_eq_true, Bool.and_eq_true, decide_eq_true_eq, Bool.or_true,
        Bool.not_true, Bool.and_false, Bool.false_eq_true, or_false, iff_false]
      omega

theorem gapPairs_asc : ∀ (L : List Blk), ascSeparated L = true → ascSeparated (gapPairs L) = true
  | [], _ => rfl
  | [_], _ => rfl
  | [a, b], h => by
    simp only [ascSeparated, Bool.and_eq_true, decide_eq_true_eq] at h
    simp only [gapPairs, ascSeparated, decide_eq_true_eq]
    omega
  | a :: b :: c :: r, h => by
    have h' := h
    simp only [ascSeparated, Bool.and_eq_true, decide_eq_true_eq] at h'
    have ih := gapPairs_asc (b :: c :: r) (by simpa [ascSeparated] using h'.2)
    have hc := (asc_cons h'.2.2).1
    rw [show gapPairs (a :: b :: c :: r) =
      (min a.2 b.2, max a.1 b.1) :: (min b.2 c.2, max b.1 c.1) :: gapPairs (c :: r) from rfl]
    rw [show gapPairs (b :: c :: r) = (min b.2 c.2, max b.1 c.1) :: gapPairs (c :: r) from rfl] at ih
    simp only [ascSeparated, Bool.and_eq_true, decide_eq_true_eq]
    refine ⟨⟨by omega, by omega⟩, ih⟩

theorem gapPairs_snd : ∀ (L : List Blk) (g : Blk), g ∈ gapPairs L → ∃ b ∈ L, g.2 = b.1
  | [], g, h => by simp [gapPairs] at h
  | [_], g, h => by simp [gapPairs] at h
  | a :: b :: rest, g, h => by
    rw [show gapPairs (a :: b :: rest) = (min a.2 b.2, max a.1 b.1) :: gapPairs (b :: rest) from rfl] at h
    rcases List.mem_cons.mp h with rfl | h
    · by_cases hab : a.1 ≤ b.1
      · exact ⟨b, by simp, by simp; omega⟩
      · exact ⟨a, by simp, by simp; omega⟩
    · obtain ⟨x, hx, he⟩ := gapPairs_snd (b :: rest) g h
      exact ⟨x, List.mem_cons_of_mem _ hx, he⟩

/-- the pair `(min ends, max starts)` does not depend on the reading direction -/
theorem gapPairs_snoc : ∀ (xs : List Blk) (x y : Blk),
    gapPairs (xs ++ [x, y]) = gapPairs (xs ++ [x]) ++ [(min x.2 y.2, max x.1 y.1)]
  | [], x, y => rfl
  | [z], x, y => rfl
  | z :: w :: xs, x, y => by
    have ih := gapPairs_snoc (w :: xs) x y
    simp only [List.cons_append] at ih ⊢
    rw [show gapPairs (z :: w :: (xs ++ [x, y])) = (min z.2 w.2, max z.1 w.1) :: gapPairs (w :: (xs ++ [x, y])) from rfl,
      show gapPairs (z :: w :: (xs ++ [x])) = (min z.2 w.2, max z.1 w.1) :: gapPairs (w :: (xs ++ [x])) from rfl, ih]
    rfl

theorem gapPairs_reverse : ∀ (L : List Blk), gapPairs L.reverse = (gapPairs L).reverse
  | [] => rfl
  | [_] => rfl
  | a :: b :: t => by
    have ih := gapPairs_reverse (b :: t)
    rw [show gapPairs (a :: b :: t) = (min a.2 b.2, max a.1 b.1) :: gapPairs (b :: t) from rfl]
    simp only [List.reverse_cons, List.append_assoc, List.cons_append, List.nil_append] at ih ⊢
    rw [gapPairs_snoc, ih, Nat.min_comm, Nat.max_comm]

end BioCantor.Proofs.Gaps
