/-
  C02-T6 / C02-T7: `optimize_blocks`, `optimize_and_combine_blocks`, `gap_list`, `gaps_location`
  against the position-set predicates of Spec/Algebra.lean.  Everything rests on the closed form of
  `Model.optimizeLoc` (`optimizeLoc_spec`, AlgOptimize.lean).
-/
import BioCantor.Proofs.AlgOverlap
import BioCantor.Proofs.AlgOptimize
namespace BioCantor.Proofs.Gaps
open BioCantor BioCantor.Spec BioCantor.Model BioCantor.Proofs

/-! ### `ascSeparated` -/

theorem asc_cons {a : Blk} {L : List Blk} (h : ascSeparated (a :: L) = true) :
    a.1 < a.2 ∧ ascSeparated L = true := by
  cases L with
  | nil => simpa [ascSeparated] using h
  | cons b r =>
    simp only [ascSeparated, Bool.and_eq_true, decide_eq_true_eq] at h
    exact ⟨h.1.1, h.2⟩

theorem asc_pos : ∀ (L : List Blk), ascSeparated L = true → ∀ b ∈ L, b.1 < b.2
  | [], _, b, hb => by cases hb
  | a :: L, h, b, hb => by
    obtain ⟨h1, h2⟩ := asc_cons h
    rcases List.mem_cons.mp hb with rfl | hb
    · exact h1
    · exact asc_pos L h2 b hb

theorem asc_pairwise : ∀ (L : List Blk), ascSeparated L = true → L.Pairwise (fun a b => a.2 < b.1)
  | [], _ => List.Pairwise.nil
  | [a], _ => by simp
  | a :: b :: r, h => by
    have h' := h
    simp only [ascSeparated, Bool.and_eq_true, decide_eq_true_eq] at h'
    have ih := asc_pairwise (b :: r) h'.2
    have hb := (asc_cons h'.2).1
    rw [List.pairwise_cons]
    refine ⟨?_, ih⟩
    intro c hc
    rcases List.mem_cons.mp hc with rfl | hc
    · exact h'.1.2
    · have := (List.pairwise_cons.mp ih).1 c hc
      omega

theorem asc_fst_lt (L : List Blk) (h : ascSeparated L = true) : L.Pairwise (fun a b => a.1 < b.1) :=
  (asc_pairwise L h).imp_of_mem (fun {a _} ha _ hab => Nat.lt_trans (asc_pos L h a ha) hab)

/-! ### `minStartOf` / `maxEndOf` -/

theorem minStartOf_cons2 (b c : Blk) (cs : List Blk) :
    minStartOf (b :: c :: cs) = min b.1 (minStartOf (c :: cs)) := rfl

theorem minStartOf_le_of_mem : ∀ (X : List Blk) (b : Blk), b ∈ X → minStartOf X ≤ b.1
  | [], _, h => by cases h
  | [a], b, h => by
    simp only [List.mem_singleton] at h
    subst h; exact Nat.le_refl _
  | a :: c :: cs, b, h => by
    rw [minStartOf_cons2]
    rcases List.mem_cons.mp h with rfl | h
    · omega
    · have := minStartOf_le_of_mem (c :: cs) b h; omega

theorem minStartOf_mem : ∀ (X : List Blk), X ≠ [] → ∃ b ∈ X, b.1 = minStartOf X
  | [], h => absurd rfl h
  | [a], _ => ⟨a, by simp, rfl⟩
  | a :: c :: cs, _ => by
    obtain ⟨b, hb, he⟩ := minStartOf_mem (c :: cs) (by simp)
    rw [minStartOf_cons2]
    by_cases h : a.1 ≤ minStartOf (c :: cs)
    · exact ⟨a, by simp, by omega⟩
    · exact ⟨b, List.mem_cons_of_mem _ hb, by omega⟩

theorem maxEndOf_mem : ∀ (X : List Blk), X ≠ [] → ∃ b ∈ X, b.2 = maxEndOf X
  | [], h => absurd rfl h
  | [a], _ => ⟨a, by simp, by simp [maxEndOf]⟩
  | a :: c :: cs, _ => by
    obtain ⟨b, hb, he⟩ := maxEndOf_mem (c :: cs) (by simp)
    show ∃ b ∈ a :: c :: cs, b.2 = max a.2 (maxEndOf (c :: cs))
    by_cases h : maxEndOf (c :: cs) ≤ a.2
    · exact ⟨a, by simp, by omega⟩
    · exact ⟨b, List.mem_cons_of_mem _ hb, by omega⟩

theorem minStartOf_le_of_cov (X : List Blk) (p : Nat) (h : coversBlocks X p = true) : minStartOf X ≤ p := by
  obtain ⟨b, hb, h1, _⟩ := (coversBlocks_iff X p).mp h
  have := minStartOf_le_of_mem X b hb
  omega

/-- lists of non-empty blocks: the ends are determined by the covered set -/
theorem ends_le_of_cov (X Y : List Blk) (hX : ∀ b ∈ X, b.1 < b.2) (hne : X ≠ [])
    (hcov : ∀ q, coversBlocks X q = true → coversBlocks Y q = true) :
    minStartOf Y ≤ minStartOf X ∧ maxEndOf X ≤ maxEndOf Y := by
  obtain ⟨b, hb, he⟩ := minStartOf_mem X hne
  obtain ⟨c, hc, hf⟩ := maxEndOf_mem X hne
  have h1 : coversBlocks X (minStartOf X) = true := by
    rw [coversBlocks_iff]; exact ⟨b, hb, by omega, by have := hX b hb; omega⟩
  have h2 : coversBlocks X (maxEndOf X - 1) = true := by
    rw [coversBlocks_iff]; exact ⟨c, hc, by have := hX c hc; omega, by have := hX c hc; omega⟩
  have h3 := minStartOf_le_of_cov Y _ (hcov _ h1)
  have h4 := coversBlocks_lt_maxEndOf Y _ (hcov _ h2)
  have := hX c hc
  exact ⟨h3, by omega⟩

theorem ne_nil_of_cov (X Y : List Blk) (hX : ∀ b ∈ X, b.1 < b.2) (hne : X ≠ [])
    (hcov : ∀ q, coversBlocks X q = true → coversBlocks Y q = true) : Y ≠ [] := by
  obtain ⟨b, hb, _⟩ := minStartOf_mem X hne
  have h1 : coversBlocks X b.1 = true := by
    rw [coversBlocks_iff]; exact ⟨b, hb, Nat.le_refl _, hX b hb⟩
  intro hY
  have := hcov _ h1
  rw [hY] at this
  simp [coversBlocks] at this

theorem same_cov_ends (X Y : List Blk) (hX : ∀ b ∈ X, b.1 < b.2) (hY : ∀ b ∈ Y, b.1 < b.2)
    (hcov : ∀ q, coversBlocks X q = coversBlocks Y q) :
    (X = [] ↔ Y = []) ∧ minStartOf X = minStartOf Y ∧ maxEndOf X = maxEndOf Y := by
  have hxy : ∀ q, coversBlocks X q = true → coversBlocks Y q = true := fun q h => by rw [← hcov]; exact h
  have hyx : ∀ q, coversBlocks Y q = true → coversBlocks X q = true := fun q h => by rw [hcov]; exact h
  by_cases hx : X = []
  · have hy : Y = [] := by
      apply Classical.byContradiction
      intro hy
      exact ne_nil_of_cov Y X hY hy hyx hx
    subst hx; subst hy
    exact ⟨Iff.rfl, rfl, rfl⟩
  · have hy : Y ≠ [] := ne_nil_of_cov X Y hX hx hxy
    have h1 := ends_le_of_cov X Y hX hx hxy
    have h2 := ends_le_of_cov Y X hY hy hyx
    exact ⟨⟨fun h => absurd h hx, fun h => absurd h hy⟩, by omega, by omega⟩

/-- dropping zero-length blocks keeps the covered set -/
theorem cov_filter_pos (S : List Blk) (q : Nat) :
    coversBlocks (S.filter (fun b => decide (b.1 < b.2))) q = coversBlocks S q := by
  rw [Bool.eq_iff_iff, coversBlocks_iff, coversBlocks_iff]
  constructor
  · rintro ⟨b, hb, h⟩
    exact ⟨b, (List.mem_filter.mp hb).1, h⟩
  · rintro ⟨b, hb, h⟩
    exact ⟨b, List.mem_filter.mpr ⟨hb, by simp; omega⟩, h⟩

/-! ### `gapPairs` on ascending separated blocks -/

theorem asc_minStart : ∀ (b : Blk) (rest : List Blk), ascSeparated (b :: rest) = true →
    minStartOf (b :: rest) = b.1
  | b, [], _ => rfl
  | b, c :: cs, h => by
    simp only [ascSeparated, Bool.and_eq_true, decide_eq_true_eq] at h
    rw [minStartOf_cons2, asc_minStart c cs h.2]
    have := (asc_cons h.2).1
    omega

theorem gapPairs_cov : ∀ (L : List Blk), ascSeparated L = true → ∀ p,
    coversBlocks (gapPairs L) p =
      (decide (minStartOf L ≤ p) && decide (p < maxEndOf L) && !coversBlocks L p)
  | [], _, p => by simp [gapPairs, coversBlocks, maxEndOf]
  | [a], _, p => by
    simp only [gapPairs, minStartOf, maxEndOf, coversBlocks, List.any_nil, List.any_cons, Bool.or_false,
      Nat.max_zero]
    simp
    intro h1 h2
    exact ⟨of_decide_eq_true h1, h2⟩
  | a :: b :: rest, h, p => by
    have h' := h
    simp only [ascSeparated, Bool.and_eq_true, decide_eq_true_eq] at h'
    have hb := (asc_cons h'.2).1
    have ih := gapPairs_cov (b :: rest) h'.2 p
    have hmin := asc_minStart b rest h'.2
    have hM : b.2 ≤ maxEndOf (b :: rest) := by simp only [maxEndOf]; omega
    rw [show gapPairs (a :: b :: rest) = (min a.2 b.2, max a.1 b.1) :: gapPairs (b :: rest) from rfl,
      coversBlocks_cons, ih, coversBlocks_cons a, minStartOf_cons2, hmin]
    rw [show maxEndOf (a :: b :: rest) = max a.2 (maxEndOf (b :: rest)) from rfl]
    cases hc : coversBlocks (b :: rest) p with
    | false =>
      rw [Bool.eq_iff_iff]
      simp only [Bool.or_eq_true, Bool.and_eq_true, decide_eq_true_eq, Bool.not_eq_true', Bool.or_false,
        Bool.not_false, Bool.and_true, Bool.and_eq_false_imp, decide_eq_false_iff_not]
      omega
    | true =>
      have h1 : b.1 ≤ p := by
        have := minStartOf_le_of_cov _ _ hc; omega
      rw [Bool.eq_iff_iff]
      simp only [Bool.or_eq_true, Bool.and_eq_true, decide_eq_true_eq, Bool.or_true,
        Bool.not_true, Bool.and_false, Bool.false_eq_true, or_false, iff_false]
      omega

theorem gapPairs_asc : ∀ (L : List Blk), ascSeparated L = true → ascSeparated (gapPairs L) = true
  | [], _ => rfl
  | [_], _ => rfl
  | [a, b], h => by
    simp only [ascSeparated, Bool.and_eq_true, decide_eq_true_eq] at h
    simp only [gapPairs, ascSeparated, decide_eq_true_eq]
    omega
  | a :: b :: c :: r, h => by
    have h' := h
    simp only [ascSeparated, Bool.and_eq_true, decide_eq_true_eq] at h'
    have ih := gapPairs_asc (b :: c :: r) (by simpa [ascSeparated] using h'.2)
    have hc := (asc_cons h'.2.2).1
    rw [show gapPairs (a :: b :: c :: r) =
      (min a.2 b.2, max a.1 b.1) :: (min b.2 c.2, max b.1 c.1) :: gapPairs (c :: r) from rfl]
    rw [show gapPairs (b :: c :: r) = (min b.2 c.2, max b.1 c.1) :: gapPairs (c :: r) from rfl] at ih
    simp only [ascSeparated, Bool.and_eq_true, decide_eq_true_eq]
    refine ⟨⟨by omega, by omega⟩, ih⟩

theorem gapPairs_snd : ∀ (L : List Blk) (g : Blk), g ∈ gapPairs L → ∃ b ∈ L, g.2 = b.1
  | [], g, h => by simp [gapPairs] at h
  | [_], g, h => by simp [gapPairs] at h
  | a :: b :: rest, g, h => by
    rw [show gapPairs (a :: b :: rest) = (min a.2 b.2, max a.1 b.1) :: gapPairs (b :: rest) from rfl] at h
    rcases List.mem_cons.mp h with rfl | h
    · by_cases hab : a.1 ≤ b.1
      · exact ⟨b, by simp, by simp; omega⟩
      · exact ⟨a, by simp, by simp; omega⟩
    · obtain ⟨x, hx, he⟩ := gapPairs_snd (b :: rest) g h
      exact ⟨x, List.mem_cons_of_mem _ hx, he⟩

/-- the pair `(min ends, max starts)` does not depend on the reading direction -/
theorem gapPairs_snoc : ∀ (xs : List Blk) (x y : Blk),
    gapPairs (xs ++ [x, y]) = gapPairs (xs ++ [x]) ++ [(min x.2 y.2, max x.1 y.1)]
  | [], x, y => rfl
  | [z], x, y => rfl
  | z :: w :: xs, x, y => by
    have ih := gapPairs_snoc (w :: xs) x y
    simp only [List.cons_append] at ih ⊢
    rw [show gapPairs (z :: w :: (xs ++ [x, y])) = (min z.2 w.2, max z.1 w.1) :: gapPairs (w :: (xs ++ [x, y])) from rfl,
      show gapPairs (z :: w :: (xs ++ [x])) = (min z.2 w.2, max z.1 w.1) :: gapPairs (w :: (xs ++ [x])) from rfl, ih]
    rfl

theorem gapPairs_reverse : ∀ (L : List Blk), gapPairs L.reverse = (gapPairs L).reverse
  | [] => rfl
  | [_] => rfl
  | a :: b :: t => by
    have ih := gapPairs_reverse (b :: t)
    rw [show gapPairs (a :: b :: t) = (min a.2 b.2, max a.1 b.1) :: gapPairs (b :: t) from rfl]
    simp only [List.reverse_cons, List.append_assoc, List.cons_append, List.nil_append] at ih ⊢
    rw [gapPairs_snoc, ih, Nat.min_comm, Nat.max_comm]

/-! ### the expected gaps in terms of the optimised block list -/

theorem expected_eq (S : List Blk) (st : Strand) (L : List Blk) (hL : ∀ b ∈ L, b.1 < b.2)
    (hcov : ∀ q, coversBlocks L q = coversBlocks S q) (p : Nat) :
    (decide (minStartOf L ≤ p) && decide (p < maxEndOf L) && !coversBlocks L p) =
      gapExpected (.compound ⟨S, st⟩) p := by
  have hF : ∀ b ∈ S.filter (fun b => decide (b.1 < b.2)), b.1 < b.2 := by
    intro b hb
    simpa using (List.mem_filter.mp hb).2
  have hne := same_cov_ends L (S.filter (fun b => decide (b.1 < b.2))) hL hF
    (fun q => by rw [hcov, cov_filter_pos])
  unfold gapExpected
  simp only [locationBlocks]
  cases hf : S.filter (fun b => decide (b.1 < b.2)) with
  | nil =>
    have : L = [] := hne.1.mpr hf
    subst this
    simp [maxEndOf]
  | cons x xs =>
    simp only
    rw [← hf, ← hne.2.1, ← hne.2.2, locationCovers_eq, locationBlocks, hcov]

/-- `gap_list` of a constructor-made compound in closed form: `G` are the gaps in ascending order -/
theorem gapList_compound (S : List Blk) (st : Strand) (hc : Loc.Canon ⟨S, st⟩) :
    (st = .unstranded ∧ ans (gapList (.compound ⟨S, st⟩)) = none) ∨
    ∃ G, ascSeparated G = true ∧ (∀ g ∈ G, g.2 ≤ maxEndOf S) ∧
      (∀ p, coversBlocks G p = gapExpected (.compound ⟨S, st⟩) p) ∧
      gapList (.compound ⟨S, st⟩) = .ok (if st = .minus then G.reverse else G) := by
  obtain ⟨r, hr, hspec⟩ := optimizeLoc_spec false S st hc
  have hsep := hspec.sep rfl
  have hpos := hspec.pos
  have hG : ascSeparated (gapPairs (locationBlocks r)) = true := gapPairs_asc _ hsep
  have hB : ∀ g ∈ gapPairs (locationBlocks r), g.2 ≤ maxEndOf S := by
    intro g hg
    obtain ⟨b, hb, he⟩ := gapPairs_snd _ g hg
    have := hspec.ends_le b hb
    have := hpos b hb
    omega
  have hC : ∀ p, coversBlocks (gapPairs (locationBlocks r)) p = gapExpected (.compound ⟨S, st⟩) p := by
    intro p
    rw [gapPairs_cov _ hsep p]
    exact expected_eq S st _ hpos hspec.cov p
  have hV : ∀ (X : List Blk), ascSeparated X = true → X.all (fun g => decide (g.1 ≤ g.2)) = true := by
    intro X hX
    simp only [List.all_eq_true, decide_eq_true_eq]
    intro g hg
    exact Nat.le_of_lt (asc_pos X hX g hg)
  match r, hr, hspec, hG, hB, hC with
  | .empty, hr, _, hG, hB, hC =>
    right
    refine ⟨[], rfl, by simp, hC, ?_⟩
    simp only [gapList, hr, ok_bind]
    simp
    rfl
  | .single b s, hr, _, hG, hB, hC =>
    right
    refine ⟨[], rfl, by simp, hC, ?_⟩
    simp only [gapList, hr, ok_bind]
    simp
    rfl
  | .compound lo, hr, hspec, hG, hB, hC =>
    have hst : lo.strand = st := by
      rcases hspec.strand with h | h
      · cases h
      · simpa [locationStrand?] using h
    simp only [locationBlocks] at hG hB hC
    cases st with
    | unstranded =>
      left
      refine ⟨rfl, ?_⟩
      simp only [gapList, hr, ok_bind, scanBlocks, assertDirectional, hst]
      simp
      rfl
    | plus =>
      right
      refine ⟨gapPairs lo.blocks, hG, hB, hC, ?_⟩
      simp only [gapList, hr, ok_bind, scanBlocks, assertDirectional, hst]
      simp [hV _ hG]
      rfl
    | minus =>
      right
      refine ⟨gapPairs lo.blocks, hG, hB, hC, ?_⟩
      have hrev : (gapPairs lo.blocks).reverse.all (fun g => decide (g.1 ≤ g.2)) = true := by
        rw [List.all_reverse]; exact hV _ hG
      simp only [gapList, hr, ok_bind, scanBlocks, assertDirectional, hst]
      simp [gapPairs_reverse, hrev]
      rfl

end BioCantor.Proofs.Gaps

namespace BioCantor.Proofs.Gaps
open BioCantor BioCantor.Spec BioCantor.Model BioCantor.Proofs

/-! ### from `OptSpec` to the optimiser predicates -/

theorem locationBases_perm (r : Location) : (locationBases r).Perm (basesPlus (locationBlocks r)) := by
  cases r with
  | empty => exact List.Perm.refl _
  | single b s =>
    simp only [locationBases, locationBlocks, bases_mk]
    split
    · exact List.reverse_perm _
    · exact List.Perm.refl _
  | compound l =>
    obtain ⟨bs, st⟩ := l
    simp only [locationBases, locationBlocks, bases_mk]
    split
    · exact List.reverse_perm _
    · exact List.Perm.refl _

theorem bound_of (a : PLoc) (ha : WFP a) (S : List Blk) (hS : locationBlocks a.1 = S) (bs : List Blk)
    (hle : ∀ b ∈ bs, b.2 ≤ maxEndOf S) :
    ∀ n, parentSeqLen a.2 = some n → ∀ b ∈ bs, b.2 ≤ n := by
  intro n hn b hb
  have h1 := hle b hb
  have h2 : maxEndOf S ≤ n := (maxEndOf_le_iff S n).mpr (by rw [← hS]; exact ha.2.2 n hn)
  omega

theorem okOptimize_of (a : PLoc) (ha : WFP a) (S : List Blk) (st : Strand) (ha1 : a.1 = .compound ⟨S, st⟩)
    (r : Location) (hs : OptSpec true S st r) : okOptimize a (some (withPar r a.2)) = true := by
  have hS : locationBlocks a.1 = S := by rw [ha1]; rfl
  simp only [okOptimize, withPar_fst, Bool.and_eq_true]
  refine ⟨⟨⟨⟨⟨?_, ?_⟩, hs.noEmptyBlock⟩, ?_⟩, hs.kind⟩, ?_⟩
  · exact resultOk_withPar r a.2 a.2 hs.wf (bound_of a ha S hS _ hs.ends_le) (sameParent_refl _)
  · rw [beq_iff_eq]
    apply sortNat_perm
    refine (locationBases_perm r).trans ((hs.bases rfl).trans ?_)
    rw [← hS]
    exact (locationBases_perm a.1).symm
  · rw [ha1]; exact hs.strandIs
  · simp only [nonOverlapLoc, hS]
    split
    · rename_i hno
      exact (hs.normal rfl hno).1
    · rfl

theorem okOptCombine_of (a : PLoc) (ha : WFP a) (S : List Blk) (st : Strand) (ha1 : a.1 = .compound ⟨S, st⟩)
    (r : Location) (hs : OptSpec false S st r) : okOptCombine a (some (withPar r a.2)) = true := by
  have hS : locationBlocks a.1 = S := by rw [ha1]; rfl
  have hhi : hiOf [a.1] = maxEndOf S := by rw [hiOf_one, hS]
  unfold okOptCombine
  rw [ha1]
  simp only [withPar_fst, Bool.and_eq_true]
  rw [← ha1, hhi]
  refine ⟨⟨⟨⟨⟨?_, ?_⟩, ?_⟩, hs.sep rfl⟩, ?_⟩, hs.kind⟩
  · exact resultOk_withPar r a.2 a.2 hs.wf (bound_of a ha S hS _ hs.ends_le) (sameParent_refl _)
  · simp only [endsWithin, List.all_eq_true, decide_eq_true_eq]
    exact hs.ends_le
  · rw [allUpTo_iff]
    intro p _
    rw [beq_iff_eq, hs.locationCovers, locationCovers_eq, hS]
  · rw [ha1]; exact hs.strandIs

end BioCantor.Proofs.Gaps

namespace BioCantor.Proofs
open BioCantor BioCantor.Spec BioCantor.Model

/-- C02-T7a: optimize_blocks keeps the multiset of covered positions, drops empty blocks, honours the type promise, and yields the normal
    form for layouts that are not self-overlapping -/
theorem optimizeBlocksP_ok (a : PLoc) (ha : WFP a) : okOptimize a (ans (optimizeBlocksP a)) = true := by
  match a, ha with
  | (.empty, par), ha =>
    have : par = [] := ha.2.1 rfl
    subst this
    rfl
  | (.single b st, par), ha =>
    by_cases h0 : b.2 - b.1 = 0
    · have e : optimizeBlocksP (.single b st, par) = .ok (.empty, []) := by
        simp [optimizeBlocksP, optimizeBlocks, Blk.len, h0, bind, Except.bind, pure, Except.pure, withPar]
      rw [e]
      have hb : basesPlus [b] = [] := by simp [basesPlus, blkAsc, h0]
      simp [okOptimize, resultOk, wfLocation, parLen, locationBases, bases_mk, hb, sortNat, Spec.noEmptyBlock,
        locationBlocks, Spec.strandIs, kindOk, normalBlocks, nonOverlapLoc, nonOverlap]
    · have e : optimizeBlocksP (.single b st, par) = .ok (withPar (.single b st) par) := by
        simp [optimizeBlocksP, optimizeBlocks, Blk.len, h0, bind, Except.bind, pure, Except.pure]
      rw [e]
      have hwf : b.1 ≤ b.2 := ha.1
      have hr := resultOk_withPar (.single b st) par par (by simpa [wfLocation] using hwf) ha.2.2 (sameParent_refl _)
      simp only [ans_ok, okOptimize, withPar_fst, Bool.and_eq_true]
      refine ⟨⟨⟨⟨⟨hr, by simp⟩, ?_⟩, ?_⟩, rfl⟩, ?_⟩
      · simp [Spec.noEmptyBlock, locationBlocks]; omega
      · simp [Spec.strandIs]
      · simp [nonOverlapLoc, nonOverlap, locationBlocks, normalBlocks]; omega
  | (.compound ⟨S, st⟩, par), ha =>
    obtain ⟨r, hr, hs⟩ := optimizeLoc_spec true S st ha.1
    have e : optimizeBlocksP (.compound ⟨S, st⟩, par) = .ok (withPar r par) := by
      simp only [optimizeBlocksP, optimizeBlocks, hr, ok_bind]; rfl
    rw [e]
    exact Gaps.okOptimize_of _ ha S st rfl r hs

/-- C02-T7b: optimize_and_combine_blocks keeps the covered set and yields ascending blocks separated by at least one position -/
theorem optimizeAndCombineP_ok (a : PLoc) (ha : WFP a) : okOptCombine a (ans (optimizeAndCombineP a)) = true := by
  match a, ha with
  | (.empty, par), _ => rfl
  | (.single b st, par), _ => rfl
  | (.compound ⟨S, st⟩, par), ha =>
    obtain ⟨r, hr, hs⟩ := optimizeLoc_spec false S st ha.1
    have e : optimizeAndCombineP (.compound ⟨S, st⟩, par) = .ok (withPar r par) := by
      simp only [optimizeAndCombineP, optimizeAndCombine, hr, ok_bind]; rfl
    rw [e]
    exact Gaps.okOptCombine_of _ ha S st rfl r hs

end BioCantor.Proofs

namespace BioCantor.Proofs.Gaps
open BioCantor BioCantor.Spec BioCantor.Model BioCantor.Proofs

/-! ### from the closed form of `gap_list` to the gap predicates -/

theorem ans_none {α} (x : R α) (h : ans x = none) : ∃ e, x = .error e := by
  cases x with
  | error e => exact ⟨e, rfl⟩
  | ok v => simp at h

/-- the gaps as returned (5'→3') -/
def ordered (st : Strand) (G : List Blk) : List Blk := if st = .minus then G.reverse else G

theorem ordered_perm (st : Strand) (G : List Blk) : (ordered st G).Perm G := by
  unfold ordered; split
  · exact List.reverse_perm _
  · exact List.Perm.refl _

theorem okGapList_of (a : PLoc) (S : List Blk) (st : Strand) (ha1 : a.1 = .compound ⟨S, st⟩) (G : List Blk)
    (hasc : ascSeparated G = true) (hle : ∀ g ∈ G, g.2 ≤ maxEndOf S)
    (hcov : ∀ p, coversBlocks G p = gapExpected a.1 p) :
    okGapList a (some ((ordered st G).map (fun g => (st, g)))) = true := by
  have hS : locationBlocks a.1 = S := by rw [ha1]; rfl
  have hhi : hiOf [a.1] = maxEndOf S := by rw [hiOf_one, hS]
  have hstr : locationStrand? a.1 = some st := by rw [ha1]; rfl
  have hmap : ((ordered st G).map (fun g => (st, g))).map Prod.snd = ordered st G := by
    simp [List.map_map, Function.comp_def]
  simp only [okGapList, hmap, hhi, hstr, Bool.and_eq_true]
  refine ⟨⟨⟨?_, ?_⟩, ?_⟩, ?_⟩
  · simp [List.all_eq_true]
  · simp only [List.all_eq_true, decide_eq_true_eq]
    intro g hg
    exact hle g ((ordered_perm st G).mem_iff.mp hg)
  · rw [allUpTo_iff]
    intro p _
    rw [beq_iff_eq, coversBlocks_perm (ordered_perm st G), hcov]
  · unfold ordered
    cases st <;> simp [hasc]

theorem okGaps_of (a : PLoc) (ha : WFP a) (S : List Blk) (st : Strand) (ha1 : a.1 = .compound ⟨S, st⟩)
    (G : List Blk) (hasc : ascSeparated G = true) (hle : ∀ g ∈ G, g.2 ≤ maxEndOf S)
    (hcov : ∀ p, coversBlocks G p = gapExpected a.1 p)
    (hgl : gapList a.1 = .ok (ordered st G)) :
    okGaps a (ans (gapsLocationP a)) = true := by
  have hS : locationBlocks a.1 = S := by rw [ha1]; rfl
  have hhi : hiOf [a.1] = maxEndOf S := by rw [hiOf_one, hS]
  have hstr : locationStrand? a.1 = some st := by rw [ha1]; rfl
  have hdisp : gapsLocationP a = (do
      let gs ← gapList a.1
      if gs.isEmpty then pure (.empty, [])
      else do
        let c ← mkCompoundLoc gs st
        pure (.compound c, a.2)) := by
    unfold gapsLocationP
    rw [ha1]
  rw [hdisp, hgl, ok_bind]
  by_cases hG : G = []
  · subst hG
    have : ordered st [] = [] := by unfold ordered; split <;> rfl
    rw [this]
    simp only [List.isEmpty_nil, if_true, ans_pure, okGaps, Bool.and_eq_true]
    refine ⟨⟨⟨⟨by simp [resultOk, wfLocation, parLen], by simp [endsWithin, locationBlocks]⟩, ?_⟩, by simp [Spec.strandIs]⟩, rfl⟩
    rw [allUpTo_iff]
    intro p _
    rw [beq_iff_eq, ← hcov]
    rfl
  · have hne : ordered st G ≠ [] := by
      intro h
      have := (ordered_perm st G).symm.length_eq
      rw [h] at this
      exact hG (List.length_eq_zero_iff.mp this)
    have hv : ∀ g ∈ ordered st G, g.1 ≤ g.2 := by
      intro g hg
      exact Nat.le_of_lt (asc_pos G hasc g ((ordered_perm st G).mem_iff.mp hg))
    have hsort : sortBlocks st (ordered st G) = G :=
      sortBlocks_eq_of_perm_sorted st (ordered_perm st G).symm (fst_lt_blkLe st G (asc_fst_lt G hasc))
    have hemp : (ordered st G).isEmpty = false := by simpa using hne
    have hcanon : Loc.Canon ⟨G, st⟩ := by
      have := canon_sortBlocks st hne hv
      rwa [hsort] at this
    rw [hemp, mkCompoundLoc_ok st hne hv, hsort]
    simp only [Bool.false_eq_true, if_false, ok_bind, ans_pure, okGaps, Bool.and_eq_true, hhi]
    refine ⟨⟨⟨⟨?_, ?_⟩, ?_⟩, ?_⟩, hasc⟩
    · exact resultOk_withPar (.compound ⟨G, st⟩) a.2 a.2 (by simpa [wfLocation] using hcanon)
        (bound_of a ha S hS G hle) (sameParent_refl _)
    · simp only [endsWithin, locationBlocks, List.all_eq_true, decide_eq_true_eq]
      exact hle
    · rw [allUpTo_iff]
      intro p _
      rw [beq_iff_eq, ← hcov]
      rfl
    · rw [hstr]
      simp [Spec.strandIs, locationStrand?]

theorem gapExpected_single (b : Blk) (st : Strand) (p : Nat) : gapExpected (.single b st) p = false := by
  by_cases h : b.1 < b.2
  · simp [gapExpected, locationBlocks, h, minStartOf, maxEndOf, locationCovers, coversBlocks]
    intro h1 h2
    exact ⟨of_decide_eq_true h1, h2⟩
  · simp [gapExpected, locationBlocks, h]

end BioCantor.Proofs.Gaps

namespace BioCantor.Proofs
open BioCantor BioCantor.Spec BioCantor.Model

/-- C02-T6: gaps_location covers exactly the uncovered positions between the first and the last non-empty block -/
theorem gapsLocationP_ok (a : PLoc) (ha : WFP a) : okGaps a (ans (gapsLocationP a)) = true := by
  match a, ha with
  | (.empty, par), _ => rfl
  | (.single b st, par), _ =>
    simp only [gapsLocationP, ans_pure, okGaps, Bool.and_eq_true]
    refine ⟨⟨⟨⟨by simp [resultOk, wfLocation, parLen], by simp [endsWithin, locationBlocks]⟩, ?_⟩, by simp [Spec.strandIs]⟩, rfl⟩
    rw [allUpTo_iff]
    intro p _
    rw [beq_iff_eq, Gaps.gapExpected_single]
    rfl
  | (.compound ⟨S, st⟩, par), ha =>
    rcases Gaps.gapList_compound S st ha.1 with ⟨hst, hnone⟩ | ⟨G, hasc, hle, hcov, hgl⟩
    · obtain ⟨e, he⟩ := Gaps.ans_none _ hnone
      have : gapsLocationP (.compound ⟨S, st⟩, par) = .error e := by
        simp only [gapsLocationP, he]; rfl
      rw [this, hst]
      rfl
    · exact Gaps.okGaps_of _ ha S st rfl G hasc hle hcov hgl

/-- C02-T6: gap_list gives the same gaps as single intervals on the location's strand in 5'→3' order -/
theorem gapListP_ok (a : PLoc) (ha : WFP a) : okGapList a (ans (gapListP a)) = true := by
  match a, ha with
  | (.empty, par), _ => rfl
  | (.single b st, par), _ =>
    have e : gapListP (.single b st, par) = .ok [] := rfl
    rw [e]
    simp only [ans_ok, okGapList, List.map_nil, List.all_nil, List.reverse_nil, ite_self, Bool.true_and,
      Bool.and_eq_true]
    refine ⟨?_, rfl⟩
    rw [allUpTo_iff]
    intro p _
    rw [beq_iff_eq, Gaps.gapExpected_single]
    rfl
  | (.compound ⟨S, st⟩, par), ha =>
    rcases Gaps.gapList_compound S st ha.1 with ⟨hst, hnone⟩ | ⟨G, hasc, hle, hcov, hgl⟩
    · obtain ⟨e, he⟩ := Gaps.ans_none _ hnone
      have : gapListP (.compound ⟨S, st⟩, par) = .error e := by
        simp only [gapListP, he]; rfl
      rw [this, hst]
      rfl
    · have : gapListP (.compound ⟨S, st⟩, par) = .ok ((Gaps.ordered st G).map (fun g => (st, g))) := by
        simp only [gapListP, hgl, ok_bind]; rfl
      rw [this]
      exact Gaps.okGapList_of _ S st rfl G hasc hle hcov

end BioCantor.Proofs

/-! ### the hypotheses are satisfiable on non-trivial inputs -/

namespace BioCantor.Proofs.Gaps
open BioCantor BioCantor.Spec BioCantor.Model BioCantor.Proofs

/-- `optimizeBlocksP_ok`, `optimizeAndCombineP_ok`: overlapping, adjacent and zero-length blocks, minus strand, parent -/
example : WFP ((.compound ⟨[(0, 2), (2, 4), (2, 2), (3, 5)], .minus⟩), [(some "chrA", none, some ['A','C','G','T','A'])]) := by
  decide

/-- `gapsLocationP_ok`, `gapListP_ok`: two gaps, a zero-length block inside a gap and one at the end, minus strand, parent -/
example : WFP ((.compound ⟨[(0, 2), (3, 3), (4, 5), (7, 9), (9, 9)], .minus⟩),
    [(some "chrA", none, some ['A','C','G','T','A','C','G','T','A'])]) := by
  decide

/-- an unstranded input (the refusal branch of `okGaps` / `okGapList`) -/
example : WFP ((.compound ⟨[(0, 2), (4, 5)], .unstranded⟩), []) := by decide

end BioCantor.Proofs.Gaps
