/- C19 proofs, part 3: Parent.__init__. -/
import BioCantor.Proofs.ValBasics
set_option linter.unusedSimpArgs false
namespace BioCantor.Proofs.Val
open BioCantor BioCantor.Model BioCantor.Model.Validate
open BioCantor.Spec.Validate (Out)

def specLoc (l : PLoc) : Spec.Validate.PLoc := ⟨l.isEmpty, l.strand, l.endp, l.len, l.pid, l.ptype⟩
def specSeq (q : PSeq) : Spec.Validate.PSeq := ⟨q.len, q.id, q.type, q.par⟩
def specPar (p : PPar) : Spec.Validate.PPar := ⟨p.id, p.type, p.seqLen⟩
def specArgs (a : ParentArgs) : Spec.Validate.ParentArgs :=
  ⟨a.id, a.stype, a.strand, a.loc.map specLoc, a.seq.map specSeq, a.par.map specPar⟩
def specOut (o : ParentOut) : Spec.Validate.ParentOut := ⟨o.id, o.stype, o.strand, o.hasParent⟩

def consistentL : List String → Bool
  | [] => true
  | z :: r => r.all (· == z)

theorem consistent_eq (vals : List (Option String)) :
    Spec.Validate.consistent vals = consistentL (vals.filterMap id) := by
  unfold Spec.Validate.consistent
  cases vals.filterMap id <;> rfl

theorem all_eq_of_head_none (fm : List String) (x : String) (h : fm.head? = none) : fm.all (· == x) = true := by
  cases fm with
  | nil => rfl
  | cons y r => simp at h

theorem all_eq_of_head_some (fm : List String) (x y : String) (h : fm.head? = some y) (hc : consistentL fm = true) :
    fm.all (· == x) = decide (y = x) := by
  cases fm with
  | nil => simp at h
  | cons z r =>
      simp only [List.head?_cons, Option.some.injEq] at h
      subst h
      simp only [consistentL, List.all_eq_true, beq_iff_eq] at hc
      by_cases hzx : z = x
      · subst hzx
        simp only [List.all_cons, beq_self_eq_true, Bool.true_and, decide_true, List.all_eq_true, beq_iff_eq]
        exact hc
      · simp [hzx]

theorem all_eq_of_inconsistent (fm : List String) (x : String) (hc : consistentL fm = false) :
    fm.all (· == x) = false := by
  cases fm with
  | nil => simp [consistentL] at hc
  | cons z r =>
      by_cases hzx : z = x
      · subst hzx
        simp only [consistentL] at hc
        simp [hc]
      · simp [hzx]

/-- `_unique_value_or_none`: accepted exactly when all non-null values agree; the answer is the first of them -/
theorem uniqueOrNone_eq (vals : List (Option String)) :
    uniqueOrNone vals =
      bif Spec.Validate.consistent vals then .ok (Spec.Validate.firstSome vals) else raise .Parent := by
  induction vals with
  | nil => rfl
  | cons v rest ih =>
      cases v with
      | none =>
          have h1 : Spec.Validate.consistent (none :: rest) = Spec.Validate.consistent rest := by
            simp [consistent_eq]
          have h2 : Spec.Validate.firstSome (none :: rest) = Spec.Validate.firstSome rest := by
            simp [Spec.Validate.firstSome]
          rw [h1, h2, ← ih]; rfl
      | some x =>
          have h1 : Spec.Validate.consistent (some x :: rest) = (rest.filterMap id).all (· == x) := by
            simp [consistent_eq, consistentL]
          have h2 : Spec.Validate.firstSome (some x :: rest) = some x := by
            simp [Spec.Validate.firstSome]
          rw [h1, h2]
          show (do let r ← uniqueOrNone rest
                   match r with
                   | none => pure (some x)
                   | some y => if y = x then pure (some x) else raise .Parent) = _
          rw [ih]
          cases hc : Spec.Validate.consistent rest with
          | false =>
              rw [consistent_eq] at hc
              rw [all_eq_of_inconsistent _ x hc]; rfl
          | true =>
              rw [consistent_eq] at hc
              cases hf : Spec.Validate.firstSome rest with
              | none =>
                  rw [all_eq_of_head_none _ x hf]; rfl
              | some y =>
                  rw [all_eq_of_head_some _ x y hf hc]
                  by_cases hyx : y = x <;> simp [hyx, bind, Except.bind, pure, Except.pure, raise]

theorem mkParent_spec (a : ParentArgs) :
    Spec.Validate.okMkParent (specArgs a) (outOf specOut (mkParent a)) = true := by
  unfold mkParent
  rw [uniqueOrNone_eq, uniqueOrNone_eq]
  have hid : Spec.Validate.idsOf (specArgs a) = [a.id, a.loc.bind (·.pid), a.seq.bind (·.id)] := by
    rcases a with ⟨_, _, _, loc, seq, _⟩; cases loc <;> cases seq <;> rfl
  have hty : Spec.Validate.typesOf (specArgs a) = [a.stype, a.loc.bind (·.ptype), a.seq.bind (·.type)] := by
    rcases a with ⟨_, _, _, loc, seq, _⟩; cases loc <;> cases seq <;> rfl
  unfold Spec.Validate.okMkParent Spec.Validate.validParent
  rw [hid, hty]
  generalize Spec.Validate.consistent [a.id, a.loc.bind (·.pid), a.seq.bind (·.id)] = c1
  generalize Spec.Validate.consistent [a.stype, a.loc.bind (·.ptype), a.seq.bind (·.type)] = c2
  generalize Spec.Validate.firstSome [a.id, a.loc.bind (·.pid), a.seq.bind (·.id)] = f1
  generalize Spec.Validate.firstSome [a.stype, a.loc.bind (·.ptype), a.seq.bind (·.type)] = f2
  clear hid hty
  rcases a with ⟨id, ty, st, loc, seq, par⟩
  cases c1 <;> cases c2 <;>
    rcases loc with _ | ⟨e, ls, le, ll, lp, lt⟩ <;>
    rcases st with _ | st <;>
    rcases seq with _ | ⟨ql, qi, qt, _ | qp⟩ <;>
    rcases par with _ | ⟨pi, pt, _ | pn⟩ <;>
    (try cases e) <;>
    (try by_cases h1 : st = ls) <;>
    (try by_cases h2 : ql < le) <;>
    (try by_cases h3 : pn < ql) <;>
    (try by_cases h4 : pi = qp.1 ∧ pt = qp.2) <;>
    simp [*, cond, bind, Except.bind, pure, Except.pure, raise, outOf, specOut, specArgs, specLoc, specSeq, specPar,
      checkLocation, checkParentLength, resolveParent, strandProp, parEqualsSeqPar, Spec.Validate.emptyLoc] <;>
    (try simp_all) <;> (try omega) <;>
    (by_cases h5 : pi = qp.1 <;> simp_all)

theorem mkParent_noInternal (a : ParentArgs) : NoInternal (mkParent a) := by
  intro c h
  have := mkParent_spec a
  rw [h] at this
  simp [outOf, Spec.Validate.okMkParent] at this

end BioCantor.Proofs.Val
