/- C19 proofs, part 13: the parent validation of the interval / collection constructors
   (`AbstractInterval.liftover_location_to_seq_chunk_parent`, `AnnotationCollection.__init__`) on the grid of parent
   hierarchies, and what it does on ANY hierarchy. -/
import BioCantor.Model.Validate
import BioCantor.Spec.Validate
namespace BioCantor.Proofs.Val
open BioCantor BioCantor.Model BioCantor.Model.Validate
open BioCantor.Spec.Validate (HErr HOut okHier hierKinds)

def specHErr : Err → HErr
  | .NoSuchAncestor => .NoSuchAncestor
  | .NullSequence => .NullSequence
  | _ => .otherDocumented

/-- what a caller (and the harness) observes of a constructor call -/
def outHier : V Unit → HOut
  | .ok _ => .okWf
  | .error (.doc e) => .refused (specHErr e)
  | .error (.internal _) => .internal

/-- one grid point: the kind indexes both tables (`hierKey`: the Parent objects as the library sees them;
    `hierKinds`: the plain descriptors the expected verdict is computed from) -/
def hierPoint (c : HCls) (k : Nat) : Bool :=
  match hierKey k, hierKinds[k]? with
  | some chain, some hd => okHier hd (outHier (hierModel c chain))
  | _, _ => false

/-- the grid points on which the code that exists deviates from the documentation:
      (12, 18     the chunk does not say where it sits on a parent: F-C19t, repaired by 43c4851 - no longer here)
      (16, 19     a valid chunk-on-chromosome hierarchy is refused with MismatchedParentException: a documented class,
                  outside C19 - recorded as an observation in DESIGN 11.5)
      7-10, 12, 17, 18   an AnnotationCollection without children and bounds never looks at its parent (F-C19w) -/
def hierDeviation (c : HCls) (k : Nat) : Bool :=
  (c == .emptyAnnot && (k == 7 || k == 8 || k == 9 || k == 10 || k == 12 || k == 17 || k == 18))

def allHCls : List HCls := [.located, .emptyAnnot]

def hierGridCheck : Bool :=
  allHCls.all fun c => (List.range nHierKinds).all fun k => hierPoint c k == !hierDeviation c k

theorem hierGridCheck_true : hierGridCheck = true := by decide +kernel

theorem hier_grid (c : HCls) (k : Nat) (hk : k < nHierKinds) : hierPoint c k = !hierDeviation c k := by
  have h := hierGridCheck_true
  simp only [hierGridCheck, List.all_eq_true, List.mem_range, beq_iff_eq] at h
  have hc : c ∈ allHCls := by cases c <;> simp [allHCls]
  exact h c hc k hk

/-! ### any hierarchy -/

theorem hasAncestor_dropWhile (t : HTy) (chain : List HLevel) (h : hasAncestor t chain = true) :
    ∃ c above, chain.dropWhile (fun l => l.ty != t) = c :: above ∧ c.ty = t := by
  induction chain with
  | nil => simp [hasAncestor] at h
  | cons x xs ih =>
      by_cases hx : x.ty = t
      · exact ⟨x, xs, by simp [List.dropWhile, hx], hx⟩
      · have hxs : hasAncestor t xs = true := by
          simp only [hasAncestor, List.any_cons, Bool.or_eq_true, beq_iff_eq] at h ⊢
          rcases h with h | h
          · exact absurd h hx
          · exact h
        obtain ⟨c, above, h1, h2⟩ := ih hxs
        refine ⟨c, above, ?_, h2⟩
        have : (x.ty != t) = true := by simpa using hx
        simp [List.dropWhile, this, h1]

/-- no sequence chunk anywhere in the hierarchy: every constructor takes the parent as it is -/
theorem liftover_without_chunk (chain : List HLevel) (h : hasAncestor .chunk chain = false) :
    liftoverParents chain = .ok () := by
  unfold liftoverParents
  cases chain with
  | nil => rfl
  | cons x xs => simp only [h, Bool.false_eq_true, if_false]; rfl

/-- a sequence chunk but no chromosome in the hierarchy: NoSuchAncestorException, whatever else the hierarchy holds -/
theorem liftover_chunk_without_chromosome (chain : List HLevel) (hk : hasAncestor .chunk chain = true)
    (hc : hasAncestor .chromosome chain = false) :
    liftoverParents chain = .error (.doc .NoSuchAncestor) := by
  unfold liftoverParents
  cases chain with
  | nil => simp [hasAncestor] at hk
  | cons x xs => simp only [hk, hc, if_true, Bool.not_false]; rfl

/-- a chunk level without sequence under a chromosome: NullSequenceException -/
theorem liftover_chunk_without_sequence (chain : List HLevel) (c : HLevel) (above : List HLevel)
    (hc : hasAncestor .chromosome chain = true)
    (hd : chain.dropWhile (fun l => l.ty != .chunk) = c :: above) (hs : c.hasSeq = false) :
    liftoverParents chain = .error (.doc .NullSequence) := by
  have hk : hasAncestor .chunk chain = true := by
    unfold hasAncestor
    rw [List.any_eq_true]
    have hmem : c ∈ chain := List.dropWhile_subset _ (by rw [hd]; simp)
    have hty : (c.ty != .chunk) = false := by
      have := List.head_dropWhile_not (fun l : HLevel => l.ty != .chunk) (l := chain) (by rw [hd]; simp)
      simpa [hd] using this
    exact ⟨c, hmem, by simpa using hty⟩
  unfold liftoverParents
  cases chain with
  | nil => simp at hd
  | cons x xs => simp only [hk, hc, hd, hs, if_true, Bool.not_true, Bool.false_eq_true, if_false, Bool.not_false]; rfl

/-- ANY hierarchy: the parent validation ends in acceptance or in one of four documented classes (the AttributeError
    of F-C19t is repaired by 43c4851: ValidationException) -/
theorem liftover_outcomes (chain : List HLevel) :
    liftoverParents chain = .ok () ∨ liftoverParents chain = .error (.doc .NoSuchAncestor) ∨
    liftoverParents chain = .error (.doc .NullSequence) ∨ liftoverParents chain = .error (.doc .MismatchedParent) ∨
    liftoverParents chain = .error (.doc .Validation) := by
  unfold liftoverParents
  cases chain with
  | nil => exact Or.inl rfl
  | cons x xs =>
      simp only
      split
      · split
        · exact Or.inr (Or.inl rfl)
        · split
          · exact Or.inr (Or.inl rfl)
          · split
            · exact Or.inr (Or.inr (Or.inl rfl))
            · split
              · exact Or.inr (Or.inr (Or.inr (Or.inr rfl)))
              · split
                · exact Or.inr (Or.inr (Or.inr (Or.inr rfl)))
                · exact Or.inr (Or.inr (Or.inr (Or.inl rfl)))
                · split
                  · exact Or.inr (Or.inr (Or.inr (Or.inl rfl)))
                  · exact Or.inl rfl
      · exact Or.inl rfl

/-- ANY hierarchy: the parent validation never ends in an internal error -/
theorem liftover_noInternal (chain : List HLevel) : ∀ cls, liftoverParents chain ≠ .error (.internal cls) := by
  intro cls h
  rcases liftover_outcomes chain with h' | h' | h' | h' | h' <;> rw [h'] at h <;> cases h

/-- a chunk WITH sequence under a chromosome that does not say where it sits on the level above (no level above, or a
    level without location) is refused with ValidationException -/
theorem liftover_unlocated_refused (chain : List HLevel) (c : HLevel) (above : List HLevel)
    (hc : hasAncestor .chromosome chain = true)
    (hd : chain.dropWhile (fun l => l.ty != .chunk) = c :: above) (hs : c.hasSeq = true)
    (hl : ∀ a rest, above = a :: rest → a.loc = .none) :
    liftoverParents chain = .error (.doc .Validation) := by
  have hk : hasAncestor .chunk chain = true := by
    unfold hasAncestor
    rw [List.any_eq_true]
    have hmem : c ∈ chain := List.dropWhile_subset _ (by rw [hd]; simp)
    have hty : (c.ty != .chunk) = false := by
      have := List.head_dropWhile_not (fun l : HLevel => l.ty != .chunk) (l := chain) (by rw [hd]; simp)
      simpa [hd] using this
    exact ⟨c, hmem, by simpa using hty⟩
  unfold liftoverParents
  cases chain with
  | nil => simp at hd
  | cons x xs =>
      simp only [hk, hc, hd, hs, if_true, Bool.not_true, Bool.false_eq_true, if_false]
      cases above with
      | nil => rfl
      | cons a rest => simp only [hl a rest rfl]; rfl

end BioCantor.Proofs.Val
