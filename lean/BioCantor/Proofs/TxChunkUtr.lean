/-
  C06, UTRs of a chunk-built transcript, for a chunk that contains the whole transcript: the answer is the chunk
  image of the chromosome-level UTR.  (When the chunk cuts the transcript the code applies whole-transcript
  indices to the in-chunk part: finding F-C06b.)
-/
import BioCantor.Proofs.TxChunkMain
set_option linter.unusedSimpArgs false
namespace BioCantor.Proofs
open BioCantor BioCantor.Spec BioCantor.Model BioCantor.Model.Transcript BioCantor.Model.ChunkTranscript

theorem locLen_eq (m : Location) : locLen m = (locationBases m).length := by
  cases m with
  | single b st => simp only [locLen, locationBases]; rw [bases_length]; simp [Loc.len, blocksLen]
  | compound l => simp only [locLen, locationBases]; rw [bases_length]
  | empty => rfl

theorem toLoc_of_ne_empty (m : Location) (h : m ≠ .empty) : ∃ L, toLoc m = some L := by
  cases m with
  | single b st => exact ⟨_, rfl⟩
  | compound l => exact ⟨_, rfl⟩
  | empty => exact absurd rfl h

/-- the pieces shared by both UTR proofs -/
structure UtrCtx (c : ChunkTranscript) (d : Loc) (k : Nat) : Prop where
  hD : (specOf c.base).D = some d
  off : cdsOffset d c.base.exons = some k
  q : ∃ q, (bases d).head? = some q ∧ idxOf? q (bases c.base.exons) = some k
  he : ((bases c.base.exons).drop k).take (bases d).length = bases d
  dl : c.cdsLocation = some (chunkLocOf (initOf d) (winOf c))
  basesE : locationBases c.location = (bases c.base.exons).map (chunkOf (winOf c))
  basesD : locationBases (chunkLocOf (initOf d) (winOf c)) = (bases d).map (chunkOf (winOf c))
  wfm : WF c.location
  Lm : ∀ L', toLoc c.location = some L' → L'.strand ≠ .unstranded ∧ L'.strand = compose c.base.exons.strand c.wst ∧
        nonOverlap L'.blocks = true ∧ bases L' = (bases c.base.exons).map (chunkOf (winOf c))

theorem utrCtx (c : ChunkTranscript) (h : WFC c) (d : Loc) (hc : Coding c.base d) (hnoD : d.NonOverlap)
    (hall : ∀ x ∈ bases c.base.exons, inWin c.w x = true) : ∃ k, UtrCtx c d k := by
  obtain ⟨k, q, hq, hk, hoff, he⟩ := isSub_unpack d _ hc.sub
  have hD : (specOf c.base).D = some d := by simp [specOf, hc.cds]
  obtain ⟨hdir, hno, hds⟩ := txScope_unpack _ d hD hc.scope
  have hE : (specOf c.base).E = c.base.exons := rfl
  rw [hE] at hno hds
  obtain ⟨hwf, hb, hL⟩ := chunk_location_facts c.base.exons h.base.exons hdir.1 hno (winOf c) h.win
  have hdd : d.strand ≠ .unstranded := by rw [hds]; exact hdir.1
  obtain ⟨_, hbd, _⟩ := chunk_location_facts d (h.base.cds d hc.cds).1 hdd hnoD (winOf c) h.win
  have hallD : ∀ x ∈ bases d, inWin c.w x = true := fun x hx => hall x ((isSub_sublist _ _ hc.sub).subset hx)
  refine ⟨k, ⟨hD, hoff, ⟨q, hq, hk⟩, he, ?_, ?_, ?_, ?_, ?_⟩⟩
  · rw [h.cds, hc.cds]; rfl
  · rw [h.loc, hb, chunkBases_all _ _ hall]
  · rw [hbd, chunkBases_all _ _ hallD]
  · rw [h.loc]; exact hwf
  · intro L' hL'
    rw [h.loc] at hL'
    obtain ⟨a, b, c', e⟩ := hL L' hL'
    exact ⟨a, b, c', by rw [e, chunkBases_all _ _ hall]⟩

theorem kutr5_ok (c : ChunkTranscript) (h : WFC c) (d : Loc) (hc : Coding c.base d) (hnoD : d.NonOverlap)
    (hall : ∀ x ∈ bases c.base.exons, inWin c.w x = true) :
    okKUtr (specOf c.base) (winOf c) true (ans c.get5pInterval) = true := by
  obtain ⟨k, ctx⟩ := utrCtx c h d hc hnoD hall
  obtain ⟨q, hq, hk⟩ := ctx.q
  have hE : (specOf c.base).E = c.base.exons := rfl
  have hklt := idxOf?_lt _ _ _ hk
  have hfit := isSub_len d c.base.exons k ctx.he
  have hfilter : ((bases c.base.exons).take k).filter (inWin c.w) = (bases c.base.exons).take k :=
    List.filter_eq_self.2 (fun x hx => hall x (List.mem_of_mem_take hx))
  have claim : ∃ u, ans c.get5pInterval = some u ∧ wfLocation u = true ∧
      (u = .empty ∨ locationStrand? u = some (compose c.base.exons.strand c.wst)) ∧
      locationBases u = ((bases c.base.exons).take k).map (chunkOf (winOf c)) := by
    unfold ChunkTranscript.get5pInterval requireCodingLocation
    simp only [ctx.dl, bind, Except.bind, pure, Except.pure]
    by_cases heq : chunkLocOf (initOf d) (winOf c) = c.location
    · -- same in-chunk location: same bases, so the CDS is the whole transcript and both UTRs are empty
      have hlen : (bases d).length = (bases c.base.exons).length := by
        have := congrArg (fun m => (locationBases m).length) heq
        simp only [ctx.basesD, ctx.basesE, List.length_map] at this
        exact this
      have hk0 : k = 0 := by omega
      subst hk0
      exact ⟨.empty, by simp [heq], rfl, Or.inl rfl, by simp [locationBases]⟩
    · simp only [heq, if_false]
      have h1 : ans (c.base.cdsPosToTranscript 0) = some (k : Int) := by
        rw [ans_d2t c.base h.base 0]; exact d2t_first _ d ctx.hD hc.dir k q hq hk
      rw [ans_eq_some] at h1
      rw [h1]
      simp only []
      have hne : c.location ≠ .empty := by
        intro e
        have := ctx.basesE
        rw [e] at this
        have := congrArg List.length this
        simp [locationBases] at this
        omega
      obtain ⟨L', hL'⟩ := toLoc_of_ne_empty _ hne
      obtain ⟨hLd, hLs, hLno, hLb⟩ := ctx.Lm L' hL'
      have hLlen : L'.len = (bases c.base.exons).length := by
        rw [← bases_length, hLb, List.length_map]
      have hok := relInterval_ok c.location ctx.wfm 0 (k : Int) .plus
      obtain ⟨m, hm, hwf, hs, hb⟩ := okRelint_plus_extract c.location L' hL' hLd hLno 0 k
        (Nat.zero_le _) (by omega) (by omega) _ hok
      have hm' : ans (relInterval c.location 0 (k : Int) .plus) = some m := hm
      refine ⟨m, hm', hwf, Or.inr (by rw [hs, hLs]), ?_⟩
      simp only [List.drop_zero, Nat.sub_zero, hLb, ← List.map_take] at hb
      exact hb
  obtain ⟨u, hu, hwf, hst, hb⟩ := claim
  unfold okKUtr
  simp only [ctx.hD, hE, hc.scope, hc.sub, h.win, Bool.and_self, not_true_eq_false, if_false, ctx.off, if_true, hu,
    hfilter, hwf, hb]
  rcases hst with rfl | hst
  · simp
  · simp [hst]

theorem kutr3_ok (c : ChunkTranscript) (h : WFC c) (d : Loc) (hc : Coding c.base d) (hnoD : d.NonOverlap)
    (hall : ∀ x ∈ bases c.base.exons, inWin c.w x = true) :
    okKUtr (specOf c.base) (winOf c) false (ans c.get3pInterval) = true := by
  obtain ⟨k, ctx⟩ := utrCtx c h d hc hnoD hall
  obtain ⟨q, hq, hk⟩ := ctx.q
  have hE : (specOf c.base).E = c.base.exons := rfl
  have hklt := idxOf?_lt _ _ _ hk
  have hpos : 0 < (bases d).length := by
    cases hb : bases d with
    | nil => simp [hb] at hq
    | cons x xs => simp
  have hfit : k + (bases d).length ≤ (bases c.base.exons).length := by
    rcases isSub_len d c.base.exons k ctx.he with h' | h'
    · exact h'
    · omega
  have hfilter : ((bases c.base.exons).drop (k + (bases d).length)).filter (inWin c.w)
      = (bases c.base.exons).drop (k + (bases d).length) :=
    List.filter_eq_self.2 (fun x hx => hall x (List.mem_of_mem_drop hx))
  have claim : ∃ u, ans c.get3pInterval = some u ∧ wfLocation u = true ∧
      (u = .empty ∨ locationStrand? u = some (compose c.base.exons.strand c.wst)) ∧
      locationBases u = ((bases c.base.exons).drop (k + (bases d).length)).map (chunkOf (winOf c)) := by
    unfold ChunkTranscript.get3pInterval requireCodingLocation
    simp only [ctx.dl, bind, Except.bind, pure, Except.pure]
    by_cases heq : chunkLocOf (initOf d) (winOf c) = c.location
    · have hlen : (bases d).length = (bases c.base.exons).length := by
        have := congrArg (fun m => (locationBases m).length) heq
        simp only [ctx.basesD, ctx.basesE, List.length_map] at this
        exact this
      have hk0 : k = 0 := by omega
      subst hk0
      have : List.drop (0 + (bases d).length) (bases c.base.exons) = [] := by
        apply List.drop_eq_nil_of_le; omega
      exact ⟨.empty, by simp [heq], rfl, Or.inl rfl, by rw [this]; rfl⟩
    · simp only [heq, if_false]
      have hdlen : (locLen (chunkLocOf (initOf d) (winOf c)) : Int) = ((bases d).length : Int) := by
        rw [locLen_eq, ctx.basesD, List.length_map]
      have hmlen : locLen c.location = (bases c.base.exons).length := by
        rw [locLen_eq, ctx.basesE, List.length_map]
      have hnd : (bases c.base.exons).Nodup := hc.nodupE h.base
      have h1 : ans (c.base.cdsPosToTranscript ((locLen (chunkLocOf (initOf d) (winOf c)) : Int) - 1))
          = some (((k + (bases d).length : Nat) : Int) - 1) := by
        rw [hdlen, ans_d2t c.base h.base]
        exact d2t_last _ d ctx.hD hc.dir hnd k ctx.he hpos
      rw [ans_eq_some] at h1
      rw [h1]
      simp only []
      have e : (((k + (bases d).length : Nat) : Int) - 1 + 1) = ((k + (bases d).length : Nat) : Int) := by omega
      rw [e, hmlen]
      have hne : c.location ≠ .empty := by
        intro e
        have := ctx.basesE
        rw [e] at this
        have := congrArg List.length this
        simp [locationBases] at this
        omega
      obtain ⟨L', hL'⟩ := toLoc_of_ne_empty _ hne
      obtain ⟨hLd, hLs, hLno, hLb⟩ := ctx.Lm L' hL'
      have hLlen : L'.len = (bases c.base.exons).length := by
        rw [← bases_length, hLb, List.length_map]
      have hok := relInterval_ok c.location ctx.wfm ((k + (bases d).length : Nat) : Int)
        (((bases c.base.exons).length : Nat) : Int) .plus
      obtain ⟨m, hm, hwf, hs, hb⟩ := okRelint_plus_extract c.location L' hL' hLd hLno
        (k + (bases d).length) (bases c.base.exons).length (by omega) (by omega) (by omega) _ hok
      refine ⟨m, hm, hwf, Or.inr (by rw [hs, hLs]), ?_⟩
      have htake : List.take ((bases c.base.exons).length - (k + (bases d).length))
          (List.drop (k + (bases d).length) (bases L')) = List.drop (k + (bases d).length) (bases L') := by
        apply List.take_of_length_le
        rw [hLb]; simp only [List.length_drop, List.length_map]; omega
      rw [htake, hLb, ← List.map_drop] at hb
      exact hb
  obtain ⟨u, hu, hwf, hst, hb⟩ := claim
  unfold okKUtr
  simp only [ctx.hD, hE, hc.scope, hc.sub, h.win, Bool.and_self, not_true_eq_false, if_false, ctx.off,
    Bool.false_eq_true, hu, hfilter, hwf, hb]
  rcases hst with rfl | hst
  · simp
  · simp [hst]

end BioCantor.Proofs
