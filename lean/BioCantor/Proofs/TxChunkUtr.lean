/-
  C06, UTRs of a chunk-built transcript (code after the repair of F-C06b): the answer is the UTR's in-chunk bases,
  in transcript order, in chunk coordinates — for EVERY chunk, cutting the transcript or not.
-/
import BioCantor.Proofs.TxChunkStart
set_option linter.unusedSimpArgs false
set_option linter.unusedVariables false
namespace BioCantor.Proofs
open BioCantor BioCantor.Spec BioCantor.Model BioCantor.Model.Transcript BioCantor.Model.ChunkTranscript

/-- everything both UTR proofs need, in one place -/
structure UtrCtx (c : ChunkTranscript) (d : Loc) (k a b : Nat) : Prop where
  hD : (specOf c.base).D = some d
  off : cdsOffset d c.base.exons = some k
  q : ∃ q, (bases d).head? = some q ∧ idxOf? q (bases c.base.exons) = some k
  he : ((bases c.base.exons).drop k).take (bases d).length = bases d
  hb : b ≤ (bases c.base.exons).length
  range : ∀ i (hi : i < (bases c.base.exons).length), inWin c.w (bases c.base.exons)[i] = true ↔ (a ≤ i ∧ i < b)
  filt : (bases c.base.exons).filter (inWin c.w) = ((bases c.base.exons).take b).drop a
  dl : c.cdsLocation = some (chunkLocOf (initOf d) (winOf c))
  basesE : locationBases c.location = ((bases c.base.exons).filter (inWin c.w)).map (chunkOf (winOf c))
  basesD : locationBases (chunkLocOf (initOf d) (winOf c)) = ((bases d).filter (inWin c.w)).map (chunkOf (winOf c))
  wfm : WF c.location
  Lm : ∀ L', toLoc c.location = some L' → L'.strand ≠ .unstranded ∧ L'.strand = compose c.base.exons.strand c.wst ∧
        nonOverlap L'.blocks = true ∧
        bases L' = ((bases c.base.exons).filter (inWin c.w)).map (chunkOf (winOf c))
  dEmpty : (bases d).filter (inWin c.w) = [] → chunkLocOf (initOf d) (winOf c) = .empty
  start : c.location ≠ .empty → a < b ∧ c.chunkRelativeTranscriptStart = .ok (a : Int)

theorem utrCtx (c : ChunkTranscript) (h : WFC c) (d : Loc) (hc : Coding c.base d) (hnoD : d.NonOverlap) :
    ∃ k a b, UtrCtx c d k a b := by
  obtain ⟨k, q, hq, hk, hoff, he⟩ := isSub_unpack d _ hc.sub
  have hD : (specOf c.base).D = some d := by simp [specOf, hc.cds]
  obtain ⟨hdir, hno, hds⟩ := txScope_unpack _ d hD hc.scope
  have hE : (specOf c.base).E = c.base.exons := rfl
  rw [hE] at hno hds
  obtain ⟨hwf, hb, hL⟩ := chunk_location_facts c.base.exons h.base.exons hdir.1 hno (winOf c) h.win
  have hdd : d.strand ≠ .unstranded := by rw [hds]; exact hdir.1
  obtain ⟨_, hbd, _⟩ := chunk_location_facts d (h.base.cds d hc.cds).1 hdd hnoD (winOf c) h.win
  have hsorted : (bases c.base.exons).Pairwise (· < ·) ∨ (bases c.base.exons).Pairwise (· > ·) := by
    have hp := nonOverlap_pairwise c.base.exons.blocks ((blocksValid_iff _).1 h.base.exons.2.1) hno
    exact bases_sorted (bs := c.base.exons.blocks) (st := c.base.exons.strand) hp
  obtain ⟨a, b, ha, hbl, hrange⟩ := inWin_index_range (bases c.base.exons) c.w hsorted
  have hfilt := filter_index_range (inWin c.w) (bases c.base.exons) a b hrange
  have hnd : (bases c.base.exons).Nodup := hc.nodupE h.base
  refine ⟨k, a, b, ⟨hD, hoff, ⟨q, hq, hk⟩, he, hbl, hrange, hfilt, ?_, ?_, ?_, ?_, ?_, ?_, ?_⟩⟩
  · rw [h.cds, hc.cds]; rfl
  · rw [h.loc, hb]; rfl
  · rw [hbd]; rfl
  · rw [h.loc]; exact hwf
  · intro L' hL'
    rw [h.loc] at hL'
    obtain ⟨x, y, z, e⟩ := hL L' hL'
    exact ⟨x, y, z, by rw [e]; rfl⟩
  · intro hemp
    apply chunkLocOf_no_bases _ _ (toLoc_initOf _) (initOf_wf _ (h.base.cds d hc.cds).1) (dir_of_ne _ hdd) hnoD
      (winOf c) h.win
    unfold chunkBases; simp only; rw [hemp]; rfl
  · intro hne
    obtain ⟨m, hm, hmwf, hmdir, hmb⟩ := bounded_location c h hdir.1 hno hne
    have hFne : (bases c.base.exons).filter (inWin c.w) ≠ [] := by
      intro e
      apply hne
      rw [h.loc]
      apply chunkLocOf_no_bases _ _ (toLoc_initOf _) (initOf_wf _ h.base.exons) (dir_of_ne _ hdir.1) hno (winOf c) h.win
      unfold chunkBases; simp only; rw [e]; rfl
    have hab : a < b := by
      rcases Nat.lt_or_ge a b with h1 | h1
      · exact h1
      · exfalso; apply hFne; rw [hfilt]
        apply List.drop_eq_nil_of_le
        simp only [List.length_take]; omega
    refine ⟨hab, ?_⟩
    have halt : a < (bases c.base.exons).length := by omega
    unfold ChunkTranscript.chunkRelativeTranscriptStart
    have hne' : (c.location == Location.empty) = false := by simpa using hne
    simp only [hne', Bool.false_eq_true, if_false, hm, bind, Except.bind]
    have h1 := r2p_listAt m hmwf hmdir 0
    rw [hmb, hfilt] at h1
    unfold listAt at h1
    simp only [show ¬ ((0 : Int) < 0) by omega, if_false, Int.toNat_zero, List.getElem?_drop, Nat.add_zero,
      List.getElem?_take, hab, if_true, List.getElem?_eq_getElem halt, Option.map_some] at h1
    rw [ans_eq_some] at h1
    rw [h1]
    simp only []
    rw [← ans_eq_some, ans_c2t c.base h.base]
    unfold expC2T
    have := posIdx_of c.base.exons hdir.1 _ a
      (idxOf?_nodup _ _ hnd a (List.getElem?_eq_getElem halt))
    simpa [specOf] using this

/-- the three stretches of the transcript, filtered -/
theorem filter_tile (P : Nat → Bool) (B D : List Nat) (k : Nat) (he : (B.drop k).take D.length = D) :
    (B.filter P).length = ((B.take k).filter P).length + (D.filter P).length
      + ((B.drop (k + D.length)).filter P).length := by
  have := congrArg (fun l => (l.filter P).length) (tile B D k he)
  simp only [List.filter_append, List.length_append] at this
  omega

theorem kutr5_ok (c : ChunkTranscript) (h : WFC c) (d : Loc) (hc : Coding c.base d) (hnoD : d.NonOverlap) :
    okKUtr (specOf c.base) (winOf c) true (ans c.get5pInterval) = true := by
  obtain ⟨k, a, b, ctx⟩ := utrCtx c h d hc hnoD
  obtain ⟨q, hq, hk⟩ := ctx.q
  have hE : (specOf c.base).E = c.base.exons := rfl
  have hklt := idxOf?_lt _ _ _ hk
  have claim : ∃ u, ans c.get5pInterval = some u ∧ wfLocation u = true ∧
      (u = .empty ∨ locationStrand? u = some (compose c.base.exons.strand c.wst)) ∧
      locationBases u = (((bases c.base.exons).take k).filter (inWin c.w)).map (chunkOf (winOf c)) := by
    unfold ChunkTranscript.get5pInterval requireCodingLocation requireCoding
    simp only [ctx.dl, hc.cds, bind, Except.bind, pure, Except.pure]
    by_cases heq : chunkLocOf (initOf d) (winOf c) = c.location
    · -- equal in-chunk locations: every in-chunk transcript base is a CDS base
      have hlen : ((bases d).filter (inWin c.w)).length = ((bases c.base.exons).filter (inWin c.w)).length := by
        have := congrArg (fun m => (locationBases m).length) heq
        simp only [ctx.basesD, ctx.basesE, List.length_map] at this
        exact this
      have ht := filter_tile (inWin c.w) (bases c.base.exons) (bases d) k ctx.he
      have : ((bases c.base.exons).take k).filter (inWin c.w) = [] := by
        apply List.eq_nil_of_length_eq_zero; omega
      exact ⟨.empty, by simp [heq], rfl, Or.inl rfl, by rw [this]; rfl⟩
    · simp only [heq, if_false]
      have hne : c.location ≠ .empty := by
        intro e
        apply heq
        rw [e]
        apply ctx.dEmpty
        have h0 : (bases c.base.exons).filter (inWin c.w) = [] := by
          have := ctx.basesE
          rw [e] at this
          simpa [locationBases] using this.symm
        have := (isSub_sublist _ _ hc.sub).filter (inWin c.w)
        rw [h0] at this
        exact List.sublist_nil.1 this
      obtain ⟨hab, hstart⟩ := ctx.start hne
      have h1 : ans (c.base.cdsPosToTranscript 0) = some (k : Int) := by
        rw [ans_d2t c.base h.base 0]; exact d2t_first _ d ctx.hD hc.dir k q hq hk
      rw [ans_eq_some] at h1
      rw [h1]
      simp only []
      rw [hstart]
      simp only []
      obtain ⟨L', hL'⟩ := toLoc_of_ne_empty _ hne
      obtain ⟨hLd, hLs, hLno, hLb⟩ := ctx.Lm L' hL'
      have hFlen : ((bases c.base.exons).filter (inWin c.w)).length = b - a := by
        rw [ctx.filt]; simp only [List.length_drop, List.length_take]; have := ctx.hb; omega
      have hLlen : L'.len = b - a := by rw [← bases_length, hLb, List.length_map, hFlen]
      have hmlen : locLen c.location = b - a := by rw [locLen_bases, ctx.basesE, List.length_map, hFlen]
      have hclamp : min (max ((k : Int) - (a : Int)) 0) ((locLen c.location : Nat) : Int)
          = ((min (k - a) (b - a) : Nat) : Int) := by rw [hmlen]; omega
      rw [hclamp]
      have hok := relInterval_ok c.location ctx.wfm 0 ((min (k - a) (b - a) : Nat) : Int) .plus
      obtain ⟨m, hm, hwf, hs, hb⟩ := okRelint_plus_extract c.location L' hL' hLd hLno 0 (min (k - a) (b - a))
        (Nat.zero_le _) (by omega) (by omega) _ hok
      have hm' : ans (relInterval c.location 0 ((min (k - a) (b - a) : Nat) : Int) .plus) = some m := hm
      refine ⟨m, hm', hwf, Or.inr (by rw [hs, hLs]), ?_⟩
      simp only [List.drop_zero, Nat.sub_zero, hLb, ← List.map_take] at hb
      rw [hb, ctx.filt, take_of_range _ a b k ctx.hb, ← filter_take_range (inWin c.w) _ a b k ctx.range]
  obtain ⟨u, hu, hwf, hst, hb⟩ := claim
  unfold okKUtr
  simp only [ctx.hD, hE, hc.scope, hc.sub, h.win, Bool.and_self, not_true_eq_false, if_false, ctx.off, if_true, hu,
    hwf, hb]
  rcases hst with rfl | hst
  · simp
  · simp [hst]

theorem kutr3_ok (c : ChunkTranscript) (h : WFC c) (d : Loc) (hc : Coding c.base d) (hnoD : d.NonOverlap) :
    okKUtr (specOf c.base) (winOf c) false (ans c.get3pInterval) = true := by
  obtain ⟨k, a, b, ctx⟩ := utrCtx c h d hc hnoD
  obtain ⟨q, hq, hk⟩ := ctx.q
  have hE : (specOf c.base).E = c.base.exons := rfl
  have hklt := idxOf?_lt _ _ _ hk
  have hpos : 0 < (bases d).length := by
    cases hb : bases d with
    | nil => simp [hb] at hq
    | cons x xs => simp
  have hfit : k + (bases d).length ≤ (bases c.base.exons).length := by
    rcases isSub_len d c.base.exons k ctx.he with h' | h'
    · exact h'
    · omega
  have claim : ∃ u, ans c.get3pInterval = some u ∧ wfLocation u = true ∧
      (u = .empty ∨ locationStrand? u = some (compose c.base.exons.strand c.wst)) ∧
      locationBases u =
        (((bases c.base.exons).drop (k + (bases d).length)).filter (inWin c.w)).map (chunkOf (winOf c)) := by
    unfold ChunkTranscript.get3pInterval requireCodingLocation requireCoding
    simp only [ctx.dl, hc.cds, bind, Except.bind, pure, Except.pure]
    by_cases heq : chunkLocOf (initOf d) (winOf c) = c.location
    · have hlen : ((bases d).filter (inWin c.w)).length = ((bases c.base.exons).filter (inWin c.w)).length := by
        have := congrArg (fun m => (locationBases m).length) heq
        simp only [ctx.basesD, ctx.basesE, List.length_map] at this
        exact this
      have ht := filter_tile (inWin c.w) (bases c.base.exons) (bases d) k ctx.he
      have : ((bases c.base.exons).drop (k + (bases d).length)).filter (inWin c.w) = [] := by
        apply List.eq_nil_of_length_eq_zero; omega
      exact ⟨.empty, by simp [heq], rfl, Or.inl rfl, by rw [this]; rfl⟩
    · simp only [heq, if_false]
      have hne : c.location ≠ .empty := by
        intro e
        apply heq
        rw [e]
        apply ctx.dEmpty
        have h0 : (bases c.base.exons).filter (inWin c.w) = [] := by
          have := ctx.basesE
          rw [e] at this
          simpa [locationBases] using this.symm
        have := (isSub_sublist _ _ hc.sub).filter (inWin c.w)
        rw [h0] at this
        exact List.sublist_nil.1 this
      obtain ⟨hab, hstart⟩ := ctx.start hne
      have hnd : (bases c.base.exons).Nodup := hc.nodupE h.base
      have h1 : ans (c.base.cdsPosToTranscript ((d.len : Int) - 1))
          = some (((k + (bases d).length : Nat) : Int) - 1) := by
        rw [ans_d2t c.base h.base, ← bases_length d]
        exact d2t_last _ d ctx.hD hc.dir hnd k ctx.he hpos
      rw [ans_eq_some] at h1
      rw [h1]
      simp only []
      rw [hstart]
      simp only []
      obtain ⟨L', hL'⟩ := toLoc_of_ne_empty _ hne
      obtain ⟨hLd, hLs, hLno, hLb⟩ := ctx.Lm L' hL'
      have hFlen : ((bases c.base.exons).filter (inWin c.w)).length = b - a := by
        rw [ctx.filt]; simp only [List.length_drop, List.length_take]; have := ctx.hb; omega
      have hLlen : L'.len = b - a := by rw [← bases_length, hLb, List.length_map, hFlen]
      have hmlen : locLen c.location = b - a := by rw [locLen_bases, ctx.basesE, List.length_map, hFlen]
      have hclamp : min (max ((((k + (bases d).length : Nat) : Int) - 1 + 1) - (a : Int)) 0)
            ((locLen c.location : Nat) : Int)
          = ((min (k + (bases d).length - a) (b - a) : Nat) : Int) := by rw [hmlen]; omega
      rw [hclamp, hmlen]
      have hok := relInterval_ok c.location ctx.wfm ((min (k + (bases d).length - a) (b - a) : Nat) : Int)
        ((b - a : Nat) : Int) .plus
      obtain ⟨m, hm, hwf, hs, hb⟩ := okRelint_plus_extract c.location L' hL' hLd hLno
        (min (k + (bases d).length - a) (b - a)) (b - a) (by omega) (by omega) (by omega) _ hok
      refine ⟨m, hm, hwf, Or.inr (by rw [hs, hLs]), ?_⟩
      have htake : List.take (b - a - min (k + (bases d).length - a) (b - a))
          (List.drop (min (k + (bases d).length - a) (b - a)) (bases L'))
          = List.drop (min (k + (bases d).length - a) (b - a)) (bases L') := by
        apply List.take_of_length_le
        rw [hLb]; simp only [List.length_drop, List.length_map, hFlen]; omega
      rw [htake, hLb, ← List.map_drop] at hb
      rw [hb, ctx.filt, drop_of_range _ a b (k + (bases d).length) ctx.hb,
        ← filter_drop_range (inWin c.w) _ a b (k + (bases d).length) ctx.range]
  obtain ⟨u, hu, hwf, hst, hb⟩ := claim
  unfold okKUtr
  simp only [ctx.hD, hE, hc.scope, hc.sub, h.win, Bool.and_self, not_true_eq_false, if_false, ctx.off,
    Bool.false_eq_true, hu, hwf, hb]
  rcases hst with rfl | hst
  · simp
  · simp [hst]

end BioCantor.Proofs
