/- C19 proofs, part 7: Location.scan_windows argument validation and window count. -/
import BioCantor.Proofs.ValBasics
set_option linter.unusedSimpArgs false
namespace BioCantor.Proofs.Val
open BioCantor BioCantor.Model BioCantor.Model.Validate
open BioCantor.Spec.Validate (Out)

def dirOf : Location → Bool
  | .single _ s => s != .unstranded
  | .compound c => c.strand != .unstranded
  | .empty => false

theorem rangeCount_spec (a b step : Int) (hab : a < b) (hs : 1 ≤ step) :
    1 ≤ (rangeCount a b step : Int) ∧ a + ((rangeCount a b step : Int) - 1) * step < b ∧
      b ≤ a + (rangeCount a b step : Int) * step := by
  unfold rangeCount
  rw [if_neg (by omega)]
  have hpos : 0 < step := by omega
  have h1 := Int.ediv_mul_le (b - a + step - 1) (Int.ne_of_gt hpos)
  have h2 := Int.lt_ediv_add_one_mul_self (b - a + step - 1) hpos
  generalize (b - a + step - 1) / step = q at h1 h2
  have h3 : (q + 1) * step = q * step + step := by rw [Int.add_mul, Int.one_mul]
  have hq : 1 ≤ q := by
    by_cases hq : 1 ≤ q
    · exact hq
    · exfalso
      have : (q + 1) * step ≤ 1 * step := Int.mul_le_mul_of_nonneg_right (by omega) (by omega)
      omega
  have hcast : ((q.toNat : Nat) : Int) = q := Int.toNat_of_nonneg (by omega)
  rw [hcast]
  have h4 : (q - 1) * step = q * step - step := by rw [Int.sub_mul, Int.one_mul]
  refine ⟨hq, ?_, ?_⟩ <;> omega

theorem scanWinCount_spec (l : Location) (w step sp : Int) :
    Spec.Validate.okScanWin (dirOf l) (locLen l) w step sp (outOf id (scanWinCount l w step sp)) = true := by
  unfold scanWinCount
  simp only []
  by_cases h1 : 0 ≤ sp ∧ sp < (locLen l : Int)
  · by_cases h2 : min w step < 1
    · simp [h1, h2, raise, outOf, Spec.Validate.okScanWin, Spec.Validate.validScan]
      have : w < 1 ∨ step < 1 := by omega
      rcases this with h | h
      · exact Or.inl (Or.inl (Or.inr h))
      · exact Or.inl (Or.inr h)
    · by_cases h3 : w > (locLen l : Int)
      · simp [h1, h2, h3, raise, outOf, Spec.Validate.okScanWin, Spec.Validate.validScan]
        exact Or.inr (by omega)
      · by_cases h4 : sp + w > (locLen l : Int)
        · simp [h1, h2, h3, h4, raise, outOf, Spec.Validate.okScanWin, Spec.Validate.validScan]
        · have hw : 1 ≤ w ∧ 1 ≤ step := by omega
          have hr := rangeCount_spec sp ((locLen l : Int) - w + 1) step (by omega) hw.2
          cases l with
          | empty => simp [locLen] at h1; omega
          | single b st =>
              cases st <;>
                simp [h1, h2, h3, h4, raise, outOf, Spec.Validate.okScanWin, Spec.Validate.validScan, locStrand, liftR,
                  assertDirectional, bind, Except.bind, pure, Except.pure, dirOf, throw, throwThe, MonadExceptOf.throw] <;>
                omega
          | compound c =>
              rcases c with ⟨bs, st⟩
              cases st <;>
                simp [h1, h2, h3, h4, raise, outOf, Spec.Validate.okScanWin, Spec.Validate.validScan, locStrand, liftR,
                  assertDirectional, bind, Except.bind, pure, Except.pure, dirOf, throw, throwThe, MonadExceptOf.throw] <;>
                omega
  · simp [h1, raise, outOf, Spec.Validate.okScanWin, Spec.Validate.validScan]
    have : sp < 0 ∨ (locLen l : Int) ≤ sp := by omega
    rcases this with h | h
    · exact Or.inl (Or.inl (Or.inl (Or.inl (Or.inr h))))
    · exact Or.inl (Or.inl (Or.inl (Or.inr h)))

theorem scanWinCount_noInternal (l : Location) (w step sp : Int) : NoInternal (scanWinCount l w step sp) := by
  intro c h
  have := scanWinCount_spec l w step sp
  rw [h] at this
  simp [outOf, Spec.Validate.okScanWin] at this

end BioCantor.Proofs.Val
