/-
  C01-T3: the relative-interval walk (`relative_interval_to_parent_location`) meets `Spec.okRelint`.
-/
import BioCantor.Proofs.Common
import BioCantor.Proofs.RelBasics
import BioCantor.Proofs.RelCombine
import BioCantor.Proofs.RelWalk
namespace BioCantor.Proofs
open BioCantor BioCantor.Spec BioCantor.Model

/-! ### readings on a strand vs. `bases` -/

theorem rd_plus : rd .plus = blkAsc := by funext b; simp [rd]
theorem rd_minus : rd .minus = blkDesc := by funext b; simp [rd]

theorem bases_eq_readScan (bs : List Blk) (st : Strand) (hst : st ≠ .unstranded) :
    bases ⟨bs, st⟩ = readScan st (if st = .plus then bs else bs.reverse) := by
  cases st with
  | plus => simp [bases, readScan, rd_plus, basesPlus_eq_flatMap]
  | minus => simp [bases, readScan, rd_minus, basesMinus_eq_flatMap]
  | unstranded => exact absurd rfl hst

theorem bases_single (x : Blk) (st : Strand) (hst : st ≠ .unstranded) : bases ⟨[x], st⟩ = rd st x := by
  rw [bases_eq_readScan _ _ hst]; simp

theorem readScan_perm_basesPlus (st : Strand) (bs : List Blk) : (readScan st bs).Perm (basesPlus bs) := by
  induction bs with
  | nil => simp [basesPlus]
  | cons b bs ih =>
    simp only [readScan_cons, basesPlus]
    refine List.Perm.append ?_ ih
    unfold rd; split
    · exact List.Perm.refl _
    · exact List.reverse_perm _

theorem strandRelativeTo_eq_compose (a b : Strand) : strandRelativeTo a b = compose b a := by
  cases a <;> cases b <;> rfl

theorem strandRelativeTo_comm (a b : Strand) : strandRelativeTo a b = strandRelativeTo b a := by
  cases a <;> cases b <;> rfl

/-! ### `toSingleIfOne` is transparent for the spec's observers -/

theorem locationStrand_toSingleIfOne (X : Loc) : locationStrand? (toSingleIfOne X) = some X.strand := by
  unfold toSingleIfOne; split <;> rfl

theorem locationBlocks_toSingleIfOne (X : Loc) : locationBlocks (toSingleIfOne X) = X.blocks := by
  unfold toSingleIfOne; split
  · rename_i h; simp [locationBlocks, h]
  · rfl

theorem wfLocation_toSingleIfOne (X : Loc) (h : X.Canon) : wfLocation (toSingleIfOne X) = true := by
  unfold toSingleIfOne; split
  · rename_i b hb
    have := (blocksValid_iff _).mp h.2.1 b (by simp [hb])
    simpa [wfLocation] using this
  · simpa [wfLocation] using h

theorem resetStrand_toSingleIfOne (X : List Blk) (st ns : Strand) (hne : X ≠ [])
    (hv : ∀ b ∈ X, b.1 ≤ b.2) :
    resetStrand (toSingleIfOne ⟨X, st⟩) ns = .ok (toSingleIfOne ⟨sortBlocks ns X, ns⟩) := by
  match X, hne, hv with
  | [b], _, _ => simp [toSingleIfOne, resetStrand, sortBlocks]; rfl
  | a :: b :: r, _, hv =>
    have hl : (sortBlocks ns (a :: b :: r)).length = r.length + 2 := by
      simp [sortBlocks]
    simp only [toSingleIfOne, resetStrand, mkCompound, mkCompoundLoc_ok ns (by simp) hv]
    generalize sortBlocks ns (a :: b :: r) = Y at hl
    match Y, hl with
    | _ :: _ :: _, _ => rfl

/-! ### `optimize_blocks` on a constructor-sorted compound -/

theorem optimizeLoc_true_ok (S1 : List Blk) (st : Strand)
    (hsorted : sortBlocks st S1 = S1) (hne : combStart S1 ≠ []) :
    optimizeLoc true ⟨S1, st⟩ = .ok (toSingleIfOne ⟨sortBlocks st (combStart S1), st⟩) := by
  unfold optimizeLoc
  have h1 := combineLoop_nil S1 none false
  have h2 := combineLoop_needs_false true S1 none [] false
  generalize combineLoop true S1 none [] false = r at h1 h2
  obtain ⟨nb, needs⟩ := r
  simp only at h1 h2
  subst h1
  cases needs with
  | false =>
    have := h2 rfl
    simp only [List.reverse_nil, List.nil_append] at this
    rw [this, hsorted]
    simp
    rfl
  | true =>
    have hv' : ∀ b ∈ combStart S1, b.1 ≤ b.2 :=
      fun b hb => Nat.le_of_lt (normal_pos _ (combStart_normal S1) b hb)
    have hemp : (combStart S1).isEmpty = false := by simpa using hne
    simp [hemp, mkCompoundLoc_ok st hne hv']
    rfl

/-! ### non-overlapping layouts -/

theorem nonOverlap_pairwise (L : List Blk) (hv : ∀ b ∈ L, b.1 ≤ b.2) (hno : nonOverlap L = true) :
    L.Pairwise (fun a b => a.2 ≤ b.1) := by
  induction L with
  | nil => simp
  | cons a t ih =>
    cases t with
    | nil => simp
    | cons b r =>
      simp only [nonOverlap, Bool.and_eq_true, decide_eq_true_eq] at hno
      have ih' := ih (fun x hx => hv x (List.mem_cons_of_mem _ hx)) hno.2
      rw [List.pairwise_cons]
      refine ⟨?_, ih'⟩
      intro c hc
      rcases List.mem_cons.mp hc with rfl | hc
      · exact hno.1
      · have h1 := (List.pairwise_cons.mp ih').1 c hc
        have h2 := hv b (by simp)
        omega

/-- disjoint non-empty blocks in ascending order have strictly increasing starts -/
theorem fst_lt_of_asc (A : List Blk) (hp : A.Pairwise (fun a b => a.2 ≤ b.1)) (hpos : ∀ a ∈ A, a.1 < a.2) :
    A.Pairwise (fun a b => a.1 < b.1) :=
  hp.imp_of_mem (fun {a _} ha _ hab => Nat.lt_of_lt_of_le (hpos a ha) hab)

theorem fst_lt_blkLe (s : Strand) (A : List Blk) (h : A.Pairwise (fun a b => a.1 < b.1)) :
    A.Pairwise (fun a b => blkLe s a b = true) :=
  h.imp (fun {a b} hab => blkLe_of_fst_lt s a b hab)

/-! ### the multi-block walk, `rs < re` -/

theorem compoundRel_pos (L : List Blk) (st : Strand) (s e : Nat) (rst : Strand)
    (hst : st ≠ .unstranded) (hse : s < e) (he : e ≤ blocksLen L) :
    ∃ F, compoundRelInterval ⟨L, st⟩ s e rst = .ok (toSingleIfOne ⟨F, strandRelativeTo rst st⟩)
      ∧ Loc.Canon ⟨F, strandRelativeTo rst st⟩
      ∧ (basesPlus F).Perm (((bases ⟨L, st⟩).drop s).take (e - s))
      ∧ (nonOverlap L = true → (∀ b ∈ L, b.1 ≤ b.2) →
          bases ⟨F, st⟩ = ((bases ⟨L, st⟩).drop s).take (e - s) ∧ normalBlocks F = true) := by
  have hst' : st = .plus ∨ st = .minus := by cases st <;> simp at hst ⊢
  generalize hscan : (if st = .plus then L else L.reverse) = scan
  generalize hwant : ((bases ⟨L, st⟩).drop s).take (e - s) = want
  have hscanlen : blocksLen scan = blocksLen L := by
    subst hscan; split
    · rfl
    · exact blocksLen_reverse L
  generalize hout : relWalk st scan s (e - s) = out
  -- (a) the walk reads the slice
  have hread : readScan st out = want := by
    rw [← hout, relWalk_read st scan s (e - s) (by omega) (by omega), ← hwant,
      bases_eq_readScan L st hst, hscan]
  have hwantlen : want.length = e - s := by
    rw [← hwant, bases_eq_readScan L st hst, hscan]
    simp [length_readScan, hscanlen]; omega
  have hout_ne : out ≠ [] := by
    intro h; rw [h] at hread; simp at hread; rw [hread] at hwantlen; simp at hwantlen; omega
  have hpos : ∀ x ∈ out, x.1 < x.2 := by
    intro x hx
    rw [← hout] at hx
    obtain ⟨_, _, _, h, _⟩ := relWalk_inside st scan s (e - s) (by omega) x hx
    exact h
  have hout_v : ∀ x ∈ out, x.1 ≤ x.2 := fun x hx => Nat.le_of_lt (hpos x hx)
  -- (b) constructor sort
  generalize hS1 : sortBlocks st out = S1
  have hS1p : S1.Perm out := hS1 ▸ sortBlocks_perm st out
  have hS1v : ∀ x ∈ S1, x.1 ≤ x.2 := hS1 ▸ sortBlocks_valid st hout_v
  have hS1s : sortBlocks st S1 = S1 := by
    rw [← hS1]
    exact List.mergeSort_of_pairwise (sortBlocks_pairwise st out)
  have hexact : nonOverlap L = true → (∀ b ∈ L, b.1 ≤ b.2) →
      S1.Pairwise (fun a b => a.1 < b.1) ∧
        (if st = .minus then (basesPlus S1).reverse else basesPlus S1) = want := by
    intro hno hLv
    have hLp := nonOverlap_pairwise L hLv hno
    rcases hst' with hp | hm
    · subst hp
      simp only [if_true] at hscan
      subst hscan
      have hop : out.Pairwise (fun a b => a.2 ≤ b.1) := by
        rw [← hout]
        exact relWalk_pairwise _ (by intro a b a' b' h1 h2 h3 h4 h5; omega) _ _ _ _ (by omega) hLp
      have hlt := fst_lt_of_asc out hop hpos
      have : S1 = out := by rw [← hS1]; exact sortBlocks_of_fst_lt _ hlt
      subst this
      refine ⟨hlt, ?_⟩
      rw [← hread]
      simp [readScan, rd_plus, basesPlus_eq_flatMap]
    · subst hm
      simp only [reduceCtorEq, if_false] at hscan
      subst hscan
      have hop : out.Pairwise (fun a b => b.2 ≤ a.1) := by
        rw [← hout]
        exact relWalk_pairwise _ (by intro a b a' b' h1 h2 h3 h4 h5; omega) _ _ _ _ (by omega)
          (List.pairwise_reverse.mpr hLp)
      have hop' : out.reverse.Pairwise (fun a b => a.2 ≤ b.1) := List.pairwise_reverse.mpr hop
      have hlt := fst_lt_of_asc out.reverse hop' (fun a ha => hpos a (List.mem_reverse.mp ha))
      have : S1 = out.reverse := by
        rw [← hS1]
        exact sortBlocks_eq_of_perm_sorted _ (List.reverse_perm out) (fst_lt_blkLe _ _ hlt)
      subst this
      refine ⟨hlt, ?_⟩
      rw [← hread]
      simp [readScan, rd_minus, ← basesMinus_eq_flatMap, ← basesMinus_reverse]
  -- (c) combine
  have hnb_b : basesPlus (combStart S1) = basesPlus S1 := combStart_bases S1 hS1v
  have hnb_n := combStart_normal S1
  have hnb_pos := normal_pos _ hnb_n
  have hnb_v : ∀ b ∈ combStart S1, b.1 ≤ b.2 := fun b hb => Nat.le_of_lt (hnb_pos b hb)
  have hchain : (basesPlus (combStart S1)).Perm want := by
    rw [hnb_b, ← hread]
    exact (basesPlus_perm hS1p).trans (readScan_perm_basesPlus st out).symm
  have hnb_ne : combStart S1 ≠ [] := by
    intro h; rw [h] at hchain
    have := hchain.length_eq
    simp [basesPlus] at this; omega
  have hopt := optimizeLoc_true_ok S1 st hS1s hnb_ne
  generalize hnb : combStart S1 = nb at *
  have hS2ne := sortBlocks_ne_nil st hnb_ne
  have hS2v := sortBlocks_valid st hnb_v
  -- the model's answer
  have hscanB : scanBlocks ⟨L, st⟩ = .ok scan := by
    simp [scanBlocks, assertDirectional, hst', ← hscan, bind, Except.bind, pure, Except.pure]
  have hI : ((s : Int) > (e : Int)) = False := by simp; omega
  have hcomp : compoundRelInterval ⟨L, st⟩ s e rst =
      (if strandRelativeTo rst st ≠ st then
        resetStrand (toSingleIfOne ⟨sortBlocks st nb, st⟩) (strandRelativeTo rst st)
       else .ok (toSingleIfOne ⟨sortBlocks st nb, st⟩)) := by
    unfold compoundRelInterval
    have c1 : ¬ ((s : Int) > (e : Int)) := by omega
    have c2 : ¬ ((s : Int) < 0) := by omega
    have c3 : ¬ ((e : Int) > ((Loc.len ⟨L, st⟩ : Nat) : Int)) := by simp [Loc.len]; omega
    have c4 : ¬ ((s : Int) = (e : Int)) := by omega
    have t1 : ((s : Int)).toNat = s := by simp
    have t2 : ((e : Int) - (s : Int)).toNat = e - s := by omega
    rw [if_neg c1, if_neg c2, if_neg c3, if_neg c4, hscanB]
    simp only [bind, Except.bind, t1, t2, hout, mkCompoundLoc_ok st hout_ne hout_v, hS1, hopt]
    rfl
  by_cases hns : strandRelativeTo rst st = st
  · -- same strand
    refine ⟨sortBlocks st nb, ?_, ?_, ?_, ?_⟩
    · rw [hcomp, hns]; simp
    · rw [hns]; exact canon_sortBlocks st hnb_ne hnb_v
    · exact (basesPlus_perm (sortBlocks_perm st nb)).trans hchain
    · intro hno hLv
      obtain ⟨hlt, hb⟩ := hexact hno hLv
      have hnlt : nb.Pairwise (fun a b => a.1 < b.1) := by
        have := (List.pairwise_map.mpr hlt).sublist (hnb ▸ combStart_starts S1)
        exact List.pairwise_map.mp this
      rw [sortBlocks_of_fst_lt _ hnlt, bases_mk, hnb_b]
      exact ⟨hb, hnb_n⟩
  · refine ⟨sortBlocks (strandRelativeTo rst st) (sortBlocks st nb), ?_, ?_, ?_, ?_⟩
    · rw [hcomp, if_pos hns, resetStrand_toSingleIfOne _ _ _ hS2ne hS2v]
    · exact canon_sortBlocks _ hS2ne hS2v
    · exact (basesPlus_perm ((sortBlocks_perm _ _).trans (sortBlocks_perm st nb))).trans hchain
    · intro hno hLv
      obtain ⟨hlt, hb⟩ := hexact hno hLv
      have hnlt : nb.Pairwise (fun a b => a.1 < b.1) := by
        have := (List.pairwise_map.mpr hlt).sublist (hnb ▸ combStart_starts S1)
        exact List.pairwise_map.mp this
      rw [sortBlocks_of_fst_lt _ hnlt, sortBlocks_of_fst_lt _ hnlt, bases_mk, hnb_b]
      exact ⟨hb, hnb_n⟩

/-! ### the multi-block walk, `rs = re` -/

theorem r2pWalk_isSome (p : Bool) (bs : List Blk) (r : Nat) (h : r < blocksLen bs) :
    ∃ q, r2pWalk p bs r = some q := by
  induction bs generalizing r with
  | nil => simp [blocksLen] at h
  | cons b bs ih =>
    simp only [blocksLen] at h
    unfold r2pWalk
    split
    · exact ⟨_, rfl⟩
    · exact ih _ (by omega)

theorem compoundR2P_ok (L : List Blk) (st : Strand) (hst : st = .plus ∨ st = .minus) (r : Nat)
    (h : r < blocksLen L) : ∃ q : Nat, compoundR2P ⟨L, st⟩ r = .ok (q : Int) := by
  have hlen : blocksLen (if st = .minus then L.reverse else L) = blocksLen L := by
    split
    · exact blocksLen_reverse L
    · rfl
  obtain ⟨q, hq⟩ := r2pWalk_isSome (st != .minus) (if st = .minus then L.reverse else L) r (by omega)
  refine ⟨q, ?_⟩
  have c : (0 ≤ (r : Int) ∧ (r : Int) < ((Loc.len ⟨L, st⟩ : Nat) : Int)) := by
    simp [Loc.len]; omega
  simp only [compoundR2P, assertDirectional, hst, if_true, bind, Except.bind, pure, Except.pure, c,
    Int.toNat_natCast, hq]
  simp

theorem compoundRel_zero (L : List Blk) (st : Strand) (hst : st = .plus ∨ st = .minus) (s : Nat)
    (rst : Strand) (hs : s ≤ blocksLen L) (hlen : 0 < blocksLen L) :
    ∃ q : Nat, compoundRelInterval ⟨L, st⟩ s s rst = .ok (.single (q, q) (strandRelativeTo rst st)) := by
  unfold compoundRelInterval
  have c1 : ¬ ((s : Int) > (s : Int)) := by omega
  have c2 : ¬ ((s : Int) < 0) := by omega
  have c3 : ¬ ((s : Int) > ((Loc.len ⟨L, st⟩ : Nat) : Int)) := by simp [Loc.len]; omega
  rw [if_neg c1, if_neg c2, if_neg c3, if_pos rfl]
  by_cases hc : 0 < (s : Int) ∧ (s : Int) = ((Loc.len ⟨L, st⟩ : Nat) : Int)
  · rw [if_pos hc]
    have e : (s : Int) - 1 = ((s - 1 : Nat) : Int) := by omega
    obtain ⟨q, hq⟩ := compoundR2P_ok L st hst (s - 1) (by omega)
    rw [e, hq]
    by_cases hp : st = .plus
    · refine ⟨q + 1, ?_⟩
      simp [bind, Except.bind, pure, Except.pure, hp, mkSingle]
      omega
    · refine ⟨q, ?_⟩
      simp [bind, Except.bind, pure, Except.pure, hp, mkSingle]
  · rw [if_neg hc]
    have : s < blocksLen L := by
      simp only [Loc.len] at hc; omega
    obtain ⟨q, hq⟩ := compoundR2P_ok L st hst s this
    refine ⟨q, ?_⟩
    rw [hq]
    simp [bind, Except.bind, mkSingle]
    rfl

theorem compoundRel_zero_len (L : List Blk) (st : Strand) (rst : Strand) (hlen : blocksLen L = 0) :
    ans (compoundRelInterval ⟨L, st⟩ 0 0 rst) = none := by
  unfold compoundRelInterval
  simp [Loc.len, hlen, compoundR2P, assertDirectional, bind, Except.bind]
  cases st <;> rfl

/-! ### the spec predicate, reduced to its four obligations -/

theorem okRelint_of (l : Location) (loc : Loc) (hl : toLoc l = some loc) (rs re : Int) (rst : Strand)
    (hdir : loc.strand ≠ .unstranded) (hdom : relintDomain l rs re = true) (m : Location)
    (hs : locationStrand? m = some (compose loc.strand rst))
    (hwf : wfLocation m = true)
    (hperm : (basesPlus (locationBlocks m)).Perm (((bases loc).drop rs.toNat).take (re - rs).toNat))
    (hexact : nonOverlap loc.blocks = true →
      bases ⟨locationBlocks m, loc.strand⟩ = ((bases loc).drop rs.toNat).take (re - rs).toNat
      ∧ (rs < re → normalBlocks (locationBlocks m) = true)) :
    okRelint l rs re rst (some m) = true := by
  have hb : locationBases m = bases ⟨locationBlocks m, compose loc.strand rst⟩ ∧ m ≠ .empty := by
    cases m with
    | single b s =>
      simp only [locationStrand?, Option.some.injEq] at hs
      subst hs
      exact ⟨rfl, by simp⟩
    | compound c =>
      simp only [locationStrand?, Option.some.injEq] at hs
      rw [← hs]
      exact ⟨rfl, by simp⟩
    | empty => simp [locationStrand?] at hs
  generalize hwant : ((bases loc).drop rs.toNat).take (re - rs).toNat = want at hperm hexact
  have hgotperm : (locationBases m).Perm want := by
    rw [hb.1, bases_mk]
    split
    · exact (List.reverse_perm _).trans hperm
    · exact hperm
  have hsort : sortNat (locationBases m) = sortNat want := sortNat_perm hgotperm
  unfold okRelint
  simp only [hl, hdom, not_true, if_false, Option.isNone_some, Bool.false_eq_true, and_false, hwant]
  simp only [hs, hwf, beq_self_eq_true, Bool.true_and, Bool.and_eq_true]
  by_cases hno : nonOverlap loc.blocks = true
  · obtain ⟨hex, hnorm⟩ := hexact hno
    simp only [hno, if_true, and_true]
    refine ⟨?_, ?_⟩
    · have h2 := hsort
      rw [hb.1] at h2 ⊢
      generalize compose loc.strand rst = ns at h2 ⊢
      generalize locationBlocks m = F at h2 hex ⊢
      obtain ⟨L, st⟩ := loc
      simp only at hex hdir h2 ⊢
      clear hwant hperm hgotperm hsort hb hnorm hexact hno hl hs
      subst hex
      cases st <;> cases ns <;> simp [bases_mk] at hdir h2 ⊢ <;> exact h2
    · split
      · rename_i hlt
        simp [hnorm hlt, hb.2]
      · rfl
  · simp [hno, hsort]

/-! ### the single-block class -/

theorem singleRel_ok (b : Blk) (st : Strand) (hst : st = .plus ∨ st = .minus) (s e : Nat) (rst : Strand)
    (hse : s ≤ e) (he : e ≤ b.len) :
    singleRelInterval b st s e rst = .ok (.single (subBlk st b s e) (strandRelativeTo st rst)) := by
  unfold singleRelInterval
  have c : (0 ≤ (s : Int) ∧ (s : Int) ≤ (e : Int) ∧ (e : Int) ≤ ((b.len : Nat) : Int)) := by omega
  rw [if_neg (by simpa using c)]
  unfold Blk.len at he
  rcases hst with hp | hm
  · subst hp
    have c2 : 0 ≤ (b.1 : Int) + s ∧ (b.1 : Int) + s ≤ (b.1 : Int) + e := by omega
    have t1 : ((b.1 : Int) + s).toNat = b.1 + s := by omega
    have t2 : ((b.1 : Int) + e).toNat = b.1 + e := by omega
    simp only [if_true, mkSingle, c2, and_self, t1, t2, subBlk]
    rfl
  · subst hm
    have c2 : 0 ≤ (b.2 : Int) - e ∧ (b.2 : Int) - e ≤ (b.2 : Int) - s := by omega
    have t1 : ((b.2 : Int) - e).toNat = b.2 - e := by omega
    have t2 : ((b.2 : Int) - s).toNat = b.2 - s := by omega
    simp only [reduceCtorEq, if_false, if_true, mkSingle, c2, and_self, t1, t2, subBlk]
    rfl

theorem single_out (b : Blk) (st : Strand) (rs re : Int) (rst : Strand)
    (hdom : relintDomain (.single b st) rs re = false) :
    ans (singleRelInterval b st rs re rst) = none := by
  unfold singleRelInterval
  by_cases c : (0 ≤ rs ∧ rs ≤ re ∧ re ≤ ((b.len : Nat) : Int))
  · rw [if_neg (by simpa using c)]
    have : st = .unstranded := by
      cases st <;> simp_all [relintDomain, toLoc, Strand.isDirectional, Loc.len, blocksLen]
    subst this
    rfl
  · rw [if_pos c]; rfl

theorem compound_out (loc : Loc) (rs re : Int) (rst : Strand)
    (hdom : relintDomain (.compound loc) rs re = false) :
    ans (compoundRelInterval loc rs re rst) = none := by
  unfold compoundRelInterval
  by_cases c1 : rs > re
  · rw [if_pos c1]; rfl
  rw [if_neg c1]
  by_cases c2 : rs < 0
  · rw [if_pos c2]; rfl
  rw [if_neg c2]
  by_cases c3 : re > ((loc.len : Nat) : Int)
  · rw [if_pos c3]; rfl
  rw [if_neg c3]
  have : loc.strand = .unstranded := by
    obtain ⟨L, st⟩ := loc
    cases st <;> simp_all [relintDomain, toLoc, Strand.isDirectional] <;> omega
  obtain ⟨L, st⟩ := loc
  simp only at this
  subst this
  have hd : ¬ (Strand.unstranded = Strand.plus ∨ Strand.unstranded = Strand.minus) := by simp
  simp only [compoundR2P, scanBlocks, assertDirectional, if_neg hd]
  split <;> (try split) <;> rfl

theorem strandRelativeTo_eq_compose' (a b : Strand) : strandRelativeTo a b = compose a b := by
  cases a <;> cases b <;> rfl

theorem subBlk_valid (st : Strand) (b : Blk) (s e : Nat) (hse : s ≤ e) :
    (subBlk st b s e).1 ≤ (subBlk st b s e).2 := by
  unfold subBlk; split <;> simp <;> omega

theorem relInterval_ok (l : Location) (h : WF l) (rs re : Int) (rst : Strand) :
    okRelint l rs re rst (ans (relInterval l rs re rst)) = true := by
  cases l with
  | empty => simp [okRelint, toLoc, relInterval]
  | single b st =>
    simp only [relInterval]
    by_cases hdom : relintDomain (.single b st) rs re = true
    · have hd := hdom
      simp only [relintDomain, toLoc, Bool.and_eq_true, decide_eq_true_eq, Loc.len, blocksLen] at hd
      obtain ⟨⟨⟨hdir, h0⟩, hle⟩, hlen⟩ := hd
      have hst : st = .plus ∨ st = .minus := by cases st <;> simp [Strand.isDirectional] at hdir ⊢
      have hne : st ≠ .unstranded := by rcases hst with h | h <;> simp [h]
      obtain ⟨s, rfl⟩ := Int.eq_ofNat_of_zero_le h0
      obtain ⟨e, rfl⟩ := Int.eq_ofNat_of_zero_le (by omega : 0 ≤ re)
      have hse : s ≤ e := by omega
      have hlen := of_decide_eq_true hlen
      have he : e ≤ b.len := by omega
      have t2 : ((e : Int) - (s : Int)).toNat = e - s := by omega
      rw [singleRel_ok b st hst s e rst hse he, ans_ok]
      have hrd : rd st (subBlk st b s e) = ((bases ⟨[b], st⟩).drop s).take (e - s) := by
        rw [bases_single b st hne, rd_subBlk st b s e hse he]
      apply okRelint_of _ ⟨[b], st⟩ rfl _ _ _ hne hdom
      · simp [locationStrand?, strandRelativeTo_eq_compose']
      · simpa [wfLocation] using subBlk_valid st b s e hse
      · simp only [Int.toNat_natCast, t2, locationBlocks, ← hrd]
        simpa using (readScan_perm_basesPlus st [subBlk st b s e]).symm
      · intro _
        simp only [Int.toNat_natCast, t2, locationBlocks, ← hrd]
        refine ⟨bases_single _ st hne, ?_⟩
        intro hlt
        have := (subBlk_inside st b s e (by omega) he).2.1
        simpa [normalBlocks] using this
    · have hdom' : relintDomain (.single b st) rs re = false := by simpa using hdom
      have := single_out b st rs re rst hdom'
      simp [okRelint, toLoc, hdom', this]
  | compound loc =>
    simp only [relInterval]
    obtain ⟨L, st⟩ := loc
    by_cases hdom : relintDomain (.compound ⟨L, st⟩) rs re = true
    · have hd := hdom
      simp only [relintDomain, toLoc, Bool.and_eq_true, decide_eq_true_eq, Loc.len] at hd
      obtain ⟨⟨⟨hdir, h0⟩, hle⟩, hlen⟩ := hd
      have hst : st = .plus ∨ st = .minus := by cases st <;> simp [Strand.isDirectional] at hdir ⊢
      have hne : st ≠ .unstranded := by rcases hst with h | h <;> simp [h]
      have hLv : ∀ b ∈ L, b.1 ≤ b.2 := (blocksValid_iff L).mp h.2.1
      obtain ⟨s, rfl⟩ := Int.eq_ofNat_of_zero_le h0
      obtain ⟨e, rfl⟩ := Int.eq_ofNat_of_zero_le (by omega : 0 ≤ re)
      have hse : s ≤ e := by omega
      have hlen := of_decide_eq_true hlen
      have he : e ≤ blocksLen L := by omega
      have t2 : ((e : Int) - (s : Int)).toNat = e - s := by omega
      by_cases hlt : s < e
      · obtain ⟨F, hF, hcanon, hperm, hex⟩ := compoundRel_pos L st s e rst hne hlt he
        rw [hF, ans_ok]
        apply okRelint_of _ ⟨L, st⟩ rfl _ _ _ hne hdom
        · simp [locationStrand_toSingleIfOne, strandRelativeTo_eq_compose]
        · exact wfLocation_toSingleIfOne _ hcanon
        · simpa only [Int.toNat_natCast, t2, locationBlocks_toSingleIfOne] using hperm
        · intro hno
          have := hex hno hLv
          simp only [Int.toNat_natCast, t2, locationBlocks_toSingleIfOne]
          exact ⟨this.1, fun _ => this.2⟩
      · have hes : e = s := by omega
        subst hes
        by_cases hz : blocksLen L = 0
        · have hs0 : e = 0 := by omega
          subst hs0
          have := compoundRel_zero_len L st rst hz
          simp only [Int.natCast_zero] at this ⊢
          simp [okRelint, toLoc, this, Loc.len, hz]
        · obtain ⟨q, hq⟩ := compoundRel_zero L st hst e rst he (by omega)
          rw [hq, ans_ok]
          apply okRelint_of _ ⟨L, st⟩ rfl _ _ _ hne hdom
          · simp [locationStrand?, strandRelativeTo_eq_compose]
          · simp [wfLocation]
          · simp [locationBlocks, basesPlus, blkAsc]
          · intro _
            simp [locationBlocks, bases_single _ st hne, rd, blkAsc, blkDesc]
    · have hdom' : relintDomain (.compound ⟨L, st⟩) rs re = false := by simpa using hdom
      have := compound_out ⟨L, st⟩ rs re rst hdom'
      simp [okRelint, toLoc, hdom', this]

end BioCantor.Proofs
