/-
  C01-T3: the relative-interval walk (`relative_interval_to_parent_location`) meets `Spec.okRelint`.
-/
import BioCantor.Proofs.Common
namespace BioCantor.Proofs
open BioCantor BioCantor.Spec BioCantor.Model

theorem relInterval_ok (l : Location) (h : WF l) (rs re : Int) (rst : Strand) :
    okRelint l rs re rst (ans (relInterval l rs re rst)) = true := by
  sorry

end BioCantor.Proofs
