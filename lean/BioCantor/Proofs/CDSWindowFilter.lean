/-
  Towards C05-T5, pure list part: on a reading `K = Bf ++ In ++ Af` whose middle stretch is exactly the part
  inside the window, the codons lying inside the window (filter form of the spec) are the consecutive triples
  with indices ⌈|Bf|/3⌉ … ⌊(|Bf|+|In|)/3⌋.
-/
import BioCantor.Proofs.CDSTriples
import BioCantor.Proofs.CDSScan
namespace BioCantor.Proofs
open BioCantor BioCantor.Model BioCantor.Spec

theorem take3_drop {α} (K : List α) (j : Nat) (h : j + 3 ≤ K.length) :
    (K.drop j).take 3 = [K[j], K[j + 1], K[j + 2]] := by
  apply List.ext_getElem
  · simp [List.length_take, List.length_drop]; omega
  · intro i h1 h2
    simp only [List.length_cons, List.length_nil] at h2
    have : i = 0 ∨ i = 1 ∨ i = 2 := by omega
    rcases this with rfl | rfl | rfl <;> simp [List.getElem_take, List.getElem_drop]

theorem getElem_three_parts (Bf In Af : List Nat) (P : Nat → Bool)
    (hB : ∀ x ∈ Bf, P x = false) (hI : ∀ x ∈ In, P x = true) (hA : ∀ x ∈ Af, P x = false)
    (j : Nat) (hj : j < (Bf ++ In ++ Af).length) :
    P ((Bf ++ In ++ Af)[j]) = (decide (Bf.length ≤ j) && decide (j < Bf.length + In.length)) := by
  have hlen : (Bf ++ In ++ Af).length = Bf.length + In.length + Af.length := by
    simp [Nat.add_assoc]
  by_cases h1 : j < Bf.length
  · have : (Bf ++ In ++ Af)[j] = Bf[j] :=
      (List.getElem_eq_iff hj).mpr (by
        rw [List.append_assoc, List.getElem?_append_left h1, List.getElem?_eq_getElem h1])
    rw [this, hB _ (List.getElem_mem h1)]
    have : ¬ (Bf.length ≤ j) := by omega
    simp [this]
  · by_cases h2 : j < Bf.length + In.length
    · have hlt : j - Bf.length < In.length := by omega
      have : (Bf ++ In ++ Af)[j] = In[j - Bf.length] :=
        (List.getElem_eq_iff hj).mpr (by
          rw [List.getElem?_append_left (by simp; omega), List.getElem?_append_right (by omega),
            List.getElem?_eq_getElem hlt])
      rw [this, hI _ (List.getElem_mem hlt)]
      have : Bf.length ≤ j := by omega
      simp [this, h2]
    · have hlt : j - (Bf ++ In).length < Af.length := by simp; omega
      have : (Bf ++ In ++ Af)[j] = Af[j - (Bf ++ In).length] :=
        (List.getElem_eq_iff hj).mpr (by
          rw [List.getElem?_append_right (by simp; omega), List.getElem?_eq_getElem hlt])
      rw [this, hA _ (List.getElem_mem hlt)]
      simp [h2]

theorem filter_range_interval (n a b : Nat) :
    (List.range n).filter (fun i => decide (a ≤ i) && decide (i < b)) = List.range' a (min b n - a) := by
  rw [List.range_eq_range']
  have := filter_range'_aux n 0 a b
  rw [Nat.min_comm]
  simpa using this
where
  filter_range'_aux : ∀ (n s a b : Nat),
      (List.range' s n).filter (fun i => decide (a ≤ i) && decide (i < b)) =
        List.range' (max s a) (min (s + n) b - max s a)
    | 0, s, a, b => by
      have : min s b - max s a = 0 := by omega
      simp [this]
    | n + 1, s, a, b => by
      rw [List.range'_succ, List.filter_cons, filter_range'_aux n (s + 1) a b]
      by_cases h : a ≤ s ∧ s < b
      · have h' : (decide (a ≤ s) && decide (s < b)) = true := by simp [h]
        rw [if_pos h']
        have e1 : max s a = s := by omega
        have e2 : max (s + 1) a = s + 1 := by omega
        have e3 : min (s + (n + 1)) b - s = (min (s + 1 + n) b - (s + 1)) + 1 := by omega
        rw [e1, e2, e3, List.range'_succ]
      · have h' : ¬ ((decide (a ≤ s) && decide (s < b)) = true) := by simp; omega
        rw [if_neg h']
        by_cases hs : s < a
        · have e1 : max (s + 1) a = max s a := by omega
          have e2 : s + 1 + n = s + (n + 1) := by omega
          rw [e1, e2]
        · have e : min (s + 1 + n) b - max (s + 1) a = 0 := by omega
          have e' : min (s + (n + 1)) b - max s a = 0 := by omega
          rw [e, e']; simp

/-- filter form = drop/take form -/
theorem triples_filter_window (Bf In Af : List Nat) (P : Nat → Bool)
    (hB : ∀ x ∈ Bf, P x = false) (hI : ∀ x ∈ In, P x = true) (hA : ∀ x ∈ Af, P x = false) :
    (triples (Bf ++ In ++ Af)).filter (fun t => t.all P) =
      ((triples (Bf ++ In ++ Af)).drop ((Bf.length + 2) / 3)).take
        ((Bf.length + In.length) / 3 - (Bf.length + 2) / 3) := by
  generalize hK : Bf ++ In ++ Af = K
  have hpt : ∀ j (hj : j < K.length), P K[j] = (decide (Bf.length ≤ j) && decide (j < Bf.length + In.length)) := by
    intro j hj
    subst hK
    exact getElem_three_parts Bf In Af P hB hI hA j hj
  have hKlen : K.length = Bf.length + In.length + Af.length := by rw [← hK]; simp [Nat.add_assoc]
  rw [triples_eq_range K]
  generalize hn : K.length / 3 = n
  generalize ha : (Bf.length + 2) / 3 = a
  generalize hb : (Bf.length + In.length) / 3 = b
  rw [List.filter_map]
  have hpred : (List.range n).filter ((fun t => t.all P) ∘ fun i => (K.drop (3 * i)).take 3) =
      (List.range n).filter (fun i => decide (a ≤ i) && decide (i < b)) := by
    apply List.filter_congr
    intro i hi
    simp only [List.mem_range] at hi
    have h3 : 3 * i + 3 ≤ K.length := by omega
    simp only [Function.comp_apply]
    rw [take3_drop K (3 * i) h3]
    simp only [List.all_cons, List.all_nil, Bool.and_true]
    rw [hpt _ (by omega), hpt _ (by omega), hpt _ (by omega)]
    by_cases c1 : a ≤ i ∧ i < b
    · have e1 : Bf.length ≤ 3 * i := by omega
      have e2 : 3 * i + 2 < Bf.length + In.length := by omega
      have : (decide (a ≤ i) && decide (i < b)) = true := by simp [c1]
      rw [this]
      simp only [Bool.and_eq_true, decide_eq_true_eq]
      omega
    · have : (decide (a ≤ i) && decide (i < b)) = false := by simp; omega
      rw [this]
      by_cases c2 : i < a
      · have : ¬ (Bf.length ≤ 3 * i) := by omega
        simp [this]
      · have : ¬ (3 * i + 2 < Bf.length + In.length) := by omega
        simp [this]
  rw [hpred, filter_range_interval, ← List.map_drop, ← List.map_take]
  congr 1
  rw [List.range_eq_range', List.drop_range']
  simp only [Nat.one_mul, Nat.mul_one, Nat.zero_add]
  by_cases hle : b - a ≤ n - a
  · rw [List.take_range'_of_length_ge hle]
    congr 1; omega
  · rw [List.take_range'_of_length_le (by omega)]
    congr 1; omega

end BioCantor.Proofs
