/-
  The cgranges branch of `CompoundInterval._intersection_compound_interval` (`Model.isectCCcgr`) versus the pairwise
  branch (`Model.isectCC`, the one executed in this sandbox): equal whenever no block of either operand is zero-length;
  with a zero-length block strictly inside a block of the other operand the cgranges branch raises.
  Assumption (documented cgranges semantics, not executable here): `overlap(ctg, st, en)` reports exactly the stored
  intervals `[s, e)` with `s < en ∧ st < e`; the order in which it reports them is irrelevant (the constructor sorts).
-/
import BioCantor.Proofs.AlgIntersect
namespace BioCantor.Proofs.Cgr
open BioCantor BioCantor.Spec BioCantor.Model BioCantor.Proofs.Isect

theorem mapM_ok' {α β} (f : α → R β) (g : α → β) (l : List α) (h : ∀ x ∈ l, f x = .ok (g x)) :
    l.mapM f = .ok (l.map g) := by
  induction l with
  | nil => rfl
  | cons a t ih =>
    rw [List.mapM_cons, h a (by simp), ih (fun x hx => h x (List.mem_cons_of_mem _ hx))]
    rfl

/-- for non-empty blocks the interval-tree query is the overlap kernel -/
theorem cgr_eq_kernel (x y : Blk) (hx : x.1 < x.2) (hy : y.1 < y.2) : cgrOverlaps x y = overlapKernel x y := by
  rw [Bool.eq_iff_iff, overlapKernel_iff]
  simp only [cgrOverlaps, Bool.and_eq_true, decide_eq_true_eq]
  omega

theorem flatMap_append_perm {α β} (l : List α) (f g : α → List β) :
    (l.flatMap (fun a => f a ++ g a)).Perm (l.flatMap f ++ l.flatMap g) := by
  induction l with
  | nil => simp
  | cons a t ih =>
    simp only [List.flatMap_cons]
    have h1 : (f a ++ g a ++ List.flatMap (fun a => f a ++ g a) t).Perm
        (f a ++ g a ++ (List.flatMap f t ++ List.flatMap g t)) := List.Perm.append_left _ ih
    refine h1.trans ?_
    simp only [List.append_assoc]
    refine List.Perm.append_left _ ?_
    rw [← List.append_assoc, ← List.append_assoc]
    exact List.Perm.append_right _ List.perm_append_comm

theorem flatMap_congr' {α β} (l : List α) (f g : α → List β) (h : ∀ a ∈ l, f a = g a) :
    l.flatMap f = l.flatMap g := by
  induction l with
  | nil => rfl
  | cons a t ih =>
    simp only [List.flatMap_cons]
    rw [h a (by simp), ih (fun x hx => h x (List.mem_cons_of_mem _ hx))]

/-- the blocks produced column by column (for every block of `B`, the overlapping blocks of `A`) -/
def colGrid (A B : List Blk) : List Blk :=
  B.flatMap (fun y => A.filterMap (fun x => if overlapKernel x y then some (isectBlk x y) else none))

theorem rowI_as_flatMap (x : Blk) (B : List Blk) :
    rowI x B = B.flatMap (fun y => if overlapKernel x y then [isectBlk x y] else []) := by
  unfold rowI
  induction B with
  | nil => rfl
  | cons y B ih =>
    simp only [List.filterMap_cons, List.flatMap_cons]
    by_cases h : overlapKernel x y = true
    · simp [h, ih]
    · have h' : overlapKernel x y = false := by simpa using h
      simp [h', ih]

theorem colGrid_perm (A B : List Blk) : (colGrid A B).Perm (gridI A B) := by
  induction A with
  | nil =>
    have : colGrid [] B = [] := by simp [colGrid]
    rw [this]; simp [gridI]
  | cons x A ih =>
    have hg : gridI (x :: A) B = rowI x B ++ gridI A B := by simp [gridI]
    have hc : colGrid (x :: A) B =
        B.flatMap (fun y => (if overlapKernel x y then [isectBlk x y] else []) ++
          A.filterMap (fun x => if overlapKernel x y then some (isectBlk x y) else none)) := by
      unfold colGrid
      congr 1
      funext y
      by_cases h : overlapKernel x y = true
      · simp [h]
      · have h' : overlapKernel x y = false := by simpa using h
        simp [h']
    rw [hg, hc, rowI_as_flatMap]
    exact (flatMap_append_perm B _ _).trans (List.Perm.append_left _ ih)

/-- the constructor does not depend on the order in which the blocks are handed over -/
theorem mkCompoundLoc_perm {xs ys : List Blk} (h : xs.Perm ys) (st : Strand) :
    mkCompoundLoc xs st = mkCompoundLoc ys st := by
  unfold mkCompoundLoc
  have he : xs.isEmpty = ys.isEmpty := by
    cases xs with
    | nil => rw [List.nil_perm.mp h]
    | cons a t =>
      cases ys with
      | nil => exact absurd (List.perm_nil.mp h) (by simp)
      | cons _ _ => rfl
  have hs : sortBlocks st xs = sortBlocks st ys :=
    sortBlocks_eq_of_perm_sorted st ((sortBlocks_perm st ys).trans h.symm) (sortBlocks_pairwise st ys)
  rw [he, hs]

theorem fromResults_singles (bs : List Blk) (sa st : Strand) :
    fromResults (bs.map (fun b => Location.single b sa)) st = mkCompoundLoc bs st := by
  unfold fromResults
  rw [mapM_ok' _ (fun r => match r with | .single b _ => b | _ => (0, 0)) _ (by
    intro r hr
    obtain ⟨b, _, rfl⟩ := List.mem_map.mp hr
    rfl)]
  simp only [List.map_map, Function.comp_def, List.map_id']
  rfl

theorem col_eq (A : List Blk) (y : Blk) (hy : y.1 < y.2) (hA : ∀ x ∈ A, x.1 < x.2) (sa : Strand) :
    ((A.filter (fun x => cgrOverlaps x y)).map (fun x => (x, y))).map
        (fun p => Location.single (isectBlk p.1 p.2) sa) =
      (A.filterMap (fun x => if overlapKernel x y then some (isectBlk x y) else none)).map
        (fun b => Location.single b sa) := by
  induction A with
  | nil => rfl
  | cons x A ih =>
    have ih' := ih (fun z hz => hA z (List.mem_cons_of_mem _ hz))
    have hk := cgr_eq_kernel x y (hA x (by simp)) hy
    by_cases h : overlapKernel x y = true
    · simp only [List.filter_cons, hk, h, if_true, List.map_cons, List.filterMap_cons]
      rw [ih']
    · have h' : overlapKernel x y = false := by simpa using h
      simp only [List.filter_cons, hk, h', Bool.false_eq_true, if_false, List.filterMap_cons]
      exact ih'

/-- the cgranges loop, for operands without zero-length blocks, builds a permutation of the pairwise block list -/
theorem cgrTail_eq (la lb : Loc) (ms : Bool) (hg : ¬ (ms = true ∧ la.strand ≠ lb.strand))
    (hva : ∀ x ∈ la.blocks, x.1 < x.2) (hvb : ∀ y ∈ lb.blocks, y.1 < y.2) :
    isectCCcgrTail la lb ms =
      (mkCompoundLoc (gridI la.blocks lb.blocks) la.strand >>= fun c => optimizeLoc true c) := by
  unfold isectCCcgrTail
  dsimp only
  have hpairs : ∀ p ∈ lb.blocks.flatMap (fun y => (la.blocks.filter (fun x => cgrOverlaps x y)).map (fun x => (x, y))),
      isectSS p.1 la.strand p.2 lb.strand ms = .ok (Location.single (isectBlk p.1 p.2) la.strand) := by
    intro p hp
    simp only [List.mem_flatMap, List.mem_map, List.mem_filter] at hp
    obtain ⟨y, hy, x, ⟨hx, hq⟩, rfl⟩ := hp
    rw [cgr_eq_kernel x y (hva x hx) (hvb y hy)] at hq
    have hlt := (overlapKernel_iff x y).mp hq
    unfold isectSS mkSingleN isectBlk
    rw [if_neg hg]
    simp only [hq, Bool.not_true, Bool.false_eq_true, if_false]
    rw [if_pos (Nat.le_of_lt hlt)]
    rfl
  rw [mapM_ok' _ _ _ hpairs]
  simp only [ok_bind]
  have hmap : (lb.blocks.flatMap (fun y => (la.blocks.filter (fun x => cgrOverlaps x y)).map (fun x => (x, y)))).map
      (fun p => Location.single (isectBlk p.1 p.2) la.strand) =
      (colGrid la.blocks lb.blocks).map (fun b => Location.single b la.strand) := by
    unfold colGrid
    rw [List.map_flatMap, List.map_flatMap]
    exact flatMap_congr' _ _ _ (fun y hy => col_eq la.blocks y (hvb y hy) hva la.strand)
  rw [hmap, fromResults_singles, mkCompoundLoc_perm (colGrid_perm la.blocks lb.blocks)]

/-- C02 (cgranges branch): without zero-length blocks the interval-tree branch returns what the pairwise branch
    returns -/
theorem isectCCcgr_eq (la lb : Loc) (ms fs : Bool)
    (hva : ∀ x ∈ la.blocks, x.1 < x.2) (hvb : ∀ y ∈ lb.blocks, y.1 < y.2) :
    isectCCcgr la lb ms fs = isectCC la lb ms fs := by
  unfold isectCCcgr isectCC
  cases hasOverlap (.compound la) (.compound lb) ms fs with
  | error e => rfl
  | ok v =>
    simp only [ok_bind]
    cases v with
    | false => rfl
    | true =>
      simp only [Bool.not_true, Bool.false_eq_true, if_false]
      cases fs with
      | true => rfl
      | false =>
        simp only [Bool.false_eq_true, if_false]
        by_cases hg : ms = true ∧ la.strand ≠ lb.strand
        · rw [if_pos hg, if_pos hg]
        · rw [if_neg hg, if_neg hg, cgrTail_eq la lb ms hg hva hvb]
          simp only [guarded_row_eq]
          rfl

/-- a zero-length block strictly inside a block of the other operand: the tree reports the pair, the pair's
    intersection is EmptyLocation, and building the result raises EmptyLocationException — while the pairwise branch
    answers the intersection -/
theorem isectCCcgr_zero_length_raises :
    isectCCcgr ⟨[(2, 2), (5, 8)], .plus⟩ ⟨[(0, 10)], .plus⟩ true false = .error .EmptyLocation ∧
    isectCC ⟨[(2, 2), (5, 8)], .plus⟩ ⟨[(0, 10)], .plus⟩ true false = .ok (.single (5, 8) .plus) := by
  constructor
  · rfl
  · have hs : sortBlocks .plus [((5, 8) : Blk)] = [(5, 8)] := by simp [sortBlocks]
    have hm : mkCompoundLoc [((5, 8) : Blk)] .plus = .ok ⟨[(5, 8)], .plus⟩ := by
      simp [mkCompoundLoc, hs, blocksValid]; rfl
    have hb : (List.flatMap (fun x => if [((0, 10) : Blk)].any (fun y => overlapKernel y x) = true then
          [((0, 10) : Blk)].filterMap (fun y => if overlapKernel x y = true then some (isectBlk x y) else none)
        else []) [((2, 2) : Blk), (5, 8)]) = [(5, 8)] := by decide
    unfold isectCC
    have ho : hasOverlap (.compound ⟨[(2, 2), (5, 8)], .plus⟩) (.compound ⟨[(0, 10)], .plus⟩) true false = .ok true := rfl
    rw [ho]
    simp only [ok_bind, Bool.not_true, Bool.false_eq_true, if_false, ne_eq, not_true_eq_false, and_false, hb, hm]
    rfl

-- the hypotheses of `isectCCcgr_eq` are satisfiable by a non-trivial pair (touching and nested blocks, no empty one)
example : (∀ x ∈ (⟨[(0, 3), (1, 2), (3, 6)], .minus⟩ : Loc).blocks, x.1 < x.2) ∧
    (∀ y ∈ (⟨[(2, 4), (5, 9)], .plus⟩ : Loc).blocks, y.1 < y.2) := by decide

end BioCantor.Proofs.Cgr
