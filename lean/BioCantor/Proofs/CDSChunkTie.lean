/-
  C05 ↔ C07: the chunk model (`Model/Chunk.lean`, owned by C07) does not re-model the chromosome-level CDS
  machinery.  These statements pin that down, so the two models cannot drift silently: the chromosome-level answers
  of a chunk-built CDS ARE the C05 functions on `k.base`; an interval without a base in the chunk answers through
  the C05 functions everywhere; and the one block of C05 control flow that Chunk.lean repeats (`cleanedLoc`) is
  the cleaned location of `prepareMulti`.
-/
import BioCantor.Model.Chunk
import BioCantor.Model.CDS
namespace BioCantor.Proofs
open BioCantor BioCantor.Model BioCantor.Model.Chunk

theorem chunk_chromosome_codons_delegate (k : ChunkCDS) : chromosomeCodonLocations k = codonLocations k.base := rfl

theorem chunk_numCodons_delegate (k : ChunkCDS) : numCodonsChunk k = numCodons k.base := rfl

/-- not chunk-relative (no base in the chunk ⇒ `EmptyLocation` ⇒ no sequence-chunk ancestor) -/
theorem chunk_prepare_off_chunk (k : ChunkCDS) (h : k.location = .empty) (win : Option Blk) :
    prepareChunkW k win = prepare k.base win ∧ prepareChunk k = prepare k.base none := by
  have hrel : k.isChunkRelative = false := by simp [ChunkCDS.isChunkRelative, h]
  constructor
  · simp [prepareChunkW, hrel]
  · unfold prepareChunk prepareMultiChunk prepareSingleChunk prepare
    simp [hrel]

theorem chunk_codons_off_chunk (k : ChunkCDS) (h : k.location = .empty) :
    chunkRelativeCodonLocations k = codonLocations k.base := by
  unfold chunkRelativeCodonLocations codonLocations scanCodonLocations
  rw [(chunk_prepare_off_chunk k h none).2]

theorem chunk_window_codons_off_chunk (k : ChunkCDS) (h : k.location = .empty) (lo hi : Int) :
    scanChunkRelativeCodonLocations k lo hi =
      scanChromosomeCodonLocations k.base (some ⟨some lo, some hi, false⟩) := by
  unfold scanChunkRelativeCodonLocations scanChromosomeCodonLocations scanCodonLocations
  cases hw : convertWindow k.base (some ⟨some lo, some hi, false⟩) with
  | error e => rfl
  | ok win =>
    simp only [bind, Except.bind]
    rw [(chunk_prepare_off_chunk k h win).1]

/-- `Chunk.cleanedLoc` is the cleaned location inside `_prepare_multi_exon_window_for_scan_codon_locations` -/
theorem chunk_cleanedLoc_is_prepareMulti (c : CDS) (win : Option Blk) :
    prepareMulti c win = (do
      let cleaned ← cleanedLoc c
      let rel ← (match windowTruthy win with
        | some w => intersectWindow cleaned w
        | none => pure (Location.compound cleaned))
      let offset ← calculateFrameOffset c (.compound cleaned) rel
      pure (rel, offset)) := by
  unfold prepareMulti cleanedLoc
  by_cases hl : c.exonIter.length ≠ c.frameIter.length
  · simp [hl, bind, Except.bind, throw, throwThe, MonadExceptOf.throw]
  · simp only [hl, if_false, bind, Except.bind, pure, Except.pure]
    cases cleanExons c.loc CleanSt.init (c.exonIter.zip c.frameIter) with
    | error e => rfl
    | ok st =>
      simp only
      cases cleanedLocation c.loc st with
      | error e => rfl
      | ok cl =>
        simp only
        cases windowTruthy win with
        | none => rfl
        | some w => rfl

/-- the chunk branch of the multi-exon path differs from C05's `prepareMulti` only in lifting the restricted
    location onto the chunk before `_calculate_frame_offset` -/
theorem chunk_prepareMulti_shape (k : ChunkCDS) (hrel : k.location ≠ .empty) (hmulti : k.base.numBlocks > 1)
    (win : Option Blk) :
    prepareChunkW k win = (do
      let cleaned ← cleanedLoc k.base
      let rel ← (match windowTruthy win with
        | some w => intersectWindow cleaned w
        | none => pure (Location.compound cleaned))
      chunkBranch k (.compound cleaned) rel) := by
  have h1 : k.isChunkRelative = true := by simp [ChunkCDS.isChunkRelative, hrel]
  simp only [prepareChunkW, h1, not_true_eq_false, if_false, hmulti, if_true, bind, Except.bind]
  cases cleanedLoc k.base with
  | error e => rfl
  | ok cl =>
    simp only
    cases windowTruthy win with
    | none => rfl
    | some w => rfl

end BioCantor.Proofs
