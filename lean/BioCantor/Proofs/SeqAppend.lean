/-
  C03-T4 (concatenation), single-interval operands: `x.append(y)` of two consistent objects located on single
  intervals of the same directional strand, `x` wholly 5' of `y`, is answered with the concatenated text and the
  two-block location, which extracts exactly that text.  (Compound operands: correspondence only.)
-/
import BioCantor.Proofs.SeqObjects
set_option linter.unusedSimpArgs false
namespace BioCantor.Proofs.Sq
open BioCantor BioCantor.Spec BioCantor.Model BioCantor.Spec.Sq BioCantor.Model.Sq BioCantor.Proofs

theorem rootKey_eq (P : List Char) : eqExceptLoc (rootKey P) (rootKey P) = true := by
  unfold rootKey
  rw [eqExceptLoc]
  simp [pinfoId, pinfoType, pinfoSeq]

theorem rootKey_gate (P : List Char) : parentGate (rootKey P) (rootKey P) = true := by
  have h := rootKey_eq P
  unfold rootKey at h ⊢
  simp [parentGate, h, parentId, pinfoId]

theorem rootKey_req (P : List Char) : requireParentsEq (rootKey P) (rootKey P) = .ok () := by
  have := rootKey_eq P
  simp only [rootKey] at this ⊢
  simp [requireParentsEq, this]; rfl

theorem overlapKernel_disjoint (a b : Blk) (h : a.2 ≤ b.1 ∨ b.2 ≤ a.1) (ha : a.1 < a.2) (hb : b.1 < b.2) :
    overlapKernel a b = false := by
  unfold overlapKernel Blk.len
  have h1 : ¬ (a.2 - a.1 = 0 ∨ b.2 - b.1 = 0) := by omega
  simp only [h1, if_false]
  repeat' split
  all_goals first | rfl | omega

theorem sort_two_plus (a b : Blk) (h : a.1 < b.1) : sortBlocks .plus [a, b] = [a, b] :=
  sortBlocks_of_fst_lt .plus (by simp [h])

theorem sort_two_minus (a b : Blk) (h : b.1 < a.1) : sortBlocks .minus [a, b] = [b, a] :=
  sortBlocks_eq_of_perm_sorted .minus (List.Perm.swap a b []) (by
    simp [blkLe, blkLeOther, h])

/-- union of two disjoint non-empty single intervals on the root parent -/
theorem union_singles (P : List Char) (a b : Blk) (st : Strand) (ha : a.1 < a.2) (hb : b.1 < b.2)
    (h : a.2 ≤ b.1 ∨ b.2 ≤ a.1) :
    unionP (.single a st, rootKey P) (.single b st, rootKey P) =
      .ok (.compound ⟨sortBlocks st [a, b], st⟩, rootKey P) := by
  have hv : ∀ x ∈ [a, b], x.1 ≤ x.2 := by
    intro x hx; simp at hx; rcases hx with rfl | rfl <;> omega
  have hla : ¬ a.len = 0 := by unfold Blk.len; omega
  have hlb : ¬ b.len = 0 := by unfold Blk.len; omega
  simp only [unionP, unionWithSingle, locStrand, unionSS, rootKey_gate, rootKey_req, overlapKernel_disjoint a b h ha hb,
    hla, hlb, if_false, bind, Except.bind, pure, Except.pure, ne_eq, not_true_eq_false, Bool.and_false,
    Bool.false_eq_true, mkCompound, mkCompoundLoc_ok st (by simp : [a, b] ≠ []) hv, withPar]
  simp [rootKey]

theorem sliceP_length_pos (P : List Char) (b : Blk) (hw : blkWithin P b) : (sliceP P b).length = b.2 - b.1 := by
  unfold sliceP
  rcases hw with h | h
  · have : b.2 - b.1 = 0 := by omega
    simp [this]
  · simp; omega

/-- **C03-T4 (concatenation, single-interval operands)** -/
theorem append_consistent_single (P alph : List Char) (hnt : isNt alph = true) (a b : Blk) (st : Strand)
    (hd : st = .plus ∨ st = .minus) (ha : a.1 < a.2) (hb : b.1 < b.2)
    (hwa : blkWithin P a) (hwb : blkWithin P b)
    (hord : if st = .plus then a.2 ≤ b.1 else b.2 ≤ a.1)
    (dx dy : List Char) (px py : Option Strand)
    (hx : expectExtract P alph (.single a st) = some dx) (hy : expectExtract P alph (.single b st) = some dy) :
    ∃ m pst, append P ⟨dx, some ⟨px, some (.single a st)⟩⟩ ⟨dy, some ⟨py, some (.single b st)⟩⟩ =
        .ok ⟨dx ++ dy, some ⟨pst, some m⟩⟩ ∧
      m = .compound ⟨sortBlocks st [a, b], st⟩ ∧
      ans (extract P alph m) = some (dx ++ dy) := by
  have hla : 0 < a.len := by simp [Blk.len]; omega
  have hlb : 0 < b.len := by simp [Blk.len]; omega
  have hdis : a.2 ≤ b.1 ∨ b.2 ≤ a.1 := by
    rcases hd with rfl | rfl
    · left; simpa using hord
    · right; simpa using hord
  have hu := union_singles P a b st ha hb hdis
  have hlen2 : 0 < blocksLen (sortBlocks st [a, b]) := by
    rw [blocksLen_perm (sortBlocks_perm st [a, b])]; simp [blocksLen, Blk.len]; omega
  refine ⟨.compound ⟨sortBlocks st [a, b], st⟩, some st, ?_, rfl, ?_⟩
  · unfold append
    simp only [parStrand, hla, hlb, if_true, locStrand, truthy, decide_true, and_self, locStartEnd, locStart, locEnd, hu,
      resetLocation, locLen, Loc.len, hlen2, bind, Except.bind, pure, Except.pure]
    rcases hd with rfl | rfl
    · have : ¬ (a.2 > b.1) := by have := hord; simp at this; omega
      simp [this]
    · have : ¬ (a.1 < b.2) := by have := hord; simp at this; omega
      simp [this]
  · have hWF : WF (.compound ⟨sortBlocks st [a, b], st⟩) :=
      canon_sortBlocks st (by simp) (by intro x hx; simp at hx; rcases hx with rfl | rfl <;> omega)
    have hW : Within P (.compound ⟨sortBlocks st [a, b], st⟩) := by
      intro x hx
      have := (sortBlocks_perm st [a, b]).mem_iff.1 hx
      simp at this; rcases this with rfl | rfl <;> assumption
    rw [extract_eq P alph hnt _ hWF hW]
    have hdir : st.isDirectional = true := by rcases hd with rfl | rfl <;> rfl
    have hne : st ≠ .unstranded := by rcases hd with rfl | rfl <;> simp
    rw [expectExtract_readAt P alph (.single a st) ⟨[a], st⟩ rfl hdir] at hx
    rw [expectExtract_readAt P alph (.single b st) ⟨[b], st⟩ rfl hdir] at hy
    rw [expectExtract_readAt P alph _ ⟨sortBlocks st [a, b], st⟩ rfl hdir]
    rcases hd with rfl | rfl
    · have h1 : a.1 < b.1 := by have := hord; simp at this; omega
      rw [sort_two_plus a b h1]
      simp only [bases, basesPlus, List.append_nil] at hx hy ⊢
      rw [readAt_append, hx, hy]; rfl
    · have h1 : b.1 < a.1 := by have := hord; simp at this; omega
      rw [sort_two_minus a b h1]
      simp only [bases, List.reverse_cons, List.reverse_nil, List.nil_append, List.cons_append, basesMinus,
        List.append_nil] at hx hy ⊢
      rw [readAt_append, hx, hy]; rfl

end BioCantor.Proofs.Sq
