/-
  C12 — T3: on a feature list made of CHAINS (a `gene` record followed by its mRNA/CDS records, or by one
  non-coding transcript record), one chain per locus tag, the position-based grouping and the locus-tag grouping of
  the parser model return the same groups.
-/
import BioCantor.Model.GenbankParse
namespace BioCantor.Proofs.Gb
open BioCantor BioCantor.Spec.Qual BioCantor.Spec.Gb BioCantor.Model.Gb

/-! ### record kinds -/

/-- a record that may follow the `gene` record inside a coding chain -/
def IsCodingMember (r : Rec) : Prop := r.type = tyMRNA ∨ r.type = tyCDS

theorem mrna_facts (r : Rec) (h : r.type = tyMRNA) :
    isGeneT r = false ∧ isTxT r = true ∧ isCdsT r = false ∧ (r.type != tyMRNA) = false ∧
    nonCodingTypes.contains r.type = false := by
  unfold isGeneT isTxT isCdsT
  rw [h]
  decide

theorem cds_facts (r : Rec) (h : r.type = tyCDS) :
    isGeneT r = false ∧ isTxT r = false ∧ isCdsT r = true ∧ nonCodingTypes.contains r.type = false := by
  unfold isGeneT isTxT isCdsT
  rw [h]
  decide

theorem noncoding_facts (r : Rec) (h : nonCodingTypes.contains r.type = true) :
    isGeneT r = false ∧ isTxT r = true ∧ isCdsT r = false ∧ (r.type != tyMRNA) = true := by
  unfold isGeneT isTxT isCdsT
  have hm : r.type ∈ nonCodingTypes := by simpa using h
  simp only [nonCodingTypes, List.mem_cons, List.not_mem_nil, or_false] at hm
  rcases hm with h | h | h | h | h <;> (rw [h]; decide)

/-- the records after the `gene` record of a chain: mRNA / CDS records only, or exactly one non-coding transcript -/
def ChainRest (rest : List Rec) : Prop :=
  (∀ r ∈ rest, IsCodingMember r) ∨ (∃ r, rest = [r] ∧ nonCodingTypes.contains r.type = true)

structure IsChain (ch : List Rec) : Prop where
  ne : ch ≠ []
  head : ∀ g, ch.head? = some g → isGeneT g = true
  rest : ChainRest ch.tail

/-! ### `_group_sorted_features_by_type` on chains -/

/-- mRNA / CDS records are appended to a pending group that holds no non-coding transcript -/
theorem aux_absorb_coding : ∀ (rest more group : List Rec), group ≠ [] →
    (∀ r ∈ rest, IsCodingMember r) → (∀ x ∈ group, nonCodingTypes.contains x.type = false) →
    groupByTypeAux (rest ++ more) group = groupByTypeAux more (group ++ rest)
  | [], more, group, _, _, _ => by simp
  | f :: rest, more, group, hne, hr, hg => by
    have hge : group.isEmpty = false := by cases group <;> simp_all
    have ih := aux_absorb_coding rest more (group ++ [f]) (by simp)
      (fun r hr' => hr r (List.mem_cons_of_mem _ hr'))
    rcases hr f List.mem_cons_self with hf | hf
    · obtain ⟨h1, h2, _, h4, h5⟩ := mrna_facts f hf
      have ih' := ih (by
        intro x hx
        rcases List.mem_append.mp hx with hx | hx
        · exact hg x hx
        · simp only [List.mem_singleton] at hx; rw [hx]; exact h5)
      rw [List.cons_append, groupByTypeAux]
      simp only [hge, Bool.false_eq_true, if_false, h1, h2, if_true, h4]
      rw [ih', List.append_assoc]
      rfl
    · obtain ⟨h1, h2, h3, h5⟩ := cds_facts f hf
      have ih' := ih (by
        intro x hx
        rcases List.mem_append.mp hx with hx | hx
        · exact hg x hx
        · simp only [List.mem_singleton] at hx; rw [hx]; exact h5)
      have hany : group.any (fun x => nonCodingTypes.contains x.type) = false := by
        rw [List.any_eq_false]
        intro x hx
        rw [hg x hx]
        decide
      rw [List.cons_append, groupByTypeAux]
      simp only [hge, Bool.false_eq_true, if_false, h1, h2, h3, if_true, hany]
      rw [ih', List.append_assoc]
      rfl

/-- the records of a chain after its `gene` record are absorbed into the group `[g]` -/
theorem aux_absorb_rest (g : Rec) (hg : isGeneT g = true) (rest more : List Rec) (hrest : ChainRest rest) :
    groupByTypeAux (rest ++ more) [g] = groupByTypeAux more (g :: rest) := by
  have hgn : nonCodingTypes.contains g.type = false := by
    unfold isGeneT at hg
    have : g.type = tyGene := by simpa using hg
    rw [this]; decide
  rcases hrest with hc | ⟨r, rfl, hr⟩
  · have := aux_absorb_coding rest more [g] (by simp) hc (by
      intro x hx; simp only [List.mem_singleton] at hx; rw [hx]; exact hgn)
    simpa using this
  · obtain ⟨h1, h2, _, h4⟩ := noncoding_facts r hr
    show groupByTypeAux (r :: more) [g] = groupByTypeAux more [g, r]
    rw [groupByTypeAux]
    simp [h1, h2, h4, hg]

theorem aux_chains : ∀ (chs : List (List Rec)) (group : List Rec), group ≠ [] → (∀ ch ∈ chs, IsChain ch) →
    groupByTypeAux chs.flatten group = group :: chs
  | [], group, hne, _ => by
    have hge : group.isEmpty = false := by cases group <;> simp_all
    simp [groupByTypeAux, hge]
  | ch :: chs, group, hne, hall => by
    have hge : group.isEmpty = false := by cases group <;> simp_all
    have hc := hall ch List.mem_cons_self
    cases hch : ch with
    | nil => exact absurd hch hc.ne
    | cons g rest =>
      have hg : isGeneT g = true := hc.head g (by rw [hch]; rfl)
      have hrest : ChainRest rest := by have := hc.rest; rw [hch] at this; exact this
      rw [List.flatten_cons, List.cons_append, groupByTypeAux]
      simp only [hge, Bool.false_eq_true, if_false, hg, if_true]
      rw [aux_absorb_rest g hg rest chs.flatten hrest,
        aux_chains chs (g :: rest) (by simp) (fun c hc' => hall c (List.mem_cons_of_mem _ hc'))]

/-- **position-based grouping of a list of chains = the chains** -/
theorem groupSortedByType_chains (chs : List (List Rec)) (hall : ∀ ch ∈ chs, IsChain ch) :
    groupSortedByType chs.flatten = chs := by
  unfold groupSortedByType
  cases chs with
  | nil => simp [groupByTypeAux]
  | cons ch chs =>
    have hc := hall ch List.mem_cons_self
    cases hch : ch with
    | nil => exact absurd hch hc.ne
    | cons g rest =>
      have hg : isGeneT g = true := hc.head g (by rw [hch]; rfl)
      have hrest : ChainRest rest := by have := hc.rest; rw [hch] at this; exact this
      rw [List.flatten_cons, List.cons_append, groupByTypeAux]
      simp only [List.isEmpty_nil, if_true, hg]
      rw [aux_absorb_rest g hg rest chs.flatten hrest,
        aux_chains chs (g :: rest) (by simp) (fun c hc' => hall c (List.mem_cons_of_mem _ hc'))]

end BioCantor.Proofs.Gb

namespace BioCantor.Proofs.Gb
open BioCantor BioCantor.Spec.Qual BioCantor.Spec.Gb BioCantor.Model.Gb

/-! ### locus-tag grouping on tagged chains -/

/-- the (tag, record) pairs of a list of tagged chains, in file order -/
def pairsOf (tch : List (Str × List Rec)) : List TRec := tch.flatMap fun p => p.2.map fun r => (p.1, r)

theorem tagPairs_chain (t : Str) : ∀ (ch more : List Rec) (ps : List TRec), (∀ r ∈ ch, Model.Gb.tagOf r = .ok t) →
    tagPairs more = .ok ps → tagPairs (ch ++ more) = .ok (ch.map (fun r => (t, r)) ++ ps)
  | [], _, _, _, hm => by simpa using hm
  | r :: ch, more, ps, hr, hm => by
    have ih := tagPairs_chain t ch more ps (fun x hx => hr x (List.mem_cons_of_mem _ hx)) hm
    rw [List.cons_append, tagPairs]
    simp only [hr r List.mem_cons_self, ih, bind, Except.bind, pure, Except.pure, List.map_cons, List.cons_append]

theorem tagPairs_chains : ∀ (tch : List (Str × List Rec)), (∀ p ∈ tch, ∀ r ∈ p.2, Model.Gb.tagOf r = .ok p.1) →
    tagPairs (tch.map (·.2)).flatten = .ok (pairsOf tch)
  | [], _ => by simp [tagPairs, pairsOf, pure, Except.pure]
  | p :: tch, h => by
    have ih := tagPairs_chains tch (fun q hq => h q (List.mem_cons_of_mem _ hq))
    rw [List.map_cons, List.flatten_cons]
    rw [tagPairs_chain p.1 p.2 _ _ (h p List.mem_cons_self) ih]
    simp [pairsOf]

theorem strLt_irrefl : ∀ (a : Str), strLt a a = false
  | [] => rfl
  | c :: cs => by simp [strLt, strLt_irrefl cs]

theorem strLe_refl (a : Str) : strLe a a = true := by simp [strLe]

theorem strLe_of_strLt (a b : Str) (h : strLt a b = true) : strLe a b = true := by simp [strLe, h]

theorem ne_of_strLt (a b : Str) (h : strLt a b = true) : a ≠ b := by
  intro hab; subst hab; rw [strLt_irrefl] at h; exact absurd h (by simp)

theorem pairwise_const {α} {P : Prop} : ∀ (l : List α), P → l.Pairwise (fun _ _ => P)
  | [], _ => List.Pairwise.nil
  | _ :: l, h => List.Pairwise.cons (fun _ _ => h) (pairwise_const l h)

/-- file order = tag order: the stable sort by tag leaves the list alone -/
theorem sortPairs_chains (tch : List (Str × List Rec))
    (htags : (tch.map (·.1)).Pairwise (fun a b => strLt a b = true)) :
    sortPairsByTag (pairsOf tch) = pairsOf tch := by
  unfold sortPairsByTag
  apply List.mergeSort_of_pairwise
  unfold pairsOf
  rw [List.pairwise_flatMap]
  refine ⟨?_, ?_⟩
  · intro p _
    rw [List.pairwise_map]
    exact pairwise_const p.2 (strLe_refl p.1)
  · rw [List.pairwise_map] at htags
    refine htags.imp ?_
    intro p q hpq x hx y hy
    obtain ⟨_, _, rfl⟩ := List.mem_map.mp hx
    obtain ⟨_, _, rfl⟩ := List.mem_map.mp hy
    exact strLe_of_strLt _ _ hpq

end BioCantor.Proofs.Gb

namespace BioCantor.Proofs.Gb
open BioCantor BioCantor.Spec.Qual BioCantor.Spec.Gb BioCantor.Model.Gb

/-- `itertools.groupby` on a chain of one tag followed by runs that start with another tag -/
theorem groupRuns_chain (t : Str) (ps : List TRec)
    (hhead : ∀ r, (groupRunsRec ps).head? = some r → r.1 ≠ t) :
    ∀ (ch : List Rec), ch ≠ [] → groupRunsRec (ch.map (fun r => (t, r)) ++ ps) = (t, ch) :: groupRunsRec ps
  | [], h => absurd rfl h
  | [r], _ => by
    show groupRunsRec ((t, r) :: ps) = (t, [r]) :: groupRunsRec ps
    rw [groupRunsRec]
    cases hg : groupRunsRec ps with
    | nil => rfl
    | cons run runs =>
      have hne : run.1 ≠ t := hhead run (by rw [hg]; rfl)
      obtain ⟨t', g⟩ := run
      simp only [] at hne ⊢
      rw [if_neg hne]
  | r :: r' :: ch, _ => by
    have ih := groupRuns_chain t ps hhead (r' :: ch) (by simp)
    show groupRunsRec ((t, r) :: ((r' :: ch).map (fun r => (t, r)) ++ ps)) = _
    rw [groupRunsRec, ih]
    simp

theorem groupRuns_chains : ∀ (tch : List (Str × List Rec)), (∀ p ∈ tch, p.2 ≠ []) →
    (tch.map (·.1)).Pairwise (fun a b => strLt a b = true) → groupRunsRec (pairsOf tch) = tch
  | [], _, _ => by simp [pairsOf, groupRunsRec]
  | p :: tch, hne, htags => by
    have htags' : (∀ a' ∈ tch.map (·.1), strLt p.1 a' = true) ∧
        (tch.map (·.1)).Pairwise (fun a b => strLt a b = true) := by
      rw [List.map_cons] at htags
      exact List.pairwise_cons.mp htags
    have ih := groupRuns_chains tch (fun q hq => hne q (List.mem_cons_of_mem _ hq)) htags'.2
    have hsplit : pairsOf (p :: tch) = p.2.map (fun r => (p.1, r)) ++ pairsOf tch := by simp [pairsOf]
    rw [hsplit, groupRuns_chain p.1 (pairsOf tch) ?_ p.2 (hne p List.mem_cons_self), ih]
    intro r hr
    rw [ih] at hr
    cases tch with
    | nil => simp at hr
    | cons q tch' =>
      simp only [List.head?_cons, Option.some.injEq] at hr
      subst hr
      exact (ne_of_strLt _ _ (htags'.1 q.1 (by simp))).symm

/-! ### the per-run loop on a chain -/

def fTx (r : Rec) : Bool := !isGeneT r && isTxT r
def fCds (r : Rec) : Bool := !isGeneT r && !isTxT r && isCdsT r

/-- a record after the `gene` record of a chain is counted as a transcript or as a CDS by both strategies alike -/
def Member (r : Rec) : Prop :=
  (kindOf r = .transcript ∧ fTx r = true ∧ fCds r = false) ∨ (kindOf r = .cds ∧ fTx r = false ∧ fCds r = true)

theorem kindOf_eq (r : Rec) : kindOf r =
    if isGeneT r then .gene else if isTxT r then .transcript else if isCdsT r then .cds else .other := rfl

theorem member_of_coding (r : Rec) (h : IsCodingMember r) : Member r := by
  rcases h with h | h
  · obtain ⟨h1, h2, h3, _, _⟩ := mrna_facts r h
    exact Or.inl ⟨by rw [kindOf_eq, h1, h2]; rfl, by simp [fTx, h1, h2], by simp [fCds, h1, h2]⟩
  · obtain ⟨h1, h2, h3, _⟩ := cds_facts r h
    exact Or.inr ⟨by rw [kindOf_eq, h1, h2, h3]; rfl, by simp [fTx, h1, h2], by simp [fCds, h1, h2, h3]⟩

theorem member_of_noncoding (r : Rec) (h : nonCodingTypes.contains r.type = true) : Member r := by
  obtain ⟨h1, h2, h3, _⟩ := noncoding_facts r h
  exact Or.inl ⟨by rw [kindOf_eq, h1, h2]; rfl, by simp [fTx, h1, h2], by simp [fCds, h1, h2]⟩

theorem members_of_chainRest (rest : List Rec) (h : ChainRest rest) : ∀ r ∈ rest, Member r := by
  rcases h with hc | ⟨r, rfl, hr⟩
  · exact fun r hr => member_of_coding r (hc r hr)
  · intro x hx
    simp only [List.mem_singleton] at hx
    rw [hx]; exact member_of_noncoding r hr

theorem scanRun_members (go : Option Rec) : ∀ (rest ts cs : List Rec), (∀ r ∈ rest, Member r) →
    scanRunRec go ts cs rest = .ok (go, ts ++ rest.filter fTx, cs ++ rest.filter fCds)
  | [], ts, cs, _ => by simp [scanRunRec, pure, Except.pure]
  | r :: rest, ts, cs, h => by
    have hrest : ∀ x ∈ rest, Member x := fun x hx => h x (List.mem_cons_of_mem _ hx)
    rcases h r List.mem_cons_self with ⟨hk, h1, h2⟩ | ⟨hk, h1, h2⟩
    · rw [scanRunRec, hk]
      simp only []
      rw [scanRun_members go rest (ts ++ [r]) cs hrest]
      simp [List.filter_cons, h1, h2]
    · rw [scanRunRec, hk]
      simp only []
      rw [scanRun_members go rest ts (cs ++ [r]) hrest]
      simp [List.filter_cons, h1, h2]

theorem processRun_chain (t : Str) (ch : List Rec) (hc : IsChain ch) :
    processRunRec (t, ch) = .ok (classifyGroup ch) := by
  cases hch : ch with
  | nil => exact absurd hch hc.ne
  | cons g rest =>
    have hg : isGeneT g = true := hc.head g (by rw [hch]; rfl)
    have hrest : ChainRest rest := by have := hc.rest; rw [hch] at this; exact this
    have hmem := members_of_chainRest rest hrest
    have hkg : kindOf g = .gene := by rw [kindOf_eq, hg]; rfl
    unfold processRunRec
    simp only [bind, Except.bind]
    rw [scanRunRec, hkg]
    simp only [Option.isSome_none, Bool.false_eq_true, if_false]
    rw [scanRun_members (some g) rest [] [] hmem]
    simp only [List.nil_append, pure, Except.pure]
    -- the position-based classification of the same chain
    have hnogene : rest.filter isGeneT = [] := by
      rw [List.filter_eq_nil_iff]
      intro r hr
      rcases hmem r hr with ⟨hk, _, _⟩ | ⟨hk, _, _⟩ <;>
        (intro hgr; rw [kindOf_eq, hgr] at hk; simp at hk)
    unfold classifyGroup
    have h1 : (g :: rest).filter isGeneT = [g] := by rw [List.filter_cons, hg]; simp [hnogene]
    have h2 : (g :: rest).filter (fun r => !isGeneT r && isTxT r) = rest.filter fTx := by
      rw [List.filter_cons]; simp [hg]; rfl
    have h3 : (g :: rest).filter (fun r => !isGeneT r && !isTxT r && isCdsT r) = rest.filter fCds := by
      rw [List.filter_cons]; simp [hg]; rfl
    rw [h1, h2, h3]
    rfl

theorem classify_chain_nonempty (ch : List Rec) (hc : IsChain ch) : emptyGroup (classifyGroup ch) = false := by
  cases hch : ch with
  | nil => exact absurd hch hc.ne
  | cons g rest =>
    have hg : isGeneT g = true := hc.head g (by rw [hch]; rfl)
    unfold emptyGroup classifyGroup
    simp [List.filter_cons, hg]

theorem processRuns_chains : ∀ (tch : List (Str × List Rec)), (∀ p ∈ tch, IsChain p.2) →
    processRunsRec tch = .ok (tch.map fun p => classifyGroup p.2)
  | [], _ => by simp [processRunsRec, pure, Except.pure]
  | p :: tch, h => by
    rw [processRunsRec]
    have hp : processRunRec p = .ok (classifyGroup p.2) := processRun_chain p.1 p.2 (h p List.mem_cons_self)
    simp only [bind, Except.bind, hp, processRuns_chains tch (fun q hq => h q (List.mem_cons_of_mem _ hq)),
      pure, Except.pure, List.map_cons, classify_chain_nonempty p.2 (h p List.mem_cons_self),
      Bool.false_eq_true, if_false]

/-- hypotheses of T3 on a list of tagged chains -/
structure TaggedChains (tch : List (Str × List Rec)) : Prop where
  chains : ∀ p ∈ tch, IsChain p.2
  tags : ∀ p ∈ tch, ∀ r ∈ p.2, Model.Gb.tagOf r = .ok p.1
  ascending : (tch.map (·.1)).Pairwise (fun a b => strLt a b = true)

/-- **locus-tag grouping of tagged chains = the chains** -/
theorem groupByLocusTag_chains (tch : List (Str × List Rec)) (h : TaggedChains tch) :
    groupByLocusTagRecs (tch.map (·.2)).flatten = .ok (tch.map fun p => classifyGroup p.2) := by
  unfold groupByLocusTagRecs groupTagOrdered
  simp only [bind, Except.bind, tagPairs_chains tch h.tags, sortPairs_chains tch h.ascending]
  rw [groupRuns_chains tch (fun p hp => (h.chains p hp).ne) h.ascending]
  exact processRuns_chains tch h.chains

/-- **position-based grouping of tagged chains = the chains** -/
theorem groupByPosition_chains (tch : List (Str × List Rec)) (h : TaggedChains tch) :
    groupByPosition (tch.map (·.2)).flatten = tch.map fun p => classifyGroup p.2 := by
  unfold groupByPosition
  rw [groupSortedByType_chains _ (by
    intro ch hch
    obtain ⟨p, hp, rfl⟩ := List.mem_map.mp hch
    exact h.chains p hp)]
  simp

end BioCantor.Proofs.Gb
