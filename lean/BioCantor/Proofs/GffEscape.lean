/-
  C11 / T1 — helper lemmas: percent-escaping with a "good" table is inverted by `Spec.Gff.percentDecode`, leaves no
  structural character, and survives ASCII lower-casing.  "Good" is a decidable check over the TABLE'S OWN ENTRIES
  (so it quantifies over every character, listed or not); it is discharged by `decide` for the two generated tables.
-/
import BioCantor.Model.Gff
import BioCantor.Spec.Gff
namespace BioCantor.Proofs.GffEscape
open BioCantor BioCantor.Spec.Gff BioCantor.Model.Gff

/-! ### table facts -/

/-- one table entry `(c, r)`: `r = %XY`, the two hex digits (also after lower-casing) spell the code of `c`,
    neither digit is reserved or `%`, and `c` itself is not a cased letter -/
def entryOk (reserved : List Char) (e : Char × List Char) : Bool :=
  match e.2 with
  | [p, a, b] =>
    p == '%' &&
    (match hexVal a, hexVal b with
     | some x, some y => Char.ofNat (16 * x + y) == e.1
     | _, _ => false) &&
    (match hexVal a.toLower, hexVal b.toLower with
     | some x, some y => Char.ofNat (16 * x + y) == e.1
     | _, _ => false) &&
    !reserved.contains a && !reserved.contains b && a != '%' && b != '%' &&
    !reserved.contains a.toLower && !reserved.contains b.toLower && a.toLower != '%' && b.toLower != '%' &&
    e.1.toLower == e.1
  | _ => false

/-- the table escapes `%` and every reserved character, and every entry is a correct escape -/
def goodMap (reserved : List Char) (m : List (Char × List Char)) : Bool :=
  m.all (entryOk reserved) && (m.lookup '%').isSome && reserved.all (fun c => (m.lookup c).isSome) &&
  !reserved.contains '%'

theorem lookup_mem {α β} [BEq α] [LawfulBEq α] {m : List (α × β)} {k : α} {v : β}
    (h : m.lookup k = some v) : (k, v) ∈ m := by
  induction m with
  | nil => simp [List.lookup] at h
  | cons e rest ih =>
    obtain ⟨k', v'⟩ := e
    simp only [List.lookup] at h
    split at h
    · rename_i heq
      have : k = k' := by simpa using heq
      simp only [Option.some.injEq] at h
      subst this; subst h
      exact List.mem_cons_self
    · exact List.mem_cons_of_mem _ (ih h)

theorem entry_of_lookup {reserved m c r} (hg : goodMap reserved m = true) (h : m.lookup c = some r) :
    entryOk reserved (c, r) = true := by
  unfold goodMap at hg
  simp only [Bool.and_eq_true, List.all_eq_true] at hg
  exact hg.1.1.1 _ (lookup_mem h)


/-- the facts packed into `entryOk`, as propositions -/
theorem entry_facts {reserved : List Char} {c : Char} {r : List Char} (h : entryOk reserved (c, r) = true) :
    ∃ a b x y x' y', r = ['%', a, b] ∧ hexVal a = some x ∧ hexVal b = some y ∧ Char.ofNat (16 * x + y) = c ∧
      hexVal a.toLower = some x' ∧ hexVal b.toLower = some y' ∧ Char.ofNat (16 * x' + y') = c ∧
      reserved.contains a = false ∧ reserved.contains b = false ∧
      reserved.contains a.toLower = false ∧ reserved.contains b.toLower = false ∧ c.toLower = c := by
  unfold entryOk at h
  split at h
  · rename_i p a b hr
    simp only at hr
    simp only [Bool.and_eq_true] at h
    obtain ⟨⟨⟨⟨⟨⟨⟨⟨⟨⟨⟨hp, h1⟩, h2⟩, ha⟩, hb⟩, _⟩, _⟩, hla⟩, hlb⟩, _⟩, _⟩, hc⟩ := h
    have hp' : p = '%' := by simpa using hp
    split at h1
    · rename_i x y hx hy
      split at h2
      · rename_i x' y' hx' hy'
        refine ⟨a, b, x, y, x', y', ?_, hx, hy, by simpa using h1, hx', hy', by simpa using h2,
          by simpa using ha, by simpa using hb, by simpa using hla, by simpa using hlb, by simpa using hc⟩
        rw [hr, hp']
      · simp at h2
    · simp at h1
  · simp at h

theorem percent_in_map {reserved m} (hg : goodMap reserved m = true) {c : Char} (h : m.lookup c = none) : c ≠ '%' := by
  intro hc
  subst hc
  unfold goodMap at hg
  simp only [Bool.and_eq_true] at hg
  rw [h] at hg
  simp at hg

theorem reserved_in_map {reserved m} (hg : goodMap reserved m = true) {c : Char} (h : m.lookup c = none) :
    reserved.contains c = false := by
  unfold goodMap at hg
  simp only [Bool.and_eq_true, List.all_eq_true] at hg
  cases hc : reserved.contains c with
  | false => rfl
  | true =>
    have hm : c ∈ reserved := by simpa using hc
    have := hg.1.2 c hm
    rw [h] at this
    simp at this

/-! ### `percentDecode` / `percentsOk` on one more character -/

theorem decode_cons_ne {c : Char} (hc : c ≠ '%') (y : Str) : percentDecode (c :: y) = c :: percentDecode y := by
  match y with
  | [] => simp [percentDecode]
  | [d] => simp [percentDecode]
  | d :: e :: r => simp [percentDecode, hc]

theorem decode_escape {a b : Char} {x y : Nat} (ha : hexVal a = some x) (hb : hexVal b = some y) (rest : Str) :
    percentDecode ('%' :: a :: b :: rest) = Char.ofNat (16 * x + y) :: percentDecode rest := by
  simp [percentDecode, ha, hb]

theorem percentsOk_cons_ne {c : Char} (hc : c ≠ '%') (y : Str) : percentsOk (c :: y) = percentsOk y := by
  match y with
  | [] => simp [percentsOk, hc]
  | [d] => simp [percentsOk, hc]
  | d :: e :: r => simp [percentsOk, hc]

theorem percentsOk_escape {a b : Char} (ha : (hexVal a).isSome) (hb : (hexVal b).isSome) (rest : Str) :
    percentsOk ('%' :: a :: b :: rest) = percentsOk rest := by
  simp [percentsOk, ha, hb]

/-! ### the escape is inverted by the decoder -/

theorem reserved_percent {reserved m} (hg : goodMap reserved m = true) : reserved.contains '%' = false := by
  unfold goodMap at hg
  simp only [Bool.and_eq_true] at hg
  simpa using hg.2

theorem decode_escapeWith {reserved m} (hg : goodMap reserved m = true) (s : Str) :
    percentDecode (escapeWith m s) = s := by
  induction s with
  | nil => simp [escapeWith, percentDecode]
  | cons c rest ih =>
    unfold escapeWith
    split
    · rename_i r hl
      obtain ⟨a, b, x, y, _, _, hr, hx, hy, hxy, _⟩ := entry_facts (entry_of_lookup hg hl)
      subst hr
      simp only [List.cons_append, List.nil_append]
      rw [decode_escape hx hy, ih, hxy]
    · rename_i hl
      rw [decode_cons_ne (percent_in_map hg hl), ih]

/-! ### nothing reserved survives, every `%` starts an escape -/

theorem all_escapeWith {reserved m} (hg : goodMap reserved m = true) (s : Str) :
    (escapeWith m s).all (fun c => !reserved.contains c) = true := by
  induction s with
  | nil => simp [escapeWith]
  | cons c rest ih =>
    unfold escapeWith
    split
    · rename_i r hl
      obtain ⟨a, b, x, y, _, _, hr, _, _, _, _, _, _, ha, hb, _⟩ := entry_facts (entry_of_lookup hg hl)
      subst hr
      simp only [List.cons_append, List.nil_append, List.all_cons, ih, Bool.and_true, reserved_percent hg, ha, hb]
      rfl
    · rename_i hl
      simp only [List.all_cons, ih, Bool.and_true, reserved_in_map hg hl]
      rfl

theorem percentsOk_escapeWith {reserved m} (hg : goodMap reserved m = true) (s : Str) :
    percentsOk (escapeWith m s) = true := by
  induction s with
  | nil => simp [escapeWith, percentsOk]
  | cons c rest ih =>
    unfold escapeWith
    split
    · rename_i r hl
      obtain ⟨a, b, x, y, _, _, hr, hx, hy, _⟩ := entry_facts (entry_of_lookup hg hl)
      subst hr
      simp only [List.cons_append, List.nil_append]
      rw [percentsOk_escape (by simp [hx]) (by simp [hy]), ih]
    · rename_i hl
      rw [percentsOk_cons_ne (percent_in_map hg hl), ih]

theorem wellEscaped_escapeWith {reserved m} (hg : goodMap reserved m = true) (s : Str) :
    wellEscaped reserved (escapeWith m s) = true := by
  unfold wellEscaped
  rw [all_escapeWith hg, percentsOk_escapeWith hg]
  rfl

/-! ### lower-casing an escaped key -/

theorem toLower_ne_percent (c : Char) (h : c ≠ '%') : c.toLower ≠ '%' := by
  unfold Char.toLower
  split
  · rename_i hu
    intro heq
    have h2 := congrArg Char.val heq
    simp only at h2
    have h3 : c.val + ('a'.val - 'A'.val) = '%'.val := h2
    have h4 : c.val ≥ 'A'.val := hu.1
    have h5 : c.val ≤ 'Z'.val := hu.2
    have e1 : 'a'.val - 'A'.val = 32 := by decide
    have e2 : '%'.val = 37 := by decide
    have e3 : 'A'.val = 65 := by decide
    have e4 : 'Z'.val = 90 := by decide
    rw [e1, e2] at h3
    rw [e3] at h4
    rw [e4] at h5
    have := UInt32.le_iff_toNat_le.mp h4
    have := UInt32.le_iff_toNat_le.mp h5
    have h6 := congrArg UInt32.toNat h3
    rw [UInt32.toNat_add] at h6
    simp at *
    omega
  · exact h


/-- ASCII lower-casing only produces a character outside `a…z` when it leaves the character alone -/
theorem toLower_eq_nonlower (c d : Char) (hd : ¬ (97 ≤ d.val.toNat ∧ d.val.toNat ≤ 122)) (h : c.toLower = d) :
    c = d := by
  unfold Char.toLower at h
  split at h
  · rename_i hu
    exfalso
    apply hd
    have h2 := congrArg Char.val h
    simp only at h2
    have h3 : c.val + ('a'.val - 'A'.val) = d.val := h2
    have h4 : c.val ≥ 'A'.val := hu.1
    have h5 : c.val ≤ 'Z'.val := hu.2
    have e1 : 'a'.val - 'A'.val = 32 := by decide
    have e3 : 'A'.val = 65 := by decide
    have e4 : 'Z'.val = 90 := by decide
    rw [e1] at h3
    rw [e3] at h4
    rw [e4] at h5
    have := UInt32.le_iff_toNat_le.mp h4
    have := UInt32.le_iff_toNat_le.mp h5
    have h6 := congrArg UInt32.toNat h3
    rw [UInt32.toNat_add] at h6
    simp at *
    omega
  · exact h

/-- the structural characters are not letters: lower-casing cannot create one -/
theorem structural_lower_closed (c : Char) (h : structural.contains c.toLower = true) :
    structural.contains c = true := by
  have hmem : c.toLower ∈ structural := by simpa using h
  have hall : ∀ d : Char, d ∈ structural → ¬ (97 ≤ d.val.toNat ∧ d.val.toNat ≤ 122) := by decide
  have := toLower_eq_nonlower c c.toLower (hall _ hmem) rfl
  rw [← this] at h
  exact h

theorem lower_percent : Char.toLower '%' = '%' := by decide

theorem decode_lower_escapeWith {reserved m} (hg : goodMap reserved m = true) (s : Str) :
    percentDecode ((escapeWith m s).map Char.toLower) = s.map Char.toLower := by
  induction s with
  | nil => simp [escapeWith, percentDecode]
  | cons c rest ih =>
    unfold escapeWith
    split
    · rename_i r hl
      obtain ⟨a, b, _, _, x, y, hr, _, _, _, hx, hy, hxy, _, _, _, _, hc⟩ := entry_facts (entry_of_lookup hg hl)
      subst hr
      simp only [List.cons_append, List.nil_append, List.map_cons, lower_percent]
      rw [decode_escape hx hy, ih, hxy, hc]
    · rename_i hl
      simp only [List.map_cons]
      rw [decode_cons_ne (toLower_ne_percent c (percent_in_map hg hl)), ih]

/-- lower-casing keeps an escaped key well escaped (the hex digits stay hex digits) -/
theorem wellEscaped_lower_escapeWith {reserved m} (hg : goodMap reserved m = true)
    (hres : ∀ c : Char, reserved.contains c.toLower = true → reserved.contains c = true) (s : Str) :
    wellEscaped reserved ((escapeWith m s).map Char.toLower) = true := by
  have key : (((escapeWith m s).map Char.toLower).all (fun c => !reserved.contains c) = true) ∧
      percentsOk ((escapeWith m s).map Char.toLower) = true := by
    induction s with
    | nil => simp [escapeWith, percentsOk]
    | cons c rest ih =>
      unfold escapeWith
      split
      · rename_i r hl
        obtain ⟨a, b, _, _, x, y, hr, _, _, _, hx, hy, _, _, _, ha, hb, _⟩ := entry_facts (entry_of_lookup hg hl)
        subst hr
        simp only [List.cons_append, List.nil_append, List.map_cons, lower_percent]
        refine ⟨?_, ?_⟩
        · simp only [List.all_cons, ih.1, Bool.and_true, reserved_percent hg, ha, hb]
          rfl
        · rw [percentsOk_escape (by simp [hx]) (by simp [hy])]; exact ih.2
      · rename_i hl
        simp only [List.map_cons]
        refine ⟨?_, ?_⟩
        · simp only [List.all_cons, ih.1, Bool.and_true]
          have h0 := reserved_in_map hg hl
          cases hq : reserved.contains c.toLower with
          | false => rfl
          | true => rw [hres c hq] at h0; simp at h0
        · rw [percentsOk_cons_ne (toLower_ne_percent c (percent_in_map hg hl))]; exact ih.2
  unfold wellEscaped
  rw [key.1, key.2]; rfl

/-! ### the two generated tables are good -/

theorem gffEncodingMap_good : goodMap structural Gen.gffEncodingMap = true := by decide
theorem gffEncodingMapWithComma_good : goodMap structuralValue Gen.gffEncodingMapWithComma = true := by decide
/-- the comma table also covers the plain structural set, the plain table also escapes space and `>` -/
theorem gffEncodingMap_good' : goodMap ['\t', '\n', '\r', ';', '=', ' ', '>'] Gen.gffEncodingMap = true := by decide
theorem gffEncodingMapWithComma_good' :
    goodMap ['\t', '\n', '\r', ';', '=', ',', ' ', '>'] Gen.gffEncodingMapWithComma = true := by decide

end BioCantor.Proofs.GffEscape
