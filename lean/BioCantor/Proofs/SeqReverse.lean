/-
  C03-T2: reversing the strand of a location reverse-complements its sequence (non-self-overlapping layouts,
  letters on which complementing is an involution).
-/
import BioCantor.Proofs.SeqExtract
import BioCantor.Proofs.RelInterval
set_option linter.unusedSimpArgs false
namespace BioCantor.Proofs.Sq
open BioCantor BioCantor.Spec BioCantor.Model BioCantor.Spec.Sq BioCantor.Model.Sq BioCantor.Proofs

theorem strandReverse_eq (s : Strand) : Model.strandReverse s = Spec.Tab.strandReverse s := by
  cases s <;> rfl

/-- the model's `reverse_strand()` is the reference re-stranding -/
theorem reverseStrand_eq (l : Location) (h : WF l) (hne : l ≠ .empty) :
    reverseStrand l = .ok (reverseLoc l) := by
  cases l with
  | single b st =>
    simp [reverseStrand, locStrand, resetStrand, reverseLoc, strandReverse_eq, bind, Except.bind, pure, Except.pure]
  | compound c =>
    obtain ⟨bs, st⟩ := c
    have hv : ∀ b ∈ bs, b.1 ≤ b.2 := (blocksValid_iff bs).1 h.2.1
    simp only [reverseStrand, locStrand, resetStrand, mkCompound, reverseLoc, bind, Except.bind, pure, Except.pure,
      mkCompoundLoc_ok _ h.1 hv, strandReverse_eq]
  | empty => exact absurd rfl hne

theorem WF_reverseLoc (l : Location) (h : WF l) : WF (reverseLoc l) := by
  cases l with
  | single b st => exact h
  | compound c =>
    obtain ⟨bs, st⟩ := c
    exact canon_sortBlocks _ h.1 ((blocksValid_iff bs).1 h.2.1)
  | empty => trivial

theorem Within_reverseLoc (P : List Char) (l : Location) (h : Within P l) : Within P (reverseLoc l) := by
  cases l with
  | single b st => exact h
  | compound c =>
    obtain ⟨bs, st⟩ := c
    intro b hb
    exact h b ((sortBlocks_perm _ bs).mem_iff.1 hb)
  | empty => trivial

/-! ### re-sorting a non-overlapping layout for the other strand does not change what is read -/

def nzB (b : Blk) : Bool := decide (b.1 < b.2)

theorem basesPlus_filter_nz (bs : List Blk) : basesPlus (bs.filter nzB) = basesPlus bs := by
  induction bs with
  | nil => rfl
  | cons b bs ih =>
    by_cases hb : b.1 < b.2
    · simp [List.filter, nzB, hb, basesPlus, ih]
    · have h0 : b.2 - b.1 = 0 := by omega
      have : blkAsc b = [] := by unfold blkAsc; rw [h0]; rfl
      simp [List.filter, nzB, hb, basesPlus, ih, this]

theorem basesPlus_sortBlocks (s : Strand) (bs : List Blk) (hv : ∀ b ∈ bs, b.1 ≤ b.2) (hno : nonOverlap bs = true) :
    basesPlus (sortBlocks s bs) = basesPlus bs := by
  rw [← basesPlus_filter_nz (sortBlocks s bs), ← basesPlus_filter_nz bs]
  congr 1
  have hperm : ((sortBlocks s bs).filter nzB).Perm (bs.filter nzB) := (sortBlocks_perm s bs).filter _
  have hs1 : ((sortBlocks s bs).filter nzB).Pairwise (fun a b => blkLe s a b = true) :=
    (sortBlocks_pairwise s bs).filter _
  have hasc : (bs.filter nzB).Pairwise (fun a b => a.2 ≤ b.1) := (nonOverlap_pairwise bs hv hno).filter _
  have hpos : ∀ a ∈ bs.filter nzB, a.1 < a.2 := by
    intro a ha
    have := (List.mem_filter.1 ha).2
    simpa [nzB] using this
  have hs2 : (bs.filter nzB).Pairwise (fun a b => blkLe s a b = true) :=
    fst_lt_blkLe s _ (fst_lt_of_asc _ hasc hpos)
  exact List.Perm.eq_of_pairwise (le := fun a b => blkLe s a b = true)
    (fun a b _ _ => blkLe_antisymm s a b) hs1 hs2 hperm

theorem bases_reverse (bs : List Blk) (st : Strand) (hd : st ≠ .unstranded)
    (hv : ∀ b ∈ bs, b.1 ≤ b.2) (hno : nonOverlap bs = true) :
    bases ⟨sortBlocks (Spec.Tab.strandReverse st) bs, Spec.Tab.strandReverse st⟩ = (bases ⟨bs, st⟩).reverse := by
  rw [bases_mk, bases_mk, basesPlus_sortBlocks _ bs hv hno]
  cases st with
  | plus => simp [Spec.Tab.strandReverse]
  | minus => simp [Spec.Tab.strandReverse]
  | unstranded => exact absurd rfl hd

theorem bases_single_reverse (b : Blk) (st : Strand) (hd : st ≠ .unstranded) :
    bases ⟨[b], Spec.Tab.strandReverse st⟩ = (bases ⟨[b], st⟩).reverse := by
  rw [bases_mk, bases_mk]
  cases st with
  | plus => simp [Spec.Tab.strandReverse]
  | minus => simp [Spec.Tab.strandReverse]
  | unstranded => exact absurd rfl hd

/-! ### involution -/

theorem compOf_involutive (alph : List Char) (c d : Char) (hU : c ≠ 'U') (hu : c ≠ 'u')
    (h : compOf alph c = some d) : compOf alph d = some c := by
  unfold compOf at *
  rw [← Tab.complement_spec] at h ⊢
  exact Tab.complement_involutive alph c d hU hu h

theorem mapOpt_compOf_involutive (alph : List Char) (cs ds : List Char) (hn : noU cs = true)
    (h : mapOpt (compOf alph) cs = some ds) : mapOpt (compOf alph) ds = some cs := by
  induction cs generalizing ds with
  | nil => simp only [mapOpt, Option.some.injEq] at h; subst h; rfl
  | cons c cs ih =>
    simp only [noU, List.all_cons, Bool.and_eq_true, bne_iff_ne, ne_eq] at hn
    simp only [mapOpt] at h
    cases hc : compOf alph c with
    | none => simp [hc] at h
    | some d =>
      cases hr : mapOpt (compOf alph) cs with
      | none => simp [hc, hr] at h
      | some r =>
        simp [hc, hr] at h; subst h
        have h1 := compOf_involutive alph c d hn.1.1 hn.1.2 hc
        have h2 := ih r (by simpa [noU] using hn.2) hr
        simp only [mapOpt, h1, h2]

/-- the law at the level of the reference: reading the reversed base list -/
theorem expect_reverse (P alph : List Char) (bs bs' : List Blk) (st : Strand) (hd : st ≠ .unstranded)
    (hb : bases ⟨bs', Spec.Tab.strandReverse st⟩ = (bases ⟨bs, st⟩).reverse)
    (cs : List Char) (hcs : charsAt P (bases ⟨bs, st⟩) = some cs) (hn : noU cs = true)
    (hc : (compAll alph cs).isSome = true) :
    expectExtractLoc P alph ⟨bs', Spec.Tab.strandReverse st⟩ =
      Spec.Sq.optBind (expectExtractLoc P alph ⟨bs, st⟩) (revcomp alph) := by
  have hrev : charsAt P (bases ⟨bs', Spec.Tab.strandReverse st⟩) = some cs.reverse := by
    rw [hb]; unfold charsAt at *; rw [mapOpt_reverse, hcs]; rfl
  unfold expectExtractLoc readAt
  cases st with
  | unstranded => exact absurd rfl hd
  | plus =>
    simp only [Spec.Tab.strandReverse] at hrev ⊢
    simp only [reduceCtorEq, if_false, if_true, hrev, hcs, Spec.Sq.optBind, revcomp]
  | minus =>
    simp only [Spec.Tab.strandReverse] at hrev ⊢
    simp only [reduceCtorEq, if_false, if_true, hrev, hcs]
    cases hd' : compAll alph cs with
    | none => simp [hd'] at hc
    | some ds =>
      simp only [Spec.Sq.optBind, revcomp]
      rw [compAll_eq] at hd' ⊢
      rw [mapOpt_reverse, mapOpt_compOf_involutive alph cs ds hn hd']; rfl

/-- **C03-T2** -/
theorem revStrand_ok (P alph : List Char) (l : Location) (h : WF l) :
    okRevStrand P alph l (ans (revStrandExtract P alph l)) = true := by
  unfold okRevStrand revStrandExtract
  by_cases hnt : isNt alph = true
  · simp only [hnt, Bool.not_true, Bool.false_eq_true, if_false]
    cases hl : toLoc l with
    | none =>
      cases l with
      | empty => rfl
      | single b st => simp [toLoc] at hl
      | compound c => simp [toLoc] at hl
    | some loc =>
      simp only
      by_cases hw : within P loc = true
      · have hW := (within_of_Within P l loc hl).1 hw
        have hne : l ≠ .empty := by intro he; subst he; simp [toLoc] at hl
        simp only [hw, Bool.not_true, Bool.false_eq_true, if_false, Bool.and_eq_true]
        rw [reverseStrand_eq l h hne]
        simp only [bind, Except.bind]
        rw [extract_eq P alph hnt _ (WF_reverseLoc l h) (Within_reverseLoc P l hW)]
        refine ⟨by simp, ?_⟩
        by_cases hg : (nonOverlap loc.blocks = true ∧ loc.strand.isDirectional = true) ∧
              involutiveLetters P alph loc = true
        · rw [if_pos hg]
          obtain ⟨⟨hno, hdir⟩, hchars⟩ := hg
          unfold involutiveLetters at hchars
          have hd : loc.strand ≠ .unstranded := by
            intro hu; rw [hu] at hdir; simp [Strand.isDirectional] at hdir
          cases hcs : charsAt P (bases loc) with
          | none => simp [hcs] at hchars
          | some cs =>
            simp only [hcs, Bool.and_eq_true] at hchars
            cases l with
            | empty => exact absurd rfl hne
            | single b st =>
              simp only [toLoc, Option.some.injEq] at hl; subst hl
              simp only [reverseLoc, expectExtract]
              rw [expect_reverse P alph [b] [b] st hd (bases_single_reverse b st hd) cs hcs hchars.1 hchars.2]
              simp
            | compound c =>
              simp only [toLoc, Option.some.injEq] at hl; subst hl
              obtain ⟨bs, st⟩ := c
              simp only [reverseLoc, expectExtract]
              have hv : ∀ b ∈ bs, b.1 ≤ b.2 := (blocksValid_iff bs).1 h.2.1
              rw [expect_reverse P alph bs _ st hd (bases_reverse bs st hd hv hno) cs hcs hchars.1 hchars.2]
              simp
        · rw [if_neg hg]
      · simp [hw]
  · simp [hnt]

end BioCantor.Proofs.Sq
