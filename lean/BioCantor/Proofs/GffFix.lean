/-
  C11 / T5 (corollary) — qualifier inheritance is invisible to the export: replacing every transcript's qualifiers
  by "own + the gene's" (what a reader of the file hands back, since every child row carries the gene's qualifiers)
  leaves `expected` unchanged.  With `decode_eq` this makes the second export decode to the same structure as the
  first: a fixed point at the level of the decoded file.
-/
import BioCantor.Proofs.GffFull
namespace BioCantor.Proofs.GffFix
open BioCantor BioCantor.Model.Gff BioCantor.Proofs.GffRows BioCantor.Proofs.GffCanon BioCantor.Proofs.GffAttrEq
open BioCantor.Proofs.GffQuals BioCantor.Proofs.GffFull BioCantor.Proofs.GffIds
open BioCantor.Spec.Gff (Str Quals SCds STx SGene SChild SColl expectAttrs allGuids)

def inheritTx (g : SGene) (t : STx) : STx := { t with quals := t.quals ++ g.quals }
def inheritGene (g : SGene) : SGene := { g with txs := g.txs.map (inheritTx g) }
def inheritChild : SChild → SChild
  | .gene g => .gene (inheritGene g)
  | .fc f => .fc f
/-- every transcript additionally carries its gene's qualifiers -/
def inheritQuals (c : SColl) : SColl := { c with children := c.children.map inheritChild }

theorem geneQuals_inherit (g : SGene) : Spec.Gff.geneQuals (inheritGene g) = Spec.Gff.geneQuals g := rfl

theorem txQuals_inherit_rel (g : SGene) (t : STx) (k v : Str) :
    BRel (Spec.Gff.txQuals (inheritGene g) (inheritTx g t)) k v ↔ BRel (Spec.Gff.txQuals g t) k v := by
  unfold Spec.Gff.txQuals
  rw [geneQuals_inherit]
  simp only [inheritTx, brel_append]
  have hsub : BRel g.quals k v → BRel (Spec.Gff.geneQuals g) k v := by
    intro h
    unfold Spec.Gff.geneQuals
    simp only [brel_append]
    exact Or.inl (Or.inl (Or.inl (Or.inl h)))
  constructor
  · rintro ((((((h | h) | h) | h) | h) | h) | h)
    · exact Or.inl (Or.inl (Or.inl (Or.inl (Or.inl h))))
    · exact Or.inl (Or.inl (Or.inl (Or.inl (Or.inr (hsub h)))))
    · exact Or.inl (Or.inl (Or.inl (Or.inl (Or.inr h))))
    · exact Or.inl (Or.inl (Or.inl (Or.inr h)))
    · exact Or.inl (Or.inl (Or.inr h))
    · exact Or.inl (Or.inr h)
    · exact Or.inr h
  · rintro (((((h | h) | h) | h) | h) | h)
    · exact Or.inl (Or.inl (Or.inl (Or.inl (Or.inl (Or.inl h)))))
    · exact Or.inl (Or.inl (Or.inl (Or.inl (Or.inr h))))
    · exact Or.inl (Or.inl (Or.inl (Or.inr h)))
    · exact Or.inl (Or.inl (Or.inr h))
    · exact Or.inl (Or.inr h)
    · exact Or.inr h

theorem expectTx_inherit (g : SGene) (t : STx) :
    Spec.Gff.expectTx (inheritGene g) (inheritTx g t) = Spec.Gff.expectTx g t := by
  have h1 : expectAttrs (Spec.Gff.txQuals (inheritGene g) (inheritTx g t)) = expectAttrs (Spec.Gff.txQuals g t) :=
    expectAttrs_congr (txQuals_inherit_rel g t)
  have h2 : expectAttrs (Spec.Gff.cdsQuals (inheritGene g) (inheritTx g t)) = expectAttrs (Spec.Gff.cdsQuals g t) := by
    apply expectAttrs_congr
    intro k v
    unfold Spec.Gff.cdsQuals
    simp only [brel_append, txQuals_inherit_rel]
    rfl
  unfold Spec.Gff.expectTx
  rw [h1, h2]
  rfl

theorem expectGene_inherit (g : SGene) : Spec.Gff.expectGene (inheritGene g) = Spec.Gff.expectGene g := by
  unfold Spec.Gff.expectGene
  rw [geneQuals_inherit]
  have hspan : (inheritGene g).txs.map (fun t => Spec.Gff.spanOf t.exons) = g.txs.map (fun t => Spec.Gff.spanOf t.exons) := by
    simp [inheritGene, inheritTx, List.map_map, Function.comp]
  rw [hspan]
  have hs : Spec.Gff.sortBy (fun a b : STx => decide ((Spec.Gff.spanOf a.exons).1 ≤ (Spec.Gff.spanOf b.exons).1))
      (inheritGene g).txs =
      (Spec.Gff.sortBy (fun a b : STx => decide ((Spec.Gff.spanOf a.exons).1 ≤ (Spec.Gff.spanOf b.exons).1)) g.txs).map
        (inheritTx g) := by
    show Spec.Gff.sortBy _ (g.txs.map (inheritTx g)) = _
    exact GffSort.sortBy_map (inheritTx g) _ _ g.txs (fun a _ b _ => rfl)
  rw [hs, List.map_map]
  have : (Spec.Gff.expectTx (inheritGene g) ∘ inheritTx g) = Spec.Gff.expectTx g := by
    funext t; exact expectTx_inherit g t
  rw [this]
  rfl

/-- inheritance does not change what the file must decode to -/
theorem expected_inherit (c : SColl) : Spec.Gff.expected (inheritQuals c) = Spec.Gff.expected c := by
  unfold Spec.Gff.expected
  simp only
  have hcs : ∀ x : SChild, Spec.Gff.childStart (inheritChild x) = Spec.Gff.childStart x := by
    intro x
    cases x with
    | fc f => rfl
    | gene g =>
      simp only [inheritChild, Spec.Gff.childStart, inheritGene, List.map_map]
      rfl
  have hs : Spec.Gff.sortBy (fun a b => decide (Spec.Gff.childStart a ≤ Spec.Gff.childStart b)) (inheritQuals c).children =
      (Spec.Gff.sortBy (fun a b => decide (Spec.Gff.childStart a ≤ Spec.Gff.childStart b)) c.children).map inheritChild := by
    show Spec.Gff.sortBy _ (c.children.map inheritChild) = _
    exact GffSort.sortBy_map inheritChild _ _ c.children (fun a _ b _ => by rw [hcs, hcs])
  rw [hs, List.filterMap_map, List.filterMap_map]
  congr 1
  · congr 1
    funext x
    cases x with
    | fc f => rfl
    | gene g => simp only [Function.comp, inheritChild, expectGene_inherit]
  · congr 1
    funext x
    cases x <;> rfl

end BioCantor.Proofs.GffFix
