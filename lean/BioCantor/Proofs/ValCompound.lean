/- C19 proofs, part 2: CompoundInterval.__init__ (raw integer coordinates). -/
import BioCantor.Proofs.ValBasics
set_option linter.unusedSimpArgs false
namespace BioCantor.Proofs.Val
open BioCantor BioCantor.Model BioCantor.Model.Validate
open BioCantor.Spec.Validate (Out)

/-! ### the sort -/

theorem iblkLe_eq_keyLe (s : Strand) (a b : IBlk) : iblkLe s a b = Spec.Validate.keyLe s a b := by
  cases s <;> simp [iblkLe, Spec.Validate.keyLe]

theorem iblkLe_trans (s : Strand) (a b c : IBlk) : iblkLe s a b = true → iblkLe s b c = true → iblkLe s a c = true := by
  cases s <;> simp [iblkLe] <;> omega

theorem iblkLe_total (s : Strand) (a b : IBlk) : (iblkLe s a b || iblkLe s b a) = true := by
  cases s <;> simp [iblkLe] <;> omega

theorem sortBlocksI_perm (s : Strand) (bs : List IBlk) : (sortBlocksI s bs).Perm bs := List.mergeSort_perm _ _

theorem sortBlocksI_pairwise (s : Strand) (bs : List IBlk) :
    (sortBlocksI s bs).Pairwise (fun a b => iblkLe s a b = true) :=
  List.pairwise_mergeSort (iblkLe_trans s) (iblkLe_total s) bs

theorem sortedI_of_pairwise (s : Strand) : ∀ (l : List IBlk), l.Pairwise (fun a b => iblkLe s a b = true) →
    Spec.Validate.sortedI s l = true
  | [], _ => rfl
  | [_], _ => rfl
  | a :: b :: rest, h => by
      have h' := List.pairwise_cons.mp h
      simp only [Spec.Validate.sortedI, Bool.and_eq_true]
      exact ⟨by rw [← iblkLe_eq_keyLe]; exact h'.1 b (by simp), sortedI_of_pairwise s (b :: rest) h'.2⟩

theorem all_perm {α} {l₁ l₂ : List α} (p : l₁.Perm l₂) (f : α → Bool) : l₁.all f = l₂.all f := by
  rw [Bool.eq_iff_iff, List.all_eq_true, List.all_eq_true]
  exact ⟨fun h x hx => h x (p.mem_iff.mpr hx), fun h x hx => h x (p.mem_iff.mp hx)⟩

/-! ### largest end -/

theorem maxEndI_le_iff : ∀ (l : List IBlk) (n : Int), l ≠ [] → (maxEndI l ≤ n ↔ ∀ b ∈ l, b.2 ≤ n)
  | [b], n, _ => by simp [maxEndI]
  | b :: c :: rest, n, _ => by
      have ih := maxEndI_le_iff (c :: rest) n (by simp)
      simp only [maxEndI, List.forall_mem_cons] at ih ⊢
      rw [Int.max_le, ih]

theorem maxEndI_eq_spec (l : List IBlk) : maxEndI l = Spec.Validate.maxEndI l := by
  induction l with
  | nil => rfl
  | cons b t ih => cases t with
    | nil => rfl
    | cons c r => simp only [maxEndI, Spec.Validate.maxEndI] at ih ⊢; rw [ih]

/-! ### compoundCore -/

def lensOk (starts ends : List Int) : Prop := starts.length = ends.length ∧ 0 < starts.length

instance (starts ends : List Int) : Decidable (lensOk starts ends) := by unfold lensOk; infer_instance

theorem compoundCore_eq (starts ends : List Int) (st : Strand) :
    compoundCore starts ends st =
      if ¬ lensOk starts ends then raise .Location
      else if (starts.zip ends).all (fun b => decide (0 ≤ b.1) && decide (b.1 ≤ b.2)) then
        pure (sortBlocksI st (starts.zip ends))
      else raise .InvalidPosition := by
  unfold compoundCore lensOk
  by_cases h : starts.length = ends.length ∧ 0 < starts.length
  · simp only [h, not_true_eq_false, ite_false]
    rw [all_perm (sortBlocksI_perm st (starts.zip ends))]
  · simp [h]

theorem zip_ne_nil {starts ends : List Int} (h : lensOk starts ends) : starts.zip ends ≠ [] := by
  obtain ⟨h1, h2⟩ := h
  cases starts with
  | nil => simp at h2
  | cons a t => cases ends with
    | nil => simp at h1
    | cons b u => simp

/-- the as-coded acceptance condition -/
def acceptedCompound (starts ends : List Int) (plen : Option Nat) : Prop :=
  lensOk starts ends ∧ (∀ b ∈ starts.zip ends, 0 ≤ b.1 ∧ b.1 ≤ b.2) ∧
    (match plen with | none => True | some n => ∀ b ∈ starts.zip ends, b.2 ≤ (n : Int))

theorem mkCompoundRaw_unfold (starts ends : List Int) (st : Strand) (plen : Option Nat) :
    mkCompoundRaw starts ends st plen =
      if ¬ lensOk starts ends then raise .Location
      else match plen with
        | none => compoundCore starts ends st
        | some n => (compoundCore starts ends st).bind fun inner =>
            if maxEndI inner > (n : Int) then raise .InvalidPosition else compoundCore starts ends st := rfl

/-- exact characterisation of the constructor, for ALL inputs -/
theorem mkCompoundRaw_eq (starts ends : List Int) (st : Strand) (plen : Option Nat) :
    (acceptedCompound starts ends plen → mkCompoundRaw starts ends st plen = .ok (sortBlocksI st (starts.zip ends))) ∧
    (¬ acceptedCompound starts ends plen → ∃ k, mkCompoundRaw starts ends st plen = .error (.doc k)) := by
  rw [mkCompoundRaw_unfold]
  unfold acceptedCompound
  by_cases hl : lensOk starts ends
  · rw [if_neg (not_not_intro hl)]
    by_cases hv : (starts.zip ends).all (fun b => decide (0 ≤ b.1) && decide (b.1 ≤ b.2)) = true
    · have hv' : ∀ b ∈ starts.zip ends, 0 ≤ b.1 ∧ b.1 ≤ b.2 := by simpa using hv
      have hc : compoundCore starts ends st = .ok (sortBlocksI st (starts.zip ends)) := by
        rw [compoundCore_eq, if_neg (not_not_intro hl), if_pos hv]; rfl
      cases plen with
      | none => exact ⟨fun _ => hc, fun h => absurd ⟨hl, hv', trivial⟩ h⟩
      | some n =>
          have hne : sortBlocksI st (starts.zip ends) ≠ [] := by
            intro h0
            have := (sortBlocksI_perm st (starts.zip ends)).length_eq
            rw [h0] at this
            exact zip_ne_nil hl (List.length_eq_zero_iff.mp this.symm)
          have hmax := maxEndI_le_iff (sortBlocksI st (starts.zip ends)) n hne
          have hmem : (∀ b ∈ sortBlocksI st (starts.zip ends), b.2 ≤ (n : Int)) ↔ ∀ b ∈ starts.zip ends, b.2 ≤ (n : Int) :=
            ⟨fun h b hb => h b ((sortBlocksI_perm st _).mem_iff.mpr hb), fun h b hb => h b ((sortBlocksI_perm st _).mem_iff.mp hb)⟩
          simp only [hc, Except.bind]
          by_cases hm : maxEndI (sortBlocksI st (starts.zip ends)) > (n : Int)
          · have hnot : ¬ ∀ b ∈ starts.zip ends, b.2 ≤ (n : Int) := by
              intro h; have := hmax.mpr (hmem.mpr h); omega
            rw [if_pos hm]
            exact ⟨fun h => absurd h.2.2 hnot, fun _ => ⟨_, rfl⟩⟩
          · have hall : ∀ b ∈ starts.zip ends, b.2 ≤ (n : Int) := hmem.mp (hmax.mp (by omega))
            rw [if_neg hm]
            exact ⟨fun _ => rfl, fun h => absurd ⟨hl, hv', hall⟩ h⟩
    · have hv' : ¬ ∀ b ∈ starts.zip ends, 0 ≤ b.1 ∧ b.1 ≤ b.2 := by simpa using hv
      have hc : compoundCore starts ends st = raise .InvalidPosition := by
        rw [compoundCore_eq, if_neg (not_not_intro hl), if_neg hv]
      refine ⟨fun h => absurd h.2.1 hv', fun _ => ?_⟩
      cases plen <;> simp only [hc, Except.bind, raise] <;> exact ⟨_, rfl⟩
  · rw [if_pos hl]
    exact ⟨fun h => absurd h.1 hl, fun _ => ⟨_, rfl⟩⟩

theorem mkCompoundRaw_noInternal (starts ends : List Int) (st : Strand) (plen : Option Nat) :
    NoInternal (mkCompoundRaw starts ends st plen) := by
  intro c h
  obtain ⟨h1, h2⟩ := mkCompoundRaw_eq starts ends st plen
  by_cases ha : acceptedCompound starts ends plen
  · rw [h1 ha] at h; cases h
  · obtain ⟨k, hk⟩ := h2 ha; rw [hk] at h; cases h

/-! ### the specification -/

theorem validCompound_iff (starts ends : List Int) (plen : Option Nat) :
    Spec.Validate.validCompound starts ends plen = true ↔ acceptedCompound starts ends plen := by
  unfold Spec.Validate.validCompound acceptedCompound lensOk Spec.Validate.withinParent Spec.Validate.blockOk
  cases plen <;> simp only [Bool.and_eq_true, beq_iff_eq, decide_eq_true_eq, List.all_eq_true] <;>
    constructor <;> intro h
  · exact ⟨⟨h.1.1.1, h.1.1.2⟩, h.1.2, trivial⟩
  · exact ⟨⟨⟨h.1.1, h.1.2⟩, h.2.1⟩, trivial⟩
  · exact ⟨⟨h.1.1.1, h.1.1.2⟩, h.1.2, h.2⟩
  · exact ⟨⟨⟨h.1.1, h.1.2⟩, h.2.1⟩, h.2.2⟩

/-- `CompoundInterval.__init__` meets the specification for ALL `starts ends st plen` (negative starts are refused
    since 0fcdb58; before that repair this held only for non-negative starts: F-C19g). -/
theorem mkCompoundRaw_spec (starts ends : List Int) (st : Strand) (plen : Option Nat) :
    Spec.Validate.okMkCompound starts ends st plen (outOf id (mkCompoundRaw starts ends st plen)) = true := by
  have hv := validCompound_iff starts ends plen
  obtain ⟨hacc, hrej⟩ := mkCompoundRaw_eq starts ends st plen
  by_cases ha : acceptedCompound starts ends plen
  · rw [hacc ha]
    have hvt := hv.mpr ha
    simp only [outOf, id, Spec.Validate.okMkCompound, hvt, Bool.true_and]
    unfold Spec.Validate.wfCompound
    have hperm := sortBlocksI_perm st (starts.zip ends)
    have hne : sortBlocksI st (starts.zip ends) ≠ [] := by
      intro h0
      have := hperm.length_eq
      rw [h0] at this
      exact zip_ne_nil ha.1 (List.length_eq_zero_iff.mp this.symm)
    have h1 : (sortBlocksI st (starts.zip ends)).isEmpty = false := by simpa using hne
    have h2 : (sortBlocksI st (starts.zip ends)).all Spec.Validate.blockOk = true := by
      rw [all_perm hperm]
      simp only [List.all_eq_true, Spec.Validate.blockOk, Bool.and_eq_true, decide_eq_true_eq]
      exact ha.2.1
    have h3 := sortedI_of_pairwise st _ (sortBlocksI_pairwise st (starts.zip ends))
    have h4 : (sortBlocksI st (starts.zip ends)).isPerm (starts.zip ends) = true := List.isPerm_iff.mpr hperm
    have h5 : Spec.Validate.withinParent plen (sortBlocksI st (starts.zip ends)) = true := by
      unfold Spec.Validate.withinParent
      cases plen with
      | none => rfl
      | some n =>
          show ((sortBlocksI st (starts.zip ends)).all fun b => decide (b.2 ≤ (n : Int))) = true
          rw [all_perm hperm]
          simp only [List.all_eq_true, decide_eq_true_eq]
          exact ha.2.2
    simp [h1, h2, h3, h4, h5]
  · obtain ⟨k, hk⟩ := hrej ha
    rw [hk]
    have hvf : Spec.Validate.validCompound starts ends plen = false := by
      rw [Bool.eq_false_iff]; exact fun h => ha (hv.mp h)
    simp [outOf, Spec.Validate.okMkCompound, hvf]

/-- regression fact (F-C19g, repaired by 0fcdb58): `CompoundInterval([-2,5],[3,7],+)` is refused -/
theorem mkCompoundRaw_negative_refused :
    ∃ k, mkCompoundRaw [-2, 5] [3, 7] .plus none = .error (.doc k) :=
  (mkCompoundRaw_eq [-2, 5] [3, 7] .plus none).2 (by
    intro h
    have := h.2.1 (-2, 3) (by decide)
    omega)

end BioCantor.Proofs.Val
