/-
  C05-T5 (multi-exon CDS, window `[lo, hi)` with lo < hi holding at least one kept position, no expand):
  the codon locations returned for the window are the codons of the CDS lying inside the window.
-/
import BioCantor.Proofs.CDSWindow
import BioCantor.Proofs.CDSWindowFilter
namespace BioCantor.Proofs
open BioCantor BioCantor.Model BioCantor.Spec

theorem inWin_eq_inW (lo hi p : Nat) : inWin (lo : Int) (hi : Int) p = inW lo hi p := by
  unfold inWin inW
  have h1 : decide ((lo : Int) ≤ (p : Int)) = decide (lo ≤ p) := by simp
  have h2 : decide ((p : Int) < (hi : Int)) = decide (p < hi) := by simp
  rw [h1, h2]

/-- scanning the restricted location (one block or several) -/
theorem scan_from_toSingle (W : List Blk) (st : Strand) (hst : st = .plus ∨ st = .minus) (hne : W ≠ [])
    (hpos : ∀ b ∈ W, b.1 < b.2) (hp : W.Pairwise (fun a b => a.2 ≤ b.1)) (o : Nat) :
    ∃ ms, (if ((locLen (toSingleIfOne ⟨W, st⟩) : Nat) : Int) - (o : Int) ≥ 3
            then scanWindows3 (toSingleIfOne ⟨W, st⟩) (o : Int) else pure []) = .ok ms ∧
      codonsMatch st (triples ((bases ⟨W, st⟩).drop o)) ms = true := by
  match W, hne with
  | [b], _ => exact scan_from_single b st hst o
  | a :: b :: r, _ =>
    have : toSingleIfOne ⟨a :: b :: r, st⟩ = .compound ⟨a :: b :: r, st⟩ := rfl
    rw [this]
    exact scan_from (a :: b :: r) st hst (fun x hx => Nat.le_of_lt (hpos x hx)) (pairwise_nonOverlap _ hp) o

/-- the restricted reading, on the strand -/
theorem bases_filter (L W : List Blk) (st : Strand) (lo hi : Nat)
    (h : basesPlus W = (basesPlus L).filter (inW lo hi)) :
    bases ⟨W, st⟩ = (bases ⟨L, st⟩).filter (inW lo hi) := by
  rw [bases_mk, bases_mk, h]
  split
  · rw [List.filter_reverse]
  · rfl

/-- the window machinery on a prepared ascending location `L` (cleaned location, or the single exon):
    restricted location, offset, and the scanned codons = the triples of the reading lying inside the window -/
theorem window_core (c : CDS) (L : List Blk) (hst : c.strand = .plus ∨ c.strand = .minus)
    (hL2 : L ≠ []) (hL3 : ∀ b ∈ L, b.1 < b.2) (hL4 : L.Pairwise (fun a b => a.2 ≤ b.1))
    (lo hi : Nat) (hw : lo < hi) (hsome : (bases ⟨L, c.strand⟩).filter (inW lo hi) ≠ []) :
    ∃ (W : List Blk) (o : Nat) (ms : List Location), o < 3 ∧
      intersectWindow ⟨L, c.strand⟩ (lo, hi) = .ok (toSingleIfOne ⟨W, c.strand⟩) ∧
      calculateFrameOffset c (.compound ⟨L, c.strand⟩) (toSingleIfOne ⟨W, c.strand⟩) = .ok (o : Int) ∧
      (if ((locLen (toSingleIfOne ⟨W, c.strand⟩) : Nat) : Int) - (o : Int) ≥ 3
        then scanWindows3 (toSingleIfOne ⟨W, c.strand⟩) (o : Int) else pure []) = .ok ms ∧
      codonsMatch c.strand ((triples (bases ⟨L, c.strand⟩)).filter (fun t => t.all (inW lo hi))) ms = true := by
  generalize hstd : c.strand = st at *
  generalize hKd : bases ⟨L, st⟩ = K at hsome
  have hKpw : K.Pairwise (PosLt st) := by
    rw [← hKd, bases_scanOrder L st hst]
    exact readScan_pairwise st _ (scanOrder_before L st hst hL4)
  have hsplit := split3 st lo hi (Nat.le_of_lt hw) K hKpw
  generalize hBf : K.filter (beforeW st lo hi) = Bf at hsplit
  generalize hIn : K.filter (inW lo hi) = In at hsplit hsome
  generalize hAf : K.filter (afterW st lo hi) = Af at hsplit
  have hplus_ne : (basesPlus L).filter (inW lo hi) ≠ [] := by
    intro h0
    apply hsome
    rw [← hIn, ← hKd, bases_mk]
    split
    · rw [List.filter_reverse, h0]; rfl
    · exact h0
  obtain ⟨W, hW1, hW2, hW3, hW4, hW5⟩ := intersectWindow_ok L st hL3 hL4 lo hi hw hplus_ne
  have hWb : bases ⟨W, st⟩ = In := by rw [bases_filter L W st lo hi hW5, hKd, hIn]
  have hLlen : 0 < blocksLen L := by
    cases L with
    | nil => exact absurd rfl hL2
    | cons a t => have := hL3 a (by simp); simp only [blocksLen, Blk.len]; omega
  have hdis : ∀ x ∈ Bf, x ∉ bases ⟨W, st⟩ := by
    intro x hx hxw
    rw [hWb, ← hIn] at hxw
    rw [← hBf] at hx
    simp only [List.mem_filter] at hx hxw
    have := (class_facts st lo hi (Nat.le_of_lt hw) x).1 hx.2
    rw [this.1] at hxw; simp at hxw
  have hoff := frameOffset_window c L W (by rw [hstd]; exact hst) (fun b hb => Nat.le_of_lt (hL3 b hb)) hLlen
    hW2 hW3 hW4 Bf Af (by rw [hstd, hKd, hWb]; exact hsplit) (by rw [hstd]; exact hdis)
  rw [hstd] at hoff
  generalize hd : Bf.length = d at hoff
  have hoN : (-(d : Int)) % 3 = (((3 - d % 3) % 3 : Nat) : Int) := by omega
  rw [hoN] at hoff
  obtain ⟨ms, hm1, hm2⟩ := scan_from_toSingle W st hst hW2 hW3 hW4 ((3 - d % 3) % 3)
  refine ⟨W, (3 - d % 3) % 3, ms, by omega, hW1, hoff, hm1, ?_⟩
  have hB : ∀ x ∈ Bf, inW lo hi x = false := by
    intro x hx; rw [← hBf] at hx; simp only [List.mem_filter] at hx
    exact ((class_facts st lo hi (Nat.le_of_lt hw) x).1 hx.2).1
  have hI : ∀ x ∈ In, inW lo hi x = true := by
    intro x hx; rw [← hIn] at hx; simp only [List.mem_filter] at hx; exact hx.2
  have hA : ∀ x ∈ Af, inW lo hi x = false := by
    intro x hx; rw [← hAf] at hx; simp only [List.mem_filter] at hx
    have f := class_facts st lo hi (Nat.le_of_lt hw) x
    cases hb : beforeW st lo hi x with
    | true => exact (f.1 hb).1
    | false =>
      cases hi' : inW lo hi x with
      | false => rfl
      | true => have := f.2.1 hi'; rw [hx.2] at this; simp at this
  rw [hsplit, triples_filter_window Bf In Af (inW lo hi) hB hI hA, hd]
  rw [← window_triples (Bf ++ In ++ Af) d In.length]
  have hslice : ((Bf ++ In ++ Af).drop d).take In.length = In := by
    rw [← hd, List.append_assoc, List.drop_left, List.take_left]
  rw [hslice, ← hWb]
  exact hm2

theorem mkWindow_ok (c : CDS) (lo hi : Nat) (hw : lo < hi) (hseq : ∀ s, c.seq = some s → hi ≤ s.length) :
    mkWindow c (lo : Int) (hi : Int) = .ok (lo, hi) := by
  unfold mkWindow
  rw [if_neg (by omega)]
  cases hs : c.seq with
  | none => simp [bind, Except.bind, pure, Except.pure]
  | some sq =>
    have := hseq sq hs
    simp only [bind, Except.bind, pure, Except.pure]
    rw [if_neg (by omega)]
    simp

theorem windowTruthy_pos (lo hi : Nat) (hw : lo < hi) : windowTruthy (some (lo, hi)) = some (lo, hi) := by
  have hne0 : ¬ (hi - lo = 0) := by omega
  simp [windowTruthy, Blk.len, hne0]

theorem spec_window_fun (lo hi : Nat) :
    (fun cod : List Nat => if false = true then cod.any (inWin (lo : Int) (hi : Int))
      else cod.all (inWin (lo : Int) (hi : Int))) = (fun t => t.all (inW lo hi)) := by
  funext cod
  simp only [Bool.false_eq_true, if_false]
  congr 1
  funext p
  exact inWin_eq_inW lo hi p

/-- **C05-T5**, multi-exon CDS -/
theorem windowCodons_multi (c : CDS) (h : WFCDS c) (hmulti : c.loc.blocks.length > 1)
    (hshallow : shallowTrim (exonWalk c.loc (specFrames c)) = true)
    (lo hi : Nat) (hw : lo < hi)
    (hseq : ∀ s, c.seq = some s → hi ≤ s.length)
    (hsome : (cdsKept c.loc (specFrames c)).filter (inW lo hi) ≠ []) :
    okCodons (specOf c) (some ⟨some (lo : Int), some (hi : Int), false⟩)
      (ans (scanChromosomeCodonLocations c (some ⟨some (lo : Int), some (hi : Int), false⟩))) = true := by
  have hkept : cdsKept c.loc (specFrames c) ≠ [] := by
    intro h0; apply hsome; rw [h0]; rfl
  obtain ⟨stt, L, hlens, hrun, hL1, hL2, hL3, hL4, hL5⟩ := prepareMulti_cleaned c h hshallow hkept
  have hcs : c.strand = c.loc.strand := rfl
  obtain ⟨W, o, ms, _, hW1, hoff, hm1, hm2⟩ := window_core c L h.dir hL2 hL3 hL4 lo hi hw
    (by rw [hcs, hL5]; exact hsome)
  rw [hcs] at hW1 hoff hm1 hm2
  have hrun' : (scanChromosomeCodonLocations c (some ⟨some (lo : Int), some (hi : Int), false⟩)) = .ok ms := by
    unfold scanChromosomeCodonLocations convertWindow
    simp only [Option.isNone_some, Bool.false_eq_true, and_self, if_false, mkWindow_ok c lo hi hw hseq, bind,
      Except.bind, pure, Except.pure]
    unfold scanCodonLocations prepare CDS.numBlocks
    rw [if_pos hmulti]
    unfold prepareMulti
    rw [if_neg (by omega)]
    simp only [bind, Except.bind, pure, Except.pure, hrun, hL1, windowTruthy_pos lo hi hw, hW1, hoff]
    exact hm1
  rw [hrun']
  simp only [ans_ok, okCodons, expectCodons, specOf, CDSIn.codons, cdsCodons, Win.lo, Win.hi, windowCodons]
  rw [spec_window_fun, ← hL5]
  exact hm2

/-- **C05-T5**, single-exon CDS with start frame 0 (with a non-zero start frame the pinned code loses codons:
    F-C05a) -/
theorem windowCodons_single (c : CDS) (h : WFCDS c) (e : Blk) (hone : c.loc.blocks = [e])
    (hf : c.frames = [.ZERO]) (lo hi : Nat) (hw : lo < hi)
    (hseq : ∀ s, c.seq = some s → hi ≤ s.length)
    (hsome : (cdsKept c.loc (specFrames c)).filter (inW lo hi) ≠ []) :
    okCodons (specOf c) (some ⟨some (lo : Int), some (hi : Int), false⟩)
      (ans (scanChromosomeCodonLocations c (some ⟨some (lo : Int), some (hi : Int), false⟩))) = true := by
  obtain ⟨f, hf', _, _, hk⟩ := prepareSingle_ok c h e hone
  have hfz : f = .ZERO := by rw [hf] at hf'; simpa using hf'.symm
  subst hfz
  have hk0 : bases c.loc = cdsKept c.loc (specFrames c) := by simpa [CDSFrame.value] using hk
  have hcs : c.strand = c.loc.strand := rfl
  have hloc : c.loc = ⟨[e], c.loc.strand⟩ := by
    rcases hc : c.loc with ⟨bs, st⟩
    rw [hc] at hone; simp only at hone; subst hone; rfl
  have hpos : e.1 < e.2 := h.positive e (by rw [hone]; simp)
  obtain ⟨W, o, ms, ho3, hW1, hoff, hm1, hm2⟩ := window_core c [e] h.dir (by simp)
    (by intro b hb; simp at hb; subst hb; exact hpos) (by simp) lo hi hw
    (by rw [hcs, ← hloc, hk0]; exact hsome)
  rw [hcs, ← hloc] at hW1 hoff hm2
  rw [hcs] at hm1
  have hrun' : (scanChromosomeCodonLocations c (some ⟨some (lo : Int), some (hi : Int), false⟩)) = .ok ms := by
    unfold scanChromosomeCodonLocations convertWindow
    simp only [Option.isNone_some, Bool.false_eq_true, and_self, if_false, mkWindow_ok c lo hi hw hseq, bind,
      Except.bind, pure, Except.pure]
    unfold scanCodonLocations prepare CDS.numBlocks
    have hnm : ¬ (c.loc.blocks.length > 1) := by rw [hone]; simp
    rw [if_neg hnm]
    unfold prepareSingle
    simp only [hf, List.head?_cons, bind, Except.bind, pure, Except.pure, windowTruthy_pos lo hi hw, hW1, hoff,
      CDSFrame.value, Int.zero_add]
    -- robust against the repair of F-C05a (`(offset + d) % 3` in `prepareSingle`)
    have hmod : ((o : Int)) % 3 = (o : Int) := by omega
    first
      | exact hm1
      | (rw [hmod]; exact hm1)
  rw [hrun']
  simp only [ans_ok, okCodons, expectCodons, specOf, CDSIn.codons, cdsCodons, Win.lo, Win.hi, windowCodons]
  rw [spec_window_fun, ← hk0]
  exact hm2

end BioCantor.Proofs
