/- C19 proofs, part 4: initialize_location and CDSInterval.__init__. -/
import BioCantor.Proofs.ValLists
set_option linter.unusedSimpArgs false
namespace BioCantor.Proofs.Val
open BioCantor BioCantor.Model BioCantor.Model.Validate
open BioCantor.Spec.Validate (Out)

/-! ### initialize_location -/

/-- as coded: equal non-zero lengths, every block `0 ≤ start ≤ end` (one block: SingleInterval; more: CompoundInterval,
    which refuses negative starts since 0fcdb58) -/
def acceptedInit (starts ends : List Int) : Prop :=
  lensOk starts ends ∧ (∀ b ∈ starts.zip ends, 0 ≤ b.1 ∧ b.1 ≤ b.2)

theorem initLoc_cases (starts ends : List Int) (st : Strand) :
    (acceptedInit starts ends → ∃ bs, initLoc starts ends st = .ok bs) ∧
    (¬ acceptedInit starts ends → ∃ k, initLoc starts ends st = .error (.doc k)) := by
  unfold acceptedInit
  by_cases hlen : starts.length = ends.length
  · rcases starts with _ | ⟨s, _ | ⟨s2, t⟩⟩ <;> rcases ends with _ | ⟨e, _ | ⟨e2, u⟩⟩ <;>
      simp only [List.length_nil, List.length_cons] at hlen <;> (try omega)
    · -- both empty
      refine ⟨fun h => absurd h.1.2 (by simp), fun _ => ⟨.Location, ?_⟩⟩
      simp [initLoc, mkCompoundRaw, raise]
    · -- one block
      by_cases h : 0 ≤ s ∧ s ≤ e
      · refine ⟨fun _ => ⟨[(s, e)], ?_⟩, fun hn => absurd ⟨⟨rfl, by simp⟩, by simpa using h⟩ hn⟩
        simp [initLoc, mkSingle, h, liftR, bind, Except.bind, pure, Except.pure]
      · refine ⟨fun ha => absurd (by simpa using ha.2) h, fun _ => ⟨.InvalidPosition, ?_⟩⟩
        simp [initLoc, mkSingle, h, liftR, bind, Except.bind, throw, throwThe, MonadExceptOf.throw]
    · -- two or more blocks
      have hinit : initLoc (s :: s2 :: t) (e :: e2 :: u) st = mkCompoundRaw (s :: s2 :: t) (e :: e2 :: u) st none := by
        simp [initLoc, hlen]
      rw [hinit]
      obtain ⟨h1, h2⟩ := mkCompoundRaw_eq (s :: s2 :: t) (e :: e2 :: u) st none
      constructor
      · intro ha; exact ⟨_, h1 ⟨ha.1, ha.2, trivial⟩⟩
      · intro hn; exact h2 (fun hacc => hn ⟨hacc.1, hacc.2.1⟩)
  · refine ⟨fun h => absurd h.1.1 hlen, fun _ => ⟨.Validation, ?_⟩⟩
    simp [initLoc, hlen, raise]

theorem initLoc_noInternal (starts ends : List Int) (st : Strand) : NoInternal (initLoc starts ends st) := by
  intro c h
  obtain ⟨h1, h2⟩ := initLoc_cases starts ends st
  by_cases ha : acceptedInit starts ends
  · obtain ⟨bs, hb⟩ := h1 ha; rw [hb] at h; cases h
  · obtain ⟨k, hk⟩ := h2 ha; rw [hk] at h; cases h

theorem head?_some_of_pos {α} (l : List α) (h : 0 < l.length) : ∃ x, l.head? = some x := by
  cases l with
  | nil => simp at h
  | cons a t => exact ⟨a, rfl⟩

theorem getLast?_some_of_pos {α} (l : List α) (h : 0 < l.length) : ∃ x, l.getLast? = some x := by
  cases l with
  | nil => simp at h
  | cons a t => exact ⟨_, List.getLast?_eq_some_getLast (by simp)⟩

/-! ### CDSInterval.__init__ -/

def mixedFP (fps : List FP) : Bool :=
  match fps with
  | [] => false
  | f0 :: rest => rest.any (fun f => f.isFrame != f0.isFrame)

/-- as coded -/
def acceptedCDS (starts ends : List Int) (fps : List FP) : Prop :=
  acceptedInit starts ends ∧ fps.length = starts.length ∧ sumLens (starts.zip ends) ≠ 0 ∧ mixedFP fps = false

theorem mkCDS_cases (starts ends : List Int) (st : Strand) (fps : List FP) :
    (acceptedCDS starts ends fps → ∃ s0 eN, starts.head? = some s0 ∧ ends.getLast? = some eN ∧
        mkCDS starts ends st fps = .ok ⟨s0, eN, starts.zip ends, fps.map FP.toFrame⟩) ∧
    (¬ acceptedCDS starts ends fps → ∃ k, mkCDS starts ends st fps = .error (.doc k)) := by
  unfold acceptedCDS mkCDS
  obtain ⟨h1, h2⟩ := initLoc_cases starts ends st
  by_cases ha : acceptedInit starts ends
  · obtain ⟨bs, hb⟩ := h1 ha
    obtain ⟨s0, hs0⟩ := head?_some_of_pos starts ha.1.2
    obtain ⟨eN, heN⟩ := getLast?_some_of_pos ends (by have := ha.1.1; have := ha.1.2; omega)
    simp only [hb, hs0, heN, bind, Except.bind]
    by_cases hf : fps.length = starts.length
    · by_cases hz : sumLens (starts.zip ends) = 0
      · refine ⟨fun h => absurd hz h.2.2.1, fun _ => ⟨.InvalidCDSInterval, ?_⟩⟩
        simp [hf, hz, raise]
      · cases fps with
        | nil =>
            have : 0 < starts.length := ha.1.2
            simp at hf; omega
        | cons f0 rest =>
            by_cases hm : (rest.any fun f => f.isFrame != f0.isFrame) = true
            · refine ⟨fun h => ?_, fun _ => ⟨.MismatchedFrame, ?_⟩⟩
              · have := h.2.2.2; simp [mixedFP, hm] at this
              · simp [hf, hz, hm, raise]
            · refine ⟨fun _ => ⟨s0, eN, rfl, rfl, ?_⟩, fun hn => absurd ⟨ha, hf, hz, by simpa [mixedFP] using hm⟩ hn⟩
              simp [hf, hz, hm, pure, Except.pure]
    · refine ⟨fun h => absurd h.2.1 hf, fun _ => ⟨.MismatchedFrame, ?_⟩⟩
      simp [hf, raise]
  · obtain ⟨k, hk⟩ := h2 ha
    refine ⟨fun h => absurd h.1 ha, fun _ => ⟨k, ?_⟩⟩
    simp [hk, bind, Except.bind]

theorem mkCDS_noInternal (starts ends : List Int) (st : Strand) (fps : List FP) : NoInternal (mkCDS starts ends st fps) := by
  intro c h
  obtain ⟨h1, h2⟩ := mkCDS_cases starts ends st fps
  by_cases ha : acceptedCDS starts ends fps
  · obtain ⟨_, _, _, _, hb⟩ := h1 ha; rw [hb] at h; cases h
  · obtain ⟨k, hk⟩ := h2 ha; rw [hk] at h; cases h

/-! ### the CDS specification -/

def fpv : FP → Spec.Validate.FPv
  | .frame f => (true, f.value)
  | .phase p => (false, p.value)

def projCDS (o : CDSOut) : Int × Int × List Int := (o.start, o.endp, o.frames.map CDSFrame.value)

theorem fpv_fst (f : FP) : (fpv f).1 = f.isFrame := by cases f <;> rfl

theorem frameOf_fpv (f : FP) : Spec.Validate.frameOf (fpv f) = (FP.toFrame f).value := by
  cases f with
  | frame v => cases v <;> rfl
  | phase v => cases v <;> rfl

theorem sumLens_eq_totalLen (l : List IBlk) : sumLens l = Spec.Validate.totalLen l := by
  induction l with
  | nil => rfl
  | cons b t ih => simp only [sumLens, Spec.Validate.totalLen, ih]

theorem totalLen_nonneg (l : List IBlk) (h : ∀ b ∈ l, b.1 ≤ b.2) : 0 ≤ Spec.Validate.totalLen l := by
  induction l with
  | nil => simp [Spec.Validate.totalLen]
  | cons b t ih =>
      have := h b (by simp)
      have := ih (fun x hx => h x (List.mem_cons_of_mem _ hx))
      simp only [Spec.Validate.totalLen]; omega

theorem validBlocks_iff (starts ends : List Int) :
    Spec.Validate.validBlocks starts ends = true ↔ acceptedInit starts ends := by
  unfold Spec.Validate.validBlocks acceptedInit lensOk Spec.Validate.blockOk
  simp only [Bool.and_eq_true, beq_iff_eq, decide_eq_true_eq, List.all_eq_true, and_assoc]

theorem mixed_cons (f0 : FP) (rest : List FP) :
    ((rest.map fpv).all (fun g => g.1 == (fpv f0).1)) = !mixedFP (f0 :: rest) := by
  simp only [mixedFP, List.all_map]
  rw [Bool.eq_iff_iff]
  simp [List.all_eq_true, List.any_eq_true, fpv_fst]

theorem validCDS_iff (starts ends : List Int) (fps : List FP) :
    Spec.Validate.validCDS starts ends (fps.map fpv) = true ↔ acceptedCDS starts ends fps := by
  have key : Spec.Validate.validCDS starts ends (fps.map fpv) =
      (Spec.Validate.validBlocks starts ends && (fps.map fpv).length == starts.length &&
        decide (0 < Spec.Validate.totalLen (starts.zip ends)) && !mixedFP fps) := by
    cases fps with
    | nil => simp [Spec.Validate.validCDS, mixedFP]
    | cons f0 rest =>
        have := mixed_cons f0 rest
        simp only [Spec.Validate.validCDS, List.map_cons, this]
  rw [key]
  unfold acceptedCDS
  simp only [Bool.and_eq_true, beq_iff_eq, decide_eq_true_eq, List.length_map, Bool.not_eq_true']
  rw [validBlocks_iff starts ends, sumLens_eq_totalLen]
  constructor
  · intro h; exact ⟨h.1.1.1, h.1.1.2, by omega, h.2⟩
  · intro h
    have := totalLen_nonneg (starts.zip ends) (fun b hb => (h.1.2 b hb).2)
    exact ⟨⟨⟨h.1, h.2.1⟩, by have := h.2.2.1; omega⟩, h.2.2.2⟩

/-- first start = smallest start, last end = largest end, for an ascending valid pair of lists -/
theorem bounds_ascending (starts ends : List Int) (s0 eN : Int) (hlen : starts.length = ends.length)
    (hs : starts.head? = some s0) (he : ends.getLast? = some eN)
    (hv : ∀ b ∈ starts.zip ends, b.1 ≤ b.2) (hasc : Spec.Validate.ascending (starts.zip ends) = true) :
    Spec.Validate.minStartI (starts.zip ends) = s0 ∧ Spec.Validate.maxEndI (starts.zip ends) = eN := by
  have hh := zip_head? starts ends hlen
  have hl := zip_getLast? starts ends hlen
  obtain ⟨sN, hsN⟩ := getLast?_some_of_pos starts (by
    cases starts with
    | nil => simp at hs
    | cons a t => simp)
  obtain ⟨e0, he0⟩ := head?_some_of_pos ends (by
    cases ends with
    | nil => simp at he
    | cons a t => simp)
  rw [hs, he0] at hh
  rw [hsN, he] at hl
  cases hz : starts.zip ends with
  | nil => rw [hz] at hh; simp at hh
  | cons a l =>
      rw [hz] at hh hl hv hasc
      simp only [List.head?_cons, Option.some.injEq] at hh
      refine ⟨?_, ?_⟩
      · rw [minStartI_ascending a l hasc hv, hh]
      · rw [maxEndI_ascending (a :: l) (sN, eN) hl hasc hv]

/-- full statement (fails: F-C19i): for ALL `starts ends st fps`.
    Proved for lists given in ascending order (negative starts are refused since 0fcdb58). -/
theorem mkCDS_spec_partial (starts ends : List Int) (st : Strand) (fps : List FP)
    (hasc : Spec.Validate.ascending (starts.zip ends) = true) :
    Spec.Validate.okMkCDS starts ends (fps.map fpv) (outOf projCDS (mkCDS starts ends st fps)) = true := by
  have hv := validCDS_iff starts ends fps
  obtain ⟨h1, h2⟩ := mkCDS_cases starts ends st fps
  by_cases ha : acceptedCDS starts ends fps
  · obtain ⟨s0, eN, hs, he, hb⟩ := h1 ha
    obtain ⟨hmin, hmax⟩ := bounds_ascending starts ends s0 eN ha.1.1.1 hs he (fun b hb => (ha.1.2 b hb).2) hasc
    rw [hb]
    have hfr : List.map CDSFrame.value (List.map FP.toFrame fps) = List.map Spec.Validate.frameOf (List.map fpv fps) := by
      simp only [List.map_map]
      apply List.map_congr_left
      intro f _
      simp [frameOf_fpv]
    simp [outOf, projCDS, Spec.Validate.okMkCDS, hv.mpr ha, hmin, hmax, hfr]
  · obtain ⟨k, hk⟩ := h2 ha
    rw [hk]
    have hvf : Spec.Validate.validCDS starts ends (fps.map fpv) = false := by
      rw [Bool.eq_false_iff]; exact fun h => ha (hv.mp h)
    simp [outOf, Spec.Validate.okMkCDS, hvf]

end BioCantor.Proofs.Val
