/- Shared vocabulary of the proof files: well-formed inputs and the answer projection. -/
import BioCantor.Spec.LocationCheck
import BioCantor.Model.Location
namespace BioCantor.Proofs
open BioCantor

/-- What the constructors establish for a value of each Python location type. -/
def WF : Location → Prop
  | .single b _ => b.1 ≤ b.2
  | .compound l => l.Canon
  | .empty => True

instance (l : Location) : Decidable (WF l) := by
  cases l <;> unfold WF <;> infer_instance

/-- The observable answer of a call: `some v` = returned v, `none` = raised (class dropped). -/
def ans {α} : Except Err α → Option α
  | .ok a => some a
  | .error _ => none

@[simp] theorem ans_ok {α} (a : α) : ans (Except.ok a : Except Err α) = some a := rfl
@[simp] theorem ans_error {α} (e : Err) : ans (Except.error e : Except Err α) = none := rfl
@[simp] theorem ans_pure {α} (a : α) : ans (pure a : Except Err α) = some a := rfl
@[simp] theorem ans_throw {α} (e : Err) : ans (throw e : Except Err α) = none := rfl

end BioCantor.Proofs
