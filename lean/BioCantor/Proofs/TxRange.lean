/-
  C06 list facts: along a strictly monotone list an interval predicate holds exactly on an index range, so
  filtering commutes with `take` / `drop` up to index arithmetic.
-/
import BioCantor.Proofs.TxChunk
set_option linter.unusedSimpArgs false
set_option linter.unusedVariables false
namespace BioCantor.Proofs
open BioCantor BioCantor.Spec

/-- a predicate closed towards the head of a chain holds exactly on a prefix -/
theorem prefix_pred (R : Nat → Nat → Prop) (Q : Nat → Bool) (L : List Nat) (hp : L.Pairwise R)
    (hcl : ∀ x y, R x y → Q y = true → Q x = true) (i : Nat) (hi : i < L.length) :
    Q L[i] = true ↔ i < (L.takeWhile Q).length := by
  induction L generalizing i with
  | nil => simp at hi
  | cons x xs ih =>
    rw [List.pairwise_cons] at hp
    by_cases hq : Q x = true
    · simp only [List.takeWhile_cons, hq, if_true, List.length_cons]
      cases i with
      | zero => simp [hq]
      | succ j =>
        simp only [List.getElem_cons_succ]
        rw [ih hp.2 j (by simpa using hi)]
        omega
    · have hq' : Q x = false := by simpa using hq
      simp only [List.takeWhile_cons, hq', Bool.false_eq_true, if_false, List.length_nil]
      cases i with
      | zero => simp [hq']
      | succ j =>
        simp only [List.getElem_cons_succ, Nat.not_lt_zero, iff_false]
        intro hqj
        exact hq (hcl x _ (hp.1 _ (List.getElem_mem _)) hqj)

theorem takeWhile_length_le (Q : Nat → Bool) (L : List Nat) : (L.takeWhile Q).length ≤ L.length :=
  (List.takeWhile_sublist Q).length_le

/-- on a strictly monotone list the in-window elements sit on an index range `[a, b)` -/
theorem inWin_index_range (B : List Nat) (w : Blk) (hmono : B.Pairwise (· < ·) ∨ B.Pairwise (· > ·)) :
    ∃ a b, a ≤ B.length ∧ b ≤ B.length ∧
      ∀ i (hi : i < B.length), inWin w B[i] = true ↔ (a ≤ i ∧ i < b) := by
  rcases hmono with h | h
  · refine ⟨(B.takeWhile (fun x => decide (x < w.1))).length, (B.takeWhile (fun x => decide (x < w.2))).length,
      takeWhile_length_le _ _, takeWhile_length_le _ _, ?_⟩
    intro i hi
    have h1 := prefix_pred (· < ·) (fun x => decide (x < w.1)) B h
      (fun x y hxy hy => by simp only [decide_eq_true_eq] at hy ⊢; omega) i hi
    have h2 := prefix_pred (· < ·) (fun x => decide (x < w.2)) B h
      (fun x y hxy hy => by simp only [decide_eq_true_eq] at hy ⊢; omega) i hi
    simp only [decide_eq_true_eq] at h1 h2
    unfold inWin
    simp only [Bool.and_eq_true, decide_eq_true_eq]
    omega
  · refine ⟨(B.takeWhile (fun x => decide (x ≥ w.2))).length, (B.takeWhile (fun x => decide (x ≥ w.1))).length,
      takeWhile_length_le _ _, takeWhile_length_le _ _, ?_⟩
    intro i hi
    have h1 := prefix_pred (· > ·) (fun x => decide (x ≥ w.2)) B h
      (fun x y hxy hy => by simp only [decide_eq_true_eq] at hy ⊢; omega) i hi
    have h2 := prefix_pred (· > ·) (fun x => decide (x ≥ w.1)) B h
      (fun x y hxy hy => by simp only [decide_eq_true_eq] at hy ⊢; omega) i hi
    simp only [decide_eq_true_eq] at h1 h2
    unfold inWin
    simp only [Bool.and_eq_true, decide_eq_true_eq]
    omega

/-- a predicate that holds exactly on the index range `[a, b)` filters a list to that range -/
theorem filter_index_range (P : Nat → Bool) (X : List Nat) (a b : Nat)
    (h : ∀ i (hi : i < X.length), P X[i] = true ↔ (a ≤ i ∧ i < b)) :
    X.filter P = (X.take b).drop a := by
  induction X generalizing a b with
  | nil => simp
  | cons x xs ih =>
    have h0 := h 0 (by simp)
    simp only [List.getElem_cons_zero] at h0
    have hs : ∀ j (hj : j < xs.length), P xs[j] = true ↔ (a - 1 ≤ j ∧ j < b - 1) := by
      intro j hj
      have := h (j + 1) (by simpa using hj)
      simp only [List.getElem_cons_succ] at this
      rw [this]
      by_cases hp : P x = true
      · have := h0.1 hp; omega
      · have : ¬ (a ≤ 0 ∧ 0 < b) := fun hc => hp (h0.2 hc)
        omega
    have ih' := ih (a - 1) (b - 1) hs
    by_cases hp : P x = true
    · have := h0.1 hp
      have ha : a = 0 := by omega
      have hb : b = (b - 1) + 1 := by omega
      rw [List.filter_cons_of_pos hp, ih', ha, hb]
      simp
    · have hn : ¬ (a ≤ 0 ∧ 0 < b) := fun hc => hp (h0.2 hc)
      rw [List.filter_cons_of_neg hp, ih']
      by_cases hb : b = 0
      · subst hb; simp
      · have ha : a = (a - 1) + 1 := by omega
        have hb' : b = (b - 1) + 1 := by omega
        rw [ha, hb']
        simp

theorem filter_take_range (P : Nat → Bool) (B : List Nat) (a b k : Nat)
    (h : ∀ i (hi : i < B.length), P B[i] = true ↔ (a ≤ i ∧ i < b)) :
    (B.take k).filter P = (B.take (min k b)).drop a := by
  have := filter_index_range P (B.take k) a b (by
    intro i hi
    have hi' : i < B.length := by simp at hi; omega
    rw [List.getElem_take]
    exact h i hi')
  rw [this, List.take_take]
  congr 2; omega

theorem filter_drop_range (P : Nat → Bool) (B : List Nat) (a b s : Nat)
    (h : ∀ i (hi : i < B.length), P B[i] = true ↔ (a ≤ i ∧ i < b)) :
    (B.drop s).filter P = ((B.drop s).take (b - s)).drop (a - s) := by
  apply filter_index_range
  intro i hi
  have hi' : s + i < B.length := by simp at hi; omega
  rw [List.getElem_drop]
  rw [h (s + i) hi']
  omega

/-- the first `c` in-window elements are the in-window elements among the first `k` -/
theorem take_of_range (B : List Nat) (a b k : Nat) (hb : b ≤ B.length) :
    ((B.take b).drop a).take (min (k - a) (b - a)) = (B.take (min k b)).drop a := by
  apply List.ext_getElem?
  intro j
  simp only [List.getElem?_take, List.getElem?_drop]
  by_cases h1 : j < min (k - a) (b - a)
  · have h2 : a + j < b := by omega
    have h3 : a + j < min k b := by omega
    simp [h1, h2, h3]
  · simp only [h1, if_false]
    by_cases h3 : a + j < min k b
    · omega
    · simp [h3]

/-- the in-window elements from index `c` on are the in-window elements of the tail from `s` -/
theorem drop_of_range (B : List Nat) (a b s : Nat) (hb : b ≤ B.length) :
    ((B.take b).drop a).drop (min (s - a) (b - a)) = ((B.drop s).take (b - s)).drop (a - s) := by
  apply List.ext_getElem?
  intro j
  simp only [List.getElem?_take, List.getElem?_drop]
  by_cases h1 : a + (min (s - a) (b - a) + j) < b
  · have h2 : a - s + j < b - s := by omega
    simp only [h1, h2, if_true]
    congr 1; omega
  · simp only [h1, if_false]
    by_cases h2 : a - s + j < b - s
    · omega
    · simp [h2]

end BioCantor.Proofs
