/-
  C08 helper lemmas, part 0: the code-point order on strings (`Spec.Qual.strLt` / `strLe`) is a strict / total order;
  strictly ascending lists are determined by their members.  (Same statements as in Proofs/QualSets.lean of C18,
  kept here so that C08 does not depend on another property's proof files.)
-/
import BioCantor.Spec.Qualifiers
namespace BioCantor.Proofs.DigStr
open BioCantor BioCantor.Spec.Qual

/-! ### code-point order on strings -/

theorem strLt_irrefl : ∀ (a : Str), strLt a a = false
  | [] => rfl
  | c :: cs => by simp [strLt, strLt_irrefl cs]

theorem strLt_trans : ∀ {a b c : Str}, strLt a b = true → strLt b c = true → strLt a c = true
  | [], [], _, h, _ => by simp [strLt] at h
  | [], _ :: _, [], _, h => by simp [strLt] at h
  | [], _ :: _, _ :: _, _, _ => rfl
  | _ :: _, [], _, h, _ => by simp [strLt] at h
  | _ :: _, _ :: _, [], _, h => by simp [strLt] at h
  | x :: xs, y :: ys, z :: zs, h1, h2 => by
    simp only [strLt, Bool.or_eq_true, decide_eq_true_eq, Bool.and_eq_true, beq_iff_eq] at h1 h2 ⊢
    rcases h1 with h1 | ⟨e1, h1⟩ <;> rcases h2 with h2 | ⟨e2, h2⟩
    · left; omega
    · subst e2; left; exact h1
    · subst e1; left; exact h2
    · subst e1; subst e2; right; exact ⟨rfl, strLt_trans h1 h2⟩

theorem strLt_total : ∀ {a b : Str}, a ≠ b → strLt a b = true ∨ strLt b a = true
  | [], [], h => absurd rfl h
  | [], _ :: _, _ => Or.inl rfl
  | _ :: _, [], _ => Or.inr rfl
  | x :: xs, y :: ys, h => by
    simp only [strLt, Bool.or_eq_true, decide_eq_true_eq, Bool.and_eq_true, beq_iff_eq]
    by_cases hxy : x = y
    · subst hxy
      have : xs ≠ ys := fun h' => h (by rw [h'])
      rcases strLt_total this with h' | h'
      · left; right; exact ⟨rfl, h'⟩
      · right; right; exact ⟨rfl, h'⟩
    · have : x.toNat ≠ y.toNat := fun h' => hxy (Char.toNat_inj.mp h')
      rcases Nat.lt_or_gt_of_ne this with h' | h'
      · left; left; exact h'
      · right; left; exact h'

theorem strLt_asymm {a b : Str} (h1 : strLt a b = true) (h2 : strLt b a = true) : False := by
  have := strLt_trans h1 h2
  rw [strLt_irrefl] at this; cases this

theorem strLe_iff {a b : Str} : strLe a b = true ↔ a = b ∨ strLt a b = true := by
  simp [strLe]

theorem strLe_trans (a b c : Str) : strLe a b = true → strLe b c = true → strLe a c = true := by
  simp only [strLe_iff]
  rintro (rfl | h1) (rfl | h2)
  · left; rfl
  · right; exact h2
  · right; exact h1
  · right; exact strLt_trans h1 h2

theorem strLe_total (a b : Str) : (strLe a b || strLe b a) = true := by
  simp only [Bool.or_eq_true, strLe_iff]
  by_cases h : a = b
  · left; left; exact h
  · rcases strLt_total h with h' | h'
    · left; right; exact h'
    · right; right; exact h'

theorem strLe_antisymm {a b : Str} (h1 : strLe a b = true) (h2 : strLe b a = true) : a = b := by
  rw [strLe_iff] at h1 h2
  rcases h1 with h1 | h1
  · exact h1
  · rcases h2 with h2 | h2
    · exact h2.symm
    · exact (strLt_asymm h1 h2).elim

/-! ### sorted lists -/

theorem sortedStrict_of_pairwise : ∀ {l : List Str}, l.Pairwise (fun a b => strLt a b = true) → sortedStrict l = true
  | [], _ => rfl
  | [_], _ => rfl
  | a :: b :: rest, h => by
    simp only [sortedStrict, Bool.and_eq_true]
    rw [List.pairwise_cons] at h
    exact ⟨h.1 b List.mem_cons_self, sortedStrict_of_pairwise h.2⟩

theorem pairwise_of_sortedStrict : ∀ {l : List Str}, sortedStrict l = true → l.Pairwise (fun a b => strLt a b = true)
  | [], _ => List.Pairwise.nil
  | [_], _ => by simp
  | a :: b :: rest, h => by
    simp only [sortedStrict, Bool.and_eq_true] at h
    have ih := pairwise_of_sortedStrict h.2
    rw [List.pairwise_cons]
    refine ⟨fun c hc => ?_, ih⟩
    rcases List.mem_cons.mp hc with rfl | hc
    · exact h.1
    · exact strLt_trans h.1 ((List.pairwise_cons.mp ih).1 c hc)

/-- a strictly sorted list is determined by its members -/
theorem strict_ext {l₁ l₂ : List Str} (h1 : l₁.Pairwise (fun a b => strLt a b = true))
    (h2 : l₂.Pairwise (fun a b => strLt a b = true)) (hm : ∀ x, x ∈ l₁ ↔ x ∈ l₂) : l₁ = l₂ := by
  have nd1 : l₁.Nodup := h1.imp (fun h e => by rw [e, strLt_irrefl] at h; cases h)
  have nd2 : l₂.Nodup := h2.imp (fun h e => by rw [e, strLt_irrefl] at h; cases h)
  have hp := (List.perm_ext_iff_of_nodup nd1 nd2).mpr hm
  refine List.Perm.eq_of_pairwise (le := fun a b => strLt a b = true) ?_ h1 h2 hp
  intro a b _ _ hab hba
  exact (strLt_asymm hab hba).elim

theorem sameSet_iff {a b : List Str} : sameSet a b = true ↔ ∀ x, x ∈ a ↔ x ∈ b := by
  simp only [sameSet, Bool.and_eq_true, List.all_eq_true, List.contains_iff_mem]
  exact ⟨fun h x => ⟨h.1 x, h.2 x⟩, fun h => ⟨fun x => (h x).mp, fun x => (h x).mpr⟩⟩

end BioCantor.Proofs.DigStr
