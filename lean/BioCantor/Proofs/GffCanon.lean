/-
  C11 / T5 — the canonical attribute multimap of the Spec (`canonAttrs`) depends only on the relation
  "tag k carries value v": two attribute lists with the same non-empty-valued tags and the same relation have the
  same canonical form.
-/
import BioCantor.Proofs.GffText
import BioCantor.Proofs.GffSort
namespace BioCantor.Proofs.GffCanon
open BioCantor BioCantor.Spec.Gff BioCantor.Proofs.GffText BioCantor.Proofs.GffSort

abbrev AList := List (Str × List Str)

/-- tag `k` carries value `v` -/
def BRel (q : AList) (k v : Str) : Prop := ∃ vs, (k, vs) ∈ q ∧ v ∈ vs

def HasKey (q : AList) (k : Str) : Prop := ∃ vs, (k, vs) ∈ q

/-! ### strictly sorted lists are determined by their members -/

theorem strict_ext {β : Type} (lt : β → β → Prop) (hirr : ∀ a, ¬ lt a a) (hasym : ∀ a b, lt a b → ¬ lt b a) :
    ∀ (l1 l2 : List β), l1.Pairwise lt → l2.Pairwise lt → (∀ x, x ∈ l1 ↔ x ∈ l2) → l1 = l2
  | [], [], _, _, _ => rfl
  | [], b :: _, _, _, h => absurd ((h b).mpr List.mem_cons_self) (by simp)
  | a :: _, [], _, _, h => absurd ((h a).mp List.mem_cons_self) (by simp)
  | a :: l1, b :: l2, h1, h2, h => by
    rw [List.pairwise_cons] at h1 h2
    have hab : a = b := by
      have ha : a ∈ b :: l2 := (h a).mp List.mem_cons_self
      have hb : b ∈ a :: l1 := (h b).mpr List.mem_cons_self
      rcases List.mem_cons.mp ha with e | ha'
      · exact e
      · rcases List.mem_cons.mp hb with e | hb'
        · exact e.symm
        · exact absurd (h2.1 a ha') (hasym _ _ (h1.1 b hb'))
    subst hab
    congr 1
    apply strict_ext lt hirr hasym l1 l2 h1.2 h2.2
    intro x
    constructor
    · intro hx
      have : x ∈ a :: l2 := (h x).mp (List.mem_cons_of_mem _ hx)
      rcases List.mem_cons.mp this with e | h'
      · subst e; exact absurd (h1.1 x hx) (hirr x)
      · exact h'
    · intro hx
      have : x ∈ a :: l1 := (h x).mpr (List.mem_cons_of_mem _ hx)
      rcases List.mem_cons.mp this with e | h'
      · subst e; exact absurd (h2.1 x hx) (hirr x)
      · exact h'

theorem strLt_irr (a : Str) : ¬ strLt a a = true := by rw [strLt_irrefl]; simp
theorem strLt_asym (a b : Str) (h : strLt a b = true) : ¬ strLt b a = true := fun h' => strLt_asymm h h'

/-! ### value lists: sort + dedup -/

theorem sortStrs_eq_sortBy : ∀ l : List Str, sortStrs l = sortBy strLe l
  | [] => rfl
  | a :: l => by
    have : ∀ (x : Str) (ys : List Str), insertStr x ys = insertBy strLe x ys := by
      intro x ys
      induction ys with
      | nil => rfl
      | cons y ys ih => simp only [insertStr, insertBy, ih]
    show insertStr a (sortStrs l) = insertBy strLe a (sortBy strLe l)
    rw [sortStrs_eq_sortBy l, this]

theorem mem_sortStrs (v : Str) (l : List Str) : v ∈ sortStrs l ↔ v ∈ l := by
  rw [sortStrs_eq_sortBy]; exact mem_sortBy strLe v l

theorem sortStrs_sorted (l : List Str) : (sortStrs l).Pairwise (fun a b => strLe a b = true) := by
  rw [sortStrs_eq_sortBy]; exact sortBy_pairwise strLe strLe_trans strLe_total l

theorem strLt_of_le_ne {a b : Str} (h : strLe a b = true) (hne : a ≠ b) : strLt a b = true := by
  rcases strLt_total hne with h1 | h1
  · exact h1
  · simp [strLe, h1] at h

theorem dedupSorted_spec : ∀ l : List Str, l.Pairwise (fun a b => strLe a b = true) →
    (dedupSorted l).Pairwise (fun a b => strLt a b = true) ∧ (∀ v, v ∈ dedupSorted l ↔ v ∈ l) ∧
    (∀ x, (∀ y ∈ l, strLt x y = true) → ∀ y ∈ dedupSorted l, strLt x y = true)
  | [], _ => by simp [dedupSorted]
  | [a], _ => by simp [dedupSorted]
  | a :: b :: rest, h => by
    have hp := List.pairwise_cons.mp h
    obtain ⟨ih1, ih2, ih3⟩ := dedupSorted_spec (b :: rest) hp.2
    by_cases hab : a = b
    · subst hab
      simp only [dedupSorted, if_true]
      refine ⟨ih1, ?_, ?_⟩
      · intro v; rw [ih2]; simp
      · intro x hx y hy; exact ih3 x (fun z hz => hx z (List.mem_cons_of_mem _ hz)) y hy
    · simp only [dedupSorted, hab, if_false]
      refine ⟨?_, ?_, ?_⟩
      · rw [List.pairwise_cons]
        refine ⟨?_, ih1⟩
        apply ih3 a
        intro y hy
        have hle := hp.1 y hy
        by_cases hay : a = y
        · -- a = y ∈ b :: rest with a ≤ b ≤ y = a forces a = b
          subst hay
          exfalso
          rcases List.mem_cons.mp hy with e | hy'
          · exact hab e
          · have h1 := hp.1 b List.mem_cons_self
            have h2 := (List.pairwise_cons.mp hp.2).1 a hy'
            rcases strLt_total hab with h3 | h3
            · simp [strLe, h3] at h2
            · simp [strLe, h3] at h1
        · exact strLt_of_le_ne hle hay
      · intro v
        simp only [List.mem_cons, ih2]
      · intro x hx y hy
        rcases List.mem_cons.mp hy with rfl | hy'
        · exact hx _ List.mem_cons_self
        · exact ih3 x (fun z hz => hx z (List.mem_cons_of_mem _ hz)) y hy'

def normVals (vs : List Str) : List Str := dedupSorted (sortStrs vs)

theorem normVals_strict (vs : List Str) : (normVals vs).Pairwise (fun a b => strLt a b = true) :=
  (dedupSorted_spec _ (sortStrs_sorted vs)).1

theorem mem_normVals (v : Str) (vs : List Str) : v ∈ normVals vs ↔ v ∈ vs := by
  unfold normVals
  rw [(dedupSorted_spec _ (sortStrs_sorted vs)).2.1, mem_sortStrs]

theorem normVals_ext {vs ws : List Str} (h : ∀ v, v ∈ vs ↔ v ∈ ws) : normVals vs = normVals ws :=
  strict_ext (fun a b => strLt a b = true) strLt_irr strLt_asym _ _ (normVals_strict vs) (normVals_strict ws)
    (fun v => by rw [mem_normVals, mem_normVals, h])

/-! ### the fold with `insertKV` -/

def KeySorted (q : AList) : Prop := q.Pairwise (fun a b => strLt a.1 b.1 = true)

theorem insertKV_nil (x : Str × List Str) : insertKV x [] = [x] := rfl
theorem insertKV_eq (x y : Str × List Str) (ys : AList) (h : x.1 = y.1) :
    insertKV x (y :: ys) = (y.1, y.2 ++ x.2) :: ys := by simp [insertKV, h]
theorem insertKV_lt (x y : Str × List Str) (ys : AList) (h : x.1 ≠ y.1) (hlt : strLt x.1 y.1 = true) :
    insertKV x (y :: ys) = x :: y :: ys := by simp [insertKV, h, hlt]
theorem insertKV_gt (x y : Str × List Str) (ys : AList) (h : x.1 ≠ y.1) (hlt : strLt x.1 y.1 = false) :
    insertKV x (y :: ys) = y :: insertKV x ys := by simp [insertKV, h, hlt]

theorem insertKV_spec (x : Str × List Str) : ∀ (ys : AList), KeySorted ys →
    KeySorted (insertKV x ys) ∧ (∀ k, HasKey (insertKV x ys) k ↔ k = x.1 ∨ HasKey ys k) ∧
    (∀ k v, BRel (insertKV x ys) k v ↔ (k = x.1 ∧ v ∈ x.2) ∨ BRel ys k v) ∧
    (∀ z, (∀ y ∈ ys, strLt z y.1 = true) → strLt z x.1 = true → ∀ y ∈ insertKV x ys, strLt z y.1 = true)
  | [], _ => by
    obtain ⟨xk, xv⟩ := x
    rw [insertKV_nil]
    refine ⟨by simp [KeySorted], ?_, ?_, ?_⟩
    · intro k; simp [HasKey]
    · intro k v; simp only [BRel, List.mem_singleton, Prod.mk.injEq, List.not_mem_nil, false_and, exists_false, or_false]
      constructor
      · rintro ⟨vs, ⟨h1, h2⟩, h3⟩; exact ⟨h1, h2 ▸ h3⟩
      · rintro ⟨h1, h2⟩; exact ⟨xv, ⟨h1, rfl⟩, h2⟩
    · intro z _ hz y hy
      simp only [List.mem_singleton] at hy
      subst hy; exact hz
  | y :: ys, hs => by
    have hp := List.pairwise_cons.mp hs
    obtain ⟨xk, xv⟩ := x
    obtain ⟨yk, yv⟩ := y
    by_cases hk : xk = yk
    · subst hk
      rw [insertKV_eq (xk, xv) (xk, yv) ys rfl]
      simp only
      refine ⟨List.pairwise_cons.mpr ⟨fun z hz => hp.1 z hz, hp.2⟩, ?_, ?_, ?_⟩
      · intro k
        simp only [HasKey, List.mem_cons, Prod.mk.injEq]
        constructor
        · rintro ⟨vs, ⟨h1, _⟩ | h⟩
          · exact Or.inl h1
          · exact Or.inr ⟨vs, Or.inr h⟩
        · rintro (h | ⟨vs, ⟨h, _⟩ | h⟩)
          · exact ⟨yv ++ xv, Or.inl ⟨h, rfl⟩⟩
          · exact ⟨yv ++ xv, Or.inl ⟨h, rfl⟩⟩
          · exact ⟨vs, Or.inr h⟩
      · intro k v
        simp only [BRel, List.mem_cons, Prod.mk.injEq]
        constructor
        · rintro ⟨vs, ⟨h1, h2⟩ | h, hv⟩
          · subst h2
            rcases List.mem_append.mp hv with hv' | hv'
            · exact Or.inr ⟨yv, Or.inl ⟨h1, rfl⟩, hv'⟩
            · exact Or.inl ⟨h1, hv'⟩
          · exact Or.inr ⟨vs, Or.inr h, hv⟩
        · rintro (⟨h1, h2⟩ | ⟨vs, ⟨h1, h2⟩ | h, hv⟩)
          · exact ⟨yv ++ xv, Or.inl ⟨h1, rfl⟩, List.mem_append_right _ h2⟩
          · exact ⟨yv ++ xv, Or.inl ⟨h1, rfl⟩, List.mem_append_left _ (h2 ▸ hv)⟩
          · exact ⟨vs, Or.inr h, hv⟩
      · intro z hz _ w hw
        rcases List.mem_cons.mp hw with rfl | hw'
        · exact hz (xk, yv) List.mem_cons_self
        · exact hz w (List.mem_cons_of_mem _ hw')
    · cases hlt : strLt xk yk with
      | true =>
        rw [insertKV_lt (xk, xv) (yk, yv) ys hk hlt]
        simp only
        refine ⟨?_, ?_, ?_, ?_⟩
        · refine List.pairwise_cons.mpr ⟨?_, hs⟩
          intro z hz
          rcases List.mem_cons.mp hz with rfl | hz'
          · exact hlt
          · exact strLt_trans hlt (hp.1 z hz')
        · intro k
          simp only [HasKey, List.mem_cons, Prod.mk.injEq]
          constructor
          · rintro ⟨vs, ⟨h, _⟩ | h⟩
            · exact Or.inl h
            · exact Or.inr ⟨vs, h⟩
          · rintro (h | ⟨vs, h⟩)
            · exact ⟨xv, Or.inl ⟨h, rfl⟩⟩
            · exact ⟨vs, Or.inr h⟩
        · intro k v
          simp only [BRel, List.mem_cons, Prod.mk.injEq]
          constructor
          · rintro ⟨vs, ⟨h1, h2⟩ | h, hv⟩
            · exact Or.inl ⟨h1, h2 ▸ hv⟩
            · exact Or.inr ⟨vs, h, hv⟩
          · rintro (⟨h1, h2⟩ | ⟨vs, h, hv⟩)
            · exact ⟨xv, Or.inl ⟨h1, rfl⟩, h2⟩
            · exact ⟨vs, Or.inr h, hv⟩
        · intro z hz hzx w hw
          rcases List.mem_cons.mp hw with rfl | hw'
          · exact hzx
          · exact hz w hw'
      | false =>
        rw [insertKV_gt (xk, xv) (yk, yv) ys hk hlt]
        simp only
        have hyx : strLt yk xk = true := by
          rcases strLt_total hk with h | h
          · rw [hlt] at h; cases h
          · exact h
        obtain ⟨i1, i2, i3, i4⟩ := insertKV_spec (xk, xv) ys hp.2
        refine ⟨List.pairwise_cons.mpr ⟨i4 yk hp.1 hyx, i1⟩, ?_, ?_, ?_⟩
        · intro k
          constructor
          · rintro ⟨vs, h⟩
            rcases List.mem_cons.mp h with e | h'
            · exact Or.inr ⟨vs, e ▸ List.mem_cons_self⟩
            · rcases (i2 k).mp ⟨vs, h'⟩ with e | ⟨ws, hw⟩
              · exact Or.inl e
              · exact Or.inr ⟨ws, List.mem_cons_of_mem _ hw⟩
          · rintro (h | ⟨vs, h⟩)
            · obtain ⟨ws, hw⟩ := (i2 k).mpr (Or.inl h)
              exact ⟨ws, List.mem_cons_of_mem _ hw⟩
            · rcases List.mem_cons.mp h with e | h'
              · exact ⟨vs, e ▸ List.mem_cons_self⟩
              · obtain ⟨ws, hw⟩ := (i2 k).mpr (Or.inr ⟨vs, h'⟩)
                exact ⟨ws, List.mem_cons_of_mem _ hw⟩
        · intro k v
          constructor
          · rintro ⟨vs, h, hv⟩
            rcases List.mem_cons.mp h with e | h'
            · exact Or.inr ⟨vs, e ▸ List.mem_cons_self, hv⟩
            · rcases (i3 k v).mp ⟨vs, h', hv⟩ with e | ⟨ws, hw, hv'⟩
              · exact Or.inl e
              · exact Or.inr ⟨ws, List.mem_cons_of_mem _ hw, hv'⟩
          · rintro (h | ⟨vs, h, hv⟩)
            · obtain ⟨ws, hw, hv'⟩ := (i3 k v).mpr (Or.inl h)
              exact ⟨ws, List.mem_cons_of_mem _ hw, hv'⟩
            · rcases List.mem_cons.mp h with e | h'
              · exact ⟨vs, e ▸ List.mem_cons_self, hv⟩
              · obtain ⟨ws, hw, hv'⟩ := (i3 k v).mpr (Or.inr ⟨vs, h', hv⟩)
                exact ⟨ws, List.mem_cons_of_mem _ hw, hv'⟩
        · intro z hz hzx w hw
          rcases List.mem_cons.mp hw with rfl | hw'
          · exact hz (yk, yv) List.mem_cons_self
          · exact i4 z (fun u hu => hz u (List.mem_cons_of_mem _ hu)) hzx w hw'

theorem fold_spec : ∀ (a : AList), KeySorted (a.foldr insertKV []) ∧
    (∀ k, HasKey (a.foldr insertKV []) k ↔ HasKey a k) ∧ (∀ k v, BRel (a.foldr insertKV []) k v ↔ BRel a k v)
  | [] => by simp [KeySorted, HasKey, BRel]
  | x :: a => by
    obtain ⟨h1, h2, h3⟩ := fold_spec a
    obtain ⟨i1, i2, i3, _⟩ := insertKV_spec x (a.foldr insertKV []) h1
    refine ⟨i1, ?_, ?_⟩
    · intro k
      rw [List.foldr_cons, i2, h2]
      simp only [HasKey, List.mem_cons]
      constructor
      · rintro (h | ⟨vs, h⟩)
        · exact ⟨x.2, Or.inl (by rw [h])⟩
        · exact ⟨vs, Or.inr h⟩
      · rintro ⟨vs, h | h⟩
        · exact Or.inl (by rw [← h])
        · exact Or.inr ⟨vs, h⟩
    · intro k v
      rw [List.foldr_cons, i3, h3]
      simp only [BRel, List.mem_cons]
      constructor
      · rintro (⟨h1, h2⟩ | ⟨vs, h, hv⟩)
        · exact ⟨x.2, Or.inl (by rw [h1]), h2⟩
        · exact ⟨vs, Or.inr h, hv⟩
      · rintro ⟨vs, h | h, hv⟩
        · exact Or.inl ⟨by rw [← h], by rw [← h]; exact hv⟩
        · exact Or.inr ⟨vs, h, hv⟩

/-- in a key-sorted list a tag has one entry -/
theorem keySorted_unique {q : AList} (h : KeySorted q) {k : Str} {vs ws : List Str}
    (h1 : (k, vs) ∈ q) (h2 : (k, ws) ∈ q) : vs = ws := by
  induction q with
  | nil => simp at h1
  | cons e rest ih =>
    have hp := List.pairwise_cons.mp h
    rcases List.mem_cons.mp h1 with e1 | m1
    · rcases List.mem_cons.mp h2 with e2 | m2
      · rw [← e1] at e2; exact (Prod.mk.inj e2).2.symm ▸ rfl
      · have := hp.1 _ m2
        rw [← e1] at this
        simp [strLt_irrefl] at this
    · rcases List.mem_cons.mp h2 with e2 | m2
      · have := hp.1 _ m1
        rw [← e2] at this
        simp [strLt_irrefl] at this
      · exact ih hp.2 m1 m2

theorem canonAttrs_eq (a : AList) : canonAttrs a = (a.foldr insertKV []).map fun kv => (kv.1, normVals kv.2) := rfl

/-- T5 (attributes, core): the canonical multimap depends only on which tags occur and which values they carry -/
theorem canonAttrs_ext {a b : AList} (hk : ∀ k, HasKey a k ↔ HasKey b k) (hr : ∀ k v, BRel a k v ↔ BRel b k v) :
    canonAttrs a = canonAttrs b := by
  obtain ⟨a1, a2, a3⟩ := fold_spec a
  obtain ⟨b1, b2, b3⟩ := fold_spec b
  rw [canonAttrs_eq, canonAttrs_eq]
  have sortedMap : ∀ q : AList, KeySorted q → (q.map fun kv => (kv.1, normVals kv.2)).Pairwise
      (fun e f : Str × List Str => strLt e.1 f.1 = true) := by
    intro q hq
    rw [List.pairwise_map]
    exact hq
  apply strict_ext (fun e f : Str × List Str => strLt e.1 f.1 = true) (fun e => strLt_irr e.1)
    (fun e f => strLt_asym e.1 f.1) _ _ (sortedMap _ a1) (sortedMap _ b1)
  -- membership: (k, normVals vs) for the unique entry of k
  have key : ∀ (p q : AList), KeySorted (p.foldr insertKV []) → KeySorted (q.foldr insertKV []) →
      (∀ k, HasKey (p.foldr insertKV []) k → HasKey (q.foldr insertKV []) k) →
      (∀ k v, BRel (p.foldr insertKV []) k v ↔ BRel (q.foldr insertKV []) k v) →
      ∀ e, e ∈ (p.foldr insertKV []).map (fun kv => (kv.1, normVals kv.2)) →
           e ∈ (q.foldr insertKV []).map (fun kv => (kv.1, normVals kv.2)) := by
    intro p q hp hq hkeys hrel e he
    obtain ⟨⟨k, vs⟩, hmem, rfl⟩ := List.mem_map.mp he
    obtain ⟨ws, hws⟩ := hkeys k ⟨vs, hmem⟩
    refine List.mem_map.mpr ⟨(k, ws), hws, ?_⟩
    simp only [Prod.mk.injEq, true_and]
    apply normVals_ext
    intro v
    constructor
    · intro hv
      obtain ⟨vs', hm', hv'⟩ := (hrel k v).mpr ⟨ws, hws, hv⟩
      rw [keySorted_unique hp hmem hm']; exact hv'
    · intro hv
      obtain ⟨ws', hm', hv'⟩ := (hrel k v).mp ⟨vs, hmem, hv⟩
      rw [keySorted_unique hq hws hm']; exact hv'
  intro e
  constructor
  · exact key a b a1 b1 (fun k h => (b2 k).mpr ((hk k).mp ((a2 k).mp h)))
      (fun k v => by rw [a3, b3, hr]) e
  · exact key b a b1 a1 (fun k h => (a2 k).mpr ((hk k).mpr ((b2 k).mp h)))
      (fun k v => by rw [a3, b3, hr]) e

/-- when no entry has an empty value list, the relation alone decides -/
theorem canonAttrs_ext_rel {a b : AList} (ha : ∀ e ∈ a, e.2 ≠ []) (hb : ∀ e ∈ b, e.2 ≠ [])
    (hr : ∀ k v, BRel a k v ↔ BRel b k v) : canonAttrs a = canonAttrs b := by
  have hk : ∀ (p q : AList), (∀ e ∈ p, e.2 ≠ []) → (∀ k v, BRel p k v ↔ BRel q k v) → ∀ k, HasKey p k → HasKey q k := by
    intro p q hp hpq k ⟨vs, hm⟩
    obtain ⟨v, hv⟩ := List.exists_mem_of_ne_nil vs (hp _ hm)
    obtain ⟨ws, hw, _⟩ := (hpq k v).mp ⟨vs, hm, hv⟩
    exact ⟨ws, hw⟩
  exact canonAttrs_ext (fun k => ⟨hk a b ha hr k, hk b a hb (fun k v => (hr k v).symm) k⟩) hr

end BioCantor.Proofs.GffCanon
