/- C13-T4: `convert_vcf_records_to_model` partitions the variants of a chromosome by phase set; unphased variants are
   collections of their own.  Stated for ANY list of records (phase sets are non-negative, as VCF prescribes). -/
import BioCantor.Model.Variants
namespace BioCantor.Proofs.Var
open BioCantor BioCantor.Model.Variants

theorem flatMap_congr_mem {α β : Type} (l : List α) (f g : α → List β) (h : ∀ a ∈ l, f a = g a) :
    l.flatMap f = l.flatMap g := by
  induction l with
  | nil => rfl
  | cons a r ih =>
    simp only [List.flatMap_cons]
    rw [h a (by simp), ih (fun b hb => h b (List.mem_cons_of_mem _ hb))]

/-! ### the stable insertion sort -/

def SortedK (L : List (Int × VarDict)) : Prop := L.Pairwise (fun a b => a.1 ≤ b.1)

theorem insertByKey_perm (d : VarDict) (k : Int) (L : List (Int × VarDict)) : (insertByKey d k L).Perm ((k, d) :: L) := by
  induction L with
  | nil => exact List.Perm.refl _
  | cons x xs ih =>
    unfold insertByKey
    split
    · exact List.Perm.refl _
    · exact (List.Perm.cons x ih).trans (List.Perm.swap _ _ _)

theorem insertByKey_sorted (d : VarDict) (k : Int) (L : List (Int × VarDict)) (h : SortedK L) :
    SortedK (insertByKey d k L) := by
  induction L with
  | nil => simp [insertByKey, SortedK]
  | cons x xs ih =>
    unfold SortedK at h
    rw [List.pairwise_cons] at h
    unfold insertByKey
    split
    · rename_i hlt
      unfold SortedK
      rw [List.pairwise_cons]
      refine ⟨?_, List.pairwise_cons.mpr h⟩
      intro y hy
      rcases List.mem_cons.mp hy with rfl | hy'
      · exact Int.le_of_lt hlt
      · have := h.1 y hy'; simp only at *; omega
    · rename_i hge
      unfold SortedK
      rw [List.pairwise_cons]
      refine ⟨?_, ih h.2⟩
      intro y hy
      have := (insertByKey_perm d k xs).mem_iff.mp hy
      rcases List.mem_cons.mp this with rfl | hy'
      · simp only; omega
      · exact h.1 y hy'

theorem foldl_insert (P acc : List (Int × VarDict)) (hacc : SortedK acc) :
    (P.foldl (fun acc x => insertByKey x.2 x.1 acc) acc).Perm (P ++ acc)
    ∧ SortedK (P.foldl (fun acc x => insertByKey x.2 x.1 acc) acc) := by
  induction P generalizing acc with
  | nil => exact ⟨List.Perm.refl _, hacc⟩
  | cons x r ih =>
    simp only [List.foldl_cons]
    have h := ih (insertByKey x.2 x.1 acc) (insertByKey_sorted _ _ _ hacc)
    refine ⟨h.1.trans ?_, h.2⟩
    have := insertByKey_perm x.2 x.1 acc
    exact (List.Perm.append_left r this).trans List.perm_middle

theorem sortByKey_spec (P : List (Int × VarDict)) : (sortByKey P).Perm P ∧ SortedK (sortByKey P) := by
  have := foldl_insert P [] (by simp [SortedK])
  simpa [sortByKey] using this

/-! ### keys -/

/-- the integer a dict is sorted by (`x.get("phase_block", -1)`), for dicts whose phase is not Python's None -/
def skey (d : VarDict) : Int :=
  match d.phase with
  | .val n => n
  | _ => -1

/-- no dict carries Python's None, and phase sets are non-negative -/
def GoodPhases (ds : List VarDict) : Prop :=
  ∀ d ∈ ds, d.phase ≠ .missing ∧ ∀ n, d.phase = .val n → 0 ≤ n

theorem sortKey_good (d : VarDict) (h : d.phase ≠ .missing) : sortKey d = some (skey d) := by
  unfold sortKey skey
  cases hp : d.phase with
  | absent => rfl
  | val n => rfl
  | missing => exact absurd hp h

/-- group key as an integer: `None ↦ -1` -/
def ik : Option Int → Int
  | none => -1
  | some n => n

theorem ik_groupKey (d : VarDict) : ik (groupKey d) = skey d := by
  unfold groupKey skey
  cases d.phase <;> rfl

theorem groupKey_eq_of_skey {d e : VarDict} (hd : ∀ n, d.phase = .val n → 0 ≤ n) (he : ∀ n, e.phase = .val n → 0 ≤ n)
    (h : skey d = skey e) : groupKey d = groupKey e := by
  unfold skey at h
  unfold groupKey
  cases hp : d.phase <;> cases hq : e.phase <;> simp only [hp, hq] at h ⊢
  · have := he _ hq; omega
  · have := he _ hq; omega
  · have := hd _ hp; omega
  · have := hd _ hp; omega
  · rw [h]

/-! ### `itertools.groupby` -/

theorem groupByKey_flatten (l : List VarDict) : (groupByKey l).flatMap (·.2) = l := by
  induction l with
  | nil => rfl
  | cons d ds ih =>
    unfold groupByKey
    cases hg : groupByKey ds with
    | nil => rw [hg] at ih; simp at ih; simp [← ih]
    | cons g rest =>
      obtain ⟨k, gl⟩ := g
      rw [hg] at ih
      simp only
      split
      · simp only [List.flatMap_cons] at ih ⊢; rw [← ih]; simp
      · simp only [List.flatMap_cons] at ih ⊢; rw [← ih]; simp

theorem groupByKey_groups (l : List VarDict) :
    ∀ g ∈ groupByKey l, g.2 ≠ [] ∧ ∀ d ∈ g.2, groupKey d = g.1 := by
  induction l with
  | nil => intro g hg; simp [groupByKey] at hg
  | cons d ds ih =>
    unfold groupByKey
    cases hg : groupByKey ds with
    | nil => intro g hg'; simp only [List.mem_singleton] at hg'; subst hg'; simp
    | cons g0 rest =>
      obtain ⟨k, gl⟩ := g0
      rw [hg] at ih
      simp only
      split
      · rename_i hk
        intro g hg'
        rcases List.mem_cons.mp hg' with rfl | h
        · refine ⟨by simp, ?_⟩
          intro e he
          rcases List.mem_cons.mp he with rfl | he'
          · exact hk.symm
          · exact (ih (k, gl) (by simp)).2 e he'
        · exact ih g (List.mem_cons_of_mem _ h)
      · intro g hg'
        rcases List.mem_cons.mp hg' with rfl | h
        · simp
        · exact ih g h

/-- on a list sorted by the integer key, the runs have strictly increasing keys -/
theorem groupByKey_keys (l : List VarDict) (hs : l.Pairwise (fun a b => skey a ≤ skey b))
    (hp : ∀ d ∈ l, ∀ n, d.phase = .val n → 0 ≤ n) :
    (groupByKey l).Pairwise (fun a b => ik a.1 < ik b.1) ∧ ∀ g ∈ groupByKey l, ∃ e ∈ l, g.1 = groupKey e := by
  induction l with
  | nil => simp [groupByKey]
  | cons d ds ih =>
    rw [List.pairwise_cons] at hs
    have ih' := ih hs.2 (fun e he => hp e (List.mem_cons_of_mem _ he))
    unfold groupByKey
    cases hg : groupByKey ds with
    | nil => simp
    | cons g0 rest =>
      obtain ⟨k, gl⟩ := g0
      rw [hg] at ih'
      obtain ⟨ihp, ihm⟩ := ih'
      rw [List.pairwise_cons] at ihp
      simp only
      split
      · rename_i hk
        refine ⟨?_, ?_⟩
        · rw [List.pairwise_cons]; exact ihp
        · intro g hg'
          rcases List.mem_cons.mp hg' with rfl | h
          · exact ⟨d, by simp, hk⟩
          · obtain ⟨e, he, hge⟩ := ihm g (List.mem_cons_of_mem _ h)
            exact ⟨e, List.mem_cons_of_mem _ he, hge⟩
      · rename_i hk
        have hfirst : ik (groupKey d) < ik k := by
          obtain ⟨e, he, hke⟩ := ihm (k, gl) (by simp)
          simp only at hke
          have h1 := hs.1 e he
          rw [hke, ik_groupKey, ik_groupKey]
          have hne : skey d ≠ skey e := by
            intro heq
            apply hk
            rw [hke]
            exact (groupKey_eq_of_skey (hp d (by simp)) (hp e (List.mem_cons_of_mem _ he)) heq).symm
          omega
        refine ⟨?_, ?_⟩
        · rw [List.pairwise_cons]
          refine ⟨?_, List.pairwise_cons.mpr ihp⟩
          intro g hg'
          rcases List.mem_cons.mp hg' with rfl | h
          · exact hfirst
          · have := ihp.1 g h; simp only at this ⊢; omega
        · intro g hg'
          rcases List.mem_cons.mp hg' with rfl | h
          · exact ⟨d, by simp, rfl⟩
          · obtain ⟨e, he, hge⟩ := ihm g h
            exact ⟨e, List.mem_cons_of_mem _ he, hge⟩

theorem pairwise_lt_inj {α : Type} (f : α → Int) (l : List α) (h : l.Pairwise (fun a b => f a < f b)) :
    ∀ a ∈ l, ∀ b ∈ l, f a = f b → a = b := by
  induction l with
  | nil => intro a ha; simp at ha
  | cons x xs ih =>
    rw [List.pairwise_cons] at h
    intro a ha b hb hab
    rcases List.mem_cons.mp ha with rfl | ha' <;> rcases List.mem_cons.mp hb with rfl | hb'
    · rfl
    · have := h.1 b hb'; omega
    · have := h.1 a ha'; omega
    · exact ih h.2 a ha' b hb' hab

/-! ### one chromosome -/

/-- the dicts of a chromosome, in record order, as the current code builds them -/
def dictsOf (recs : List VcfRec) : List VarDict := (recs.map (readPS .current)).flatMap vcfDicts

theorem dictsOf_good (recs : List VcfRec) (hps : ∀ r ∈ recs, ∀ n, r.ps = .val n → 0 ≤ n) : GoodPhases (dictsOf recs) := by
  intro d hd
  simp only [dictsOf, List.mem_flatMap, List.mem_map] at hd
  obtain ⟨r', ⟨r, hr, rfl⟩, hd⟩ := hd
  simp only [vcfDicts, List.mem_map] at hd
  obtain ⟨a, _, rfl⟩ := hd
  have hv : Ver.current ≠ Ver.before := by simp
  simp only [readPS, hv, if_false]
  cases hp : r.ps with
  | absent => simp
  | missing => simp
  | val n => exact ⟨by simp, fun m hm => by simp only [PS.val.injEq] at hm; subst hm; exact hps r hr n hp⟩

/-- the collection(s) made from one run of `groupby` -/
def collsOfGroup (chrom : List Char) (g : Option Int × List VarDict) : List Coll :=
  match g.1 with
  | some n => [⟨some (intStr n), chrom, g.2⟩]
  | none => g.2.map fun d => ⟨none, chrom, [d]⟩

theorem collsOfGroup_vars (chrom : List Char) (g : Option Int × List VarDict) :
    (collsOfGroup chrom g).flatMap (·.vars) = g.2 := by
  unfold collsOfGroup
  split
  · simp
  · induction g.2 with
    | nil => rfl
    | cons d r ih => simp only [List.map_cons, List.flatMap_cons, List.cons_append, List.nil_append, ih]

theorem sorted_dicts (ds : List VarDict) (hg : GoodPhases ds) :
    ∃ S, (if ds.length ≥ 2 then
            (sortByKey ((ds.map fun d => (sortKey d, d)).filterMap fun p => p.1.map fun k => (k, p.2))).map (·.2)
          else ds) = S
      ∧ S.Perm ds ∧ S.Pairwise (fun a b => skey a ≤ skey b) := by
  have hfm : ((ds.map fun d => (sortKey d, d)).filterMap fun p => p.1.map fun k => (k, p.2))
      = ds.map (fun d => (skey d, d)) := by
    have : ∀ l : List VarDict, (∀ d ∈ l, d.phase ≠ .missing) →
        ((l.map fun d => (sortKey d, d)).filterMap fun p => p.1.map fun k => (k, p.2)) = l.map (fun d => (skey d, d)) := by
      intro l hl
      induction l with
      | nil => rfl
      | cons d r ih =>
        simp only [List.map_cons, List.filterMap_cons, sortKey_good d (hl d (by simp)), Option.map_some]
        rw [ih (fun e he => hl e (List.mem_cons_of_mem _ he))]
    exact this ds (fun d hd => (hg d hd).1)
  split
  · obtain ⟨hp, hs⟩ := sortByKey_spec (ds.map (fun d => (skey d, d)))
    refine ⟨_, by rw [hfm], ?_, ?_⟩
    · have := hp.map (·.2)
      rw [List.map_map] at this
      have e : ((fun x : Int × VarDict => x.2) ∘ fun d => (skey d, d)) = id := rfl
      rw [e, List.map_id] at this
      exact this
    · rw [List.pairwise_map]
      apply hs.imp_of_mem
      intro a b ha hb hab
      have ha' := hp.mem_iff.mp ha
      have hb' := hp.mem_iff.mp hb
      simp only [List.mem_map] at ha' hb'
      obtain ⟨x, _, rfl⟩ := ha'
      obtain ⟨y, _, rfl⟩ := hb'
      exact hab
  · rename_i hlen
    refine ⟨ds, rfl, List.Perm.refl _, ?_⟩
    cases ds with
    | nil => simp
    | cons d r =>
      cases r with
      | nil => simp
      | cons e r' => simp at hlen

/-- T4: the collections of one chromosome (code as it is), for ANY records with non-negative phase sets:
    the call succeeds; every variant lies in exactly one collection (the collections' variants are a permutation of
    the per-ALT variants); a collection is either one unphased variant without id, or all of whose variants carry
    the phase set that is its id; and all variants of one phase set are in ONE collection. -/
theorem vcfColls_partition (chrom : List Char) (recs : List VcfRec) (hps : ∀ r ∈ recs, ∀ n, r.ps = .val n → 0 ≤ n) :
    ∃ cs, vcfColls .current chrom recs = some cs
      ∧ (cs.flatMap (·.vars)).Perm (dictsOf recs)
      ∧ (∀ c ∈ cs, c.seqName = chrom ∧
            ((c.id = none ∧ ∃ d, c.vars = [d] ∧ d.phase = .absent)
             ∨ ∃ n, c.id = some (intStr n) ∧ c.vars ≠ [] ∧ ∀ d ∈ c.vars, d.phase = .val n))
      ∧ (∀ n, ∀ c1 ∈ cs, ∀ c2 ∈ cs, (∃ d ∈ c1.vars, d.phase = .val n) → (∃ e ∈ c2.vars, e.phase = .val n) → c1 = c2) := by
  have hg := dictsOf_good recs hps
  obtain ⟨S, hS, hperm, hsorted⟩ := sorted_dicts (dictsOf recs) hg
  have hgS : ∀ d ∈ S, d.phase ≠ .missing ∧ ∀ n, d.phase = .val n → 0 ≤ n := fun d hd => hg d (hperm.mem_iff.mp hd)
  have hany : ((dictsOf recs).map fun d => (sortKey d, d)).any (fun p => p.1.isNone) = false := by
    rw [List.any_eq_false]
    intro p hp
    simp only [List.mem_map] at hp
    obtain ⟨d, hd, rfl⟩ := hp
    simp [sortKey_good d (hg d hd).1]
  have hgroups := groupByKey_groups S
  obtain ⟨hkeys, _⟩ := groupByKey_keys S hsorted (fun d hd => (hgS d hd).2)
  refine ⟨(groupByKey S).flatMap (collsOfGroup chrom), ?_, ?_, ?_, ?_⟩
  · unfold vcfColls
    have hd : (recs.map (readPS .current)).flatMap vcfDicts = dictsOf recs := rfl
    simp only [hd, hany, Bool.false_eq_true, and_false, if_false, hS]
    rfl
  · have : ((groupByKey S).flatMap (collsOfGroup chrom)).flatMap (·.vars) = S := by
      rw [List.flatMap_assoc]
      exact (flatMap_congr_mem _ _ _ (fun g _ => collsOfGroup_vars chrom g)).trans (groupByKey_flatten S)
    rw [this]; exact hperm
  · intro c hc
    simp only [List.mem_flatMap] at hc
    obtain ⟨g, hg', hcg⟩ := hc
    have hgg := hgroups g hg'
    unfold collsOfGroup at hcg
    cases hk : g.1 with
    | some n =>
      rw [hk] at hcg
      simp only [List.mem_singleton] at hcg
      subst hcg
      refine ⟨rfl, Or.inr ⟨n, rfl, hgg.1, ?_⟩⟩
      intro d hd
      have := hgg.2 d hd
      rw [hk] at this
      unfold groupKey at this
      cases hp : d.phase <;> simp only [hp, reduceCtorEq, Option.some.injEq] at this
      rw [this]
    | none =>
      rw [hk] at hcg
      simp only [List.mem_map] at hcg
      obtain ⟨d, hd, rfl⟩ := hcg
      refine ⟨rfl, Or.inl ⟨rfl, d, rfl, ?_⟩⟩
      have := hgg.2 d hd
      rw [hk] at this
      have hnm := (hgS d (by rw [← groupByKey_flatten S]; exact List.mem_flatMap.mpr ⟨g, hg', hd⟩)).1
      unfold groupKey at this
      cases hp : d.phase with
      | absent => rfl
      | missing => exact absurd hp hnm
      | val n => simp [hp] at this
  · intro n c1 hc1 c2 hc2 ⟨d, hd, hdp⟩ ⟨e, he, hep⟩
    simp only [List.mem_flatMap] at hc1 hc2
    obtain ⟨g1, hg1, hc1⟩ := hc1
    obtain ⟨g2, hg2, hc2⟩ := hc2
    have key : ∀ (g : Option Int × List VarDict) (c : Coll) (x : VarDict), g ∈ groupByKey S → c ∈ collsOfGroup chrom g →
        x ∈ c.vars → x.phase = .val n → g.1 = some n ∧ c = ⟨some (intStr n), chrom, g.2⟩ := by
      intro g c x hg' hc hx hxp
      have hgg := hgroups g hg'
      unfold collsOfGroup at hc
      cases hk : g.1 with
      | some m =>
        rw [hk] at hc
        simp only [List.mem_singleton] at hc
        subst hc
        have := hgg.2 x hx
        rw [hk] at this
        simp only [groupKey, hxp, Option.some.injEq] at this
        subst this
        exact ⟨rfl, rfl⟩
      | none =>
        rw [hk] at hc
        simp only [List.mem_map] at hc
        obtain ⟨y, hy, rfl⟩ := hc
        simp only [List.mem_singleton] at hx
        subst hx
        have := hgg.2 x hy
        rw [hk] at this
        simp [groupKey, hxp] at this
    obtain ⟨k1, e1⟩ := key g1 c1 d hg1 hc1 hd hdp
    obtain ⟨k2, e2⟩ := key g2 c2 e hg2 hc2 he hep
    have : g1 = g2 := pairwise_lt_inj (fun g => ik g.1) _ hkeys g1 hg1 g2 hg2 (by simp only [k1, k2])
    rw [e1, e2, this]

/-! ### all chromosomes -/

theorem groupRuns_mem (recs : List VcfRec) : ∀ g ∈ groupRuns recs, ∀ r ∈ g.2, r ∈ recs ∧ r.chrom = g.1 := by
  induction recs with
  | nil => intro g hg; simp [groupRuns] at hg
  | cons r rs ih =>
    unfold groupRuns
    cases hg : groupRuns rs with
    | nil =>
      intro g hg' x hx
      simp only [List.mem_singleton] at hg'; subst hg'
      simp only [List.mem_singleton] at hx; subst hx
      exact ⟨by simp, rfl⟩
    | cons g0 rest =>
      obtain ⟨c, gl⟩ := g0
      rw [hg] at ih
      simp only
      split
      · rename_i hc
        intro g hg' x hx
        rcases List.mem_cons.mp hg' with rfl | h
        · rcases List.mem_cons.mp hx with rfl | hx'
          · exact ⟨by simp, hc.symm⟩
          · have := ih (c, gl) (by simp) x hx'; exact ⟨List.mem_cons_of_mem _ this.1, this.2⟩
        · have := ih g (List.mem_cons_of_mem _ h) x hx; exact ⟨List.mem_cons_of_mem _ this.1, this.2⟩
      · intro g hg' x hx
        rcases List.mem_cons.mp hg' with rfl | h
        · simp only [List.mem_singleton] at hx; subst hx; exact ⟨by simp, rfl⟩
        · have := ih g h x hx; exact ⟨List.mem_cons_of_mem _ this.1, this.2⟩

theorem dictSet_mem (k : List Char) (v : List Coll) (d : List (List Char × List Coll)) :
    ∀ p ∈ dictSet k v d, p = (k, v) ∨ p ∈ d := by
  induction d with
  | nil => intro p hp; simp only [dictSet, List.mem_singleton] at hp; exact Or.inl hp
  | cons x xs ih =>
    intro p hp
    unfold dictSet at hp
    split at hp
    · rcases List.mem_cons.mp hp with h | h
      · exact Or.inl h
      · exact Or.inr (List.mem_cons_of_mem _ h)
    · rcases List.mem_cons.mp hp with h | h
      · exact Or.inr (by rw [h]; simp)
      · rcases ih p h with h' | h'
        · exact Or.inl h'
        · exact Or.inr (List.mem_cons_of_mem _ h')

/-- `convert_vcf_records_to_model` (code as it is) never fails on records with non-negative phase sets, and every
    entry of its result is the collection list of one run of records of that chromosome (to which
    `vcfColls_partition` applies). -/
theorem convertVcf_total (recs : List VcfRec) (hps : ∀ r ∈ recs, ∀ n, r.ps = .val n → 0 ≤ n) :
    ∃ out, convertVcf .current recs = some out
      ∧ ∀ p ∈ out, ∃ g ∈ groupRuns recs, p.1 = g.1 ∧ vcfColls .current g.1 g.2 = some p.2 := by
  unfold convertVcf
  have hruns := groupRuns_mem recs
  generalize groupRuns recs = runs at hruns
  suffices h : ∀ (runs' : List (List Char × List VcfRec)) (acc : List (List Char × List Coll)),
      (∀ g ∈ runs', g ∈ runs) → (∀ p ∈ acc, ∃ g ∈ runs, p.1 = g.1 ∧ vcfColls .current g.1 g.2 = some p.2) →
      ∃ out, runs'.foldl (fun acc g =>
          match acc, vcfColls .current g.1 g.2 with
          | some d, some cs => some (dictSet g.1 cs d)
          | _, _ => none) (some acc) = some out
        ∧ ∀ p ∈ out, ∃ g ∈ runs, p.1 = g.1 ∧ vcfColls .current g.1 g.2 = some p.2 by
    exact h runs [] (fun g hg => hg) (fun p hp => absurd hp (by simp))
  intro runs'
  induction runs' with
  | nil => intro acc _ hacc; exact ⟨acc, rfl, hacc⟩
  | cons g rest ih =>
    intro acc hsub hacc
    have hg : g ∈ runs := hsub g (by simp)
    obtain ⟨cs, hcs, _⟩ := vcfColls_partition g.1 g.2 (fun r hr => hps r ((hruns g hg r hr).1))
    simp only [List.foldl_cons, hcs]
    apply ih (dictSet g.1 cs acc) (fun x hx => hsub x (List.mem_cons_of_mem _ hx))
    intro p hp
    rcases dictSet_mem g.1 cs acc p hp with h | h
    · exact ⟨g, hg, by rw [h], by rw [h]; exact hcs⟩
    · exact hacc p h

end BioCantor.Proofs.Var
