/-
  C10 — helper lemmas for the lazily filled attributes, the flag-selected `extract_sequence` paths and
  the reference-heap model of `_merge_qualifiers` (`Model.Cache` §3–§5).
-/
import BioCantor.Model.Cache
namespace BioCantor.Proofs.Cache
open BioCantor BioCantor.Model.Cache
open BioCantor.Spec.Cache (Ans CdsOp freshAns isStopCodon lastThree)

/-! ### lazily filled attributes -/

section lazy
set_option linter.unusedSectionVars false
variable {γ ι ν : Type} [DecidableEq ι]

/-- every filled slot holds the pure function's value -/
def LazySound (g : γ → ι → ν) (o : LazyObj γ ι ν) : Prop := ∀ i v, o.slot i = some v → v = g o.core i

theorem lazy_fresh_sound (g : γ → ι → ν) (c : γ) : LazySound g (LazyObj.fresh c) := by
  intro i v h; simp [LazyObj.fresh] at h

theorem lazy_read {g : γ → ι → ν} {o : LazyObj γ ι ν} (hs : LazySound g o) (i : ι) :
    (o.read g i).2 = g o.core i ∧ (o.read g i).1.core = o.core ∧ LazySound g (o.read g i).1 := by
  unfold LazyObj.read
  split
  · rename_i v hv
    exact ⟨hs i v hv, rfl, hs⟩
  · refine ⟨rfl, rfl, ?_⟩
    intro j v hv
    simp only at hv
    split at hv
    · rename_i hj; subst hj; cases hv; rfl
    · exact hs j v hv

theorem lazy_reads {g : γ → ι → ν} : ∀ (is : List ι) {o : LazyObj γ ι ν}, LazySound g o →
    (LazyObj.reads g o is).2 = is.map (g o.core)
  | [], _, _ => rfl
  | i :: is, o, hs => by
    have h := lazy_read hs i
    have ih := lazy_reads (g := g) is h.2.2
    simp only [LazyObj.reads, List.map_cons]
    rw [ih, h.1, h.2.1]

end lazy

/-- `Parent.strand`: the sentinel is either unset or already the computed value -/
def ParentS.Inv (p : ParentS) : Prop := p.prop = none ∨ p.prop = p.compute

theorem parentS_strand {p : ParentS} (h : ParentS.Inv p) :
    p.strand.2 = p.compute ∧ p.strand.1.compute = p.compute ∧ ParentS.Inv p.strand.1 := by
  unfold ParentS.strand
  split
  · rename_i s hs
    rcases h with h | h
    · rw [hs] at h; cases h
    · exact ⟨by rw [← hs, h], rfl, Or.inr h⟩
  · exact ⟨rfl, rfl, Or.inr rfl⟩

theorem parentS_reads : ∀ (n : Nat) {p : ParentS}, ParentS.Inv p →
    (ParentS.reads p n).2 = List.replicate n p.compute
  | 0, _, _ => rfl
  | n + 1, p, h => by
    have hs := parentS_strand h
    have ih := parentS_reads n hs.2.2
    simp only [ParentS.reads, List.replicate_succ]
    rw [ih, hs.1, hs.2.1]

/-! ### the two `extract_sequence` paths -/

section cds
variable {γ : Type}

def letters : Ans → Option (List Char)
  | .seqObj l => some l
  | .str l => some l
  | _ => none

/-- invariant of a CDS history: the constructor data are untouched; a memoised sequence holds the letters of
    path A; a memoised codon count is that of path B; the flag is set only together with the codon memo -/
structure CdsInv (cfg : CdsCfg γ) (c : γ) (s : CdsState γ) : Prop where
  core : s.core = c
  seq : ∀ v, s.seqMemo = some v → letters v = some (cfg.pathA c)
  codons : ∀ n, s.codonsMemo = some n → n = cfg.chunkCodons c

theorem cdsInv_fresh (cfg : CdsCfg γ) (c : γ) : CdsInv cfg c (CdsState.fresh c) :=
  ⟨rfl, by intro v h; simp [CdsState.fresh] at h, by intro n h; simp [CdsState.fresh] at h⟩

theorem listCodons_inv {cfg : CdsCfg γ} {c : γ} {s : CdsState γ} (h : CdsInv cfg c s) :
    CdsInv cfg c (listCodons cfg s).1 ∧ (listCodons cfg s).2 = cfg.chunkCodons c := by
  unfold listCodons
  split
  · rename_i n hn; exact ⟨h, h.codons n hn⟩
  · refine ⟨⟨h.core, h.seq, ?_⟩, by rw [h.core]⟩
    intro n hn; simp only [Option.some.injEq] at hn; rw [← hn, h.core]

theorem extract_inv {cfg : CdsCfg γ} {c : γ} {s : CdsState γ} (heq : cfg.pathA c = cfg.pathB c)
    (h : CdsInv cfg c s) :
    CdsInv cfg c (extract cfg s).1 ∧ letters (extract cfg s).2 = some (cfg.pathA c) := by
  unfold extract
  split
  · rename_i v hv; exact ⟨h, h.seq v hv⟩
  · have hv : letters (if useCachedPath cfg s = true then
          (if cfg.repaired = true then Ans.seqObj (cfg.pathB s.core) else Ans.str (cfg.pathB s.core))
        else Ans.seqObj (cfg.pathA s.core)) = some (cfg.pathA c) := by
      rw [h.core]
      split
      · split <;> simp [letters, heq]
      · simp [letters]
    refine ⟨⟨h.core, ?_, h.codons⟩, hv⟩
    intro v hv'; simp only [Option.some.injEq] at hv'; rw [← hv']; exact hv

/-- for the code as it is (`repaired = true`) the memoised answer is exactly the `Sequence` -/
structure CdsInvW (cfg : CdsCfg γ) (c : γ) (s : CdsState γ) : Prop extends CdsInv cfg c s where
  seqW : ∀ v, s.seqMemo = some v → v = .seqObj (cfg.pathA c)

theorem extract_invW {cfg : CdsCfg γ} {c : γ} {s : CdsState γ} (heq : cfg.pathA c = cfg.pathB c)
    (hw : cfg.repaired = true) (h : CdsInvW cfg c s) :
    CdsInvW cfg c (extract cfg s).1 ∧ (extract cfg s).2 = .seqObj (cfg.pathA c) := by
  have hb := extract_inv heq h.toCdsInv
  refine ⟨⟨hb.1, ?_⟩, ?_⟩
  · unfold extract
    split
    · exact h.seqW
    · intro v hv
      simp only [Option.some.injEq, hw, if_true] at hv
      rw [← hv, h.core]
      split <;> simp [heq]
  · unfold extract
    split
    · rename_i v hv; exact h.seqW v hv
    · simp only [hw, if_true, h.core]
      split <;> simp [heq]

theorem cdsStep_invW {cfg : CdsCfg γ} {c : γ} {s : CdsState γ} (heq : cfg.pathA c = cfg.pathB c)
    (hw : cfg.repaired = true) (h : CdsInvW cfg c s) (o : CdsOp) :
    CdsInvW cfg c (cdsStep cfg s o).1 ∧
      (cdsStep cfg s o).2 = freshAns (cfg.pathA c) (cfg.chunkCodons c) (cfg.totalCodons c) o := by
  cases o with
  | listCodons =>
    have hl := listCodons_inv h.toCdsInv
    refine ⟨⟨hl.1, ?_⟩, ?_⟩
    · intro v hv
      apply h.seqW v
      simp only [cdsStep, listCodons] at hv
      split at hv <;> exact hv
    · simp only [cdsStep, freshAns, hl.2]
  | numCodons =>
    have hl := listCodons_inv h.toCdsInv
    refine ⟨⟨hl.1, ?_⟩, ?_⟩
    · intro v hv
      apply h.seqW v
      simp only [cdsStep, listCodons] at hv
      split at hv <;> exact hv
    · simp only [cdsStep, freshAns, hl.2]
  | extract =>
    have he := extract_invW heq hw h
    exact ⟨he.1, by simp only [cdsStep, freshAns, he.2]⟩
  | validStop =>
    have he := extract_invW heq hw h
    refine ⟨?_, ?_⟩
    · simp only [cdsStep, validStop]
      rw [he.2]; exact he.1
    · simp only [cdsStep, validStop, freshAns]
      rw [he.2]
  | totalCodons => exact ⟨h, by simp only [cdsStep, freshAns, h.core]⟩

theorem cdsRun_patched {cfg : CdsCfg γ} {c : γ} (heq : cfg.pathA c = cfg.pathB c) (hw : cfg.repaired = true) :
    ∀ (hist : List CdsOp) {s : CdsState γ}, CdsInvW cfg c s →
    (cdsRun cfg s hist).2 = hist.map (freshAns (cfg.pathA c) (cfg.chunkCodons c) (cfg.totalCodons c))
  | [], _, _ => rfl
  | o :: os, s, h => by
    have hs := cdsStep_invW heq hw h o
    have ih := cdsRun_patched heq hw os hs.1
    simp only [cdsRun, List.map_cons]
    rw [ih, hs.2]

theorem cdsStep_inv {cfg : CdsCfg γ} {c : γ} {s : CdsState γ} (heq : cfg.pathA c = cfg.pathB c)
    (h : CdsInv cfg c s) (o : CdsOp) :
    CdsInv cfg c (cdsStep cfg s o).1 ∧ (o = .extract → letters (cdsStep cfg s o).2 = some (cfg.pathA c)) := by
  cases o with
  | listCodons => exact ⟨(listCodons_inv h).1, by intro e; cases e⟩
  | numCodons => exact ⟨(listCodons_inv h).1, by intro e; cases e⟩
  | extract => exact ⟨(extract_inv heq h).1, fun _ => (extract_inv heq h).2⟩
  | totalCodons => exact ⟨h, by intro e; cases e⟩
  | validStop =>
    refine ⟨?_, by intro e; cases e⟩
    have he := extract_inv heq h
    simp only [cdsStep, validStop]
    split <;> exact he.1

/-- the answers given at the `extract` steps of a history -/
def extractAnswers : List CdsOp → List Ans → List Ans
  | o :: os, a :: as => if o = .extract then a :: extractAnswers os as else extractAnswers os as
  | _, _ => []

theorem cdsRun_letters {cfg : CdsCfg γ} {c : γ} (heq : cfg.pathA c = cfg.pathB c) :
    ∀ (hist : List CdsOp) {s : CdsState γ}, CdsInv cfg c s →
    ∀ a ∈ extractAnswers hist (cdsRun cfg s hist).2, letters a = some (cfg.pathA c)
  | [], _, _ => by intro a ha; simp [extractAnswers] at ha
  | o :: os, s, h => by
    have hs := cdsStep_inv heq h o
    have ih := cdsRun_letters heq os hs.1
    intro a ha
    simp only [cdsRun, extractAnswers] at ha
    split at ha
    · rename_i ho
      rcases List.mem_cons.mp ha with e | e
      · rw [e]; exact hs.2 ho
      · exact ih a e
    · exact ih a ha

end cds

/-! ### heap frame lemmas for `_merge_qualifiers` -/

/-- every reference held by the dict is at least `n` -/
def RefsGe (n : Nat) (d : Dict) : Prop := ∀ kr ∈ d, n ≤ kr.2

theorem dlookup_mem {k : Nat} {r : Ref} : ∀ {d : Dict}, dlookup k d = some r → (k, r) ∈ d
  | [], h => by simp [dlookup] at h
  | (k', r') :: rest, h => by
    unfold dlookup at h
    split at h
    · rename_i hk; cases h; subst hk; exact List.mem_cons_self
    · exact List.mem_cons_of_mem _ (dlookup_mem h)

/-- `mergeInto` touches only cells the merged dict refers to, and cells it allocates -/
theorem mergeInto_frame (n : Nat) : ∀ (other : List (Nat × List Nat)) (h : Heap) (merged : Dict),
    RefsGe n merged → n ≤ h.length → ∀ r, r < n → (mergeInto h merged other).1[r]? = h[r]?
  | [], _, _, _, _, _, _ => rfl
  | (key, vals) :: rest, h, merged, hm, hn, r, hr => by
    unfold mergeInto
    split
    · rename_i r' hr'
      have hge : n ≤ r' := hm (key, r') (dlookup_mem hr')
      have ih := mergeInto_frame n rest (h.modify r' (fun c => setUpdate c vals)) merged hm
        (by simpa using hn) r hr
      rw [ih, List.getElem?_modify]
      have : r' ≠ r := fun e => by rw [e] at hge; omega
      simp [this]
    · have hm' : RefsGe n (merged ++ [(key, h.length)]) := by
        intro kr hkr
        rcases List.mem_append.mp hkr with e | e
        · exact hm kr e
        · simp only [List.mem_singleton] at e; rw [e]; exact hn
      have ih := mergeInto_frame n rest (h ++ [setUpdate [] vals]) (merged ++ [(key, h.length)]) hm'
        (by simp only [List.length_append, List.length_singleton]; omega) r hr
      rw [ih, List.getElem?_append_left (by omega)]

theorem deepCopy_frame : ∀ (d : Dict) (h : Heap),
    (∀ r, r < h.length → (deepCopy h d).1[r]? = h[r]?) ∧ RefsGe h.length (deepCopy h d).2 ∧
      h.length ≤ (deepCopy h d).1.length
  | [], h => ⟨fun _ _ => rfl, by intro kr hkr; simp [deepCopy] at hkr, Nat.le_refl _⟩
  | (k, r0) :: rest, h => by
    have ih := deepCopy_frame rest (h ++ [cellAt h r0])
    simp only [List.length_append, List.length_singleton] at ih
    refine ⟨?_, ?_, ?_⟩
    · intro r hr
      simp only [deepCopy]
      rw [ih.1 r (by omega), List.getElem?_append_left hr]
    · intro kr hkr
      simp only [deepCopy, List.mem_cons] at hkr
      rcases hkr with e | e
      · rw [e]; exact Nat.le_refl _
      · have := ih.2.1 kr e; omega
    · simp only [deepCopy]; omega

end BioCantor.Proofs.Cache
