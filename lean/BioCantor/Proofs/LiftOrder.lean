/-
  C04, order of the lifted bases: for non-overlapping directional layouts both the composed list and
  the bases of the model's answer are strictly monotone in the same direction, hence equal (they are
  permutations of each other).  Also: the answer of one lift is again non-overlapping.
-/
import BioCantor.Proofs.LiftOnce
namespace BioCantor.Proofs.Lift
open BioCantor BioCantor.Spec BioCantor.Model

abbrev Asc (l : List Nat) : Prop := l.Pairwise (fun a b => a < b)
abbrev Desc (l : List Nat) : Prop := l.Pairwise (fun a b => b < a)

theorem pairwise_of_sortedBy (s : Strand) (L : List Blk) (h : sortedBy (blkLe s) L = true) :
    L.Pairwise (fun a b => blkLe s a b = true) := by
  induction L with
  | nil => simp
  | cons a t ih =>
    cases t with
    | nil => simp
    | cons b rest =>
      simp only [sortedBy, Bool.and_eq_true] at h
      have ih0 := ih h.2
      have ih' := ih0
      rw [List.pairwise_cons] at ih' ⊢
      refine ⟨?_, ih0⟩
      intro x hx
      rcases List.mem_cons.mp hx with rfl | hx
      · exact h.1
      · exact blkLe_trans s a b x h.1 (ih'.1 x hx)

theorem blkLe_fst (s : Strand) (a b : Blk) (h : blkLe s a b = true) : a.1 ≤ b.1 := by
  cases s <;> simp [blkLe, blkLePlus, blkLeOther] at h <;> omega

theorem asc_basesPlus (L : List Blk) (hp : L.Pairwise (fun a b => a.2 ≤ b.1)) : Asc (basesPlus L) := by
  rw [basesPlus_eq_flatMap]
  unfold Asc
  rw [List.pairwise_flatMap]
  refine ⟨fun a _ => List.pairwise_lt_range' .., ?_⟩
  refine hp.imp ?_
  intro a b hab x hx y hy
  rw [mem_blkAsc] at hx hy
  omega

theorem nonoverlap_of_sorted_nodup (s : Strand) (F : List Blk)
    (hs : F.Pairwise (fun a b => blkLe s a b = true)) (hpos : ∀ b ∈ F, b.1 < b.2)
    (hnd : (basesPlus F).Nodup) : F.Pairwise (fun a b => a.2 ≤ b.1) := by
  induction F with
  | nil => simp
  | cons a t ih =>
    rw [List.pairwise_cons] at hs ⊢
    simp only [basesPlus] at hnd
    rw [List.nodup_append] at hnd
    refine ⟨?_, ih hs.2 (fun b hb => hpos b (by simp [hb])) hnd.2.1⟩
    intro b hb
    have h1 := blkLe_fst s a b (hs.1 b hb)
    have hbpos := hpos b (by simp [hb])
    apply Classical.byContradiction
    intro hlt
    have m1 : b.1 ∈ blkAsc a := (mem_blkAsc a b.1).mpr ⟨h1, by omega⟩
    have m2 : b.1 ∈ basesPlus t := (mem_basesPlus t b.1).mpr ⟨b, hb, Nat.le_refl _, hbpos⟩
    exact hnd.2.2 _ m1 _ m2 rfl

theorem nonOverlap_of_pairwise (L : List Blk) (h : L.Pairwise (fun a b => a.2 ≤ b.1)) :
    nonOverlap L = true := by
  induction L with
  | nil => rfl
  | cons a t ih =>
    cases t with
    | nil => rfl
    | cons b rest =>
      rw [List.pairwise_cons] at h
      simp only [nonOverlap, Bool.and_eq_true, decide_eq_true_eq]
      exact ⟨h.1 b (by simp), ih h.2⟩

theorem nodup_of_asc (l : List Nat) (h : Asc l) : l.Nodup :=
  h.imp (fun {a b} hab => by omega)
theorem nodup_of_desc (l : List Nat) (h : Desc l) : l.Nodup :=
  h.imp (fun {a b} hab => by omega)

theorem desc_reverse (l : List Nat) (h : Asc l) : Desc l.reverse := List.pairwise_reverse.mpr h

theorem eq_of_perm_asc {l1 l2 : List Nat} (hp : l1.Perm l2) (h1 : Asc l1) (h2 : Asc l2) : l1 = l2 :=
  List.Perm.eq_of_pairwise (fun a b _ _ hab hba => by omega) h1 h2 hp
theorem eq_of_perm_desc {l1 l2 : List Nat} (hp : l1.Perm l2) (h1 : Desc l1) (h2 : Desc l2) : l1 = l2 :=
  List.Perm.eq_of_pairwise (fun a b _ _ hab hba => by omega) h1 h2 hp

/-- bases of a non-overlapping layout are strictly monotone -/
theorem bases_mono (L : List Blk) (st : Strand) (hv : ∀ b ∈ L, b.1 ≤ b.2) (hno : nonOverlap L = true) :
    if st = .minus then Desc (bases ⟨L, st⟩) else Asc (bases ⟨L, st⟩) := by
  have := asc_basesPlus L (nonOverlap_pairwise L hv hno)
  rw [bases_mk]
  split
  · exact desc_reverse _ this
  · exact this

theorem map_getD_pairwise (B : List Nat) (R T : Nat → Nat → Prop)
    (hB : ∀ i j, i < B.length → j < B.length → R i j → T (B.getD i 0) (B.getD j 0))
    (xs : List Nat) (hxs : xs.Pairwise R) (hb : ∀ i ∈ xs, i < B.length) :
    (xs.map (fun i => B.getD i 0)).Pairwise T := by
  rw [List.pairwise_map]
  exact hxs.imp_of_mem (fun {a b} ha hb' hab => hB a b (hb a ha) (hb b hb') hab)

theorem getD_lt_of_asc (B : List Nat) (h : Asc B) (i j : Nat) (hi : i < B.length) (hj : j < B.length)
    (hij : i < j) : B.getD i 0 < B.getD j 0 := by
  have := List.pairwise_iff_getElem.mp h i j hi hj hij
  simpa [List.getD_eq_getElem?_getD, hi, hj] using this

theorem getD_gt_of_desc (B : List Nat) (h : Desc B) (i j : Nat) (hi : i < B.length) (hj : j < B.length)
    (hij : i < j) : B.getD j 0 < B.getD i 0 := by
  have := List.pairwise_iff_getElem.mp h i j hi hj hij
  simpa [List.getD_eq_getElem?_getD, hi, hj] using this

/-- composition of monotone readings: direction = compose of the two strands -/
theorem through_mono (xs B : List Nat) (cst pst : Strand) (hc : cst ≠ .unstranded) (hp : pst ≠ .unstranded)
    (hxs : if cst = .minus then Desc xs else Asc xs) (hB : if pst = .minus then Desc B else Asc B)
    (hb : ∀ i ∈ xs, i < B.length) :
    if compose cst pst = .minus then Desc (xs.map (fun i => B.getD i 0))
    else Asc (xs.map (fun i => B.getD i 0)) := by
  cases cst <;> cases pst <;> simp only [ne_eq, not_true, reduceCtorEq, not_false_iff, if_true, if_false, compose] at hc hp hxs hB ⊢
  · exact map_getD_pairwise B _ _ (fun i j hi hj hij => getD_lt_of_asc B hB i j hi hj hij) xs hxs hb
  · exact map_getD_pairwise B _ _ (fun i j hi hj hij => getD_gt_of_desc B hB i j hi hj hij) xs hxs hb
  · exact map_getD_pairwise B _ _ (fun i j hi hj hij => getD_lt_of_asc B hB j i hj hi hij) xs hxs hb
  · exact map_getD_pairwise B _ _ (fun i j hi hj hij => getD_gt_of_desc B hB j i hj hi hij) xs hxs hb

theorem toLoc_eq (p : Location) (pl : Loc) (h : toLoc p = some pl) :
    pl = ⟨locationBlocks p, strandOf p⟩ ∧ p ≠ .empty := by
  cases p <;> simp [toLoc] at h <;> subst h <;> simp [locationBlocks, strandOf, locationStrand?]

theorem sorted_of_wf (m : Location) (s : Strand) (hs : locationStrand? m = some s) (hwf : wfLocation m = true) :
    (locationBlocks m).Pairwise (fun a b => blkLe s a b = true) := by
  cases m with
  | single b s' => simp [locationBlocks]
  | compound l =>
    simp only [locationStrand?, Option.some.injEq] at hs
    have : l.Canon := by simpa [wfLocation] using hwf
    rw [← hs]
    exact pairwise_of_sortedBy _ _ this.2.2
  | empty => simp [locationBlocks]

theorem liftOnce_exact (c p m : Location) (hc : WF c) (hp : WF p) (pl : Loc) (hpl : toLoc p = some pl)
    (hce : c ≠ .empty) (hcs : strandOf c ≠ .unstranded) (hps : pl.strand ≠ .unstranded)
    (hin : ∀ i ∈ locationBases c, i < pl.len)
    (hgm : Good (compose (strandOf c) pl.strand) m)
    (hperm : (basesPlus (locationBlocks m)).Perm
      ((basesPlus (locationBlocks c)).map (fun i => (bases pl).getD i 0)))
    (hpos : ∀ x ∈ locationBlocks m, x.1 < x.2)
    (hnoc : nonOverlap (locationBlocks c) = true) (hnop : nonOverlap pl.blocks = true) :
    locationBases m = (locationBases c).map (fun i => (bases pl).getD i 0) ∧
      nonOverlap (locationBlocks m) = true := by
  obtain ⟨hpleq, hpe⟩ := toLoc_eq p pl hpl
  have hcv := wfLocation_valid c ((wf_iff c).mp hc)
  have hpv : ∀ b ∈ pl.blocks, b.1 ≤ b.2 := by
    rw [hpleq]; exact wfLocation_valid p ((wf_iff p).mp hp)
  have hcb := locationBases_eq c _ (locationStrand_of_ne c hce)
  have hmb := locationBases_eq m _ hgm.1
  generalize hF : locationBlocks m = F at *
  generalize hC : locationBlocks c = C at *
  generalize hcst : strandOf c = cst at *
  obtain ⟨P, pst⟩ := pl
  simp only at hps hnop hpv hgm hmb
  have m1 := bases_mono C cst hcv hnoc
  have m2 := bases_mono P pst hpv hnop
  rw [← hcb] at m1
  have hin' : ∀ i ∈ locationBases c, i < (bases ⟨P, pst⟩).length := by
    intro i hi; rw [bases_length]; exact hin i hi
  have m3 := through_mono (locationBases c) (bases ⟨P, pst⟩) cst pst hcs hps m1 m2 hin'
  generalize hys : (locationBases c).map (fun i => (bases ⟨P, pst⟩).getD i 0) = ys at *
  have hp2 : (basesPlus F).Perm ys := by
    refine hperm.trans ?_
    rw [← hys, hcb]
    exact ((bases_perm_basesPlus C cst).map _).symm
  have hnd : (basesPlus F).Nodup := by
    apply hp2.symm.nodup
    split at m3
    · exact nodup_of_desc _ m3
    · exact nodup_of_asc _ m3
  have hsorted := sorted_of_wf m _ hgm.1 hgm.2
  rw [hF] at hsorted
  have hpw := nonoverlap_of_sorted_nodup _ F hsorted hpos hnd
  have hasc := asc_basesPlus F hpw
  refine ⟨?_, nonOverlap_of_pairwise F hpw⟩
  rw [hmb, bases_mk]
  split
  · rename_i hmin
    rw [if_pos hmin] at m3
    exact eq_of_perm_desc ((List.reverse_perm _).trans hp2) (desc_reverse _ hasc) m3
  · rename_i hmin
    rw [if_neg hmin] at m3
    exact eq_of_perm_asc hp2 hasc m3

end BioCantor.Proofs.Lift
