/-
  The fast path of `CDSInterval.extract_sequence` and the codon iterator on top of it, in terms of the
  (location, offset) pair prepared by `_prepare_*_window_for_scan_codon_locations`.
-/
import BioCantor.Proofs.CDSTriples
import BioCantor.Proofs.Common
namespace BioCantor.Proofs
open BioCantor BioCantor.Model BioCantor.Spec

/-- If the prepared location reads as the letters `s` (one letter per position), the fast path returns the
    concatenation of the consecutive triples of `s` from the offset on. -/
theorem extractSequence_fast (c : CDS) (loc : Location) (off : Int) (s : List Char) (hoff : 0 ≤ off)
    (hp : prepare c none = .ok (loc, off)) (hs : locationSeq c.seq loc = .ok s) (hlen : s.length = locLen loc) :
    extractSequence c = .ok (triples (s.drop off.toNat)).flatten := by
  unfold extractSequence
  simp only [hp, hs, bind, Except.bind, pure, Except.pure, Except.ok.injEq]
  have := pySlice_fast s off.toNat
  have e : ((off.toNat : Nat) : Int) = off := by omega
  rw [e, hlen] at this
  exact this

/-- … hence its length is a multiple of three -/
theorem extractSequence_fast_mod3 (c : CDS) (loc : Location) (off : Int) (s : List Char) (hoff : 0 ≤ off)
    (hp : prepare c none = .ok (loc, off)) (hs : locationSeq c.seq loc = .ok s) (hlen : s.length = locLen loc) :
    ∃ r, extractSequence c = .ok r ∧ r.length % 3 = 0 :=
  ⟨_, extractSequence_fast c loc off s hoff hp hs hlen, triples_flatten_length _⟩

end BioCantor.Proofs
