/-
  C04: one lift step in the form used by the chain inductions, `composeLevels` invariances, the
  letters clause (pure spec), and the reduction of `okLifted` to its obligations.
-/
import BioCantor.Proofs.LiftOrder
namespace BioCantor.Proofs.Lift
open BioCantor BioCantor.Spec BioCantor.Model

theorem compose_ne_left (a b : Strand) (h : compose a b ≠ .unstranded) : a ≠ .unstranded := by
  cases a <;> cases b <;> simp [compose] at h ⊢

theorem strandOf_of (m : Location) (s : Strand) (h : locationStrand? m = some s) : strandOf m = s := by
  simp [strandOf, h]

theorem lift_step (c p : Location) (hc : WF c) (hp : WF p) (hce : c ≠ .empty) :
    (ans (liftOnce c p) = none ∧
        (locationBases c = [] ∨ throughPlacement p (locationBases c) = none)) ∨
    (∃ m ys, liftOnce c p = .ok m ∧ throughPlacement p (locationBases c) = some ys ∧
      locationBases c ≠ [] ∧ WF m ∧ m ≠ .empty ∧
      strandOf m = compose (strandOf c) (strandOf p) ∧ (locationBases m).Perm ys ∧
      (nonOverlap (locationBlocks c) = true → nonOverlap (locationBlocks p) = true →
        compose (strandOf c) (strandOf p) ≠ .unstranded →
        locationBases m = ys ∧ nonOverlap (locationBlocks m) = true) ∧
      ((locationBlocks c).length ≤ 1 → (locationBlocks p).length ≤ 1 →
        (locationBlocks m).length ≤ 1)) := by
  by_cases hlc : locLen c = 0
  · left
    refine ⟨liftOnce_fail c p hce (Or.inr hlc), Or.inl ?_⟩
    exact List.eq_nil_of_length_eq_zero (by rw [locationBases_length]; exact hlc)
  cases hth : throughPlacement p (locationBases c) with
  | none => left; exact ⟨liftOnce_fail c p hce (Or.inl hth), Or.inr rfl⟩
  | some ys =>
    right
    have hth' := hth
    rw [throughPlacement_eq] at hth'
    cases hpl : toLoc p with
    | none => rw [hpl] at hth'; simp at hth'
    | some pl =>
      rw [hpl] at hth'
      simp only at hth'
      by_cases hu : pl.strand = .unstranded
      · rw [if_pos hu] at hth'; simp at hth'
      rw [if_neg hu] at hth'
      by_cases hall : ∀ i ∈ locationBases c, i < pl.len
      · rw [if_pos hall] at hth'
        have hys := Option.some.inj hth'
        obtain ⟨hpleq, hpe⟩ := toLoc_eq p pl hpl
        have hpst : pl.strand = strandOf p := by rw [hpleq]
        have hpb : pl.blocks = locationBlocks p := by rw [hpleq]
        have hcb := locationBases_eq c _ (locationStrand_of_ne c hce)
        have hin : ∀ b ∈ locationBlocks c, b.1 < b.2 → b.2 ≤ pl.len := by
          intro b hb hlt
          have h1 : b.2 - 1 ∈ basesPlus (locationBlocks c) :=
            (mem_basesPlus _ _).mpr ⟨b, hb, by omega, by omega⟩
          have h2 : b.2 - 1 ∈ locationBases c := by
            rw [hcb]; exact (bases_perm_basesPlus _ _).mem_iff.mpr h1
          have := hall _ h2
          omega
        obtain ⟨m, hm, hgm, hperm, hpos, hone⟩ := liftOnce_ok c p hp pl hpl hu hce (by omega) hin
        have hmne : m ≠ .empty := by
          intro h; rw [h] at hgm; simp [Good, locationStrand?] at hgm
        have hmb := locationBases_eq m _ hgm.1
        refine ⟨m, ys, hm, rfl, ?_, (wf_iff m).mpr hgm.2, hmne, ?_, ?_, ?_, ?_⟩
        · intro h
          have := locationBases_length c
          rw [h] at this; simp at this; omega
        · rw [← hpst]; exact strandOf_of m _ hgm.1
        · rw [hmb, ← hys, hcb]
          exact (bases_perm_basesPlus _ _).trans
            (hperm.trans ((bases_perm_basesPlus _ _).map _).symm)
        · intro hnoc hnop hdir
          rw [← hpst] at hdir
          rw [← hpb] at hnop
          have := liftOnce_exact c p m hc hp pl hpl hce (compose_ne_left _ _ hdir) hu hall hgm hperm
            (hpos hnop) hnoc hnop
          rw [← hys]; exact this
        · intro h1 h2
          exact hone h1 (by rw [hpb]; exact h2)
      · rw [if_neg hall] at hth'; simp at hth'

/-! ### `composeLevels` -/

theorem throughPlacement_perm (p : Location) {xs xs' : List Nat} (h : xs.Perm xs') :
    (throughPlacement p xs = none → throughPlacement p xs' = none) ∧
    (∀ ys, throughPlacement p xs = some ys → ∃ ys', throughPlacement p xs' = some ys' ∧ ys.Perm ys') := by
  rw [throughPlacement_eq, throughPlacement_eq]
  cases toLoc p with
  | none => simp
  | some pl =>
    simp only
    by_cases hu : pl.strand = .unstranded
    · simp [hu]
    · rw [if_neg hu, if_neg hu]
      have hiff : (∀ i ∈ xs, i < pl.len) ↔ (∀ i ∈ xs', i < pl.len) :=
        ⟨fun H i hi => H i (h.mem_iff.mpr hi), fun H i hi => H i (h.mem_iff.mp hi)⟩
      by_cases hall : ∀ i ∈ xs, i < pl.len
      · rw [if_pos hall, if_pos (hiff.mp hall)]
        refine ⟨by simp, ?_⟩
        intro ys hys
        exact ⟨_, rfl, (Option.some.inj hys) ▸ h.map _⟩
      · rw [if_neg hall, if_neg (fun H => hall (hiff.mpr H))]
        simp

theorem throughPlacement_length (p : Location) (xs ys : List Nat) (hth : throughPlacement p xs = some ys) :
    ys.length = xs.length := by
  rw [throughPlacement_eq] at hth
  cases hpl : toLoc p with
  | none => rw [hpl] at hth; simp at hth
  | some pl =>
    rw [hpl] at hth
    simp only at hth
    split at hth
    · simp at hth
    · split at hth
      · rw [← Option.some.inj hth]; simp
      · simp at hth

theorem composeLevels_perm (ps : List (Option Location)) : ∀ (xs xs' : List Nat) (st : Strand), xs.Perm xs' →
    (composeLevels xs st ps = none → composeLevels xs' st ps = none) ∧
    (∀ ys w, composeLevels xs st ps = some (ys, w) →
      ∃ ys', composeLevels xs' st ps = some (ys', w) ∧ ys.Perm ys') := by
  induction ps with
  | nil =>
    intro xs xs' st h
    simp only [composeLevels]
    refine ⟨by simp, ?_⟩
    intro ys w hyw
    simp only [Option.some.injEq, Prod.mk.injEq] at hyw
    exact ⟨xs', by rw [hyw.2], hyw.1 ▸ h⟩
  | cons q ps ih =>
    intro xs xs' st h
    cases q with
    | none => simp [composeLevels]
    | some p =>
      simp only [composeLevels]
      obtain ⟨t1, t2⟩ := throughPlacement_perm p h
      cases hth : throughPlacement p xs with
      | none => rw [t1 hth]; simp
      | some zs =>
        obtain ⟨zs', hz', hzp⟩ := t2 zs hth
        rw [hz']
        exact ih zs zs' _ hzp

theorem composeLevels_dir (ps : List (Option Location)) : ∀ (xs : List Nat) (st : Strand) (ys : List Nat)
    (w : Strand), composeLevels xs st ps = some (ys, w) → w ≠ .unstranded → st ≠ .unstranded := by
  induction ps with
  | nil =>
    intro xs st ys w h hw
    simp only [composeLevels, Option.some.injEq, Prod.mk.injEq] at h
    rw [h.2]; exact hw
  | cons q ps ih =>
    intro xs st ys w h hw
    cases q with
    | none => simp [composeLevels] at h
    | some p =>
      simp only [composeLevels] at h
      cases hth : throughPlacement p xs with
      | none => rw [hth] at h; simp at h
      | some zs =>
        rw [hth] at h
        exact compose_ne_left _ _ (ih zs _ ys w h hw)

/-! ### the obligations of `okLifted` as a proposition -/

def LiftedProp (c : Location) (places : List (Option Location)) (a : Option Location) : Prop :=
  (locationBases c = [] ∧ a = none) ∨
  ((composeLevels (locationBases c) (strandOf c) places = none → a = none) ∧
   (∀ want wst, composeLevels (locationBases c) (strandOf c) places = some (want, wst) →
      ∃ m, a = some m ∧ locationStrand? m = some wst ∧ wfLocation m = true ∧
        (locationBases m).Perm want ∧
        (allNonOverlap c places = true → wst ≠ .unstranded → locationBases m = want)))

theorem lifted_base (c : Location) (hc : WF c) (hce : c ≠ .empty) : LiftedProp c [] (some c) := by
  right
  refine ⟨by simp [composeLevels], ?_⟩
  intro want wst h
  simp only [composeLevels, Option.some.injEq, Prod.mk.injEq] at h
  refine ⟨c, rfl, ?_, (wf_iff c).mp hc, ?_, ?_⟩
  · rw [← h.2]; exact locationStrand_of_ne c hce
  · rw [h.1]
  · intro _ _; exact h.1

theorem lifted_none (c : Location) (rest : List (Option Location)) : LiftedProp c (none :: rest) none := by
  right; simp [composeLevels]

theorem lifted_fail (c p : Location) (rest : List (Option Location))
    (h : locationBases c = [] ∨ throughPlacement p (locationBases c) = none) :
    LiftedProp c (some p :: rest) none := by
  rcases h with h | h
  · left; exact ⟨h, rfl⟩
  · right; simp [composeLevels, h]

theorem lifted_step (c p m : Location) (ys : List Nat) (rest : List (Option Location)) (a : Option Location)
    (hth : throughPlacement p (locationBases c) = some ys) (hcne : locationBases c ≠ [])
    (hst : strandOf m = compose (strandOf c) (strandOf p)) (hperm : (locationBases m).Perm ys)
    (hex : nonOverlap (locationBlocks c) = true → nonOverlap (locationBlocks p) = true →
        compose (strandOf c) (strandOf p) ≠ .unstranded →
        locationBases m = ys ∧ nonOverlap (locationBlocks m) = true)
    (ih : LiftedProp m rest a) : LiftedProp c (some p :: rest) a := by
  have hlen := throughPlacement_length p _ ys hth
  have hmne : locationBases m ≠ [] := by
    intro h
    have := hperm.length_eq
    rw [h, hlen] at this
    exact hcne (List.eq_nil_of_length_eq_zero this.symm)
  rcases ih with ih | ⟨ih1, ih2⟩
  · exact absurd ih.1 hmne
  right
  simp only [composeLevels, hth]
  rw [hst] at ih1 ih2
  obtain ⟨c1, c2⟩ := composeLevels_perm rest ys (locationBases m) (compose (strandOf c) (strandOf p)) hperm.symm
  refine ⟨?_, ?_⟩
  · intro h; exact ih1 (c1 h)
  · intro want wst h
    obtain ⟨want', hw', hwp⟩ := c2 want wst h
    obtain ⟨r, hr, hrs, hrw, hrp, hre⟩ := ih2 want' wst hw'
    refine ⟨r, hr, hrs, hrw, hrp.trans hwp.symm, ?_⟩
    intro hall hwst
    have hdir := composeLevels_dir rest ys _ want wst h hwst
    simp only [allNonOverlap, List.all_cons, Bool.and_eq_true] at hall
    obtain ⟨hm1, hm2⟩ := hex hall.1 hall.2.1 hdir
    rw [hm1] at hw'
    rw [h] at hw'
    have : want = want' := by
      have := Option.some.inj hw'
      exact (Prod.mk.inj this).1
    rw [this]
    apply hre _ hwst
    simp only [allNonOverlap, Bool.and_eq_true]
    exact ⟨hm2, hall.2.2⟩

/-! ### the letters clause -/

theorem complACGT_invol (c : Char) : complACGT (complACGT c) = c := by
  by_cases hA : c = 'A'
  · subst hA; rfl
  by_cases hC : c = 'C'
  · subst hC; rfl
  by_cases hG : c = 'G'
  · subst hG; rfl
  by_cases hT : c = 'T'
  · subst hT; rfl
  have : complACGT c = c := by
    unfold complACGT
    split <;> simp_all
  rw [this, this]

theorem compose_ne_right (a b : Strand) (h : compose a b ≠ .unstranded) : b ≠ .unstranded := by
  cases a <;> cases b <;> simp [compose] at h ⊢

/-- reading on the composed strand = reading on the upper strand, then on the lower -/
theorem letter_compose (cst pst : Strand) (hc : cst ≠ .unstranded) (hp : pst ≠ .unstranded) (d : Char) :
    (if compose cst pst = .minus then complACGT d else d) =
      (if cst = .minus then complACGT (if pst = .minus then complACGT d else d)
       else (if pst = .minus then complACGT d else d)) := by
  cases cst <;> cases pst <;> simp [compose, complACGT_invol] at hc hp ⊢

theorem mapM_lookup {α β : Type} (f : α → Option β) (B : List α) : ∀ (sa : List β), B.mapM f = some sa →
    ∀ (x : Nat) (y : α), B[x]? = some y → ∃ ch, sa[x]? = some ch ∧ f y = some ch := by
  induction B with
  | nil => intro sa _ x y hy; simp at hy
  | cons b B ih =>
    intro sa h x y hy
    rw [List.mapM_cons] at h
    simp only [bind, Option.bind_eq_some_iff, pure, Option.some.injEq] at h
    obtain ⟨c0, hc0, r, hr, rfl⟩ := h
    cases x with
    | zero =>
      simp only [List.getElem?_cons_zero, Option.some.injEq] at hy
      subst hy
      exact ⟨c0, by simp, hc0⟩
    | succ x =>
      simp only [List.getElem?_cons_succ] at hy ⊢
      exact ih r hr x y hy

theorem readSeq_compose (sa sb : List Char) (B : List Nat) (cst pst : Strand) (hc : cst ≠ .unstranded)
    (hp : pst ≠ .unstranded) (hB : readSeq sb B pst = some sa) :
    ∀ (xs ys : List Nat) (own : List Char), xs.mapM (fun i => B[i]?) = some ys →
      readSeq sa xs cst = some own → readSeq sb ys (compose cst pst) = some own := by
  intro xs
  induction xs with
  | nil =>
    intro ys own h1 h2
    simp only [List.mapM_nil, pure, Option.some.injEq] at h1
    simp only [readSeq, List.mapM_nil, pure, Option.some.injEq] at h2
    subst h1; subst h2; rfl
  | cons x xs ih =>
    intro ys own h1 h2
    rw [List.mapM_cons] at h1
    simp only [bind, Option.bind_eq_some_iff, pure, Option.some.injEq] at h1
    obtain ⟨y, hy, ys', hys', rfl⟩ := h1
    unfold readSeq at h2
    rw [List.mapM_cons] at h2
    simp only [bind, Option.bind_eq_some_iff, pure, Option.some.injEq, Option.map_eq_some_iff] at h2
    obtain ⟨_, ⟨ch, hch, rfl⟩, own', hown', rfl⟩ := h2
    obtain ⟨ch', hch', hf⟩ := mapM_lookup _ B sa hB x y hy
    rw [hch] at hch'
    have hcc := Option.some.inj hch'
    subst hcc
    simp only [Option.map_eq_some_iff] at hf
    obtain ⟨d, hd, hdc⟩ := hf
    have iht := ih ys' own' hys' hown'
    unfold readSeq at iht ⊢
    rw [List.mapM_cons, iht, hd]
    simp only [Option.map_some, bind, Option.bind_some, pure]
    rw [letter_compose cst pst hc hp d, hdc]

theorem toLoc_bases (p : Location) (pl : Loc) (h : toLoc p = some pl) : locationBases p = bases pl := by
  cases p <;> simp [toLoc] at h <;> subst h <;> rfl

theorem seq_clause : ∀ (k : Nat) (levels : List SLevel) (xs : List Nat) (cst : Strand) (want : List Nat)
    (wst : Strand) (s0 sk own : List Char),
    Consistent levels → (levels.take (k + 1)).all (fun l => l.seq.isSome) = true →
    composeLevels xs cst (((levels.drop 1).take k).map (·.place)) = some (want, wst) →
    wst ≠ .unstranded →
    (levels[0]?).bind (·.seq) = some s0 → (levels[k]?).bind (·.seq) = some sk →
    readSeq s0 xs cst = some own → readSeq sk want wst = some own := by
  intro k
  induction k with
  | zero =>
    intro levels xs cst want wst s0 sk own _ _ hcl _ h0 hk hown
    simp only [List.take_zero, List.map_nil, composeLevels, Option.some.injEq, Prod.mk.injEq] at hcl
    rw [h0] at hk
    rw [← Option.some.inj hk, ← hcl.1, ← hcl.2]; exact hown
  | succ k ih =>
    intro levels xs cst want wst s0 sk own hcons hall hcl hw h0 hk hown
    match levels, hcons, hall, hcl, h0, hk with
    | [], _, _, _, h0, _ => simp at h0
    | [a], _, _, _, _, hk => simp at hk
    | a :: b :: rest, hcons, hall, hcl, h0, hk =>
      simp only [List.drop_succ_cons, List.drop_zero, List.take_succ_cons, List.map_cons] at hcl
      simp only [List.take_succ_cons, List.all_cons, Bool.and_eq_true] at hall
      simp only [List.getElem?_cons_zero, Option.bind_some] at h0
      simp only [List.getElem?_cons_succ] at hk
      cases hbp : b.place with
      | none => rw [hbp] at hcl; simp [composeLevels] at hcl
      | some p =>
        rw [hbp] at hcl
        simp only [composeLevels] at hcl
        cases hth : throughPlacement p xs with
        | none => rw [hth] at hcl; simp at hcl
        | some zs =>
          rw [hth] at hcl
          simp only at hcl
          obtain ⟨sb, hsb⟩ := Option.isSome_iff_exists.mp hall.2.1
          have hdir := composeLevels_dir _ zs _ want wst hcl hw
          have hcs := compose_ne_left _ _ hdir
          have hps := compose_ne_right _ _ hdir
          have hc2 : readSeq sb (locationBases p) (strandOf p) = some s0 ∧ Consistent (b :: rest) := by
            simpa only [Consistent, h0, hsb, hbp] using hcons
          -- unfold the placement map
          have hth' := hth
          unfold throughPlacement at hth'
          cases hpl : toLoc p with
          | none => rw [hpl] at hth'; simp at hth'
          | some pl =>
            rw [hpl] at hth'
            simp only at hth'
            split at hth'
            · simp at hth'
            · rw [toLoc_bases p pl hpl] at hc2
              have hstep := readSeq_compose s0 sb (bases pl) cst (strandOf p) hcs hps hc2.1 xs zs own hth' hown
              refine ih (b :: rest) zs (compose cst (strandOf p)) want wst sb sk own hc2.2 ?_ ?_ hw ?_ hk hstep
              · simp only [List.take_succ_cons, List.all_cons, Bool.and_eq_true]
                exact hall.2
              · simpa using hcl
              · simp [hsb]

/-! ### from the obligations to the spec predicate -/

theorem okLifted_empty (levels : List SLevel) (k : Nat) : okLifted .empty levels k none = true := by
  simp [okLifted]

theorem okLifted_of (c : Location) (levels : List SLevel) (k : Nat) (a : Option Location)
    (hcons : Consistent levels) (hce : c ≠ .empty)
    (h : LiftedProp c (((levels.drop 1).take k).map (·.place)) a) : okLifted c levels k a = true := by
  unfold okLifted
  have hb : (c == Location.empty) = false := by simpa using hce
  simp only [hb, Bool.false_eq_true, if_false]
  rcases h with ⟨h1, h2⟩ | ⟨h1, h2⟩
  · rw [if_pos ⟨by simp [h1], by simp [h2]⟩]
  by_cases hesc : (locationBases c).isEmpty = true ∧ a.isNone = true
  · rw [if_pos hesc]
  rw [if_neg hesc]
  cases hcl : composeLevels (locationBases c) (strandOf c) (((levels.drop 1).take k).map (·.place)) with
  | none => simp [h1 hcl]
  | some ww =>
    obtain ⟨want, wst⟩ := ww
    obtain ⟨m, hm, hms, hmw, hmp, hme⟩ := h2 want wst hcl
    subst hm
    simp only [hms, hmw, beq_self_eq_true, Bool.true_and, Bool.and_eq_true, answerBases]
    by_cases hc : (allNonOverlap c (List.map (fun x => x.place) (List.take k (List.drop 1 levels))) = true ∧
            wst ≠ Strand.unstranded ∧ strandOf c ≠ Strand.unstranded)
    · have hc' := hc
      have hexact := hme hc'.1 hc'.2.1
      refine ⟨by rw [if_pos hc]; simpa using hexact, ?_⟩
      by_cases hall : ((List.take (k + 1) levels).all fun l => l.seq.isSome) = true
      · rw [if_neg (fun hn => hn hall)]
        split
        · rename_i s0 sk h0 hk
          rw [if_pos hc]
          split
          · rfl
          · rename_i own hown
            rw [hexact]
            have := seq_clause k levels _ _ want wst s0 sk own hcons hall hcl hc'.2.1 h0 hk hown
            simp [this]
        · rfl
      · rw [if_pos hall]
    · refine ⟨by rw [if_neg hc]; simpa using sortNat_perm hmp, ?_⟩
      split
      · rfl
      · split
        · simp
        · rfl

end BioCantor.Proofs.Lift
