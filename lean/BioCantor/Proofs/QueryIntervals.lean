/-
  C09 helper lemmas, part 8: interval-GUID queries (`query_by_interval_guids` and the typed variants,
  `child.query_by_guids`) are their set-builder specifications; kept children keep only requested grandchildren.
-/
import BioCantor.Proofs.QueryIds
set_option linter.unusedSimpArgs false
namespace BioCantor.Proofs.Query
open BioCantor BioCantor.Spec BioCantor.Spec.Query BioCantor.Model.Query

/-! ### generic: picking by key in the order of the ids = filtering, as a set -/

theorem filterMap_dictGet_perm {α} (key : α → Nat) (l : List α) (hnd : (l.map key).Nodup)
    (ids : List Nat) (hids : ids.Nodup) :
    (ids.filterMap (dictGet key l)).Perm (l.filter (fun x => ids.contains (key x))) := by
  rw [List.perm_ext_iff_of_nodup]
  · intro c
    rw [List.mem_filterMap, List.mem_filter]
    constructor
    · rintro ⟨k, hk, hd⟩
      obtain ⟨hm, hg⟩ := dictGet_some _ _ _ _ hd
      exact ⟨hm, by rw [hg]; exact List.contains_iff_mem.mpr hk⟩
    · rintro ⟨hm, hc⟩
      exact ⟨key c, List.contains_iff_mem.mp hc, dictGet_of_mem _ _ hnd c hm⟩
  · rw [List.nodup_iff_pairwise_ne] at hids ⊢
    refine List.Pairwise.filterMap _ ?_ hids
    intro a a' hne b hb b' hb' heq
    subst heq
    have h1 := (dictGet_some _ _ _ _ hb).2
    have h2 := (dictGet_some _ _ _ _ hb').2
    omega
  · exact (nodup_of_nodup_map key _ hnd).sublist List.filter_sublist

theorem mem_dedup (l : List Nat) : ∀ x, x ∈ dedup l ↔ x ∈ l := by
  induction l with
  | nil => intro x; simp [dedup]
  | cons a as ih =>
    intro x
    unfold dedup
    split
    · rename_i h
      have ha : a ∈ as := (ih a).mp (List.contains_iff_mem.mp h)
      rw [ih x, List.mem_cons]
      constructor
      · exact Or.inr
      · rintro (rfl | h')
        · exact ha
        · exact h'
    · rw [List.mem_cons, List.mem_cons, ih x]

theorem nodup_dedup (l : List Nat) : (dedup l).Nodup := by
  induction l with
  | nil => simp [dedup]
  | cons a as ih =>
    unfold dedup
    split
    · exact ih
    · rename_i h
      rw [List.nodup_cons]
      exact ⟨fun hm => h (List.contains_iff_mem.mpr hm), ih⟩

/-! ### sorting by a numeric key is canonical on lists with distinct keys -/

theorem sortByKey_eq {α} (key : α → Nat) {A B : List α} (hp : A.Perm B) (hnd : (B.map key).Nodup) :
    A.mergeSort (fun a b => decide (key a ≤ key b)) = B.mergeSort (fun a b => decide (key a ≤ key b)) := by
  have htrans : ∀ (a b c : α), decide (key a ≤ key b) = true → decide (key b ≤ key c) = true →
      decide (key a ≤ key c) = true := by
    intro a b c; simp only [decide_eq_true_eq]; omega
  have htot : ∀ (a b : α), (decide (key a ≤ key b) || decide (key b ≤ key a)) = true := by
    intro a b; simp only [Bool.or_eq_true, decide_eq_true_eq]; omega
  refine List.Perm.eq_of_pairwise (le := fun a b => decide (key a ≤ key b) = true) ?_
    (List.pairwise_mergeSort htrans htot A) (List.pairwise_mergeSort htrans htot B)
    ((List.mergeSort_perm A _).trans (hp.trans (List.mergeSort_perm B _).symm))
  intro a b ha hb hab hba
  have ha' : a ∈ B := hp.mem_iff.mp ((List.mergeSort_perm A _).mem_iff.mp ha)
  have hb' : b ∈ B := (List.mergeSort_perm B _).mem_iff.mp hb
  simp only [decide_eq_true_eq] at hab hba
  exact nodup_map_inj key B hnd a ha' b hb' (by omega)

/-! ### `child.query_by_guids` -/

theorem hullOf_eq_none_iff (l : List (Int × Int)) : hullOf l = none ↔ l = [] := by
  cases l with
  | nil => simp [hullOf, minList]
  | cons x xs => obtain ⟨a, b⟩ := x; rw [hullOf_cons]; simp

/-- the requested grandchildren, in the order of the ids -/
def pickGcs (ids : List Nat) (c : Child) : List GChild := ids.filterMap (dictGet GChild.guid c.gcs)
/-- the requested grandchildren, in the child's own order (the spec's form) -/
def filterGcs (ids : List Nat) (c : Child) : List GChild := c.gcs.filter (fun x => ids.contains x.guid)

theorem pickGcs_perm (ids : List Nat) (c : Child) (hg : (c.gcs.map GChild.guid).Nodup) (hids : ids.Nodup) :
    (pickGcs ids c).Perm (filterGcs ids c) := filterMap_dictGet_perm GChild.guid c.gcs hg ids hids

theorem pickGcs_nodup (ids : List Nat) (c : Child) (hg : (c.gcs.map GChild.guid).Nodup) (hids : ids.Nodup) :
    ((pickGcs ids c).map GChild.guid).Nodup := by
  rw [((pickGcs_perm ids c hg hids).map GChild.guid).nodup_iff]
  unfold filterGcs
  rw [List.nodup_iff_pairwise_ne, List.pairwise_map] at hg ⊢
  exact List.Pairwise.filter _ hg

/-! ### variant collections: sorted, checked for overlaps -/

/-- what `VariantIntervalCollection.__init__` establishes for the harness's sources: the variants are listed by
    start, pairwise disjoint, and none is empty (`VariantInterval` refuses `start == end`) -/
def VarOK (c : Child) : Prop :=
  c.gcs.Pairwise (fun x y => x.stop ≤ y.start) ∧ ∀ x ∈ c.gcs, x.start < x.stop

theorem pairwise_mem_or {α} {R : α → α → Prop} {l : List α} (h : l.Pairwise R) {x y : α} (hx : x ∈ l) (hy : y ∈ l)
    (hne : x ≠ y) : R x y ∨ R y x := by
  induction l with
  | nil => cases hx
  | cons a as ih =>
    rw [List.pairwise_cons] at h
    rcases List.mem_cons.mp hx with rfl | hx' <;> rcases List.mem_cons.mp hy with rfl | hy'
    · exact absurd rfl hne
    · exact Or.inl (h.1 y hy')
    · exact Or.inr (h.1 x hx')
    · exact ih h.2 hx' hy'

def byGStart (x y : GChild) : Bool := decide (x.start ≤ y.start)

/-- the requested grandchildren as the model's new child holds them: variants re-sorted by start -/
def pickM (ids : List Nat) (c : Child) : List GChild :=
  match c.kind with
  | .var => (pickGcs ids c).mergeSort (fun x y => decide (x.start ≤ y.start))
  | _ => pickGcs ids c

theorem pickM_perm_pick (ids : List Nat) (c : Child) : (pickM ids c).Perm (pickGcs ids c) := by
  unfold pickM
  cases c.kind
  · exact List.Perm.refl _
  · exact List.Perm.refl _
  · exact List.mergeSort_perm _ _

theorem relLoc_disjoint (par : Par) (x y : GChild) (h : x.stop ≤ y.start) (hx : x.start < x.stop)
    (hy : y.start < y.stop) : relOverlap par x y = false := by
  unfold relOverlap
  cases par with
  | chunk cs seq =>
    unfold chunkRelLoc
    simp only []
    rw [overlapInt_iff _ _ _ _ (by omega) (by omega), overlapInt_iff _ _ _ _ (by omega) (by omega)]
    by_cases h1 : x.start < cs + (seq.length : Int) ∧ cs < x.stop ∧ x.start < x.stop ∧ cs < cs + (seq.length : Int)
    · by_cases h2 : y.start < cs + (seq.length : Int) ∧ cs < y.stop ∧ y.start < y.stop ∧ cs < cs + (seq.length : Int)
      · simp only [h1, h2, and_self, decide_true, if_true]
        rw [overlapInt_iff _ _ _ _ (by omega) (by omega)]
        simp only [decide_eq_false_iff_not]
        omega
      · simp only [decide_eq_true h1, decide_eq_false h2, if_true, Bool.false_eq_true, if_false]
    · simp only [h1, decide_false, Bool.false_eq_true, if_false]
  | none =>
    simp only [chunkRelLoc]; rw [overlapInt_iff _ _ _ _ (by omega) (by omega)]
    simp only [decide_eq_false_iff_not]; omega
  | noseq =>
    simp only [chunkRelLoc]; rw [overlapInt_iff _ _ _ _ (by omega) (by omega)]
    simp only [decide_eq_false_iff_not]; omega
  | whole _ =>
    simp only [chunkRelLoc]; rw [overlapInt_iff _ _ _ _ (by omega) (by omega)]
    simp only [decide_eq_false_iff_not]; omega

theorem adjOverlap_false (par : Par) (l : List GChild) (h : l.Pairwise (fun x y => x.stop ≤ y.start))
    (hne : ∀ x ∈ l, x.start < x.stop) : adjOverlap par l = false := by
  induction l with
  | nil => rfl
  | cons x xs ih =>
    cases xs with
    | nil => rfl
    | cons y ys =>
      rw [List.pairwise_cons] at h
      unfold adjOverlap
      rw [relLoc_disjoint par x y (h.1 y List.mem_cons_self) (hne x List.mem_cons_self)
        (hne y (List.mem_cons_of_mem _ List.mem_cons_self)),
        ih h.2 (fun z hz => hne z (List.mem_cons_of_mem _ hz))]
      rfl

theorem pick_sub (ids : List Nat) (c : Child) (x : GChild) (hx : x ∈ pickGcs ids c) : x ∈ c.gcs := by
  unfold pickGcs at hx
  rw [List.mem_filterMap] at hx
  obtain ⟨k, _, hd⟩ := hx
  exact (dictGet_some _ _ _ _ hd).1

/-- the start-sorted selection of pairwise disjoint non-empty variants is pairwise disjoint in that order -/
theorem sorted_pick_disjoint (ids : List Nat) (c : Child) (hv : VarOK c) (hg : (c.gcs.map GChild.guid).Nodup)
    (hids : ids.Nodup) :
    ((pickGcs ids c).mergeSort (fun x y => decide (x.start ≤ y.start))).Pairwise (fun x y => x.stop ≤ y.start) := by
  have hsorted : ((pickGcs ids c).mergeSort (fun x y => decide (x.start ≤ y.start))).Pairwise
      (fun x y => decide (x.start ≤ y.start) = true) :=
    List.pairwise_mergeSort (by intro a b c; simp only [decide_eq_true_eq]; omega)
      (by intro a b; simp only [Bool.or_eq_true, decide_eq_true_eq]; omega) _
  have hperm := List.mergeSort_perm (pickGcs ids c) (fun x y => decide (x.start ≤ y.start))
  have hnd : ((pickGcs ids c).mergeSort (fun x y => decide (x.start ≤ y.start))).Pairwise (· ≠ ·) := by
    have := nodup_of_nodup_map GChild.guid _ (pickGcs_nodup ids c hg hids)
    rw [List.nodup_iff_pairwise_ne] at this
    exact hperm.symm.pairwise this (fun h => Ne.symm h)
  refine List.Pairwise.imp_of_mem ?_ (hsorted.and hnd)
  intro x y hx hy hxy
  have hx' := pick_sub ids c x (hperm.mem_iff.mp hx)
  have hy' := pick_sub ids c y (hperm.mem_iff.mp hy)
  have hle : x.start ≤ y.start := by simpa using hxy.1
  rcases pairwise_mem_or hv.1 hx' hy' hxy.2 with h | h
  · exact h
  · have := hv.2 y hy'
    omega

/-- `child.query_by_guids(ids)`: `None` iff no grandchild is requested … -/
theorem childQueryByGuids_none (par : Par) (c : Child) (ids : List Nat)
    (h : hullOf ((pickGcs ids c).map fun g => (g.start, g.stop)) = none) :
    childQueryByGuids par c ids = .ok none := by
  unfold childQueryByGuids
  unfold pickGcs at h
  simp only [h]
  rfl

/-- … else the SAME child (guid, kind, identifiers) holding exactly the requested grandchildren (variants re-sorted
    by start; they stay disjoint, so the constructor's overlap check passes), span = their hull -/
theorem childQueryByGuids_some (par : Par) (c : Child) (ids : List Nat) (hk : c.kind = .var → VarOK c)
    (hg : (c.gcs.map GChild.guid).Nodup) (hids : ids.Nodup) (a b : Int)
    (h : hullOf ((pickGcs ids c).map fun g => (g.start, g.stop)) = some (a, b)) :
    childQueryByGuids par c ids = .ok (some { c with gcs := pickM ids c, start := a, stop := b }) := by
  have hnd := pickGcs_nodup ids c hg hids
  unfold childQueryByGuids pickM
  unfold pickGcs at h hnd ⊢
  simp only [h]
  have hdup : decide (¬ (List.map GChild.guid (List.filterMap (dictGet GChild.guid c.gcs) ids)).Nodup) = false := by
    simp only [decide_eq_false_iff_not, Classical.not_not]; exact hnd
  cases hkk : c.kind with
  | var =>
    have hv := hk hkk
    have hdis := sorted_pick_disjoint ids c hv hg hids
    unfold pickGcs at hdis
    have hadj := adjOverlap_false par _ hdis (fun x hx => hv.2 x (by
      have := (List.mergeSort_perm _ _).mem_iff.mp hx
      exact pick_sub ids c x this))
    simp only [hadj, hdup, Bool.false_eq_true, if_false]
    rfl
  | gene => simp only [hdup, Bool.false_eq_true, if_false]; rfl
  | feat => simp only [hdup, Bool.false_eq_true, if_false]; rfl

/-- the spec's `reduceChild` has the same hull (the two grandchild lists are permutations of each other) -/
theorem reduceChild_none (ids : List Nat) (c : Child) (hg : (c.gcs.map GChild.guid).Nodup) (hids : ids.Nodup)
    (h : hullOf ((pickGcs ids c).map fun g => (g.start, g.stop)) = none) : reduceChild ids c = none := by
  have hp := hullOf_perm ((pickGcs_perm ids c hg hids).map fun g => (g.start, g.stop))
  rw [h] at hp
  unfold reduceChild
  unfold filterGcs at hp
  simp only [← hp]

theorem reduceChild_some (ids : List Nat) (c : Child) (hg : (c.gcs.map GChild.guid).Nodup) (hids : ids.Nodup)
    (a b : Int) (h : hullOf ((pickGcs ids c).map fun g => (g.start, g.stop)) = some (a, b)) :
    reduceChild ids c = some { c with gcs := filterGcs ids c, start := a, stop := b } := by
  have hp := hullOf_perm ((pickGcs_perm ids c hg hids).map fun g => (g.start, g.stop))
  rw [h] at hp
  unfold reduceChild
  unfold filterGcs at hp ⊢
  simp only [← hp]

/-! ### results whose members agree up to the order of members and of grandchildren -/

theorem reduced_norm_eq (rp rp' : RPar) (hrp : rp.norm = rp'.norm) (c : Child) (txs g : List GChild) (a b : Int)
    (hp : txs.Perm g) (hnd : (g.map GChild.guid).Nodup)
    (hseq : ∀ x ∈ g, (memberSeq rp x).norm = (expectMSeq rp x).norm) :
    (liftChildP rp { c with gcs := txs, start := a, stop := b }).norm
      = (expectChild rp' { c with gcs := g, start := a, stop := b }).norm := by
  unfold liftChildP expectChild RChild.norm
  simp only [List.map_map, RChild.mk.injEq, true_and]
  have e : g.map (RGChild.norm ∘ expectGChild rp') = g.map (RGChild.norm ∘ liftG rp) := by
    apply List.map_congr_left
    intro x hx
    simp only [Function.comp, RGChild.norm, expectGChild, liftG]
    rw [hseq x hx, expectMSeq_congr hrp]
  rw [e]
  apply sortByKey_eq (fun x : RGChild => x.guid)
  · exact hp.map _
  · simp only [List.map_map]
    have : ((fun x : RGChild => x.guid) ∘ RGChild.norm ∘ liftG rp) = GChild.guid := by
      funext x; rfl
    rw [this]; exact hnd

/-- general form of `result_norm_eq`: the rebuilt members agree with the expected ones as a multiset of
    normal forms -/
theorem result_norm_eq_gen (keptM keptS : List Child) (rp rp' : RPar) (hrp : rp.norm = rp'.norm)
    (hnorm : (keptM.map fun c => (liftChildP rp c).norm).Perm (keptS.map fun c => (expectChild rp' c).norm))
    (hnd : (keptS.map Child.guid).Nodup) (start stop : Int) :
    (⟨start, stop, ((partKinds keptM).mergeSort byStart).map (liftChildP rp), rp⟩ : Result).norm
      = (⟨start, stop, keptS.map (expectChild rp'), rp'⟩ : Result).norm := by
  unfold Result.norm
  simp only [Result.mk.injEq, true_and]
  refine ⟨?_, hrp⟩
  simp only [List.map_map]
  apply sortByKey_eq (fun x : RChild => x.guid)
  · exact ((sortedKids_perm keptM).map _).trans hnorm
  · simp only [List.map_map]
    have : ((fun x : RChild => x.guid) ∘ RChild.norm ∘ expectChild rp') = Child.guid := by
      funext c; rfl
    rw [this]; exact hnd

theorem buildNew_meets_gen (src : Source) (wf : SrcWF src) (bs be : Int) (hb : selfBounds src = some (bs, be))
    (keptM keptS : List Child) (hk : ∀ c ∈ keptM, ChildHull c)
    (hnorm : ∀ rp rp', rp.norm = rp'.norm → RPShape src rp →
      (keptM.map fun c => (liftChildP rp c).norm).Perm (keptS.map fun c => (expectChild rp' c).norm))
    (hnd : (keptS.map Child.guid).Nodup)
    (start stop : Int) (hdom : SubsetDomain src start stop) :
    ∃ r, buildNew src keptM start stop = .ok r ∧ r.norm = (expectResult src start stop keptS).norm := by
  obtain ⟨rp, hsp, hn, hne, hshape⟩ := subsetParent_spec src wf bs be hb start stop hdom
  refine ⟨_, buildNew_eq src keptM start stop rp hsp hne hk, ?_⟩
  unfold expectResult
  exact result_norm_eq_gen keptM keptS rp _ hn (hnorm rp _ hn hshape) hnd start stop

theorem returnForIdQueries_meets_gen (src : Source) (wf : SrcWF src) (bs be : Int)
    (hb : selfBounds src = some (bs, be)) (keptM keptS : List Child) (hk : ∀ c ∈ keptM, ChildHull c)
    (hspan : (keptM.map fun c => (c.start, c.stop)).Perm (keptS.map fun c => (c.start, c.stop)))
    (hnorm : ∀ rp rp', rp.norm = rp'.norm → RPShape src rp →
      (keptM.map fun c => (liftChildP rp c).norm).Perm (keptS.map fun c => (expectChild rp' c).norm))
    (hnd : (keptS.map Child.guid).Nodup) :
    okIdResult src keptS (toAns (returnForIdQueries src keptM)) = true := by
  unfold okIdResult expectIdResult returnForIdQueries
  rw [specBounds_eq_self hb, checkSource_ok wf.cons, needBounds_of hb]
  simp only [bind, Except.bind]
  have hbnd : idQueryBounds bs be keptM = idBounds bs be keptS := by
    rw [idQueryBounds_eq]
    unfold idBounds
    rw [hullOf_cons]
    have hperm : ((partKinds keptM).map fun c => (c.start, c.stop)).Perm (keptS.map fun c => (c.start, c.stop)) :=
      ((partKinds_perm keptM).map _).trans hspan
    rw [foldl_min_perm (hperm.map _) bs, foldl_max_perm (hperm.map _) be]
  rw [hbnd]
  generalize hnb : idBounds bs be keptS = nb
  obtain ⟨ns, ne⟩ := nb
  simp only []
  obtain ⟨r, hr, hrn⟩ := buildNew_meets_gen src wf bs be hb keptM keptS hk hnorm hnd ns ne
    (idBounds_subset src wf bs be hb keptS ns ne hnb)
  rw [hr]
  simp only [toAns, meets, beq_iff_eq]
  exact hrn

end BioCantor.Proofs.Query
