/-
  C09 helper lemmas, part 6: the modelled CURRENT code deviates from the specification on the finding inputs
  (general forms; the concrete witnesses are in Props/C09.lean).
-/
import BioCantor.Proofs.QueryPos
namespace BioCantor.Proofs.Query
open BioCantor BioCantor.Spec BioCantor.Spec.Query BioCantor.Model.Query

/-- F-C09a: with `coding_only` the loop raises AttributeError at a VariantIntervalCollection -/
theorem keepChild_variant (cw : Bool) (myBins : Option GenP.RangeSet) (s e : Int) (c : Child) (hk : c.kind = .var) :
    keepChild true cw myBins s e c = .error .attributeError := by
  unfold keepChild isCoding
  rw [hk]
  rfl

theorem filterQ_error (f : Child → QR Bool) (E : QErr) (l : List Child)
    (hall : ∀ c ∈ l, (∃ b, f c = .ok b) ∨ f c = .error E) (hex : ∃ c ∈ l, f c = .error E) :
    filterQ f l = .error E := by
  induction l with
  | nil => obtain ⟨c, hc, _⟩ := hex; cases hc
  | cons a as ih =>
    unfold filterQ
    rcases hall a List.mem_cons_self with ⟨b, hb⟩ | hb
    · rw [hb]
      obtain ⟨c, hc, hce⟩ := hex
      rcases List.mem_cons.mp hc with rfl | hc'
      · rw [hb] at hce; cases hce
      · rw [ih (fun x hx => hall x (List.mem_cons_of_mem _ hx)) ⟨c, hc', hce⟩]
        rfl
    · rw [hb]; rfl

/-- F-C09a (general): a collection holding a variant collection cannot be queried with `coding_only=True`:
    for every valid range the loop ends in AttributeError -/
theorem queryKept_codingOnly_variant (src : Source) (s e : Int) (cw : Bool) (hs : 0 ≤ s) (hse : s < e)
    (hwf : ∀ c ∈ src.children, ChildWF c) (hv : ∃ c ∈ src.children, c.kind = .var) :
    queryKept src s e cw true = .error .attributeError := by
  unfold queryKept
  have key : ∀ myBins, (myBins = none ∨ (cw = true ∧ ∃ S, myBins = some S ∧
      Gen.bins s e .bed false = .ok (.many S))) →
      filterQ (keepChild true cw myBins s e) (iterChildren src) = .error .attributeError := by
    intro myBins hb
    apply filterQ_error
    · intro c hc
      by_cases hk : c.kind = .var
      · exact Or.inr (keepChild_variant cw myBins s e c hk)
      · exact Or.inl ⟨_, keepChild_eq true cw s e hs hse c (hwf c (mem_iterChildren.mp hc)) (fun _ => hk) myBins hb⟩
    · obtain ⟨c, hc, hk⟩ := hv
      exact ⟨c, mem_iterChildren.mpr hc, keepChild_variant cw myBins s e c hk⟩
  by_cases hb : cw = true ∧ s ≠ 0 ∧ e ≠ 0
  · obtain ⟨S, hS1, hS2⟩ := binsAll_total s e
    obtain ⟨hcw, h1, h2⟩ := hb
    subst hcw
    simp only [h1, h2, ne_eq, not_false_eq_true, and_self, if_true, hS1, bind, Except.bind, pure, Except.pure]
    exact key (some S) (Or.inr ⟨rfl, S, rfl, hS2⟩)
  · simp only [hb, if_false, bind, Except.bind, pure, Except.pure]
    exact key none (Or.inl rfl)

end BioCantor.Proofs.Query
