/-
  C09 helper lemmas, part 6: facts around the findings.
  F-C09a is REPAIRED in /repo (88921fc: `VariantIntervalCollection.is_coding` returns False); what used to be the
  deviation witness is now the positive statement: with `coding_only` a variant collection is never kept.
-/
import BioCantor.Proofs.QueryPos
namespace BioCantor.Proofs.Query
open BioCantor BioCantor.Spec BioCantor.Spec.Query BioCantor.Model.Query

theorem keepSpec_variant (cw : Bool) (s e : Int) (c : Child) (hk : c.kind = .var) :
    keepSpec true cw s e c = false := by
  unfold keepSpec Child.isCoding
  rw [hk]
  rfl

/-- after the repair of F-C09a: with `coding_only` the loop skips a VariantIntervalCollection (it used to raise
    AttributeError there) -/
theorem keepChild_variant (cw : Bool) (myBins : Option GenP.RangeSet) (s e : Int) (c : Child) (hk : c.kind = .var) :
    keepChild true cw myBins s e c = .ok false := by
  unfold keepChild isCoding
  rw [hk]
  rfl

/-- … so a coding-only query succeeds on collections holding variant collections and keeps none of them -/
theorem queryKept_codingOnly_variant (src : Source) (s e : Int) (cw : Bool) (hs : 0 ≤ s) (hse : s < e)
    (hwf : ∀ c ∈ src.children, ChildWF c) :
    ∃ kept, queryKept src s e cw true = .ok kept ∧ ∀ c ∈ kept, c.kind ≠ .var ∧ c.coding = true := by
  refine ⟨_, queryKept_eq src s e cw true hs hse hwf, ?_⟩
  intro c hc
  unfold specFilter at hc
  have hk := (List.mem_filter.mp hc).2
  unfold keepSpec Child.isCoding at hk
  cases hkind : c.kind <;> simp_all

end BioCantor.Proofs.Query
