/- C13-T5 (positive part): collections whose variants before the right-most one are "transparent" for the location —
   they keep the length, or lie wholly to the right of it.  That is the complement of the recorded finding F-C13a on
   single-block locations; there the sequential application coded in the library equals the simultaneous edit. -/
import BioCantor.Proofs.VarFull
namespace BioCantor.Proofs.Var
open BioCantor BioCantor.Spec.Variants BioCantor.GenP BioCantor.Model
open BioCantor.Model.Variants (Var altSeq1 altSeqN kernel liftSingle liftSeqSingleStop liftN reparent toChromosome Par slice
  Ver)

/-- removing the left-most edit of a chain does not move `p` when the edit starts at or after `p`, or ends at or
    before `p` and keeps the length -/
theorem newPos_drop_head (ref : Seq) (u : Edit) (rest : List Edit) (p : Nat) (hp : p ≤ ref.length)
    (hch : Chain ref.length (u :: rest)) (h : p ≤ u.s ∨ (u.e ≤ p ∧ u.alt.length = u.e - u.s)) :
    newPos ref (u :: rest) p = newPos ref rest p := by
  have hu := chain_head hch
  have hl := chain_later hch
  have hq_rest : ∀ hi, hi ≤ u.e → Quiet rest 0 hi := by
    intro hi hhi y hy
    have := hl.2 y hy
    exact ⟨this.2.1, Or.inr (by omega)⟩
  rcases h with h | ⟨h1, h2⟩
  · unfold newPos
    rw [image_quiet ref (u :: rest) 0 p (Nat.zero_le _) hp (by
          intro y hy
          rcases List.mem_cons.mp hy with rfl | hy'
          · exact ⟨hu, Or.inr h⟩
          · have := hl.2 y hy'; exact ⟨this.2.1, Or.inr (by omega)⟩),
        image_quiet ref rest 0 p (Nat.zero_le _) hp (hq_rest p (by omega))]
  · rw [newPos_mono_split ref (u :: rest) u.e p h1, newPos_mono_split ref (u :: rest) u.s u.e (Nat.le_of_lt hu),
        newPos_mono_split ref rest u.e p h1]
    have e1 : newPos ref (u :: rest) u.s = u.s := by
      unfold newPos
      rw [image_quiet ref (u :: rest) 0 u.s (Nat.zero_le _) (by omega) (chain_quiet_before hch)]
      simp; omega
    have e2 : newPos ref rest u.e = u.e := by
      unfold newPos
      rw [image_quiet ref rest 0 u.e (Nat.zero_le _) hl.1 (hq_rest u.e (Nat.le_refl _))]
      simp; omega
    rw [e1, e2, image_edit ref (u :: rest) u (chain_isolated hch), image_drop_head ref u rest u.e p hu (Nat.le_refl _)]
    omega

/-- `u` does not move the block `b`: it keeps the length or lies wholly to the right of the block -/
def Transparent (u : Var) (b : Blk) : Prop := u.alt.length = u.e - u.s ∨ b.2 ≤ u.s

theorem newPos_transparent (ref : Seq) (pre : List Var) (v : Var) (b : Blk) (p : Nat) (hpb : p = b.1 ∨ p = b.2)
    (hb : b.1 ≤ b.2) (hbn : b.2 ≤ ref.length)
    (hch : Chain ref.length ((pre ++ [v]).map (toEdit 0)))
    (hpre : ∀ u ∈ pre, Clean u b ∧ Transparent u b) :
    newPos ref ((pre ++ [v]).map (toEdit 0)) p = newPos ref [toEdit 0 v] p := by
  induction pre with
  | nil => rfl
  | cons u r ih =>
    simp only [List.cons_append, List.map_cons] at hch ⊢
    have hu := hpre u (by simp)
    have hus : (toEdit 0 u).s < (toEdit 0 u).e := chain_head hch
    simp only [toEdit, Nat.sub_zero] at hus
    rw [newPos_drop_head ref (toEdit 0 u) _ p (by rcases hpb with rfl | rfl <;> omega) hch (by
      simp only [toEdit, Nat.sub_zero]
      obtain ⟨hc, ht⟩ := hu
      unfold Clean at hc
      unfold Transparent at ht
      rcases hpb with rfl | rfl <;> omega)]
    exact ih (chain_tail hch) (fun w hw => hpre w (List.mem_cons_of_mem _ hw))

theorem kernel_transparent (u : Var) (b : Blk) (st : Strand) (hu : u.s < u.e) (hb : b.1 < b.2) (ht : Transparent u b) :
    kernel u b st = .ok (some b) := by
  rcases ht with h | h
  · exact kernel_same_length u b st (by omega) (Nat.le_of_lt hb)
  · unfold kernel
    have := k_right ⟨u.s, u.e, u.alt.length⟩ ⟨b.1, b.2, st⟩ ⟨by simp, by simp only; omega, by simp⟩
      ⟨by simp, by simp only; omega⟩ (by simp only; omega)
    unfold liftK at this
    rw [this]
    simp only [pure, Except.pure, Int.toNat_natCast]

/-- the loop as it is, over transparent variants followed by one more variant -/
theorem liftSeqSingleStop_transparent (pre : List Var) (v : Var) (b : Blk) (st : Strand) (hb : b.1 < b.2)
    (hpre : ∀ u ∈ pre, u.s < u.e ∧ Transparent u b) :
    liftSeqSingleStop (pre ++ [v]) (.single b st) = liftSingle v (.single b st) := by
  induction pre with
  | nil =>
    simp only [List.nil_append, liftSeqSingleStop, bind, Except.bind]
    cases liftSingle v (.single b st) with
    | error e => rfl
    | ok l => cases l <;> rfl
  | cons u r ih =>
    have hu := hpre u (by simp)
    simp only [List.cons_append, liftSeqSingleStop, liftSingle, kernel_transparent u b st hu.1 hb hu.2, bind,
      Except.bind, pure, Except.pure]
    exact ih (fun w hw => hpre w (List.mem_cons_of_mem _ hw))

/-- T5, positive part, through the real entry point: `VariantIntervalCollection.lift_over_location` (code as it is) on
    a whole chromosome and a single-block location, for a sorted disjoint collection in which every variant is wholly
    inside or outside the block and every variant before the right-most one is transparent: the answer is the image
    of the block under ALL edits (EmptyLocation when no base remains). -/
theorem liftN_transparent_single (ref : Seq) (pre : List Var) (v : Var) (b : Blk) (st : Strand)
    (hb : b.1 < b.2) (hbn : b.2 ≤ ref.length)
    (hch : Chain ref.length ((pre ++ [v]).map (toEdit 0)))
    (hpre : ∀ u ∈ pre, Clean u b ∧ Transparent u b) (hv : Clean v b) :
    liftN .current .whole ref (pre ++ [v]) (.single b st) =
      (match nonEmpty (imageBlock ref ((pre ++ [v]).map (toEdit 0)) b) with
       | some ib => .ok (.single ib st)
       | none => .ok .empty) := by
  -- the last variant is a valid edit inside the sequence
  have hvlast : (toEdit 0 v).s < (toEdit 0 v).e ∧ (toEdit 0 v).e ≤ ref.length := by
    clear hpre hv
    induction pre with
    | nil => exact hch
    | cons u r ih => exact ih (chain_tail (by simpa using hch))
  simp only [toEdit, Nat.sub_zero] at hvlast
  have hpos : ∀ u ∈ pre, u.s < u.e := by
    clear hpre hv hvlast
    induction pre with
    | nil => intro u hu; exact absurd hu (by simp)
    | cons w r ih =>
      intro u hu
      have hch' : Chain ref.length (toEdit 0 w :: (r ++ [v]).map (toEdit 0)) := by simpa using hch
      rcases List.mem_cons.mp hu with rfl | hu'
      · have := chain_head hch'; simpa [toEdit] using this
      · exact ih (chain_tail hch') u hu'
  have himg : imageBlock ref ((pre ++ [v]).map (toEdit 0)) b = imageBlock ref [toEdit 0 v] b := by
    unfold imageBlock
    rw [newPos_transparent ref pre v b b.1 (Or.inl rfl) (Nat.le_of_lt hb) hbn hch hpre,
        newPos_transparent ref pre v b b.2 (Or.inr rfl) (Nat.le_of_lt hb) hbn hch hpre]
  have halt := altSeqN_altOf 0 ref (pre ++ [v]) (by simp) hch
  have hle : (imageBlock ref ((pre ++ [v]).map (toEdit 0)) b).2 ≤ (altSeqN 0 ref (pre ++ [v])).length := by
    rw [halt]; exact newPos_le_altLen ref _ b.2 hbn
  have hver : (Ver.current = Ver.descending) = False := by simp
  simp only [liftN, toChromosome, Par.off, bind, Except.bind, pure, Except.pure, hver, if_false]
  rw [liftSeqSingleStop_transparent pre v b st hb (fun u hu => ⟨hpos u hu, (hpre u hu).2⟩)]
  simp only [liftSingle, kernel_clean ref v b st hvlast.1 hvlast.2 hb hbn hv, bind, Except.bind, pure, Except.pure]
  rw [himg] at hle ⊢
  cases hne : nonEmpty (imageBlock ref [toEdit 0 v] b) with
  | none => rfl
  | some ib =>
    have := (nonEmpty_some hne).1
    have hgt : ¬ (ib.2 > (altSeqN 0 ref (pre ++ [v])).length) := by rw [this]; omega
    simp only [reparent, hgt, if_false, pure, Except.pure]

/-- … and the block it returns reads, on the collection's alternative sequence, the edited image of the block's
    reference bases under ALL edits -/
theorem collection_block_reads (ref : Seq) (vs : List Var) (b : Blk) (hne : vs ≠ []) (hb : b.1 ≤ b.2)
    (hbn : b.2 ≤ ref.length) (hch : Chain ref.length (vs.map (toEdit 0))) :
    slice (altSeqN 0 ref vs) (imageBlock ref (vs.map (toEdit 0)) b) = image ref (vs.map (toEdit 0)) b.1 b.2 := by
  rw [altSeqN_altOf 0 ref vs hne hch]
  unfold slice imageBlock
  exact slice_image ref _ b.1 b.2 hb hbn

end BioCantor.Proofs.Var
