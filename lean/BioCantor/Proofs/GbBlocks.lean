/-
  C12 — block lists through the parser model: the sorts of `find_exon_interval` / `find_cds_interval` give back the
  ascending source blocks whatever the order of the parts (ascending, or descending for minus-strand records), and
  the CDS clip `cds.intersection(transcript span)` is the identity on CDS blocks that lie inside the span and are
  separated by real gaps (F-C12c is the 0-bp-gap exception).
-/
import BioCantor.Proofs.GbSpan
import BioCantor.Proofs.RelBasics
import BioCantor.Proofs.RelInterval
import BioCantor.Model.GenbankParse
namespace BioCantor.Proofs.Gb
open BioCantor BioCantor.Spec.Qual BioCantor.Spec.Gb BioCantor.Model BioCantor.Model.Gb

/-! ### a sorted permutation is what `mergeSort` returns -/

theorem mergeSort_eq_of_sorted_perm {α} (le : α → α → Bool)
    (trans : ∀ (a b c : α), le a b → le b c → le a c) (total : ∀ (a b : α), le a b || le b a)
    (l s : List α) (hanti : ∀ a b, a ∈ l → b ∈ l → le a b → le b a → a = b)
    (hs : s.Pairwise (fun a b => le a b)) (hp : s.Perm l) : l.mergeSort le = s := by
  have hm := List.mergeSort_perm l le
  apply List.Perm.eq_of_pairwise (le := fun a b => le a b = true)
  · intro a b ha hb hab hba
    exact hanti a b (hm.mem_iff.mp ha) (hp.mem_iff.mp hb) hab hba
  · exact List.pairwise_mergeSort trans total l
  · exact hs
  · exact hm.trans hp.symm

/-! ### ascending block lists -/

theorem asc_pairwise : ∀ (bs : List Blk), Asc bs → bs.Pairwise (fun a b => a.2 ≤ b.1)
  | [], _ => List.Pairwise.nil
  | [_], _ => by simp
  | a :: b :: rest, h => by
    have ih := asc_pairwise (b :: rest) h.tail
    refine List.Pairwise.cons ?_ ih
    intro x hx
    have h2 := h.2
    simp only [nonOverlap, Bool.and_eq_true, decide_eq_true_eq] at h2
    have := asc_head_le rest b h.tail x hx
    omega

theorem asc_fst_lt (bs : List Blk) (h : Asc bs) : bs.Pairwise (fun a b => a.1 < b.1) :=
  Proofs.fst_lt_of_asc bs (asc_pairwise bs h) h.1

theorem blkLe_antisymm (s : Strand) (a b : Blk) (h1 : blkLe s a b = true) (h2 : blkLe s b a = true) : a = b := by
  cases s <;>
    (simp only [blkLe, blkLePlus, blkLeOther, Bool.or_eq_true, Bool.and_eq_true, decide_eq_true_eq, beq_iff_eq] at h1 h2
     apply Prod.ext <;> omega)

/-- the `CompoundInterval` constructor's sort on the parts of a written record -/
theorem sortBlocks_parts (rule : WriterRule) (st st' : Strand) (bs : List Blk) (h : Asc bs) :
    sortBlocks st (toBiopythonParts rule st' bs) = bs := by
  unfold toBiopythonParts
  split
  · unfold sortBlocks
    apply mergeSort_eq_of_sorted_perm _ (Proofs.blkLe_trans st) (Proofs.blkLe_total st)
    · intro a b _ _ hab hba; exact blkLe_antisymm st a b hab hba
    · exact (asc_fst_lt bs h).imp (fun {a b} hab => Proofs.blkLe_of_fst_lt st a b hab)
    · exact (List.reverse_perm bs).symm
  · exact Proofs.sortBlocks_of_fst_lt st (asc_fst_lt bs h)

/-- `sorted(parts, key=start)` on the parts of a written record -/
theorem sortParts_parts (rule : WriterRule) (st' : Strand) (bs : List Blk) (h : Asc bs) :
    sortPartsByStart (toBiopythonParts rule st' bs) = bs := by
  have hlt := asc_fst_lt bs h
  have hle : bs.Pairwise (fun a b => decide (a.1 ≤ b.1) = true) :=
    hlt.imp (fun {a b} hab => by simp only [decide_eq_true_eq]; omega)
  unfold toBiopythonParts
  split
  · unfold sortPartsByStart
    apply mergeSort_eq_of_sorted_perm
    · intro a b c hab hbc; simp only [decide_eq_true_eq] at *; omega
    · intro a b; simp only [Bool.or_eq_true, decide_eq_true_eq]; omega
    · intro a b ha hb hab hba
      simp only [decide_eq_true_eq] at hab hba
      have ha' : a ∈ bs := List.mem_reverse.mp ha
      have hb' : b ∈ bs := List.mem_reverse.mp hb
      -- two members of a list with strictly increasing starts that share a start are the same member
      have key : ∀ (l : List Blk), l.Pairwise (fun a b => a.1 < b.1) → ∀ x ∈ l, ∀ y ∈ l, x.1 = y.1 → x = y := by
        intro l hl
        induction hl with
        | nil => intro x hx; simp at hx
        | cons hhd _ ih =>
          intro x hx y hy hxy
          rcases List.mem_cons.mp hx with hx1 | hx1
          · rcases List.mem_cons.mp hy with hy1 | hy1
            · rw [hx1, hy1]
            · have := hhd y hy1; rw [hx1] at hxy; omega
          · rcases List.mem_cons.mp hy with hy1 | hy1
            · have := hhd x hx1; rw [hy1] at hxy; omega
            · exact ih x hx1 y hy1 hxy
      exact key bs hlt a ha' b hb' (by omega)
    · exact hle
    · exact (List.reverse_perm bs).symm
  · exact List.mergeSort_of_pairwise hle

theorem blocksLen_pos : ∀ (bs : List Blk), bs ≠ [] → (∀ b ∈ bs, b.1 < b.2) → 0 < blocksLen bs
  | [], h, _ => absurd rfl h
  | b :: bs, _, hp => by
    have := hp b List.mem_cons_self
    simp only [blocksLen, Blk.len]
    omega

theorem blocksLen_reverse (bs : List Blk) : blocksLen bs.reverse = blocksLen bs := by
  have happ : ∀ (a b : List Blk), blocksLen (a ++ b) = blocksLen a + blocksLen b := by
    intro a b
    induction a with
    | nil => simp [blocksLen]
    | cons x xs ih => simp only [List.cons_append, blocksLen, ih]; omega
  induction bs with
  | nil => rfl
  | cons x xs ih => rw [List.reverse_cons, happ, ih]; simp only [blocksLen]; omega

end BioCantor.Proofs.Gb

namespace BioCantor.Proofs.Gb
open BioCantor BioCantor.Spec.Qual BioCantor.Spec.Gb BioCantor.Model BioCantor.Model.Gb

/-! ### the CDS clip -/

/-- a block inside a span -/
def Inside (span : Blk) (b : Blk) : Prop := span.1 ≤ b.1 ∧ b.2 ≤ span.2

theorem kernel_inside (span b : Blk) (hb : b.1 < b.2) (hin : Inside span b) : overlapKernel b span = true := by
  unfold overlapKernel Blk.len
  obtain ⟨h1, h2⟩ := hin
  rw [if_neg (by omega), if_pos (by omega)]

theorem isectBlk_inside (span b : Blk) (hb : b.1 < b.2) (hin : Inside span b) : isectBlk b span = b := by
  unfold isectBlk
  obtain ⟨h1, h2⟩ := hin
  apply Prod.ext
  · exact Nat.max_eq_left h1
  · exact Nat.min_eq_left h2

theorem filterMap_inside (span : Blk) : ∀ (bs : List Blk), (∀ b ∈ bs, b.1 < b.2) → (∀ b ∈ bs, Inside span b) →
    bs.filterMap (fun x => if overlapKernel x span then some (isectBlk x span) else none) = bs
  | [], _, _ => rfl
  | b :: bs, hp, hin => by
    rw [List.filterMap_cons, kernel_inside span b (hp b List.mem_cons_self) (hin b List.mem_cons_self)]
    simp only [if_true]
    rw [isectBlk_inside span b (hp b List.mem_cons_self) (hin b List.mem_cons_self),
      filterMap_inside span bs (fun x hx => hp x (List.mem_cons_of_mem _ hx))
        (fun x hx => hin x (List.mem_cons_of_mem _ hx))]

/-- `_combine_blocks(preserve_overlapping=True)` finds nothing to do on positive blocks separated by real gaps -/
theorem combineLoop_strict : ∀ (bs : List Blk) (cur : Option Nat) (acc : List Blk) (needs : Bool),
    Asc bs → adjacentBlocks bs = false →
    (∀ ce, cur = some ce → ∀ b, bs.head? = some b → ce < b.1) →
    combineLoop true bs cur acc needs = (acc.reverse ++ bs, needs)
  | [], cur, acc, needs, _, _, _ => by simp [combineLoop]
  | b :: bs, cur, acc, needs, hasc, hadj, hcur => by
    have hb := hasc.1 b List.mem_cons_self
    have htail : adjacentBlocks bs = false ∧ ∀ b', bs.head? = some b' → b.2 < b'.1 := by
      cases bs with
      | nil => exact ⟨rfl, fun b' h => by simp at h⟩
      | cons b' rest =>
        simp only [adjacentBlocks, Bool.or_eq_false_iff, beq_eq_false_iff_ne] at hadj
        have hno := hasc.2
        simp only [nonOverlap, Bool.and_eq_true, decide_eq_true_eq] at hno
        refine ⟨hadj.2, fun x hx => ?_⟩
        simp only [List.head?_cons, Option.some.injEq] at hx
        subst hx
        have := hadj.1
        omega
    have ih := combineLoop_strict bs (some b.2) (b :: acc) needs hasc.tail htail.1
      (fun ce hce b' hb' => by
        simp only [Option.some.injEq] at hce
        subst hce
        exact htail.2 b' hb')
    have hlen : ¬ (b.2 - b.1 = 0) := by omega
    have hfin : ((b :: acc).reverse ++ bs, needs) = (acc.reverse ++ b :: bs, needs) := by simp
    cases cur with
    | none =>
      unfold combineLoop
      simp only [hlen, if_false]
      rw [ih, hfin]
    | some ce =>
      cases acc with
      | nil =>
        unfold combineLoop
        simp only [hlen, if_false]
        rw [ih, hfin]
      | cons last accTail =>
        have hne : ¬ ce = b.1 := by
          have := hcur ce rfl b (by simp)
          omega
        unfold combineLoop
        simp only [hlen, if_false, if_true, hne]
        rw [ih, hfin]

theorem asc_cons_inside (span : Blk) (bs : List Blk) (h : ∀ b ∈ bs, Inside span b) (hp : ∀ b ∈ bs, b.1 < b.2)
    (hne : bs ≠ []) : span.1 < span.2 := by
  cases bs with
  | nil => exact absurd rfl hne
  | cons b _ =>
    have := h b List.mem_cons_self
    have := hp b List.mem_cons_self
    unfold Inside at *
    omega

/-- `cds_interval.intersection(transcript span)` for ≥ 2 CDS blocks -/
theorem intersection_compound_inside (cds : List Blk) (st : Strand) (span : Blk) (hasc : Asc cds)
    (hlen : 2 ≤ cds.length) (hadj : adjacentBlocks cds = false) (hin : ∀ b ∈ cds, Inside span b) :
    intersection (.compound ⟨cds, st⟩) (.single span st) true false = .ok (.compound ⟨cds, st⟩) := by
  have hne : cds ≠ [] := by intro h; rw [h] at hlen; simp at hlen
  have hany : cds.any (fun ba => overlapKernel ba span) = true := by
    cases cds with
    | nil => exact absurd rfl hne
    | cons b _ =>
      rw [List.any_cons, kernel_inside span b (hasc.1 b List.mem_cons_self) (hin b List.mem_cons_self)]
      rfl
  have hov : hasOverlap (.compound ⟨cds, st⟩) (.single span st) true false = .ok true := by
    simp only [hasOverlap, Bool.false_eq_true, if_false, ne_eq, not_true_eq_false, and_false, hany, pure, Except.pure]
  have hmk : mkCompoundLoc cds st = .ok ⟨cds, st⟩ := by
    rw [Proofs.mkCompoundLoc_ok st hne (fun b hb => Nat.le_of_lt (hasc.1 b hb)),
      Proofs.sortBlocks_of_fst_lt st (asc_fst_lt cds hasc)]
  have hopt : optimizeLoc true ⟨cds, st⟩ = .ok (.compound ⟨cds, st⟩) := by
    unfold optimizeLoc
    have := combineLoop_strict cds none [] false hasc hadj (fun ce h => by simp at h)
    simp only [this, List.reverse_nil, List.nil_append, Bool.false_eq_true, not_false_eq_true, if_true, pure, Except.pure]
    congr 1
    unfold toSingleIfOne
    cases cds with
    | nil => exact absurd rfl hne
    | cons a rest =>
      cases rest with
      | nil => simp at hlen
      | cons b rest' => rfl
  show isectCS ⟨cds, st⟩ span st true false = _
  unfold isectCS
  simp only [hov, bind, Except.bind, Bool.not_true, Bool.false_eq_true, if_false,
    filterMap_inside span cds hasc.1 hin, hmk, hopt]

/-- `cds_interval.intersection(transcript span)` for one CDS block -/
theorem intersection_single_inside (b : Blk) (st : Strand) (span : Blk) (hb : b.1 < b.2) (hin : Inside span b) :
    intersection (.single b st) (.single span st) true false = .ok (.single b st) := by
  show isectSS b st span st true = _
  unfold isectSS
  simp only [ne_eq, not_true_eq_false, and_false, if_false, kernel_inside span b hb hin, Bool.not_true,
    Bool.false_eq_true, isectBlk_inside span b hb hin]
  unfold mkSingleN
  rw [if_pos (Nat.le_of_lt hb)]
  rfl

end BioCantor.Proofs.Gb
