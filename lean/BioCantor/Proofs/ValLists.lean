/- C19 proofs: list lemmas about smallest start / largest end / ascending block lists / exon coverage. -/
import BioCantor.Proofs.ValCompound
set_option linter.unusedSimpArgs false
namespace BioCantor.Proofs.Val
open BioCantor
open BioCantor.Spec.Validate (IBlk minStartI maxEndI ascending advance advanceN coveredBy blockInside)

theorem minStartI_le : ∀ (l : List IBlk) (b : IBlk), b ∈ l → minStartI l ≤ b.1
  | [c], b, h => by simp at h; subst h; simp [minStartI]
  | c :: d :: rest, b, h => by
      have ih := minStartI_le (d :: rest)
      simp only [minStartI]
      rcases List.mem_cons.mp h with h | h
      · subst h; exact Int.min_le_left _ _
      · exact Int.le_trans (Int.min_le_right _ _) (ih b h)

theorem le_maxEndI : ∀ (l : List IBlk) (b : IBlk), b ∈ l → b.2 ≤ maxEndI l
  | [c], b, h => by simp at h; subst h; simp [maxEndI]
  | c :: d :: rest, b, h => by
      have ih := le_maxEndI (d :: rest)
      simp only [maxEndI]
      rcases List.mem_cons.mp h with h | h
      · subst h; exact Int.le_max_left _ _
      · exact Int.le_trans (ih b h) (Int.le_max_right _ _)

/-- ascending + every block valid: every later block starts at or after the first block's end -/
theorem ascending_head_le : ∀ (a : IBlk) (l : List IBlk), ascending (a :: l) = true → (∀ b ∈ a :: l, b.1 ≤ b.2) →
    ∀ b ∈ l, a.2 ≤ b.1
  | _, [], _, _ => by intro b hb; cases hb
  | a, c :: rest, hasc, hv => by
      simp only [ascending, Bool.and_eq_true, decide_eq_true_eq] at hasc
      intro b hb
      rcases List.mem_cons.mp hb with h | h
      · subst h; exact hasc.1
      · have ih := ascending_head_le c rest hasc.2 (fun x hx => hv x (List.mem_cons_of_mem _ hx)) b h
        have := hv c (by simp)
        omega

theorem minStartI_ascending : ∀ (a : IBlk) (l : List IBlk), ascending (a :: l) = true → (∀ b ∈ a :: l, b.1 ≤ b.2) →
    minStartI (a :: l) = a.1
  | a, [], _, _ => rfl
  | a, c :: rest, hasc, hv => by
      have h1 := ascending_head_le a (c :: rest) hasc hv
      have hmin : a.1 ≤ minStartI (c :: rest) := by
        -- the minimum of the tail is one of its starts
        have : ∀ (l : List IBlk), l ≠ [] → ∃ b ∈ l, minStartI l = b.1 := by
          intro l
          induction l with
          | nil => intro h; exact absurd rfl h
          | cons x t ih =>
              intro _
              cases t with
              | nil => exact ⟨x, by simp, rfl⟩
              | cons y r =>
                  obtain ⟨b, hb, hbe⟩ := ih (by simp)
                  simp only [minStartI]
                  by_cases hx : x.1 ≤ minStartI (y :: r)
                  · exact ⟨x, by simp, by rw [Int.min_eq_left hx]⟩
                  · exact ⟨b, List.mem_cons_of_mem _ hb, by rw [Int.min_eq_right (by omega)]; exact hbe⟩
        obtain ⟨b, hb, hbe⟩ := this (c :: rest) (by simp)
        have := h1 b hb
        have := hv a (by simp)
        omega
      simp only [minStartI]
      exact Int.min_eq_left hmin

theorem maxEndI_ascending : ∀ (l : List IBlk) (z : IBlk), l.getLast? = some z → ascending l = true → (∀ b ∈ l, b.1 ≤ b.2) →
    maxEndI l = z.2
  | [a], z, hl, _, _ => by simp at hl; subst hl; rfl
  | a :: c :: rest, z, hl, hasc, hv => by
      have hl' : (c :: rest).getLast? = some z := by simpa [List.getLast?_cons_cons] using hl
      have hasc' : ascending (c :: rest) = true := by
        simp only [ascending, Bool.and_eq_true] at hasc; exact hasc.2
      have ih := maxEndI_ascending (c :: rest) z hl' hasc' (fun x hx => hv x (List.mem_cons_of_mem _ hx))
      have hz : z ∈ c :: rest := List.mem_of_getLast? hl'
      have h1 := ascending_head_le a (c :: rest) hasc hv z hz
      have := hv z (List.mem_cons_of_mem _ hz)
      simp only [maxEndI]
      rw [ih]
      exact Int.max_eq_right (by omega)

/-! ### zip: first start / last end -/

theorem zip_head? : ∀ (starts ends : List Int), starts.length = ends.length →
    (starts.zip ends).head? = (match starts.head?, ends.head? with | some s, some e => some (s, e) | _, _ => none)
  | [], [], _ => rfl
  | _ :: _, _ :: _, _ => rfl
  | [], _ :: _, h => by simp at h
  | _ :: _, [], h => by simp at h

theorem zip_getLast? : ∀ (starts ends : List Int), starts.length = ends.length →
    (starts.zip ends).getLast? = (match starts.getLast?, ends.getLast? with | some s, some e => some (s, e) | _, _ => none)
  | [], [], _ => rfl
  | [_], [_], _ => rfl
  | a :: b :: s, c :: d :: e, h => by
      have ih := zip_getLast? (b :: s) (d :: e) (by simpa using h)
      simp only [List.zip_cons_cons, List.getLast?_cons_cons] at ih ⊢
      exact ih
  | [], _ :: _, h => by simp at h
  | _ :: _, [], h => by simp at h
  | [_], _ :: _ :: _, h => by simp at h
  | _ :: _ :: _, [_], h => by simp at h

/-! ### exon coverage -/

theorem advance_cases (exons : List IBlk) (p : Int) :
    advance exons p = p ∨ ((∃ x ∈ exons, x.1 ≤ p ∧ p < x.2) ∧ ∃ y ∈ exons, advance exons p = y.2) := by
  unfold advance
  -- generalise over the accumulator: it is `p` until the first exon that contains `p`
  have key : ∀ (l : List IBlk) (q : Int),
      (l.foldl (fun q x => if x.1 ≤ q ∧ q < x.2 then x.2 else q) q = q) ∨
      ((∃ x ∈ l, x.1 ≤ q ∧ q < x.2) ∧ ∃ y ∈ l, l.foldl (fun q x => if x.1 ≤ q ∧ q < x.2 then x.2 else q) q = y.2) := by
    intro l
    induction l with
    | nil => intro q; exact Or.inl rfl
    | cons x t ih =>
        intro q
        simp only [List.foldl_cons]
        by_cases hx : x.1 ≤ q ∧ q < x.2
        · rw [if_pos hx]
          right
          refine ⟨⟨x, by simp, hx⟩, ?_⟩
          rcases ih x.2 with h | ⟨_, y, hy, hye⟩
          · exact ⟨x, by simp, h⟩
          · exact ⟨y, List.mem_cons_of_mem _ hy, hye⟩
        · rw [if_neg hx]
          rcases ih q with h | ⟨⟨z, hz, hzq⟩, y, hy, hye⟩
          · exact Or.inl h
          · exact Or.inr ⟨⟨z, List.mem_cons_of_mem _ hz, hzq⟩, y, List.mem_cons_of_mem _ hy, hye⟩
  exact key exons p

theorem advanceN_cases (exons : List IBlk) : ∀ (k : Nat) (p : Int),
    advanceN exons k p = p ∨ ((∃ x ∈ exons, x.1 ≤ p ∧ p < x.2) ∧ ∃ y ∈ exons, advanceN exons k p = y.2)
  | 0, p => Or.inl rfl
  | k+1, p => by
      simp only [advanceN]
      rcases advance_cases exons p with h | ⟨hx, y, hy, hye⟩
      · rw [h]; exact advanceN_cases exons k p
      · rcases advanceN_cases exons k (advance exons p) with h2 | ⟨_, z, hz, hze⟩
        · exact Or.inr ⟨hx, y, hy, by rw [h2, hye]⟩
        · exact Or.inr ⟨hx, z, hz, hze⟩

/-- a block inside the exons starts at or after some exon start and ends at or before some exon end -/
theorem blockInside_bounds (exons : List IBlk) (c : IBlk) (hc : c.1 ≤ c.2) (h : blockInside exons c = true) :
    (∃ x ∈ exons, x.1 ≤ c.1) ∧ (∃ y ∈ exons, c.2 ≤ y.2) := by
  unfold blockInside at h
  by_cases he : c.1 = c.2
  · simp only [he, beq_self_eq_true, ite_true, List.any_eq_true, Bool.and_eq_true, decide_eq_true_eq] at h
    obtain ⟨x, hx, h1, h2⟩ := h
    exact ⟨⟨x, hx, by omega⟩, ⟨x, hx, h2⟩⟩
  · have hne : (c.1 == c.2) = false := by simpa using he
    simp only [hne, Bool.false_eq_true, ite_false, coveredBy, decide_eq_true_eq] at h
    rcases advanceN_cases exons exons.length c.1 with h0 | ⟨⟨x, hx, hx1, _⟩, y, hy, hye⟩
    · rw [h0] at h; omega
    · exact ⟨⟨x, hx, hx1⟩, ⟨y, hy, by rw [hye] at h; exact h⟩⟩

end BioCantor.Proofs.Val
