/-
  C15, histories over the Codon API: the modelled object state is a function of the upper-cased text, so the
  answers of a held codon object before and after any interleaved constructions are the table answers of its value.
-/
import BioCantor.Proofs.TabCodon
set_option linter.unusedSimpArgs false
namespace BioCantor.Proofs.Tab
open BioCantor BioCantor.GenP BioCantor.Spec.Tab BioCantor.Model.Tab

theorem upper_eq_upperS (s : List Char) : upper s = upperS s := rfl

/-- `Codon(s)` depends only on the upper-cased text -/
theorem mkCodon_congr (s s' : List Char) (h : upper s = upper s') : mkCodon s = mkCodon s' := by
  unfold mkCodon; simp only [h]

theorem ansO_eq_ansP {α} (x : PyR α) : ansO x = ansP x := by cases x <;> rfl

/-- the model's answers in the vocabulary of the specification -/
def toSpecAnswers (a : Answers) : CodonAnswers :=
  ⟨a.text, a.trStrict, a.trLoose, a.stop, a.strict, a.canon, a.st0, a.st1, a.st11, a.syn0, a.syn1⟩

/-- every answer of a codon object is the table answer of its value -/
theorem answers_ok (v : List Char) (hv : (expansions v).isSome = true) :
    okCodonAnswers v (toSpecAnswers (answers v)) = true := by
  unfold okCodonAnswers toSpecAnswers answers
  simp only [ansO_eq_ansP, translate_ok v true hv, translate_ok v false hv, isStop_ok v hv, isStrict_ok v hv,
    isStart_ok v 0 hv, isStart_ok v 1 hv, isStart_ok v 11 hv, synonymous_ok v false hv, synonymous_ok v true hv,
    beq_self_eq_true, Bool.and_self, Bool.true_and, Bool.and_true, isCanonicalStart]
  have : "ATG".toList = ['A', 'T', 'G'] := by decide
  rw [this]; simp

theorem outcome_eq (v sp : List Char) :
    outcome v sp = ((expansions (upperS sp)).isSome, (expansions (upperS sp)).isSome && upperS sp == v) := by
  unfold outcome
  rw [mkCodon_eq, upper_eq_upperS]
  by_cases h : (expansions (upperS sp)).isSome = true
  · simp [h]
  · simp [h]

def toSpecHist (r : Answers × List (Bool × Bool) × Answers × (Bool × Bool × Bool)) :
    CodonAnswers × List Outcome × CodonAnswers × (Bool × Bool × Bool) :=
  (toSpecAnswers r.1, r.2.1, toSpecAnswers r.2.2.1, r.2.2.2)

/-- **history theorem**: for every held text and every list of interleaved constructions (accepted or refused),
    the modelled history passes `okHist`: the held object's answers before and after are the table answers of
    `upper(held)` (hence equal), each spelling is accepted iff it is an IUPAC triplet and yields the held object
    iff it upper-cases to the same value -/
theorem hist_ok (held : List Char) (sps : List (List Char)) :
    okHist held sps ((ansP (hist held sps)).map toSpecHist) = true := by
  have hm := mkCodon_eq held
  rw [upper_eq_upperS] at hm
  cases he : expansions (upperS held) with
  | none =>
    simp only [he, Option.isSome_none, Bool.false_eq_true, if_false] at hm
    simp [okHist, hist, hm, he]
  | some es =>
    have hv : (expansions (upperS held)).isSome = true := by rw [he]; rfl
    simp only [he, Option.isSome_some, if_true] at hm
    have hout : List.map (outcome (upperS held)) sps = sps.map (fun sp =>
        ((expansions (upperS sp)).isSome, (expansions (upperS sp)).isSome && upperS sp == upperS held)) :=
      List.map_congr_left (fun sp _ => outcome_eq (upperS held) sp)
    simp only [okHist, hist, hm, he, ansP_ok, Option.map_some, toSpecHist, answers_ok (upperS held) hv, hout,
      beq_self_eq_true, Bool.and_self]

end BioCantor.Proofs.Tab
