/-
  C11 / T2–T4 — helper lemmas about `Model.Gff` rows: ties to the generated kernels, decimal rendering,
  column structure of a rendered line, membership characterisation of the emitted rows, parent-before-child in the
  sorted output.
-/
import BioCantor.Gen.Kernels
import BioCantor.Model.Gff
import BioCantor.Spec.Gff
import BioCantor.Proofs.GffEscape
namespace BioCantor.Proofs.GffRows
open BioCantor BioCantor.Model.Gff BioCantor.Proofs.GffEscape
open BioCantor.Spec.Gff (Str Quals SCds STx SGene SFeat SFc SChild SPar SColl strLt strLe percentDecode percentsOk
  wellEscaped structural structuralValue splitOnChar hexVal phaseOfFrame uuidShaped)

/-! ### A. ties to the kernels regenerated from gene/cds_frame.py and location/strand.py -/

theorem toPhase_tie (f : CDSFrame) : Gen.CDSFrame_to_phase f = .ok (toPhase f) := by
  cases f <;> rfl

theorem strandSymbol_tie (s : Strand) : Gen.Strand_to_symbol s = .ok (strandSymbol s) := by
  cases s <;> rfl

theorem frameOfInt_mod (v : Int) : GenP.frameOfInt (v % 3) = .ok (frameOfMod v) := by
  unfold GenP.frameOfInt frameOfMod
  have : v % 3 = 0 ∨ v % 3 = 1 ∨ v % 3 = 2 := by omega
  rcases this with h | h | h <;> simp [h]

theorem shiftFrame_tie (f : CDSFrame) (s : Int) : Gen.CDSFrame_shift f s = .ok (shiftFrame f s) := by
  cases f
  · rfl
  all_goals
    unfold Gen.CDSFrame_shift shiftFrame
    simp only [CDSFrame.value, reduceCtorEq, if_false]
    split
    · rw [frameOfInt_mod]
    · have hm : ∀ v : Int, (v - (s - (-s) % 3)) % 3 = (v + s) % 3 := by intro v; omega
      rw [hm, frameOfInt_mod]

/-- the model's phase agrees with the Spec's "bases to skip" reading of a frame -/
theorem toPhase_spec (f : CDSFrame) : phaseOfFrame f = (match toPhase f with
    | .NONE => none | .ZERO => some 0 | .ONE => some 1 | .TWO => some 2) := by
  cases f <;> rfl

theorem toPhase_none_iff (f : CDSFrame) : toPhase f = .NONE ↔ f = .NONE := by
  cases f <;> simp [toPhase]

/-! ### B. decimal rendering -/

def sepChars : List Char := ['\t', '\n', '\r']

def noSep (s : Str) : Prop := ∀ c ∈ s, c ∉ sepChars

instance (s : Str) : Decidable (noSep s) := by unfold noSep; infer_instance

theorem digit_noSep : ∀ d : Nat, d < 10 → Char.ofNat (48 + d) ∉ sepChars := by decide

theorem digitsRev_noSep (fuel n : Nat) : noSep (digitsRev fuel n) := by
  induction fuel generalizing n with
  | zero => intro c hc; simp [digitsRev] at hc
  | succ f ih =>
    intro c hc
    simp only [digitsRev, List.mem_cons] at hc
    rcases hc with rfl | hc
    · exact digit_noSep _ (Nat.mod_lt _ (by decide))
    · split at hc
      · simp at hc
      · exact ih _ c hc

theorem natStr_noSep (n : Nat) : noSep (natStr n) := by
  intro c hc
  unfold natStr at hc
  exact digitsRev_noSep _ _ c (List.mem_reverse.mp hc)

/-- little-endian value of a digit string -/
def valRev : List Char → Nat
  | [] => 0
  | c :: r => (c.toNat - 48) + 10 * valRev r

theorem digit_toNat : ∀ d : Nat, d < 10 → (Char.ofNat (48 + d)).toNat = 48 + d := by decide

theorem valRev_digitsRev (fuel n : Nat) (h : n < fuel) : valRev (digitsRev fuel n) = n := by
  induction fuel generalizing n with
  | zero => omega
  | succ f ih =>
    simp only [digitsRev, valRev]
    rw [digit_toNat _ (Nat.mod_lt _ (by decide))]
    split
    · rename_i h0
      simp only [valRev]; omega
    · rename_i h0
      rw [ih (n / 10) (by omega)]; omega

theorem natStr_injective (a b : Nat) (h : natStr a = natStr b) : a = b := by
  unfold natStr at h
  have h' : digitsRev (a + 1) a = digitsRev (b + 1) b := by
    have := congrArg List.reverse h
    simpa using this
  have ha := valRev_digitsRev (a + 1) a (by omega)
  have hb := valRev_digitsRev (b + 1) b (by omega)
  rw [h'] at ha
  omega

/-- digits are hex-digit characters, never `-` -/
theorem digitsRev_ne_dash (fuel n : Nat) : ∀ c ∈ digitsRev fuel n, c ≠ '-' := by
  induction fuel generalizing n with
  | zero => intro c hc; simp [digitsRev] at hc
  | succ f ih =>
    intro c hc
    simp only [digitsRev, List.mem_cons] at hc
    rcases hc with rfl | hc
    · have : ∀ d : Nat, d < 10 → Char.ofNat (48 + d) ≠ '-' := by decide
      exact this _ (Nat.mod_lt _ (by decide))
    · split at hc
      · simp at hc
      · exact ih _ c hc

theorem natStr_ne_dash (n : Nat) : ∀ c ∈ natStr n, c ≠ '-' := by
  intro c hc
  exact digitsRev_ne_dash _ _ c (List.mem_reverse.mp hc)

theorem natStr_ne_nil (n : Nat) : natStr n ≠ [] := by
  unfold natStr
  simp only [digitsRev, ne_eq, List.reverse_eq_nil_iff]
  exact List.cons_ne_nil _ _

/-! ### C. no tab / LF / CR inside a rendered attribute column; nine columns -/

theorem splitOnChar_ne_nil (sep : Char) (s : Str) : splitOnChar sep s ≠ [] := by
  induction s with
  | nil => simp [splitOnChar]
  | cons c rest ih =>
    unfold splitOnChar
    split
    · simp
    · split <;> simp

theorem splitOnChar_cons_eq (sep : Char) (rest : Str) :
    splitOnChar sep (sep :: rest) = [] :: splitOnChar sep rest := by
  rw [splitOnChar]; simp

theorem splitOnChar_cons_ne {sep c : Char} (h : c ≠ sep) (rest p : Str) (ps : List Str)
    (hr : splitOnChar sep rest = p :: ps) : splitOnChar sep (c :: rest) = (c :: p) :: ps := by
  rw [splitOnChar]; simp [h, hr]

/-- `(a + sep + b).split(sep) = a.split(sep) + b.split(sep)` -/
theorem splitOnChar_append (sep : Char) (a b : Str) :
    splitOnChar sep (a ++ sep :: b) = splitOnChar sep a ++ splitOnChar sep b := by
  induction a with
  | nil =>
    rw [List.nil_append, splitOnChar_cons_eq]
    simp [splitOnChar]
  | cons c a' ih =>
    simp only [List.cons_append]
    by_cases hc : c = sep
    · subst hc
      rw [splitOnChar_cons_eq, splitOnChar_cons_eq, ih]; rfl
    · cases h : splitOnChar sep a' with
      | nil => exact absurd h (splitOnChar_ne_nil sep a')
      | cons p ps =>
        rw [splitOnChar_cons_ne hc a' p ps h]
        rw [splitOnChar_cons_ne hc (a' ++ sep :: b) p (ps ++ splitOnChar sep b) (by rw [ih, h]; rfl)]
        rfl

theorem splitOnChar_of_not_mem (sep : Char) (s : Str) (h : sep ∉ s) : splitOnChar sep s = [s] := by
  induction s with
  | nil => simp [splitOnChar]
  | cons c rest ih =>
    have hc : c ≠ sep := fun e => h (by simp [e])
    have hr : sep ∉ rest := fun e => h (List.mem_cons_of_mem _ e)
    exact splitOnChar_cons_ne hc rest rest [] (ih hr)

theorem splitOnChar_joinWith (sep : Char) (parts : List Str) (hne : parts ≠ [])
    (h : ∀ p ∈ parts, sep ∉ p) : splitOnChar sep (joinWith sep parts) = parts := by
  induction parts with
  | nil => exact absurd rfl hne
  | cons a rest ih =>
    cases rest with
    | nil => simp only [joinWith]; exact splitOnChar_of_not_mem sep a (h a List.mem_cons_self)
    | cons b rest' =>
      simp only [joinWith]
      rw [splitOnChar_append, splitOnChar_of_not_mem sep a (h a List.mem_cons_self)]
      have := ih (by simp) (fun p hp => h p (List.mem_cons_of_mem _ hp))
      rw [this]; rfl

theorem noSep_of_wellEscaped {r : List Char} (hr : ∀ c ∈ sepChars, r.contains c = true) {s : Str}
    (h : wellEscaped r s = true) : noSep s := by
  intro c hc hs
  unfold wellEscaped at h
  simp only [Bool.and_eq_true, List.all_eq_true] at h
  have := h.1 c hc
  rw [hr c hs] at this
  simp at this

theorem noSep_append {a b : Str} (ha : noSep a) (hb : noSep b) : noSep (a ++ b) := by
  intro c hc
  rcases List.mem_append.mp hc with h | h
  · exact ha c h
  · exact hb c h

theorem noSep_cons {c : Char} {s : Str} (hc : c ∉ sepChars) (hs : noSep s) : noSep (c :: s) := by
  intro d hd
  rcases List.mem_cons.mp hd with rfl | h
  · exact hc
  · exact hs d h

theorem noSep_joinWith {sep : Char} (hsep : sep ∉ sepChars) {parts : List Str} (h : ∀ p ∈ parts, noSep p) :
    noSep (joinWith sep parts) := by
  induction parts with
  | nil => intro c hc; simp [joinWith] at hc
  | cons a rest ih =>
    cases rest with
    | nil => simp only [joinWith]; exact h a List.mem_cons_self
    | cons b rest' =>
      simp only [joinWith]
      refine noSep_append (h a List.mem_cons_self) (noSep_cons hsep ?_)
      have := ih (fun p hp => h p (List.mem_cons_of_mem _ hp))
      simpa only [joinWith] using this

theorem structural_has_sep : ∀ c ∈ sepChars, structural.contains c = true := by decide
theorem structuralValue_has_sep : ∀ c ∈ sepChars, structuralValue.contains c = true := by decide

theorem escapeKey_wellEscaped (k : Str) (lower : Bool) : wellEscaped structural (escapeKey k lower) = true := by
  unfold escapeKey
  cases lower
  · simp only [Bool.false_eq_true, if_false]; exact wellEscaped_escapeWith gffEncodingMap_good k
  · simp only [if_true]
    exact wellEscaped_lower_escapeWith gffEncodingMap_good structural_lower_closed k

theorem escapeValue_wellEscaped (v : Str) (comma : Bool) :
    wellEscaped (if comma then structuralValue else structural) (escapeValue v comma) = true := by
  unfold escapeValue
  cases comma
  · simp only [Bool.false_eq_true, if_false]
    split
    · exact wellEscaped_escapeWith gffEncodingMap_good v
    · simp [wellEscaped, nan, percentsOk, structural]
  · simp only [if_true]
    split
    · exact wellEscaped_escapeWith gffEncodingMapWithComma_good v
    · simp [wellEscaped, nan, percentsOk, structuralValue]

theorem escapeKey_noSep (k : Str) (lower : Bool) : noSep (escapeKey k lower) :=
  noSep_of_wellEscaped structural_has_sep (escapeKey_wellEscaped k lower)

theorem escapeValue_noSep (v : Str) (comma : Bool) : noSep (escapeValue v comma) := by
  have := escapeValue_wellEscaped v comma
  cases comma
  · exact noSep_of_wellEscaped structural_has_sep this
  · exact noSep_of_wellEscaped structuralValue_has_sep this

theorem qualPairs_noSep (raise : Bool) (q : Quals) (l : List (Str × Str)) (h : qualPairs raise q = .ok l) :
    ∀ p ∈ l, noSep p.1 ∧ noSep p.2 := by
  induction q generalizing l with
  | nil =>
    simp only [qualPairs] at h
    cases h
    intro p hp; simp at hp
  | cons kv rest ih =>
    obtain ⟨key, vals⟩ := kv
    simp only [qualPairs] at h
    split at h
    · exact ih l h
    · split at h
      · split at h
        · cases h
        · exact ih l h
      · cases hm : qualPairs raise rest with
        | error e => rw [hm] at h; cases h
        | ok more =>
          rw [hm] at h
          simp only [bind, Except.bind, pure, Except.pure] at h
          cases h
          intro p hp
          rcases List.mem_cons.mp hp with rfl | hp'
          · refine ⟨?_, ?_⟩
            · simp only
              split <;> exact escapeKey_noSep _ _
            · simp only
              refine noSep_joinWith (by decide) ?_
              intro v hv
              have hv' : v ∈ vals.map fun v => escapeValue v false := by
                unfold sortStrs at hv
                exact List.mem_mergeSort.mp hv
              obtain ⟨w, _, rfl⟩ := List.mem_map.mp hv'
              exact escapeValue_noSep w false
          · exact ih more hm p hp'

theorem kID_noSep : noSep kID := by decide
theorem kParent_noSep : noSep kParent := by decide
theorem kName_noSep : noSep kName := by decide

theorem attrsStr_noSep (a : Attrs) (s : Str) (h : attrsStr a = .ok s) : noSep s := by
  unfold attrsStr at h
  cases hq : qualPairs a.raiseOnReserved (sortQuals a.quals) with
  | error e => rw [hq] at h; cases h
  | ok tail =>
    rw [hq] at h
    simp only [bind, Except.bind, pure, Except.pure] at h
    cases h
    refine noSep_joinWith (by decide) ?_
    intro piece hp
    obtain ⟨p, hp', rfl⟩ := List.mem_map.mp hp
    have hpair : noSep p.1 ∧ noSep p.2 := by
      rcases List.mem_append.mp hp' with h1 | h2
      · rcases List.mem_append.mp h1 with h1 | h3
        · rcases List.mem_append.mp h1 with h1 | h4
          · simp only [List.mem_singleton] at h1
            subst h1
            exact ⟨kID_noSep, escapeValue_noSep a.id true⟩
          · split at h4
            · simp only [List.mem_singleton] at h4; subst h4; exact ⟨kParent_noSep, escapeValue_noSep _ true⟩
            · simp at h4
        · split at h3
          · simp only [List.mem_singleton] at h3; subst h3; exact ⟨kName_noSep, escapeValue_noSep _ true⟩
          · simp at h3
      · exact qualPairs_noSep _ _ _ hq p h2
    exact noSep_append hpair.1 (noSep_cons (by decide) hpair.2)

/-- no line terminator -/
def noLine (s : Str) : Prop := ∀ c ∈ s, c ≠ '\n' ∧ c ≠ '\r'

theorem noLine_of_noSep {s : Str} (h : noSep s) : noLine s := by
  intro c hc
  exact ⟨fun e => h c hc (by rw [e]; decide), fun e => h c hc (by rw [e]; decide)⟩

theorem noLine_joinWith {sep : Char} (hsep : sep ≠ '\n' ∧ sep ≠ '\r') {parts : List Str}
    (h : ∀ p ∈ parts, noLine p) : noLine (joinWith sep parts) := by
  induction parts with
  | nil => intro c hc; simp [joinWith] at hc
  | cons a rest ih =>
    cases rest with
    | nil => simp only [joinWith]; exact h a List.mem_cons_self
    | cons b rest' =>
      simp only [joinWith]
      intro c hc
      rcases List.mem_append.mp hc with h1 | h1
      · exact h a List.mem_cons_self c h1
      · rcases List.mem_cons.mp h1 with rfl | h2
        · exact hsep
        · exact ih (fun p hp => h p (List.mem_cons_of_mem _ hp)) c h2

theorem tab_not_mem_of_noSep {s : Str} (h : noSep s) : '\t' ∉ s := fun hc => h _ hc (by decide)

/-- T2 (text): a rendered row splits on TAB into exactly its nine columns, provided the sequence name has no
    tab / LF / CR (column 1 is not escaped by the writer). -/
theorem rowStr_nine_columns (r : Row) (line : Str) (h : rowStr r = .ok line) (hseq : noSep r.seqid) :
    ∃ a, attrsStr r.attrs = .ok a ∧ noLine line ∧
      splitOnChar '\t' line = [r.seqid, gffSource, r.type.value, natStr r.start, natStr r.stop, nullColumn,
                                strandSymbol r.strand, phaseToGff r.phase, a] := by
  unfold rowStr at h
  cases ha : attrsStr r.attrs with
  | error e => rw [ha] at h; cases h
  | ok a =>
    rw [ha] at h
    simp only [bind, Except.bind, pure, Except.pure] at h
    cases h
    have hall : ∀ p ∈ [r.seqid, gffSource, r.type.value, natStr r.start, natStr r.stop, nullColumn,
        strandSymbol r.strand, phaseToGff r.phase, a], noSep p := by
      intro p hp
      simp only [List.mem_cons, List.mem_nil_iff, or_false] at hp
      rcases hp with rfl | rfl | rfl | rfl | rfl | rfl | rfl | rfl | rfl
      · exact hseq
      · decide
      · cases r.type <;> decide
      · exact natStr_noSep _
      · exact natStr_noSep _
      · decide
      · cases r.strand <;> decide
      · cases r.phase <;> decide
      · exact attrsStr_noSep _ _ ha
    refine ⟨a, rfl, ?_, ?_⟩
    · exact noLine_joinWith (by decide) (fun p hp => noLine_of_noSep (hall p hp))
    · exact splitOnChar_joinWith '\t' _ (by simp) (fun p hp => tab_not_mem_of_noSep (hall p hp))

/-! ### D. well-formed sources; where every emitted row comes from -/

/-- ascending, non-empty, non-overlapping blocks (0-bp gaps allowed) -/
def goodBlocks : List Blk → Bool
  | [] => true
  | [a] => decide (a.1 < a.2)
  | a :: b :: rest => decide (a.1 < a.2) && decide (a.2 ≤ b.1) && goodBlocks (b :: rest)

theorem goodBlocks_tail {a : Blk} {rest : List Blk} (h : goodBlocks (a :: rest) = true) : goodBlocks rest = true := by
  cases rest with
  | nil => rfl
  | cons b r => simp only [goodBlocks, Bool.and_eq_true] at h; exact h.2

theorem goodBlocks_head {a : Blk} {rest : List Blk} (h : goodBlocks (a :: rest) = true) : a.1 < a.2 := by
  cases rest with
  | nil => simpa [goodBlocks] using h
  | cons b r => simp only [goodBlocks, Bool.and_eq_true, decide_eq_true_eq] at h; exact h.1.1

/-- every block of a good list lies between the first start and the last end, and is non-empty -/
theorem goodBlocks_bounds {bs : List Blk} (h : goodBlocks bs = true) :
    ∀ b ∈ bs, firstStart bs ≤ b.1 ∧ b.1 < b.2 ∧ b.2 ≤ lastEnd bs := by
  induction bs with
  | nil => intro b hb; simp at hb
  | cons a rest ih =>
    intro b hb
    have ha := goodBlocks_head h
    cases rest with
    | nil =>
      simp only [List.mem_singleton] at hb
      subst hb
      simp only [firstStart, lastEnd]
      omega
    | cons c r =>
      have hrest := goodBlocks_tail h
      have hac : a.2 ≤ c.1 := by
        simp only [goodBlocks, Bool.and_eq_true, decide_eq_true_eq] at h; exact h.1.2
      rcases List.mem_cons.mp hb with rfl | hb'
      · have := ih hrest c List.mem_cons_self
        simp only [firstStart, lastEnd] at this ⊢
        omega
      · have := ih hrest b hb'
        simp only [firstStart, lastEnd] at this ⊢
        omega

theorem goodBlocks_span {bs : List Blk} (h : goodBlocks bs = true) (hne : bs ≠ []) : firstStart bs < lastEnd bs := by
  cases bs with
  | nil => exact absurd rfl hne
  | cons a rest =>
    have := goodBlocks_bounds h a List.mem_cons_self
    simp only [firstStart] at this ⊢
    omega

theorem minNat_le {l : List Nat} {x : Nat} (h : x ∈ l) : minNat l ≤ x := by
  induction l with
  | nil => simp at h
  | cons a rest ih =>
    cases rest with
    | nil => simp only [List.mem_singleton] at h; subst h; simp [minNat]
    | cons b r =>
      simp only [minNat]
      rcases List.mem_cons.mp h with rfl | h'
      · exact Nat.min_le_left _ _
      · exact Nat.le_trans (Nat.min_le_right _ _) (ih h')

theorem le_maxNat {l : List Nat} {x : Nat} (h : x ∈ l) : x ≤ maxNat l := by
  induction l with
  | nil => simp at h
  | cons a rest ih =>
    cases rest with
    | nil => simp only [List.mem_singleton] at h; subst h; simp [maxNat]
    | cons b r =>
      simp only [maxNat]
      rcases List.mem_cons.mp h with rfl | h'
      · exact Nat.le_max_left _ _
      · exact Nat.le_trans (ih h') (Nat.le_max_right _ _)

/-- the minimum of a non-empty list is one of its elements -/
theorem minNat_mem {l : List Nat} (h : l ≠ []) : minNat l ∈ l := by
  induction l with
  | nil => exact absurd rfl h
  | cons a rest ih =>
    cases rest with
    | nil => simp [minNat]
    | cons b r =>
      simp only [minNat]
      have := ih (by simp)
      rcases Nat.le_total a (minNat (b :: r)) with hle | hle
      · rw [Nat.min_eq_left hle]; exact List.mem_cons_self
      · rw [Nat.min_eq_right hle]; exact List.mem_cons_of_mem _ this

theorem mem_enumFrom1 {α} {l : List α} {p : Nat × α} (h : p ∈ enumFrom1 l) : p.2 ∈ l ∧ 1 ≤ p.1 ∧ p.1 ≤ l.length := by
  unfold enumFrom1 at h
  obtain ⟨q, hq, rfl⟩ := List.mem_map.mp h
  have := List.of_mem_zip hq
  have h1 := List.mem_range.mp this.1
  exact ⟨this.2, by simp, by simp; omega⟩

/-- a CDS block with its frame, coordinates inside the transcript -/
def cdsWF (t : STx) (k : SCds) : Bool :=
  goodBlocks k.blocks && k.blocks.all (fun b => decide (firstStart t.exons ≤ b.1)) &&
  k.frames.length == k.blocks.length && k.frames.all (· != .NONE)

/-- what `TranscriptInterval.__init__` is given in the property's quantifier: ascending non-empty exons starting at
    or after the chunk offset; CDS blocks ascending, non-empty, not before the first exon; one frame per block -/
def txWF (off : Nat) (t : STx) : Bool :=
  !t.exons.isEmpty && goodBlocks t.exons && decide (off ≤ firstStart t.exons) &&
  (match t.cds with | none => true | some k => cdsWF t k)

def geneWF (off : Nat) (g : SGene) : Bool := !g.txs.isEmpty && g.txs.all (txWF off)

def featWF (off : Nat) (f : SFeat) : Bool :=
  !f.blocks.isEmpty && goodBlocks f.blocks && decide (off ≤ firstStart f.blocks)

def fcWF (off : Nat) (c : SFc) : Bool := !c.feats.isEmpty && c.feats.all (featWF off)

def childWF (off : Nat) : SChild → Bool
  | .gene g => geneWF off g
  | .fc c => fcWF off c

def collWF (off : Nat) (c : SColl) : Bool := c.children.all (childWF off)

/-- where a row of one transcript comes from: the transcript's span, one of its exon blocks, or one of its CDS
    blocks paired with the frame the export uses -/
def TxOrigin (cx : Ctx) (t : STx) (r : Row) : Prop :=
  (r.type = .transcript ∧ r.start = firstStart t.exons - cx.off + 1 ∧ r.stop = lastEnd t.exons - cx.off ∧
    r.strand = t.strand ∧ r.phase = .NONE) ∨
  (r.type = .exon ∧ ∃ b ∈ t.exons, r.start = b.1 - cx.off + 1 ∧ r.stop = b.2 - cx.off ∧
    r.strand = t.strand ∧ r.phase = .NONE) ∨
  (r.type = .cds ∧ ∃ k, t.cds = some k ∧ ∃ bf ∈ k.blocks.zip (exportFrames cx t k),
    r.start = bf.1.1 - cx.off + 1 ∧ r.stop = bf.1.2 - cx.off ∧ r.strand = t.strand ∧ r.phase = toPhase bf.2)

theorem txRows_origin {cx : Ctx} {t : STx} {par : Str} {pq : Quals} {r : Row} (h : r ∈ txRows cx t par pq) :
    TxOrigin cx t r := by
  unfold txRows at h
  simp only [List.mem_cons, List.mem_append, List.mem_map] at h
  rcases h with (rfl | ⟨p, hp, rfl⟩) | hc
  · exact Or.inl ⟨rfl, rfl, rfl, rfl, rfl⟩
  · exact Or.inr (Or.inl ⟨rfl, p.2, (mem_enumFrom1 hp).1, rfl, rfl, rfl, rfl⟩)
  · cases hk : t.cds with
    | none => rw [hk] at hc; simp at hc
    | some k =>
      rw [hk] at hc
      simp only [cdsRows, List.mem_map] at hc
      obtain ⟨p, hp, rfl⟩ := hc
      exact Or.inr (Or.inr ⟨rfl, k, hk, p.2, (mem_enumFrom1 hp).1, rfl, rfl, rfl, rfl⟩)

def GeneOrigin (cx : Ctx) (g : SGene) (r : Row) : Prop :=
  (r.type = .gene ∧ r.start = minNat (g.txs.map fun t => firstStart t.exons) - cx.off + 1 ∧
    r.stop = maxNat (g.txs.map fun t => lastEnd t.exons) - cx.off ∧ r.strand = .plus ∧ r.phase = .NONE) ∨
  ∃ t ∈ g.txs, TxOrigin cx t r

theorem geneRows_origin {cx : Ctx} {g : SGene} {r : Row} (h : r ∈ geneRows cx g) : GeneOrigin cx g r := by
  unfold geneRows at h
  simp only [List.mem_cons, List.mem_flatMap] at h
  rcases h with rfl | ⟨t, ht, hr⟩
  · exact Or.inl ⟨rfl, rfl, rfl, rfl, rfl⟩
  · exact Or.inr ⟨t, ht, txRows_origin hr⟩

def FeatOrigin (cx : Ctx) (f : SFeat) (r : Row) : Prop :=
  (r.type = .featureInterval ∧ r.start = firstStart f.blocks - cx.off + 1 ∧ r.stop = lastEnd f.blocks - cx.off ∧
    r.strand = f.strand ∧ r.phase = .NONE) ∨
  (r.type = .subregion ∧ ∃ b ∈ f.blocks, r.start = b.1 - cx.off + 1 ∧ r.stop = b.2 - cx.off ∧
    r.strand = f.strand ∧ r.phase = .NONE)

theorem featRows_origin {cx : Ctx} {f : SFeat} {par : Str} {pq : Quals} {r : Row} (h : r ∈ featRows cx f par pq) :
    FeatOrigin cx f r := by
  unfold featRows at h
  simp only [List.mem_cons, List.mem_map] at h
  rcases h with rfl | ⟨p, hp, rfl⟩
  · exact Or.inl ⟨rfl, rfl, rfl, rfl, rfl⟩
  · exact Or.inr ⟨rfl, p.2, (mem_enumFrom1 hp).1, rfl, rfl, rfl, rfl⟩

def FcOrigin (cx : Ctx) (c : SFc) (r : Row) : Prop :=
  (r.type = .featureCollection ∧ r.start = minNat (c.feats.map fun f => firstStart f.blocks) - cx.off + 1 ∧
    r.stop = maxNat (c.feats.map fun f => lastEnd f.blocks) - cx.off ∧ r.strand = .plus ∧ r.phase = .NONE) ∨
  ∃ f ∈ c.feats, FeatOrigin cx f r

theorem fcRows_origin {cx : Ctx} {c : SFc} {r : Row} (h : r ∈ fcRows cx c) : FcOrigin cx c r := by
  unfold fcRows at h
  simp only [List.mem_cons, List.mem_flatMap] at h
  rcases h with rfl | ⟨f, hf, hr⟩
  · exact Or.inl ⟨rfl, rfl, rfl, rfl, rfl⟩
  · exact Or.inr ⟨f, hf, featRows_origin hr⟩

/-- T2 (source): every emitted row is the image `(start − off + 1, end − off)` of a source interval of the
    collection: a gene / transcript / feature span or an exon / CDS / feature block -/
def RowOrigin (cx : Ctx) (c : SColl) (r : Row) : Prop :=
  (∃ g, SChild.gene g ∈ c.children ∧ GeneOrigin cx g r) ∨ (∃ f, SChild.fc f ∈ c.children ∧ FcOrigin cx f r)

theorem mem_sortedChildren {c : SColl} {x : SChild} : x ∈ sortedChildren c ↔ x ∈ c.children := by
  unfold sortedChildren; exact List.mem_mergeSort

theorem mem_sortedRows {cx : Ctx} {c : SColl} {r : Row} : r ∈ sortedRows cx c ↔ r ∈ unsortedRows cx c := by
  unfold sortedRows; exact List.mem_mergeSort

theorem sortedRows_origin {cx : Ctx} {c : SColl} {r : Row} (h : r ∈ sortedRows cx c) : RowOrigin cx c r := by
  rw [mem_sortedRows] at h
  unfold unsortedRows at h
  obtain ⟨x, hx, hr⟩ := List.mem_flatMap.mp h
  rw [mem_sortedChildren] at hx
  cases x with
  | gene g => exact Or.inl ⟨g, hx, geneRows_origin hr⟩
  | fc f => exact Or.inr ⟨f, hx, fcRows_origin hr⟩

/-! frames used by the export are never NONE on a well-formed CDS -/

theorem frameOfMod_ne_none (v : Int) : frameOfMod v ≠ .NONE := by
  unfold frameOfMod
  split
  · simp
  · split <;> simp

theorem framesFrom_ne_none (cur : CDSFrame) (hc : cur ≠ .NONE) (l : List Int) :
    ∀ f ∈ framesFrom cur l, f ≠ .NONE := by
  induction l generalizing cur with
  | nil => intro f hf; simp [framesFrom] at hf
  | cons s rest ih =>
    intro f hf
    simp only [framesFrom, List.mem_cons] at hf
    have hn : shiftFrame cur s ≠ .NONE := by
      unfold shiftFrame
      cases cur <;> first | exact absurd rfl hc | exact frameOfMod_ne_none _
    rcases hf with rfl | hf
    · exact hn
    · exact ih _ hn f hf

theorem constructFrames_ne_none (bs : List Blk) (st : Strand) (sf : CDSFrame) (h : sf ≠ .NONE) :
    ∀ f ∈ constructFrames bs st sf, f ≠ .NONE := by
  intro f hf
  unfold constructFrames at hf
  split at hf
  · simp only [List.mem_singleton] at hf; subst hf; exact h
  · simp only at hf
    have key : ∀ l : List Int, ∀ f ∈ sf :: framesFrom .ZERO l, f ≠ .NONE := by
      intro l f hf
      rcases List.mem_cons.mp hf with rfl | hf
      · exact h
      · exact framesFrom_ne_none .ZERO (by simp) l f hf
    split at hf
    · exact key _ f (List.mem_reverse.mp hf)
    · exact key _ f hf

theorem exportFrames_ne_none {cx : Ctx} {t : STx} {k : SCds} (h : k.frames.all (· != .NONE) = true) :
    ∀ f ∈ exportFrames cx t k, f ≠ .NONE := by
  have hall : ∀ f ∈ k.frames, f ≠ .NONE := by
    intro f hf
    have := List.all_eq_true.mp h f hf
    simpa using this
  intro f hf
  unfold exportFrames at hf
  split at hf
  · cases h5 : fivePrimeFrame k.frames t.strand with
    | none => rw [h5] at hf; simp at hf
    | some sf =>
      rw [h5] at hf
      have hsf : sf ∈ k.frames := by
        unfold fivePrimeFrame at h5
        split at h5
        · exact List.mem_of_getLast? h5
        · exact List.mem_of_head? h5
      exact constructFrames_ne_none _ _ sf (hall sf hsf) f hf
  · exact hall f hf

theorem txWF_parts {off : Nat} {t : STx} (h : txWF off t = true) :
    t.exons ≠ [] ∧ goodBlocks t.exons = true ∧ off ≤ firstStart t.exons ∧
    (∀ k, t.cds = some k → cdsWF t k = true) := by
  unfold txWF at h
  simp only [Bool.and_eq_true, Bool.not_eq_true', decide_eq_true_eq] at h
  refine ⟨?_, h.1.1.2, h.1.2, ?_⟩
  · intro e; rw [e] at h; simp at h
  · intro k hk; rw [hk] at h; exact h.2

theorem tx_row_facts {cx : Ctx} {t : STx} {r : Row} (hwf : txWF cx.off t = true) (ho : TxOrigin cx t r) :
    1 ≤ r.start ∧ r.start ≤ r.stop ∧ firstStart t.exons - cx.off + 1 ≤ r.start ∧ (r.phase = .NONE ↔ r.type ≠ .cds) := by
  obtain ⟨hne, hgood, hoff, hcds⟩ := txWF_parts hwf
  have hspan := goodBlocks_span hgood hne
  rcases ho with ⟨hty, hs, he, _, hp⟩ | ⟨hty, b, hb, hs, he, _, hp⟩ | ⟨hty, k, hk, bf, hbf, hs, he, _, hp⟩
  · refine ⟨by omega, by omega, by omega, ?_⟩
    rw [hty, hp]; simp
  · have := goodBlocks_bounds hgood b hb
    refine ⟨by omega, by omega, by omega, ?_⟩
    rw [hty, hp]; simp
  · have hk' := hcds k hk
    unfold cdsWF at hk'
    simp only [Bool.and_eq_true, List.all_eq_true, decide_eq_true_eq, beq_iff_eq] at hk'
    obtain ⟨⟨⟨hkg, hkin⟩, _⟩, hfr⟩ := hk'
    have hmem := List.of_mem_zip hbf
    have h1 := goodBlocks_bounds hkg bf.1 hmem.1
    have h2 := hkin bf.1 hmem.1
    have hfn : bf.2 ≠ .NONE := exportFrames_ne_none (List.all_eq_true.mpr hfr) bf.2 hmem.2
    refine ⟨by omega, by omega, by omega, ?_⟩
    rw [hty, hp]
    constructor
    · intro h; exact absurd ((toPhase_none_iff _).mp h) hfn
    · intro h; exact absurd rfl h

theorem gene_row_facts {cx : Ctx} {g : SGene} {r : Row} (hwf : geneWF cx.off g = true) (ho : GeneOrigin cx g r) :
    1 ≤ r.start ∧ r.start ≤ r.stop ∧
    minNat (g.txs.map fun t => firstStart t.exons) - cx.off + 1 ≤ r.start ∧ (r.phase = .NONE ↔ r.type ≠ .cds) := by
  unfold geneWF at hwf
  simp only [Bool.and_eq_true, Bool.not_eq_true', List.all_eq_true] at hwf
  obtain ⟨hne, hall⟩ := hwf
  rcases ho with ⟨hty, hs, he, _, hp⟩ | ⟨t, ht, hto⟩
  · have hne' : (g.txs.map fun t => firstStart t.exons) ≠ [] := by
      intro e
      have : g.txs = [] := by simpa using e
      rw [this] at hne; simp at hne
    obtain ⟨t0, ht0, hmin⟩ := List.mem_map.mp (minNat_mem hne')
    obtain ⟨hne0, hgood0, hoff0, _⟩ := txWF_parts (hall t0 ht0)
    have hspan := goodBlocks_span hgood0 hne0
    have hmax : lastEnd t0.exons ≤ maxNat (g.txs.map fun t => lastEnd t.exons) :=
      le_maxNat (List.mem_map.mpr ⟨t0, ht0, rfl⟩)
    refine ⟨by omega, by omega, by omega, ?_⟩
    rw [hty, hp]; simp
  · have := tx_row_facts (hall t ht) hto
    have hmin : minNat (g.txs.map fun t => firstStart t.exons) ≤ firstStart t.exons :=
      minNat_le (List.mem_map.mpr ⟨t, ht, rfl⟩)
    exact ⟨this.1, this.2.1, by omega, this.2.2.2⟩

theorem feat_row_facts {cx : Ctx} {f : SFeat} {r : Row} (hwf : featWF cx.off f = true) (ho : FeatOrigin cx f r) :
    1 ≤ r.start ∧ r.start ≤ r.stop ∧ firstStart f.blocks - cx.off + 1 ≤ r.start ∧ (r.phase = .NONE ↔ r.type ≠ .cds) := by
  unfold featWF at hwf
  simp only [Bool.and_eq_true, Bool.not_eq_true', decide_eq_true_eq] at hwf
  obtain ⟨⟨hne, hgood⟩, hoff⟩ := hwf
  have hne' : f.blocks ≠ [] := by intro e; rw [e] at hne; simp at hne
  have hspan := goodBlocks_span hgood hne'
  rcases ho with ⟨hty, hs, he, _, hp⟩ | ⟨hty, b, hb, hs, he, _, hp⟩
  · refine ⟨by omega, by omega, by omega, ?_⟩
    rw [hty, hp]; simp
  · have := goodBlocks_bounds hgood b hb
    refine ⟨by omega, by omega, by omega, ?_⟩
    rw [hty, hp]; simp

theorem fc_row_facts {cx : Ctx} {c : SFc} {r : Row} (hwf : fcWF cx.off c = true) (ho : FcOrigin cx c r) :
    1 ≤ r.start ∧ r.start ≤ r.stop ∧
    minNat (c.feats.map fun f => firstStart f.blocks) - cx.off + 1 ≤ r.start ∧ (r.phase = .NONE ↔ r.type ≠ .cds) := by
  unfold fcWF at hwf
  simp only [Bool.and_eq_true, Bool.not_eq_true', List.all_eq_true] at hwf
  obtain ⟨hne, hall⟩ := hwf
  rcases ho with ⟨hty, hs, he, _, hp⟩ | ⟨f, hf, hfo⟩
  · have hne' : (c.feats.map fun f => firstStart f.blocks) ≠ [] := by
      intro e
      have : c.feats = [] := by simpa using e
      rw [this] at hne; simp at hne
    obtain ⟨f0, hf0, hmin⟩ := List.mem_map.mp (minNat_mem hne')
    have hw0 := hall f0 hf0
    unfold featWF at hw0
    simp only [Bool.and_eq_true, Bool.not_eq_true', decide_eq_true_eq] at hw0
    obtain ⟨⟨hne0, hgood0⟩, hoff0⟩ := hw0
    have hne0' : f0.blocks ≠ [] := by intro e; rw [e] at hne0; simp at hne0
    have hspan := goodBlocks_span hgood0 hne0'
    have hmax : lastEnd f0.blocks ≤ maxNat (c.feats.map fun f => lastEnd f.blocks) :=
      le_maxNat (List.mem_map.mpr ⟨f0, hf0, rfl⟩)
    refine ⟨by omega, by omega, by omega, ?_⟩
    rw [hty, hp]; simp
  · have := feat_row_facts (hall f hf) hfo
    have hmin : minNat (c.feats.map fun f => firstStart f.blocks) ≤ firstStart f.blocks :=
      minNat_le (List.mem_map.mpr ⟨f, hf, rfl⟩)
    exact ⟨this.1, this.2.1, by omega, this.2.2.2⟩

/-- T2 (numbers): on a well-formed collection every emitted row has `1 ≤ start ≤ end`, and a phase exactly when it
    is a CDS row -/
theorem sortedRows_facts {cx : Ctx} {c : SColl} (hwf : collWF cx.off c = true) {r : Row} (h : r ∈ sortedRows cx c) :
    1 ≤ r.start ∧ r.start ≤ r.stop ∧ (r.phase = .NONE ↔ r.type ≠ .cds) := by
  unfold collWF at hwf
  have hall := List.all_eq_true.mp hwf
  rcases sortedRows_origin h with ⟨g, hg, ho⟩ | ⟨f, hf, ho⟩
  · have := gene_row_facts (hall _ hg) ho
    exact ⟨this.1, this.2.1, this.2.2.2⟩
  · have := fc_row_facts (hall _ hf) ho
    exact ⟨this.1, this.2.1, this.2.2.2⟩

/-! ### E. every Parent is the ID of an earlier row; rows ordered by start -/

theorem sublist_flatMap_of_mem {α β} {f : α → List β} {l : List α} {x : α} (h : x ∈ l) :
    (f x).Sublist (l.flatMap f) := by
  rw [List.flatMap_def]
  exact List.sublist_flatten_of_mem (List.mem_map_of_mem h)

theorem pair_sublist_cons {α} {a x : α} {l : List α} (h : x ∈ l) : [a, x].Sublist (a :: l) :=
  List.Sublist.cons_cons a (List.singleton_sublist.mpr h)

/-- the rows of one transcript: a head row (ID = the transcript GUID, Parent = the gene) followed by rows whose
    Parent is the transcript GUID and whose start is not before the head's -/
theorem txRows_shape (cx : Ctx) (t : STx) (par : Str) (pq : Quals) :
    ∃ hd rest, txRows cx t par pq = hd :: rest ∧ hd.attrs.id = t.guid ∧ hd.attrs.parent = some par ∧
      hd.start = firstStart t.exons - cx.off + 1 ∧
      ∀ r ∈ rest, r.attrs.parent = some t.guid ∧ (txWF cx.off t = true → hd.start ≤ r.start) := by
  refine ⟨_, _, rfl, rfl, rfl, rfl, ?_⟩
  intro r hr
  have hmem : r ∈ txRows cx t par pq := List.mem_cons_of_mem _ hr
  refine ⟨?_, ?_⟩
  · rcases List.mem_append.mp hr with he | hc
    · obtain ⟨p, _, rfl⟩ := List.mem_map.mp he
      rfl
    · cases hk : t.cds with
      | none => rw [hk] at hc; simp at hc
      | some k =>
        rw [hk] at hc
        simp only [cdsRows, List.mem_map] at hc
        obtain ⟨p, _, rfl⟩ := hc
        rfl
  · intro hwf
    exact (tx_row_facts hwf (txRows_origin hmem)).2.2.1

theorem featRows_shape (cx : Ctx) (f : SFeat) (par : Str) (pq : Quals) :
    ∃ hd rest, featRows cx f par pq = hd :: rest ∧ hd.attrs.id = f.guid ∧ hd.attrs.parent = some par ∧
      hd.start = firstStart f.blocks - cx.off + 1 ∧
      ∀ r ∈ rest, r.attrs.parent = some f.guid ∧ (featWF cx.off f = true → hd.start ≤ r.start) := by
  refine ⟨_, _, rfl, rfl, rfl, rfl, ?_⟩
  intro r hr
  have hmem : r ∈ featRows cx f par pq := List.mem_cons_of_mem _ hr
  refine ⟨?_, ?_⟩
  · obtain ⟨p, _, rfl⟩ := List.mem_map.mp hr; rfl
  · intro hwf
    exact (feat_row_facts hwf (featRows_origin hmem)).2.2.1

theorem geneRows_parent {cx : Ctx} {g : SGene} (hwf : geneWF cx.off g = true) :
    ∀ r ∈ geneRows cx g, ∀ p, r.attrs.parent = some p →
      ∃ q, [q, r].Sublist (geneRows cx g) ∧ q.attrs.id = p ∧ q.start ≤ r.start := by
  intro r hr p hp
  have hwf' := hwf
  unfold geneWF at hwf'
  simp only [Bool.and_eq_true, List.all_eq_true] at hwf'
  unfold geneRows at hr ⊢
  simp only at hr ⊢
  rcases List.mem_cons.mp hr with rfl | hr'
  · simp at hp
  · obtain ⟨t, ht, hrt⟩ := List.mem_flatMap.mp hr'
    obtain ⟨hd, rest, hshape, hid, hpar, hstart, hrest⟩ := txRows_shape cx t g.guid (geneExportQuals g)
    rw [hshape] at hrt
    have hsub : (hd :: rest).Sublist (g.txs.flatMap fun t => txRows cx t g.guid (geneExportQuals g)) := by
      rw [← hshape]; exact sublist_flatMap_of_mem (f := fun t => txRows cx t g.guid (geneExportQuals g)) ht
    rcases List.mem_cons.mp hrt with rfl | hin
    · -- the transcript row: its parent is the gene row
      rw [hpar] at hp
      simp only [Option.some.injEq] at hp
      refine ⟨_, pair_sublist_cons hr', hp, ?_⟩
      rw [hstart]
      have : minNat (g.txs.map fun t => firstStart t.exons) ≤ firstStart t.exons :=
        minNat_le (List.mem_map.mpr ⟨t, ht, rfl⟩)
      simp only; omega
    · -- an exon / CDS row: its parent is the transcript row
      have := hrest r hin
      rw [this.1] at hp
      simp only [Option.some.injEq] at hp
      refine ⟨hd, ?_, by rw [hid]; exact hp, this.2 (hwf'.2 t ht)⟩
      exact List.Sublist.cons _ ((pair_sublist_cons hin).trans hsub)

theorem fcRows_parent {cx : Ctx} {c : SFc} (hwf : fcWF cx.off c = true) :
    ∀ r ∈ fcRows cx c, ∀ p, r.attrs.parent = some p →
      ∃ q, [q, r].Sublist (fcRows cx c) ∧ q.attrs.id = p ∧ q.start ≤ r.start := by
  intro r hr p hp
  have hwf' := hwf
  unfold fcWF at hwf'
  simp only [Bool.and_eq_true, List.all_eq_true] at hwf'
  unfold fcRows at hr ⊢
  simp only at hr ⊢
  rcases List.mem_cons.mp hr with rfl | hr'
  · simp at hp
  · obtain ⟨f, hf, hrf⟩ := List.mem_flatMap.mp hr'
    obtain ⟨hd, rest, hshape, hid, hpar, hstart, hrest⟩ := featRows_shape cx f c.guid (fcExportQuals c)
    rw [hshape] at hrf
    have hsub : (hd :: rest).Sublist (c.feats.flatMap fun f => featRows cx f c.guid (fcExportQuals c)) := by
      rw [← hshape]; exact sublist_flatMap_of_mem (f := fun f => featRows cx f c.guid (fcExportQuals c)) hf
    rcases List.mem_cons.mp hrf with rfl | hin
    · rw [hpar] at hp
      simp only [Option.some.injEq] at hp
      refine ⟨_, pair_sublist_cons hr', hp, ?_⟩
      rw [hstart]
      have : minNat (c.feats.map fun f => firstStart f.blocks) ≤ firstStart f.blocks :=
        minNat_le (List.mem_map.mpr ⟨f, hf, rfl⟩)
      simp only; omega
    · have := hrest r hin
      rw [this.1] at hp
      simp only [Option.some.injEq] at hp
      refine ⟨hd, ?_, by rw [hid]; exact hp, this.2 (hwf'.2 f hf)⟩
      exact List.Sublist.cons _ ((pair_sublist_cons hin).trans hsub)

theorem rowLe_trans : ∀ a b c : Row, rowLe a b = true → rowLe b c = true → rowLe a c = true := by
  intro a b c h1 h2
  simp only [rowLe, decide_eq_true_eq] at *
  omega

theorem rowLe_total : ∀ a b : Row, (rowLe a b || rowLe b a) = true := by
  intro a b
  simp only [rowLe, Bool.or_eq_true, decide_eq_true_eq]
  omega

/-- T3: in the sorted output the row named by a `Parent` comes EARLIER (stability of the sort + parent.start ≤
    child.start) -/
theorem sortedRows_parent {cx : Ctx} {c : SColl} (hwf : collWF cx.off c = true) :
    ∀ r ∈ sortedRows cx c, ∀ p, r.attrs.parent = some p →
      ∃ q, [q, r].Sublist (sortedRows cx c) ∧ q.attrs.id = p := by
  intro r hr p hp
  rw [mem_sortedRows] at hr
  have hall := List.all_eq_true.mp (by unfold collWF at hwf; exact hwf)
  unfold unsortedRows at hr
  obtain ⟨x, hx, hrx⟩ := List.mem_flatMap.mp hr
  have hxc : x ∈ c.children := mem_sortedChildren.mp hx
  have hsub : (childRows cx x).Sublist (unsortedRows cx c) := sublist_flatMap_of_mem hx
  have key : ∃ q, [q, r].Sublist (childRows cx x) ∧ q.attrs.id = p ∧ q.start ≤ r.start := by
    cases x with
    | gene g => exact geneRows_parent (hall _ hxc) r hrx p hp
    | fc f => exact fcRows_parent (hall _ hxc) r hrx p hp
  obtain ⟨q, hq, hid, hle⟩ := key
  refine ⟨q, ?_, hid⟩
  unfold sortedRows
  exact List.pair_sublist_mergeSort rowLe_trans rowLe_total (by simp [rowLe, hle]) (hq.trans hsub)

/-- T3: rows are ordered by start -/
theorem sortedRows_sorted (cx : Ctx) (c : SColl) :
    (sortedRows cx c).Pairwise (fun a b => a.start ≤ b.start) := by
  have := List.pairwise_mergeSort rowLe_trans rowLe_total (unsortedRows cx c)
  unfold sortedRows
  exact this.imp (by intro a b h; simpa [rowLe] using h)

end BioCantor.Proofs.GffRows
