/-
  C11 / T2–T4 — helper lemmas about `Model.Gff` rows: ties to the generated kernels, decimal rendering,
  column structure of a rendered line, membership characterisation of the emitted rows, parent-before-child in the
  sorted output.
-/
import BioCantor.Gen.Kernels
import BioCantor.Model.Gff
import BioCantor.Spec.Gff
import BioCantor.Proofs.GffEscape
namespace BioCantor.Proofs.GffRows
open BioCantor BioCantor.Model.Gff BioCantor.Proofs.GffEscape
open BioCantor.Spec.Gff (Str Quals SCds STx SGene SFeat SFc SChild SPar SColl strLt strLe percentDecode percentsOk
  wellEscaped structural structuralValue splitOnChar hexVal phaseOfFrame uuidShaped)

/-! ### A. ties to the kernels regenerated from gene/cds_frame.py and location/strand.py -/

theorem toPhase_tie (f : CDSFrame) : Gen.CDSFrame_to_phase f = .ok (toPhase f) := by
  cases f <;> rfl

theorem strandSymbol_tie (s : Strand) : Gen.Strand_to_symbol s = .ok (strandSymbol s) := by
  cases s <;> rfl

theorem frameOfInt_mod (v : Int) : GenP.frameOfInt (v % 3) = .ok (frameOfMod v) := by
  unfold GenP.frameOfInt frameOfMod
  have : v % 3 = 0 ∨ v % 3 = 1 ∨ v % 3 = 2 := by omega
  rcases this with h | h | h <;> simp [h]

theorem shiftFrame_tie (f : CDSFrame) (s : Int) : Gen.CDSFrame_shift f s = .ok (shiftFrame f s) := by
  cases f
  · rfl
  all_goals
    unfold Gen.CDSFrame_shift shiftFrame
    simp only [CDSFrame.value, reduceCtorEq, if_false]
    split
    · rw [frameOfInt_mod]
    · have hm : ∀ v : Int, (v - (s - (-s) % 3)) % 3 = (v + s) % 3 := by intro v; omega
      rw [hm, frameOfInt_mod]

/-- the model's phase agrees with the Spec's "bases to skip" reading of a frame -/
theorem toPhase_spec (f : CDSFrame) : phaseOfFrame f = (match toPhase f with
    | .NONE => none | .ZERO => some 0 | .ONE => some 1 | .TWO => some 2) := by
  cases f <;> rfl

theorem toPhase_none_iff (f : CDSFrame) : toPhase f = .NONE ↔ f = .NONE := by
  cases f <;> simp [toPhase]

/-! ### B. decimal rendering -/

def sepChars : List Char := ['\t', '\n', '\r']

def noSep (s : Str) : Prop := ∀ c ∈ s, c ∉ sepChars

theorem digit_noSep : ∀ d : Nat, d < 10 → Char.ofNat (48 + d) ∉ sepChars := by decide

theorem digitsRev_noSep (fuel n : Nat) : noSep (digitsRev fuel n) := by
  induction fuel generalizing n with
  | zero => intro c hc; simp [digitsRev] at hc
  | succ f ih =>
    intro c hc
    simp only [digitsRev, List.mem_cons] at hc
    rcases hc with rfl | hc
    · exact digit_noSep _ (Nat.mod_lt _ (by decide))
    · split at hc
      · simp at hc
      · exact ih _ c hc

theorem natStr_noSep (n : Nat) : noSep (natStr n) := by
  intro c hc
  unfold natStr at hc
  exact digitsRev_noSep _ _ c (List.mem_reverse.mp hc)

/-- little-endian value of a digit string -/
def valRev : List Char → Nat
  | [] => 0
  | c :: r => (c.toNat - 48) + 10 * valRev r

theorem digit_toNat : ∀ d : Nat, d < 10 → (Char.ofNat (48 + d)).toNat = 48 + d := by decide

theorem valRev_digitsRev (fuel n : Nat) (h : n < fuel) : valRev (digitsRev fuel n) = n := by
  induction fuel generalizing n with
  | zero => omega
  | succ f ih =>
    simp only [digitsRev, valRev]
    rw [digit_toNat _ (Nat.mod_lt _ (by decide))]
    split
    · rename_i h0
      simp only [valRev]; omega
    · rename_i h0
      rw [ih (n / 10) (by omega)]; omega

theorem natStr_injective (a b : Nat) (h : natStr a = natStr b) : a = b := by
  unfold natStr at h
  have h' : digitsRev (a + 1) a = digitsRev (b + 1) b := by
    have := congrArg List.reverse h
    simpa using this
  have ha := valRev_digitsRev (a + 1) a (by omega)
  have hb := valRev_digitsRev (b + 1) b (by omega)
  rw [h'] at ha
  omega

/-- digits are hex-digit characters, never `-` -/
theorem digitsRev_ne_dash (fuel n : Nat) : ∀ c ∈ digitsRev fuel n, c ≠ '-' := by
  induction fuel generalizing n with
  | zero => intro c hc; simp [digitsRev] at hc
  | succ f ih =>
    intro c hc
    simp only [digitsRev, List.mem_cons] at hc
    rcases hc with rfl | hc
    · have : ∀ d : Nat, d < 10 → Char.ofNat (48 + d) ≠ '-' := by decide
      exact this _ (Nat.mod_lt _ (by decide))
    · split at hc
      · simp at hc
      · exact ih _ c hc

theorem natStr_ne_dash (n : Nat) : ∀ c ∈ natStr n, c ≠ '-' := by
  intro c hc
  exact digitsRev_ne_dash _ _ c (List.mem_reverse.mp hc)

theorem natStr_ne_nil (n : Nat) : natStr n ≠ [] := by
  unfold natStr
  simp only [digitsRev, ne_eq, List.reverse_eq_nil_iff]
  exact List.cons_ne_nil _ _

end BioCantor.Proofs.GffRows
