/-
  C08 helper lemmas, part 2: sensitivity.  The bracket/comma delimited renderings of int lists and frame lists are
  uniquely decodable prefixes of the byte stream handed to MD5; decimal rendering of ints is injective.
-/
import BioCantor.Model.Digest
namespace BioCantor.Proofs.Dig
open BioCantor BioCantor.Spec.Digest BioCantor.Model.Digest
open BioCantor.Spec.Qual (Str strLt strLe)

/-! ### decimal rendering -/

theorem natStr_inj {n m : Nat} (h : natStr n = natStr m) : n = m := by
  have hn := Nat.ofDigitChars_ten_toDigits (n := n)
  have hm := Nat.ofDigitChars_ten_toDigits (n := m)
  unfold natStr at h
  rw [h] at hn
  exact hn.symm.trans hm

theorem natStr_ne_nil (n : Nat) : natStr n ≠ [] := Nat.toDigits_ne_nil

theorem natStr_digit {n : Nat} {c : Char} (h : c ∈ natStr n) : c.isDigit = true :=
  Nat.isDigit_of_mem_toDigits (by decide) (by decide) h

/-- the characters of a rendered int: digits and the minus sign -/
def isIntChar (c : Char) : Bool := c.isDigit || c == '-'

theorem intStr_chars : ∀ (i : Int) (c : Char), c ∈ intStr i → isIntChar c = true
  | .ofNat n, c, h => by simp [isIntChar, natStr_digit (n := n) (by simpa [intStr] using h)]
  | .negSucc n, c, h => by
    simp only [intStr, List.mem_cons] at h
    rcases h with rfl | h
    · decide
    · simp [isIntChar, natStr_digit h]

theorem intStr_ne_nil : ∀ (i : Int), intStr i ≠ []
  | .ofNat n => natStr_ne_nil n
  | .negSucc _ => by simp [intStr]

theorem natStr_head_ne_minus (n : Nat) (rest : Str) : natStr n ≠ '-' :: rest := by
  intro h
  have : ('-' : Char).isDigit = true := natStr_digit (n := n) (by rw [h]; simp)
  exact absurd this (by decide)

theorem intStr_inj : ∀ {i j : Int}, intStr i = intStr j → i = j
  | .ofNat n, .ofNat m, h => by
    have : n = m := natStr_inj (by simpa [intStr] using h)
    rw [this]
  | .negSucc n, .negSucc m, h => by
    simp only [intStr, List.cons.injEq, true_and] at h
    have := natStr_inj h
    have : n = m := by omega
    rw [this]
  | .ofNat n, .negSucc m, h => absurd (by simpa [intStr] using h) (natStr_head_ne_minus n _)
  | .negSucc n, .ofNat m, h => absurd (by simpa [intStr] using h.symm) (natStr_head_ne_minus m _)

/-! ### splitting a stream at the first delimiter -/

/-- the two characters that end an element inside `[a, b, c]` -/
def isDelim (c : Char) : Bool := c == ',' || c == ']'

theorem split_at_delim : ∀ {x y : Str} {c c' : Char} {s t : Str},
    (∀ ch ∈ x, isDelim ch = false) → (∀ ch ∈ y, isDelim ch = false) → isDelim c = true → isDelim c' = true →
    x ++ c :: s = y ++ c' :: t → x = y ∧ c = c' ∧ s = t
  | [], [], _, _, _, _, _, _, _, _, h => by simpa using h
  | [], b :: y, c, _, _, _, _, hy, hc, _, h => by
    simp only [List.nil_append, List.cons_append, List.cons.injEq] at h
    have := hy b (by simp); rw [← h.1, hc] at this; cases this
  | a :: x, [], _, c', _, _, hx, _, _, hc', h => by
    simp only [List.nil_append, List.cons_append, List.cons.injEq] at h
    have := hx a (by simp); rw [h.1, hc'] at this; cases this
  | a :: x, b :: y, _, _, _, _, hx, hy, hc, hc', h => by
    simp only [List.cons_append, List.cons.injEq] at h
    have ih := split_at_delim (fun ch hch => hx ch (by simp [hch])) (fun ch hch => hy ch (by simp [hch])) hc hc' h.2
    exact ⟨by rw [h.1, ih.1], ih.2⟩

/-- an element rendering usable inside a bracketed list: non-empty, free of `,` and `]`, injective -/
structure ElemCode {α : Type} (enc : α → Str) : Prop where
  nonempty : ∀ a, enc a ≠ []
  clean : ∀ a, ∀ ch ∈ enc a, isDelim ch = false
  inj : ∀ a b, enc a = enc b → a = b

theorem joinComma_cons (x : Str) (l : List Str) (s : Str) :
    joinComma (x :: l) ++ ']' :: s =
      x ++ (match l with | [] => ']' :: s | y :: r => ',' :: ' ' :: (joinComma (y :: r) ++ ']' :: s)) := by
  cases l with
  | nil => simp [joinComma]
  | cons y r => simp [joinComma]

theorem joined_inj {α : Type} {enc : α → Str} (hc : ElemCode enc) : ∀ {a b : List α} {s t : Str},
    joinComma (a.map enc) ++ ']' :: s = joinComma (b.map enc) ++ ']' :: t → a = b ∧ s = t
  | [], [], _, _, h => by simpa [joinComma] using h
  | [], y :: r, s, t, h => by
    rw [List.map_cons, joinComma_cons] at h
    simp only [List.map_nil, joinComma, List.nil_append] at h
    cases hy : enc y with
    | nil => exact absurd hy (hc.nonempty y)
    | cons ch rest =>
      rw [hy] at h
      simp only [List.cons_append, List.cons.injEq] at h
      have := hc.clean y ch (by rw [hy]; simp)
      rw [← h.1] at this; cases this
  | x :: l, [], s, t, h => by
    rw [List.map_cons, joinComma_cons] at h
    simp only [List.map_nil, joinComma, List.nil_append] at h
    cases hx : enc x with
    | nil => exact absurd hx (hc.nonempty x)
    | cons ch rest =>
      rw [hx] at h
      simp only [List.cons_append, List.cons.injEq] at h
      have := hc.clean x ch (by rw [hx]; simp)
      rw [h.1] at this; cases this
  | x :: l, y :: r, s, t, h => by
    rw [List.map_cons, List.map_cons, joinComma_cons, joinComma_cons] at h
    cases l with
    | nil =>
      cases r with
      | nil =>
        have := split_at_delim (hc.clean x) (hc.clean y) (by decide) (by decide) h
        exact ⟨by rw [hc.inj x y this.1], this.2.2⟩
      | cons y' r' =>
        have := split_at_delim (hc.clean x) (hc.clean y) (by decide) (by decide) h
        exact absurd this.2.1 (by decide)
    | cons x' l' =>
      cases r with
      | nil =>
        have := split_at_delim (hc.clean x) (hc.clean y) (by decide) (by decide) h
        exact absurd this.2.1 (by decide)
      | cons y' r' =>
        have h1 := split_at_delim (hc.clean x) (hc.clean y) (by decide) (by decide) h
        have h2 := h1.2.2
        simp only [List.cons.injEq, true_and] at h2
        have ih := joined_inj hc (a := x' :: l') (b := y' :: r') (by simpa using h2)
        exact ⟨by rw [hc.inj x y h1.1, ih.1], ih.2⟩

/-- `[a, b, c]` followed by anything: the list and the remainder are determined -/
theorem bracket_inj {α : Type} {enc : α → Str} (hc : ElemCode enc) {a b : List α} {s t : Str}
    (h : bracket '[' ']' (a.map enc) ++ s = bracket '[' ']' (b.map enc) ++ t) : a = b ∧ s = t := by
  simp only [bracket, List.cons_append, List.append_assoc, List.cons.injEq, true_and, List.nil_append] at h
  exact joined_inj hc h

theorem intStr_code : ElemCode intStr where
  nonempty := intStr_ne_nil
  clean := by
    intro a ch h
    have := intStr_chars a ch h
    simp only [isIntChar, Bool.or_eq_true, beq_iff_eq] at this
    rcases this with h1 | h1
    · simp only [isDelim, Bool.or_eq_false_iff, beq_eq_false_iff_ne]
      constructor <;> (rintro rfl; exact absurd h1 (by decide))
    · subst h1; decide
  inj := fun _ _ h => intStr_inj h

theorem frameRepr_code : ElemCode frameRepr where
  nonempty := by intro a; cases a <;> decide
  clean := by intro a; cases a <;> decide
  inj := by intro a b; cases a <;> cases b <;> decide

/-! ### the leading components of the per-class streams -/

def intsStr (l : List Int) : Str := bracket '[' ']' (l.map intStr)
def framesStr (l : List CDSFrame) : Str := bracket '[' ']' (l.map frameRepr)
def optFramesStr : Option (List CDSFrame) → Str
  | none => "None".toList
  | some l => framesStr l
def strandSym : Strand → Str
  | .plus => ['+'] | .minus => ['-'] | .unstranded => ['.']

theorem reprList_ints : ∀ (l : List Int), reprList (l.map .int) = l.map intStr
  | [] => by simp [reprList]
  | x :: xs => by simp [reprList, pyRepr, reprList_ints xs]

theorem reprList_frames : ∀ (l : List CDSFrame), reprList (l.map ofFrame) = l.map frameRepr
  | [] => by simp [reprList]
  | x :: xs => by simp [reprList, pyRepr, ofFrame, reprList_frames xs]

theorem pyStr_ofInts (l : List Int) : pyStr (ofInts l) = intsStr l := by
  simp [ofInts, pyStr, pyRepr, intsStr, reprList_ints]

theorem pyStr_frames (l : List CDSFrame) : pyStr (.list (l.map ofFrame)) = framesStr l := by
  simp [pyStr, pyRepr, framesStr, reprList_frames]

theorem pyStr_ofStrand (s : Strand) : pyStr (ofStrand s) = strandSym s := by
  cases s <;> rfl

theorem intsStr_inj {a b : List Int} {s t : Str} (h : intsStr a ++ s = intsStr b ++ t) : a = b ∧ s = t :=
  bracket_inj intStr_code h

theorem framesStr_inj {a b : List CDSFrame} {s t : Str} (h : framesStr a ++ s = framesStr b ++ t) : a = b ∧ s = t :=
  bracket_inj frameRepr_code h

theorem optFramesStr_inj : ∀ {a b : Option (List CDSFrame)} {s t : Str},
    optFramesStr a ++ s = optFramesStr b ++ t → a = b ∧ s = t
  | none, none, _, _, h => ⟨rfl, List.append_cancel_left h⟩
  | none, some l, _, _, h => by simp [optFramesStr, framesStr, bracket] at h
  | some l, none, _, _, h => by simp [optFramesStr, framesStr, bracket] at h
  | some a, some b, _, _, h => by
    have := framesStr_inj h
    exact ⟨by rw [this.1], this.2⟩

theorem strandSym_inj : ∀ {a b : Strand} {s t : Str}, strandSym a ++ s = strandSym b ++ t → a = b ∧ s = t := by
  intro a b s t h
  cases a <;> cases b <;> simp [strandSym] at h <;> first | exact ⟨rfl, h⟩ | exact absurd h (by decide)

/-- a positional member that is neither a dict nor a set contributes exactly its `str()` -/
def isPlain : PyVal → Bool
  | .dict _ => false
  | .set _ => false
  | _ => true

theorem memberTokens_plain : ∀ {v : PyVal}, isPlain v = true → memberTokens v = [pyStr v]
  | .none, _ => by simp [memberTokens]
  | .bool _, _ => by simp [memberTokens]
  | .int _, _ => by simp [memberTokens]
  | .str _, _ => by simp [memberTokens]
  | .uuid _, _ => by simp [memberTokens]
  | .obj _ _, _ => by simp [memberTokens]
  | .list _, _ => by simp [memberTokens]

/-- the byte stream of a digest call -/
def stream (args : List PyVal) : Str := concatTokens (encodeObjectForDigest args [])

theorem stream_cons_plain {v : PyVal} (h : isPlain v = true) (rest : List PyVal) :
    stream (v :: rest) = pyStr v ++ stream rest := by
  simp [stream, encodeObjectForDigest, concatTokens, memberTokens_plain h]

theorem isPlain_ofStrand (s : Strand) : isPlain (ofStrand s) = true := by cases s <;> rfl

end BioCantor.Proofs.Dig
