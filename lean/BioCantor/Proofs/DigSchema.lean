/-
  C08 helper lemmas, part 6: the dictionary every class exports lies in the accepted domain of its data model
  (`XModel.Schema().load(x.to_dict())` cannot raise ValidationError) — the clause F-C08b violated.
-/
import BioCantor.Model.DigestSchema
import BioCantor.Proofs.DigDict
set_option linter.unusedSimpArgs false
namespace BioCantor.Proofs.Dig
open BioCantor BioCantor.Spec.Digest BioCantor.Model.Digest
open BioCantor.Spec.Qual (Str strLt strLe)

/-! ### acceptance of a `mkDict` dictionary, by `Key` -/

theorem find_str (k : Key) : ∀ (l : List Field), (l.find? fun f => f.key.str == k.str) = findField k l
  | [] => rfl
  | f :: fs => by
    have hb : (f.key.str == k.str) = decide (f.key = k) := by
      by_cases h : f.key = k
      · simp [h]
      · have : f.key.str ≠ k.str := fun hh => h (Key.str_inj hh)
        simp [h, this]
    simp only [List.find?, findField, hb, find_str k fs]
    by_cases h : f.key = k <;> simp [h]

theorem fieldOf_str (c : MCls) (k : Key) : fieldOf c k.str = fieldOfKey c k := find_str k (schema c)

/-- one entry: a declared field whose value has the declared shape -/
def entryOkK (c : MCls) (k : Key) (v : PyVal) : Bool := optFieldOk (fieldOfKey c k) v

def hasKey (k : Key) : List (Key × PyVal) → Bool
  | [] => false
  | e :: es => if e.1 = k then true else hasKey k es

theorem entriesOk_cons (c : MCls) (k : Str) (v : PyVal) (rest : List (Str × PyVal)) :
    entriesOk c ((k, v) :: rest) = (optFieldOk (fieldOf c k) v && entriesOk c rest) := by
  cases h : fieldOf c k <;> simp [entriesOk, h, optFieldOk]

/-- marshmallow's `unknown = RAISE`: a dictionary holding a key that is not a declared field is refused -/
theorem unknown_key_refused (c : MCls) {k : Str} {v : PyVal} (hk : fieldOf c k = none) :
    ∀ {kvs : List (Str × PyVal)}, (k, v) ∈ kvs → accepts c (.dict kvs) = false := by
  have key : ∀ {kvs : List (Str × PyVal)}, (k, v) ∈ kvs → entriesOk c kvs = false := by
    intro kvs
    induction kvs with
    | nil => intro h; cases h
    | cons e es ih =>
      intro h
      obtain ⟨k', v'⟩ := e
      rw [entriesOk_cons]
      rcases List.mem_cons.mp h with he | he
      · cases he; simp [hk, optFieldOk]
      · simp [ih he]
  intro kvs h
  simp [accepts, key h]

theorem entriesOk_mkDict (c : MCls) : ∀ (fs : List (Key × PyVal)),
    entriesOk c (fs.map fun f => (f.1.str, f.2)) = fs.all fun e => entryOkK c e.1 e.2
  | [] => by simp [entriesOk]
  | (k, v) :: fs => by
    simp only [List.map_cons, entriesOk_cons, fieldOf_str, entriesOk_mkDict c fs, List.all_cons, entryOkK]

theorem any_key_mkDict (k : Key) : ∀ (fs : List (Key × PyVal)),
    ((fs.map fun f => (f.1.str, f.2)).any fun e => e.1 == k.str) = hasKey k fs
  | [] => rfl
  | (k', v) :: fs => by
    have hb : (k'.str == k.str) = decide (k' = k) := by
      by_cases h : k' = k
      · simp [h]
      · have : k'.str ≠ k.str := fun hh => h (Key.str_inj hh)
        simp [h, this]
    simp only [List.map_cons, List.any_cons, hasKey, hb, any_key_mkDict k fs]
    by_cases h : k' = k <;> simp [h]

theorem accepts_mkDict (c : MCls) (fs : List (Key × PyVal)) :
    accepts c (mkDict fs) =
      ((fs.all fun e => entryOkK c e.1 e.2) && (schema c).all fun f => !f.required || hasKey f.key fs) := by
  simp only [mkDict, accepts, entriesOk_mkDict, any_key_mkDict]

/-! ### the exported values have the declared shapes -/

theorem valueOk_ofInts (an : Bool) (l : List Int) : valueOk .ints an (ofInts l) = true := by
  simp only [ofInts, valueOk, atomOk, List.all_map]
  induction l with
  | nil => rfl
  | cons x xs ih => simp only [List.all_cons, Function.comp, isIntVal, ih, Bool.and_self]

theorem valueOk_int (an : Bool) (n : Int) : valueOk .int an (.int n) = true := by simp [valueOk, atomOk, isIntVal]
theorem valueOk_str (an : Bool) (s : Str) : valueOk .str an (.str s) = true := by simp [valueOk, atomOk, isStrVal]
theorem valueOk_uuid (an : Bool) (s : Str) : valueOk .uuid an (.uuid s) = true := by simp [valueOk, atomOk]
theorem valueOk_none (t : FType) : valueOk t true .none = true := by simp [valueOk]
theorem valueOk_seqType (an : Bool) (s : Str) : valueOk .seqType an (.str s) = true := by simp [valueOk, atomOk]

theorem valueOk_optStr (s : Option Str) : valueOk .str true (ofOptStr s) = true := by
  cases s <;> simp [ofOptStr, valueOk, atomOk, isStrVal]
theorem valueOk_optInt (s : Option Int) : valueOk .int true (ofOptInt s) = true := by
  cases s <;> simp [ofOptInt, valueOk, atomOk, isIntVal]
theorem valueOk_optBool (s : Option Bool) : valueOk .bool true (ofOptBool s) = true := by
  cases s <;> simp [ofOptBool, valueOk, atomOk]
theorem valueOk_optUuid (s : Option Str) : valueOk .uuid true (ofOptUuid s) = true := by
  cases s <;> simp [ofOptUuid, valueOk, atomOk]

theorem valueOk_strand (an : Bool) (s : Strand) : valueOk .strand an (.str (strandName s)) = true := by
  simp only [valueOk, atomOk]
  cases s <;> rfl

theorem valueOk_frames (an : Bool) (l : List CDSFrame) :
    valueOk .frames an (.list (l.map fun f => .str (frameName f))) = true := by
  simp only [valueOk, atomOk, List.all_map]
  induction l with
  | nil => rfl
  | cons x xs ih =>
    simp only [List.all_cons, Function.comp, isFrameName, ih, Bool.and_true]
    cases x <;> rfl

theorem all_isStrVal (l : List Str) : (l.map PyVal.str).all isStrVal = true := by
  induction l with
  | nil => rfl
  | cons x xs ih => simp only [List.map_cons, List.all_cons, isStrVal, ih, Bool.and_self]

theorem all_isQualAtom (l : List Str) : (l.map PyVal.str).all isQualAtom = true := by
  induction l with
  | nil => rfl
  | cons x xs ih => simp only [List.map_cons, List.all_cons, isQualAtom, ih, Bool.and_self]

theorem valueOk_quals (q : Quals) : valueOk .quals true (qualsExportVal q) = true := by
  unfold qualsExportVal exportQuals
  cases q with
  | nil => simp [valueOk]
  | cons e es =>
    simp only [List.isEmpty_cons, Bool.false_eq_true, if_false, valueOk, atomOk, List.all_map]
    apply List.all_eq_true.mpr
    intro x _
    simp only [Function.comp, isQualEntry, all_isQualAtom]

theorem valueOk_biotype {t : Option Str} (h : BiotypeWF t) : valueOk .biotype true (ofOptStr t) = true := by
  cases t with
  | none => simp [ofOptStr, valueOk]
  | some n => simp [ofOptStr, valueOk, atomOk, (h n rfl).2]

theorem valueOk_types (l : List Str) :
    valueOk .strs true (if l.isEmpty then .none else .list ((sortStrs l).map .str)) = true := by
  cases h : l.isEmpty with
  | true => simp [valueOk]
  | false => simp only [Bool.false_eq_true, if_false, valueOk, atomOk, all_isStrVal]

theorem valueOk_nestedList {α : Type} (c : MCls) (an : Bool) (f : α → PyVal) (l : List α)
    (h : ∀ x ∈ l, accepts c (f x) = true) : valueOk (.nestedList c) an (.list (l.map f)) = true := by
  simp only [valueOk]
  induction l with
  | nil => simp [acceptsAll]
  | cons x xs ih =>
    simp only [List.map_cons, acceptsAll, h x (by simp), Bool.true_and]
    exact ih fun y hy => h y (by simp [hy])

/-! ### per class -/

section
variable (md5 : List Str → Str)

theorem tx_accepted (o : TxObj) (h : TxWF o) : accepts .tx (txToDict o) = true := by
  obtain ⟨a, sg, g, tg⟩ := o
  obtain ⟨st, en, sd, cds, q, tid, sym, ty, pid, prod, sn, prim⟩ := a
  have hb := valueOk_biotype h.biotype
  simp only at hb
  simp only [txToDict, accepts_mkDict]
  cases cds <;>
    simp only [List.all_cons, List.all_nil, entryOkK, optFieldOk, fieldOfKey, schema, findField, hasKey, opt, req, reduceCtorEq,
      ↓reduceIte, valueOk_ofInts, valueOk_strand, valueOk_none, valueOk_frames, valueOk_quals, valueOk_optBool,
      valueOk_optStr, hb, valueOk_optUuid, valueOk_uuid, Bool.and_self, Bool.not_true, Bool.not_false, Bool.or_true,
      Bool.true_or, Bool.or_self, Bool.false_or]

theorem feat_accepted (o : FeatObj) : accepts .feat (featToDict o) = true := by
  obtain ⟨a, sg, g, fg⟩ := o
  obtain ⟨st, en, sd, q, sn, types, fname, fid, prim⟩ := a
  simp only [featToDict, accepts_mkDict]
  simp only [List.all_cons, List.all_nil, entryOkK, optFieldOk, fieldOfKey, schema, findField, hasKey, opt, req, reduceCtorEq,
    ↓reduceIte, valueOk_ofInts, valueOk_strand, valueOk_quals, valueOk_optBool, valueOk_types,
    valueOk_optStr, valueOk_optUuid, valueOk_uuid, Bool.and_self, Bool.not_true, Bool.not_false, Bool.or_true,
    Bool.true_or, Bool.or_self, Bool.false_or]

theorem var_accepted (o : VarObj) : accepts .var (varToDict o) = true := by
  obtain ⟨a, vid, g⟩ := o
  obtain ⟨s, e, q, sq, vt, pb, vname, vguid⟩ := a
  simp only [varToDict, accepts_mkDict]
  simp only [List.all_cons, List.all_nil, entryOkK, optFieldOk, fieldOfKey, schema, findField, hasKey, opt, req, reduceCtorEq,
    ↓reduceIte, valueOk_int, valueOk_str, valueOk_quals, valueOk_optInt,
    valueOk_optStr, valueOk_optUuid, valueOk_uuid, Bool.and_self, Bool.not_true, Bool.not_false, Bool.or_true,
    Bool.true_or, Bool.or_self, Bool.false_or]

theorem gene_accepted (o : GeneObj) (h : GeneWF o) : accepts .gene (geneToDict o) = true := by
  obtain ⟨txs, gid, sym, ty, lt, q, sn, sg, g⟩ := o
  have hb := valueOk_biotype h.biotype
  have hc := valueOk_nestedList .tx false txToDict txs fun t ht => tx_accepted t (h.children t ht)
  simp only at hb
  simp only [geneToDict, accepts_mkDict]
  simp only [List.all_cons, List.all_nil, entryOkK, optFieldOk, fieldOfKey, schema, findField, hasKey, opt, req, reduceCtorEq,
    ↓reduceIte, hc, hb, valueOk_quals, valueOk_optStr, valueOk_optUuid, valueOk_uuid, Bool.and_self, Bool.not_true,
    Bool.not_false, Bool.or_true, Bool.true_or, Bool.or_self, Bool.false_or]

theorem fc_accepted (o : FcObj) : accepts .fc (fcToDict o) = true := by
  obtain ⟨fs, name, id, ct, lt, q, sn, sg, g⟩ := o
  have hc := valueOk_nestedList .feat false featToDict fs fun t _ => feat_accepted t
  simp only [fcToDict, accepts_mkDict]
  simp only [List.all_cons, List.all_nil, entryOkK, optFieldOk, fieldOfKey, schema, findField, hasKey, opt, req, reduceCtorEq,
    ↓reduceIte, hc, valueOk_quals, valueOk_optStr, valueOk_optUuid, valueOk_uuid, Bool.and_self, Bool.not_true,
    Bool.not_false, Bool.or_true, Bool.true_or, Bool.or_self, Bool.false_or]

theorem vc_accepted (o : VcObj) : accepts .vc (vcToDict o) = true := by
  obtain ⟨vs, name, id, q, sn, sg, g⟩ := o
  have hc := valueOk_nestedList .var false varToDict vs fun t _ => var_accepted t
  simp only [vcToDict, accepts_mkDict]
  simp only [List.all_cons, List.all_nil, entryOkK, optFieldOk, fieldOfKey, schema, findField, hasKey, opt, req, reduceCtorEq,
    ↓reduceIte, hc, valueOk_quals, valueOk_optStr, valueOk_optUuid, valueOk_uuid, Bool.and_self, Bool.not_true,
    Bool.not_false, Bool.or_true, Bool.true_or, Bool.or_self, Bool.false_or]

/-- the alphabet name of a parent with sequence is a member of `Alphabet` -/
def AlphabetOk : ParentDesc → Prop
  | .chrom _ al _ => (Gen.alphabets.lookup al).isSome = true
  | .chunk _ al _ _ _ _ => (Gen.alphabets.lookup al).isSome = true
  | _ => True

theorem parent_accepted (p : ParentDesc) (b : Int × Int) (h : AlphabetOk p) :
    valueOk (.nestedOne .parent) true (parentToDict p b) = true := by
  cases p with
  | none => simp [parentToDict, valueOk]
  | chunk sq al name s e st =>
    have ha : valueOk .alphabet true (.str al) = true := by simp only [valueOk, atomOk]; exact h
    simp only [parentToDict, mkDict, valueOk]
    rw [← mkDict, accepts_mkDict]
    simp only [List.all_cons, List.all_nil, entryOkK, optFieldOk, fieldOfKey, schema, findField, hasKey, opt, req, reduceCtorEq,
      ↓reduceIte, valueOk_int, valueOk_str, valueOk_strand, valueOk_seqType, ha, Bool.and_self, Bool.not_true,
      Bool.not_false, Bool.or_true, Bool.true_or, Bool.or_self, Bool.false_or]
  | chrom sq al id =>
    have ha : valueOk .alphabet true (.str al) = true := by simp only [valueOk, atomOk]; exact h
    have hp : valueOk .strand true (.str "PLUS".toList) = true := valueOk_strand true .plus
    simp only [parentToDict, mkDict, valueOk]
    rw [← mkDict, accepts_mkDict]
    simp only [List.all_cons, List.all_nil, entryOkK, optFieldOk, fieldOfKey, schema, findField, hasKey, opt, req, reduceCtorEq,
      ↓reduceIte, valueOk_int, valueOk_str, valueOk_optStr, hp, valueOk_seqType, ha, Bool.and_self, Bool.not_true,
      Bool.not_false, Bool.or_true, Bool.true_or, Bool.or_self, Bool.false_or]
  | bare id c =>
    have hp : valueOk .strand true (.str "PLUS".toList) = true := valueOk_strand true .plus
    cases c <;>
    · simp only [parentToDict, mkDict, valueOk]
      rw [← mkDict, accepts_mkDict]
      simp only [List.all_cons, List.all_nil, entryOkK, optFieldOk, fieldOfKey, schema, findField, hasKey, opt, req, reduceCtorEq,
        ↓reduceIte, valueOk_int, valueOk_none, valueOk_optStr, hp, valueOk_seqType, Bool.and_self, Bool.not_true,
        Bool.not_false, Bool.or_true, Bool.true_or, Bool.or_self, Bool.false_or]

theorem ac_accepted (o : AcObj) (hg : ∀ g ∈ o.genes, GeneWF g) (ha : AlphabetOk o.parent) (ep : Bool) (d : PyVal)
    (hd : acToDict o ep = .ok d) : accepts .ac d = true := by
  obtain ⟨genes, fcs, vcs, name, id, q, sn, sg, sp, bounds, cw, parent, g⟩ := o
  cases bounds with
  | none => simp [acToDict] at hd
  | some b =>
    simp only [acToDict, Except.ok.injEq] at hd
    subst hd
    have h1 := valueOk_nestedList .gene false geneToDict genes fun t ht => gene_accepted t (hg t ht)
    have h2 := valueOk_nestedList .fc false fcToDict fcs fun t _ => fc_accepted t
    have h3 := valueOk_nestedList .vc false vcToDict vcs fun t _ => vc_accepted t
    have h4 : valueOk (.nestedOne .parent) true (if ep then parentToDict parent b else .none) = true := by
      cases ep
      · simp [valueOk]
      · simpa using parent_accepted parent b ha
    simp only [accepts_mkDict]
    simp only [List.all_cons, List.all_nil, entryOkK, optFieldOk, fieldOfKey, schema, findField, hasKey, opt, req, reduceCtorEq,
      ↓reduceIte, h1, h2, h3, h4, valueOk_int, valueOk_quals, valueOk_optStr, valueOk_optBool, valueOk_optUuid,
      Bool.and_self, Bool.not_true, Bool.not_false, Bool.or_true, Bool.true_or, Bool.or_self, Bool.false_or]

end
end BioCantor.Proofs.Dig
