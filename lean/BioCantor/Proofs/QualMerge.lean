/-
  C18 helper lemmas, part 6: `merge_qualifiers` — the accumulated `defaultdict(set)` represents, key by key,
  the set union of the values seen so far.
-/
import BioCantor.Proofs.QualSets
namespace BioCantor.Proofs.Qual
open BioCantor BioCantor.Spec.Qual BioCantor.Model.Qual

/-- the values a key has in a dictionary under construction (`[]` when absent) -/
def curVals (m : QDict) (k : Str) : List Str :=
  match lookupExact k m with
  | some s => s
  | none => []

theorem lookup_dictUpdate (k : Str) (vals : List Str) : ∀ (m : QDict) (k' : Str),
    lookupExact k' (dictUpdate m k vals) =
      if k' = k then some (setUpdate (curVals m k) vals) else lookupExact k' m
  | [], k' => by
    simp only [dictUpdate, lookupExact, curVals]
    by_cases h : k = k'
    · simp [h]
    · have : ¬ k' = k := fun e => h e.symm
      simp [h, this]
  | e :: es, k' => by
    unfold dictUpdate
    by_cases he : e.1 = k
    · simp only [he, if_true, lookupExact, curVals]
      by_cases h : k = k'
      · simp [h]
      · have : ¬ k' = k := fun e => h e.symm
        simp [h, this]
    · simp only [he, if_false, lookupExact]
      by_cases h : e.1 = k'
      · have : ¬ k' = k := fun e' => he (h.trans e')
        simp [h, this]
      · rw [lookup_dictUpdate k vals es k']
        simp only [h, if_false, curVals, lookupExact, he]

theorem keys_dictUpdate (k : Str) (vals : List Str) : ∀ (m : QDict) (e : Str × List Str),
    e ∈ dictUpdate m k vals → e.1 = k ∨ e ∈ m
  | [], e, h => by simp only [dictUpdate, List.mem_singleton] at h; left; rw [h]
  | x :: xs, e, h => by
    unfold dictUpdate at h
    by_cases hx : x.1 = k
    · simp only [hx, if_true, List.mem_cons] at h
      rcases h with h | h
      · left; rw [h]
      · right; exact List.mem_cons_of_mem _ h
    · simp only [hx, if_false, List.mem_cons] at h
      rcases h with h | h
      · right; rw [h]; exact List.mem_cons_self
      · rcases keys_dictUpdate k vals xs e h with h' | h'
        · exact Or.inl h'
        · exact Or.inr (List.mem_cons_of_mem _ h')

theorem keysDistinct_dictUpdate (k : Str) (vals : List Str) : ∀ (m : QDict),
    keysDistinct m = true → keysDistinct (dictUpdate m k vals) = true
  | [], _ => by simp [dictUpdate, keysDistinct]
  | x :: xs, h => by
    simp only [keysDistinct, Bool.and_eq_true, Bool.not_eq_true', List.any_eq_false, beq_iff_eq] at h
    unfold dictUpdate
    by_cases hx : x.1 = k
    · simp only [hx, if_true, keysDistinct, Bool.and_eq_true, Bool.not_eq_true', List.any_eq_false, beq_iff_eq]
      exact ⟨fun y hy => by rw [← hx]; exact h.1 y hy, h.2⟩
    · simp only [hx, if_false, keysDistinct, Bool.and_eq_true, Bool.not_eq_true', List.any_eq_false, beq_iff_eq]
      refine ⟨fun y hy => ?_, keysDistinct_dictUpdate k vals xs h.2⟩
      rcases keys_dictUpdate k vals xs y hy with h' | h'
      · rw [h']; exact fun e => hx e.symm
      · exact h.1 y h'

/-- `m` represents the entries `L`: distinct keys; each key holds the duplicate-free union of its values in `L` -/
structure Rep (m L : QDict) : Prop where
  distinct : keysDistinct m = true
  absent : ∀ k, lookupExact k m = none → ∀ e ∈ L, e.1 ≠ k
  present : ∀ k s, lookupExact k m = some s → s.Nodup ∧ (∃ e ∈ L, e.1 = k) ∧ ∀ x, x ∈ s ↔ ∃ e ∈ L, e.1 = k ∧ x ∈ e.2

theorem rep_nil : Rep [] [] :=
  ⟨rfl, fun _ _ _ h => (nomatch h), fun _ _ h => by cases h⟩

theorem rep_step {m L : QDict} (h : Rep m L) (e : Str × List Str) : Rep (dictUpdate m e.1 e.2) (L ++ [e]) := by
  refine ⟨keysDistinct_dictUpdate _ _ _ h.distinct, ?_, ?_⟩
  · intro k hk e' he'
    rw [lookup_dictUpdate] at hk
    by_cases hke : k = e.1
    · simp [hke] at hk
    · simp only [hke, if_false] at hk
      rcases List.mem_append.mp he' with h' | h'
      · exact h.absent k hk e' h'
      · rw [List.mem_singleton.mp h']; exact fun e => hke e.symm
  · intro k s hk
    rw [lookup_dictUpdate] at hk
    by_cases hke : k = e.1
    · simp only [hke, if_true, Option.some.injEq] at hk
      subst hk
      subst hke
      unfold curVals
      cases hl : lookupExact e.1 m with
      | none =>
        simp only
        refine ⟨setUpdate_nodup _ _ List.nodup_nil, ⟨e, by simp, rfl⟩, fun x => ?_⟩
        rw [setUpdate_mem]
        constructor
        · rintro (h' | h')
          · cases h'
          · exact ⟨e, by simp, rfl, h'⟩
        · rintro ⟨e', he', h1, h2⟩
          rcases List.mem_append.mp he' with h' | h'
          · exact absurd h1 (h.absent _ hl e' h')
          · rw [List.mem_singleton.mp h'] at h2; exact Or.inr h2
      | some s0 =>
        simp only
        obtain ⟨hn, _, hm⟩ := h.present _ _ hl
        refine ⟨setUpdate_nodup _ _ hn, ⟨e, by simp, rfl⟩, fun x => ?_⟩
        rw [setUpdate_mem, hm]
        constructor
        · rintro (⟨e', he', h1, h2⟩ | h')
          · exact ⟨e', List.mem_append_left _ he', h1, h2⟩
          · exact ⟨e, by simp, rfl, h'⟩
        · rintro ⟨e', he', h1, h2⟩
          rcases List.mem_append.mp he' with h' | h'
          · exact Or.inl ⟨e', h', h1, h2⟩
          · rw [List.mem_singleton.mp h'] at h2; exact Or.inr h2
    · simp only [hke, if_false] at hk
      obtain ⟨hn, ⟨w, hw, hwk⟩, hm⟩ := h.present _ _ hk
      refine ⟨hn, ⟨w, List.mem_append_left _ hw, hwk⟩, fun x => ?_⟩
      rw [hm]
      constructor
      · rintro ⟨e', he', h1, h2⟩
        exact ⟨e', List.mem_append_left _ he', h1, h2⟩
      · rintro ⟨e', he', h1, h2⟩
        rcases List.mem_append.mp he' with h' | h'
        · exact ⟨e', h', h1, h2⟩
        · rw [List.mem_singleton.mp h'] at h1; exact absurd h1.symm hke

theorem rep_fold : ∀ (L' m L : QDict), Rep m L →
    Rep (L'.foldl (fun m e => dictUpdate m e.1 e.2) m) (L ++ L')
  | [], m, L, h => by simpa using h
  | e :: es, m, L, h => by
    rw [List.foldl_cons]
    have := rep_fold es _ _ (rep_step h e)
    simpa using this

theorem lookup_map_sort (k : Str) : ∀ (m : QDict),
    lookupExact k (m.map fun e => (e.1, sortStrs e.2)) = (lookupExact k m).map sortStrs
  | [] => rfl
  | e :: es => by
    simp only [List.map_cons, lookupExact]
    by_cases h : e.1 = k
    · simp [h]
    · simp [h, lookup_map_sort k es]

theorem keysDistinct_map_sort : ∀ (m : QDict),
    keysDistinct (m.map fun e => (e.1, sortStrs e.2)) = keysDistinct m
  | [] => rfl
  | e :: es => by
    simp only [List.map_cons, keysDistinct, keysDistinct_map_sort es, List.any_map]
    rfl

/-- the merged dictionary, key by key -/
theorem merge_lookup (a b : QDict) (k : Str) :
    (lookupExact k (mergeQualifiers a b) = none ∧ ∀ e ∈ a ++ b, e.1 ≠ k) ∨
    (∃ s, lookupExact k (mergeQualifiers a b) = some s ∧ s.Pairwise (fun x y => strLt x y = true) ∧
      (∃ e ∈ a ++ b, e.1 = k) ∧ ∀ x, x ∈ s ↔ ∃ e ∈ a ++ b, e.1 = k ∧ x ∈ e.2) := by
  have hr := rep_fold (a ++ b) [] [] rep_nil
  simp only [List.nil_append] at hr
  unfold mergeQualifiers
  rw [lookup_map_sort]
  cases hl : lookupExact k ((a ++ b).foldl (fun m e => dictUpdate m e.1 e.2) []) with
  | none => exact Or.inl ⟨rfl, hr.absent k hl⟩
  | some s =>
    obtain ⟨hn, hex, hm⟩ := hr.present k s hl
    refine Or.inr ⟨sortStrs s, rfl, sortStrs_strict hn, hex, fun x => ?_⟩
    rw [mem_sortStrs, hm]

theorem merge_keysDistinct (a b : QDict) : keysDistinct (mergeQualifiers a b) = true := by
  have hr := rep_fold (a ++ b) [] [] rep_nil
  unfold mergeQualifiers
  rw [keysDistinct_map_sort]
  exact hr.distinct

theorem valuesUnder_mem (k : Str) (d : QDict) (x : Str) :
    x ∈ valuesUnder k d ↔ ∃ e ∈ d, e.1 = k ∧ x ∈ e.2 := by
  simp only [valuesUnder, List.mem_flatMap, List.mem_filter, beq_iff_eq]
  constructor
  · rintro ⟨e, ⟨he, hk⟩, hx⟩; exact ⟨e, he, hk, hx⟩
  · rintro ⟨e, he, hk, hx⟩; exact ⟨e, ⟨he, hk⟩, hx⟩

theorem mem_of_lookup {k : Str} {vs : List Str} : ∀ {qs : QDict}, lookupExact k qs = some vs → (k, vs) ∈ qs
  | [], h => by simp [lookupExact] at h
  | e :: es, h => by
    unfold lookupExact at h
    by_cases hk : e.1 = k
    · simp only [hk, if_true, Option.some.injEq] at h
      rw [← h, ← hk]; exact List.mem_cons_self
    · simp only [hk, if_false] at h
      exact List.mem_cons_of_mem _ (mem_of_lookup h)

/-- MAIN LEMMA for merge_qualifiers -/
theorem merge_ok (a b : QDict) : okMerge a b (some (mergeQualifiers a b)) = true := by
  simp only [okMerge, Bool.and_eq_true, List.all_eq_true]
  refine ⟨⟨merge_keysDistinct a b, ?_⟩, ?_⟩
  · rw [sameSet_iff]
    intro k
    simp only [List.mem_map]
    constructor
    · rintro ⟨e, he, rfl⟩
      have hl := (lookupExact_mem (merge_keysDistinct a b) e.2).mpr (by simpa using he)
      rcases merge_lookup a b e.1 with ⟨h0, _⟩ | ⟨s, _, _, ⟨w, hw, hk⟩, _⟩
      · rw [hl] at h0; cases h0
      · exact ⟨w, hw, hk⟩
    · rintro ⟨e, he, rfl⟩
      rcases merge_lookup a b e.1 with ⟨_, h0⟩ | ⟨s, hs, _, _, _⟩
      · exact absurd rfl (h0 e he)
      · exact ⟨(e.1, s), mem_of_lookup hs, rfl⟩
  · intro e he
    have hl := (lookupExact_mem (merge_keysDistinct a b) e.2).mpr (by simpa using he)
    rcases merge_lookup a b e.1 with ⟨h0, _⟩ | ⟨s, hs, hp, _, hm⟩
    · rw [hl] at h0; cases h0
    · rw [hl] at hs
      simp only [Option.some.injEq] at hs
      subst hs
      refine ⟨sortedStrict_of_pairwise hp, ?_⟩
      rw [sameSet_iff]
      intro x
      rw [hm, valuesUnder_mem]

/-- commutative up to key order: every key has the same value list in `merge a b` and `merge b a` -/
theorem merge_comm_lookup (a b : QDict) (k : Str) :
    lookupExact k (mergeQualifiers a b) = lookupExact k (mergeQualifiers b a) := by
  have swap : ∀ {P : Str × List Str → Prop}, (∃ e ∈ a ++ b, P e) ↔ (∃ e ∈ b ++ a, P e) := by
    intro P
    constructor <;> rintro ⟨e, he, hp⟩ <;> refine ⟨e, ?_, hp⟩ <;>
      rcases List.mem_append.mp he with h | h
    · exact List.mem_append_right _ h
    · exact List.mem_append_left _ h
    · exact List.mem_append_right _ h
    · exact List.mem_append_left _ h
  rcases merge_lookup a b k with ⟨h1, h2⟩ | ⟨s, h1, hp, ⟨w, hw, hk⟩, hm⟩ <;>
    rcases merge_lookup b a k with ⟨h1', h2'⟩ | ⟨s', h1', hp', ⟨w', hw', hk'⟩, hm'⟩
  · rw [h1, h1']
  · exact absurd hk' (h2 w' ((swap (P := fun e => e = w')).mpr ⟨w', hw', rfl⟩ |> fun ⟨e, he, h⟩ => h ▸ he))
  · exact absurd hk (h2' w ((swap (P := fun e => e = w)).mp ⟨w, hw, rfl⟩ |> fun ⟨e, he, h⟩ => h ▸ he))
  · rw [h1, h1']
    congr 1
    apply strict_ext hp hp'
    intro x
    rw [hm, hm']
    exact swap

/-- idempotent: merging a dictionary with itself only sorts and de-duplicates each value list -/
theorem merge_self_lookup (a : QDict) (ha : keysDistinct a = true) (k : Str) :
    lookupExact k (mergeQualifiers a a) = (lookupExact k a).map fun vs => sortStrs (setUpdate [] vs) := by
  rcases merge_lookup a a k with ⟨h1, h2⟩ | ⟨s, h1, hp, ⟨w, hw, hk⟩, hm⟩
  · rw [h1]
    cases hl : lookupExact k a with
    | none => rfl
    | some vs => exact absurd rfl (h2 _ (List.mem_append_left _ (mem_of_lookup hl)))
  · rw [h1]
    have hw' : w ∈ a := by rcases List.mem_append.mp hw with h | h <;> exact h
    have hl : lookupExact k a = some w.2 := (lookupExact_mem ha w.2).mpr (by rw [← hk]; exact hw')
    rw [hl]
    simp only [Option.map_some, Option.some.injEq]
    apply strict_ext hp (sortStrs_strict (setUpdate_nodup _ _ List.nodup_nil))
    intro x
    rw [hm, mem_sortStrs, setUpdate_mem]
    constructor
    · rintro ⟨e, he, h1, h2⟩
      have he' : e ∈ a := by rcases List.mem_append.mp he with h | h <;> exact h
      have : lookupExact k a = some e.2 := (lookupExact_mem ha e.2).mpr (by rw [← h1]; exact he')
      rw [hl] at this
      simp only [Option.some.injEq] at this
      rw [this]; exact Or.inr h2
    · rintro (h | h)
      · cases h
      · exact ⟨w, hw, hk, h⟩

end BioCantor.Proofs.Qual
