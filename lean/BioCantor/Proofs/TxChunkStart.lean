/-
  C06: `_chunk_relative_transcript_start` of a chunk-built transcript is the transcript index of the first
  in-chunk transcript base.
-/
import BioCantor.Proofs.TxChunkMain
import BioCantor.Proofs.TxRange
import BioCantor.Proofs.LiftOrder
set_option linter.unusedSimpArgs false
set_option linter.unusedVariables false
namespace BioCantor.Proofs
open BioCantor BioCantor.Spec BioCantor.Model BioCantor.Model.Transcript BioCantor.Model.ChunkTranscript

theorem locLen_bases (m : Location) : locLen m = (locationBases m).length := by
  cases m with
  | single b st => simp only [locLen, locationBases]; rw [bases_length]; simp [Loc.len, blocksLen]
  | compound l => simp only [locLen, locationBases]; rw [bases_length]
  | empty => rfl

theorem toLoc_of_ne_empty (m : Location) (h : m ≠ .empty) : ∃ L, toLoc m = some L := by
  cases m with
  | single b st => exact ⟨_, rfl⟩
  | compound l => exact ⟨_, rfl⟩
  | empty => exact absurd rfl h

/-- reading the chunk window at chunk coordinate `chunkOf p` gives back `p` -/
theorem unchunk_getD (W : Win) (hd : W.wst = .plus ∨ W.wst = .minus) (p : Nat) (hp : inWin W.w p = true) :
    (bases ⟨[W.w], W.wst⟩).getD (chunkOf W p) 0 = p := by
  unfold inWin at hp
  simp only [Bool.and_eq_true, decide_eq_true_eq] at hp
  have hne : W.wst ≠ .unstranded := by rcases hd with h | h <;> simp [h]
  rw [bases_single W.w W.wst hne, List.getD_eq_getElem?_getD]
  unfold rd chunkOf
  rcases hd with h | h
  · simp only [h, if_true, reduceCtorEq, if_false]
    rw [blkAsc_get W.w _ (by unfold Blk.len; omega)]
    simp; omega
  · simp only [h, reduceCtorEq, if_false, if_true]
    rw [blkDesc_get W.w _ (by unfold Blk.len; omega)]
    simp; omega

/-- the in-chunk part of the transcript, lifted back to the chromosome, reads the in-window transcript bases -/
theorem bounded_location (c : ChunkTranscript) (h : WFC c) (hd : c.base.exons.strand ≠ .unstranded)
    (hno : c.base.exons.NonOverlap) (hne : c.location ≠ .empty) :
    ∃ m, liftOnce c.location (.single c.w c.wst) = .ok m ∧ WF m ∧
      (∀ L, toLoc m = some L → L.strand ≠ .unstranded) ∧
      locationBases m = (bases c.base.exons).filter (inWin c.w) := by
  obtain ⟨hwf, hb, hL⟩ := chunk_location_facts c.base.exons h.base.exons hd hno (winOf c) h.win
  rw [← h.loc] at hwf hb hL
  obtain ⟨hwd, hwl⟩ := winOk_unpack (winOf c) h.win
  simp only at hwd hwl
  obtain ⟨L', hL'⟩ := toLoc_of_ne_empty _ hne
  obtain ⟨hLd, hLs, hLno, hLb⟩ := hL L' hL'
  obtain ⟨hLeq, _⟩ := Lift.toLoc_eq _ _ hL'
  have hblk : locationBlocks c.location = L'.blocks := by rw [hLeq]
  have hso : strandOf c.location = L'.strand := by rw [hLeq]
  have hwdn : c.wst ≠ .unstranded := by rcases hwd with e | e <;> simp [e]
  have hplen : (⟨[c.w], c.wst⟩ : Loc).len = c.w.2 - c.w.1 := by simp [Loc.len, blocksLen, Blk.len]
  have hbnd := chunkBases_lt c.base.exons (winOf c) h.win
  have hnonempty : chunkBases c.base.exons (winOf c) ≠ [] := by
    intro e
    exact hne (by
      rw [h.loc]
      exact chunkLocOf_no_bases _ _ (toLoc_initOf _) (initOf_wf _ h.base.exons) (dir_of_ne _ hd) hno (winOf c) h.win e)
  have hlen : 0 < locLen c.location := by
    rw [locLen_bases, hb]
    cases hq : chunkBases c.base.exons (winOf c) with
    | nil => exact absurd hq hnonempty
    | cons _ _ => simp
  have hinb : ∀ i ∈ locationBases c.location, i < (⟨[c.w], c.wst⟩ : Loc).len := by
    intro i hi; rw [hb] at hi; rw [hplen]; exact hbnd i hi
  have hin : ∀ r ∈ locationBlocks c.location, r.1 < r.2 → r.2 ≤ (⟨[c.w], c.wst⟩ : Loc).len := by
    intro r hr hpos
    have hcov : coversBlocks L'.blocks (r.2 - 1) = true := by
      rw [coversBlocks_iff]; rw [hblk] at hr
      exact ⟨r, hr, by omega, by omega⟩
    have hm : r.2 - 1 ∈ bases L' := by
      obtain ⟨bs, st⟩ := L'
      exact mem_bases.mpr hcov
    rw [hLb] at hm
    have := hbnd _ hm
    rw [hplen]; simp only at this; omega
  obtain ⟨m, hm, hgm, hperm, hposm, _⟩ := Lift.liftOnce_ok c.location (.single c.w c.wst)
    (by show c.w.1 ≤ c.w.2; omega) ⟨[c.w], c.wst⟩ rfl hwdn hne hlen hin
  obtain ⟨hbases, _⟩ := Lift.liftOnce_exact c.location (.single c.w c.wst) m hwf
    (by show c.w.1 ≤ c.w.2; omega) ⟨[c.w], c.wst⟩ rfl hne (by rw [hso]; exact hLd) hwdn hinb hgm hperm
    (hposm rfl) (by rw [hblk]; exact hLno) rfl
  refine ⟨m, hm, (Lift.wf_iff m).2 hgm.2, ?_, ?_⟩
  · intro L hLm
    have := (toLoc_facts m L hLm).2.2.2.2.2.1
    rw [hgm.1] at this
    have e := Option.some.inj this
    rw [← e, hso]
    exact compose_ne_unstranded _ _ (dir_of_ne _ hLd) hwd
  · rw [hbases, hb]
    unfold chunkBases
    rw [List.map_map]
    have : ∀ p ∈ (bases c.base.exons).filter (inWin c.w),
        ((fun i => (bases ⟨[c.w], c.wst⟩).getD i 0) ∘ chunkOf (winOf c)) p = p := by
      intro p hp
      exact unchunk_getD (winOf c) hwd p (List.mem_filter.1 hp).2
    rw [List.map_congr_left this, List.map_id']

end BioCantor.Proofs
