/-
  C12 — `mapMP` (a Python list comprehension whose body may raise) : membership, permutation.
-/
import BioCantor.Model.GenbankParse
namespace BioCantor.Proofs.Gb
open BioCantor BioCantor.Model.Gb

theorem mapMP_cons_ok {α β} (f : α → P β) (a : α) (as : List α) (bs : List β) (h : mapMP f (a :: as) = .ok bs) :
    ∃ b bs', f a = .ok b ∧ mapMP f as = .ok bs' ∧ bs = b :: bs' := by
  unfold mapMP at h
  split at h
  · exact absurd h (by simp)
  · next b hb =>
    split at h
    · exact absurd h (by simp)
    · next bs' hbs =>
      simp only [Except.ok.injEq] at h
      exact ⟨b, bs', hb, hbs, h.symm⟩

theorem mapMP_cons_of {α β} (f : α → P β) (a : α) (as : List α) (b : β) (bs : List β) (hb : f a = .ok b)
    (hbs : mapMP f as = .ok bs) : mapMP f (a :: as) = .ok (b :: bs) := by
  rw [mapMP]; simp only [hb, hbs]

theorem mapMP_spec {α β} (f : α → P β) : ∀ (l : List α) (bs : List β), mapMP f l = .ok bs →
    bs.length = l.length ∧ (∀ b ∈ bs, ∃ a ∈ l, f a = .ok b) ∧ (∀ a ∈ l, ∃ b ∈ bs, f a = .ok b)
  | [], bs, h => by
    simp only [mapMP, Except.ok.injEq] at h
    subst h
    exact ⟨rfl, by simp, by simp⟩
  | a :: as, bs, h => by
    obtain ⟨b, bs', hb, hbs, rfl⟩ := mapMP_cons_ok f a as bs h
    obtain ⟨h1, h2, h3⟩ := mapMP_spec f as bs' hbs
    refine ⟨by simp [h1], ?_, ?_⟩
    · intro x hx
      rcases List.mem_cons.mp hx with rfl | hx
      · exact ⟨a, List.mem_cons_self, hb⟩
      · obtain ⟨y, hy, hfy⟩ := h2 x hx
        exact ⟨y, List.mem_cons_of_mem _ hy, hfy⟩
    · intro y hy
      rcases List.mem_cons.mp hy with rfl | hy
      · exact ⟨b, List.mem_cons_self, hb⟩
      · obtain ⟨x, hx, hfx⟩ := h3 y hy
        exact ⟨x, List.mem_cons_of_mem _ hx, hfx⟩

theorem mapMP_all_ok {α β} (f : α → P β) : ∀ (l : List α), (∀ a ∈ l, ∃ b, f a = .ok b) → ∃ bs, mapMP f l = .ok bs
  | [], _ => ⟨[], rfl⟩
  | a :: as, h => by
    obtain ⟨b, hb⟩ := h a List.mem_cons_self
    obtain ⟨bs, hbs⟩ := mapMP_all_ok f as (fun x hx => h x (List.mem_cons_of_mem _ hx))
    exact ⟨b :: bs, mapMP_cons_of f a as b bs hb hbs⟩

theorem mapMP_perm {α β} (f : α → P β) {l l' : List α} (hp : l.Perm l') :
    ∀ bs, mapMP f l = .ok bs → ∃ bs', mapMP f l' = .ok bs' ∧ bs.Perm bs' := by
  induction hp with
  | nil => intro bs h; exact ⟨bs, h, List.Perm.refl _⟩
  | cons a _ ih =>
    intro bs h
    obtain ⟨b, bs1, hb, hbs, rfl⟩ := mapMP_cons_ok f a _ bs h
    obtain ⟨bs2, h2, hp2⟩ := ih bs1 hbs
    exact ⟨b :: bs2, mapMP_cons_of f a _ b bs2 hb h2, hp2.cons b⟩
  | swap a a' l =>
    intro bs h
    obtain ⟨b, bs1, hb, hbs, rfl⟩ := mapMP_cons_ok f _ _ bs h
    obtain ⟨b', bs2, hb', hbs2, rfl⟩ := mapMP_cons_ok f _ _ bs1 hbs
    exact ⟨b' :: b :: bs2, mapMP_cons_of f _ _ _ _ hb' (mapMP_cons_of f _ _ _ _ hb hbs2), List.Perm.swap _ _ _⟩
  | trans _ _ ih1 ih2 =>
    intro bs h
    obtain ⟨bs1, h1, p1⟩ := ih1 bs h
    obtain ⟨bs2, h2, p2⟩ := ih2 bs1 h1
    exact ⟨bs2, h2, p1.trans p2⟩

end BioCantor.Proofs.Gb
