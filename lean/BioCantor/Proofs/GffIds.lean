/-
  C11 / T4 — the ID naming scheme of the writer (`<guid>`, `exon-<guid>-<i>`, `<guid>-<i>`, `feature-<guid>-<i>`)
  cannot collide for UUID-shaped GUIDs: an ID determines its form, its GUID and its index.
-/
import BioCantor.Proofs.GffRows
namespace BioCantor.Proofs.GffIds
open BioCantor BioCantor.Model.Gff BioCantor.Proofs.GffRows
open BioCantor.Spec.Gff (Str Quals SCds STx SGene SFeat SFc SChild SColl hexVal uuidShaped allGuids)

inductive IdForm where
  | plain | exon | cds | feature
  deriving DecidableEq, Repr

def exonPrefix : Str := ['e', 'x', 'o', 'n', '-']
def featurePrefix : Str := ['f', 'e', 'a', 't', 'u', 'r', 'e', '-']

/-- the four ID shapes written by gene.py / transcript.py / cds.py / feature.py -/
def idOf : IdForm → Str → Nat → Str
  | .plain, g, _ => g
  | .exon, g, i => exonPrefix ++ g ++ '-' :: natStr i
  | .cds, g, i => g ++ '-' :: natStr i
  | .feature, g, i => featurePrefix ++ g ++ '-' :: natStr i

theorem uuid_length {g : Str} (h : uuidShaped g = true) : g.length = 36 := by
  unfold uuidShaped at h
  simp only [Bool.and_eq_true, beq_iff_eq] at h
  exact h.1

theorem uuid_chars {g : Str} (h : uuidShaped g = true) : ∀ c ∈ g, (hexVal c).isSome = true ∨ c = '-' := by
  unfold uuidShaped at h
  simp only [Bool.and_eq_true, List.all_eq_true, Bool.or_eq_true, decide_eq_true_eq] at h
  exact h.2

theorem x_not_uuid {g : Str} (h : uuidShaped g = true) : 'x' ∉ g := by
  intro hm
  rcases uuid_chars h _ hm with h1 | h1
  · revert h1; decide
  · revert h1; decide

theorem t_not_uuid {g : Str} (h : uuidShaped g = true) : 't' ∉ g := by
  intro hm
  rcases uuid_chars h _ hm with h1 | h1
  · revert h1; decide
  · revert h1; decide

/-- a UUID-shaped string followed by anything does not start with `exon-` -/
theorem uuid_append_ne_exon {g rest more : Str} (h : uuidShaped g = true) : g ++ rest ≠ exonPrefix ++ more := by
  intro e
  have hl := uuid_length h
  match g, hl with
  | a :: b :: g', _ =>
    simp only [exonPrefix, List.cons_append, List.cons.injEq] at e
    exact x_not_uuid h (by rw [e.2.1]; simp)

theorem uuid_append_ne_feature {g rest more : Str} (h : uuidShaped g = true) : g ++ rest ≠ featurePrefix ++ more := by
  intro e
  have hl := uuid_length h
  match g, hl with
  | a :: b :: c :: d :: g', _ =>
    simp only [featurePrefix, List.cons_append, List.cons.injEq] at e
    exact t_not_uuid h (by rw [e.2.2.2.1]; simp)

theorem suffix_inj {g g' : Str} {i j : Nat} (hg : uuidShaped g = true) (hg' : uuidShaped g' = true)
    (e : g ++ '-' :: natStr i = g' ++ '-' :: natStr j) : g = g' ∧ i = j := by
  have := List.append_inj e (by rw [uuid_length hg, uuid_length hg'])
  refine ⟨this.1, ?_⟩
  have h2 := this.2
  simp only [List.cons.injEq, true_and] at h2
  exact natStr_injective i j h2

/-- T4 (scheme): for UUID-shaped GUIDs the ID determines form, GUID and (for the indexed forms) index -/
theorem idOf_injective {f f' : IdForm} {g g' : Str} {i j : Nat} (hg : uuidShaped g = true) (hg' : uuidShaped g' = true)
    (e : idOf f g i = idOf f' g' j) : f = f' ∧ g = g' ∧ (f ≠ .plain → i = j) := by
  cases f <;> cases f' <;> simp only [idOf] at e
  · exact ⟨rfl, e, fun h => absurd rfl h⟩
  · exact absurd (show g ++ [] = exonPrefix ++ _ by rw [List.append_nil, e, List.append_assoc]) (uuid_append_ne_exon hg)
  · exfalso
    have := congrArg List.length e
    simp only [List.length_append, List.length_cons] at this
    rw [uuid_length hg, uuid_length hg'] at this
    omega
  · exact absurd (show g ++ [] = featurePrefix ++ _ by rw [List.append_nil, e, List.append_assoc]) (uuid_append_ne_feature hg)
  · exact absurd (show g' ++ [] = exonPrefix ++ _ by rw [List.append_nil, ← e, List.append_assoc]) (uuid_append_ne_exon hg')
  · rw [List.append_assoc, List.append_assoc] at e
    have := suffix_inj hg hg' (List.append_cancel_left e)
    exact ⟨rfl, this.1, fun _ => this.2⟩
  · exact absurd (show g' ++ _ = exonPrefix ++ _ by rw [← e, List.append_assoc]) (uuid_append_ne_exon hg')
  · exfalso
    simp [exonPrefix, featurePrefix] at e
  · exfalso
    have := congrArg List.length e
    simp only [List.length_append, List.length_cons] at this
    rw [uuid_length hg, uuid_length hg'] at this
    omega
  · exact absurd (show g ++ _ = exonPrefix ++ _ by rw [e, List.append_assoc]) (uuid_append_ne_exon hg)
  · have := suffix_inj hg hg' e
    exact ⟨rfl, this.1, fun _ => this.2⟩
  · exact absurd (show g ++ _ = featurePrefix ++ _ by rw [e, List.append_assoc]) (uuid_append_ne_feature hg)
  · exact absurd (show g' ++ [] = featurePrefix ++ _ by rw [List.append_nil, ← e, List.append_assoc]) (uuid_append_ne_feature hg')
  · exfalso
    simp [exonPrefix, featurePrefix] at e
  · exact absurd (show g' ++ _ = featurePrefix ++ _ by rw [← e, List.append_assoc]) (uuid_append_ne_feature hg')
  · rw [List.append_assoc, List.append_assoc] at e
    have := suffix_inj hg hg' (List.append_cancel_left e)
    exact ⟨rfl, this.1, fun _ => this.2⟩

/-! ### collection-wide: pairwise different GUIDs give pairwise different IDs -/

def Derived (g id : Str) : Prop := ∃ f i, id = idOf f g i

theorem derived_inj {g g' id : Str} (hg : uuidShaped g = true) (hg' : uuidShaped g' = true)
    (h : Derived g id) (h' : Derived g' id) : g = g' := by
  obtain ⟨f, i, rfl⟩ := h
  obtain ⟨f', j, e⟩ := h'
  exact (idOf_injective hg hg' e).2.1

def IdNe (r s : Row) : Prop := r.attrs.id ≠ s.attrs.id

def txGuids (t : STx) : List Str := t.guid :: (match t.cds with | some k => [k.guid] | none => [])
def childGuids : SChild → List Str
  | .gene g => g.guid :: g.txs.flatMap txGuids
  | .fc f => f.guid :: f.feats.map (·.guid)

theorem allGuids_eq (c : SColl) : allGuids c = c.children.flatMap childGuids := by
  unfold allGuids
  induction c.children with
  | nil => rfl
  | cons x rest ih =>
    simp only [List.flatMap_cons, ih]
    cases x <;> rfl

theorem enumFrom1_fst (α : Type) (l : List α) : (enumFrom1 l).map (·.1) = (List.range l.length).map (· + 1) := by
  unfold enumFrom1
  rw [List.map_map]
  have : ((fun x : Nat × α => x.1) ∘ fun p : Nat × α => (p.1 + 1, p.2)) = (fun n => n + 1) ∘ Prod.fst := rfl
  rw [this, ← List.map_map, List.map_fst_zip (by simp)]

theorem enumFrom1_pairwise {α : Type} (l : List α) : (enumFrom1 l).Pairwise (fun p q => p.1 ≠ q.1) := by
  have h : ((enumFrom1 l).map (·.1)).Nodup := by
    rw [enumFrom1_fst]
    rw [List.nodup_iff_pairwise_ne, List.pairwise_map]
    exact (List.nodup_iff_pairwise_ne.mp List.nodup_range).imp (by intro a b h e; exact h (by omega))
  rw [List.nodup_iff_pairwise_ne, List.pairwise_map] at h
  exact h

/-- rows built from an enumeration with an index-injective ID have pairwise different IDs -/
theorem enum_rows_pairwise {α : Type} (l : List α) (mk : Nat × α → Row) (f : IdForm) (g : Str)
    (hg : uuidShaped g = true) (hf : f ≠ .plain) (hid : ∀ p, (mk p).attrs.id = idOf f g p.1) :
    ((enumFrom1 l).map mk).Pairwise IdNe := by
  rw [List.pairwise_map]
  refine (enumFrom1_pairwise l).imp ?_
  intro p q hpq e
  rw [hid, hid] at e
  exact hpq ((idOf_injective hg hg (Decidable.of_not_not (fun h => h e))).2.2 hf)

theorem txRows_tagged {cx : Ctx} {t : STx} {par : Str} {pq : Quals} {r : Row} (h : r ∈ txRows cx t par pq) :
    ∃ g ∈ txGuids t, Derived g r.attrs.id := by
  unfold txRows at h
  simp only [List.mem_cons, List.mem_append, List.mem_map] at h
  rcases h with (rfl | ⟨p, _, rfl⟩) | hc
  · exact ⟨t.guid, List.mem_cons_self, .plain, 0, rfl⟩
  · exact ⟨t.guid, List.mem_cons_self, .exon, p.1, by simp [idOf, exonPrefix]⟩
  · cases hk : t.cds with
    | none => rw [hk] at hc; simp at hc
    | some k =>
      rw [hk] at hc
      simp only [cdsRows, List.mem_map] at hc
      obtain ⟨p, _, rfl⟩ := hc
      refine ⟨k.guid, ?_, .cds, p.1, rfl⟩
      unfold txGuids; rw [hk]; simp

theorem txRows_pairwise (cx : Ctx) (t : STx) (par : Str) (pq : Quals)
    (hu : ∀ g ∈ txGuids t, uuidShaped g = true) : (txRows cx t par pq).Pairwise IdNe := by
  have ht : uuidShaped t.guid = true := hu _ List.mem_cons_self
  have hk' : ∀ k, t.cds = some k → uuidShaped k.guid = true := by
    intro k hk; exact hu _ (by unfold txGuids; rw [hk]; simp)
  unfold txRows
  simp only
  rw [List.pairwise_append]
  refine ⟨?_, ?_, ?_⟩
  · rw [List.pairwise_cons]
    refine ⟨?_, ?_⟩
    · intro r hr e
      obtain ⟨p, _, rfl⟩ := List.mem_map.mp hr
      have e' : idOf .plain t.guid 0 = idOf .exon t.guid p.1 := by simpa [idOf, exonPrefix, IdNe] using e
      exact absurd (idOf_injective ht ht e').1 (by decide)
    · exact enum_rows_pairwise t.exons _ .exon t.guid ht (by decide) (by intro p; simp [idOf, exonPrefix])
  · cases hk : t.cds with
    | none => simp
    | some k =>
      simp only [cdsRows]
      exact enum_rows_pairwise _ _ .cds k.guid (hk' k hk) (by decide) (by intro p; rfl)
  · intro r hr s hc e
    cases hk : t.cds with
    | none => rw [hk] at hc; simp at hc
    | some k =>
      rw [hk] at hc
      simp only [cdsRows, List.mem_map] at hc
      obtain ⟨q, _, rfl⟩ := hc
      rcases List.mem_cons.mp hr with rfl | he
      · have e' : idOf .plain t.guid 0 = idOf .cds k.guid q.1 := e
        exact absurd (idOf_injective ht (hk' k hk) e').1 (by decide)
      · obtain ⟨p, _, rfl⟩ := List.mem_map.mp he
        have e' : idOf .exon t.guid p.1 = idOf .cds k.guid q.1 := by simpa [idOf, exonPrefix, IdNe] using e
        exact absurd (idOf_injective ht (hk' k hk) e').1 (by decide)

/-- two tagged row lists over disjoint UUID-shaped GUID lists have no ID in common -/
theorem tagged_disjoint {G G' : List Str} {r s : Row}
    (hG : ∀ g ∈ G, uuidShaped g = true) (hG' : ∀ g ∈ G', uuidShaped g = true)
    (hdis : ∀ g ∈ G, ∀ g' ∈ G', g ≠ g')
    (hr : ∃ g ∈ G, Derived g r.attrs.id) (hs : ∃ g ∈ G', Derived g s.attrs.id) : IdNe r s := by
  intro e
  obtain ⟨g, hg, hd⟩ := hr
  obtain ⟨g', hg', hd'⟩ := hs
  rw [e] at hd
  exact hdis g hg g' hg' (derived_inj (hG g hg) (hG' g' hg') hd hd')

theorem geneRows_tagged {cx : Ctx} {g : SGene} {r : Row} (h : r ∈ geneRows cx g) :
    ∃ x ∈ childGuids (.gene g), Derived x r.attrs.id := by
  unfold geneRows at h
  simp only [List.mem_cons, List.mem_flatMap] at h
  rcases h with rfl | ⟨t, ht, hr⟩
  · exact ⟨g.guid, List.mem_cons_self, .plain, 0, rfl⟩
  · obtain ⟨x, hx, hd⟩ := txRows_tagged hr
    exact ⟨x, List.mem_cons_of_mem _ (List.mem_flatMap.mpr ⟨t, ht, hx⟩), hd⟩

theorem geneRows_pairwise (cx : Ctx) (g : SGene) (hu : ∀ x ∈ childGuids (.gene g), uuidShaped x = true)
    (hnd : (childGuids (.gene g)).Nodup) : (geneRows cx g).Pairwise IdNe := by
  unfold childGuids at hu hnd
  simp only at hu hnd
  rw [List.nodup_cons] at hnd
  obtain ⟨hg, hrest⟩ := hnd
  have hgu : uuidShaped g.guid = true := hu _ List.mem_cons_self
  have htu : ∀ t ∈ g.txs, ∀ x ∈ txGuids t, uuidShaped x = true := fun t ht x hx =>
    hu x (List.mem_cons_of_mem _ (List.mem_flatMap.mpr ⟨t, ht, hx⟩))
  unfold geneRows
  simp only
  rw [List.pairwise_cons]
  refine ⟨?_, ?_⟩
  · intro r hr
    obtain ⟨t, ht, hrt⟩ := List.mem_flatMap.mp hr
    refine tagged_disjoint (G := [g.guid]) (G' := txGuids t) (by simpa using hgu) (htu t ht) ?_
      ⟨g.guid, List.mem_cons_self, .plain, 0, rfl⟩ (txRows_tagged hrt)
    intro a ha b hb e
    simp only [List.mem_singleton] at ha
    subst ha; subst e
    exact hg (List.mem_flatMap.mpr ⟨t, ht, hb⟩)
  · rw [List.pairwise_flatMap]
    refine ⟨fun t ht => txRows_pairwise cx t _ _ (htu t ht), ?_⟩
    have hp := (List.pairwise_flatMap.mp (List.nodup_iff_pairwise_ne.mp hrest)).2
    refine hp.imp_of_mem ?_
    intro t1 t2 h1 h2 hdis r hr s hs
    exact tagged_disjoint (htu t1 h1) (htu t2 h2) hdis (txRows_tagged hr) (txRows_tagged hs)

theorem featRows_pairwise (cx : Ctx) (f : SFeat) (par : Str) (pq : Quals) (hu : uuidShaped f.guid = true) :
    (featRows cx f par pq).Pairwise IdNe := by
  unfold featRows
  simp only
  rw [List.pairwise_cons]
  refine ⟨?_, ?_⟩
  · intro r hr e
    obtain ⟨p, _, rfl⟩ := List.mem_map.mp hr
    have e' : idOf .plain f.guid 0 = idOf .feature f.guid p.1 := by simpa [idOf, featurePrefix, IdNe] using e
    exact absurd (idOf_injective hu hu e').1 (by decide)
  · exact enum_rows_pairwise f.blocks _ .feature f.guid hu (by decide) (by intro p; simp [idOf, featurePrefix])

theorem featRows_tagged {cx : Ctx} {f : SFeat} {par : Str} {pq : Quals} {r : Row} (h : r ∈ featRows cx f par pq) :
    Derived f.guid r.attrs.id := by
  unfold featRows at h
  simp only [List.mem_cons, List.mem_map] at h
  rcases h with rfl | ⟨p, _, rfl⟩
  · exact ⟨.plain, 0, rfl⟩
  · exact ⟨.feature, p.1, by simp [idOf, featurePrefix]⟩

theorem fcRows_tagged {cx : Ctx} {c : SFc} {r : Row} (h : r ∈ fcRows cx c) :
    ∃ x ∈ childGuids (.fc c), Derived x r.attrs.id := by
  unfold fcRows at h
  simp only [List.mem_cons, List.mem_flatMap] at h
  rcases h with rfl | ⟨f, hf, hr⟩
  · exact ⟨c.guid, List.mem_cons_self, .plain, 0, rfl⟩
  · exact ⟨f.guid, List.mem_cons_of_mem _ (List.mem_map.mpr ⟨f, hf, rfl⟩), featRows_tagged hr⟩

theorem fcRows_pairwise (cx : Ctx) (c : SFc) (hu : ∀ x ∈ childGuids (.fc c), uuidShaped x = true)
    (hnd : (childGuids (.fc c)).Nodup) : (fcRows cx c).Pairwise IdNe := by
  unfold childGuids at hu hnd
  simp only at hu hnd
  rw [List.nodup_cons] at hnd
  obtain ⟨hg, hrest⟩ := hnd
  have hgu : uuidShaped c.guid = true := hu _ List.mem_cons_self
  have hfu : ∀ f ∈ c.feats, uuidShaped f.guid = true := fun f hf =>
    hu _ (List.mem_cons_of_mem _ (List.mem_map.mpr ⟨f, hf, rfl⟩))
  unfold fcRows
  simp only
  rw [List.pairwise_cons]
  refine ⟨?_, ?_⟩
  · intro r hr
    obtain ⟨f, hf, hrf⟩ := List.mem_flatMap.mp hr
    refine tagged_disjoint (G := [c.guid]) (G' := [f.guid]) (by simpa using hgu) (by simpa using hfu f hf) ?_
      ⟨c.guid, List.mem_cons_self, .plain, 0, rfl⟩ ⟨f.guid, List.mem_cons_self, featRows_tagged hrf⟩
    intro a ha b hb e
    simp only [List.mem_singleton] at ha hb
    subst ha; subst hb
    exact hg (by rw [e]; exact List.mem_map.mpr ⟨f, hf, rfl⟩)
  · rw [List.pairwise_flatMap]
    refine ⟨fun f hf => featRows_pairwise cx f _ _ (hfu f hf), ?_⟩
    have hp := List.pairwise_map.mp (List.nodup_iff_pairwise_ne.mp hrest)
    refine hp.imp_of_mem ?_
    intro f1 f2 h1 h2 hne r hr s hs
    exact tagged_disjoint (G := [f1.guid]) (G' := [f2.guid]) (by simpa using hfu f1 h1) (by simpa using hfu f2 h2)
      (by intro a ha b hb; simp only [List.mem_singleton] at ha hb; subst ha; subst hb; exact hne)
      ⟨f1.guid, List.mem_cons_self, featRows_tagged hr⟩ ⟨f2.guid, List.mem_cons_self, featRows_tagged hs⟩

theorem childRows_tagged {cx : Ctx} {x : SChild} {r : Row} (h : r ∈ childRows cx x) :
    ∃ g ∈ childGuids x, Derived g r.attrs.id := by
  cases x with
  | gene g => exact geneRows_tagged h
  | fc f => exact fcRows_tagged h

/-- T4: with pairwise different, UUID-shaped GUIDs the IDs of the exported rows are pairwise different -/
theorem sortedRows_ids_nodup (cx : Ctx) (c : SColl) (hnd : (allGuids c).Nodup)
    (hu : ∀ g ∈ allGuids c, uuidShaped g = true) : ((sortedRows cx c).map (·.attrs.id)).Nodup := by
  rw [allGuids_eq] at hnd hu
  have hperm : (sortedRows cx c).Perm (c.children.flatMap (childRows cx)) := by
    unfold sortedRows unsortedRows sortedChildren
    exact (List.mergeSort_perm _ _).trans (List.Perm.flatMap_right _ (List.mergeSort_perm _ _))
  rw [(hperm.map _).nodup_iff, List.nodup_iff_pairwise_ne, List.pairwise_map]
  have hpw := List.pairwise_flatMap.mp (List.nodup_iff_pairwise_ne.mp hnd)
  have hcu : ∀ x ∈ c.children, ∀ g ∈ childGuids x, uuidShaped g = true := fun x hx g hg =>
    hu g (List.mem_flatMap.mpr ⟨x, hx, hg⟩)
  rw [List.pairwise_flatMap]
  refine ⟨?_, ?_⟩
  · intro x hx
    have hn : (childGuids x).Nodup := List.nodup_iff_pairwise_ne.mpr (hpw.1 x hx)
    cases x with
    | gene g => exact geneRows_pairwise cx g (hcu _ hx) hn
    | fc f => exact fcRows_pairwise cx f (hcu _ hx) hn
  · refine hpw.2.imp_of_mem ?_
    intro x y hx hy hdis r hr s hs
    exact tagged_disjoint (hcu x hx) (hcu y hy) hdis (childRows_tagged hr) (childRows_tagged hs)

end BioCantor.Proofs.GffIds
