/- C19 proofs, part 1: outcome projection, SingleInterval, Sequence (strip ⇔ membership), variants. -/
import BioCantor.Model.Validate
import BioCantor.Spec.Validate
set_option linter.unusedSimpArgs false
namespace BioCantor.Proofs.Val
open BioCantor BioCantor.Model BioCantor.Model.Validate
open BioCantor.Spec.Validate (Out)

/-- what a caller observes of a model result -/
def outOf {α β} (f : α → β) : V α → Out β
  | .ok a => .ok (f a)
  | .error (.doc _) => .refused
  | .error (.internal _) => .internal

@[simp] theorem outOf_ok {α β} (f : α → β) (a : α) : outOf f (.ok a : V α) = .ok (f a) := rfl
@[simp] theorem outOf_pure {α β} (f : α → β) (a : α) : outOf f (pure a : V α) = .ok (f a) := rfl
@[simp] theorem outOf_raise {α β} (f : α → β) (e : Err) : outOf f (raise e : V α) = .refused := rfl
@[simp] theorem outOf_doc {α β} (f : α → β) (e : Err) : outOf f (.error (.doc e) : V α) = .refused := rfl
@[simp] theorem outOf_internal {α β} (f : α → β) (c : String) : outOf f (.error (.internal c) : V α) = .internal := rfl

/-- a result that is not an internal error -/
def NoInternal {α} (r : V α) : Prop := ∀ c, r ≠ .error (.internal c)

theorem noInternal_ok {α} (a : α) : NoInternal (.ok a : V α) := by intro c h; cases h
theorem noInternal_pure {α} (a : α) : NoInternal (pure a : V α) := by intro c h; cases h
theorem noInternal_raise {α} (e : Err) : NoInternal (raise e : V α) := by intro c h; cases h
theorem noInternal_liftR {α} (r : R α) : NoInternal (liftR r) := by
  cases r <;> intro c h <;> cases h

/-! ### SingleInterval -/

def projSingle : Location → Int × Int × Strand
  | .single b st => (b.1, b.2, st)
  | _ => (0, 0, .plus)

theorem mkSingleP_spec (s e : Int) (st : Strand) (plen : Option Nat) :
    Spec.Validate.okMkSingle s e st plen (outOf projSingle (mkSingleP s e st plen)) = true := by
  unfold mkSingleP mkSingle
  by_cases h : 0 ≤ s ∧ s ≤ e
  · have hs : ((s.toNat : Nat) : Int) = s := Int.toNat_of_nonneg h.1
    have he : ((e.toNat : Nat) : Int) = e := Int.toNat_of_nonneg (by omega)
    cases plen with
    | none =>
        simp [h, liftR, pure, Except.pure, bind, Except.bind, outOf, projSingle, Spec.Validate.okMkSingle,
          Spec.Validate.validSingle, hs, he]
    | some n =>
        by_cases hn : e > (n : Int)
        · simp [h, hn, liftR, pure, Except.pure, bind, Except.bind, outOf, raise, Spec.Validate.okMkSingle,
            Spec.Validate.validSingle]
        · simp [h, hn, liftR, pure, Except.pure, bind, Except.bind, outOf, projSingle, Spec.Validate.okMkSingle,
            Spec.Validate.validSingle, hs, he]
          omega
  · simp [h, liftR, throw, throwThe, MonadExceptOf.throw, bind, Except.bind, outOf, Spec.Validate.okMkSingle,
      Spec.Validate.validSingle]
    cases plen <;> simp <;> omega

/-! ### Sequence: `upper().strip(alphabet) == ""` is membership of every letter -/

theorem dropWhile_nil_iff {α} (p : α → Bool) (l : List α) : l.dropWhile p = [] ↔ ∀ x ∈ l, p x = true := by
  induction l with
  | nil => simp
  | cons a t ih =>
      rw [List.dropWhile_cons]
      by_cases h : p a = true
      · simp [h, ih]
      · simp [h]

theorem dropWhile_rev_nil {α} (p : α → Bool) (l : List α) :
    ((l.dropWhile p).reverse.dropWhile p).reverse = [] ↔ ∀ x ∈ l, p x = true := by
  rw [List.reverse_eq_nil_iff, dropWhile_nil_iff]
  constructor
  · intro h
    cases hd : l.dropWhile p with
    | nil => exact (dropWhile_nil_iff p l).mp hd
    | cons a t =>
        exfalso
        have hne : l.dropWhile p ≠ [] := by rw [hd]; simp
        have h1 := List.head_dropWhile_not p hne
        have h2 := h (List.head (l.dropWhile p) hne) (by simp)
        rw [h2] at h1; cases h1
  · intro h x hx
    have : l.dropWhile p = [] := (dropWhile_nil_iff p l).mpr h
    rw [this] at hx; cases hx

theorem alphabetOk_eq (alph data : List Char) :
    alphabetOk alph data = data.all (fun c => alph.contains (Spec.Validate.upperAscii c)) := by
  have hup : pyUpper = Spec.Validate.upperAscii := rfl
  unfold alphabetOk stripBoth
  rw [Bool.eq_iff_iff, List.isEmpty_iff, dropWhile_rev_nil, List.all_eq_true]
  simp [hup]

theorem mkSeq_noInternal (alph data : List Char) (ploc : Option (Option Nat)) : NoInternal (mkSeq alph data ploc) := by
  intro c h
  unfold mkSeq at h
  rcases ploc with _ | _ | n <;> simp only [bind, Except.bind, pure, Except.pure, raise] at h
  all_goals (repeat' split at h) <;> cases h

/-- `Sequence.__init__`: refused exactly for a letter outside the alphabet or a length different from the parent
    location's (zero-length locations included since f283aa2) -/
theorem mkSeq_spec (alph data : List Char) (ploc : Option (Option Nat)) :
    Spec.Validate.okMkSeq alph data ploc (outOf id (mkSeq alph data ploc)) = true := by
  unfold mkSeq
  rw [alphabetOk_eq]
  by_cases ha : ∀ x ∈ data, Spec.Validate.upperAscii x ∈ alph
  · have hall : (data.all fun c => decide (Spec.Validate.upperAscii c ∈ alph)) = true := by simpa using ha
    rcases ploc with _ | _ | n
    · simp [ha, hall, bind, Except.bind, pure, Except.pure, raise, outOf, Spec.Validate.okMkSeq, Spec.Validate.validSeq]
    · simp [ha, hall, bind, Except.bind, pure, Except.pure, raise, outOf, Spec.Validate.okMkSeq, Spec.Validate.validSeq]
    · by_cases hn : n = data.length <;>
        simp [hn, ha, hall, bind, Except.bind, pure, Except.pure, raise, outOf, Spec.Validate.okMkSeq,
            Spec.Validate.validSeq]
  · have hall : (data.all fun c => decide (Spec.Validate.upperAscii c ∈ alph)) = false := by
      rw [Bool.eq_false_iff]; simpa using ha
    rcases ploc with _ | _ | n
    · simp [ha, hall, bind, Except.bind, pure, Except.pure, raise, outOf, Spec.Validate.okMkSeq, Spec.Validate.validSeq]
    · simp [ha, hall, bind, Except.bind, pure, Except.pure, raise, outOf, Spec.Validate.okMkSeq, Spec.Validate.validSeq]
    · by_cases hn : n = data.length <;>
        simp [hn, ha, hall, bind, Except.bind, pure, Except.pure, raise, outOf, Spec.Validate.okMkSeq,
            Spec.Validate.validSeq]

/-- regression fact (F-C19s, repaired by f283aa2): a non-empty sequence on a zero-length parent location is refused -/
theorem mkSeq_zero_length_location_refused :
    mkSeq ['A', 'C', 'G', 'T'] ['A', 'C', 'G', 'T'] (some (some 0)) = .error (.doc .MismatchedParent) := by rfl

end BioCantor.Proofs.Val
