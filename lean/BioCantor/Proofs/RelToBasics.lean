/-
  Helper lemmas for C01-T4 (`RelativeTo.lean`):
    * `idxOf?` on duplicate-free / monotone lists,
    * the reading of a non-overlapping layout is strictly monotone,
    * the relative interval between the images of the two extreme shared positions contains exactly
      the images of the shared positions (`interval_mem`),
    * `overlapKernel`, `anyOverlap`, `clipSpan` in terms of shared positions.
-/
import BioCantor.Proofs.Common
import BioCantor.Proofs.PointMaps
import BioCantor.Proofs.RelBasics
import BioCantor.Proofs.RelInterval
import BioCantor.Model.RelativeTo
namespace BioCantor.Proofs
open BioCantor BioCantor.Spec BioCantor.Model

/-! ### `idxOf?` -/

theorem idxOf?_of_mem {p : Nat} {L : List Nat} (h : p ∈ L) : ∃ i, idxOf? p L = some i := by
  induction L with
  | nil => simp at h
  | cons x xs ih =>
    simp only [idxOf?]
    by_cases hx : x = p
    · exact ⟨0, by simp [hx]⟩
    · have : p ∈ xs := by
        rcases List.mem_cons.mp h with h | h
        · exact absurd h.symm hx
        · exact h
      obtain ⟨i, hi⟩ := ih this
      exact ⟨i + 1, by simp [hx, hi]⟩

theorem mem_of_idxOf? {p : Nat} {L : List Nat} {i : Nat} (h : idxOf? p L = some i) : p ∈ L :=
  List.mem_of_getElem? (getElem?_of_idxOf? p L i h)

theorem idxOf?_of_getElem? {L : List Nat} (hn : L.Nodup) {r p : Nat} (h : L[r]? = some p) :
    idxOf? p L = some r := by
  obtain ⟨i, hi⟩ := idxOf?_of_mem (List.mem_of_getElem? h)
  have h2 := getElem?_of_idxOf? p L i hi
  obtain ⟨hr', e1⟩ := List.getElem?_eq_some_iff.mp h
  obtain ⟨hi', e2⟩ := List.getElem?_eq_some_iff.mp h2
  have H := List.pairwise_iff_getElem.mp hn
  rcases Nat.lt_trichotomy i r with h1 | h1 | h1
  · exact absurd (e2.trans e1.symm) (H i r hi' hr' h1)
  · rw [hi, h1]
  · exact absurd (e1.trans e2.symm) (H r i hr' hi' h1)

theorem pw_lt_iff {L : List Nat} (h : L.Pairwise (· < ·)) {i j a b : Nat}
    (hi : L[i]? = some a) (hj : L[j]? = some b) : (i < j ↔ a < b) := by
  obtain ⟨hi', rfl⟩ := List.getElem?_eq_some_iff.mp hi
  obtain ⟨hj', rfl⟩ := List.getElem?_eq_some_iff.mp hj
  have H := List.pairwise_iff_getElem.mp h
  constructor
  · intro hij; exact H i j hi' hj' hij
  · intro hab
    rcases Nat.lt_trichotomy i j with h1 | h1 | h1
    · exact h1
    · subst h1; omega
    · have := H j i hj' hi' h1; omega

theorem pw_gt_iff {L : List Nat} (h : L.Pairwise (· > ·)) {i j a b : Nat}
    (hi : L[i]? = some a) (hj : L[j]? = some b) : (i < j ↔ b < a) := by
  obtain ⟨hi', rfl⟩ := List.getElem?_eq_some_iff.mp hi
  obtain ⟨hj', rfl⟩ := List.getElem?_eq_some_iff.mp hj
  have H := List.pairwise_iff_getElem.mp h
  constructor
  · intro hij; exact H i j hi' hj' hij
  · intro hab
    rcases Nat.lt_trichotomy i j with h1 | h1 | h1
    · exact h1
    · subst h1; omega
    · have := H j i hj' hi' h1; omega

/-- On a strictly monotone list, the index interval spanned by the images of the smallest and the
    largest element inside a window `[x.1, x.2)` contains exactly the images of the elements inside
    the window. -/
theorem interval_mem (L : List Nat) (hs : L.Pairwise (· < ·) ∨ L.Pairwise (· > ·)) (x : Blk)
    (lo hi i1 i2 : Nat)
    (hlo : idxOf? lo L = some i1) (hhi : idxOf? hi L = some i2)
    (hlox : x.1 ≤ lo ∧ lo < x.2) (hhix : x.1 ≤ hi ∧ hi < x.2)
    (hmin : ∀ p, p ∈ L → x.1 ≤ p → p < x.2 → lo ≤ p ∧ p ≤ hi) (r : Nat) :
    (min i1 i2 ≤ r ∧ r < max i1 i2 + 1) ↔ ∃ p, x.1 ≤ p ∧ p < x.2 ∧ idxOf? p L = some r := by
  have g1 := getElem?_of_idxOf? _ _ _ hlo
  have g2 := getElem?_of_idxOf? _ _ _ hhi
  have hlohi := hmin lo (mem_of_idxOf? hlo) hlox.1 hlox.2
  have l1 := (List.getElem?_eq_some_iff.mp g1).1
  have l2 := (List.getElem?_eq_some_iff.mp g2).1
  rcases hs with hs | hs
  · have hn : L.Nodup := hs.imp (fun h => Nat.ne_of_lt h)
    have e21 := pw_lt_iff hs g2 g1
    constructor
    · rintro ⟨h1, h2⟩
      have hr : r < L.length := by omega
      have gr : L[r]? = some L[r] := List.getElem?_eq_getElem hr
      refine ⟨L[r], ?_, ?_, idxOf?_of_getElem? hn gr⟩
      · have a2 := pw_lt_iff hs gr g1
        omega
      · have a3 := pw_lt_iff hs g2 gr
        omega
    · rintro ⟨p, hp1, hp2, hp⟩
      have gr := getElem?_of_idxOf? _ _ _ hp
      have := hmin p (mem_of_idxOf? hp) hp1 hp2
      have a2 := pw_lt_iff hs gr g1
      have a3 := pw_lt_iff hs g2 gr
      omega
  · have hn : L.Nodup := hs.imp (fun h => Nat.ne_of_gt h)
    have e12 := pw_gt_iff hs g1 g2
    constructor
    · rintro ⟨h1, h2⟩
      have hr : r < L.length := by omega
      have gr : L[r]? = some L[r] := List.getElem?_eq_getElem hr
      refine ⟨L[r], ?_, ?_, idxOf?_of_getElem? hn gr⟩
      · have a2 := pw_gt_iff hs g1 gr
        omega
      · have a3 := pw_gt_iff hs gr g2
        omega
    · rintro ⟨p, hp1, hp2, hp⟩
      have gr := getElem?_of_idxOf? _ _ _ hp
      have := hmin p (mem_of_idxOf? hp) hp1 hp2
      have a2 := pw_gt_iff hs g1 gr
      have a3 := pw_gt_iff hs gr g2
      omega

/-! ### membership in / monotonicity of the readings -/

theorem mem_blkAsc {b : Blk} {p : Nat} : p ∈ blkAsc b ↔ b.1 ≤ p ∧ p < b.2 := by
  simp only [blkAsc, List.mem_range'_1]; omega

theorem mem_basesPlus {bs : List Blk} {p : Nat} : p ∈ basesPlus bs ↔ coversBlocks bs p = true := by
  rw [basesPlus_eq_flatMap]
  simp [coversBlocks, List.mem_flatMap, mem_blkAsc]

theorem mem_bases {bs : List Blk} {st : Strand} {p : Nat} :
    p ∈ bases ⟨bs, st⟩ ↔ coversBlocks bs p = true := by
  rw [bases_mk]; split <;> simp [mem_basesPlus]

theorem basesPlus_sorted {bs : List Blk} (hp : bs.Pairwise (fun a b => a.2 ≤ b.1)) :
    (basesPlus bs).Pairwise (· < ·) := by
  rw [basesPlus_eq_flatMap, List.pairwise_flatMap]
  refine ⟨fun a _ => List.pairwise_lt_range' .., hp.imp ?_⟩
  intro a b hab x hx y hy
  rw [mem_blkAsc] at hx hy
  omega

theorem bases_sorted {bs : List Blk} {st : Strand} (hp : bs.Pairwise (fun a b => a.2 ≤ b.1)) :
    (bases ⟨bs, st⟩).Pairwise (· < ·) ∨ (bases ⟨bs, st⟩).Pairwise (· > ·) := by
  rw [bases_mk]; split
  · right; exact List.pairwise_reverse.mpr (basesPlus_sorted hp)
  · left; exact basesPlus_sorted hp

/-! ### overlap tests as shared positions -/

theorem overlapKernel_iff (a b : Blk) : overlapKernel a b = true ↔ max a.1 b.1 < min a.2 b.2 := by
  simp only [overlapKernel, Blk.len]
  repeat' split
  all_goals simp
  all_goals omega

theorem coversBlocks_iff {B : List Blk} {p : Nat} :
    coversBlocks B p = true ↔ ∃ o ∈ B, o.1 ≤ p ∧ p < o.2 := by
  simp [coversBlocks]

theorem anyOverlap_iff (A B : List Blk) :
    anyOverlap A B = true ↔ ∃ p, coversBlocks A p = true ∧ coversBlocks B p = true := by
  simp only [anyOverlap, List.any_eq_true, overlapKernel_iff, coversBlocks_iff]
  constructor
  · rintro ⟨x, hx, y, hy, h⟩
    exact ⟨max x.1 y.1, ⟨x, hx, by omega⟩, ⟨y, hy, by omega⟩⟩
  · rintro ⟨p, ⟨x, hx, h1⟩, ⟨y, hy, h2⟩⟩
    exact ⟨x, hx, y, hy, by omega⟩

/-! ### `clipSpan` -/

theorem foldl_span (ps : List (Nat × Nat)) (p : Nat × Nat) :
    (∃ q ∈ p :: ps, (ps.foldl (fun acc q => (min acc.1 q.1, max acc.2 q.2)) p).1 = q.1) ∧
    (∃ q ∈ p :: ps, (ps.foldl (fun acc q => (min acc.1 q.1, max acc.2 q.2)) p).2 = q.2) ∧
    ∀ q ∈ p :: ps, (ps.foldl (fun acc q => (min acc.1 q.1, max acc.2 q.2)) p).1 ≤ q.1 ∧
      q.2 ≤ (ps.foldl (fun acc q => (min acc.1 q.1, max acc.2 q.2)) p).2 := by
  induction ps generalizing p with
  | nil => simp
  | cons q ps ih =>
    simp only [List.foldl_cons]
    obtain ⟨⟨a, ha, ea⟩, ⟨b, hb, eb⟩, hall⟩ := ih (min p.1 q.1, max p.2 q.2)
    have hp' := hall _ (List.mem_cons_self ..)
    simp only at hp'
    refine ⟨?_, ?_, ?_⟩
    · rcases List.mem_cons.mp ha with rfl | ha
      · simp only at ea
        by_cases hle : p.1 ≤ q.1
        · exact ⟨p, by simp, by rw [ea]; omega⟩
        · exact ⟨q, by simp, by rw [ea]; omega⟩
      · exact ⟨a, by simp [ha], ea⟩
    · rcases List.mem_cons.mp hb with rfl | hb
      · simp only at eb
        by_cases hle : p.2 ≤ q.2
        · exact ⟨q, by simp, by rw [eb]; omega⟩
        · exact ⟨p, by simp, by rw [eb]; omega⟩
      · exact ⟨b, by simp [hb], eb⟩
    · intro c hc
      rcases List.mem_cons.mp hc with rfl | hc
      · omega
      · rcases List.mem_cons.mp hc with rfl | hc
        · omega
        · exact hall c (by simp [hc])

/-- a position of block `x` covered by the layout `B` -/
def Shared (B : List Blk) (x : Blk) (p : Nat) : Prop := coversBlocks B p = true ∧ x.1 ≤ p ∧ p < x.2

theorem mem_pieces {B : List Blk} {x : Blk} {q : Nat × Nat} :
    q ∈ (B.filter (fun o => overlapKernel o x)).map (fun o => (max o.1 x.1, min o.2 x.2)) ↔
      ∃ o ∈ B, max o.1 x.1 < min o.2 x.2 ∧ q = (max o.1 x.1, min o.2 x.2) := by
  simp only [List.mem_map, List.mem_filter, overlapKernel_iff]
  constructor
  · rintro ⟨o, ⟨ho, h⟩, rfl⟩; exact ⟨o, ho, h, rfl⟩
  · rintro ⟨o, ho, h, rfl⟩; exact ⟨o, ⟨ho, h⟩, rfl⟩

theorem clipSpan_some {B : List Blk} {x : Blk} {is ie : Nat} (h : clipSpan B x = some (is, ie)) :
    Shared B x is ∧ 0 < ie ∧ Shared B x (ie - 1) ∧ ∀ p, Shared B x p → is ≤ p ∧ p < ie := by
  unfold clipSpan at h
  have hm := fun q => @mem_pieces B x q
  generalize (B.filter (fun o => overlapKernel o x)).map (fun o => (max o.1 x.1, min o.2 x.2)) = pieces at h hm
  match pieces, h, hm with
  | p :: ps, h, hm =>
    simp only [Option.some.injEq] at h
    obtain ⟨⟨a, ha, ea⟩, ⟨b, hb, eb⟩, hall⟩ := foldl_span ps p
    rw [h] at ea eb hall
    simp only at ea eb hall
    obtain ⟨oa, hoa, ha1, rfl⟩ := (hm _).mp ha
    obtain ⟨ob, hob, hb1, rfl⟩ := (hm _).mp hb
    simp only at ea eb
    refine ⟨⟨coversBlocks_iff.mpr ⟨oa, hoa, by omega⟩, by omega, by omega⟩, by omega,
      ⟨coversBlocks_iff.mpr ⟨ob, hob, by omega⟩, by omega, by omega⟩, ?_⟩
    rintro p' ⟨hc, h1, h2⟩
    obtain ⟨o, ho, ho1⟩ := coversBlocks_iff.mp hc
    have := hall (max o.1 x.1, min o.2 x.2) ((hm _).mpr ⟨o, ho, by omega, rfl⟩)
    simp only at this
    omega

theorem clipSpan_none {B : List Blk} {x : Blk} (h : clipSpan B x = none) : ∀ p, ¬ Shared B x p := by
  unfold clipSpan at h
  have hm := fun q => @mem_pieces B x q
  generalize (B.filter (fun o => overlapKernel o x)).map (fun o => (max o.1 x.1, min o.2 x.2)) = pieces at h hm
  match pieces, h, hm with
  | [], _, hm =>
    rintro p ⟨hc, h1, h2⟩
    obtain ⟨o, ho, ho1⟩ := coversBlocks_iff.mp hc
    have := (hm _).mpr ⟨o, ho, by omega, rfl⟩
    simp at this

theorem shared_iff_anyOverlap (B : List Blk) (x : Blk) :
    anyOverlap B [x] = true ↔ ∃ p, Shared B x p := by
  rw [anyOverlap_iff]
  simp [Shared, coversBlocks]

theorem clipSpan_isSome_of_shared {B : List Blk} {x : Blk} {p : Nat} (h : Shared B x p) :
    ∃ is ie, clipSpan B x = some (is, ie) := by
  cases hc : clipSpan B x with
  | none => exact absurd h (clipSpan_none hc p)
  | some v => exact ⟨v.1, v.2, rfl⟩

end BioCantor.Proofs
