/-
  C17 helper lemmas, part 9: one gene end to end.  What `Model.Tbl.tblGene` builds for a gene (after the flavour
  filter) meets, feature by feature, what `Spec.Tbl.wantGene` expects for it.
-/
import BioCantor.Proofs.TblMain
import BioCantor.Proofs.TblMerge
namespace BioCantor.Proofs.Tbl
open BioCantor BioCantor.Model BioCantor.Model.Tbl BioCantor.Spec BioCantor.Spec.Tbl BioCantor.Proofs
open BioCantor.Model.Bed (natStr)

/-! ### the spec's view of a model gene -/

/-- `_frame_iter`: the frame vector in 5'→3' order -/
def frameIterOf (st : Strand) (fs : List CDSFrame) : List CDSFrame := if st = .minus then fs.reverse else fs

/-- the start frame: the frame of the 5'-most CDS block -/
def startFrame (st : Strand) (fs : List CDSFrame) : Nat :=
  match frameIterOf st fs with
  | f :: _ => f.value.toNat
  | [] => 0

def specTx (t : Tx) : TxIn := ⟨t.strand, t.exons, t.cds.map (fun c => (c.1, startFrame t.strand c.2))⟩
def specGene (g : Gene) : GeneIn := ⟨g.gtype, g.txs.map specTx⟩

/-- a coding transcript inside what C17 claims and outside F-C05h: exon layout and CDS layout are good block
    lists inside the chromosome, one real frame per CDS block, the 5'-most merged CDS block is at least as long as the
    start offset, the CDS holds a complete codon and its codons are plain ACGT -/
def CodingTxOK (chrom : List Char) (t : Tx) : Prop :=
  (t.strand = .plus ∨ t.strand = .minus) ∧ goodBlocks t.exons = true ∧ t.exons ≠ [] ∧
  ∃ src fs fr rest, t.cds = some (src, fs) ∧ goodBlocks src = true ∧ src ≠ [] ∧ fs.length = src.length ∧
    (∀ b ∈ src, b.2 ≤ chrom.length) ∧ frameIterOf t.strand fs = fr :: rest ∧ fr ≠ .NONE ∧
    ((mergedBlocks src).length = 1 ∨ fr.value ≤ (firstLen ⟨mergedBlocks src, t.strand⟩ : Int)) ∧
    (⟨src, t.strand, fr.value.toNat, chrom⟩ : CdsIn).codons ≠ some [] ∧
    (∀ cods, (⟨src, t.strand, fr.value.toNat, chrom⟩ : CdsIn).codons = some cods →
      ∀ cod ∈ cods, (standardCode cod).isSome = true)

/-- what the first loop of `TblGene.__init__` leaves for a coding transcript, with the values the later steps
    compute from it and their meaning -/
def PrepRel (chrom : List Char) (table : Nat) (t : Tx) (p : Tx × List Blk × Option CDS) : Prop :=
  ∃ c si ei b src f, p = (t, mergedBlocks t.exons, some c) ∧ (specTx t).cds = some (src, f) ∧
    goodBlocks src = true ∧ goodBlocks t.exons = true ∧ src ≠ [] ∧ t.exons ≠ [] ∧
    c.loc = ⟨mergedBlocks src, t.strand⟩ ∧ cdsFlags c (table : Int) = .ok (f + 1, si, ei) ∧
    hasInFrameStop c = .ok b ∧
    (⟨src, t.strand, f, chrom⟩ : CdsIn).startPartial table = some si ∧
    (⟨src, t.strand, f, chrom⟩ : CdsIn).endPartial = some ei ∧
    (⟨src, t.strand, f, chrom⟩ : CdsIn).inFrameStop = some b

theorem prepTx_coding (g : Gene) (hc : g.isCoding = true) (chrom : List Char) (hch : ChromOK chrom)
    (table : Nat) (ht : table = 0 ∨ table = 1 ∨ table = 11) (t : Tx) (h : CodingTxOK chrom t) :
    ∃ p, prepTx g (some chrom) t = .ok p ∧ PrepRel chrom table t p := by
  obtain ⟨hdir, hge, hne, src, fs, fr, rest, hcds, hgs, hsne, hfl, hcov, hfi, hfr, hfirst, hcod, hacgt⟩ := h
  obtain ⟨s, e, hmk⟩ := mkCDS_good src t.strand fs chrom hgs hsne hfl hcov
  let c0 : CDS := ⟨⟨src, t.strand⟩, s, e, fs, some chrom⟩
  have hfi0 : c0.frameIter = fr :: rest := by
    show (if c0.strand = .minus then c0.frames.reverse else c0.frames) = fr :: rest
    exact hfi
  obtain ⟨c, si, ei, hm, hloc, hflags, hsi, hei⟩ :=
    merged_cds_feature c0 src t.strand rfl hdir hgs hsne fr rest hfi0 hfr hfirst chrom rfl hcov hch table ht hcod
  obtain ⟨c', b, hm', hb, hbs⟩ :=
    merged_cds_in_frame_stop c0 src t.strand rfl hdir hgs hsne fr rest hfi0 hfr hfirst chrom rfl hcov hch hcod hacgt
  have hcc : c' = c := by rw [hm] at hm'; exact (Except.ok.inj hm').symm
  subst hcc
  have hsf : startFrame t.strand fs = fr.value.toNat := by unfold startFrame; rw [hfi]
  refine ⟨(t, mergedBlocks t.exons, some c'), ?_, c', si, ei, b, src, fr.value.toNat, rfl, ?_, hgs, hge, hsne, hne,
    hloc, hflags, hb, hsi, hei, hbs⟩
  · have hm2 : mergeCDS ⟨⟨src, t.strand⟩, s, e, fs, some chrom⟩ = .ok c' := hm
    unfold prepTx txCDS
    simp only [mergeExons_runs t hge hne, hcds, hmk, hc, hm2, bind, Except.bind, pure, Except.pure, if_true]
  · simp [specTx, hcds, hsf]

/-! ### lists -/

theorem mapM_rel {α β} (f : α → R β) (Rr : α → β → Prop) : ∀ (l : List α),
    (∀ a ∈ l, ∃ b, f a = .ok b ∧ Rr a b) → ∃ bs, l.mapM f = .ok bs ∧ Rel2 Rr l bs
  | [], _ => ⟨[], rfl, trivial⟩
  | a :: l, h => by
    obtain ⟨b, hb, hr⟩ := h a (by simp)
    obtain ⟨bs, hbs, hrs⟩ := mapM_rel f Rr l (fun x hx => h x (List.mem_cons_of_mem _ hx))
    refine ⟨b :: bs, ?_, hr, hrs⟩
    simp only [List.mapM_cons, hb, hbs, bind, Except.bind, pure, Except.pure]

/-! ### pseudo -/

theorem pseudo_rel (chrom : List Char) (table : Nat) (gt : Option (List Char)) : ∀ (txs : List Tx)
    (ps : List (Tx × List Blk × Option CDS)), Rel2 (PrepRel chrom table) txs ps →
    ∃ pb, anyInFrameStop (ps.map (·.2.2)) = .ok pb ∧
      (mapOpt (fun t : TxIn => match t.cdsIn chrom with
                    | some c => c.inFrameStop
                    | none => some false) (txs.map specTx)).map (fun l => l.any id) = some pb
  | [], [], _ => ⟨false, rfl, rfl⟩
  | t :: txs, p :: ps, h => by
    obtain ⟨⟨c, si, ei, b, src, f, hp, hcds, _, _, _, _, _, _, hb, _, _, hbs⟩, hrest⟩ := h
    obtain ⟨pb, h1, h2⟩ := pseudo_rel chrom table gt txs ps hrest
    have hci : (specTx t).cdsIn chrom = some ⟨src, t.strand, f, chrom⟩ := by
      unfold TxIn.cdsIn; rw [hcds]; rfl
    cases hm : mapOpt (fun t : TxIn => match t.cdsIn chrom with
                    | some c => c.inFrameStop
                    | none => some false) (txs.map specTx) with
    | none => rw [hm] at h2; simp at h2
    | some l =>
      rw [hm] at h2
      simp only [Option.map_some, Option.some.injEq] at h2
      refine ⟨b || pb, ?_, ?_⟩
      · subst hp
        simp only [List.map_cons, anyInFrameStop, hb, bind, Except.bind]
        cases b
        · simpa using h1
        · simp [pure, Except.pure]
      · simp only [List.map_cons, mapOpt, hci, hbs, hm, Option.map_some, List.any_cons, id, h2]
  | [], _ :: _, h => h.elim
  | _ :: _, [], h => h.elim

/-! ### skeletons against expectations -/

/-- a feature skeleton of the model realises the expectation `w` -/
structure SkelMeets (tagNo : Nat) (w : Want) (s : Skel) : Prop where
  key : w.keyOk s.key = true
  strand : s.strand ∈ w.strands
  keyClean : s.key ≠ [] ∧ '\t' ∉ s.key ∧ '\n' ∉ s.key
  good : goodBlocks w.blocks = true
  ne : w.blocks ≠ []
  blocks : s.blocks = mergedBlocks w.blocks
  si : s.si = w.si
  ei : s.ei = w.ei
  pseudo : s.pseudo = w.pseudo
  cs : ∀ n, w.codonStart = some n → s.key = "CDS".toList ∧ s.codonStart = some n
  tag : w.tagNo = tagNo

/-- `if genbank_flavor == PROKARYOTIC and type(obj) == MRNATblFeature: continue` on skeletons -/
def flavourSkels (prok : Bool) (l : List Skel) : List Skel :=
  if prok then l.filter (fun s => s.key ≠ "mRNA".toList) else l

theorem flavourSkels_append (prok : Bool) (a b : List Skel) :
    flavourSkels prok (a ++ b) = flavourSkels prok a ++ flavourSkels prok b := by
  unfold flavourSkels; cases prok <;> simp

theorem features_rel (g : Gene) (hc : g.isCoding = true) (c : CollIn) (tag : Nat) (pseudo : Bool) :
    ∀ (txs : List Tx) (ps : List (Tx × List Blk × Option CDS)), Rel2 (PrepRel c.genome c.table) txs ps →
    ∃ rest ws, txFeaturesAll g (c.table : Int) pseudo ps = .ok rest ∧
      mapOpt (wantTx c tag pseudo) (txs.map specTx) = some ws ∧
      Rel2 (SkelMeets tag) ws.flatten (flavourSkels c.prokaryotic rest)
  | [], [], _ => ⟨[], [], rfl, rfl, by cases hpk : c.prokaryotic <;> simp [flavourSkels, Rel2]⟩
  | t :: txs, p :: ps, h => by
    obtain ⟨⟨cd, si, ei, b, src, f, hp, hcds, hgs, hge, hsne, hene, hloc, hflags, _, hsi, hei, _⟩, hrest⟩ := h
    obtain ⟨rest, ws, h1, h2, h3⟩ := features_rel g hc c tag pseudo txs ps hrest
    have hci : (specTx t).cdsIn c.genome = some ⟨src, t.strand, f, c.genome⟩ := by
      unfold TxIn.cdsIn; rw [hcds]; rfl
    subst hp
    let cdsS : Skel := ⟨"CDS".toList, cd.loc.strand, cd.loc.blocks, si, ei, pseudo, some (f + 1)⟩
    let mrnaS : Skel := ⟨"mRNA".toList, t.strand, mergedBlocks t.exons, si, ei, pseudo, some (f + 1)⟩
    let cdsW : Want := ⟨isKey "CDS", [t.strand], src, si, ei, pseudo, some (f + 1), tag⟩
    let mrnaW : Want := ⟨isKey "mRNA", [t.strand], t.exons, si, ei, pseudo, none, tag⟩
    have hcdsM : SkelMeets tag cdsW cdsS :=
      ⟨by simp [cdsW, cdsS, isKey], by simp [cdsW, cdsS, hloc], by simp only [cdsS]; decide, hgs, hsne,
        by simp [cdsW, cdsS, hloc], rfl, rfl, rfl,
        by intro n hn; simp only [cdsW, Option.some.injEq] at hn; exact ⟨rfl, by simp [cdsS, hn]⟩, rfl⟩
    have hmrnaM : SkelMeets tag mrnaW mrnaS :=
      ⟨by simp [mrnaW, mrnaS, isKey], by simp [mrnaW, mrnaS], by simp only [mrnaS]; decide, hge, hene, rfl, rfl, rfl, rfl,
        by intro n hn; simp [mrnaW] at hn, rfl⟩
    refine ⟨[mrnaS, cdsS] ++ rest, (if c.prokaryotic then [cdsW] else [mrnaW, cdsW]) :: ws, ?_, ?_, ?_⟩
    · simp only [txFeaturesAll, txFeatures, hc, if_true, hflags, bind, Except.bind, h1, pure, Except.pure]
      rfl
    · simp only [List.map_cons, mapOpt, wantTx, hci, hsi, hei, h2]
      rfl
    · rw [List.flatten_cons, flavourSkels_append]
      apply Rel2_append _ _ _ _ _ _ h3
      cases hpk : c.prokaryotic
      · simp only [Bool.false_eq_true, if_false, flavourSkels]
        exact ⟨hmrnaM, hcdsM, trivial⟩
      · have hk1 : ¬ (mrnaS.key ≠ "mRNA".toList) := by simp [mrnaS]
        have hk2 : cdsS.key ≠ "mRNA".toList := by simp only [cdsS]; decide
        simp only [if_true, flavourSkels, List.filter_cons, hk1, hk2, decide_true, decide_false, if_false,
          List.filter_nil, Bool.false_eq_true]
        exact ⟨hcdsM, trivial⟩
  | [], _ :: _, h => h.elim
  | _ :: _, [], h => h.elim

/-! ### the span -/

theorem minStart_char : ∀ (bs : List Blk) (m : Nat), GeneIn.span.minStart bs = some m →
    (∃ b ∈ bs, b.1 = m) ∧ ∀ b ∈ bs, m ≤ b.1
  | [], m, h => by simp [GeneIn.span.minStart] at h
  | b :: bs, m, h => by
    simp only [GeneIn.span.minStart] at h
    cases hr : GeneIn.span.minStart bs with
    | none =>
      rw [hr] at h; simp only [Option.some.injEq] at h; subst h
      have hbs : bs = [] := by
        cases bs with
        | nil => rfl
        | cons x xs => simp only [GeneIn.span.minStart] at hr; split at hr <;> simp at hr
      subst hbs
      exact ⟨⟨b, by simp, rfl⟩, by simp⟩
    | some m' =>
      rw [hr] at h; simp only [Option.some.injEq] at h; subst h
      obtain ⟨⟨x, hx, hxm⟩, hle⟩ := minStart_char bs m' hr
      refine ⟨?_, ?_⟩
      · by_cases hb : b.1 ≤ m'
        · exact ⟨b, by simp, by omega⟩
        · exact ⟨x, List.mem_cons_of_mem _ hx, by omega⟩
      · intro y hy
        rcases List.mem_cons.1 hy with rfl | hy
        · omega
        · have := hle y hy; omega

theorem maxEnd_char : ∀ (bs : List Blk) (m : Nat), GeneIn.span.maxEnd bs = some m →
    (∃ b ∈ bs, b.2 = m) ∧ ∀ b ∈ bs, b.2 ≤ m
  | [], m, h => by simp [GeneIn.span.maxEnd] at h
  | b :: bs, m, h => by
    simp only [GeneIn.span.maxEnd] at h
    cases hr : GeneIn.span.maxEnd bs with
    | none =>
      rw [hr] at h; simp only [Option.some.injEq] at h; subst h
      have hbs : bs = [] := by
        cases bs with
        | nil => rfl
        | cons x xs => simp only [GeneIn.span.maxEnd] at hr; split at hr <;> simp at hr
      subst hbs
      exact ⟨⟨b, by simp, rfl⟩, by simp⟩
    | some m' =>
      rw [hr] at h; simp only [Option.some.injEq] at h; subst h
      obtain ⟨⟨x, hx, hxm⟩, hle⟩ := maxEnd_char bs m' hr
      refine ⟨?_, ?_⟩
      · by_cases hb : m' ≤ b.2
        · exact ⟨b, by simp, by omega⟩
        · exact ⟨x, List.mem_cons_of_mem _ hx, by omega⟩
      · intro y hy
        rcases List.mem_cons.1 hy with rfl | hy
        · omega
        · have := hle y hy; omega

theorem minStart_isSome : ∀ (bs : List Blk), bs ≠ [] → ∃ m, GeneIn.span.minStart bs = some m
  | [], h => absurd rfl h
  | b :: bs, _ => by
    simp only [GeneIn.span.minStart]
    cases GeneIn.span.minStart bs <;> simp

theorem maxEnd_isSome : ∀ (bs : List Blk), bs ≠ [] → ∃ m, GeneIn.span.maxEnd bs = some m
  | [], h => absurd rfl h
  | b :: bs, _ => by
    simp only [GeneIn.span.maxEnd]
    cases GeneIn.span.maxEnd bs <;> simp

/-- the model's gene span is the spec's, and it is a non-empty interval -/
theorem span_eq (g : Gene) (hne : g.txs ≠ []) (hgood : ∀ t ∈ g.txs, goodBlocks t.exons = true ∧ t.exons ≠ []) :
    ∃ a b, geneSpan g.txs = some (a, b) ∧ (specGene g).span = some (a, b) ∧ a < b := by
  obtain ⟨a, b, hs, hb, ⟨t1, ht1, e1, he1, hea⟩, ⟨t2, ht2, e2, he2, heb⟩⟩ := geneSpan_spec g.txs hne hgood
  have hfl : (specGene g).txs.flatMap (·.exons) = g.txs.flatMap (·.exons) := by
    simp [specGene, specTx, List.flatMap_map]
  have hmem : ∀ e, e ∈ g.txs.flatMap (·.exons) ↔ ∃ t ∈ g.txs, e ∈ t.exons := by
    intro e; simp [List.mem_flatMap]
  have hne' : g.txs.flatMap (·.exons) ≠ [] := by
    intro h0
    have : e1 ∈ g.txs.flatMap (·.exons) := (hmem e1).2 ⟨t1, ht1, he1⟩
    rw [h0] at this; simp at this
  obtain ⟨m, hm⟩ := minStart_isSome _ hne'
  obtain ⟨M, hM⟩ := maxEnd_isSome _ hne'
  obtain ⟨⟨x, hx, hxm⟩, hle⟩ := minStart_char _ m hm
  obtain ⟨⟨y, hy, hyM⟩, hge⟩ := maxEnd_char _ M hM
  obtain ⟨tx, htx, hxe⟩ := (hmem x).1 hx
  obtain ⟨ty, hty, hye⟩ := (hmem y).1 hy
  have h1 := (hb tx htx x hxe).1
  have h2 := hle e1 ((hmem e1).2 ⟨t1, ht1, he1⟩)
  have h3 := (hb ty hty y hye).2
  have h4 := hge e2 ((hmem e2).2 ⟨t2, ht2, he2⟩)
  have hma : m = a := by omega
  have hMb : M = b := by omega
  have hpos1 := ((good_iff t1.exons).1 (hgood t1 ht1).1).2 e1 he1
  have hb1 := (hb t1 ht1 e1 he1).2
  refine ⟨a, b, hs, ?_, by omega⟩
  unfold GeneIn.span
  rw [hfl, hm, hM, hma, hMb]

theorem mergedBlocks_single (b : Blk) (h : b.1 < b.2) : mergedBlocks [b] = [b] := by
  have hg : goodBlocks [b] = true := by simp [goodBlocks, h]
  rw [← combStart_runs [b] hg]
  have h0 : ¬ (b.2 - b.1 = 0) := by omega
  simp [combStart, comb, h0]

theorem flavourSkels_gene (prok : Bool) (s : Skel) (hk : s.key = "gene".toList) (l : List Skel) :
    flavourSkels prok (s :: l) = s :: flavourSkels prok l := by
  unfold flavourSkels
  cases prok
  · rfl
  · have : ¬ (s.key = ['m', 'R', 'N', 'A']) := by rw [hk]; decide
    simp [List.filter_cons, this]

/-! ### a coding gene -/

/-- **one coding gene, end to end** (any number of isoforms, each inside `CodingTxOK`) -/
theorem tblGene_coding (g : Gene) (hne : g.txs ≠ []) (c : CollIn) (hch : ChromOK c.genome)
    (ht : c.table = 0 ∨ c.table = 1 ∨ c.table = 11) (tag : Nat) (hall : ∀ t ∈ g.txs, CodingTxOK c.genome t) :
    ∃ skels ws, tblGene g (some c.genome) (c.table : Int) = .ok skels ∧
      wantGene c tag (specGene g) = some ws ∧ Rel2 (SkelMeets tag) ws (flavourSkels c.prokaryotic skels) := by
  have hcodTx : ∀ t ∈ g.txs, t.isCoding = true := by
    intro t ht'
    obtain ⟨_, _, _, src, fs, _, _, hcds, _⟩ := hall t ht'
    simp [Tx.isCoding, hcds]
  have hc : g.isCoding = true := by
    unfold Gene.isCoding
    cases hx : g.txs with
    | nil => exact absurd hx hne
    | cons t ts => simp [hcodTx t (by rw [hx]; simp)]
  have hgood : ∀ t ∈ g.txs, goodBlocks t.exons = true ∧ t.exons ≠ [] := fun t ht' => ⟨(hall t ht').2.1, (hall t ht').2.2.1⟩
  obtain ⟨ps, hps, hrel⟩ := mapM_rel (prepTx g (some c.genome)) (PrepRel c.genome c.table) g.txs
    (fun t ht' => prepTx_coding g hc c.genome hch c.table ht t (hall t ht'))
  obtain ⟨pb, hpb1, hpb2⟩ := pseudo_rel c.genome c.table g.gtype g.txs ps hrel
  obtain ⟨a, b, hsp1, hsp2, hab⟩ := span_eq g hne hgood
  obtain ⟨rest, ws, hf1, hf2, hf3⟩ := features_rel g hc c tag pb g.txs ps hrel
  obtain ⟨st, hst⟩ : ∃ st, geneStrand (g.txs.map (·.strand)) = some st := by
    cases hx : g.txs with
    | nil => exact absurd hx hne
    | cons t ts => simp [geneStrand]
  have hmaj : st ∈ (specGene g).majorityStrands := by
    apply geneStrand_majority
    simpa [specGene, specTx, List.map_map, Function.comp_def] using hst
  let geneS : Skel := ⟨"gene".toList, st, [(a, b)], false, false, pb, none⟩
  let geneW : Want := ⟨isKey "gene", (specGene g).majorityStrands, [(a, b)], false, false, pb, none, tag⟩
  have hgM : SkelMeets tag geneW geneS :=
    ⟨by simp [geneW, geneS, isKey], hmaj, by simp only [geneS]; decide, by simp [geneW, goodBlocks, hab], by simp [geneW],
      by simp only [geneW, geneS]; exact (mergedBlocks_single (a, b) hab).symm, rfl, rfl, rfl,
      by intro n hn; simp [geneW] at hn, rfl⟩
  refine ⟨geneS :: rest, geneW :: ws.flatten, ?_, ?_, ?_⟩
  · unfold tblGene
    simp only [hps, liftR, hst, hc, if_true, hpb1, hsp1, hf1, bind, Except.bind, pure, Except.pure]
    rfl
  · have hallc : (specGene g).allCoding = true := by
      simp only [GeneIn.allCoding, specGene, List.all_map, List.all_eq_true, Function.comp]
      intro t ht'
      have := hcodTx t ht'
      simp only [Tx.isCoding] at this
      simp [specTx, this]
    have hemp : (specGene g).txs.isEmpty = false := by
      cases hx : g.txs with
      | nil => exact absurd hx hne
      | cons t ts => simp [specGene, hx]
    have hps' : (specGene g).pseudo c.genome = some pb := by
      unfold GeneIn.pseudo; exact hpb2
    unfold wantGene
    simp only [hsp2, hps', hemp, hallc, if_true, Bool.false_eq_true, if_false]
    have : (specGene g).txs = g.txs.map specTx := rfl
    rw [this, hf2]
    rfl
  · rw [flavourSkels_gene _ _ rfl]
    exact ⟨hgM, hf3⟩

/-! ### a non-coding gene -/

def NoncodingTxOK (t : Tx) : Prop := goodBlocks t.exons = true ∧ t.exons ≠ [] ∧ t.cds = none

/-- the key `TblGene` writes the transcripts of a non-coding gene with -/
def rnaKeyOf (gtype : Option (List Char)) : List Char :=
  if gtype = bt "rRNA" then "rRNA".toList else if gtype = bt "tRNA" then "tRNA".toList else "ncRNA".toList

theorem rnaKeyOf_ok (gtype : Option (List Char)) : rnaKeyOk gtype (rnaKeyOf gtype) = true := by
  unfold rnaKeyOf rnaKeyOk bt
  by_cases h1 : gtype = some "rRNA".toList
  · simp [h1]
  · by_cases h2 : gtype = some "tRNA".toList
    · have : ¬ (some "tRNA".toList = some "rRNA".toList) := by decide
      simp [h2, this]
    · simp only [h1, h2, if_false]
      decide

theorem rnaKeyOf_ne_mrna (gtype : Option (List Char)) : rnaKeyOf gtype ≠ "mRNA".toList := by
  unfold rnaKeyOf
  split
  · decide
  · split <;> decide

theorem rnaKeyOf_clean (gtype : Option (List Char)) :
    rnaKeyOf gtype ≠ [] ∧ '\t' ∉ rnaKeyOf gtype ∧ '\n' ∉ rnaKeyOf gtype := by
  unfold rnaKeyOf
  split
  · decide
  · split <;> decide

def rnaSkel (gtype : Option (List Char)) (t : Tx) : Skel :=
  ⟨rnaKeyOf gtype, t.strand, mergedBlocks t.exons, false, false, false, none⟩

theorem mapM_ok_map {α β} (f : α → R β) (F : α → β) : ∀ (l : List α), (∀ a ∈ l, f a = .ok (F a)) →
    l.mapM f = .ok (l.map F)
  | [], _ => rfl
  | a :: l, h => by
    simp only [List.mapM_cons, h a (by simp), mapM_ok_map f F l (fun x hx => h x (List.mem_cons_of_mem _ hx)),
      bind, Except.bind, pure, Except.pure, List.map_cons]

theorem Rel2_map {α β γ} (R : α → β → Prop) (F : γ → α) (G : γ → β) : ∀ (l : List γ),
    (∀ x ∈ l, R (F x) (G x)) → Rel2 R (l.map F) (l.map G)
  | [], _ => trivial
  | x :: l, h => ⟨h x (by simp), Rel2_map R F G l (fun y hy => h y (List.mem_cons_of_mem _ hy))⟩

theorem txFeatures_rna (g : Gene) (hnc : g.isCoding = false) (table : Int) (t : Tx) (h : NoncodingTxOK t) :
    txFeatures g table false t (mergedBlocks t.exons) none = .ok [rnaSkel g.gtype t] := by
  unfold txFeatures rnaSkel rnaKeyOf
  have hsw : rnaRowsMerged = true := rfl
  simp only [hnc, Bool.false_eq_true, if_false, hsw, if_true, bind, Except.bind, pure, Except.pure]
  by_cases h1 : g.gtype = bt "rRNA"
  · simp [h1]
  · by_cases h2 : g.gtype = bt "tRNA"
    · have h3 : ¬ (bt "tRNA" = bt "rRNA") := by decide
      simp [h2, h3]
    · simp [h1, h2]

theorem txFeaturesAll_rna (g : Gene) (hnc : g.isCoding = false) (table : Int) : ∀ (txs : List Tx),
    (∀ t ∈ txs, NoncodingTxOK t) →
    txFeaturesAll g table false (txs.map (fun t => (t, mergedBlocks t.exons, (none : Option CDS))))
      = .ok (txs.map (rnaSkel g.gtype))
  | [], _ => rfl
  | t :: txs, h => by
    simp only [List.map_cons, txFeaturesAll, txFeatures_rna g hnc table t (h t (by simp)),
      txFeaturesAll_rna g hnc table txs (fun x hx => h x (List.mem_cons_of_mem _ hx)), bind, Except.bind, pure,
      Except.pure, List.singleton_append]

theorem flavourSkels_id (prok : Bool) (l : List Skel) (h : ∀ s ∈ l, s.key ≠ "mRNA".toList) :
    flavourSkels prok l = l := by
  unfold flavourSkels
  cases prok
  · rfl
  · simp only [if_true, List.filter_eq_self]
    intro s hs; simpa using h s hs

/-- **one non-coding gene, end to end** (rRNA / tRNA / ncRNA features, any number of transcripts) -/
theorem tblGene_noncoding (g : Gene) (hne : g.txs ≠ []) (c : CollIn) (tag : Nat)
    (hall : ∀ t ∈ g.txs, NoncodingTxOK t) :
    ∃ skels ws, tblGene g (some c.genome) (c.table : Int) = .ok skels ∧
      wantGene c tag (specGene g) = some ws ∧ Rel2 (SkelMeets tag) ws (flavourSkels c.prokaryotic skels) := by
  have hnc : g.isCoding = false := by
    unfold Gene.isCoding
    rw [List.any_eq_false]
    intro t ht'
    simp [Tx.isCoding, (hall t ht').2.2]
  have hgood : ∀ t ∈ g.txs, goodBlocks t.exons = true ∧ t.exons ≠ [] := fun t ht' => ⟨(hall t ht').1, (hall t ht').2.1⟩
  have hps : g.txs.mapM (prepTx g (some c.genome))
      = .ok (g.txs.map (fun t => (t, mergedBlocks t.exons, (none : Option CDS)))) := by
    apply mapM_ok_map
    intro t ht'
    unfold prepTx txCDS
    simp only [mergeExons_runs t (hall t ht').1 (hall t ht').2.1, (hall t ht').2.2, hnc, bind, Except.bind, pure,
      Except.pure, Bool.false_eq_true, if_false]
  obtain ⟨a, b, hsp1, hsp2, hab⟩ := span_eq g hne hgood
  obtain ⟨st, hst⟩ : ∃ st, geneStrand (g.txs.map (·.strand)) = some st := by
    cases hx : g.txs with
    | nil => exact absurd hx hne
    | cons t ts => simp [geneStrand]
  have hmaj : st ∈ (specGene g).majorityStrands := by
    apply geneStrand_majority
    simpa [specGene, specTx, List.map_map, Function.comp_def] using hst
  let geneS : Skel := ⟨"gene".toList, st, [(a, b)], false, false, false, none⟩
  let geneW : Want := ⟨isKey "gene", (specGene g).majorityStrands, [(a, b)], false, false, false, none, tag⟩
  have hgM : SkelMeets tag geneW geneS :=
    ⟨by simp [geneW, geneS, isKey], hmaj, by simp only [geneS]; decide, by simp [geneW, goodBlocks, hab], by simp [geneW],
      by simp only [geneW, geneS]; exact (mergedBlocks_single (a, b) hab).symm, rfl, rfl, rfl,
      by intro n hn; simp [geneW] at hn, rfl⟩
  refine ⟨geneS :: g.txs.map (rnaSkel g.gtype), geneW :: g.txs.map (fun t => wantRna g.gtype tag (specTx t)), ?_, ?_, ?_⟩
  · unfold tblGene
    simp only [hps, liftR, hst, hnc, Bool.false_eq_true, if_false, hsp1, txFeaturesAll_rna g hnc _ g.txs hall,
      bind, Except.bind, pure, Except.pure]
    rfl
  · have hnone : (specGene g).noneCoding = true := by
      simp only [GeneIn.noneCoding, specGene, List.all_map, List.all_eq_true, Function.comp]
      intro t ht'
      simp [specTx, (hall t ht').2.2]
    have hnotall : (specGene g).allCoding = false := by
      cases hx : g.txs with
      | nil => exact absurd hx hne
      | cons t ts =>
        have := (hall t (by rw [hx]; simp)).2.2
        simp [GeneIn.allCoding, specGene, hx, specTx, this]
    have hemp : (specGene g).txs.isEmpty = false := by
      cases hx : g.txs with
      | nil => exact absurd hx hne
      | cons t ts => simp [specGene, hx]
    have hps' : ∃ pb, (specGene g).pseudo c.genome = some pb := by
      have key : ∀ (txs : List Tx), (∀ t ∈ txs, t.cds = none) →
          ∃ pb, GeneIn.pseudo c.genome ⟨g.gtype, txs.map specTx⟩ = some pb := by
        intro txs
        induction txs with
        | nil => intro _; exact ⟨false, rfl⟩
        | cons t ts ih =>
          intro hh
          obtain ⟨pb, hpb⟩ := ih (fun x hx => hh x (List.mem_cons_of_mem _ hx))
          have hcd : (specTx t).cdsIn c.genome = none := by simp [TxIn.cdsIn, specTx, hh t (by simp)]
          unfold GeneIn.pseudo at hpb ⊢
          simp only [List.map_cons, mapOpt, hcd] at hpb ⊢
          generalize mapOpt _ (ts.map specTx) = m at hpb ⊢
          cases m with
          | none => simp at hpb
          | some l => exact ⟨_, rfl⟩
      exact key g.txs (fun t ht' => (hall t ht').2.2)
    obtain ⟨pb, hpb⟩ := hps'
    unfold wantGene
    simp only [hsp2, hpb, hemp, hnotall, hnone, if_true, Bool.false_eq_true, if_false]
    rw [show (specGene g).txs = g.txs.map specTx from rfl, List.map_map]
    rfl
  · rw [flavourSkels_gene _ _ rfl,
      flavourSkels_id _ _ (by intro s hs; obtain ⟨t, _, rfl⟩ := List.mem_map.1 hs; exact rnaKeyOf_ne_mrna _)]
    refine ⟨hgM, Rel2_map _ _ _ _ ?_⟩
    intro t ht'
    exact ⟨by simp [wantRna, rnaSkel, rnaKeyOf_ok], by simp [wantRna, rnaSkel, specTx], rnaKeyOf_clean _,
      (hall t ht').1, (hall t ht').2.1, by simp [wantRna, rnaSkel, specTx], rfl, rfl, rfl,
      by intro n hn; simp [wantRna] at hn, rfl⟩

end BioCantor.Proofs.Tbl
