/-
  Towards C05-T5: a codon window `[lo, hi)` (lo < hi, no expand) on a prepared, ascending location.
  Part A — `CompoundInterval.intersection(window)` + `optimize_blocks()`: the result reads exactly the positions
  of the location that lie inside the window.
-/
import BioCantor.Proofs.CDSSeq
namespace BioCantor.Proofs
open BioCantor BioCantor.Model BioCantor.Spec

/-- membership in the window, on positions -/
def inW (lo hi : Nat) (x : Nat) : Bool := decide (lo ≤ x) && decide (x < hi)

def clip (lo hi : Nat) (b : Blk) : Blk := (max b.1 lo, min b.2 hi)

theorem overlapKernel_iff (b : Blk) (lo hi : Nat) (hb : b.1 < b.2) (hw : lo < hi) :
    overlapKernel b (lo, hi) = true ↔ max b.1 lo < min b.2 hi := by
  unfold overlapKernel Blk.len
  simp only
  have h1 : ¬ (b.2 - b.1 = 0 ∨ hi - lo = 0) := by omega
  rw [if_neg h1]
  by_cases c1 : lo ≤ b.1 ∧ b.1 < hi
  · rw [if_pos c1]; simp; omega
  · rw [if_neg c1]
    by_cases c2 : lo < b.2 ∧ b.2 ≤ hi
    · rw [if_pos c2]; simp; omega
    · rw [if_neg c2]
      by_cases c3 : b.1 ≤ lo ∧ lo < b.2
      · rw [if_pos c3]; simp; omega
      · rw [if_neg c3]
        by_cases c4 : b.1 < hi ∧ hi ≤ b.2
        · rw [if_pos c4]; simp; omega
        · rw [if_neg c4]; simp; omega

theorem filter_range' (lo hi : Nat) : ∀ (n s : Nat),
    (List.range' s n).filter (inW lo hi) = List.range' (max s lo) (min (s + n) hi - max s lo)
  | 0, s => by
    have : min s hi - max s lo = 0 := by omega
    simp [this]
  | n + 1, s => by
    rw [List.range'_succ, List.filter_cons, filter_range' lo hi n (s + 1)]
    unfold inW
    by_cases h : lo ≤ s ∧ s < hi
    · have h' : (decide (lo ≤ s) && decide (s < hi)) = true := by simp [h]
      rw [if_pos h']
      have e1 : max s lo = s := by omega
      have e2 : max (s + 1) lo = s + 1 := by omega
      have e3 : min (s + (n + 1)) hi - s = (min (s + 1 + n) hi - (s + 1)) + 1 := by omega
      rw [e1, e2, e3, List.range'_succ]
    · have h' : ¬ ((decide (lo ≤ s) && decide (s < hi)) = true) := by simp; omega
      rw [if_neg h']
      by_cases hs : s < lo
      · have e1 : max (s + 1) lo = max s lo := by omega
        have e2 : s + 1 + n = s + (n + 1) := by omega
        rw [e1, e2]
      · have e : min (s + 1 + n) hi - max (s + 1) lo = 0 := by omega
        have e' : min (s + (n + 1)) hi - max s lo = 0 := by omega
        rw [e, e']; simp

theorem blkAsc_filter (b : Blk) (lo hi : Nat) :
    (blkAsc b).filter (inW lo hi) = blkAsc (clip lo hi b) := by
  unfold blkAsc clip
  rw [filter_range']
  by_cases hb : b.1 ≤ b.2
  · have : b.1 + (b.2 - b.1) = b.2 := by omega
    rw [this]
  · have h1 : b.2 - b.1 = 0 := by omega
    have h2 : min (b.1 + (b.2 - b.1)) hi - max b.1 lo = 0 := by omega
    have h3 : min b.2 hi - max b.1 lo = 0 := by omega
    simp only [h2, h3]

/-- the per-block intersections read the positions inside the window -/
theorem parts_bases (lo hi : Nat) (hw : lo < hi) : ∀ (L : List Blk), (∀ b ∈ L, b.1 < b.2) →
    basesPlus ((L.filter (fun b => overlapKernel b (lo, hi))).map (clip lo hi)) = (basesPlus L).filter (inW lo hi)
  | [], _ => rfl
  | b :: L, h => by
    have hb := h b (by simp)
    have ih := parts_bases lo hi hw L (fun x hx => h x (by simp [hx]))
    simp only [basesPlus, List.filter_append, blkAsc_filter, List.filter_cons]
    by_cases ho : overlapKernel b (lo, hi) = true
    · rw [if_pos ho]
      simp only [List.map_cons, basesPlus, ih]
    · rw [if_neg ho, ih]
      have : ¬ (max b.1 lo < min b.2 hi) := fun hh => ho ((overlapKernel_iff b lo hi hb hw).mpr hh)
      have hemp : blkAsc (clip lo hi b) = [] := by
        unfold blkAsc clip
        have : min b.2 hi - max b.1 lo = 0 := by omega
        simp [this]
      rw [hemp]; rfl

theorem parts_props (lo hi : Nat) (hw : lo < hi) (L : List Blk) (hpos : ∀ b ∈ L, b.1 < b.2)
    (hp : L.Pairwise (fun a b => a.2 ≤ b.1)) :
    (∀ x ∈ (L.filter (fun b => overlapKernel b (lo, hi))).map (clip lo hi), x.1 < x.2) ∧
      ((L.filter (fun b => overlapKernel b (lo, hi))).map (clip lo hi)).Pairwise (fun a b => a.2 ≤ b.1) := by
  constructor
  · intro x hx
    obtain ⟨b, hb, rfl⟩ := List.mem_map.mp hx
    simp only [List.mem_filter] at hb
    have := (overlapKernel_iff b lo hi (hpos b hb.1) hw).mp hb.2
    exact this
  · rw [List.pairwise_map]
    refine (hp.sublist List.filter_sublist).imp ?_
    intro a b hab
    unfold clip; simp only; omega

theorem basesPlus_pairwise (L : List Blk) (hp : L.Pairwise (fun a b => a.2 ≤ b.1)) :
    (basesPlus L).Pairwise (· < ·) := by
  have := readScan_pairwise .plus L (hp.imp (fun h => by simpa [Before] using h))
  have e : readScan .plus L = basesPlus L := by simp [readScan, rd_plus, basesPlus_eq_flatMap]
  rw [e] at this
  exact this.imp (fun h => by simpa [PosLt] using h)

theorem mem_basesPlus (L : List Blk) (x : Nat) : x ∈ basesPlus L ↔ ∃ b ∈ L, b.1 ≤ x ∧ x < b.2 := by
  have e : readScan .plus L = basesPlus L := by simp [readScan, rd_plus, basesPlus_eq_flatMap]
  rw [← e, mem_readScan]

/-- blocks of positive length whose concatenated ascending reading is strictly increasing are ordered and disjoint -/
theorem asc_of_bases : ∀ (R : List Blk), (∀ b ∈ R, b.1 < b.2) → (basesPlus R).Pairwise (· < ·) →
    R.Pairwise (fun a b => a.2 ≤ b.1)
  | [], _, _ => List.Pairwise.nil
  | a :: R, hpos, hpw => by
    simp only [basesPlus] at hpw
    have hsplit := List.pairwise_append.mp hpw
    refine List.Pairwise.cons ?_ (asc_of_bases R (fun b hb => hpos b (by simp [hb])) hsplit.2.1)
    intro b hb
    have ha := hpos a (by simp)
    have hbp := hpos b (by simp [hb])
    have h1 : a.2 - 1 ∈ blkAsc a := by
      have := (mem_rd .plus a (a.2 - 1)).2 (by omega)
      simpa [rd] using this
    have h2 : b.1 ∈ basesPlus R := (mem_basesPlus R b.1).2 ⟨b, hb, by omega, by omega⟩
    have := hsplit.2.2 _ h1 _ h2
    omega

/-- Part A: the window restriction of an ascending location -/
theorem intersectWindow_ok (L : List Blk) (st : Strand) (hpos : ∀ b ∈ L, b.1 < b.2)
    (hp : L.Pairwise (fun a b => a.2 ≤ b.1)) (lo hi : Nat) (hw : lo < hi)
    (hne : (basesPlus L).filter (inW lo hi) ≠ []) :
    ∃ R, intersectWindow ⟨L, st⟩ (lo, hi) = .ok (toSingleIfOne ⟨R, st⟩) ∧ R ≠ [] ∧ (∀ b ∈ R, b.1 < b.2) ∧
      R.Pairwise (fun a b => a.2 ≤ b.1) ∧ basesPlus R = (basesPlus L).filter (inW lo hi) := by
  generalize hparts : (L.filter (fun b => overlapKernel b (lo, hi))).map (clip lo hi) = parts
  have hpb : basesPlus parts = (basesPlus L).filter (inW lo hi) := by rw [← hparts]; exact parts_bases lo hi hw L hpos
  obtain ⟨hppos, hppw⟩ := parts_props lo hi hw L hpos hp
  rw [hparts] at hppos hppw
  have hpne : parts ≠ [] := by
    intro h0; apply hne; rw [← hpb, h0]; rfl
  have hpv : ∀ b ∈ parts, b.1 ≤ b.2 := fun b hb => Nat.le_of_lt (hppos b hb)
  have hplt := fst_lt_of_asc parts hppw hppos
  have hsorted : sortBlocks st parts = parts := sortBlocks_of_fst_lt st hplt
  -- after optimize_blocks
  generalize hR : combStart parts = R
  have hRb : basesPlus R = basesPlus parts := by rw [← hR]; exact combStart_bases parts hpv
  have hRn : normalBlocks R = true := by rw [← hR]; exact combStart_normal parts
  have hRpos := normal_pos R hRn
  have hRne : R ≠ [] := by
    intro h0; apply hne; rw [← hpb, ← hRb, h0]; rfl
  have hRlt : R.Pairwise (fun a b => a.1 < b.1) := by
    have h1 : (parts.map Prod.fst).Pairwise (· < ·) := List.pairwise_map.mpr hplt
    have h2 := h1.sublist (hR ▸ combStart_starts parts)
    exact List.pairwise_map.mp h2
  have hRs : sortBlocks st R = R := sortBlocks_of_fst_lt st hRlt
  have hRpw : R.Pairwise (fun a b => a.2 ≤ b.1) := by
    apply asc_of_bases R hRpos
    rw [hRb, hpb]
    exact (basesPlus_pairwise L hp).sublist List.filter_sublist
  refine ⟨R, ?_, hRne, hRpos, hRpw, by rw [hRb, hpb]⟩
  have hdef : intersectWindow ⟨L, st⟩ (lo, hi) =
      (if parts.isEmpty then pure Location.empty
       else do let c ← mkCompoundLoc parts st; optimizeLoc true c) := by
    rw [← hparts]; rfl
  have hem : parts.isEmpty = false := by simpa using hpne
  rw [hdef, hem]
  simp only [Bool.false_eq_true, if_false, mkCompoundLoc_ok st hpne hpv, hsorted, bind, Except.bind]
  rw [optimizeLoc_true_ok parts st hsorted (by rw [hR]; exact hRne), hR, hRs]

/-! ### Part B — a strand-ordered reading splits into before / inside / after the window -/

def beforeW (st : Strand) (lo hi : Nat) (x : Nat) : Bool := if st = .plus then decide (x < lo) else decide (hi ≤ x)
def afterW (st : Strand) (lo hi : Nat) (x : Nat) : Bool := if st = .plus then decide (hi ≤ x) else decide (x < lo)

theorem filter_nil_of_forall {α} (p : α → Bool) (l : List α) (h : ∀ x ∈ l, p x = false) : l.filter p = [] := by
  rw [List.filter_eq_nil_iff]; intro x hx; simp [h x hx]

/-- propositional readings of the three classes -/
theorem beforeW_iff (st : Strand) (lo hi x : Nat) :
    beforeW st lo hi x = true ↔ (if st = .plus then x < lo else hi ≤ x) := by
  unfold beforeW; split <;> simp
theorem afterW_iff (st : Strand) (lo hi x : Nat) :
    afterW st lo hi x = true ↔ (if st = .plus then hi ≤ x else x < lo) := by
  unfold afterW; split <;> simp
theorem inW_iff (lo hi x : Nat) : inW lo hi x = true ↔ lo ≤ x ∧ x < hi := by
  unfold inW; simp

theorem bool_false_of_not {b : Bool} (h : ¬ b = true) : b = false := by simpa using h

/-- order facts, with the strand case split done once -/
theorem class_facts (st : Strand) (lo hi : Nat) (hw : lo ≤ hi) (x : Nat) :
    (beforeW st lo hi x = true → inW lo hi x = false ∧ afterW st lo hi x = false) ∧
    (inW lo hi x = true → afterW st lo hi x = false) ∧
    (beforeW st lo hi x = false → inW lo hi x = false → afterW st lo hi x = true) ∧
    (∀ y, PosLt st x y → inW lo hi x = true → beforeW st lo hi y = false) ∧
    (∀ y, PosLt st x y → afterW st lo hi x = true → beforeW st lo hi y = false ∧ inW lo hi y = false) := by
  by_cases hs : st = .plus
  · subst hs
    simp only [beforeW, afterW, inW, PosLt, if_true, Bool.and_eq_true, decide_eq_true_eq, Bool.and_eq_false_iff,
      decide_eq_false_iff_not]
    refine ⟨?_, ?_, ?_, ?_, ?_⟩ <;> intros <;> omega
  · simp only [beforeW, afterW, inW, PosLt, hs, if_false, Bool.and_eq_true, decide_eq_true_eq,
      Bool.and_eq_false_iff, decide_eq_false_iff_not]
    refine ⟨?_, ?_, ?_, ?_, ?_⟩ <;> intros <;> omega

theorem split3 (st : Strand) (lo hi : Nat) (hw : lo ≤ hi) : ∀ (K : List Nat), K.Pairwise (PosLt st) →
    K = K.filter (beforeW st lo hi) ++ K.filter (inW lo hi) ++ K.filter (afterW st lo hi)
  | [], _ => rfl
  | x :: K, hp => by
    have hx := (List.pairwise_cons.mp hp).1
    have ih := split3 st lo hi hw K (List.pairwise_cons.mp hp).2
    obtain ⟨f1, f2, f3, f4, f5⟩ := class_facts st lo hi hw x
    by_cases hb : beforeW st lo hi x = true
    · obtain ⟨h2, h3⟩ := f1 hb
      simp only [List.filter_cons, hb, h2, h3, if_true, Bool.false_eq_true, if_false, List.cons_append]
      rw [← ih]
    · have hb' : beforeW st lo hi x = false := by simpa using hb
      by_cases hi' : inW lo hi x = true
      · have h3 := f2 hi'
        have hnb : K.filter (beforeW st lo hi) = [] :=
          filter_nil_of_forall _ _ (fun y hy => f4 y (hx y hy) hi')
        rw [hnb] at ih
        simp only [List.filter_cons, hb', hi', h3, if_true, Bool.false_eq_true, if_false, hnb, List.nil_append,
          List.cons_append]
        congr 1
      · have hi'' : inW lo hi x = false := by simpa using hi'
        have h3 := f3 hb' hi''
        have hnb : K.filter (beforeW st lo hi) = [] :=
          filter_nil_of_forall _ _ (fun y hy => (f5 y (hx y hy) h3).1)
        have hni : K.filter (inW lo hi) = [] :=
          filter_nil_of_forall _ _ (fun y hy => (f5 y (hx y hy) h3).2)
        rw [hnb, hni] at ih
        simp only [List.filter_cons, hb', hi'', h3, if_true, Bool.false_eq_true, if_false, hnb, hni,
          List.nil_append]
        congr 1

/-- the window's stretch is a slice of the reading -/
theorem window_slice (st : Strand) (lo hi : Nat) (hw : lo ≤ hi) (K : List Nat) (hp : K.Pairwise (PosLt st)) :
    K.filter (inW lo hi) =
      (K.drop (K.filter (beforeW st lo hi)).length).take (K.filter (inW lo hi)).length := by
  have h := split3 st lo hi hw K hp
  generalize K.filter (beforeW st lo hi) = Bf at h ⊢
  generalize K.filter (inW lo hi) = In at h ⊢
  generalize K.filter (afterW st lo hi) = Af at h
  rw [h, List.append_assoc, List.drop_left, List.take_left]

/-! ### Part C — `_calculate_frame_offset(cleaned_location, restricted location)` -/

theorem locLen_toSingleIfOne (X : Loc) : locLen (toSingleIfOne X) = blocksLen X.blocks := by
  obtain ⟨bs, st⟩ := X
  unfold toSingleIfOne
  match bs with
  | [b] => simp [locLen, blocksLen]
  | [] => rfl
  | _ :: _ :: _ => rfl

theorem locStart_toSingleIfOne (r0 : Blk) (R' : List Blk) (st : Strand) :
    locStart (toSingleIfOne ⟨r0 :: R', st⟩) = .ok r0.1 := by
  unfold toSingleIfOne
  match R' with
  | [] => rfl
  | _ :: _ => rfl

theorem locEnd_toSingleIfOne (r0 : Blk) (R' : List Blk) (st : Strand) :
    locEnd (toSingleIfOne ⟨r0 :: R', st⟩) = .ok (maxEnd (r0 :: R')) := by
  unfold toSingleIfOne
  match R' with
  | [] => simp [locEnd, maxEnd, pure, Except.pure]
  | _ :: _ => rfl

theorem idxOf?_not_mem (p : Nat) : ∀ (xs : List Nat), p ∉ xs → idxOf? p xs = none
  | [], _ => rfl
  | x :: xs, h => by
    simp only [List.mem_cons, not_or] at h
    have hne : ¬ x = p := fun e => h.1 e.symm
    simp only [idxOf?, hne, if_false, idxOf?_not_mem p xs h.2, Option.map_none]

/-- the 5'-most position of the restricted location, as the model computes it -/
theorem window_anchor (c : CDS) (Wb : List Blk) (hne : Wb ≠ []) (hst : c.strand = .plus ∨ c.strand = .minus)
    (hpos : ∀ b ∈ Wb, b.1 < b.2) (hp : Wb.Pairwise (fun a b => a.2 ≤ b.1)) :
    ∃ (anchor : Nat) (tl : List Nat), bases ⟨Wb, c.strand⟩ = anchor :: tl ∧
      ((if c.strand = .plus then do let s ← locStart (toSingleIfOne ⟨Wb, c.strand⟩); pure (s : Int)
        else do let e ← locEnd (toSingleIfOne ⟨Wb, c.strand⟩); pure ((e : Int) - 1)) : R Int) = .ok (anchor : Int) := by
  have hvl : ∀ b ∈ Wb, b.1 ≤ b.2 := fun b hb => Nat.le_of_lt (hpos b hb)
  rcases hst with h | h
  · cases hR : Wb with
    | nil => exact absurd hR hne
    | cons r0 Wtl =>
      have hr0 := hpos r0 (by rw [hR]; simp)
      obtain ⟨k, hk⟩ : ∃ k, r0.2 - r0.1 = k + 1 := ⟨r0.2 - r0.1 - 1, by omega⟩
      refine ⟨r0.1, List.range' (r0.1 + 1) k ++ readScan .plus Wtl, ?_, ?_⟩
      · rw [h, bases_scanOrder _ .plus (Or.inl rfl)]
        simp only [scanOrder, if_true, readScan_cons, rd_plus, blkAsc, hk, List.range'_succ, List.cons_append]
      · simp only [h, if_true, locStart_toSingleIfOne, bind, Except.bind, pure, Except.pure]
  · cases hL : Wb.reverse with
    | nil => simp at hL; exact absurd hL hne
    | cons e B =>
      have hlast : Wb.getLast? = some e := by rw [← List.head?_reverse, hL]; rfl
      have hmax := maxEnd_asc Wb e hp hvl hlast
      have hepos := hpos e (List.mem_of_getLast? hlast)
      obtain ⟨k, hk⟩ : ∃ k, e.2 - e.1 = k + 1 := ⟨e.2 - e.1 - 1, by omega⟩
      refine ⟨e.2 - 1, (List.range' e.1 k).reverse ++ readScan .minus B, ?_, ?_⟩
      · rw [h, bases_scanOrder _ .minus (Or.inr rfl)]
        simp only [scanOrder, show (Strand.minus = Strand.plus) = False by simp, if_false, hL, readScan_cons,
          rd_minus, blkDesc, blkAsc, hk]
        rw [List.range'_concat, List.reverse_append]
        simp only [Nat.one_mul, List.reverse_cons, List.reverse_nil, List.nil_append, List.singleton_append,
          List.cons_append, List.cons.injEq, and_true]
        omega
      · obtain ⟨r0, Wtl, hR⟩ := List.exists_cons_of_ne_nil hne
        have hend : locEnd (toSingleIfOne ⟨Wb, c.strand⟩) = .ok (maxEnd Wb) := by
          rw [hR]; exact locEnd_toSingleIfOne r0 Wtl c.strand
        rw [if_neg (by rw [h]; simp), hend]
        simp only [hmax, bind, Except.bind, pure, Except.pure, Except.ok.injEq]
        omega

/-- Part C: with `d` positions of the location before the window, the offset is `(−d) mod 3` -/
theorem frameOffset_window (c : CDS) (L Wb : List Blk) (hst : c.strand = .plus ∨ c.strand = .minus)
    (hLv : ∀ b ∈ L, b.1 ≤ b.2) (hLlen : 0 < blocksLen L)
    (hRne : Wb ≠ []) (hRpos : ∀ b ∈ Wb, b.1 < b.2) (hRp : Wb.Pairwise (fun a b => a.2 ≤ b.1))
    (Bf Af : List Nat) (hK : bases ⟨L, c.strand⟩ = Bf ++ bases ⟨Wb, c.strand⟩ ++ Af)
    (hdis : ∀ x ∈ Bf, x ∉ bases ⟨Wb, c.strand⟩) :
    calculateFrameOffset c (.compound ⟨L, c.strand⟩) (toSingleIfOne ⟨Wb, c.strand⟩) =
      .ok ((-(Bf.length : Int)) % 3) := by
  obtain ⟨anchor, tl, hbR, hanc⟩ := window_anchor c Wb hRne hst hRpos hRp
  have hsu : c.strand ≠ .unstranded := by rcases hst with h | h <;> simp [h]
  have hv : blocksValid L = true := (blocksValid_iff L).2 hLv
  -- parent_to_relative_pos(anchor) = |Bf|
  have hp2r : p2r (.compound ⟨L, c.strand⟩) (anchor : Int) = .ok ((Bf.length : Nat) : Int) := by
    have hspec := compoundP2R_spec ⟨L, c.strand⟩ hv (anchor : Int)
    unfold expectP2R toLoc at hspec
    simp only [hsu, if_false] at hspec
    have hnn : ¬ ((anchor : Int) < 0) := by omega
    have hidx : idxOf? anchor (bases ⟨L, c.strand⟩) = some Bf.length := by
      rw [hK, hbR, List.append_assoc, idxOf?_append,
        idxOf?_not_mem anchor Bf (fun hm => hdis anchor hm (by rw [hbR]; simp))]
      simp [idxOf?]
    simp only [hnn, if_false, Int.toNat_natCast, hidx, Option.map_some] at hspec
    simp only [p2r]
    exact (ans_eq_some _ _).1 hspec
  -- the 5' stretch has |Bf| positions
  have hdle : Bf.length ≤ blocksLen L := by
    have := congrArg List.length hK
    rw [bases_length] at this
    simp only [Loc.len, List.length_append] at this
    omega
  have hfive : ∃ five, relInterval (.compound ⟨L, c.strand⟩) 0 ((Bf.length : Nat) : Int) .plus = .ok five ∧
      locLen five = Bf.length := by
    by_cases hd0 : Bf.length = 0
    · obtain ⟨q, hq⟩ := compoundRel_zero L c.strand hst 0 .plus (by omega) hLlen
      refine ⟨_, by rw [hd0]; simpa [relInterval] using hq, by rw [hd0]; simp [locLen, Blk.len]⟩
    · obtain ⟨F, h1, _, h3, _⟩ := compoundRel_pos L c.strand 0 Bf.length .plus hsu (by omega) hdle
      refine ⟨_, by simpa [relInterval] using h1, ?_⟩
      rw [locLen_toSingleIfOne]
      have := h3.length_eq
      rw [basesPlus_length] at this
      simp only [List.drop_zero, Nat.sub_zero, List.length_take, bases_length, Loc.len] at this
      simp only; omega
  obtain ⟨five, hf1, hf2⟩ := hfive
  unfold calculateFrameOffset
  rw [hanc]
  simp only [bind, Except.bind, hp2r, hf1, hf2]
  have := phase_frame_offset ((Bf.length : Nat) : Int)
  simpa [bind, Except.bind, pure, Except.pure] using this

end BioCantor.Proofs
