/-
  C06, introns: `chromosome_gaps_location` covers exactly the positions of the span that no exon covers.
-/
import BioCantor.Proofs.TxSpan
set_option linter.unusedSimpArgs false
namespace BioCantor.Proofs
open BioCantor BioCantor.Spec BioCantor.Model BioCantor.Model.Transcript

/-! ### `_combine_blocks(preserve_overlappers=False)` on an ordered layout behaves like `True` -/

theorem combineLoop_false_cons (bs : List Blk) (c : Blk) (tl : List Blk) (nd : Bool)
    (hle : ∀ b ∈ bs, c.2 ≤ b.1) (hp : bs.Pairwise (fun a b => a.2 ≤ b.1)) (hv : ∀ b ∈ bs, b.1 ≤ b.2) :
    combineLoop false bs (some c.2) (c :: tl) nd = combineLoop true bs (some c.2) (c :: tl) nd := by
  induction bs generalizing c tl nd with
  | nil => simp [combineLoop]
  | cons b bs ih =>
    rw [List.pairwise_cons] at hp
    have hle' : ∀ x ∈ bs, c.2 ≤ x.1 := fun x hx => hle x (List.mem_cons_of_mem _ hx)
    have hv' : ∀ x ∈ bs, x.1 ≤ x.2 := fun x hx => hv x (List.mem_cons_of_mem _ hx)
    have hcb : c.2 ≤ b.1 := hle b (by simp)
    have hb : b.1 ≤ b.2 := hv b (by simp)
    unfold combineLoop
    by_cases h0 : b.2 - b.1 = 0
    · simp only [h0, if_true]
      exact ih c tl true hle' hp.2 hv'
    · simp only [h0, if_false]
      by_cases h1 : c.2 = b.1
      · have h2 : c.2 ≥ b.1 := by omega
        simp only [h1, h2, if_true, Bool.false_eq_true, if_false, ge_iff_le, Nat.le_refl]
        have := ih (c.1, max c.2 b.2) tl true
          (fun x hx => by have := hle' x hx; have := hp.1 x hx; simp only; omega) hp.2 hv'
        simpa [h1] using this
      · have h2 : ¬ c.2 ≥ b.1 := by omega
        simp only [h1, h2, if_false, Bool.false_eq_true]
        exact ih b (c :: tl) nd (fun x hx => hp.1 x hx) hp.2 hv'

theorem combineLoop_false_nil (bs : List Blk) (cur : Option Nat) (nd : Bool)
    (hp : bs.Pairwise (fun a b => a.2 ≤ b.1)) (hv : ∀ b ∈ bs, b.1 ≤ b.2) :
    combineLoop false bs cur [] nd = combineLoop true bs cur [] nd := by
  induction bs generalizing cur nd with
  | nil => simp [combineLoop]
  | cons b bs ih =>
    rw [List.pairwise_cons] at hp
    have hv' : ∀ x ∈ bs, x.1 ≤ x.2 := fun x hx => hv x (List.mem_cons_of_mem _ hx)
    unfold combineLoop
    by_cases h0 : b.2 - b.1 = 0
    · simp only [h0, if_true]
      exact ih cur true hp.2 hv'
    · simp only [h0, if_false]
      have := combineLoop_false_cons bs b [] nd (fun x hx => hp.1 x hx) hp.2 hv'
      cases cur <;> simpa using this

theorem optimizeLoc_false_eq (bs : List Blk) (st : Strand)
    (hp : bs.Pairwise (fun a b => a.2 ≤ b.1)) (hv : ∀ b ∈ bs, b.1 ≤ b.2) :
    optimizeLoc false ⟨bs, st⟩ = optimizeLoc true ⟨bs, st⟩ := by
  unfold optimizeLoc
  rw [combineLoop_false_nil bs none false hp hv]

/-! ### what merging adjacent blocks leaves -/

/-- strictly separated: each block ends before the next begins -/
def Gapped (N : List Blk) : Prop := N.Pairwise (fun a b => a.2 < b.1)

theorem comb_gapped (c : Blk) (bs : List Blk) (hc : c.1 < c.2)
    (hle : ∀ b ∈ bs, c.2 ≤ b.1) (hp : bs.Pairwise (fun a b => a.2 ≤ b.1)) (hpos : ∀ b ∈ bs, b.1 < b.2) :
    Gapped (comb c bs) ∧ ∀ x ∈ comb c bs, c.1 ≤ x.1 := by
  induction bs generalizing c with
  | nil => simp [comb, Gapped]
  | cons b bs ih =>
    rw [List.pairwise_cons] at hp
    have hle' : ∀ x ∈ bs, c.2 ≤ x.1 := fun x hx => hle x (List.mem_cons_of_mem _ hx)
    have hpos' : ∀ x ∈ bs, x.1 < x.2 := fun x hx => hpos x (List.mem_cons_of_mem _ hx)
    have hcb : c.2 ≤ b.1 := hle b (by simp)
    have hb : b.1 < b.2 := hpos b (by simp)
    unfold comb
    have h0 : ¬ (b.2 - b.1 = 0) := by omega
    simp only [h0, if_false]
    by_cases h1 : c.2 = b.1
    · simp only [h1, if_true]
      have := ih (c.1, max b.1 b.2) (by simp only; omega)
        (fun x hx => by have := hp.1 x hx; simp only; omega) hp.2 hpos'
      exact this
    · simp only [h1, if_false]
      obtain ⟨g, lb⟩ := ih b hb (fun x hx => hp.1 x hx) hp.2 hpos'
      refine ⟨?_, ?_⟩
      · unfold Gapped; rw [List.pairwise_cons]
        exact ⟨fun x hx => by have := lb x hx; omega, g⟩
      · intro x hx
        rcases List.mem_cons.1 hx with rfl | hx
        · exact Nat.le_refl _
        · have := lb x hx; omega

theorem maxEndS_comb (c : Blk) (bs : List Blk) (hpos : ∀ b ∈ bs, b.1 < b.2) :
    maxEndS (comb c bs) = max c.2 (maxEndS bs) := by
  induction bs generalizing c with
  | nil => simp [comb, maxEndS]
  | cons b bs ih =>
    have hpos' : ∀ x ∈ bs, x.1 < x.2 := fun x hx => hpos x (List.mem_cons_of_mem _ hx)
    have hb : b.1 < b.2 := hpos b (by simp)
    unfold comb
    have h0 : ¬ (b.2 - b.1 = 0) := by omega
    simp only [h0, if_false]
    by_cases h1 : c.2 = b.1
    · simp only [h1, if_true, ih _ hpos', maxEndS]; omega
    · simp only [h1, if_false, maxEndS, ih _ hpos']

/-! ### gaps of a strictly separated layout -/

/-- the gap between two consecutive blocks, as `gap_list` computes it (symmetric in its arguments) -/
def gapOf (a b : Blk) : Blk := (min a.2 b.2, max a.1 b.1)

theorem gapOf_comm (a b : Blk) : gapOf a b = gapOf b a := by
  unfold gapOf; rw [Nat.min_comm, Nat.max_comm]

def gapsOf : List Blk → List Blk
  | a :: b :: r => gapOf a b :: gapsOf (b :: r)
  | _ => []

theorem gapsOf_snoc (S : List Blk) (l x : Blk) :
    gapsOf (S ++ [l] ++ [x]) = gapsOf (S ++ [l]) ++ [gapOf l x] := by
  induction S with
  | nil => simp [gapsOf]
  | cons a S ih =>
    cases S with
    | nil => simp [gapsOf]
    | cons b S' =>
      simp only [List.cons_append, gapsOf] at ih ⊢
      rw [ih]

theorem gapsOf_reverse (N : List Blk) : gapsOf N.reverse = (gapsOf N).reverse := by
  induction N with
  | nil => rfl
  | cons a N ih =>
    cases N with
    | nil => rfl
    | cons b N' =>
      have e : (a :: b :: N').reverse = N'.reverse ++ [b] ++ [a] := by simp
      rw [e, gapsOf_snoc]
      have e2 : N'.reverse ++ [b] = (b :: N').reverse := by simp
      rw [e2, ih]
      simp [gapsOf, gapOf_comm a b]

/-- the loop of `gap_list`: every `SingleInterval(gap_start, gap_end)` it builds is valid when the
    consecutive blocks are disjoint -/
theorem gapWalk_ok (st : Strand) (S : List Blk)
    (h : ∀ g ∈ gapsOf S, g.1 ≤ g.2) : gapWalk st S = .ok (gapsOf S) := by
  induction S with
  | nil => rfl
  | cons a S ih =>
    cases S with
    | nil => rfl
    | cons b S' =>
      have h1 : (gapOf a b).1 ≤ (gapOf a b).2 := h _ (by simp [gapsOf])
      have ih' := ih (fun g hg => h g (by simp [gapsOf, hg]))
      unfold gapWalk
      rw [ih']
      unfold gapOf at h1
      simp only at h1
      have c : (0 : Int) ≤ ((min a.2 b.2 : Nat) : Int) ∧ ((min a.2 b.2 : Nat) : Int) ≤ ((max a.1 b.1 : Nat) : Int) := by
        omega
      simp only [mkSingle, c, and_self, if_true, bind, Except.bind, pure, Except.pure, locBlocks, gapsOf,
        gapOf, Int.toNat_natCast]
      rfl

theorem gapOf_gapped (a b : Blk) (ha : a.1 < a.2) (hb : b.1 < b.2) (h : a.2 < b.1) : gapOf a b = (a.2, b.1) := by
  unfold gapOf
  have : min a.2 b.2 = a.2 := by omega
  have : max a.1 b.1 = b.1 := by omega
  simp [*]

theorem range'_split (s m e : Nat) (h1 : s ≤ m) (h2 : m ≤ e) :
    List.range' s (e - s) = List.range' s (m - s) ++ List.range' m (e - m) := by
  have e1 : List.range' m (e - m) = List.range' (s + (m - s)) (e - m) := by congr 1; omega
  rw [e1, List.range'_append_1]
  congr 1; omega

/-- positions of the span of a strictly separated layout that no block covers = its gaps, in order -/
theorem gaps_bases (a : Blk) (N : List Blk) (hg : Gapped (a :: N)) (hpos : ∀ x ∈ a :: N, x.1 < x.2) :
    basesPlus (gapsOf (a :: N)) =
      (List.range' a.1 (maxEndS (a :: N) - a.1)).filter (fun p => !coversBlocks (a :: N) p) := by
  induction N generalizing a with
  | nil =>
    simp only [gapsOf, basesPlus, maxEndS]
    symm
    rw [List.filter_eq_nil_iff]
    intro p hp
    rw [List.mem_range'_1] at hp
    have := hpos a (by simp)
    simp [coversBlocks]; omega
  | cons b N ih =>
    unfold Gapped at hg
    rw [List.pairwise_cons] at hg
    have ha : a.1 < a.2 := hpos a (by simp)
    have hb : b.1 < b.2 := hpos b (by simp)
    have hab : a.2 < b.1 := hg.1 b (by simp)
    have ih' := ih b hg.2 (fun x hx => hpos x (List.mem_cons_of_mem _ hx))
    have hmb : b.2 ≤ maxEndS (b :: N) := by simp [maxEndS]; omega
    have hm : maxEndS (a :: b :: N) = maxEndS (b :: N) := by
      simp only [maxEndS] at hmb ⊢; omega
    have hsplit : List.range' a.1 (maxEndS (b :: N) - a.1) =
        List.range' a.1 (a.2 - a.1) ++ (List.range' a.2 (b.1 - a.2) ++ List.range' b.1 (maxEndS (b :: N) - b.1)) := by
      rw [range'_split a.1 a.2 _ (by omega) (by omega), range'_split a.2 b.1 _ (by omega) (by omega)]
    simp only [gapsOf, basesPlus]
    rw [hm, hsplit, List.filter_append, List.filter_append, gapOf_gapped a b ha hb hab, ih']
    have e1 : (List.range' a.1 (a.2 - a.1)).filter (fun p => !coversBlocks (a :: b :: N) p) = [] := by
      rw [List.filter_eq_nil_iff]
      intro p hp
      rw [List.mem_range'_1] at hp
      simp [coversBlocks]; omega
    have e2 : (List.range' a.2 (b.1 - a.2)).filter (fun p => !coversBlocks (a :: b :: N) p)
        = List.range' a.2 (b.1 - a.2) := by
      rw [List.filter_eq_self]
      intro p hp
      rw [List.mem_range'_1] at hp
      simp only [Bool.not_eq_true', ← Bool.not_eq_true]
      intro hc
      simp only [coversBlocks, List.any_cons, Bool.or_eq_true, Bool.and_eq_true, decide_eq_true_eq,
        List.any_eq_true] at hc
      rcases hc with hc | hc | ⟨x, hx, hc⟩
      · omega
      · omega
      · have := (List.pairwise_cons.1 hg.2).1 x hx
        omega
    have e3 : (List.range' b.1 (maxEndS (b :: N) - b.1)).filter (fun p => !coversBlocks (a :: b :: N) p)
        = (List.range' b.1 (maxEndS (b :: N) - b.1)).filter (fun p => !coversBlocks (b :: N) p) := by
      apply List.filter_congr
      intro p hp
      rw [List.mem_range'_1] at hp
      have : (decide (a.1 ≤ p) && decide (p < a.2)) = false := by
        simp only [Bool.and_eq_false_iff, decide_eq_false_iff_not]; omega
      simp only [coversBlocks, List.any_cons, this, Bool.false_or]
    rw [e1, e2, e3]
    simp [blkAsc]

theorem gapsOf_valid (N : List Blk) (hg : Gapped N) (hpos : ∀ x ∈ N, x.1 < x.2) :
    ∀ g ∈ gapsOf N, g.1 < g.2 := by
  induction N with
  | nil => simp [gapsOf]
  | cons a N ih =>
    cases N with
    | nil => simp [gapsOf]
    | cons b N' =>
      unfold Gapped at hg
      rw [List.pairwise_cons] at hg
      have ha := hpos a (by simp)
      have hb := hpos b (by simp)
      have hab := hg.1 b (by simp)
      intro g hgm
      simp only [gapsOf, List.mem_cons] at hgm
      rcases hgm with rfl | hgm
      · rw [gapOf_gapped a b ha hb hab]; exact hab
      · exact ih hg.2 (fun x hx => hpos x (List.mem_cons_of_mem _ hx)) g hgm

/-! ### sorting facts for the comparison of position sets -/

theorem insertSorted_le_head (x : Nat) (l : List Nat) (h : ∀ y ∈ l, x ≤ y) : insertSorted x l = x :: l := by
  cases l with
  | nil => rfl
  | cons y ys => simp [insertSorted, h y (by simp)]

theorem sortNat_sorted (l : List Nat) (h : l.Pairwise (· < ·)) : sortNat l = l := by
  induction l with
  | nil => rfl
  | cons x xs ih =>
    rw [List.pairwise_cons] at h
    simp only [sortNat, ih h.2]
    exact insertSorted_le_head x xs (fun y hy => Nat.le_of_lt (h.1 y hy))

/-! ### `gap_list` of a transcript's exon location -/

/-- exons in the scope of the intron clause: ordered, non-overlapping, none empty -/
structure ExonScope (bs : List Blk) (st : Strand) : Prop where
  dir : st = .plus ∨ st = .minus
  ne : bs ≠ []
  ordered : bs.Pairwise (fun a b => a.2 ≤ b.1)
  pos : ∀ b ∈ bs, b.1 < b.2

theorem combStart_facts (bs : List Blk) (st : Strand) (h : ExonScope bs st) :
    ∃ a N, combStart bs = a :: N ∧ Gapped (a :: N) ∧ (∀ x ∈ a :: N, x.1 < x.2) ∧
      a.1 = minStart bs ∧ maxEndS (a :: N) = maxEndS bs ∧
      (∀ p, coversBlocks (a :: N) p = coversBlocks bs p) ∧ sortBlocks st bs = bs ∧
      sortBlocks st (a :: N) = a :: N := by
  obtain ⟨hdir, hne, hp, hpos⟩ := h
  cases bs with
  | nil => exact absurd rfl hne
  | cons b0 bs' =>
    have hb0 := hpos b0 (by simp)
    rw [List.pairwise_cons] at hp
    have hpos' : ∀ x ∈ bs', x.1 < x.2 := fun x hx => hpos x (List.mem_cons_of_mem _ hx)
    have hcs : combStart (b0 :: bs') = comb b0 bs' := by
      unfold combStart
      have : ¬ (b0.2 - b0.1 = 0) := by omega
      simp [this]
    obtain ⟨e, rest, hce, _⟩ := comb_head b0 bs' hb0
    obtain ⟨hg, _⟩ := comb_gapped b0 bs' hb0 (fun x hx => hp.1 x hx) hp.2 hpos'
    have hNpos : ∀ x ∈ comb b0 bs', x.1 < x.2 := by
      have := combStart_normal (b0 :: bs')
      rw [hcs] at this
      exact normal_pos _ this
    have hv : ∀ x ∈ b0 :: bs', x.1 ≤ x.2 := fun x hx => Nat.le_of_lt (hpos x hx)
    have hfst : (b0 :: bs').Pairwise (fun a b => a.1 < b.1) :=
      fst_lt_of_asc _ (List.pairwise_cons.2 hp) hpos
    have hsorted : sortBlocks st (b0 :: bs') = b0 :: bs' := sortBlocks_of_fst_lt st hfst
    have hsorted' : sortedBy (blkLe st) (b0 :: bs') = true :=
      sortedBy_of_pairwise _ _ (fst_lt_blkLe st _ hfst)
    refine ⟨(b0.1, e), rest, by rw [hcs, hce], by rw [← hce]; exact hg, by rw [← hce]; exact hNpos,
      (minStart_sorted st b0 bs' hsorted').symm, ?_, ?_, hsorted, ?_⟩
    · rw [← hce, maxEndS_comb b0 bs' hpos']; rfl
    · intro p
      have hb := combStart_bases (b0 :: bs') hv
      rw [hcs, hce] at hb
      rw [Bool.eq_iff_iff, ← mem_basesPlus, ← mem_basesPlus, hb]
    · rw [← hce]
      apply sortBlocks_of_fst_lt
      have hg' : (comb b0 bs').Pairwise (fun a b => a.2 ≤ b.1) := hg.imp (fun h => Nat.le_of_lt h)
      exact fst_lt_of_asc _ hg' hNpos

theorem gapList_eq (bs : List Blk) (st : Strand) (h : ExonScope bs st) :
    ∃ a N, combStart bs = a :: N ∧
      gapList ⟨bs, st⟩ = .ok (if st = .plus then gapsOf (a :: N) else (gapsOf (a :: N)).reverse) := by
  obtain ⟨a, N, hcs, hg, hNpos, _, _, _, hsorted, hsortedN⟩ := combStart_facts bs st h
  refine ⟨a, N, hcs, ?_⟩
  have hv : ∀ b ∈ bs, b.1 ≤ b.2 := fun b hb => Nat.le_of_lt (h.pos b hb)
  unfold gapList
  rw [optimizeLoc_false_eq bs st h.ordered hv,
    optimizeLoc_true_ok bs st hsorted (by rw [hcs]; simp), hcs, hsortedN]
  have hval := gapsOf_valid (a :: N) hg hNpos
  cases N with
  | nil => simp [toSingleIfOne, bind, Except.bind, pure, Except.pure, gapsOf]
  | cons b N' =>
    simp only [toSingleIfOne, bind, Except.bind, scanBlocks, assertDirectional, h.dir, if_true, pure,
      Except.pure]
    rcases h.dir with hs | hs
    · subst hs
      simp only [if_true]
      exact gapWalk_ok .plus _ (fun g hg => Nat.le_of_lt (hval g hg))
    · subst hs
      simp only [show ¬ (Strand.minus = Strand.plus) by decide, if_false]
      rw [gapWalk_ok .minus _ (by
        rw [gapsOf_reverse]
        intro g hg
        exact Nat.le_of_lt (hval g (List.mem_reverse.1 hg)))]
      rw [gapsOf_reverse]

theorem bases_perm_basesPlus (X : List Blk) (st : Strand) : (bases ⟨X, st⟩).Perm (basesPlus X) := by
  rw [bases_mk]; split
  · exact List.reverse_perm _
  · exact .refl _

theorem exonScope_of (t : Transcript) (h : WFT t)
    (hsc : (txScope (specOf t) && noEmptyBlock (specOf t).E.blocks) = true) :
    ExonScope t.exons.blocks t.exons.strand := by
  rw [Bool.and_eq_true] at hsc
  obtain ⟨h1, h2⟩ := hsc
  unfold txScope at h1
  simp only [Bool.and_eq_true] at h1
  have hE : (specOf t).E = t.exons := rfl
  rw [hE] at h1 h2
  obtain ⟨⟨hd, hno⟩, _⟩ := h1
  refine ⟨?_, h.exons.1, nonOverlap_pairwise _ ((blocksValid_iff _).1 h.exons.2.1) hno, ?_⟩
  · cases hs : t.exons.strand <;> simp [hs, Strand.isDirectional] at hd ⊢
  · intro b hb
    unfold noEmptyBlock at h2
    rw [List.all_eq_true] at h2
    simpa using h2 b hb

theorem introns_ok (t : Transcript) (h : WFT t) (hne : noEmptyBlock t.exons.blocks = true) :
    okIntrons (specOf t) (ans t.chromosomeGapsLocation) = true := by
  unfold okIntrons
  by_cases hsc : txScope (specOf t) = true
  · simp only [hsc, not_true_eq_false, if_false]
    have hscope := exonScope_of t h (by rw [Bool.and_eq_true]; exact ⟨hsc, hne⟩)
    have hE : (specOf t).E = t.exons := rfl
    rw [hE]
    generalize hbs : t.exons = E at *
    obtain ⟨bs, st⟩ := E
    simp only at hscope
    obtain ⟨a, N, hcs, hgl⟩ := gapList_eq bs st hscope
    obtain ⟨a', N', hcs', hg, hNpos, hlo, hhi, hcov, _, _⟩ := combStart_facts bs st hscope
    rw [hcs] at hcs'
    cases hcs'
    have hwant : basesPlus (gapsOf (a :: N)) =
        (List.range' (minStart bs) (maxEndS bs - minStart bs)).filter (fun p => !covers ⟨bs, st⟩ p) := by
      rw [gaps_bases a N hg hNpos, hlo, hhi]
      apply List.filter_congr
      intro p _
      simp only [covers, hcov p]
    have hval := gapsOf_valid (a :: N) hg hNpos
    have hsortedWant : ((List.range' (minStart bs) (maxEndS bs - minStart bs)).filter
        (fun p => !covers ⟨bs, st⟩ p)).Pairwise (· < ·) :=
      (List.pairwise_lt_range' 1).sublist List.filter_sublist
    unfold chromosomeGapsLocation gapsLocation
    rw [hbs, hgl]
    generalize hG : gapsOf (a :: N) = G at *
    -- the walked gap list is G or its reverse
    have hgs : ∃ gs, (if st = Strand.plus then G else G.reverse) = gs ∧ gs.Perm G ∧ (gs = [] ↔ G = []) := by
      split
      · exact ⟨G, rfl, .refl _, Iff.rfl⟩
      · exact ⟨G.reverse, rfl, List.reverse_perm _, by simp⟩
    obtain ⟨gs, hgse, hperm, hnil⟩ := hgs
    rw [hgse]
    simp only [bind, Except.bind]
    cases hgsc : gs with
    | nil =>
      have hGn : G = [] := hnil.1 hgsc
      rw [hGn] at hwant
      simp only [basesPlus] at hwant
      simp [← hwant, utrShapeOk, wfLocation, locationBases, sortNat, pure, Except.pure]
    | cons g0 gr =>
      have hne : gs ≠ [] := by rw [hgsc]; simp
      rw [← hgsc]
      have hgsv : ∀ b ∈ gs, b.1 ≤ b.2 := fun b hb => Nat.le_of_lt (hval b (hperm.mem_iff.1 hb))
      have hemp : gs.isEmpty = false := by rw [hgsc]; rfl
      simp only [hemp, Bool.false_eq_true, if_false, mkCompound, mkCompoundLoc_ok st hne hgsv, bind,
        Except.bind, pure, Except.pure, ans_ok]
      have hcanon := canon_sortBlocks st hne hgsv
      have hb1 : (bases ⟨sortBlocks st gs, st⟩).Perm (basesPlus G) :=
        (bases_perm_basesPlus _ st).trans ((basesPlus_perm (sortBlocks_perm st gs)).trans (basesPlus_perm hperm))
      have hsn : sortNat (bases ⟨sortBlocks st gs, st⟩) =
          (List.range' (minStart bs) (maxEndS bs - minStart bs)).filter (fun p => !covers ⟨bs, st⟩ p) := by
        rw [sortNat_perm hb1, hwant, sortNat_sorted _ hsortedWant]
      have hwne : ((List.range' (minStart bs) (maxEndS bs - minStart bs)).filter
          (fun p => !covers ⟨bs, st⟩ p)).isEmpty = false := by
        rw [← hwant]
        have hg0 : g0 ∈ G := hperm.mem_iff.1 (by rw [hgsc]; simp)
        have := hval g0 hg0
        have hm : g0.1 ∈ basesPlus G := by
          rw [mem_basesPlus]
          simp only [coversBlocks, List.any_eq_true, Bool.and_eq_true, decide_eq_true_eq]
          exact ⟨g0, hg0, Nat.le_refl _, this⟩
        cases hq : basesPlus G with
        | nil => rw [hq] at hm; cases hm
        | cons _ _ => rfl
      simp [utrShapeOk, wfLocation, hcanon, locationStrand?, locationBases, hsn, hwne]
  · simp [hsc]

/-- F-C06a: a zero-length first exon — the modelled `gap_list` reports no intron -/
theorem gaps_zero_length_first_exon : gapsLocation ⟨[(0, 0), (3, 5)], .plus⟩ = .ok .empty := by
  simp [gapsLocation, gapList, optimizeLoc, combineLoop, mkCompoundLoc, sortBlocks, blocksValid, toSingleIfOne,
    bind, Except.bind, pure, Except.pure]

/-! ### introns ∪ exons = span, position by position -/

theorem mem_insertSorted (x y : Nat) (l : List Nat) : x ∈ insertSorted y l ↔ x = y ∨ x ∈ l := by
  induction l with
  | nil => simp [insertSorted]
  | cons z zs ih =>
    simp only [insertSorted]
    split
    · simp
    · simp only [List.mem_cons, ih]
      constructor
      · rintro (h | h | h)
        · exact Or.inr (Or.inl h)
        · exact Or.inl h
        · exact Or.inr (Or.inr h)
      · rintro (h | h | h)
        · exact Or.inr (Or.inl h)
        · exact Or.inl h
        · exact Or.inr (Or.inr h)

theorem mem_sortNat (x : Nat) (l : List Nat) : x ∈ sortNat l ↔ x ∈ l := by
  induction l with
  | nil => simp [sortNat]
  | cons y ys ih => simp only [sortNat, mem_insertSorted, ih, List.mem_cons]

theorem covers_in_span (bs : List Blk) (p : Nat) (h : coversBlocks bs p = true) :
    minStart bs ≤ p ∧ p < maxEndS bs := by
  induction bs with
  | nil => simp [coversBlocks] at h
  | cons b bs ih =>
    simp only [coversBlocks, List.any_cons, Bool.or_eq_true, Bool.and_eq_true, decide_eq_true_eq] at h
    cases bs with
    | nil =>
      simp only [List.any_nil, Bool.false_eq_true, or_false] at h
      simp only [minStart, maxEndS]; omega
    | cons c cs =>
      simp only [minStart, maxEndS]
      rcases h with h | h
      · omega
      · have := ih (by simpa [coversBlocks] using h)
        simp only [maxEndS] at this
        omega

/-- the positions of the span are exactly the intron positions together with the exon positions, and no position
    is both -/
theorem introns_exons_partition (t : Transcript) (h : WFT t) (hne : noEmptyBlock t.exons.blocks = true)
    (hsc : txScope (specOf t) = true) :
    ∃ g, t.chromosomeGapsLocation = .ok g ∧
      (∀ p, (p ∈ locationBases g ∨ covers t.exons p = true) ↔
        (minStart t.exons.blocks ≤ p ∧ p < maxEndS t.exons.blocks)) ∧
      (∀ p, ¬ (p ∈ locationBases g ∧ covers t.exons p = true)) := by
  have hok := introns_ok t h hne
  unfold okIntrons at hok
  have hE : (specOf t).E = t.exons := rfl
  simp only [hsc, not_true_eq_false, if_false, hE] at hok
  cases ha : ans t.chromosomeGapsLocation with
  | none => rw [ha] at hok; cases hok
  | some g =>
    rw [ha] at hok
    simp only [Bool.and_eq_true, beq_iff_eq] at hok
    obtain ⟨⟨_, hs⟩, _⟩ := hok
    refine ⟨g, (ans_eq_some _ _).1 ha, ?_, ?_⟩
    · intro p
      rw [← mem_sortNat, hs]
      simp only [List.mem_filter, List.mem_range'_1, Bool.not_eq_true', ← Bool.not_eq_true]
      constructor
      · rintro (⟨h1, _⟩ | h1)
        · omega
        · exact covers_in_span _ p h1
      · intro h1
        by_cases hc : covers t.exons p = true
        · exact Or.inr hc
        · exact Or.inl ⟨by omega, hc⟩
    · intro p ⟨h1, h2⟩
      rw [← mem_sortNat, hs] at h1
      simp only [List.mem_filter, Bool.not_eq_true', ← Bool.not_eq_true] at h1
      exact h1.2 h2

end BioCantor.Proofs
