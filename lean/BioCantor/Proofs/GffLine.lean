/-
  C11 / T5 (line level) — every rendered row parses back, by the Spec's line syntax, to its own columns and to the
  decoded (tag, values) pairs of its attribute column.
-/
import BioCantor.Proofs.GffAttrs
namespace BioCantor.Proofs.GffLine
open BioCantor BioCantor.Model.Gff BioCantor.Proofs.GffRows BioCantor.Proofs.GffAttrs
open BioCantor.Spec.Gff (Str Quals splitOnChar parseNat parseStrand parsePhase parseAttrs parseLine PRow digitsVal isDigit)

theorem digitsVal_append (a : Str) (c : Char) (acc : Nat) :
    digitsVal (a ++ [c]) acc = 10 * digitsVal a acc + (c.toNat - 48) := by
  induction a generalizing acc with
  | nil => simp [digitsVal]
  | cons d rest ih => simp only [List.cons_append, digitsVal]; exact ih _

theorem digitsVal_reverse (l : Str) : digitsVal l.reverse 0 = valRev l := by
  induction l with
  | nil => simp [digitsVal, valRev]
  | cons c rest ih =>
    rw [List.reverse_cons, digitsVal_append, ih]
    simp only [valRev]; omega

theorem digit_isDigit : ∀ d : Nat, d < 10 → isDigit (Char.ofNat (48 + d)) = true := by decide

theorem digitsRev_isDigit (fuel n : Nat) : ∀ c ∈ digitsRev fuel n, isDigit c = true := by
  induction fuel generalizing n with
  | zero => intro c hc; simp [digitsRev] at hc
  | succ f ih =>
    intro c hc
    simp only [digitsRev, List.mem_cons] at hc
    rcases hc with rfl | hc
    · exact digit_isDigit _ (Nat.mod_lt _ (by decide))
    · split at hc
      · simp at hc
      · exact ih _ c hc

/-- `int(str(n)) = n` for the model's decimal rendering and the Spec's reader -/
theorem parseNat_natStr (n : Nat) : parseNat (natStr n) = some n := by
  unfold parseNat
  have hne := natStr_ne_nil n
  have hall : (natStr n).all isDigit = true := by
    rw [List.all_eq_true]
    intro c hc
    exact digitsRev_isDigit _ _ c (List.mem_reverse.mp hc)
  simp only [ne_eq, hne, not_false_eq_true, hall, and_self, if_true]
  unfold natStr
  rw [digitsVal_reverse, valRev_digitsRev _ _ (by omega)]

theorem parseStrand_symbol (s : Strand) : parseStrand (strandSymbol s) = some s := by
  cases s <;> rfl

def phaseNat : CDSPhase → Option Nat
  | .NONE => none | .ZERO => some 0 | .ONE => some 1 | .TWO => some 2

theorem parsePhase_toGff (p : CDSPhase) : parsePhase (phaseToGff p) = some (phaseNat p) := by
  cases p <;> rfl

/-- T5 (line): the Spec's reader applied to a rendered row returns that row's columns and the decoded pairs of its
    attribute column. -/
theorem parseLine_rowStr (r : Row) (line : Str) (h : rowStr r = .ok line)
    (hseq : noSep r.seqid) (hne : r.seqid ≠ []) (h1 : 1 ≤ r.start) (h2 : r.start ≤ r.stop)
    (hkeys : ∀ kv ∈ r.attrs.quals, kv.1 ≠ []) :
    ∃ tail, qualPairs r.attrs.raiseOnReserved (sortQuals r.attrs.quals) = .ok tail ∧
      parseLine line = some ⟨r.seqid, gffSource, r.type.value, r.start, r.stop, nullColumn, r.strand,
                             phaseNat r.phase, (headPairs r.attrs ++ tail).map decodePair⟩ := by
  obtain ⟨a, ha, _, hsplit⟩ := rowStr_nine_columns r line h hseq
  obtain ⟨tail, htail, hparse⟩ := attrsStr_parses r.attrs a ha hkeys
  refine ⟨tail, htail, ?_⟩
  unfold parseLine
  rw [hsplit]
  simp only [parseNat_natStr, parseStrand_symbol, parsePhase_toGff, hparse]
  have ht : r.type.value ≠ [] := by cases r.type <;> simp [RowType.value]
  simp [hne, ht, h1, h2, gffSource, nullColumn]

end BioCantor.Proofs.GffLine
