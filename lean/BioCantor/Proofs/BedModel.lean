/- Helper lemmas for C14: the exporter model (`Model.Bed.txCore` / `featCore`) meets `Spec.Bed.okBed12`. -/
import BioCantor.Proofs.BedCodec
namespace BioCantor.Proofs.Bed
open BioCantor BioCantor.Spec.Bed BioCantor.Model.Bed

/-! ### the layouts C14 quantifies over -/

/-- non-empty blocks, ascending, non-overlapping (0-bp gaps allowed) -/
def good : List Blk → Bool
  | [] => true
  | [a] => decide (a.1 < a.2)
  | a :: b :: rest => decide (a.1 < a.2) && decide (a.2 ≤ b.1) && good (b :: rest)

/-- the parent's window contains every block (`true` when there is no chunk parent) -/
def inWindow (p : Par) (bs : List Blk) : Bool :=
  match p with
  | .chunk cs ce => bs.all (fun b => decide (cs ≤ b.1) && decide (b.2 ≤ ce))
  | _ => true

/-- origin of the coordinate system of the export -/
def offOf (chromRel : Bool) (p : Par) : Nat :=
  if chromRel then 0 else match p with | .chunk cs _ => cs | _ => 0

/-- a constructed interval in the property's domain -/
def wf (x : Iv) : Bool :=
  match x.exons with
  | [] => false
  | e0 :: erest =>
    good (e0 :: erest) && inWindow x.par (e0 :: erest) &&
    match x.cds with
    | none => true
    | some [] => false
    | some (c0 :: crest) =>
      good (c0 :: crest) && decide (e0.1 ≤ c0.1) && decide ((lastOf c0 crest).2 ≤ (lastOf e0 erest).2)

/-- the exported content, as the property phrases it -/
def wantOf (x : Iv) (score : Nat) (rgb : Nat × Nat × Nat) (sel : NameSel) (chromRel : Bool) : Want :=
  { exons := x.exons, strand := x.strand, cds := x.cds.bind spanOf,
    chrom := optStr x.seqName, name := optStr (selName x sel), score := score, rgb := rgb,
    off := offOf chromRel x.par,
    mayRefuse := !chromRel && (match x.par with | .chunk _ _ => false | _ => true) }

/-! ### facts about good block lists -/

theorem good_tail {a : Blk} {l : List Blk} (h : good (a :: l) = true) : good l = true := by
  cases l with
  | nil => rfl
  | cons b r => simp only [good, Bool.and_eq_true] at h; exact h.2

theorem good_head {a : Blk} {l : List Blk} (h : good (a :: l) = true) : a.1 < a.2 := by
  cases l with
  | nil => simpa [good] using h
  | cons b r => simp only [good, Bool.and_eq_true, decide_eq_true_eq] at h; exact h.1.1

/-- every block of a good list lies between the first start and the last end -/
theorem good_bounds (a : Blk) (l : List Blk) (h : good (a :: l) = true) :
    ∀ b ∈ a :: l, a.1 ≤ b.1 ∧ b.1 < b.2 ∧ b.2 ≤ (lastOf a l).2 := by
  induction l generalizing a with
  | nil => intro b hb; simp only [List.mem_singleton] at hb; subst hb
           have := good_head h; simp only [lastOf]; omega
  | cons c r ih =>
    intro b hb
    have hh := h
    simp only [good, Bool.and_eq_true, decide_eq_true_eq] at hh
    have hc := ih c hh.2
    simp only [lastOf]
    rcases List.mem_cons.mp hb with rfl | hb'
    · have := hc c (by simp); omega
    · have := hc b hb'; omega

theorem maxEnd_good (a : Blk) (l : List Blk) (h : good (a :: l) = true) : maxEnd (a :: l) = (lastOf a l).2 := by
  induction l generalizing a with
  | nil => simp [maxEnd, lastOf]
  | cons c r ih =>
    have hb := good_bounds a (c :: r) h a (by simp)
    have hh := h
    simp only [good, Bool.and_eq_true, decide_eq_true_eq] at hh
    have := ih c hh.2
    have hcb := good_bounds c r hh.2 c (by simp)
    simp only [lastOf] at hb ⊢
    unfold maxEnd; rw [this]; omega

theorem minStart_good (a : Blk) (l : List Blk) (h : good (a :: l) = true) : minStart (a :: l) = some a.1 := by
  induction l generalizing a with
  | nil => simp [minStart]
  | cons c r ih =>
    have hh := h
    simp only [good, Bool.and_eq_true, decide_eq_true_eq] at hh
    have := ih c hh.2
    unfold minStart; rw [this]; simp only [Option.some.injEq]; omega

theorem maxEndOf_good (a : Blk) (l : List Blk) (h : good (a :: l) = true) :
    maxEndOf (a :: l) = some (lastOf a l).2 := by
  induction l generalizing a with
  | nil => simp [maxEndOf, lastOf]
  | cons c r ih =>
    have hb := good_bounds a (c :: r) h a (by simp)
    have hh := h
    simp only [good, Bool.and_eq_true, decide_eq_true_eq] at hh
    have := ih c hh.2
    simp only [lastOf] at hb ⊢
    unfold maxEndOf; rw [this]; simp only [Option.some.injEq]; omega

theorem spanOf_good (a : Blk) (l : List Blk) (h : good (a :: l) = true) :
    spanOf (a :: l) = some (a.1, (lastOf a l).2) := by
  unfold spanOf; rw [minStart_good a l h, maxEndOf_good a l h]

/-! ### shifting into a window -/

def shiftDown (cs : Nat) (b : Blk) : Blk := (b.1 - cs, b.2 - cs)

theorem good_shiftDown (cs : Nat) (l : List Blk) (h : good l = true) (hw : ∀ b ∈ l, cs ≤ b.1) :
    good (l.map (shiftDown cs)) = true := by
  induction l with
  | nil => rfl
  | cons a r ih =>
    cases r with
    | nil =>
      have := good_head h; have := hw a (by simp)
      simp only [List.map, good, shiftDown, decide_eq_true_eq]; omega
    | cons b r' =>
      have hh := h
      simp only [good, Bool.and_eq_true, decide_eq_true_eq] at hh
      have h1 := hw a (by simp); have h2 := hw b (by simp)
      have := ih hh.2 (fun x hx => hw x (List.mem_cons_of_mem _ hx))
      simp only [List.map_cons] at this ⊢
      simp only [good, Bool.and_eq_true, decide_eq_true_eq]
      refine ⟨⟨?_, ?_⟩, this⟩
      · show a.1 - cs < a.2 - cs; omega
      · show a.2 - cs ≤ b.1 - cs; omega

theorem shiftUp_shiftDown (cs : Nat) (l : List Blk) (hw : ∀ b ∈ l, cs ≤ b.1 ∧ b.1 ≤ b.2) :
    (l.map (shiftDown cs)).map (shiftUp cs) = l := by
  induction l with
  | nil => rfl
  | cons a r ih =>
    have := hw a (by simp)
    simp only [List.map_cons, shiftUp, shiftDown]
    rw [ih (fun x hx => hw x (List.mem_cons_of_mem _ hx))]
    congr 1
    apply Prod.ext <;> simp <;> omega

theorem lastOf_map (f : Blk → Blk) (a : Blk) (l : List Blk) : lastOf (f a) (l.map f) = f (lastOf a l) := by
  induction l generalizing a with
  | nil => rfl
  | cons c r ih => simp only [List.map_cons, lastOf]; exact ih c

/-! ### the row built from blocks `rb` with origin `o` -/

theorem startsRel_nat (o : Nat) (l : List Blk) (h : ∀ b ∈ l, o ≤ b.1) :
    startsRel o l = (l.map (fun b => b.1 - o)).map Int.ofNat := by
  unfold startsRel
  rw [List.map_map]
  apply List.map_congr_left
  intro b hb
  have := h b hb
  simp only [Function.comp, Int.ofNat_eq_natCast]; omega

theorem zip_blocks (o : Nat) (l : List Blk) (h : ∀ b ∈ l, o ≤ b.1 ∧ b.1 ≤ b.2) :
    List.zipWith (fun st sz => (o + st, o + st + sz)) (l.map (fun b => b.1 - o)) (sizes l) = l := by
  unfold sizes
  induction l with
  | nil => rfl
  | cons a r ih =>
    have := h a (by simp)
    simp only [List.map_cons, List.zipWith_cons_cons]
    rw [ih (fun x hx => h x (List.mem_cons_of_mem _ hx))]
    congr 1
    apply Prod.ext <;> simp <;> omega

theorem ascending_starts (o : Nat) (a : Blk) (l : List Blk) (h : good (a :: l) = true) (ho : o ≤ a.1) :
    ascending ((a :: l).map (fun b => b.1 - o)) = true := by
  induction l generalizing a with
  | nil => rfl
  | cons c r ih =>
    have hh := h
    simp only [good, Bool.and_eq_true, decide_eq_true_eq] at hh
    have := ih c hh.2 (by omega)
    simp only [List.map_cons] at this ⊢
    simp only [ascending, Bool.and_eq_true, decide_eq_true_eq]
    exact ⟨by omega, this⟩

theorem getLast?_lastOf (a : Blk) (l : List Blk) : (a :: l).getLast? = some (lastOf a l) := by
  induction l generalizing a with
  | nil => rfl
  | cons c r ih => rw [List.getLast?_cons_cons]; exact ih c

theorem lastReach_row (o : Nat) (a : Blk) (l : List Blk) (h : good (a :: l) = true) (ho : o ≤ a.1) :
    lastReach ((a :: l).map (fun b => b.1 - o)) (sizes (a :: l)) = some ((lastOf a l).2 - o) := by
  unfold lastReach sizes
  rw [List.getLast?_map, List.getLast?_map, getLast?_lastOf]
  have := good_bounds a l h (lastOf a l) (by
    have := getLast?_lastOf a l
    exact List.mem_of_getLast? this)
  simp only [Option.map_some, Option.some.injEq]; omega

/-- assembling the verdict for a record built on mode-coordinate blocks `r0 :: rrest` -/
theorem ok_of_row (w : Want) (b : Bed12) (r0 : Blk) (rrest : List Blk)
    (hg : good (r0 :: rrest) = true)
    (hs : b.start = r0.1) (he : b.«end» = (lastOf r0 rrest).2)
    (hcnt : b.blockCount = (r0 :: rrest).length)
    (hsz : b.blockSizes = sizes (r0 :: rrest))
    (hst : b.blockStarts = startsRel r0.1 (r0 :: rrest))
    (hex : (r0 :: rrest).map (shiftUp w.off) = w.exons)
    (hchrom : optStr b.chrom = w.chrom) (hname : optStr b.name = w.name)
    (hscore : b.score = w.score) (hrgb : b.rgb = w.rgb) (hstrand : b.strand = w.strand)
    (htab1 : '\t' ∉ w.chrom) (htab2 : '\t' ∉ w.name)
    (hthick : (w.cds = none ∧ b.thickStart = 0 ∧ b.thickEnd = 0) ∨
              (w.cds = some (b.thickStart + w.off, b.thickEnd + w.off) ∧ r0.1 ≤ b.thickStart ∧
               b.thickStart < b.thickEnd ∧ b.thickEnd ≤ (lastOf r0 rrest).2)) :
    okBed12 w (some b.str) = true := by
  have hb := good_bounds r0 rrest hg
  have hstn := startsRel_nat r0.1 (r0 :: rrest) (fun x hx => (hb x hx).1)
  have hdec := decode_str b ((r0 :: rrest).map (fun x => x.1 - r0.1)) (hst.trans hstn)
    (by rw [hchrom]; exact htab1) (by rw [hname]; exact htab2) (by rw [hsz]; simp [sizes]) (by simp)
  have hlast := hb (lastOf r0 rrest) (List.mem_of_getLast? (getLast?_lastOf r0 rrest))
  have hinv : invariants (rowOf b ((r0 :: rrest).map (fun x => x.1 - r0.1))) = true := by
    unfold invariants rowOf
    simp only [Bool.and_eq_true, Bool.or_eq_true, decide_eq_true_eq]
    refine ⟨⟨⟨⟨⟨⟨⟨⟨?_, ?_⟩, ?_⟩, ?_⟩, ?_⟩, ?_⟩, ?_⟩, ?_⟩, ?_⟩
    · rw [hcnt, hsz]; simp [sizes]
    · rw [hcnt]; simp
    · rw [hcnt]; simp
    · simp
    · exact ascending_starts r0.1 r0 rrest hg (Nat.le_refl _)
    · rw [hs, he]; omega
    · rw [hsz, hs, he]; exact lastReach_row r0.1 r0 rrest hg (Nat.le_refl _)
    · rcases hthick with ⟨_, h, h'⟩ | ⟨_, _, h, _⟩ <;> omega
    · rcases hthick with ⟨_, h⟩ | ⟨_, h1, _, h2⟩
      · exact Or.inl h
      · right; rw [hs, he]; exact ⟨h1, h2⟩
  have hblocks : blocksOf (rowOf b ((r0 :: rrest).map (fun x => x.1 - r0.1))) = r0 :: rrest := by
    unfold blocksOf rowOf
    simp only [hs, hsz]
    exact zip_blocks r0.1 (r0 :: rrest) (fun x hx => ⟨(hb x hx).1, Nat.le_of_lt (hb x hx).2.1⟩)
  have hcds : (cdsOf (rowOf b ((r0 :: rrest).map (fun x => x.1 - r0.1)))).map (shiftUp w.off) = w.cds := by
    unfold cdsOf rowOf
    rcases hthick with ⟨h0, h, h'⟩ | ⟨h0, _, h, _⟩
    · simp only [h, h', Nat.lt_irrefl, if_false, Option.map_none]; exact h0.symm
    · simp only [h, if_true, Option.map_some, shiftUp]; exact h0.symm
  unfold okBed12
  simp only [hdec, hinv, hblocks, hcds, hex, Bool.true_and, Bool.and_eq_true, decide_eq_true_eq]
  exact ⟨⟨⟨⟨⟨⟨hchrom, hname⟩, hscore⟩, hrgb⟩, hstrand⟩, trivial⟩, trivial⟩

/-! ### the exporters -/

theorem map_shiftDown_zero (l : List Blk) : l.map (shiftDown 0) = l := by
  induction l with
  | nil => rfl
  | cons a r ih => simp only [List.map_cons, ih, shiftDown, Nat.sub_zero]

theorem map_shiftUp_zero (l : List Blk) : l.map (shiftUp 0) = l := by
  induction l with
  | nil => rfl
  | cons a r ih => simp only [List.map_cons, ih, shiftUp, Nat.add_zero]

theorem good_pos : ∀ (bs : List Blk), good bs = true → ∀ b ∈ bs, b.1 < b.2
  | [], _ => by intro b hb; simp at hb
  | [a], h => by
      intro b hb; simp only [List.mem_singleton] at hb; subst hb; simpa [good] using h
  | a :: c :: rest, h => by
      intro b hb
      rcases List.mem_cons.mp hb with rfl | hb'
      · exact good_head h
      · exact good_pos (c :: rest) (good_tail h) b hb'

theorem good_fst_lt : ∀ (bs : List Blk), good bs = true → bs.Pairwise (fun a b => a.1 < b.1)
  | [], _ => by simp
  | [a], _ => by simp
  | a :: c :: rest, h => by
      have hb := good_bounds a (c :: rest) h
      have ha := good_head h
      have hh := h
      simp only [good, Bool.and_eq_true, decide_eq_true_eq] at hh
      rw [List.pairwise_cons]
      refine ⟨?_, good_fst_lt (c :: rest) hh.2⟩
      intro y hy
      have := good_bounds c rest hh.2 y hy
      omega

theorem blkLe_of_lt (st : Strand) (a b : Blk) (h : a.1 < b.1) : blkLe st a b = true := by
  cases st <;> simp [blkLe, blkLePlus, blkLeOther, h]

theorem sortLoc_of_fst_lt (st : Strand) : ∀ (bs : List Blk), bs.Pairwise (fun a b => a.1 < b.1) → sortLoc st bs = bs
  | [], _ => rfl
  | a :: l, h => by
      rw [List.pairwise_cons] at h
      simp only [sortLoc, sortLoc_of_fst_lt st l h.2]
      cases l with
      | nil => rfl
      | cons c r => simp [insertBlk, blkLe_of_lt st a c (h.1 c (by simp))]

theorem good_sorted (st : Strand) (bs : List Blk) (hg : good bs = true) : sortLoc st bs = bs :=
  sortLoc_of_fst_lt st bs (good_fst_lt bs hg)

theorem chunkBlocks_eq (st : Strand) (p : Par) (bs : List Blk) (h : inWindow p bs = true) (hg : good bs = true) :
    chunkBlocks st p bs = some (bs.map (shiftDown (offOf false p))) := by
  have hnc := good_sorted st bs hg
  cases p with
  | none => simp [chunkBlocks, offOf, map_shiftDown_zero, hnc]
  | chromosome => simp [chunkBlocks, offOf, map_shiftDown_zero, hnc]
  | chunk cs ce =>
    have hlow : ∀ b ∈ bs, cs ≤ b.1 := by
      intro b hb
      simp only [inWindow, List.all_eq_true, Bool.and_eq_true, decide_eq_true_eq] at h
      exact (h b hb).1
    simp only [inWindow] at h
    have hf : bs.filter (fun b => decide (b.1 < b.2)) = bs :=
      List.filter_eq_self.mpr (fun b hb => by simpa using good_pos bs hg b hb)
    have hgs := good_shiftDown cs bs hg hlow
    simp only [chunkBlocks, h, if_true, offOf, hf]
    have : (bs.map fun b => (b.1 - cs, b.2 - cs)) = bs.map (shiftDown cs) := rfl
    rw [this, good_sorted st _ hgs]
    simp

theorem inWindow_lower (p : Par) (bs : List Blk) (h : inWindow p bs = true) :
    ∀ b ∈ bs, offOf false p ≤ b.1 := by
  intro b hb
  cases p with
  | none => simp [offOf]
  | chromosome => simp [offOf]
  | chunk cs ce =>
    simp only [inWindow, List.all_eq_true, Bool.and_eq_true, decide_eq_true_eq] at h
    simpa [offOf] using (h b hb).1

/-- a good CDS inside the exon bounds lies in every window that contains the exons -/
theorem inWindow_cds (p : Par) (e0 c0 : Blk) (erest crest : List Blk)
    (_hge : good (e0 :: erest) = true) (hgc : good (c0 :: crest) = true)
    (h1 : e0.1 ≤ c0.1) (h2 : (lastOf c0 crest).2 ≤ (lastOf e0 erest).2)
    (hw : inWindow p (e0 :: erest) = true) : inWindow p (c0 :: crest) = true := by
  cases p with
  | none => rfl
  | chromosome => rfl
  | chunk cs ce =>
    simp only [inWindow, List.all_eq_true, Bool.and_eq_true, decide_eq_true_eq] at hw ⊢
    intro b hb
    have hb' := good_bounds c0 crest hgc b hb
    have hf := hw e0 (by simp)
    have hl := hw (lastOf e0 erest) (List.mem_of_getLast? (getLast?_lastOf e0 erest))
    omega

/-- `TranscriptInterval.to_bed12` meets C14 on every interval of the domain, in chromosome mode, in
    chunk-relative mode when repaired, and as coded when the coordinate origin is 0. -/
theorem txCore_ok (rep chromRel : Bool) (x : Iv) (score : Nat) (rgb : Nat × Nat × Nat) (sel : NameSel)
    (hwf : wf x = true) (ht1 : '\t' ∉ optStr x.seqName) (ht2 : '\t' ∉ optStr (selName x sel))
    (hcov : rep = true ∨ chromRel = true ∨ offOf false x.par = 0) :
    ∃ b, txCore rep x score rgb sel chromRel = some b ∧
         okBed12 (wantOf x score rgb sel chromRel) (some b.str) = true := by
  unfold wf at hwf
  cases hex : x.exons with
  | nil => rw [hex] at hwf; exact absurd hwf (by simp)
  | cons e0 erest =>
    rw [hex] at hwf
    simp only [Bool.and_eq_true] at hwf
    obtain ⟨⟨hge, hwin⟩, hcds⟩ := hwf
    cases chromRel with
    | true =>
      refine ⟨_, by simp only [txCore, hex, if_true]; rfl, ?_⟩
      apply ok_of_row _ _ e0 erest hge rfl rfl rfl rfl rfl
      · simp only [wantOf, offOf, if_true, map_shiftUp_zero]; exact hex.symm
      · rfl
      · rfl
      · rfl
      · rfl
      · rfl
      · exact ht1
      · exact ht2
      · cases hc : x.cds with
        | none => left; simp [wantOf, hc]
        | some cb =>
          rw [hc] at hcds
          cases cb with
          | nil => exact absurd hcds (by simp)
          | cons c0 crest =>
            simp only [Bool.and_eq_true, decide_eq_true_eq] at hcds
            obtain ⟨⟨hgc, h1⟩, h2⟩ := hcds
            have hb := good_bounds c0 crest hgc c0 (by simp)
            right
            simp only [wantOf, hc, Option.bind_some, spanOf_good c0 crest hgc, offOf, if_true, Nat.add_zero]
            exact ⟨trivial, h1, by omega, h2⟩
    | false =>
      have hlow := inWindow_lower x.par (e0 :: erest) hwin
      have hcb := chunkBlocks_eq x.strand x.par (e0 :: erest) hwin hge
      have hbnd := good_bounds e0 erest hge
      have horigin : (if rep = true then (shiftDown (offOf false x.par) e0).1 else e0.1)
          = (shiftDown (offOf false x.par) e0).1 := by
        rcases hcov with h | h | h
        · simp [h]
        · exact absurd h (by simp)
        · rw [h]; simp [shiftDown]
      have hgood' := good_shiftDown (offOf false x.par) (e0 :: erest) hge hlow
      simp only [List.map_cons] at hgood' hcb
      -- the thick columns
      cases hc : x.cds with
      | none =>
        refine ⟨_, by simp only [txCore, hex, hcb, hc, Bool.false_eq_true, if_false]; rfl, ?_⟩
        apply ok_of_row _ _ (shiftDown (offOf false x.par) e0) (erest.map (shiftDown (offOf false x.par))) hgood' rfl
        · show maxEnd _ = _; exact maxEnd_good _ _ hgood'
        · rfl
        · rfl
        · show startsRel _ _ = _; rw [horigin]
        · have := shiftUp_shiftDown (offOf false x.par) (e0 :: erest)
            (fun b hb => ⟨hlow b hb, Nat.le_of_lt (hbnd b hb).2.1⟩)
          simp only [List.map_cons] at this
          simp only [wantOf, List.map_cons]; rw [this]; exact hex.symm
        · rfl
        · rfl
        · rfl
        · rfl
        · rfl
        · exact ht1
        · exact ht2
        · left; simp [wantOf, hc]
      | some cb =>
        rw [hc] at hcds
        cases cb with
        | nil => exact absurd hcds (by simp)
        | cons c0 crest =>
          simp only [Bool.and_eq_true, decide_eq_true_eq] at hcds
          obtain ⟨⟨hgc, h1⟩, h2⟩ := hcds
          have hwc := inWindow_cds x.par e0 c0 erest crest hge hgc h1 h2 hwin
          have hlowc := inWindow_lower x.par (c0 :: crest) hwc
          have hcc := chunkBlocks_eq x.strand x.par (c0 :: crest) hwc hgc
          have hgc' := good_shiftDown (offOf false x.par) (c0 :: crest) hgc hlowc
          simp only [List.map_cons] at hgc' hcc
          refine ⟨_, by simp only [txCore, hex, hcb, hc, hcc, Bool.false_eq_true, if_false]; rfl, ?_⟩
          apply ok_of_row _ _ (shiftDown (offOf false x.par) e0) (erest.map (shiftDown (offOf false x.par))) hgood' rfl
          · show maxEnd _ = _; exact maxEnd_good _ _ hgood'
          · rfl
          · rfl
          · show startsRel _ _ = _; rw [horigin]
          · have := shiftUp_shiftDown (offOf false x.par) (e0 :: erest)
              (fun b hb => ⟨hlow b hb, Nat.le_of_lt (hbnd b hb).2.1⟩)
            simp only [List.map_cons] at this
            simp only [wantOf, List.map_cons]; rw [this]; exact hex.symm
          · rfl
          · rfl
          · rfl
          · rfl
          · rfl
          · exact ht1
          · exact ht2
          · right
            have hb := good_bounds c0 crest hgc c0 (by simp)
            have hl0 := hlowc c0 (by simp)
            have hme : maxEnd (shiftDown (offOf false x.par) c0 :: crest.map (shiftDown (offOf false x.par)))
                = (lastOf c0 crest).2 - offOf false x.par := by
              rw [maxEnd_good _ _ hgc', lastOf_map]; rfl
            have hle : (lastOf e0 erest).2 - offOf false x.par
                = (lastOf (shiftDown (offOf false x.par) e0) (erest.map (shiftDown (offOf false x.par)))).2 := by
              rw [lastOf_map]; rfl
            have he0 := hlow e0 (by simp)
            simp only [wantOf, hc, Option.bind_some, spanOf_good c0 crest hgc]
            show _ ∧ _ ∧ _ ∧ _
            simp only [hme]
            rw [← hle]
            simp only [shiftDown]
            refine ⟨?_, by omega, by omega, by omega⟩
            congr 2 <;> omega

/-- `FeatureInterval.to_bed12` is `TranscriptInterval.to_bed12` of the interval without a CDS -/
theorem featCore_eq (rep chromRel : Bool) (x : Iv) (score : Nat) (rgb : Nat × Nat × Nat) (sel : NameSel)
    (hc : x.cds = none) : featCore rep x score rgb sel chromRel = txCore rep x score rgb sel chromRel := by
  unfold featCore txCore
  cases hex : x.exons with
  | nil => rfl
  | cons e0 erest =>
    cases chromRel with
    | true => simp only [hc, if_true]
    | false =>
      simp only [hc, Bool.false_eq_true, if_false]

/-! ### columns that do not depend on the layout; block count in the domain; zero-length blocks -/

/-- chrom, name, score, strand and colour columns are copied for EVERY interval (no domain restriction) -/
theorem txCore_plain_columns (rep chromRel : Bool) (x : Iv) (score : Nat) (rgb : Nat × Nat × Nat) (sel : NameSel)
    (b : Bed12) (h : txCore rep x score rgb sel chromRel = some b) :
    b.chrom = x.seqName ∧ b.name = selName x sel ∧ b.score = score ∧ b.strand = x.strand ∧ b.rgb = rgb := by
  unfold txCore at h
  cases hex : x.exons with
  | nil => rw [hex] at h; simp at h
  | cons e0 erest =>
    rw [hex] at h
    cases chromRel with
    | true =>
      simp only [if_true, Option.some.injEq] at h
      subst h; exact ⟨rfl, rfl, rfl, rfl, rfl⟩
    | false =>
      simp only [Bool.false_eq_true, if_false] at h
      split at h
      · split at h
        · simp at h
        · simp only [Option.some.injEq] at h
          subst h; exact ⟨rfl, rfl, rfl, rfl, rfl⟩
      · simp at h

/-- a record without coding region carries the `0 0` thick convention, in both modes, for EVERY interval -/
theorem txCore_noncoding_thick (rep chromRel : Bool) (x : Iv) (score : Nat) (rgb : Nat × Nat × Nat) (sel : NameSel)
    (hc : x.cds = none) (b : Bed12) (h : txCore rep x score rgb sel chromRel = some b) :
    b.thickStart = 0 ∧ b.thickEnd = 0 := by
  unfold txCore at h
  cases hex : x.exons with
  | nil => rw [hex] at h; simp at h
  | cons e0 erest =>
    rw [hex] at h
    cases chromRel with
    | true =>
      simp only [hc, if_true, Option.some.injEq] at h
      subst h; exact ⟨rfl, rfl⟩
    | false =>
      simp only [hc, Bool.false_eq_true, if_false] at h
      split at h
      · simp only [Option.some.injEq] at h
        subst h; exact ⟨rfl, rfl⟩
      · simp at h

/-- in the domain nothing is dropped: the record has as many blocks as the interval, in both modes -/
theorem txCore_count (rep chromRel : Bool) (x : Iv) (score : Nat) (rgb : Nat × Nat × Nat) (sel : NameSel)
    (hwf : wf x = true) (b : Bed12) (h : txCore rep x score rgb sel chromRel = some b) :
    b.blockCount = x.exons.length ∧ b.blockSizes.length = x.exons.length ∧ b.blockStarts.length = x.exons.length := by
  unfold wf at hwf
  cases hex : x.exons with
  | nil => rw [hex] at hwf; exact absurd hwf (by simp)
  | cons e0 erest =>
    rw [hex] at hwf
    simp only [Bool.and_eq_true] at hwf
    obtain ⟨⟨hge, hwin⟩, _⟩ := hwf
    unfold txCore at h
    rw [hex] at h
    cases chromRel with
    | true =>
      simp only [if_true, Option.some.injEq] at h
      subst h; simp [sizes, startsRel]
    | false =>
      have hcb := chunkBlocks_eq x.strand x.par (e0 :: erest) hwin hge
      simp only [List.map_cons] at hcb
      simp only [Bool.false_eq_true, if_false, hcb] at h
      split at h
      · simp at h
      · simp only [Option.some.injEq] at h
        subst h; simp [sizes, startsRel]

/-- the constructor's own checks put every accepted interval with good block lists into the domain `wf`
    (in particular they give `thick ⊆ [start, end]`) -/
theorem mkIv_wf (exons : List Blk) (st : Strand) (cds : Option (List Blk)) (sn sy id : Option (List Char))
    (par : Par) (x : Iv) (h : mkIv exons st cds sn sy id par = .ok x)
    (hg : good exons = true) (hgc : ∀ cb, cds = some cb → good cb = true) (hw : inWindow par exons = true) :
    wf x = true ∧ x = ⟨exons, st, cds, sn, sy, id, par⟩ := by
  unfold mkIv at h
  cases exons with
  | nil => simp [throw, throwThe, MonadExceptOf.throw] at h
  | cons e0 erest =>
    simp only at h
    split at h
    · simp [throw, throwThe, MonadExceptOf.throw] at h
    · cases cds with
      | none =>
        simp only [pure, Except.pure, Except.ok.injEq] at h
        subst h
        simp [wf, hg, hw]
      | some cb =>
        cases cb with
        | nil => simp [throw, throwThe, MonadExceptOf.throw] at h
        | cons c0 crest =>
          simp only at h
          split at h
          · simp [throw, throwThe, MonadExceptOf.throw] at h
          · split at h
            · simp [throw, throwThe, MonadExceptOf.throw] at h
            · split at h
              · simp [throw, throwThe, MonadExceptOf.throw] at h
              · split at h
                · simp [throw, throwThe, MonadExceptOf.throw] at h
                · simp only [pure, Except.pure, Except.ok.injEq] at h
                  subst h
                  have := hgc _ rfl
                  simp only [wf, hg, hw, this, Bool.true_and, Bool.and_eq_true, decide_eq_true_eq]
                  refine ⟨⟨by omega, by omega⟩, trivial⟩

end BioCantor.Proofs.Bed
